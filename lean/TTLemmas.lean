import TTLemmas.Sum
import TTLemmas.Add
import TTLemmas.Mul
import TTLemmas.Simple
