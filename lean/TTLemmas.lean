import TTLemmas.Sum
import TTLemmas.Add
import TTLemmas.Mul
import TTLemmas.Simple
import TTLemmas.Trunc
import TTLemmas.Matmul
import TTLemmas.Sweep
import TTLemmas.ReduceDims
