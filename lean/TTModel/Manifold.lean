import TTModel.Kernels
/-!
# M-val: Riemannian projection onto the tangent space of the fixed-rank TT manifold (`torchtt/manifold.py`, C16)

`delta2cores` is `_delta2cores` (Algorithm 5.1 of the AD-for-Riemannian-optimisation paper): from the
left-orthogonal cores `L_k`, right-orthogonal cores `R_k` and the variations `δ_k` it builds the rank-2r
train with transfer matrices `[δ_0 L_0]`, `[[R_k 0],[δ_k L_k]]`, `[R_{d-1}; δ_{d-1}]`.
`projSds` computes the gauge-projected variations of `riemannian_projection`.
-/
namespace TT.Manifold
open TT TT.Kern

variable {α : Type} [Zero α] [One α] [Add α] [Mul α] [Neg α]

/-- `tn.cat((a, b), last axis)` -/
def catR1 (a b : Core α) : Core α :=
  { r0 := a.r0, m := a.m, n := a.n, r1 := a.r1 + b.r1
    get := fun p i j q => if q < a.r1 then a.get p i j q else b.get p i j (q - a.r1) }

/-- `tn.cat((a, b), 0)` -/
def catR0 (a b : Core α) : Core α :=
  { r0 := a.r0 + b.r0, m := a.m, n := a.n, r1 := a.r1
    get := fun p i j q => if p < a.r0 then a.get p i j q else b.get (p - a.r0) i j q }

def zeroLike (c : Core α) : Core α := { c with get := fun _ _ _ _ => 0 }

/-- middle and last cores of `_delta2cores`; `ls rs ds` are the cores from position 1 on -/
def deltaTail : List (Core α) → List (Core α) → List (Core α) → List (Core α)
  | [_], [r], [d] => [catR0 r d]
  | l :: ls, r :: rs, d :: ds => catR0 (catR1 r (zeroLike r)) (catR1 d l) :: deltaTail ls rs ds
  | _, _, _ => []

/-- `_delta2cores(tt_cores, R, Sds, ortho=[l_cores, r_cores])` for order ≥ 2 -/
def delta2cores : List (Core α) → List (Core α) → List (Core α) → List (Core α)
  | l :: ls, _ :: rs, d :: ds => catR1 d l :: deltaTail ls rs ds
  | _, _, _ => []

/-- `einsum('rs,rijR,sijS->RS', P, l, z)` -/
def pleftStep (P : Phi2 α) (l z : Core α) : Phi2 α :=
  fun R S => sumTo l.r0 (fun r => sumTo z.r0 (fun s => sumTo l.m (fun i => sumTo l.n (fun j =>
    P r s * l.get r i j R * z.get s i j S))))

/-- `einsum('RS,rijR,sijS->rs', P, r, z)` -/
def prightStep (P : Phi2 α) (rc z : Core α) : Phi2 α :=
  fun r s => sumTo rc.r1 (fun R => sumTo z.r1 (fun S => sumTo rc.m (fun i => sumTo rc.n (fun j =>
    P R S * rc.get r i j R * z.get s i j S))))

/-- `Pleft[k]` for k = 0 … : running left products -/
def pleftList : List (Core α) → List (Core α) → Phi2 α → List (Phi2 α)
  | l :: ls, z :: zs, P => let P' := pleftStep P l z; P' :: pleftList ls zs P'
  | _, _, _ => []

/-- right products from the right end; result aligned with core positions (entry for position k is the
    contraction of cores k … d-1) -/
def prightList : List (Core α) → List (Core α) → List (Phi2 α)
  | [], _ => []
  | _, [] => []
  | rc :: rs, z :: zs =>
    let rest := prightList rs zs
    let P := match rest with | p :: _ => p | [] => (fun _ _ => 1)
    prightStep P rc z :: rest

/-- one gauge-projected variation: `(L·z_k − l_k (l_kᵀ L z_k)) · Rᵀ`, or `L·z_k` on the last core -/
def projSd (L : Phi2 α) (Rm : Option (Phi2 α)) (rR : Nat) (l z : Core α) : Core α :=
  let tmp1 : Nat → Nat → Nat → Nat → α := fun r i j S => sumTo z.r0 (fun s => L r s * z.get s i j S)
  match Rm with
  | none => { r0 := l.r0, m := z.m, n := z.n, r1 := z.r1, get := tmp1 }
  | some Rp =>
    let inner := pleftStep L l z
    let tmp2 : Nat → Nat → Nat → Nat → α := fun r i j S => sumTo l.r1 (fun R => l.get r i j R * inner R S)
    { r0 := l.r0, m := z.m, n := z.n, r1 := rR
      get := fun r i j R => sumTo z.r1 (fun S => (tmp1 r i j S + - tmp2 r i j S) * Rp R S) }

/-- all variations `Sds` of `riemannian_projection(x, z)` given the gauges `ls`, `rs` of `x` -/
def projSdsGo : List (Core α) → List (Core α) → List (Phi2 α) → Phi2 α → List (Core α)
  | [l], [z], _, L => [projSd L none 0 l z]
  | l :: ls, z :: zs, _ :: pr :: prs, L =>
    projSd L (some pr) l.r1 l z :: projSdsGo ls zs (pr :: prs) (pleftStep L l z)
  | _, _, _, _ => []

def projSds (ls rs zs : List (Core α)) : List (Core α) :=
  projSdsGo ls zs (prightList rs zs) (fun _ _ => 1)

/-- `riemannian_projection(x, z)` given the gauges of `x` -/
def project (ls rs zs : List (Core α)) : List (Core α) := delta2cores ls rs (projSds ls rs zs)

end TT.Manifold
