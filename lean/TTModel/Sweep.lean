/-!
# M-sweep: control flow / index bookkeeping of `reshape` and `permute` on mode sizes only (C10)

`reshapeGo` is the two-cursor loop of `torchtt._extras.reshape` (tensor branch) reduced to what it does
to the mode sizes: `cur` is the mode size of the working core, `rest` the modes of the source cores
not loaded yet, `dst` the target modes not produced yet.  It returns the produced modes and the
number of SVD splits.  `bubble` is the bubble sort of `permute` on the positions `dims.index(i)`.
-/
namespace TT.Sweep

/-- one run of the `while True` loop; structurally decreasing in `rest.length + dst.length` (fuel) -/
def reshapeGo : Nat → Nat → List Nat → List Nat → List Nat → Nat → Option (List Nat × Nat)
  | 0, _, _, _, _, _ => none
  | _, _, _, [], acc, sp => some (acc.reverse, sp)
  | fuel+1, cur, rest, t :: dst, acc, sp =>
    if t ≠ 0 ∧ cur % t = 0 then
      if cur / t > 1 then
        -- split off a mode of size `t` by an SVD; the remainder stays the working core
        match dst with
        | [] => some ((t :: acc).reverse, sp + 1)          -- `idx_shape == len(shape)`: break
        | _ => reshapeGo fuel (cur / t) rest dst (t :: acc) (sp + 1)
      else
        -- the working core is consumed as it is
        match rest with
        | [] => some ((cur :: acc).reverse ++ dst.map (fun _ => 1), sp)   -- all cores consumed; trailing ones appended
        | c :: rest' =>
          match dst with
          | [] => some ((cur :: acc).reverse, sp)          -- target exhausted; remaining cores are absorbed
          | _ => reshapeGo fuel c rest' dst (cur :: acc) sp
    else
      -- merge with the next core
      match rest with
      | [] => none
      | c :: rest' => reshapeGo fuel (cur * c) rest' (t :: dst) acc sp

/-- mode sizes and number of SVD splits produced by `reshape(x, dst)` for a tensor of modes `src` -/
def reshapeModes (src dst : List Nat) : Option (List Nat × Nat) :=
  match src with
  | [] => none
  | c :: rest => reshapeGo (2 * (src.length + dst.length) + 2) c rest dst [] 0

def prod (l : List Nat) : Nat := l.foldl (· * ·) 1

/-! ### permute: bubble sort of the current mode order by target position -/

/-- position of `i` in `dims` (`dims.index(i)`) -/
def indexOf (dims : List Nat) (i : Nat) : Nat := (dims.findIdx? (· == i)).getD dims.length

/-- one `for i in range(d-1)` pass over `indices`; returns the new order and the positions swapped -/
def bubblePass (dims : List Nat) : List Nat → Nat → List Nat × List Nat
  | a :: b :: rest, i =>
    if indexOf dims a > indexOf dims b then
      let (l, sw) := bubblePass dims (a :: rest) (i + 1)
      (b :: l, i :: sw)
    else
      let (l, sw) := bubblePass dims (b :: rest) (i + 1)
      (a :: l, sw)
  | l, _ => (l, [])

/-- `while inversions:` loop with fuel; returns the final order and the list of swap positions in order -/
def bubble (dims : List Nat) : Nat → List Nat → List Nat → List Nat × List Nat
  | 0, idx, sw => (idx, sw)
  | fuel+1, idx, sw =>
    let (idx', s) := bubblePass dims idx 0
    if s = [] then (idx', sw) else bubble dims fuel idx' (sw ++ s)

/-- `permute(x, dims)`: final mode order (as indices into the input modes) and the swap positions -/
def permuteOrder (dims : List Nat) : List Nat × List Nat :=
  bubble dims (dims.length + 1) (List.range dims.length) []

end TT.Sweep
