/-!
# M-grad: the bookkeeping of `torchtt/grad.py` (`watch`, `unwatch`, `grad`) — which core's derivative sits in which slot

State: one `requires_grad` flag per core of the tensor.  `watch(tens, core_indices)` sets the flags of the listed cores (all cores for
`None`), `unwatch` clears all of them, `grad(val, tens, core_indices)` returns one slot per core (`None`) or per listed index — the slot
holds `tens.cores[idx].grad`, which autograd fills exactly for the cores that carry the flag (and leaves `None` otherwise).  Python list
indexing accepts negative positions (`cores[-1]`) and raises `IndexError` outside `[-d, d)`.
-/
namespace TT.GradApi

/-- Python list position → index, `none` = IndexError -/
def pos (d : Nat) (i : Int) : Option Nat :=
  if 0 ≤ i ∧ i < d then some i.toNat else if i < 0 ∧ -i ≤ d then some (d - (-i).toNat) else none

def setTrue : List Bool → Nat → List Bool
  | [], _ => []
  | _ :: fs, 0 => true :: fs
  | f :: fs, k + 1 => f :: setTrue fs k

/-- `watch(tens, core_indices)`; `none` result = IndexError -/
def watch (flags : List Bool) : Option (List Int) → Option (List Bool)
  | none => some (flags.map (fun _ => true))
  | some idx => idx.foldl (fun acc i => match acc, pos flags.length i with
      | some fl, some k => some (setTrue fl k)
      | _, _ => none) (some flags)

def unwatch (flags : List Bool) : List Bool := flags.map (fun _ => false)

/-- the slot content: `some k` = the derivative with respect to core `k` (an array of that core's shape), `none` = Python `None` -/
def slot (flags : List Bool) (k : Nat) : Option Nat := if flags.getD k false then some k else none

/-- `grad(val, tens, core_indices)`; outer `none` = IndexError -/
def grad (flags : List Bool) : Option (List Int) → Option (List (Option Nat))
  | none => some ((List.range flags.length).map (slot flags))
  | some idx => idx.foldr (fun i acc => match pos flags.length i, acc with
      | some k, some l => some (slot flags k :: l)
      | _, _ => none) (some [])

/-! `grad_list(val, tensors, all_in_one)`: the layout of the result for fully watched tensors of the given orders (numbers of cores).
Entry `(t, k)` stands for `tensors[t].cores[k].grad`. -/

/-- `all_in_one = False`: one list per tensor, in the order of `tensors`, each with that tensor's own number of cores -/
def gradListNested (orders : List Nat) : List (List (Nat × Nat)) :=
  (List.range orders.length).map (fun t => (List.range (orders.getD t 0)).map (fun k => (t, k)))

/-- `all_in_one = True`: the same entries in one flat list -/
def gradListFlat (orders : List Nat) : List (Nat × Nat) := (gradListNested orders).flatten

end TT.GradApi
