import TTModel.Algebra
import TTModel.Reduce
import TTModel.Reduce2
import TTModel.Extras
/-!
# Expression language over the modelled TT operations (C15)

`TE` are TT-tensor valued expressions, `SE` scalar valued ones.  `evalT`/`evalS` interpret them with
the core-by-core models; because the models are generic in the scalar type, running `evalS` over
dual numbers `a + b·ε` differentiates the expression exactly (forward mode) with respect to any
core entry.  `denseT`/`denseS` interpret the same expression on dense arrays (functions on
multi-indices): the specification.
-/
namespace TT

inductive TE (α : Type) where
  | var (i : Nat)
  | add (a b : TE α)
  | sub (a b : TE α)
  | mul (a b : TE α)
  | neg (a : TE α)
  | smul (a : TE α) (s : α)
  | adds (a : TE α) (s : α)
  | mv (A : Nat) (a : TE α)                       -- operator operand `A` applied to `a`
  | kron (a b : TE α)
  | cat (dim : Nat) (a b : TE α)
  | pad (a : TE α) (padding : List (Nat × Nat)) (v : α)
  | mprod (a : TE α) (mode rows : Nat) (F : List (List α))
  | sumsel (a : TE α) (idx : List Nat)
  | getitem (a : TE α) (sel : List Sel)

inductive SE (α : Type) where
  | sumall (a : TE α)
  | dot (a b : TE α)
  | normsq (a : TE α)
  | entry (a : TE α) (idx : List Nat)
  | bil (a : TE α) (A : Nat) (b : TE α)
  | add (x y : SE α)
  | mul (x y : SE α)
  | const (c : α)

variable {α : Type} [Zero α] [One α] [Add α] [Mul α] [Neg α] [DecidableEq α]

def matOfLists (F : List (List α)) : Nat → Nat → α :=
  fun i j => (F.getD i []).getD j 0

/-- TT evaluation; `envT` tensor operands, `envM` operator operands -/
def evalT (envT envM : List (List (Core α))) : TE α → List (Core α)
  | .var i => envT.getD i []
  | .add a b => add (evalT envT envM a) (evalT envT envM b)
  | .sub a b => sub (evalT envT envM a) (evalT envT envM b)
  | .mul a b => mul (evalT envT envM a) (evalT envT envM b)
  | .neg a => neg (evalT envT envM a)
  | .smul a s => smul (evalT envT envM a) s
  | .adds a s => addScalar (evalT envT envM a) s
  | .mv A a => matmul (envM.getD A []) (evalT envT envM a)
  | .kron a b => kron (evalT envT envM a) (evalT envT envM b)
  | .cat dim a b => cat dim [evalT envT envM a, evalT envT envM b]
  | .pad a padding v => padTensor (evalT envT envM a) padding v
  | .mprod a mode rows F => mprod (evalT envT envM a) mode rows (matOfLists F)
  | .sumsel a idx => sumSel (fun i => idx.contains i) (evalT envT envM a)
  | .getitem a sel =>
    match getitem sel (evalT envT envM a) with
    | some (r, _) => r
    | none => []

def evalS (envT envM : List (List (Core α))) : SE α → α
  | .sumall a => sumAll (evalT envT envM a)
  | .dot a b => dotFull id (evalT envT envM a) (evalT envT envM b)
  | .normsq a => normSq id (evalT envT envM a)
  | .entry a idx => applyMask (evalT envT envM a) idx
  | .bil a A b => bilinear id (evalT envT envM a) (envM.getD A []) (evalT envT envM b)
  | .add x y => evalS envT envM x + evalS envT envM y
  | .mul x y => evalS envT envM x * evalS envT envM y
  | .const c => c

/-- programs: operands scaled by a scalar expression are defined one after the other (`T_new := T_i * s`, with `s` any scalar expression over
    the operands defined so far — the `x * torchtt.dot(x, y)` pattern in which the scalar factor itself depends on the cores), then a scalar head -/
def evalProg (envT envM : List (List (Core α))) : List (Nat × SE α) → SE α → α
  | [], e => evalS envT envM e
  | (i, s) :: rest, e => evalProg (envT ++ [smul (envT.getD i []) (evalS envT envM s)]) envM rest e

/-! ### dense semantics of the shape-preserving fragment (fixed mode list `ns`) -/

/-- dense arrays of a fixed shape are functions on multi-indices -/
abbrev Dense (α : Type) := List Nat → α

/-- dense interpretation of the fragment `var, add, sub, mul, neg, smul, adds, mv`; `dT i` / `dM A`
    are the dense operands, `ns` the common mode sizes -/
def denseT (ns : List Nat) (dT : Nat → Dense α) (dM : Nat → List Nat → List Nat → α) : TE α → Option (Dense α)
  | .var i => some (dT i)
  | .add a b => match denseT ns dT dM a, denseT ns dT dM b with
    | some f, some g => some (fun is => f is + g is) | _, _ => none
  | .sub a b => match denseT ns dT dM a, denseT ns dT dM b with
    | some f, some g => some (fun is => f is + - g is) | _, _ => none
  | .mul a b => match denseT ns dT dM a, denseT ns dT dM b with
    | some f, some g => some (fun is => f is * g is) | _, _ => none
  | .neg a => (denseT ns dT dM a).map (fun f is => - f is)
  | .smul a s => (denseT ns dT dM a).map (fun f is => f is * s)
  | .adds a s => (denseT ns dT dM a).map (fun f is => f is + s)
  | .mv A a => (denseT ns dT dM a).map (fun f is => sumIdx ns (fun ks => dM A is ks * f ks))
  | _ => none

def denseS (ns : List Nat) (dT : Nat → Dense α) (dM : Nat → List Nat → List Nat → α) : SE α → Option α
  | .sumall a => (denseT ns dT dM a).map (fun f => sumIdx ns f)
  | .dot a b => match denseT ns dT dM a, denseT ns dT dM b with
    | some f, some g => some (sumIdx ns (fun is => f is * g is)) | _, _ => none
  | .normsq a => (denseT ns dT dM a).map (fun f => sumIdx ns (fun is => f is * f is))
  | .entry a idx => (denseT ns dT dM a).map (fun f => f idx)
  | .bil a A b => match denseT ns dT dM a, denseT ns dT dM b with
    | some f, some g => some (sumIdx ns (fun is => sumIdx ns (fun js => f is * dM A is js * g js))) | _, _ => none
  | .add x y => match denseS ns dT dM x, denseS ns dT dM y with
    | some u, some v => some (u + v) | _, _ => none
  | .mul x y => match denseS ns dT dM x, denseS ns dT dM y with
    | some u, some v => some (u * v) | _, _ => none
  | .const c => some c

/-- dense programs: the new operand is the dense operand `i` times the dense value of the scalar expression; operands are numbered `0..k-1` -/
def denseProg (ns : List Nat) (k : Nat) (dT : Nat → Dense α) (dM : Nat → List Nat → List Nat → α) : List (Nat × SE α) → SE α → Option α
  | [], e => denseS ns dT dM e
  | (i, s) :: rest, e =>
    match denseS ns dT dM s with
    | some c => denseProg ns (k + 1) (fun j => if j = k then (fun is => dT i is * c) else dT j) dM rest e
    | none => none

end TT
