import TTModel.Decomp
/-!
# M-val: the TT-matrix variants of the decomposition sweeps (`mat_to_tt`, `lr_orthogonal(is_ttm=True)`, `round_tt(is_ttm=True)`)

`torchtt/_decomposition.py` treats a TT-matrix core `[r, m, n, r']` as the tensor core `[r, m·n, r']` (row-major merge of the two
mode indices) in every unfolding, and reshapes back at the end.  `mat_to_tt` first interleaves the row and column modes of the
dense array (`reshape M+N`, `permute (0,d,1,d+1,…)`, `reshape [M₁N₁,…]`) and then runs `to_tt`.  The models below are therefore the
tensor models of `TTModel/Decomp.lean` conjugated with `mergeModes` / `splitModes`.
-/
namespace TT.Decomp
open TT

variable {α : Type} [Zero α] [One α] [Add α] [Mul α]

/-- `[r, m, n, r'] → [r, m·n, r']` (row-major) -/
def mergeModes (c : Core α) : Core α :=
  { r0 := c.r0, m := c.m * c.n, n := 1, r1 := c.r1, get := fun a I _ b => c.get a (I / c.n) (I % c.n) b }

/-- `[r, m·n, r'] → [r, m, n, r']` -/
def splitModes (mn : Nat × Nat) (c : Core α) : Core α :=
  { r0 := c.r0, m := mn.1, n := mn.2, r1 := c.r1, get := fun a i j b => c.get a (i * mn.2 + j) 0 b }

def splitAll : List (Nat × Nat) → List (Core α) → List (Core α)
  | mn :: mns, c :: cs => splitModes mn c :: splitAll mns cs
  | _, _ => []

def modesMN' (cs : List (Core α)) : List (Nat × Nat) := cs.map (fun c => (c.m, c.n))

/-- `lr_orthogonal(cores, R, is_ttm=True)` -/
def lrOrthM (qr : Oracle α) (cs : List (Core α)) : List (Core α) :=
  splitAll (modesMN' cs) (lrOrth qr (cs.map mergeModes))

/-- `round_tt(cores, R, eps, rmax, is_ttm=True)` -/
def roundTTM (qr svd : Oracle α) (cs : List (Core α)) : List (Core α) :=
  splitAll (modesMN' cs) (roundTT qr svd (cs.map mergeModes))

/-- digits of a flat row-major index -/
def unflatIdx : List Nat → Nat → List Nat
  | [], _ => []
  | _ :: ns, j => (j / prodNat ns) :: unflatIdx ns (j % prodNat ns)

/-- `mat_to_tt(A, M, N)`: `A` is given through the flat row-major index of the shape `M ++ N`; the interleaved array has the
    merged modes `M_k·N_k` with digit `p_k = i_k·N_k + j_k` -/
def toTTM (svd : Oracle α) (M N : List Nat) (A : Nat → α) : List (Core α) :=
  let MN := List.zipWith (· * ·) M N
  let A' : Nat → α := fun J =>
    let ps := unflatIdx MN J
    let is := List.zipWith (fun p n => p / n) ps N
    let js := List.zipWith (fun p n => p % n) ps N
    A (flatIdx (M ++ N) (is ++ js))
  splitAll (M.zip N) (toTT svd MN A')

end TT.Decomp
