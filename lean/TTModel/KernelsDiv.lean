import TTModel.Kernels
import TTModel.Extras
/-!
# M-val: the 3-index kernels of `torchtt/_division.py`

Elementwise division `x / y` is the AMEn solve of `diag(y) q = x`; its kernels contract the divisor's
TT-tensor core `[s, m, S]` directly instead of an operator core.  Each is stated as written in the
source; the theorems (`TT.C13`) show they coincide with the C12 kernels on `diagEmbed`.
-/
namespace TT.Kern
open TT

variable {α : Type} [Zero α] [One α] [Add α] [Mul α]

/-- `local_product` of `_division.py`: `'lsr,smS,LSR,rmR->lmL'` -/
def divLocalProduct (PL PR : Phi3 α) (y u : Core α) : Nat → Nat → Nat → α :=
  fun l m L => sumTo y.r0 (fun s => sumTo u.r0 (fun r => sumTo y.r1 (fun S => sumTo u.r1 (fun R =>
    PL l s r * y.get s m 0 S * PR L S R * u.get r m 0 R))))

/-- `compute_phi_fwd_A` of `_division.py`: `'lsr,lML,sMS,rMR->LSR'` -/
def divPhiFwdA (P : Phi3 α) (x y z : Core α) : Phi3 α :=
  fun L S R => sumTo x.r0 (fun l => sumTo y.r0 (fun s => sumTo z.r0 (fun r => sumTo y.m (fun M =>
    P l s r * x.get l M 0 L * y.get s M 0 S * z.get r M 0 R))))

/-- `compute_phi_bck_A` of `_division.py`: `'LSR,lML,sMS,rMR->lsr'` -/
def divPhiBckA (P : Phi3 α) (x y z : Core α) : Phi3 α :=
  fun l s r => sumTo x.r1 (fun L => sumTo y.r1 (fun S => sumTo z.r1 (fun R => sumTo y.m (fun M =>
    P L S R * x.get l M 0 L * y.get s M 0 S * z.get r M 0 R))))

/-- the operator core of `diag(y)`: `einsum('ijk,jm->ijmk', y, eye)` (one core of `diagEmbed`) -/
def diagCore (y : Core α) : Core α :=
  { r0 := y.r0, m := y.m, n := y.m, r1 := y.r1, get := fun a i j b => y.get a i 0 b * (if i = j then 1 else 0) }

end TT.Kern
