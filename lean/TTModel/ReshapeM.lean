import TTModel.Reshape
import TTModel.DecompM
/-!
# M-val: `torchtt.reshape` for TT-matrices (C10)

Same two-cursor loop as the tensor branch (`TTModel/Reshape.lean`) but every step acts on the row mode and the column mode separately:
the working core matches a target pair `(M_t, N_t)` when both of its modes are multiples; a proper multiple is split by the two-core
`mat_to_tt` (one SVD of the `(r·m₁·n₁) × (m₂·n₂·r')` unfolding); two cores are merged with `einsum('ijkl,lmno->ijmkno')` (row indices
together, column indices together — NOT the interleaved merge of the tensor branch).  `rl_orthogonal` first, `round` last.
-/
namespace TT.Reshape
open TT TT.Decomp TT.Permute

variable {α : Type} [Zero α] [One α] [Add α] [Mul α]

/-- `einsum('ijkl,lmno->ijmkno')` + `reshape [r, m₁m₂, n₁n₂, r']` -/
def mergeCM (x y : Core α) : Core α :=
  { r0 := x.r0, m := x.m * y.m, n := x.n * y.n, r1 := y.r1,
    get := fun a I J b => sumTo x.r1 (fun k => x.get a (I / y.m) (J / y.n) k * y.get k (I % y.m) (J % y.n) b) }

/-- `einsum('ijkl,lm->ijkm', c, y[:,0,0,:])` -/
def absorb1M (c y : Core α) : Core α :=
  { r0 := c.r0, m := c.m, n := c.n, r1 := y.r1, get := fun a i j b => sumTo c.r1 (fun k => c.get a i j k * y.get k 0 0 b) }

def absorbAllM (c : Core α) : List (Core α) → Core α
  | [] => c
  | y :: ys => if y.m = 1 ∧ y.n = 1 then absorbAllM (absorb1M c y) ys else absorbAllM c ys

/-- split `[r, m₁m₂, n₁n₂, r']` into `[r, m₁, n₁, ρ]` and `[ρ, m₂, n₂, r']` (`mat_to_tt` on two cores) -/
def splitStepM (svd : Oracle α) (cur : Core α) (m1 n1 : Nat) : Core α × Core α :=
  let m2 := cur.m / m1
  let n2 := cur.n / n1
  let M : Mat α := fun p q =>
    cur.get (p / n1 / m1) ((p / n1 % m1) * m2 + q / (n2 * cur.r1)) ((p % n1) * n2 + q % (n2 * cur.r1) / cur.r1) (q % cur.r1)
  let f := svd (cur.r0 * m1 * n1) (m2 * (n2 * cur.r1)) M
  ({ r0 := cur.r0, m := m1, n := n1, r1 := f.r, get := fun a i j k => f.left ((a * m1 + i) * n1 + j) k },
   { r0 := f.r, m := m2, n := n2, r1 := cur.r1, get := fun k i j b => f.right k (i * (n2 * cur.r1) + j * cur.r1 + b) })

def oneCoreM : Core α := { r0 := 1, m := 1, n := 1, r1 := 1, get := fun _ _ _ _ => 1 }

def reshapeGoM (svd : Oracle α) (fz : Core α → Core α) :
    Nat → Core α → List (Core α) → List (Nat × Nat) → List (Core α) → Option (List (Core α))
  | 0, _, _, _, _ => none
  | _, _, _, [], acc => some acc.reverse
  | fuel+1, cur, rest, (mt, nt) :: dst, acc =>
    if mt ≠ 0 ∧ nt ≠ 0 ∧ cur.m % mt = 0 ∧ cur.n % nt = 0 then
      if cur.m / mt > 1 ∨ cur.n / nt > 1 then
        match dst with
        | [] => none                                   -- excluded by the guards on the products of the shapes
        | _ =>
          let s := splitStepM svd cur mt nt
          reshapeGoM svd fz fuel (fz s.2) rest dst (fz s.1 :: acc)
      else
        match rest with
        | [] => some ((cur :: acc).reverse ++ dst.map (fun _ => oneCoreM))
        | c :: rest' =>
          match dst with
          | [] => some ((fz (absorbAllM cur (c :: rest')) :: acc).reverse)
          | _ => reshapeGoM svd fz fuel c rest' dst (cur :: acc)
    else
      match rest with
      | [] => none
      | c :: rest' => reshapeGoM svd fz fuel (fz (mergeCM cur c)) rest' ((mt, nt) :: dst) acc

/-- `rl_orthogonal(cores, R, is_ttm=True)` -/
def rlOrthM (qr : Oracle α) (cs : List (Core α)) : List (Core α) :=
  splitAll (modesMN' cs) (rlOrth qr (cs.map mergeModes))

def reshapeCoresMWith (fz : Core α → Core α) (qr svd : Oracle α) (dst : List (Nat × Nat)) (cs : List (Core α)) : Option (List (Core α)) :=
  match (rlOrthM qr cs).map fz with
  | [] => none
  | c :: rest => reshapeGoM svd fz (2 * (cs.length + dst.length) + 2) c rest dst []

/-- `reshape(A, [(M₁,N₁),…], eps)` for a TT-matrix -/
def reshapeTTMWith (fz : Core α → Core α) (qr svd : Oracle α) (dst : List (Nat × Nat)) (cs : List (Core α)) : Option (List (Core α)) :=
  (reshapeCoresMWith fz qr svd dst cs).map (fun r => roundTTM qr svd r)

end TT.Reshape
