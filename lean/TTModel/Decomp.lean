import TTModel.Basic
/-!
# M-val: the decomposition sweeps of `torchtt/_decomposition.py` with the numerical primitives as ORACLE parameters

`toTT` is `to_tt` (sequential SVD sweep), `lrOrth` is `lr_orthogonal` (left-to-right QR sweep), `roundTT` is
`round_tt` (QR sweep, then right-to-left SVD sweep).  Matrices are functions `Nat → Nat → α` with explicit
dimensions; reshapes are row-major index arithmetic exactly as `tn.reshape` does them.  An SVD oracle returns,
for a `rows × cols` matrix, the kept rank `r`, the left factor `U` (`rows × r`) and `W = diag(s)·Vᴴ` truncated
(`r × cols`); a QR oracle returns `k`, `Q` (`rows × k`), `R` (`k × cols`).  The theorems assume only the
algebraic contract `U·W = C` (resp. `Q·R = M`): exact reconstruction ⇒ the sweep preserves the tensor.
-/
namespace TT.Decomp
open TT

abbrev Mat (α : Type) := Nat → Nat → α

structure Fact (α : Type) where
  r : Nat
  left : Mat α      -- rows × r
  right : Mat α     -- r × cols

abbrev Oracle (α : Type) := (rows cols : Nat) → Mat α → Fact α

variable {α : Type} [Zero α] [One α] [Add α] [Mul α]

/-- `to_tt` loop: `C` is the current `rcur × cols` remainder, `ns` the modes not yet processed -/
def toTTGo (svd : Oracle α) : List Nat → Nat → Nat → Mat α → List (Core α)
  | [], _, _, _ => []
  | [n], rcur, _, C =>
    -- `cores.append(tn.reshape(C, [r[-2], N[-1], -1]))`
    [{ r0 := rcur, m := n, n := 1, r1 := 1, get := fun a i _ _ => C a i }]
  | n :: n' :: ns, rcur, cols, C =>
    let cols' := cols / n
    -- `C = tn.reshape(C, [m, -1])` with `m = N[i]*r[i]`
    let Cr : Mat α := fun p j => C (p / n) ((p % n) * cols' + j)
    let f := svd (rcur * n) cols' Cr
    -- `cores.append(tn.reshape(u, [r[i], N[i], r1]))`
    { r0 := rcur, m := n, n := 1, r1 := f.r, get := fun a i _ k => f.left (a * n + i) k }
      :: toTTGo svd (n' :: ns) f.r cols' f.right

def prodNat (l : List Nat) : Nat := l.foldl (· * ·) 1

/-- `to_tt(A, N)`: `A` is the dense tensor given through its flat row-major index -/
def toTT (svd : Oracle α) (N : List Nat) (A : Nat → α) : List (Core α) :=
  toTTGo svd N 1 (prodNat N) (fun _ j => A j)

/-- flat row-major index of a multi-index -/
def flatIdx : List Nat → List Nat → Nat
  | [], _ => 0
  | _, [] => 0
  | n :: ns, i :: is => i * prodNat ns + flatIdx ns is

/-- `lr_orthogonal` loop (tensor cores): QR of the `(r·n) × r'` unfolding, `R` absorbed into the next core -/
def lrOrthGo (qr : Oracle α) : Core α → List (Core α) → List (Core α)
  | c, [] => [c]
  | c, nxt :: rest =>
    let M : Mat α := fun p b => c.get (p / c.m) (p % c.m) 0 b
    let f := qr (c.r0 * c.m) c.r1 M
    let cq : Core α := { r0 := c.r0, m := c.m, n := 1, r1 := f.r, get := fun a i _ k => f.left (a * c.m + i) k }
    let nx : Core α := { r0 := f.r, m := nxt.m, n := 1, r1 := nxt.r1
                         get := fun k i _ b => sumTo nxt.r0 (fun t => f.right k t * nxt.get t i 0 b) }
    cq :: lrOrthGo qr nx rest

def lrOrth (qr : Oracle α) : List (Core α) → List (Core α)
  | [] => []
  | c :: cs => lrOrthGo qr c cs

/-- right-to-left SVD sweep of `round_tt` on the (reversed) list: `cur` is the core being split, `prev` the cores
    to its left in reverse order; the oracle factorises the `r × (n·r')` unfolding as `U·W`, `W` stays, `U` is
    absorbed to the left -/
def roundGo (svd : Oracle α) : Core α → List (Core α) → List (Core α) → List (Core α)
  | cur, [], acc => cur :: acc
  | cur, p :: prev, acc =>
    let M : Mat α := fun a q => cur.get a (q / cur.r1) 0 (q % cur.r1)
    let f := svd cur.r0 (cur.m * cur.r1) M
    let cnow : Core α := { r0 := f.r, m := cur.m, n := 1, r1 := cur.r1, get := fun k i _ b => f.right k (i * cur.r1 + b) }
    let pnew : Core α := { r0 := p.r0, m := p.m, n := 1, r1 := f.r
                           get := fun a i _ k => sumTo p.r1 (fun t => p.get a i 0 t * f.left t k) }
    roundGo svd pnew prev (cnow :: acc)

/-- `round_tt(cores)` for order ≥ 2 given QR and SVD oracles -/
def roundTT (qr svd : Oracle α) (cs : List (Core α)) : List (Core α) :=
  match (lrOrth qr cs).reverse with
  | [] => []
  | last :: prev => roundGo svd last prev []

/-- the exact-reconstruction contract of an oracle -/
def Exact [Zero α] [Add α] [Mul α] (o : Oracle α) : Prop :=
  ∀ rows cols (C : Mat α) i j, i < rows → j < cols →
    sumTo (o rows cols C).r (fun k => (o rows cols C).left i k * (o rows cols C).right k j) = C i j

/-- a concrete exact oracle used by the correspondence run: `C = I·C` when `rows ≤ cols`, else `C = C·I`,
    optionally keeping only the first `cap` columns/rows (then it is no longer exact) -/
def idOracle (cap : Nat) : Oracle α := fun rows cols C =>
  if rows ≤ cols then
    { r := min rows cap, left := fun i k => if i = k then 1 else 0, right := fun k j => C k j }
  else
    { r := min cols cap, left := fun i k => C i k, right := fun k j => if k = j then 1 else 0 }

end TT.Decomp
