/-!
# M-val: value model of tensor trains (core-only, executable)

A TT core is a 4-index array `get a i j b` with shape `r0 × m × n × r1`.
* TT-matrix (operator) cores of torchTT are exactly this (`[r, M_k, N_k, r']`).
* TT-tensor cores `[r, N_k, r']` are the `n = 1`, `j = 0` case (this is literally what
  `TT.to_ttm` does), so one set of definitions and lemmas serves both kinds.

No Mathlib import: everything here is run by the driver (`lake env lean --run`).
-/
namespace TT

/-- bounded sum `f 0 + … + f (n-1)`, core-only and executable -/
def sumTo {α : Type} [Zero α] [Add α] : Nat → (Nat → α) → α
  | 0, _ => 0
  | n+1, f => sumTo n f + f n

structure Core (α : Type) where
  r0 : Nat
  m : Nat
  n : Nat
  r1 : Nat
  get : Nat → Nat → Nat → Nat → α

variable {α : Type} [Zero α] [One α] [Add α] [Mul α]

/-- product of the transfer matrices selected by the multi-index `ij`,
    entry `(a, b)`; the empty product is the identity -/
def chain : List (Core α) → List (Nat × Nat) → Nat → Nat → α
  | [], _, a, b => if a = b then 1 else 0
  | _ :: _, [], _, _ => 0
  | c :: cs, ij :: ijs, a, b => sumTo c.r1 (fun k => c.get a ij.1 ij.2 k * chain cs ijs k b)

/-- **the TT semantics**: entry `(i_1 j_1, …, i_d j_d)` of the represented array -/
def full (cs : List (Core α)) (ij : List (Nat × Nat)) : α := chain cs ij 0 0

/-- ranks chain starting from left rank `r`; the last right rank is 1 -/
def WF : List (Core α) → Nat → Prop
  | [], r => r = 1
  | c :: cs, r => c.r0 = r ∧ WF cs c.r1

/-- executable twin of `WF` (used by the driver / M-shape) -/
def wfB : List (Core α) → Nat → Bool
  | [], r => r == 1
  | c :: cs, r => c.r0 == r && wfB cs c.r1

/-- every core is a tensor core (`n = 1`) -/
def IsTensor : List (Core α) → Prop
  | [] => True
  | c :: cs => c.n = 1 ∧ IsTensor cs

/-- two trains have the same mode sizes core by core -/
def SameModes : List (Core α) → List (Core α) → Prop
  | [], [] => True
  | x :: xs, y :: ys => x.m = y.m ∧ x.n = y.n ∧ SameModes xs ys
  | _, _ => False

/-- the row / column mode sizes -/
def modesM (cs : List (Core α)) : List Nat := cs.map (·.m)
def modesN (cs : List (Core α)) : List Nat := cs.map (·.n)
/-- the rank vector `[r0_1, r1_1, …, r1_d]` -/
def ranks : List (Core α) → List Nat
  | [] => [1]
  | c :: cs => c.r0 :: (c :: cs).map (·.r1)

/-- tensor-style multi-index `[i_1, …, i_d]` as operator index `[(i_1,0), …]` -/
def tIdx (is : List Nat) : List (Nat × Nat) := is.map (fun i => (i, 0))

end TT
