import TTModel.Basic
/-!
# M-val: TT algebra, core by core, as `torchtt/_tt_base.py` computes it

Each definition mirrors *what the implementation stores in each result core* (block placement
of `tnf.pad`, Kronecker index order `a*ry+m` of `einsum + reshape`, which core carries a scalar),
not how torch is asked to do it.  Source anchors are quoted at each definition.
-/
namespace TT

variable {α : Type} [Zero α] [One α] [Add α] [Mul α] [Neg α]

/-- `0 if i == 0 else R[i]`  /  `0 if i == d-1 else R[i+1]` of the pad tuples -/
def off (b : Bool) (r : Nat) : Nat := if b then 0 else r

/-- `tnf.pad(self.cores[i], pad1) + tnf.pad(other.cores[i], pad2)`  (`TT.__add__`, all branches).
    `x` occupies the upper-left block, `y` the lower-right block; on the first (last) core the
    row (column) offset is 0 so the blocks are stacked side by side. -/
def addCore (first last : Bool) (x y : Core α) : Core α :=
  { r0 := off first x.r0 + y.r0
    m := x.m
    n := x.n
    r1 := off last x.r1 + y.r1
    get := fun a i j b =>
      (if a < x.r0 ∧ b < x.r1 then x.get a i j b else 0) +
      (if off first x.r0 ≤ a ∧ off last x.r1 ≤ b
        then y.get (a - off first x.r0) i j (b - off last x.r1) else 0) }

def addFrom : Bool → List (Core α) → List (Core α) → List (Core α)
  | first, [x], [y] => [addCore first true x y]
  | first, x :: xs, y :: ys => addCore first false x y :: addFrom false xs ys
  | _, _, _ => []

/-- `x + y` for two trains with the same modes -/
def add (xs ys : List (Core α)) : List (Core α) := addFrom true xs ys

/-- multiply every entry of one core -/
def Core.scale (s : α) (c : Core α) : Core α := { c with get := fun a i j b => c.get a i j b * s }
def Core.neg (c : Core α) : Core α := { c with get := fun a i j b => - c.get a i j b }
def Core.mapVal (f : α → α) (c : Core α) : Core α := { c with get := fun a i j b => f (c.get a i j b) }

/-- `-other.cores[i] if i == 0 else other.cores[i]` -/
def negFirst : List (Core α) → List (Core α)
  | [] => []
  | c :: cs => c.neg :: cs

/-- `x - y`  (`TT.__sub__`) -/
def sub (xs ys : List (Core α)) : List (Core α) := add xs (negFirst ys)

/-- `-x` (`TT.__neg__`): first core negated -/
def neg (xs : List (Core α)) : List (Core α) := negFirst xs

/-- rank-1 constant core of a given mode shape -/
def constCore (v : α) (m n : Nat) : Core α := { r0 := 1, m := m, n := n, r1 := 1, get := fun _ _ _ _ => v }

/-- the rank-1 train `s · ones` that the scalar branches of `+`/`-` pad next to the operand:
    `tn.ones([1,1,1]) * (other if i == 0 else 1)` broadcast over the mode. -/
def scalarTT (s : α) : List (Core α) → List (Core α)
  | [] => []
  | c :: cs => constCore s c.m c.n :: cs.map (fun c => constCore 1 c.m c.n)

/-- `x + s`, `s + x` -/
def addScalar (xs : List (Core α)) (s : α) : List (Core α) := add xs (scalarTT s xs)
/-- `x - s`: the ones-train carries `-s` on core 0 -/
def subScalar (xs : List (Core α)) (s : α) : List (Core α) := add xs (scalarTT (-s) xs)
/-- `s - x` (`__rsub__`): `T = x - s; T.cores[0] = -T.cores[0]` -/
def rsubScalar (xs : List (Core α)) (s : α) : List (Core α) := negFirst (subScalar xs s)

/-- `tn.tile(core, (1, N, 1))` of a size-1 mode -/
def tileCore (y : Core α) (m n : Nat) : Core α :=
  { r0 := y.r0, m := m, n := n, r1 := y.r1, get := fun a _ _ b => y.get a 0 0 b }

/-- right-aligned cores of the broadcast branch: equal mode → as is, size-1 mode → tiled,
    anything else → `ShapeMismatch` (`none`) -/
def bcastAligned : List (Core α) → List (Core α) → Option (List (Core α))
  | [], [] => some []
  | x :: xs, y :: ys =>
    match bcastAligned xs ys with
    | none => none
    | some r =>
      if y.m = x.m ∧ y.n = x.n then some (y :: r)
      else if y.m = 1 ∧ y.n = 1 then some (tileCore y x.m x.n :: r)
      else none
  | _, _ => none

/-- the operand with fewer modes is right-aligned; the missing leading modes become all-ones
    rank-1 cores (`tn.ones((1, N[i], 1))`) -/
def bcast (xs ys : List (Core α)) : Option (List (Core α)) :=
  if xs.length < ys.length then none
  else
    let k := xs.length - ys.length
    match bcastAligned (xs.drop k) ys with
    | none => none
    | some r => some ((xs.take k).map (fun c => constCore 1 c.m c.n) ++ r)

/-- `reshape(einsum('aijb,mijn->amijbn'), [R*R', M, N, R*R'])` of `TT.__mul__`:
    merged rank index is `a*ry + m`. -/
def mulCore (x y : Core α) : Core α :=
  { r0 := x.r0 * y.r0, m := x.m, n := x.n, r1 := x.r1 * y.r1
    get := fun a i j b => x.get (a / y.r0) i j (b / y.r1) * y.get (a % y.r0) i j (b % y.r1) }

/-- elementwise (Hadamard) product -/
def mul : List (Core α) → List (Core α) → List (Core α)
  | x :: xs, y :: ys => mulCore x y :: mul xs ys
  | _, _ => []

/-- `cores_new[0] *= other` -/
def scaleFirst (s : α) : List (Core α) → List (Core α)
  | [] => []
  | c :: cs => c.scale s :: cs

/-- rank-1 all-zero train of the same modes (`other == 0` branch of `__mul__`) -/
def zerosLike (xs : List (Core α)) : List (Core α) := xs.map (fun c => constCore 0 c.m c.n)

/-- `x * s`, `s * x` -/
def smul [DecidableEq α] (xs : List (Core α)) (s : α) : List (Core α) :=
  if s = 0 then zerosLike xs else scaleFirst s xs

/-- `x / s` for a scalar: first core divided -/
def sdiv [Div α] : List (Core α) → α → List (Core α)
  | [], _ => []
  | c :: cs, s => c.mapVal (· / s) :: cs

/-- Kronecker product `x ** y`: concatenation of the core lists -/
def kron (xs ys : List (Core α)) : List (Core α) := xs ++ ys

/-- `reshape(einsum('ijkl,mknp->imjnlp'))` of `TT.__matmul__` (TT-matrix @ TT-matrix); with
    `y.n = 1` this is also the TT-matrix @ TT-tensor branch `'ijkl,mkp->imjlp'`. -/
def mmCore (x y : Core α) : Core α :=
  { r0 := x.r0 * y.r0, m := x.m, n := y.n, r1 := x.r1 * y.r1
    get := fun a i j b =>
      sumTo x.n (fun k => x.get (a / y.r0) i k (b / y.r1) * y.get (a % y.r0) k j (b % y.r1)) }

def matmul : List (Core α) → List (Core α) → List (Core α)
  | x :: xs, y :: ys => mmCore x y :: matmul xs ys
  | _, _ => []

/-- TT-tensor @ TT-matrix: `reshape(einsum('mkp,ikjl->imjlp'))`; merged rank index is
    `i*rx + m` with `i` the *operator's* rank index. -/
def vmCore (x A : Core α) : Core α :=
  { r0 := x.r0 * A.r0, m := A.n, n := 1, r1 := x.r1 * A.r1
    get := fun a j _ b =>
      sumTo A.m (fun k => x.get (a % x.r0) k 0 (b % x.r1) * A.get (a / x.r0) k j (b / x.r1)) }

def vecmat : List (Core α) → List (Core α) → List (Core α)
  | x :: xs, y :: ys => vmCore x y :: vecmat xs ys
  | _, _ => []

/-- `tn.permute(c, [0,2,1,3])` -/
def Core.t (c : Core α) : Core α :=
  { r0 := c.r0, m := c.n, n := c.m, r1 := c.r1, get := fun a i j b => c.get a j i b }

def transpose (xs : List (Core α)) : List (Core α) := xs.map Core.t

/-- `tn.reshape(c, (r, n, 1, r'))` is the identity on the unified core -/
def toTTM (xs : List (Core α)) : List (Core α) := xs

/-- `tn.conj` per core -/
def conjTT (cj : α → α) (xs : List (Core α)) : List (Core α) := xs.map (Core.mapVal cj)

/-- `c.clone()` per core -/
def clone (xs : List (Core α)) : List (Core α) := xs

/-! ### factories (`torchtt/_extras.py`) -/

def onesTT (shape : List (Nat × Nat)) : List (Core α) := shape.map (fun s => constCore 1 s.1 s.2)
def zerosTT (shape : List (Nat × Nat)) : List (Core α) := shape.map (fun s => constCore 0 s.1 s.2)
/-- `eye(shape)`: cores `eye(s)[None, :, :, None]` -/
def eyeTT (shape : List Nat) : List (Core α) :=
  shape.map (fun s => { r0 := 1, m := s, n := s, r1 := 1, get := fun _ i j _ => if i = j then 1 else 0 })
/-- `rank1TT(elements)`: cores `e[None, ..., None]` (vectors) -/
def rank1TT (vs : List (Nat × (Nat → α))) : List (Core α) :=
  vs.map (fun v => { r0 := 1, m := v.1, n := 1, r1 := 1, get := fun _ i _ _ => v.2 i })
/-- k-th output of `meshgrid(vectors)`: ones everywhere, the k-th vector at position k -/
def meshgridK (vs : List (Nat × (Nat → α))) (k : Nat) : List (Core α) :=
  (List.range vs.length).zipWith
    (fun p v => { r0 := 1, m := v.1, n := 1, r1 := 1, get := fun _ i _ _ => if p = k then v.2 i else 1 }) vs

end TT
