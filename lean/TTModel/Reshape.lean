import TTModel.Decomp
import TTModel.Sweep
import TTModel.Permute
/-!
# M-val: `torchtt.reshape` (tensor branch) at the level of values, numerical primitives as ORACLE parameters (C10)

The two-cursor loop of `torchtt._extras.reshape`: `cur` is the working core (a source core or the merge of several), `rest` the
source cores not loaded yet, `dst` the target modes not produced yet, `acc` the produced cores (reversed).  When the working mode
is a proper multiple of the target mode `t` the unfolding `(r·t) × (s₂·r')` is split by a two-mode TT-SVD (`to_tt`; one SVD, given
as an oracle); when it is equal the core is emitted; otherwise the next source core is merged in.  The control flow is the one
of `Sweep.reshapeGo` (already tied and analysed); here the cores are carried along.  The loop is preceded by the gauge sweep `rl_orthogonal` (`Permute.rlOrth`) and followed by `round(eps)` (`Decomp.roundTT`).
`none` = a state the guards of `reshape` exclude (products of the shapes differ).
-/
namespace TT.Reshape
open TT TT.Decomp TT.Permute

variable {α : Type} [Zero α] [One α] [Add α] [Mul α]

/-- `einsum('ijk,klm->ijlm')` followed by `reshape [r, n₁·n₂, r']` -/
def mergeC (x y : Core α) : Core α :=
  { r0 := x.r0, m := x.m * y.m, n := 1, r1 := y.r1,
    get := fun a I _ b => sumTo x.r1 (fun k => x.get a (I / y.m) 0 k * y.get k (I % y.m) 0 b) }

/-- `einsum('ijk,kl->ijl', c, y[:,0,:])`: absorb a core carrying a mode of size 1 -/
def absorb1 (c y : Core α) : Core α :=
  { r0 := c.r0, m := c.m, n := 1, r1 := y.r1, get := fun a i _ b => sumTo c.r1 (fun k => c.get a i 0 k * y.get k 0 0 b) }

/-- the trailing loop `for k in range(idx, len(cores)): if cores[k].shape[1] == 1: absorb` -/
def absorbAll (c : Core α) : List (Core α) → Core α
  | [] => c
  | y :: ys => if y.m = 1 then absorbAll (absorb1 c y) ys else absorbAll c ys

/-- split of the working core: mode `t · s₂` into `t` (emitted) and `s₂` (new working core) -/
def splitStep (svd : Oracle α) (cur : Core α) (t : Nat) : Core α × Core α :=
  let s2 := cur.m / t
  let M : Mat α := fun p q => cur.get (p / t) ((p % t) * s2 + q / cur.r1) 0 (q % cur.r1)
  let f := svd (cur.r0 * t) (s2 * cur.r1) M
  ({ r0 := cur.r0, m := t, n := 1, r1 := f.r, get := fun a i _ k => f.left (a * t + i) k },
   { r0 := f.r, m := s2, n := 1, r1 := cur.r1, get := fun k i _ b => f.right k (i * cur.r1 + b) })

def oneCore : Core α := { r0 := 1, m := 1, n := 1, r1 := 1, get := fun _ _ _ _ => 1 }

/-- the `while True` loop; `fz` normalises the representation of a core after every step (driver: array-backed; reference: `id`) -/
def reshapeGo (svd : Oracle α) (fz : Core α → Core α) :
    Nat → Core α → List (Core α) → List Nat → List (Core α) → Option (List (Core α))
  | 0, _, _, _, _ => none
  | _, _, _, [], acc => some acc.reverse
  | fuel+1, cur, rest, t :: dst, acc =>
    if t ≠ 0 ∧ cur.m % t = 0 then
      if cur.m / t > 1 then
        match dst with
        | [] => none                                   -- excluded by the guard `prod(shape) == prod(N)`
        | _ =>
          let s := splitStep svd cur t
          reshapeGo svd fz fuel (fz s.2) rest dst (fz s.1 :: acc)
      else
        match rest with
        | [] => some ((cur :: acc).reverse ++ dst.map (fun _ => oneCore))   -- all cores consumed; trailing `ones((1,1,1))`
        | c :: rest' =>
          match dst with
          | [] => some ((fz (absorbAll cur (c :: rest')) :: acc).reverse)   -- target exhausted; size-1 cores absorbed
          | _ => reshapeGo svd fz fuel c rest' dst (cur :: acc)
    else
      match rest with
      | [] => none
      | c :: rest' => reshapeGo svd fz fuel (fz (mergeC cur c)) rest' (t :: dst) acc

/-- `reshape(x, dst)` before the final rounding: gauge sweep `rl_orthogonal`, then the loop -/
def reshapeCoresWith (fz : Core α → Core α) (qr svd : Oracle α) (dst : List Nat) (cs : List (Core α)) : Option (List (Core α)) :=
  match (rlOrth qr cs).map fz with
  | [] => none
  | c :: rest => reshapeGo svd fz (2 * (cs.length + dst.length) + 2) c rest dst []

/-- `reshape(x, dst, eps)`: the loop, then `round(eps)` -/
def reshapeTTWith (fz : Core α → Core α) (qr svd : Oracle α) (dst : List Nat) (cs : List (Core α)) : Option (List (Core α)) :=
  (reshapeCoresWith fz qr svd dst cs).map (fun r => roundTT qr svd r)

def reshapeTT (qr svd : Oracle α) (dst : List Nat) (cs : List (Core α)) : Option (List (Core α)) :=
  reshapeTTWith id qr svd dst cs

end TT.Reshape
