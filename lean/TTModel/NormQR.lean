import TTModel.DecompM
/-!
# M-val: `TT.norm()` on the non-autograd branch (C07): a left-to-right QR sweep, then the Frobenius norm of the last core

`torchtt/_tt_base.py::norm` (cores not tracked by autograd): every core but the last is replaced by the `Q` factor of its
`(r·n) × r'` unfolding and `R` is absorbed into the next core — the same data flow as `lr_orthogonal` — and the result is
`‖last core‖²` (or its square root).  With the QR factorisation as an oracle parameter this is `Decomp.lrOrth` (tensors) /
`lrOrthM` (TT-matrices: row and column mode merged) followed by the sum of squares of the entries of the last core.
-/
namespace TT.Decomp
open TT

variable {α : Type} [Zero α] [One α] [Add α] [Mul α]

/-- sum over all entries of `c[a,i,j,b] · cj c[a,i,j,b]` -/
def coreSq (cj : α → α) (c : Core α) : α :=
  sumTo c.r0 (fun a => sumTo c.m (fun i => sumTo c.n (fun j => sumTo c.r1 (fun b => c.get a i j b * cj (c.get a i j b)))))

def lastCoreSq (cj : α → α) : List (Core α) → α
  | [] => 1
  | [c] => coreSq cj c
  | _ :: cs => lastCoreSq cj cs

/-- `x.norm(squared=True)` of a TT tensor on the QR branch -/
def normSqQR (cj : α → α) (qr : Oracle α) (cs : List (Core α)) : α := lastCoreSq cj (lrOrth qr cs)

/-- the same for a TT-matrix -/
def normSqQRM (cj : α → α) (qr : Oracle α) (cs : List (Core α)) : α := lastCoreSq cj (lrOrth qr (cs.map mergeModes))

end TT.Decomp
