import TTModel.Basic
/-!
# M-val: the local kernels of the iterative routines (AMEn solve / AMEn mm / division)

Each definition is one `oe.contract` / `tensordot` expression of `torchtt/solvers.py`,
`torchtt/_amen.py`, `torchtt/_division.py`, written as the nested bounded sum it denotes.
Three-index "Phi" tensors are functions `Nat → Nat → Nat → α`; tensor cores have `n = 1`.
-/
namespace TT.Kern
open TT

variable {α : Type} [Zero α] [One α] [Add α] [Mul α]

abbrev Phi3 (α : Type) := Nat → Nat → Nat → α
abbrev Phi2 (α : Type) := Nat → Nat → α

/-- `_compute_phi_fwd_A`: `'lsr,lML,sMNS,rNR->LSR'` (left core `x`, operator core `A`, right core `y`) -/
def phiFwdA (P : Phi3 α) (x A y : Core α) : Phi3 α :=
  fun L S R => sumTo x.r0 (fun l => sumTo A.r0 (fun s => sumTo y.r0 (fun r =>
    sumTo A.m (fun M => sumTo A.n (fun N =>
      P l s r * x.get l M 0 L * A.get s M N S * y.get r N 0 R)))))

/-- `_compute_phi_bck_A`: `'LSR,lML,sMNS,rNR->lsr'` -/
def phiBckA (P : Phi3 α) (x A y : Core α) : Phi3 α :=
  fun l s r => sumTo x.r1 (fun L => sumTo A.r1 (fun S => sumTo y.r1 (fun R =>
    sumTo A.m (fun M => sumTo A.n (fun N =>
      P L S R * x.get l M 0 L * A.get s M N S * y.get r N 0 R)))))

/-- `_compute_phi_fwd_rhs`: `'br,bnB,rnR->BR'` -/
def phiFwdRhs (P : Phi2 α) (b x : Core α) : Phi2 α :=
  fun B R => sumTo b.r0 (fun b0 => sumTo x.r0 (fun r => sumTo b.m (fun n =>
    P b0 r * b.get b0 n 0 B * x.get r n 0 R)))

/-- `_compute_phi_bck_rhs`: `'BR,bnB,rnR->br'` -/
def phiBckRhs (P : Phi2 α) (b x : Core α) : Phi2 α :=
  fun b0 r => sumTo b.r1 (fun B => sumTo x.r1 (fun R => sumTo b.m (fun n =>
    P B R * b.get b0 n 0 B * x.get r n 0 R)))

/-- `_local_product` (dense operator core): `'lsr,smnS,LSR,rnR->lmL'`; `u` is the local unknown -/
def localProduct (PL PR : Phi3 α) (A u : Core α) : Nat → Nat → Nat → α :=
  fun l m L => sumTo A.r0 (fun s => sumTo u.r0 (fun r => sumTo A.n (fun n =>
    sumTo A.r1 (fun S => sumTo u.r1 (fun R =>
      PL l s r * A.get s m n S * PR L S R * u.get r n 0 R)))))

/-- `_LinearOp.matvec` without preconditioner: three successive `tensordot`s
    (`x·Phi_left` over `r`, then `·coreA` over `(n, s)`, then `·Phi_right` over `(R, S)`) -/
def linopMatvec (PL PR : Phi3 α) (A u : Core α) : Nat → Nat → Nat → α :=
  fun l m L =>
    sumTo u.r1 (fun R => sumTo A.r1 (fun S =>
      (sumTo A.n (fun n => sumTo A.r0 (fun s =>
        (sumTo u.r0 (fun r => u.get r n 0 R * PL l s r)) * A.get s m n S))) * PR L S R))

/-- the right-hand side of the local system: `'br,bmB,BR->rmR'` (`rhs = einsum(Phis_b[k], b_k, Phis_b[k+1])`) -/
def localRhs (PL PR : Phi2 α) (b : Core α) : Nat → Nat → Nat → α :=
  fun r m R => sumTo b.r0 (fun b0 => sumTo b.r1 (fun B => PL b0 r * b.get b0 m 0 B * PR B R))

/-! ### AMEn matrix-matrix / matrix-vector product (`_amen.py`) -/

/-- `_compute_phi_fwd_AB`: `'rab,amkA,bknB,rmnR->RAB'` -/
def phiFwdAB (P : Phi3 α) (A B X : Core α) : Phi3 α :=
  fun R A' B' => sumTo X.r0 (fun r => sumTo A.r0 (fun a => sumTo B.r0 (fun b =>
    sumTo A.m (fun m => sumTo A.n (fun k => sumTo B.n (fun n =>
      P r a b * A.get a m k A' * B.get b k n B' * X.get r m n R))))))

/-- `_compute_phi_bck_AB`: `'RAB,amkA,bknB,rmnR->rab'` -/
def phiBckAB (P : Phi3 α) (A B X : Core α) : Phi3 α :=
  fun r a b => sumTo X.r1 (fun R => sumTo A.r1 (fun A' => sumTo B.r1 (fun B' =>
    sumTo A.m (fun m => sumTo A.n (fun k => sumTo B.n (fun n =>
      P R A' B' * A.get a m k A' * B.get b k n B' * X.get r m n R))))))

/-- `_local_AB`: `'rab,amkA,bknB,RAB->rmnR'` -/
def localAB (PL PR : Phi3 α) (A B : Core α) : Nat → Nat → Nat → Nat → α :=
  fun r m n R => sumTo A.r0 (fun a => sumTo B.r0 (fun b => sumTo A.n (fun k =>
    sumTo A.r1 (fun A' => sumTo B.r1 (fun B' =>
      PL r a b * A.get a m k A' * B.get b k n B' * PR R A' B')))))

/-- `_compute_phi_fwd_x`: `'lr,lMNL,rMNR->LR'` -/
def phiFwdX (P : Phi2 α) (x y : Core α) : Phi2 α :=
  fun L R => sumTo x.r0 (fun l => sumTo y.r0 (fun r => sumTo x.m (fun M => sumTo x.n (fun N =>
    P l r * x.get l M N L * y.get r M N R))))

/-- `_compute_phi_bck_x`: `'LR,lmnL,rmnR->lr'` -/
def phiBckX (P : Phi2 α) (x y : Core α) : Phi2 α :=
  fun l r => sumTo x.r1 (fun L => sumTo y.r1 (fun R => sumTo x.m (fun m => sumTo x.n (fun n =>
    P L R * x.get l m n L * y.get r m n R))))

/-! ### folds over core lists (what the sweeps accumulate) -/

/-- left partial contraction `Phis[k]` of `⟨x, A y⟩` over the cores before position `k` -/
def foldFwdA : List (Core α) → List (Core α) → List (Core α) → Phi3 α → Phi3 α
  | x :: xs, A :: As, y :: ys, P => foldFwdA xs As ys (phiFwdA P x A y)
  | _, _, _, P => P

/-- right partial contraction over the cores after position `k` (lists given left-to-right) -/
def foldBckA : List (Core α) → List (Core α) → List (Core α) → Phi3 α → Phi3 α
  | x :: xs, A :: As, y :: ys, P => phiBckA (foldBckA xs As ys P) x A y
  | _, _, _, P => P

def foldFwdRhs : List (Core α) → List (Core α) → Phi2 α → Phi2 α
  | b :: bs, x :: xs, P => foldFwdRhs bs xs (phiFwdRhs P b x)
  | _, _, P => P

def foldBckRhs : List (Core α) → List (Core α) → Phi2 α → Phi2 α
  | b :: bs, x :: xs, P => phiBckRhs (foldBckRhs bs xs P) b x
  | _, _, P => P

def foldFwdAB : List (Core α) → List (Core α) → List (Core α) → Phi3 α → Phi3 α
  | A :: As, B :: Bs, X :: Xs, P => foldFwdAB As Bs Xs (phiFwdAB P A B X)
  | _, _, _, P => P

def foldBckAB : List (Core α) → List (Core α) → List (Core α) → Phi3 α → Phi3 α
  | A :: As, B :: Bs, X :: Xs, P => phiBckAB (foldBckAB As Bs Xs P) A B X
  | _, _, _, P => P

/-- `tn.ones((1,1,1))` -/
def ones3 : Phi3 α := fun _ _ _ => 1
def ones2 : Phi2 α := fun _ _ => 1

end TT.Kern
