import TTModel.Expr
/-!
# Programs whose `let`s combine an operand with a scalar EXPRESSION in any of the scalar operator forms (C15)

`TTModel/Expr.lean` has programs `T_new := T_i * s`.  The scalar branches of `+` / `-` (`__add__`, `__radd__`, `__sub__`, `__rsub__`) take a
scalar operand too, and that scalar may itself be a differentiable function of the cores (`x + torchtt.dot(x, y)`, `y.norm()**2 - x`, …):
the derivative then has a contribution through the scalar.  `LetKind` lists the forms, `applyLet` is the core-by-core model of each
(`smul`, `addScalar`, `subScalar`, `rsubScalar` of `TTModel/Algebra.lean`), `evalProgK` / `denseProgK` the two semantics.
-/
namespace TT

inductive LetKind where
  | scale      -- `T_i * s`, `s * T_i`
  | shift      -- `T_i + s`, `s + T_i`
  | shiftSub   -- `T_i - s`
  | shiftRsub  -- `s - T_i`
  deriving DecidableEq, Repr

variable {α : Type} [Zero α] [One α] [Add α] [Mul α] [Neg α] [DecidableEq α]

def applyLet (k : LetKind) (t : List (Core α)) (c : α) : List (Core α) :=
  match k with
  | .scale => smul t c
  | .shift => addScalar t c
  | .shiftSub => subScalar t c
  | .shiftRsub => rsubScalar t c

def denseLet (k : LetKind) (f : Dense α) (c : α) : Dense α :=
  match k with
  | .scale => fun is => f is * c
  | .shift => fun is => f is + c
  | .shiftSub => fun is => f is + - c
  | .shiftRsub => fun is => c + - f is

def evalProgK (envT envM : List (List (Core α))) : List (LetKind × Nat × SE α) → SE α → α
  | [], e => evalS envT envM e
  | (k, i, s) :: rest, e => evalProgK (envT ++ [applyLet k (envT.getD i []) (evalS envT envM s)]) envM rest e

def denseProgK (ns : List Nat) (n : Nat) (dT : Nat → Dense α) (dM : Nat → List Nat → List Nat → α) :
    List (LetKind × Nat × SE α) → SE α → Option α
  | [], e => denseS ns dT dM e
  | (k, i, s) :: rest, e =>
    match denseS ns dT dM s with
    | some c => denseProgK ns (n + 1) (fun j => if j = n then denseLet k (dT i) c else dT j) dM rest e
    | none => none

end TT
