import TTModel.Reshape
/-!
# M-val: `TT.to_qtt` and `TT.qtt_to_tens` for TT tensors (C10)

`to_qtt(eps, mode_size, rmax)` (tensor branch): every core whose mode is `mode_size^k` with `k ≥ 2` is reshaped to
`[r·ms, ms, …, ms, ms·r']` (`k` modes), decomposed by `to_tt`, and the first / last of the new cores are reshaped back to
`[r, ms, ρ]` / `[ρ', ms, r']`; other cores are kept.  `qtt_to_tens(shape)` merges consecutive cores until the product of their
modes equals the next entry of `shape`.  The SVD is an oracle parameter as in `TTModel/Decomp.lean`.
-/
namespace TT.QTT
open TT TT.Decomp TT.Reshape

variable {α : Type} [Zero α] [One α] [Add α] [Mul α]

/-- `k` with `ms^k ≤ m < ms^(k+1)` (the code uses `int(math.log(m, ms))`) -/
def logFloor (ms : Nat) : Nat → Nat → Nat
  | 0, _ => 0
  | fuel+1, m => if ms ≤ 1 ∨ m < ms then 0 else 1 + logFloor ms fuel (m / ms)

/-- first core of the per-core decomposition: `[1, r·ms, ρ] → [r, ms, ρ]` -/
def unfoldFirst (r0 ms : Nat) (t : Core α) : Core α :=
  { r0 := r0, m := ms, n := 1, r1 := t.r1, get := fun a i _ b => t.get 0 (a * ms + i) 0 b }

/-- last core: `[ρ', ms·r', 1] → [ρ', ms, r']` -/
def unfoldLast (ms r1 : Nat) (t : Core α) : Core α :=
  { r0 := t.r0, m := ms, n := 1, r1 := r1, get := fun a i _ b => t.get a (i * r1 + b) 0 0 }

def fixEnds (r0 ms r1 : Nat) : List (Core α) → List (Core α)
  | [] => []
  | [t] => [unfoldLast ms r1 (unfoldFirst r0 ms t)]          -- not reached for k ≥ 2
  | t :: ts => unfoldFirst r0 ms t :: (ts.dropLast ++ (match ts.getLast? with | some l => [unfoldLast ms r1 l] | none => []))

/-- the cores replacing one core `c` -/
def qttCore (svd : Oracle α) (ms : Nat) (c : Core α) : List (Core α) :=
  let k := logFloor ms (c.m + 1) c.m
  if k > 1 then
    let dims := (c.r0 * ms) :: (List.replicate (k - 2) ms ++ [ms * c.r1])
    -- the reshape `[r, m, r'] → dims` keeps the flat row-major index
    let A : Nat → α := fun J => c.get (J / (c.m * c.r1)) (J / c.r1 % c.m) 0 (J % c.r1)
    fixEnds c.r0 ms c.r1 (toTT svd dims A)
  else [c]

/-- `x.to_qtt(eps, ms, rmax)` (tensor branch) -/
def toQTT (svd : Oracle α) (ms : Nat) (cs : List (Core α)) : List (Core α) :=
  cs.flatMap (qttCore svd ms)

/-- `x.qtt_to_tens(shape)`: merge consecutive cores until the product of the modes matches -/
def qttToTensGo : Nat → Option (Core α) → List (Core α) → List Nat → List (Core α) → Option (List (Core α))
  | 0, _, _, _, _ => none
  | _, none, [], [], acc => some acc.reverse
  | _, none, [], _ :: _, _ => none                    -- `k != len(original_shape)`: ShapeMismatch
  | _, some _, [], _, _ => none
  | fuel+1, cur, c :: cs, shape, acc =>
    let core := match cur with | none => c | some w => mergeC w c
    match shape with
    | [] => qttToTensGo fuel (some core) cs [] acc     -- nothing left to match: runs to the end, then ShapeMismatch
    | s :: shape' =>
      if core.m = s then qttToTensGo fuel none cs shape' (core :: acc)
      else qttToTensGo fuel (some core) cs (s :: shape') acc

def qttToTens (shape : List Nat) (cs : List (Core α)) : Option (List (Core α)) :=
  qttToTensGo (cs.length + 1) none cs shape []

end TT.QTT
