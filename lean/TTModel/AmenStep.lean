import TTModel.Decomp
/-!
# M-val / M-sweep: the core update of the AMEn routines (what happens to the iterate after a local solve)

Anchors: `torchtt/solvers.py` (`_amen_solve_python`), `torchtt/_amen.py` (`_amen_mm_python`), `torchtt/_division.py`
(`amen_divide`) — the three loops share this block verbatim (4-index cores in `_amen_mm_python`):

```
solution_now = reshape(solution_now, [rx[k]*N[k], rx[k+1]])
u, s, v = SVD(solution_now);  r = <rank rule>;  u = u[:, :r];  v = (diag(s[:r]) @ v[:r, :]).t()
if not last:  u, Rmat = QR(cat((u, reshape(uk, [u.shape[0], -1])), 1));  v = cat((v, zeros([rx[k+1], r_add])), 1) @ Rmat.t()
v = einsum('ji,jkl->ikl', v, x_cores[k+1]);   v = v / norm_now
x_cores[k] = reshape(u, [rx[k], N[k], r]);  x_cores[k+1] = reshape(v, [r, N[k+1], rx[k+2]])
```

The numerical primitives are oracle parameters as in `TTModel/Decomp.lean`: an SVD oracle returns the kept rank `r`,
`left = U[:, :r]` and `right = diag(s[:r])·V[:r, :]` (so the code's `v` is `rightᵀ`); a QR oracle returns `Q`, `R`.
The division by `norm_now` is a separate scalar bookkeeping of the code (`normx`), not part of this model: the model's
next core is the un-normalised one.  Also here: the rank rule of `_amen_solve_python` (scan by local residual).
-/
namespace TT.Amen
open TT TT.Decomp

variable {α : Type} [Zero α] [One α] [Add α] [Mul α]

/-- `reshape(core, [r0*m*n, r1])` (row-major) -/
def unfoldL (c : Core α) : Mat α :=
  fun p b => c.get (p / (c.m * c.n)) ((p / c.n) % c.m) (p % c.n) b

/-- `reshape(Q, [r0, m, n, r])` -/
def foldL (r0 m n r : Nat) (Q : Mat α) : Core α :=
  { r0 := r0, m := m, n := n, r1 := r, get := fun a i j t => Q ((a * m + i) * n + j) t }

/-- `einsum('ji,jklm->iklm', v, next)` with `v = Wᵀ`, i.e. `W` applied to the left rank index of the next core -/
def absorbLeft (r : Nat) (W : Mat α) (nxt : Core α) : Core α :=
  { r0 := r, m := nxt.m, n := nxt.n, r1 := nxt.r1,
    get := fun t i j b => sumTo nxt.r0 (fun q => W t q * nxt.get q i j b) }

/-- the last sweep (`last = True`): no enrichment; `x_cores[k] = U[:, :r]`, `x_cores[k+1] = (diag(s)V)·x_cores[k+1]` -/
def updatePlain (c nxt : Core α) (f : Fact α) : Core α × Core α :=
  (foldL c.r0 c.m c.n f.r f.left, absorbLeft f.r f.right nxt)

/-- `cat((u, uk), 1)`: `u` has `r` columns -/
def hcat (u : Mat α) (r : Nat) (uk : Mat α) : Mat α :=
  fun p c => if c < r then u p c else uk p (c - r)

/-- `(cat((v, zeros), 1) @ Rmat.t()).t()` with `v = Wᵀ` (`W` is `r × cols`): entry `(t, q) = Σ_{c<r} R[t,c]·W[c,q]` —
    the zero block of `v` kills the columns `c ≥ r` of `R` -/
def enrichRight (r : Nat) (W R : Mat α) : Mat α :=
  fun t q => sumTo r (fun c => R t c * W c q)

/-- a sweep that enriches (`not last`): `uk` is the `rows × radd` residual block, `qr` the QR primitive -/
def updateEnrich (qr : Oracle α) (c nxt : Core α) (f : Fact α) (uk : Mat α) (radd : Nat) : Core α × Core α :=
  let g := qr (c.r0 * c.m * c.n) (f.r + radd) (hcat f.left f.r uk)
  (foldL c.r0 c.m c.n g.r g.left, absorbLeft g.r (enrichRight f.r f.right g.right) nxt)

/-- the whole block for position `k < d-1`: SVD of the solved core, optional enrichment -/
def update (svd qr : Oracle α) (c nxt : Core α) (enrich : Option (Mat α × Nat)) : Core α × Core α :=
  let f := svd (c.r0 * c.m * c.n) c.r1 (unfoldL c)
  match enrich with
  | none => updatePlain c nxt f
  | some (uk, radd) => updateEnrich qr c nxt f uk radd

/-- the solved core after truncation, `reshape(u @ v.t(), [rx[k], N[k], rx[k+1]])` (what the residual blocks are computed from) -/
def truncCore (c : Core α) (f : Fact α) : Core α :=
  { r0 := c.r0, m := c.m, n := c.n, r1 := c.r1,
    get := fun a i j b => sumTo f.r (fun t => f.left ((a * c.m + i) * c.n + j) t * f.right t b) }

/-- replace the cores at positions `k`, `k+1` of a train (`k = pre.length`) -/
def splice (pre : List (Core α)) (p : Core α × Core α) (post : List (Core α)) : List (Core α) :=
  pre ++ p.1 :: p.2 :: post

/-! ### the rank rule of `_amen_solve_python` (`trunc_norm = 'res'`)

```
r = 0
for r in range(u.shape[1]-1, 0, -1):
    ...
    if res > max(real_tol*damp, res_new): break
r += 1
r = min([r, tn.numel(s), rmax[k+1]])
```
`bad r` is the outcome of the test for the truncation to `r` columns.  Python leaves the loop variable at its last value:
when no truncation is rejected the loop ends with `r = 1` and the rule returns `2` (for `n ≥ 2`), never `1`. -/

/-- scan `r = hi, hi-1, …, 1`; returns the value of `r` when the loop is left and whether it was left by `break` -/
def scanDown (bad : Nat → Bool) : Nat → Nat
  | 0 => 0                      -- empty range: `r` keeps its initial value 0
  | hi + 1 => if bad (hi + 1) then hi + 1 else (if hi = 0 then 1 else scanDown bad hi)

/-- the rank chosen for the bond: `n = u.shape[1] = numel(s)` -/
def rankByResidual (bad : Nat → Bool) (n rmax : Nat) : Nat :=
  min (min (scanDown bad (n - 1) + 1) n) rmax

end TT.Amen
