import TTModel.Kernels
import TTModel.KernelsDiv
/-!
# M-val: the inline contractions of `torchtt/_dmrg.py` (C11)

`dmrg_matvec_python` and `dmrg_hadamard_python` contain no helper functions: the environment updates and the two-site
supercore are chains of `tn.einsum` calls written inline.  Their index algebra is modelled here:

* backward / forward environment: the three-step chains ending in `Phis[k] = Phi` / `Phis[k+1] = Phi_next` are the
  kernels `phiBckA` / `phiFwdA` of the solver (`'LSR,lML,sMNS,rNR->lsr'`, `'lsr,lML,sMNS,rNR->LSR'`) applied to the current
  result core `y_k`, the conjugated operator core and the conjugated operand core;
* `dmrgSuper`: the supercore `W[y,m₁,m₂,Y] = Σ Φ_k[y,a,x] · x̄_k[x,n₁,x'] · Ā_k[a,m₁,n₁,a'] · Ā_{k+1}[a',m₂,n₂,A] · x̄_{k+1}[x',n₂,X] · Φ_{k+2}[Y,A,X]`
  (`W1`, `W2`, `W` of the source);
* the Hadamard variant uses the diagonal embedding `diagCore` of the first factor's cores in place of the operator cores.
`cj` is the conjugation of the scalar type (identity for real data).
-/
namespace TT.Kern
open TT

variable {α : Type} [Zero α] [Add α] [Mul α]

/-- `Phis[k]` of the right-to-left sweep -/
def dmrgPhiBck (cj : α → α) (P : Phi3 α) (y A x : Core α) : Phi3 α := phiBckA P y (A.mapVal cj) (x.mapVal cj)

/-- `Phis[k+1]` of the left-to-right sweep -/
def dmrgPhiFwd (cj : α → α) (P : Phi3 α) (y A x : Core α) : Phi3 α := phiFwdA P y (A.mapVal cj) (x.mapVal cj)

/-- the two-site supercore `W` -/
def dmrgSuper (cj : α → α) (PL PR : Phi3 α) (A1 x1 A2 x2 : Core α) : Nat → Nat → Nat → Nat → α :=
  fun y m1 m2 Y =>
    sumTo A1.r0 (fun a => sumTo x1.r0 (fun x => sumTo A1.n (fun n1 => sumTo A1.r1 (fun a' => sumTo x1.r1 (fun x' =>
      sumTo A2.n (fun n2 => sumTo A2.r1 (fun A' => sumTo x2.r1 (fun X =>
        PL y a x * cj (x1.get x n1 0 x') * cj (A1.get a m1 n1 a') * cj (A2.get a' m2 n2 A') * cj (x2.get x' n2 0 X) * PR Y A' X))))))))

end TT.Kern
