import TTModel.Kernels
import TTModel.KernelsDiv
/-!
# M-val: the inline contractions of `torchtt/_dmrg.py` (C11)

`dmrg_matvec_python` and `dmrg_hadamard_python` contain no helper functions: the environment updates and the two-site
supercore are chains of `tn.einsum` calls written inline.  Their index algebra is modelled here:

* backward / forward environment: the three-step chains ending in `Phis[k] = Phi` / `Phis[k+1] = Phi_next` are the
  kernels `phiBckA` / `phiFwdA` of the solver (`'LSR,lML,sMNS,rNR->lsr'`, `'lsr,lML,sMNS,rNR->LSR'`) applied to the current
  result core `y_k`, the conjugated operator core and the conjugated operand core;
* `dmrgSuper`: the supercore `W[y,m₁,m₂,Y] = Σ Φ_k[y,a,x] · x̄_k[x,n₁,x'] · Ā_k[a,m₁,n₁,a'] · Ā_{k+1}[a',m₂,n₂,A] · x̄_{k+1}[x',n₂,X] · Φ_{k+2}[Y,A,X]`
  (`W1`, `W2`, `W` of the source);
* the Hadamard variant uses the diagonal embedding `diagCore` of the first factor's cores in place of the operator cores.
`cj` is the conjugation of the scalar type (identity for real data).
-/
namespace TT.Kern
open TT

variable {α : Type} [Zero α] [Add α] [Mul α]

/-- `Phis[k]` of the right-to-left sweep -/
def dmrgPhiBck (cj : α → α) (P : Phi3 α) (y A x : Core α) : Phi3 α := phiBckA P y (A.mapVal cj) (x.mapVal cj)

/-- `Phis[k+1]` of the left-to-right sweep -/
def dmrgPhiFwd (cj : α → α) (P : Phi3 α) (y A x : Core α) : Phi3 α := phiFwdA P y (A.mapVal cj) (x.mapVal cj)

/-- the two-site supercore `W` -/
def dmrgSuper (cj : α → α) (PL PR : Phi3 α) (A1 x1 A2 x2 : Core α) : Nat → Nat → Nat → Nat → α :=
  fun y m1 m2 Y =>
    sumTo A1.r0 (fun a => sumTo x1.r0 (fun x => sumTo A1.n (fun n1 => sumTo A1.r1 (fun a' => sumTo x1.r1 (fun x' =>
      sumTo A2.n (fun n2 => sumTo A2.r1 (fun A' => sumTo x2.r1 (fun X =>
        PL y a x * cj (x1.get x n1 0 x') * cj (A1.get a m1 n1 a') * cj (A2.get a' m2 n2 A') * cj (x2.get x' n2 0 X) * PR Y A' X))))))))

/-! ### the inline einsum CHAINS as written in the source (one definition per `tn.einsum` call)

These are what `harness/einsum2lean.py` regenerates from the current source and checks `rfl`-equal; the theorems `TT.C11.dmrgW*_chain`,
`dmrgPhi*Chain_eq` prove that the chains compute the one-shot kernels above. -/

abbrev Arr4 (α : Type) := Nat → Nat → Nat → Nat → α

/-- `W1 = einsum('ijk,klm->ijlm', Phis[k], conj(x_k))` -/
def dmrgW1a (cj : α → α) (PL : Phi3 α) (x1 : Core α) : Arr4 α :=
  fun y a n1 x' => sumTo x1.r0 (fun x => PL y a x * cj (x1.get x n1 0 x'))
/-- `W1 = einsum('ijkl,mikn->mjln', conj(A_k), W1)` -/
def dmrgW1b (cj : α → α) (PL : Phi3 α) (A1 x1 : Core α) : Arr4 α :=
  fun y m1 a' x' => sumTo A1.r0 (fun a => sumTo A1.n (fun n1 => cj (A1.get a m1 n1 a') * dmrgW1a cj PL x1 y a n1 x'))
/-- `W2 = einsum('ijk,mnk->njmi', Phis[k+2], conj(x_{k+1}))` -/
def dmrgW2a (cj : α → α) (PR : Phi3 α) (x2 : Core α) : Arr4 α :=
  fun n2 A' x' Y => sumTo x2.r1 (fun X => PR Y A' X * cj (x2.get x' n2 0 X))
/-- `W2 = einsum('ijkl,klmn->ijmn', conj(A_{k+1}), W2)` -/
def dmrgW2b (cj : α → α) (PR : Phi3 α) (A2 x2 : Core α) : Arr4 α :=
  fun a' m2 x' Y => sumTo A2.n (fun n2 => sumTo A2.r1 (fun A' => cj (A2.get a' m2 n2 A') * dmrgW2a cj PR x2 n2 A' x' Y))
/-- `W = einsum('ijkl,kmln->ijmn', W1, W2)` -/
def dmrgWc (cj : α → α) (PL PR : Phi3 α) (A1 x1 A2 x2 : Core α) : Arr4 α :=
  fun y m1 m2 Y => sumTo A1.r1 (fun a' => sumTo x1.r1 (fun x' => dmrgW1b cj PL A1 x1 y m1 a' x' * dmrgW2b cj PR A2 x2 a' m2 x' Y))

/-- `Phi = einsum('ijk,mnk->ijmn', Phis[k+1], conj(x_k))` -/
def dmrgBckA (cj : α → α) (P : Phi3 α) (x : Core α) : Arr4 α :=
  fun L S r N => sumTo x.r1 (fun R => P L S R * cj (x.get r N 0 R))
/-- `Phi = einsum('ijkl,mlnk->ijmn', conj(A_k), Phi)` -/
def dmrgBckB (cj : α → α) (P : Phi3 α) (A x : Core α) : Arr4 α :=
  fun s M L r => sumTo A.n (fun N => sumTo A.r1 (fun S => cj (A.get s M N S) * dmrgBckA cj P x L S r N))
/-- `Phi = einsum('ijkl,mjk->mil', Phi, y_k)` -/
def dmrgBckC (cj : α → α) (P : Phi3 α) (y A x : Core α) : Phi3 α :=
  fun l s r => sumTo A.m (fun M => sumTo y.r1 (fun L => dmrgBckB cj P A x s M L r * y.get l M 0 L))

/-- `Phi_next = einsum('ijk,kmn->ijmn', Phis[k], conj(x_k))` -/
def dmrgFwdA (cj : α → α) (P : Phi3 α) (x : Core α) : Arr4 α :=
  fun l s N R => sumTo x.r0 (fun r => P l s r * cj (x.get r N 0 R))
/-- `Phi_next = einsum('ijkl,jmkn->imnl', Phi_next, conj(A_k))` -/
def dmrgFwdB (cj : α → α) (P : Phi3 α) (A x : Core α) : Arr4 α :=
  fun l M S R => sumTo A.r0 (fun s => sumTo A.n (fun N => dmrgFwdA cj P x l s N R * cj (A.get s M N S)))
/-- `Phi_next = einsum('ijm,ijkl->mkl', y_k, Phi_next)` -/
def dmrgFwdC (cj : α → α) (P : Phi3 α) (y A x : Core α) : Phi3 α :=
  fun L S R => sumTo y.r0 (fun l => sumTo A.m (fun M => y.get l M 0 L * dmrgFwdB cj P A x l M S R))

/-! ### the inline chains of `dmrg_hadamard_python` (3-index cores `z_k` of the first factor in place of operator cores) -/

/-- `W1 = einsum('ikl,mikn->mkln', conj(z_k), W1)` -/
def hadW1b (cj : α → α) (PL : Phi3 α) (z1 x1 : Core α) : Arr4 α :=
  fun y n1 a' x' => sumTo z1.r0 (fun a => cj (z1.get a n1 0 a') * dmrgW1a cj PL x1 y a n1 x')
/-- `W2 = einsum('ikl,klmn->ikmn', conj(z_{k+1}), W2)` -/
def hadW2b (cj : α → α) (PR : Phi3 α) (z2 x2 : Core α) : Arr4 α :=
  fun a' n2 x' Y => sumTo z2.r1 (fun A' => cj (z2.get a' n2 0 A') * dmrgW2a cj PR x2 n2 A' x' Y)
/-- `W = einsum('ijkl,kmln->ijmn', W1, W2)` -/
def hadWc (cj : α → α) (PL PR : Phi3 α) (z1 x1 z2 x2 : Core α) : Arr4 α :=
  fun y m1 m2 Y => sumTo z1.r1 (fun a' => sumTo x1.r1 (fun x' => hadW1b cj PL z1 x1 y m1 a' x' * hadW2b cj PR z2 x2 a' m2 x' Y))
/-- `Phi = einsum('ikl,mlnk->ikmn', conj(z_k), Phi)` -/
def hadBckB (cj : α → α) (P : Phi3 α) (z x : Core α) : Arr4 α :=
  fun s N L r => sumTo z.r1 (fun S => cj (z.get s N 0 S) * dmrgBckA cj P x L S r N)
/-- `Phi = einsum('ijkl,mjk->mil', Phi, y_k)` -/
def hadBckC (cj : α → α) (P : Phi3 α) (y z x : Core α) : Phi3 α :=
  fun l s r => sumTo z.m (fun N => sumTo y.r1 (fun L => hadBckB cj P z x s N L r * y.get l N 0 L))
/-- `Phi_next = einsum('ijkl,jkn->iknl', Phi_next, conj(z_k))` -/
def hadFwdB (cj : α → α) (P : Phi3 α) (z x : Core α) : Arr4 α :=
  fun l N S R => sumTo z.r0 (fun s => dmrgFwdA cj P x l s N R * cj (z.get s N 0 S))
/-- `Phi_next = einsum('ijm,ijkl->mkl', y_k, Phi_next)` -/
def hadFwdC (cj : α → α) (P : Phi3 α) (y z x : Core α) : Phi3 α :=
  fun L S R => sumTo y.r0 (fun l => sumTo z.m (fun N => y.get l N 0 L * hadFwdB cj P z x l N S R))

end TT.Kern
