import TTModel.Driver
import TTModel.Expr
import TTModel.ExprK
/-!
# Driver for C15: exact forward-mode differentiation of TT expressions with dual numbers

`lake env lean --run TTModel/DriverAD.lean < cases.txt`
line : `ad nT <T trains…> nM <M trains…> <T|M> <operand> <core> <SE in prefix notation>`
       `adp … <core> k (<i> <SE>)*k <SE>` : programs with k scalar-scaled operands defined first (`evalProg`)
out  : `ad <value> <r0> <m> <n> <r1> <∂value/∂entry …>` (row-major over the tracked core)
-/
namespace TT.DriverAD
open TT TT.Driver

abbrev D := Dual GRat

def lift (c : Core GRat) : Core D := { r0 := c.r0, m := c.m, n := c.n, r1 := c.r1, get := fun a i j b => ⟨c.get a i j b, 0⟩ }

/-- the core with the entry at flat position `p` perturbed by ε -/
def perturb (c : Core GRat) (p : Nat) : Core D :=
  { r0 := c.r0, m := c.m, n := c.n, r1 := c.r1
    get := fun a i j b => ⟨c.get a i j b, if ((a * c.m + i) * c.n + j) * c.r1 + b = p ∧ a < c.r0 ∧ i < c.m ∧ j < c.n ∧ b < c.r1 then 1 else 0⟩ }

def cnum : PM D := do let v ← num; pure ⟨v, 0⟩

mutual
partial def te : PM (TE D) := do
  let t ← next
  match t with
  | "var" => do pure (.var (← nat))
  | "add" => do let a ← te; let b ← te; pure (.add a b)
  | "sub" => do let a ← te; let b ← te; pure (.sub a b)
  | "mul" => do let a ← te; let b ← te; pure (.mul a b)
  | "neg" => do pure (.neg (← te))
  | "smul" => do let a ← te; let s ← cnum; pure (.smul a s)
  | "adds" => do let a ← te; let s ← cnum; pure (.adds a s)
  | "mv" => do let A ← nat; let a ← te; pure (.mv A a)
  | "kron" => do let a ← te; let b ← te; pure (.kron a b)
  | "cat" => do let d ← nat; let a ← te; let b ← te; pure (.cat d a b)
  | "pad" => do
      let a ← te; let k ← nat
      let ps ← many k (do let x ← nat; let y ← nat; pure (x, y))
      let v ← cnum
      pure (.pad a ps.toList v)
  | "mprod" => do
      let a ← te; let mode ← nat; let r ← nat; let c ← nat
      let rows ← many r (many c cnum)
      pure (.mprod a mode r (rows.toList.map (·.toList)))
  | "sumsel" => do let a ← te; let idx ← natList; pure (.sumsel a idx)
  | "getitem" => do let a ← te; let k ← nat; let ss ← many k sel; pure (.getitem a ss.toList)
  | _ => throw s!"te? {t}"
end

partial def se : PM (SE D) := do
  let t ← next
  match t with
  | "sumall" => do pure (.sumall (← te))
  | "dot" => do let a ← te; let b ← te; pure (.dot a b)
  | "normsq" => do pure (.normsq (← te))
  | "entry" => do let a ← te; let idx ← natList; pure (.entry a idx)
  | "bil" => do let a ← te; let A ← nat; let b ← te; pure (.bil a A b)
  | "sadd" => do let x ← se; let y ← se; pure (.add x y)
  | "smul2" => do let x ← se; let y ← se; pure (.mul x y)
  | "const" => do pure (.const (← cnum))
  | _ => throw s!"se? {t}"

def setAt {β : Type} : List β → Nat → β → List β
  | [], _, _ => []
  | _ :: xs, 0, v => v :: xs
  | x :: xs, k+1, v => x :: setAt xs k v

def run : PM String := do
  let op ← next
  if op != "ad" && op != "adp" && op != "adk" then throw s!"op? {op}"
  let nT ← nat; let ts ← many nT tt
  let nM ← nat; let ms ← many nM tt
  let kind ← next; let oi ← nat; let ci ← nat
  let lets ← (if op == "adp" then do let k ← nat; many k (do let i ← nat; let s ← se; pure (LetKind.scale, i, s))
              else if op == "adk" then do
                let k ← nat
                many k (do
                  let kd ← next
                  let kind ← (match kd with
                    | "scale" => pure LetKind.scale | "shift" => pure LetKind.shift
                    | "ssub" => pure LetKind.shiftSub | "rsub" => pure LetKind.shiftRsub
                    | _ => throw s!"letkind? {kd}")
                  let i ← nat; let s ← se; pure (kind, i, s))
              else pure #[])
  let e ← se
  let envT := ts.toList.map (·.2)
  let envM := ms.toList.map (·.2)
  let base := if kind == "M" then envM.getD oi [] else envT.getD oi []
  match base[ci]? with
  | none => throw "tracked core?"
  | some c =>
    let total := c.r0 * c.m * c.n * c.r1
    let liftEnv := fun (env : List (List (Core GRat))) => env.map (fun x => x.map lift)
    let evalAt := fun (p : Option Nat) =>
      let pc : Core D := match p with | some q => perturb c q | none => lift c
      let tracked := setAt (base.map lift) ci pc
      let eT := if kind == "M" then liftEnv envT else setAt (liftEnv envT) oi tracked
      let eM := if kind == "M" then setAt (liftEnv envM) oi tracked else liftEnv envM
      evalProgK eT eM lets.toList e
    let v := (evalAt none).v
    let grads := (List.range total).map (fun p => (evalAt (some p)).d)
    let gs := grads.foldl (fun acc g => acc ++ " " ++ toString g) ""
    pure s!"ad {v} {c.r0} {c.m} {c.n} {c.r1}{gs}"

def processLine (line : String) : String :=
  let toks := (line.splitOn " ").filter (· ≠ "") |>.toArray
  if toks.size == 0 then "" else
  match (run.run toks).run 0 with
  | .ok (s, _) => s
  | .error e => s!"bad {e}"

partial def loop (h : IO.FS.Stream) (out : IO.FS.Stream) : IO Unit := do
  let line ← h.getLine
  if line.isEmpty then return ()
  let l := line.trimAscii.toString
  if l ≠ "" then out.putStrLn (processLine l)
  loop h out

end TT.DriverAD
