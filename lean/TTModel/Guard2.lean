import TTModel.Guard
/-!
# M-shape: guard clauses of further entry points as decision logic (C18)

Source order of the checks is kept (it decides WHICH exception is raised when several apply).
`Compat*` are the dense-side admissibility predicates.
-/
namespace TT.Guard
open TT.Shape

/-- `dot(a, b)` (full): `_extras.py` -/
def guardDot (a b : Sh) : Outcome :=
  if a.isTTM || b.isTTM then .err .NotImplemented
  else if a.N ≠ b.N then .err .ShapeMismatch else .ok
def CompatDot (a b : Sh) : Bool := !a.isTTM && !b.isTTM && a.N == b.N

/-- `bilinear_form(x, A, y)` -/
def guardBilinear (x A y : Sh) : Outcome :=
  if x.isTTM || y.isTTM || !A.isTTM then .err .IncompatibleTypes
  else if x.N ≠ A.M ∨ y.N ≠ A.N then .err .ShapeMismatch else .ok
def CompatBilinear (x A y : Sh) : Bool := !x.isTTM && !y.isTTM && A.isTTM && x.N == A.M && y.N == A.N

/-- `kron(a, b)` / `a ** b` -/
def guardKron (a b : Sh) : Outcome := if a.isTTM ≠ b.isTTM then .err .IncompatibleTypes else .ok

/-- `x / y` for two TT objects -/
def guardTruediv (x y : Sh) : Outcome :=
  if x.isTTM ≠ y.isTTM then .err .IncompatibleTypes
  else if x.N ≠ y.N ∨ (x.isTTM ∧ x.M ≠ y.M) then .err .ShapeMismatch else .ok
def CompatSame (x y : Sh) : Bool := x.isTTM == y.isTTM && x.N == y.N && (!x.isTTM || x.M == y.M)

/-- `A.fast_matvec(x)` (both arguments TT) -/
def guardFastMatvec (A x : Sh) : Outcome := if !A.isTTM || x.isTTM then .err .IncompatibleTypes else .ok

/-- `amen_solve(A, b, preconditioner)` argument validation; `precOk` = name in {None,'c','r'} -/
def guardAmenSolve (A b : Sh) (precOk : Bool) : Outcome :=
  if !(A.isTTM && !b.isTTM) then .err .IncompatibleTypes
  else if A.M ≠ A.N then .err .ShapeMismatch
  else if A.N ≠ b.N then .err .ShapeMismatch
  else if !precOk then .err .InvalidArguments else .ok
def CompatSolve (A b : Sh) (precOk : Bool) : Bool := A.isTTM && !b.isTTM && A.M == A.N && A.N == b.N && precOk

/-- `permute(x, dims)`: length, duplicates, range (`min(dims) != 0 or max(dims) != d-1`) -/
def guardPermute (d : Nat) (dims : List Nat) : Outcome :=
  if dims.length ≠ d then .err .ShapeMismatch
  else if dims.eraseDups.length ≠ dims.length then .err .InvalidArguments
  else if dims.foldl min (dims.headD 0) ≠ 0 ∨ dims.foldl max 0 ≠ d - 1 then .err .InvalidArguments else .ok
def IsPermutation (d : Nat) (dims : List Nat) : Bool :=
  dims.length == d && (List.range d).all (fun i => dims.contains i)

/-- `reshape(x, shape)` for tensors: element counts must agree -/
def guardReshape (N shape : List Nat) : Outcome :=
  if N.foldl (· * ·) 1 ≠ shape.foldl (· * ·) 1 then .err .ShapeMismatch else .ok

/-- `cat(tensors, dim)` on two operands (checks in source order) -/
def guardCat (a b : Sh) (dim : Nat) : Outcome :=
  if a.isTTM then .err .InvalidArguments
  else if dim ≥ a.N.length then .err .InvalidArguments
  else if b.isTTM then .err .InvalidArguments
  else if b.N.take dim ≠ a.N.take dim ∨ b.N.drop (dim+1) ≠ a.N.drop (dim+1) then .err .InvalidArguments
  else if b.N.length ≠ a.N.length then .err .InvalidArguments else .ok
def CompatCat (a b : Sh) (dim : Nat) : Bool :=
  !a.isTTM && !b.isTTM && dim < a.N.length && a.N.length == b.N.length &&
    (List.range a.N.length).all (fun k => k == dim || a.N.getD k 0 == b.N.getD k 0)

/-- `x.mprod(F, mode)` for a single matrix with `cols` columns -/
def guardMprod (x : Sh) (mode cols : Nat) : Outcome :=
  if x.isTTM then .err .IncompatibleTypes
  else if x.N.getD mode 0 ≠ cols then .err .ShapeMismatch else .ok

/-- replace position `k` of a list -/
def setNat : List Nat → Nat → Nat → List Nat
  | [], _, _ => []
  | _ :: xs, 0, v => v :: xs
  | x :: xs, k+1, v => x :: setNat xs k v

/-- the per-pair loop of the list form: `fm` holds `(mode, rows, cols)` of each factor matrix; the mode sizes are updated as the loop
    proceeds (a mode may be listed twice); a position outside the train is Python's `IndexError` -/
def mprodLoop : List Nat → List (Nat × Nat × Nat) → Outcome
  | _, [] => .ok
  | N, (mode, rows, cols) :: rest =>
    if mode ≥ N.length then .err .Other
    else if N.getD mode 0 ≠ cols then .err .ShapeMismatch
    else mprodLoop (setNat N mode rows) rest

/-- `x.mprod([F_1, …], [mode_1, …])` (after the repair: lists of different lengths are rejected) -/
def guardMprodList (x : Sh) (nModes : Nat) (fm : List (Nat × Nat × Nat)) : Outcome :=
  if x.isTTM then .err .IncompatibleTypes
  else if fm.length ≠ nModes then .err .InvalidArguments
  else mprodLoop x.N fm

/-- product of a list of mode sizes -/
def prodL : List Nat → Nat
  | [] => 1
  | n :: ns => n * prodL ns

/-- the grouping loop of `x.qtt_to_tens(original_shape)`: cores are merged until the running mode size equals the next entry of the
    target shape; `original_shape[k]` is read for EVERY core (an exhausted shape list is Python's `IndexError`); after the loop
    `k != len(original_shape)` is `ShapeMismatch`.  `acc` is the running mode size of the group being assembled. -/
def qttGo : List Nat → List Nat → Option Nat → Outcome
  | [], [], none => .ok
  | [], [], some _ => .err .ShapeMismatch      -- unreachable from `acc = none`: an open group means the shape was not exhausted
  | [], _ :: _, _ => .err .ShapeMismatch
  | _ :: _, [], _ => .err .Other
  | n :: ns, s :: ss, acc =>
    let sf := match acc with | none => n | some a => a * n
    if sf = s then qttGo ns ss none else qttGo ns (s :: ss) (some sf)

/-- `x.qtt_to_tens(original_shape)` (a TT-matrix operand produces no cores and the constructor raises) -/
def guardQttToTens (x : Sh) (shape : List Nat) : Outcome :=
  if x.isTTM then .err .Other else qttGo x.N shape none

/-- `pad(x, padding)` -/
def guardPad (d npad : Nat) : Outcome := if npad > d then .err .InvalidArguments else .ok

end TT.Guard
