/-!
# M-dtype: the dtype of a result built from operands of (possibly different) dtypes

The four dtypes the library is used with.  A binary operation on TT objects (`+`, `-`, `*`, `cat`) writes the entries of both operands
into common cores, so the result dtype has to hold both: complex if either is, 64-bit components if either has them — torch's
`promote_types` restricted to these four types.
-/
namespace TT.DType

inductive DT | f32 | f64 | c64 | c128
  deriving DecidableEq, Repr

def DT.isComplex : DT → Bool
  | .c64 | .c128 => true
  | _ => false

def DT.isWide : DT → Bool
  | .f64 | .c128 => true
  | _ => false

def mk : Bool → Bool → DT
  | false, false => .f32
  | false, true => .f64
  | true, false => .c64
  | true, true => .c128

/-- `torch.promote_types` on {float32, float64, complex64, complex128} -/
def promote (a b : DT) : DT := mk (a.isComplex || b.isComplex) (a.isWide || b.isWide)

/-- dtype of `cat((t_0, t_1, …))`, of `sum([...])`, … : promotion over all operands -/
def promoteAll : DT → List DT → DT
  | a, [] => a
  | a, b :: l => promoteAll (promote a b) l

/-- `a` can be converted to `b` without losing information -/
def le (a b : DT) : Bool := (!a.isComplex || b.isComplex) && (!a.isWide || b.isWide)

def ofString : String → Option DT
  | "f32" => some .f32 | "f64" => some .f64 | "c64" => some .c64 | "c128" => some .c128 | _ => none

def toStr : DT → String
  | .f32 => "f32" | .f64 => "f64" | .c64 => "c64" | .c128 => "c128"

end TT.DType
