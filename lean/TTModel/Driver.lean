import TTModel.Basic
import TTModel.Algebra
import TTModel.Reduce
import TTModel.Extras
import TTModel.Reduce2
import TTModel.Trunc
import TTModel.Shape
import TTModel.Heap
import TTModel.Guard
import TTModel.Guard2
import TTModel.Sweep
import TTModel.Kernels
import TTModel.KernelsDmrg
import TTModel.Cross
import TTModel.Manifold
import TTModel.Decomp
import TTModel.DecompM
import TTModel.NormQR
import TTModel.DecompR
import TTModel.PermuteM
import TTModel.ReshapeM
import TTModel.QTT
import TTModel.Permute
import TTModel.Reshape
import TTModel.Scalar
import TTModel.AmenStep
import TTModel.GradApi
import TTModel.Maxvol
import TTModel.DType
/-!
# Line-protocol driver: one operation per input line, one canonical outcome per output line.

`lake env lean --run TTModel/Driver.lean < cases.txt > model.out`

Input  : `<op> <args…>` ; a train is `T|M d (r0 m n r1 e…)*` (row-major entries), numbers are
         `p`, `p/q` or `re,im`.
Output : `tt T|M d (r0 m n r1 e…)*` | `sc v` | `dn k dims… e…` | `err <Kind>` | `bad <msg>`.
-/
namespace TT.Driver
open TT

abbrev S := GRat

abbrev PM := ReaderT (Array String) (StateT Nat (Except String))

def next : PM String := do
  let toks ← read
  let i ← get
  if h : i < toks.size then
    set (i+1); pure toks[i]
  else throw "eol"

def atEnd : PM Bool := do
  let toks ← read
  let i ← get
  pure (i ≥ toks.size)

def nat : PM Nat := do
  let t ← next
  match t.toNat? with
  | some k => pure k
  | none => throw s!"nat? {t}"

def num : PM S := do
  let t ← next
  match GRat.parse t with
  | some k => pure k
  | none => throw s!"num? {t}"

def int : PM Int := do
  let t ← next
  match t.toInt? with
  | some k => pure k
  | none => throw s!"int? {t}"

def many {β : Type} (k : Nat) (p : PM β) : PM (Array β) := do
  let mut out := Array.mkEmpty k
  for _ in [0:k] do
    out := out.push (← p)
  pure out

def coreOfArray (r0 m n r1 : Nat) (arr : Array S) : Core S :=
  { r0 := r0, m := m, n := n, r1 := r1
    get := fun a i j b =>
      if a < r0 ∧ i < m ∧ j < n ∧ b < r1 then arr.getD (((a * m + i) * n + j) * r1 + b) 0 else 0 }

def core : PM (Core S) := do
  let r0 ← nat; let m ← nat; let n ← nat; let r1 ← nat
  let arr ← many (r0*m*n*r1) num
  pure (coreOfArray r0 m n r1 arr)

def tt : PM (Bool × List (Core S)) := do
  let k ← next
  let isM ← (if k == "M" then pure true else if k == "T" then pure false else throw s!"kind? {k}")
  let d ← nat
  let cs ← many d core
  pure (isM, cs.toList)

def entries (c : Core S) : Array S := Id.run do
  let mut out := Array.mkEmpty (c.r0*c.m*c.n*c.r1)
  for a in [0:c.r0] do
    for i in [0:c.m] do
      for j in [0:c.n] do
        for b in [0:c.r1] do
          out := out.push (c.get a i j b)
  pure out

/-- evaluate a core once into an array (cuts closure chains between operations) -/
def freeze (c : Core S) : Core S := coreOfArray c.r0 c.m c.n c.r1 (entries c)

/-- a 3-index environment stored as an array (strict value: cuts closure chains between the steps of a fold) -/
def phiArr (d0 d1 d2 : Nat) (P : Kern.Phi3 S) : Array S := Id.run do
  let mut out : Array S := Array.mkEmpty (d0 * d1 * d2)
  for a in [0:d0] do
    for b in [0:d1] do
      for c in [0:d2] do
        out := out.push (P a b c)
  pure out

def phiOfArr (d0 d1 d2 : Nat) (arr : Array S) : Kern.Phi3 S :=
  fun a b c => if a < d0 ∧ b < d1 ∧ c < d2 then arr.getD ((a * d1 + b) * d2 + c) 0 else 0

/-- `Kern.foldFwdA` with the running environment materialised after every core (same value on in-range indices) -/
def foldFwdFrozen : List (Core S) → List (Core S) → List (Core S) → (Nat × Nat × Nat) × Array S → (Nat × Nat × Nat) × Array S
  | x :: xs, A :: As, y :: ys, ((d0, d1, d2), arr) =>
    let nxt := phiArr x.r1 A.r1 y.r1 (Kern.phiFwdA (phiOfArr d0 d1 d2 arr) x A y)
    foldFwdFrozen xs As ys ((x.r1, A.r1, y.r1), nxt)
  | _, _, _, st => st

def foldBckFrozen : List (Core S) → List (Core S) → List (Core S) → (Nat × Nat × Nat) × Array S → (Nat × Nat × Nat) × Array S
  | x :: xs, A :: As, y :: ys, st =>
    let ((d0, d1, d2), arr) := foldBckFrozen xs As ys st
    ((x.r0, A.r0, y.r0), phiArr x.r0 A.r0 y.r0 (Kern.phiBckA (phiOfArr d0 d1 d2 arr) x A y))
  | _, _, _, st => st

def foldFwdABFrozen : List (Core S) → List (Core S) → List (Core S) → (Nat × Nat × Nat) × Array S → (Nat × Nat × Nat) × Array S
  | A :: As, B :: Bs, X :: Xs, ((d0, d1, d2), arr) =>
    foldFwdABFrozen As Bs Xs ((X.r1, A.r1, B.r1), phiArr X.r1 A.r1 B.r1 (Kern.phiFwdAB (phiOfArr d0 d1 d2 arr) A B X))
  | _, _, _, st => st

def foldBckABFrozen : List (Core S) → List (Core S) → List (Core S) → (Nat × Nat × Nat) × Array S → (Nat × Nat × Nat) × Array S
  | A :: As, B :: Bs, X :: Xs, st =>
    let ((d0, d1, d2), arr) := foldBckABFrozen As Bs Xs st
    ((X.r0, A.r0, B.r0), phiArr X.r0 A.r0 B.r0 (Kern.phiBckAB (phiOfArr d0 d1 d2 arr) A B X))
  | _, _, _, st => st

def phi2Arr (d0 d1 : Nat) (P : Kern.Phi2 S) : Array S := Id.run do
  let mut out : Array S := Array.mkEmpty (d0 * d1)
  for a in [0:d0] do
    for b in [0:d1] do
      out := out.push (P a b)
  pure out

def phi2OfArr (d0 d1 : Nat) (arr : Array S) : Kern.Phi2 S :=
  fun a b => if a < d0 ∧ b < d1 then arr.getD (a * d1 + b) 0 else 0

def foldFwdRhsFrozen : List (Core S) → List (Core S) → (Nat × Nat) × Array S → (Nat × Nat) × Array S
  | b :: bs, x :: xs, ((d0, d1), arr) =>
    foldFwdRhsFrozen bs xs ((b.r1, x.r1), phi2Arr b.r1 x.r1 (Kern.phiFwdRhs (phi2OfArr d0 d1 arr) b x))
  | _, _, st => st

def foldBckRhsFrozen : List (Core S) → List (Core S) → (Nat × Nat) × Array S → (Nat × Nat) × Array S
  | b :: bs, x :: xs, st =>
    let ((d0, d1), arr) := foldBckRhsFrozen bs xs st
    ((b.r0, x.r0), phi2Arr b.r0 x.r0 (Kern.phiBckRhs (phi2OfArr d0 d1 arr) b x))
  | _, _, st => st

def showCore (c : Core S) : String :=
  let es := (entries c).foldl (fun acc e => acc ++ " " ++ toString e) ""
  s!"{c.r0} {c.m} {c.n} {c.r1}{es}"

def showTT (isM : Bool) (cs : List (Core S)) : String :=
  let k := if isM then "M" else "T"
  cs.foldl (fun acc c => acc ++ " " ++ showCore c) s!"tt {k} {cs.length}"

/-- all multi-indices below `dims`, row-major -/
def allIdx : List Nat → List (List Nat)
  | [] => [[]]
  | n :: ns => (List.range n).flatMap (fun k => (allIdx ns).map (k :: ·))

def showDense (dims : List Nat) (f : List Nat → S) : String :=
  let hdr := dims.foldl (fun acc d => acc ++ " " ++ toString d) s!"dn {dims.length}"
  (allIdx dims).foldl (fun acc idx => acc ++ " " ++ toString (f idx)) hdr

/-- `full()` of a train as a dense array of shape `M ++ N` (operators) or `N` (tensors) -/
def denseOf (isM : Bool) (cs : List (Core S)) : String :=
  let ms := modesM cs
  let ns := modesN cs
  if isM then
    showDense (ms ++ ns) (fun idx => full cs ((idx.take ms.length).zip (idx.drop ms.length)))
  else showDense ms (fun idx => full cs (tIdx idx))

def sel : PM Sel := do
  let t ← next
  if t == "i" then pure (Sel.int (← nat))
  else if t == "s" then do
    let a ← nat; let st ← nat; let l ← nat
    pure (Sel.slice a st l)
  else if t == "n" then pure Sel.none
  else throw s!"sel? {t}"

def natList : PM (List Nat) := do
  let k ← nat
  let xs ← many k nat
  pure xs.toList

def matrix : PM (Nat × Nat × (Nat → Nat → S)) := do
  let r ← nat; let c ← nat
  let arr ← many (r*c) num
  pure (r, c, fun i j => if i < r ∧ j < c then arr.getD (i*c+j) 0 else 0)

def dense : PM (List Nat × (List Nat → S)) := do
  let dims ← natList
  let total := dims.foldl (· * ·) 1
  let arr ← many total num
  let f := fun (idx : List Nat) =>
    let flat := (idx.zip dims).foldl (fun acc p => acc * p.2 + p.1) 0
    arr.getD flat 0
  pure (dims, f)

def showObj (o : Shape.Obj) : String :=
  let k := if o.isTTM then "M" else "T"
  s!"obj {k} N {o.N} M {o.M} R {o.R} S {o.shape} C {o.cores}"

def showErr : Shape.Err → String
  | .RankMismatch => "err RankMismatch"
  | .InvalidArguments => "err InvalidArguments"
  | .ShapeMismatch => "err ShapeMismatch"
  | .IncompatibleTypes => "err IncompatibleTypes"
  | .NotImplemented => "err NotImplementedError"
  | .Other => "err Other"

def showObjRes : Except Shape.Err Shape.Obj → String
  | .ok o => showObj o
  | .error e => showErr e

/-- object = core shapes, then N, M, R (each length-prefixed), then the is_ttm flag; `shape` is
    recomputed from the stored M, N the way the implementation prints it -/
def shapeObj : PM Shape.Obj := do
  let k ← nat
  let cs ← many k natList
  let N ← natList; let M ← natList; let R ← natList
  let t ← nat
  let ttm := t == 1
  pure { cores := cs.toList, N := N, M := M, R := R, shape := Shape.shapeOf ttm M N, isTTM := ttm }

def guardSh : PM Guard.Sh := do
  let k ← next
  let N ← natList; let M ← natList
  pure { isTTM := k == "M", N := N, M := M }

/-- multi-index of a flat row-major position -/
def unflat : List Nat → Nat → Nat → List Nat
  | [], _, _ => []
  | n :: ns, j, total =>
    let rest := total / n
    (j / rest) :: unflat ns (j % rest) rest

def sameModesB (xs ys : List (Core S)) : Bool :=
  xs.length == ys.length && (xs.zip ys).all (fun p => p.1.m == p.2.m && p.1.n == p.2.n)

def run : PM String := do
  let op ← next
  match op with
  | "full" => do let (k, x) ← tt; pure (denseOf k x)
  | "add" => do let (k, x) ← tt; let (_, y) ← tt; pure (showTT k (add x y))
  | "sub" => do let (k, x) ← tt; let (_, y) ← tt; pure (showTT k (sub x y))
  | "rsub" => do let (k, x) ← tt; let (_, y) ← tt; pure (showTT k (negFirst (sub x y)))
  | "mul" => do let (k, x) ← tt; let (_, y) ← tt; pure (showTT k (mul x y))
  | "addb" => do
      let (k, x) ← tt; let (_, y) ← tt
      match bcast x y with
      | some y' => pure (showTT k (add x y'))
      | none => pure "err ShapeMismatch"
  | "subb" => do
      let (k, x) ← tt; let (_, y) ← tt
      match bcast x y with
      | some y' => pure (showTT k (sub x y'))
      | none => pure "err ShapeMismatch"
  | "mulb" => do
      let (k, x) ← tt; let (_, y) ← tt
      match bcast x y with
      | some y' => pure (showTT k (mul x y'))
      | none => pure "err ShapeMismatch"
  | "adds" => do let (k, x) ← tt; let s ← num; pure (showTT k (addScalar x s))
  | "subs" => do let (k, x) ← tt; let s ← num; pure (showTT k (subScalar x s))
  | "rsubs" => do let (k, x) ← tt; let s ← num; pure (showTT k (rsubScalar x s))
  | "smul" => do let (k, x) ← tt; let s ← num; pure (showTT k (smul x s))
  | "sdiv" => do let (k, x) ← tt; let s ← num; pure (showTT k (sdiv x s))
  | "neg" => do let (k, x) ← tt; pure (showTT k (neg x))
  | "kron" => do let (k, x) ← tt; let (_, y) ← tt; pure (showTT k (kron x y))
  | "mm" => do let (_, x) ← tt; let (ky, y) ← tt; pure (showTT ky (matmul x y))
  | "vm" => do let (_, x) ← tt; let (_, y) ← tt; pure (showTT false (vecmat x y))
  | "t" => do let (k, x) ← tt; pure (showTT k (transpose x))
  | "tottm" => do let (_, x) ← tt; pure (showTT true (toTTM x))
  | "conj" => do let (k, x) ← tt; pure (showTT k (conjTT GRat.conj x))
  | "clone" => do let (k, x) ← tt; pure (showTT k (clone x))
  | "ones" => do
      let k ← nat; let sh ← many k (do let a ← nat; let b ← nat; pure (a, b))
      let isM ← nat
      pure (showTT (isM == 1) (onesTT sh.toList))
  | "zeros" => do
      let k ← nat; let sh ← many k (do let a ← nat; let b ← nat; pure (a, b))
      let isM ← nat
      pure (showTT (isM == 1) (zerosTT sh.toList))
  | "eye" => do let sh ← natList; pure (showTT true (eyeTT sh))
  | "rank1" => do
      let k ← nat
      let vs ← many k (do let n ← nat; let arr ← many n num; pure (n, fun i => arr.getD i (0:S)))
      pure (showTT false (rank1TT vs.toList))
  | "meshgrid" => do
      let k ← nat
      let vs ← many k (do let n ← nat; let arr ← many n num; pure (n, fun i => arr.getD i (0:S)))
      let p ← nat
      pure (showTT false (meshgridK vs.toList p))
  | "sumall" => do let (_, x) ← tt; pure s!"sc {sumAll x}"
  | "sumsel" => do
      let (k, x) ← tt; let idx ← natList
      let r := sumSel (fun i => idx.contains i) x
      let allSummed := (List.range x.length).all (fun i => idx.contains i)
      match r with
      | [c] => if allSummed && c.m == 1 && c.n == 1 && c.r0 == 1 && c.r1 == 1 then pure s!"sc {c.get 0 0 0 0}"
               else pure (showTT k r)
      | _ => pure (showTT k r)
  | "dot" => do let (_, x) ← tt; let (_, y) ← tt; pure s!"sc {dotFull GRat.conj x y}"
  | "dotp" => do
      let (_, x) ← tt; let (_, y) ← tt; let ax ← natList
      let r := dotPartial GRat.conj x y ax
      let allSummed := (List.range x.length).all (fun i => ax.contains i)
      match r with
      | [c] => if allSummed && c.m == 1 && c.n == 1 && c.r0 == 1 && c.r1 == 1 then pure s!"sc {c.get 0 0 0 0}"
               else pure (showTT false (r.map freeze))
      | _ => pure (showTT false (r.map freeze))
  | "ctor" => do
      let k ← nat
      let cs ← many k natList
      pure (showObjRes (Shape.fromCores cs.toList))
  | "setcore" => do
      let o ← shapeObj; let k ← nat; let sh ← natList
      pure (showObjRes (Shape.setCore o k sh))
  | "reducedims" => do
      let o ← shapeObj; let ex ← natList
      pure (showObj (Shape.reduceDimsObj o ex))
  | "guard" => do
      let op ← next
      let x ← guardSh; let y ← guardSh
      let o := if op == "add" || op == "sub" then Guard.guardAddSub x y
               else if op == "mul" then Guard.guardMul x y
               else Guard.guardMatmul x y
      match o with
      | .ok => pure "ok"
      | .err e => pure (showErr e)
  | "phifwdA" => do
      let (_, P) ← dense; let x ← core; let A ← core; let y ← core
      let r := Kern.phiFwdA (fun a b c => P [a,b,c]) x A y
      pure (showDense [x.r1, A.r1, y.r1] (fun i => r (i.getD 0 0) (i.getD 1 0) (i.getD 2 0)))
  | "phibckA" => do
      let (_, P) ← dense; let x ← core; let A ← core; let y ← core
      let r := Kern.phiBckA (fun a b c => P [a,b,c]) x A y
      pure (showDense [x.r0, A.r0, y.r0] (fun i => r (i.getD 0 0) (i.getD 1 0) (i.getD 2 0)))
  | "foldA" => do
      -- environments of ⟨x, A y⟩ over whole (sub)trains: `foldA fwd|bck plain|conj|hconj <x> <A> <y>`
      let dir ← next; let kind ← next
      let (_, xs) ← tt; let (_, As0) ← tt; let (_, ys0) ← tt
      let As1 := if kind == "hconj" then As0.map Kern.diagCore else As0
      let As := if kind == "plain" then As1 else As1.map (Core.mapVal GRat.conj)
      let ys := if kind == "plain" then ys0 else ys0.map (Core.mapVal GRat.conj)
      let one : (Nat × Nat × Nat) × Array S := ((1, 1, 1), #[1])
      let ((d0, d1, d2), arr) := if dir == "fwd" then foldFwdFrozen xs As ys one else foldBckFrozen xs As ys one
      let r := phiOfArr d0 d1 d2 arr
      pure (showDense [d0, d1, d2] (fun i => r (i.getD 0 0) (i.getD 1 0) (i.getD 2 0)))
  | "foldAB" => do
      let dir ← next
      let (_, As) ← tt; let (_, Bs) ← tt; let (_, Xs) ← tt
      let one : (Nat × Nat × Nat) × Array S := ((1, 1, 1), #[1])
      let ((d0, d1, d2), arr) := if dir == "fwd" then foldFwdABFrozen As Bs Xs one else foldBckABFrozen As Bs Xs one
      let r := phiOfArr d0 d1 d2 arr
      pure (showDense [d0, d1, d2] (fun i => r (i.getD 0 0) (i.getD 1 0) (i.getD 2 0)))
  | "foldRhs" => do
      let dir ← next
      let (_, bs) ← tt; let (_, xs) ← tt
      let one : (Nat × Nat) × Array S := ((1, 1), #[1])
      let ((d0, d1), arr) := if dir == "fwd" then foldFwdRhsFrozen bs xs one else foldBckRhsFrozen bs xs one
      let r := phi2OfArr d0 d1 arr
      pure (showDense [d0, d1] (fun i => r (i.getD 0 0) (i.getD 1 0)))
  | "dmrgbck" => do
      let kind ← next; let (_, P) ← dense; let y ← core; let A0 ← core; let x ← core
      let A := if kind == "h" then Kern.diagCore A0 else A0
      let r := Kern.dmrgPhiBck GRat.conj (fun a b c => P [a,b,c]) y A x
      pure (showDense [y.r0, A.r0, x.r0] (fun i => r (i.getD 0 0) (i.getD 1 0) (i.getD 2 0)))
  | "dmrgfwd" => do
      let kind ← next; let (_, P) ← dense; let y ← core; let A0 ← core; let x ← core
      let A := if kind == "h" then Kern.diagCore A0 else A0
      let r := Kern.dmrgPhiFwd GRat.conj (fun a b c => P [a,b,c]) y A x
      pure (showDense [y.r1, A.r1, x.r1] (fun i => r (i.getD 0 0) (i.getD 1 0) (i.getD 2 0)))
  | "dmrgsuper" => do
      let kind ← next; let (dl, PL) ← dense; let (dr, PR) ← dense
      let A1' ← core; let x1 ← core; let A2' ← core; let x2 ← core
      let A1 := if kind == "h" then Kern.diagCore A1' else A1'
      let A2 := if kind == "h" then Kern.diagCore A2' else A2'
      let r := Kern.dmrgSuper GRat.conj (fun a b c => PL [a,b,c]) (fun a b c => PR [a,b,c]) A1 x1 A2 x2
      pure (showDense [dl.getD 0 0, A1.m, A2.m, dr.getD 0 0] (fun i => r (i.getD 0 0) (i.getD 1 0) (i.getD 2 0) (i.getD 3 0)))
  | "phifwdrhs" => do
      let (_, P) ← dense; let b ← core; let x ← core
      let r := Kern.phiFwdRhs (fun a c => P [a,c]) b x
      pure (showDense [b.r1, x.r1] (fun i => r (i.getD 0 0) (i.getD 1 0)))
  | "phibckrhs" => do
      let (_, P) ← dense; let b ← core; let x ← core
      let r := Kern.phiBckRhs (fun a c => P [a,c]) b x
      pure (showDense [b.r0, x.r0] (fun i => r (i.getD 0 0) (i.getD 1 0)))
  | "localprod" => do
      let (dl, PL) ← dense; let (dr, PR) ← dense; let A ← core; let u ← core
      let r := Kern.localProduct (fun a b c => PL [a,b,c]) (fun a b c => PR [a,b,c]) A u
      pure (showDense [dl.getD 0 0, A.m, dr.getD 0 0] (fun i => r (i.getD 0 0) (i.getD 1 0) (i.getD 2 0)))
  | "linop" => do
      let (dl, PL) ← dense; let (dr, PR) ← dense; let A ← core; let u ← core
      let r := Kern.linopMatvec (fun a b c => PL [a,b,c]) (fun a b c => PR [a,b,c]) A u
      pure (showDense [dl.getD 0 0, A.m, dr.getD 0 0] (fun i => r (i.getD 0 0) (i.getD 1 0) (i.getD 2 0)))
  | "localrhs" => do
      let (dl, PL) ← dense; let (dr, PR) ← dense; let b ← core
      let r := Kern.localRhs (fun a c => PL [a,c]) (fun a c => PR [a,c]) b
      pure (showDense [dl.getD 1 0, b.m, dr.getD 1 0] (fun i => r (i.getD 0 0) (i.getD 1 0) (i.getD 2 0)))
  | "phifwdAB" => do
      let (_, P) ← dense; let A ← core; let B ← core; let X ← core
      let r := Kern.phiFwdAB (fun a b c => P [a,b,c]) A B X
      pure (showDense [X.r1, A.r1, B.r1] (fun i => r (i.getD 0 0) (i.getD 1 0) (i.getD 2 0)))
  | "phibckAB" => do
      let (_, P) ← dense; let A ← core; let B ← core; let X ← core
      let r := Kern.phiBckAB (fun a b c => P [a,b,c]) A B X
      pure (showDense [X.r0, A.r0, B.r0] (fun i => r (i.getD 0 0) (i.getD 1 0) (i.getD 2 0)))
  | "localAB" => do
      let (dl, PL) ← dense; let (dr, PR) ← dense; let A ← core; let B ← core
      let r := Kern.localAB (fun a b c => PL [a,b,c]) (fun a b c => PR [a,b,c]) A B
      pure (showDense [dl.getD 0 0, A.m, B.n, dr.getD 0 0] (fun i => r (i.getD 0 0) (i.getD 1 0) (i.getD 2 0) (i.getD 3 0)))
  | "phifwdX" => do
      let (_, P) ← dense; let x ← core; let y ← core
      let r := Kern.phiFwdX (fun a c => P [a,c]) x y
      pure (showDense [x.r1, y.r1] (fun i => r (i.getD 0 0) (i.getD 1 0)))
  | "phibckX" => do
      let (_, P) ← dense; let x ← core; let y ← core
      let r := Kern.phiBckX (fun a c => P [a,c]) x y
      pure (showDense [x.r0, y.r0] (fun i => r (i.getD 0 0) (i.getD 1 0)))
  | "tott" => do
      let cap ← nat; let (dims, f) ← dense
      let total := dims.foldl (· * ·) 1
      let A : Nat → S := fun j => f (unflat dims j total)
      pure (showTT false ((Decomp.toTT (Decomp.idOracle cap) dims A).map freeze))
  | "mattott" => do
      let cap ← nat; let M ← natList; let N ← natList; let (dims, f) ← dense
      let total := dims.foldl (· * ·) 1
      let A : Nat → S := fun j => f (unflat dims j total)
      pure (showTT true ((Decomp.toTTM (Decomp.idOracle cap) M N A).map freeze))
  | "lrorthm" => do
      let (_, x) ← tt
      pure (showTT true ((Decomp.lrOrthM (Decomp.idOracle 1000000) x).map freeze))
  | "roundttm" => do
      let cap ← nat; let (_, x) ← tt
      pure (showTT true ((Decomp.roundTTM (Decomp.idOracle 1000000) (Decomp.idOracle cap) x).map freeze))
  | "normqr" => do
      let (isM, x) ← tt
      let v := if isM then Decomp.normSqQRM GRat.conj (Decomp.idOracle 1000000) x else Decomp.normSqQR GRat.conj (Decomp.idOracle 1000000) x
      pure s!"sc {v}"
  | "tottr" => do
      let caps ← natList; let (dims, f) ← dense
      let total := dims.foldl (· * ·) 1
      let A : Nat → S := fun j => f (unflat dims j total)
      pure (showTT false ((Decomp.toTTR (Decomp.idOracle 1000000) caps dims A).map freeze))
  | "mattottr" => do
      let caps ← natList; let M ← natList; let N ← natList; let (dims, f) ← dense
      let total := dims.foldl (· * ·) 1
      let A : Nat → S := fun j => f (unflat dims j total)
      pure (showTT true ((Decomp.toTTMR (Decomp.idOracle 1000000) caps M N A).map freeze))
  | "permutettm" => do
      let cap ← nat; let dims ← natList; let (_, x) ← tt
      pure (showTT true (Permute.permuteTTMWith freeze (Decomp.idOracle 1000000) (Decomp.idOracle cap) dims x))
  | "reshapettm" => do
      let cap ← nat; let k ← nat; let dst ← many k (do let m ← nat; let n ← nat; pure (m, n)); let (_, x) ← tt
      match Reshape.reshapeTTMWith freeze (Decomp.idOracle 1000000) (Decomp.idOracle cap) dst.toList x with
      | some r => pure (showTT true (r.map freeze))
      | none => pure "none"
  | "toqtt" => do
      let cap ← nat; let ms ← nat; let (_, x) ← tt
      pure (showTT false ((QTT.toQTT (Decomp.idOracle cap) ms x).map freeze))
  | "qtttotens" => do
      let shape ← natList; let (_, x) ← tt
      match QTT.qttToTens shape x with
      | some r => pure (showTT false (r.map freeze))
      | none => pure "none"
  | "lrorth" => do
      let (_, x) ← tt
      pure (showTT false ((Decomp.lrOrth (Decomp.idOracle 1000000) x).map freeze))
  | "roundtt" => do
      let cap ← nat; let (_, x) ← tt
      pure (showTT false ((Decomp.roundTT (Decomp.idOracle 1000000) (Decomp.idOracle cap) x).map freeze))
  | "permutett" => do
      let cap ← nat; let dims ← natList; let (_, x) ← tt
      pure (showTT false (Permute.permuteTTWith freeze (Decomp.idOracle 1000000) (Decomp.idOracle cap) dims x))
  | "reshapett" => do
      let cap ← nat; let dst ← natList; let (_, x) ← tt
      match Reshape.reshapeTTWith freeze (Decomp.idOracle 1000000) (Decomp.idOracle cap) dst x with
      | some r => pure (showTT false (r.map freeze))
      | none => pure "none"
  | "reshapecores" => do
      let cap ← nat; let dst ← natList; let (_, x) ← tt
      match Reshape.reshapeCoresWith freeze (Decomp.idOracle 1000000) (Decomp.idOracle cap) dst x with
      | some r => pure (showTT false (r.map freeze))
      | none => pure "none"
  | "rlorth" => do
      let (_, x) ← tt
      pure (showTT false ((Permute.rlOrth (Decomp.idOracle 1000000) x).map freeze))
  | "delta2cores" => do
      let (k, ls) ← tt; let (_, rs) ← tt; let (_, ds) ← tt
      pure (showTT k ((Manifold.delta2cores ls rs ds).map freeze))
  | "project" => do
      let (k, ls) ← tt; let (_, rs) ← tt; let (_, zs) ← tt
      pure (showTT k ((Manifold.project ls rs zs).map freeze))
  | "leftupdate" => do
      let k ← nat; let L ← many k natList; let n ← nat; let piv ← natList
      pure s!"set {Cross.leftUpdate L.toList n piv}"
  | "rightupdate" => do
      let k ← nat; let R ← many k natList; let r ← nat; let piv ← natList
      pure s!"set {Cross.rightUpdate R.toList r piv}"
  | "rightinit" => do
      let k ← nat; let R ← many k natList; let n ← nat; let piv ← natList
      pure s!"set {Cross.rightInit R.toList n piv}"
  | "evalindex" => do
      let k ← nat; let L ← many k natList; let n1 ← nat; let n2 ← nat; let k2 ← nat; let R ← many k2 natList
      pure s!"set {Cross.evalIndex L.toList n1 n2 R.toList}"
  | "reshapemodes" => do
      let src ← natList; let dst ← natList
      match Sweep.reshapeModes src dst with
      | some (ms, sp) => pure s!"modes {ms} splits {sp}"
      | none => pure "none"
  | "permuteorder" => do
      let dims ← natList
      let (o, sw) := Sweep.permuteOrder dims
      pure s!"order {o} swaps {sw.length}"
  | "guard2" => do
      let name ← next
      let o ← (match name with
        | "dot" => do let a ← guardSh; let b ← guardSh; pure (Guard.guardDot a b)
        | "bilinear" => do let x ← guardSh; let A ← guardSh; let y ← guardSh; pure (Guard.guardBilinear x A y)
        | "kron" => do let a ← guardSh; let b ← guardSh; pure (Guard.guardKron a b)
        | "truediv" => do let a ← guardSh; let b ← guardSh; pure (Guard.guardTruediv a b)
        | "fast_matvec" => do let a ← guardSh; let b ← guardSh; pure (Guard.guardFastMatvec a b)
        | "amen_solve" => do let a ← guardSh; let b ← guardSh; let p ← nat; pure (Guard.guardAmenSolve a b (p == 1))
        | "permute" => do let d ← nat; let dims ← natList; pure (Guard.guardPermute d dims)
        | "reshape" => do let N ← natList; let sh ← natList; pure (Guard.guardReshape N sh)
        | "cat" => do let a ← guardSh; let b ← guardSh; let dim ← nat; pure (Guard.guardCat a b dim)
        | "mprod" => do let x ← guardSh; let mode ← nat; let cols ← nat; pure (Guard.guardMprod x mode cols)
        | "mprodlist" => do
            let x ← guardSh; let nModes ← nat; let k ← nat
            let fm ← many k (do let m ← nat; let r ← nat; let c ← nat; pure (m, r, c))
            pure (Guard.guardMprodList x nModes fm.toList)
        | "qtt_to_tens" => do let x ← guardSh; let sh ← natList; pure (Guard.guardQttToTens x sh)
        | "pad" => do let d ← nat; let k ← nat; pure (Guard.guardPad d k)
        | _ => throw s!"guard2? {name}" : PM Guard.Outcome)
      match o with
      | .ok => pure "ok"
      | .err e => pure (showErr e)
  | "heapeffect" => do
      let name ← next; let t ← nat
      pure s!"sc {if Heap.writeAllowed name (t == 1) then 1 else 0}"
  | "rankchop" => do
      let k ← nat; let sv ← many k num; let e ← num
      pure s!"sc {Trunc.rankChop (sv.toList.map (·.re)) e.re}"
  | "rankchopcpp" => do
      let k ← nat; let sv ← many k num; let e ← num
      pure s!"sc {Trunc.rankChopCpp (sv.toList.map (·.re)) e.re}"
  | "normsq" => do let (_, x) ← tt; pure s!"sc {normSq GRat.conj x}"
  | "bilinear" => do
      let (_, x) ← tt; let (_, A) ← tt; let (_, y) ← tt
      pure s!"sc {bilinear GRat.conj x A y}"
  | "mask" => do
      let (_, x) ← tt; let rows ← nat
      let idxs ← many rows (many x.length nat)
      pure (showDense [rows] (fun r => match r with
        | [r] => applyMask x (idxs.getD r #[]).toList
        | _ => 0))
  | "dmv" => do
      let (_, A) ← tt; let (dims, f) ← dense
      let d := A.length
      let nb := dims.length - d
      let bdims := dims.take nb
      let ms := modesM A
      pure (showDense (bdims ++ ms) (fun idx =>
        let bi := idx.take nb
        denseMatvec A (fun ns => f (bi ++ ns)) (idx.drop nb)))
  | "forward" => do
      let (_, A) ← tt; let (_, bias) ← dense; let (dims, f) ← dense
      let d := A.length
      let nb := dims.length - d
      let bdims := dims.take nb
      let ms := modesM A
      pure (showDense (bdims ++ ms) (fun idx =>
        let bi := idx.take nb
        forward A bias (fun ns => f (bi ++ ns)) (idx.drop nb)))
  | "getitem" => do
      let (_, x) ← tt; let ell ← nat; let k ← nat; let ss ← many k sel
      match getitem (expandEll ell ss.toList x) x with
      | none => pure "err InvalidArguments"
      | some (r, allInt) =>
        match r with
        | [c] => if allInt && c.m == 1 && c.n == 1 then pure s!"sc {c.get 0 0 0 0}" else pure (showTT false r)
        | _ => pure (showTT false r)
  | "getitemM" => do
      let (_, x) ← tt; let k ← nat
      let ss ← many k (do let a ← sel; let b ← sel; pure (a, b))
      match getitemM ss.toList x with
      | none => pure "err InvalidArguments"
      | some (r, allInt) =>
        match r with
        | [c] => if allInt && c.m == 1 && c.n == 1 then pure s!"sc {c.get 0 0 0 0}" else pure (showTT true r)
        | _ => pure (showTT true r)
  | "cat" => do
      let dim ← nat; let k ← nat
      let ts ← many k tt
      pure (showTT false (cat dim (ts.toList.map (·.2))))
  | "padT" => do
      let (_, x) ← tt; let k ← nat
      let ps ← many k (do let a ← nat; let b ← nat; pure (a, b))
      let v ← num
      pure (showTT false ((padTensor x ps.toList v).map freeze))
  | "padM" => do
      let (_, x) ← tt; let k ← nat
      let ps ← many k (do let a ← nat; let b ← nat; pure (a, b))
      let v ← num
      pure (showTT true (padM x ps.toList v))
  | "diagE" => do let (_, x) ← tt; pure (showTT true (diagEmbed x))
  | "diagX" => do let (_, x) ← tt; pure (showTT false (diagExtract x))
  | "mprod" => do
      let (_, x) ← tt; let k ← nat
      let mut cur := x
      for _ in [0:k] do
        let mode ← nat
        let (r, _, F) ← matrix
        cur := (mprod cur mode r F).map freeze
      pure (showTT false cur)
  | "gradapi" => do
      -- `gradapi d nops (w k i… | wa | u)* (all | idx k i…)`: a history of watch / unwatch calls, then one `grad`
      let d ← nat; let nops ← nat
      let mut fl : Option (List Bool) := some (List.replicate d false)
      for _ in [0:nops] do
        let o ← next
        match o with
        | "wa" => fl := fl.bind (fun f => GradApi.watch f none)
        | "u" => fl := fl.map GradApi.unwatch
        | "w" => do
            let k ← nat; let idx ← many k int
            fl := fl.bind (fun f => GradApi.watch f (some idx.toList))
        | _ => throw s!"gradop? {o}"
      let g ← next
      let sel ← (if g == "all" then pure none else do let k ← nat; let idx ← many k int; pure (some idx.toList))
      match fl with
      | none => pure "gs err-watch"
      | some f =>
        match GradApi.grad f sel with
        | none => pure "gs err-grad"
        | some l => pure ("gs " ++ toString l.length ++ " " ++ " ".intercalate (l.map (fun o => match o with | some k => toString k | none => "-")))
  | "promote" => do
      -- `promote n dt_1 … dt_n`: dtype of a result that holds the entries of operands with these dtypes (n ≥ 1)
      let n ← nat; let ds ← many n next
      match ds.toList.mapM DType.ofString with
      | some (a :: l) => pure ("dt " ++ DType.toStr (DType.promoteAll a l))
      | _ => throw "dtype?"
  | "gradlist" => do
      -- `gradlist n d_1 … d_n flag`: layout of `grad_list(val, tensors, all_in_one = flag)` for tensors with d_t cores
      let n ← nat; let ds ← many n nat; let fl ← nat
      let sh := fun (p : Nat × Nat) => toString p.1 ++ "." ++ toString p.2
      if fl == 1 then
        pure ("gl flat " ++ " ".intercalate ((GradApi.gradListFlat ds.toList).map sh))
      else
        pure ("gl nested " ++ " | ".intercalate ((GradApi.gradListNested ds.toList).map (fun l => " ".intercalate (l.map sh))))
  | "amenupd" => do
      -- `amenupd core_k core_k+1 r U(rows×r) W(r×r1) (0 | 1 radd uk(rows×radd) r' Q(rows×r') R(r'×(r+radd)))`
      let c ← core; let nxt ← core
      let r ← nat; let (_, _, U) ← matrix; let (_, _, W) ← matrix
      let f : Decomp.Fact S := { r := r, left := U, right := W }
      let e ← nat
      if e == 0 then
        let p := Amen.updatePlain c nxt f
        pure (showTT true [freeze p.1, freeze p.2])
      else
        let radd ← nat; let (_, _, uk) ← matrix
        let r' ← nat; let (_, _, Q) ← matrix; let (_, _, R) ← matrix
        let qr : Decomp.Oracle S := fun _ _ _ => { r := r', left := Q, right := R }
        let p := Amen.updateEnrich qr c nxt f uk radd
        pure (showTT true [freeze p.1, freeze p.2])
  | "trunccore" => do
      let c ← core; let r ← nat; let (_, _, U) ← matrix; let (_, _, W) ← matrix
      pure (showTT true [freeze (Amen.truncCore c { r := r, left := U, right := W })])
  | "rankres" => do
      -- `rankres n rmax b_1 … b_{n-1}` (b_r = 1: the truncation to r columns failed the residual test)
      let n ← nat; let rmax ← nat
      let bs ← many (n - 1) nat
      pure ("sc " ++ toString (Amen.rankByResidual (fun r => bs.getD (r - 1) 0 == 1) n rmax))
  | "maxvol" => do
      -- `maxvol rows cols nP P… nev (done i j)…`
      let rows ← nat; let cols ← nat
      let nP ← nat; let P ← many nP nat
      let nev ← nat
      let ev ← many nev (do let dn ← nat; let i ← nat; let j ← nat; pure (dn == 1, i, j))
      let r := Maxvol.maxvol rows cols P.toList ev.toList
      pure ("il " ++ toString r.length ++ " " ++ " ".intercalate (r.map toString))
  | _ => throw s!"op? {op}"

def processLine (line : String) : String :=
  let toks := (line.splitOn " ").filter (· ≠ "") |>.toArray
  if toks.size == 0 then "" else
  match (run.run toks).run 0 with
  | .ok (s, _) => s
  | .error e => s!"bad {e}"

partial def loop (h : IO.FS.Stream) (out : IO.FS.Stream) : IO Unit := do
  let line ← h.getLine
  if line.isEmpty then return ()
  let l := line.trimAscii.toString
  if l ≠ "" then out.putStrLn (processLine l)
  loop h out

end TT.Driver
