import TTModel.Reduce
/-!
# M-val: indexing, `cat`, `pad`, `diag`, `mprod`
Anchors: `_tt_base.py` (`__getitem__`, `mprod`), `_extras.py` (`cat`, `pad`, `diag`).
-/
namespace TT

variable {α : Type} [Zero α] [One α] [Add α] [Mul α] [Neg α]

/-- one entry of an index expression, already normalised against the mode size the way
    Python/torch do it (`slice.indices`, negative ints) -/
inductive Sel where
  | int (k : Nat)
  | slice (start step len : Nat)
  | none
  deriving Repr, DecidableEq

/-- `core[:, sel, :]` on the row mode -/
def selRow (c : Core α) : Sel → Core α
  | .int k => { c with m := 1, get := fun a _ j b => c.get a k j b }
  | .slice s st len => { c with m := len, get := fun a i j b => c.get a (s + st * i) j b }
  | .none => c

/-- `core[:, :, sel, :]` on the column mode (TT-matrices) -/
def selCol (c : Core α) : Sel → Core α
  | .int k => { c with n := 1, get := fun a i _ b => c.get a i k b }
  | .slice s st len => { c with n := len, get := fun a i j b => c.get a i (s + st * j) b }
  | .none => c

/-- `tn.eye(r)[:, None, :]` inserted for a `None` index -/
def eyeCore (r : Nat) : Core α :=
  { r0 := r, m := 1, n := 1, r1 := r, get := fun a _ _ b => if a = b then 1 else 0 }

/-- per-core slicing loop of `__getitem__` (TT-tensor branch): returns the new cores
    (reversed accumulator) and the `exclude` positions -/
def getitemGo : List Sel → List (Core α) → Nat → List (Core α) → List Nat →
    Option (List (Core α) × List Nat)
  | [], [], _, acc, ex => some (acc.reverse, ex.reverse)
  | [], _ :: _, _, _, _ => Option.none            -- 'Slice size is invalid.'
  | .none :: ss, cs, i, acc, ex =>
    let r := match acc with | last :: _ => last.r1 | [] => 1
    getitemGo ss cs (i+1) (eyeCore r :: acc) (i :: ex)
  | _ :: _, [], _, _, _ => Option.none            -- index past the last core (IndexError)
  | .int k :: ss, c :: cs, i, acc, ex => getitemGo ss cs (i+1) (selRow c (.int k) :: acc) ex
  | s :: ss, c :: cs, i, acc, ex => getitemGo ss cs (i+1) (selRow c s :: acc) (i :: ex)

/-- same for TT-matrices: pairs (row selector, column selector); `None` must come in pairs -/
def getitemGoM : List (Sel × Sel) → List (Core α) → Nat → List (Core α) → List Nat →
    Option (List (Core α) × List Nat)
  | [], [], _, acc, ex => some (acc.reverse, ex.reverse)
  | [], _ :: _, _, _, _ => Option.none
  | (.none, .none) :: ss, cs, i, acc, ex =>
    let r := match acc with | last :: _ => last.r1 | [] => 1
    getitemGoM ss cs (i+1) (eyeCore r :: acc) (i :: ex)
  | _ :: _, [], _, _, _ => Option.none
  | (.int k1, .int k2) :: ss, c :: cs, i, acc, ex =>
    getitemGoM ss cs (i+1) (selCol (selRow c (.int k1)) (.int k2) :: acc) ex
  | (.slice a1 b1 c1, .slice a2 b2 c2) :: ss, c :: cs, i, acc, ex =>
    getitemGoM ss cs (i+1) (selCol (selRow c (.slice a1 b1 c1)) (.slice a2 b2 c2) :: acc) (i :: ex)
  | _ :: _, _ :: _, _, _, _ => Option.none         -- mixed pair: InvalidArguments

/-- `x[index]` for a tuple index on a TT-tensor: slice, then `reduce_dims(exclude)` where sliced
    and `None` positions are excluded (only integer-indexed modes are removed).  The flag is the
    "all indices were integers → return a scalar" decision. -/
def getitem (sel : List Sel) (cs : List (Core α)) : Option (List (Core α) × Bool) :=
  match getitemGo sel cs 0 [] [] with
  | Option.none => Option.none
  | some (cs', ex) => some (reduceDims (fun i => ex.contains i) cs', ex.isEmpty)

def getitemM (sel : List (Sel × Sel)) (cs : List (Core α)) : Option (List (Core α) × Bool) :=
  match getitemGoM sel cs 0 [] [] with
  | Option.none => Option.none
  | some (cs', ex) => some (reduceDims (fun i => ex.contains i) cs', ex.isEmpty)

/-- expansion of a leading (`mode = 1`) or trailing (`mode = 2`) `Ellipsis` into full slices
    (`(slice(None),) * (len(N) - len(index) + 1 + num_none)`); `sel` is the index tuple without the
    Ellipsis entry -/
def expandEll (mode : Nat) (sel : List Sel) (cs : List (Core α)) : List Sel :=
  let numNone := (sel.filter (fun s => s == Sel.none)).length
  let cnt := cs.length + numNone - sel.length
  if mode = 1 then (cs.take cnt).map (fun c => Sel.slice 0 1 c.m) ++ sel
  else if mode = 2 then sel ++ (cs.drop (cs.length - cnt)).map (fun c => Sel.slice 0 1 c.m)
  else sel

/-! ### `cat` -/

/-- value of the zero-initialised block core after all operands were written at their running
    offsets (`offset1` frozen on the first core, `offset3` on the last, `offset2` moves only on
    the concatenated mode) -/
def catGet (first last isDim : Bool) : List (Core α) → Nat → Nat → Nat → Nat → Nat → Nat → Nat → α
  | [], _, _, _, _, _, _, _ => 0
  | t :: ts, o1, o2, o3, a, i, j, b =>
    (if o1 ≤ a ∧ a < o1 + t.r0 ∧ o2 ≤ i ∧ i < o2 + t.m ∧ o3 ≤ b ∧ b < o3 + t.r1
      then t.get (a - o1) (i - o2) j (b - o3) else 0)
    + catGet first last isDim ts (o1 + off first t.r0) (o2 + (if isDim then t.m else 0))
        (o3 + off last t.r1) a i j b

def sumNat (l : List Nat) : Nat := l.foldl (· + ·) 0

def catCore (first last isDim : Bool) (ts : List (Core α)) : Core α :=
  { r0 := if first then 1 else sumNat (ts.map (·.r0))
    m := if isDim then sumNat (ts.map (·.m)) else (match ts with | t :: _ => t.m | [] => 0)
    n := 1
    r1 := if last then 1 else sumNat (ts.map (·.r1))
    get := fun a i j b => catGet first last isDim ts 0 0 0 a i j b }

/-- heads / tails of a list of trains (`none` if some train is exhausted) -/
def heads : List (List (Core α)) → Option (List (Core α))
  | [] => some []
  | (c :: _) :: r => (heads r).map (c :: ·)
  | [] :: _ => Option.none

def catGo (dim : Nat) : Nat → Nat → List (List (Core α)) → List (Core α)
  | 0, _, _ => []
  | k+1, i, ts =>
    match heads ts with
    | Option.none => []
    | some hs => catCore (i == 0) (k == 0) (i == dim) hs :: catGo dim k (i+1) (ts.map List.tail)

/-- `cat(tensors, dim)` for TT-tensors of equal order -/
def cat (dim : Nat) (ts : List (List (Core α))) : List (Core α) :=
  match ts with
  | [] => []
  | t :: _ => catGo dim t.length 0 ts

/-! ### `pad` -/

/-- `tnf.pad(core, (0,0, p0,p1, 0,0), value=v)` (tensor branch) -/
def padCoreT (c : Core α) (p0 p1 : Nat) (v : α) : Core α :=
  { c with m := p0 + c.m + p1
           get := fun a i j b => if p0 ≤ i ∧ i < p0 + c.m then c.get a (i - p0) j b else v }

/-- tensor branch of `pad`, processing cores from the last one backwards; `pads` is reversed
    (`reversed(padding)`), `v` the current fill (`value/prod(R)` first, then `1`, or `0`) -/
def padRevT [DecidableEq α] : List (Core α) → List (Nat × Nat) → α → List (Core α)
  | [], _, _ => []
  | cs, [], _ => cs
  | c :: cs, p :: ps, v => padCoreT c p.1 p.2 v :: padRevT cs ps (if v = 0 then 0 else 1)

/-- `pad(tensor, padding, value)`; `vdiv` is `value / prod(R)` computed by the caller -/
def padT [DecidableEq α] (cs : List (Core α)) (padding : List (Nat × Nat)) (vdiv : α) : List (Core α) :=
  (padRevT cs.reverse padding.reverse vdiv).reverse

/-- operator branch: zero padding of modes and (where the core is not at the boundary) of the
    two ranks by one, then the two corner blocks `value * eye` -/
def padCoreM (c : Core α) (hasL hasR : Bool) (p0 p1 : Nat) (v : α) : Core α :=
  let l := if hasL then 1 else 0
  let r := if hasR then 1 else 0
  { r0 := l + c.r0 + l, m := p0 + c.m + p1, n := p0 + c.n + p1, r1 := r + c.r1 + r
    get := fun a i j b =>
      if a = l + c.r0 + l - 1 ∧ b = r + c.r1 + r - 1 ∧ p0 + c.m ≤ i ∧ p0 + c.n ≤ j then
        (if i - (p0 + c.m) = j - (p0 + c.n) then v else 0)
      else if a = 0 ∧ b = 0 ∧ i < p0 ∧ j < p0 then (if i = j then v else 0)
      else if l ≤ a ∧ a < l + c.r0 ∧ r ≤ b ∧ b < r + c.r1 ∧ p0 ≤ i ∧ i < p0 + c.m ∧ p0 ≤ j ∧ j < p0 + c.n
        then c.get (a - l) (i - p0) (j - p0) (b - r) else 0 }

/-- operator branch over reversed cores; `k` = position of the head core, `d` = order -/
def padRevM : List (Core α) → List (Nat × Nat) → Nat → Nat → α → List (Core α)
  | [], _, _, _, _ => []
  | cs, [], _, _, _ => cs
  | c :: cs, p :: ps, k, d, v =>
    padCoreM c (decide (k > 0)) (decide (k + 1 < d)) p.1 p.2 v :: padRevM cs ps (k - 1) d 1

def padM (cs : List (Core α)) (padding : List (Nat × Nat)) (v : α) : List (Core α) :=
  (padRevM cs.reverse padding.reverse (cs.length - 1) cs.length v).reverse

/-! ### `diag`, `mprod` -/

/-- TT-matrix → TT-tensor: `tn.diagonal(c, dim1=1, dim2=2).permute([0,2,1])` -/
def diagExtract (cs : List (Core α)) : List (Core α) :=
  cs.map (fun c => { r0 := c.r0, m := min c.m c.n, n := 1, r1 := c.r1, get := fun a i _ b => c.get a i i b })

/-- TT-tensor → diagonal TT-matrix: `einsum('ijk,jm->ijmk', c, eye(N))` -/
def diagEmbed (cs : List (Core α)) : List (Core α) :=
  cs.map (fun c => { r0 := c.r0, m := c.m, n := c.m, r1 := c.r1,
                     get := fun a i j b => c.get a i 0 b * (if i = j then 1 else 0) })

/-- `einsum('ijk,lj->ilk', core, F)` with `F` of shape `rows × c.m` -/
def mprodCore (c : Core α) (rows : Nat) (F : Nat → Nat → α) : Core α :=
  { r0 := c.r0, m := rows, n := 1, r1 := c.r1
    get := fun a l _ b => sumTo c.m (fun j => c.get a j 0 b * F l j) }

/-- replace the core at position `k` -/
def modifyAt (f : Core α → Core α) : Nat → List (Core α) → List (Core α)
  | _, [] => []
  | 0, c :: cs => f c :: cs
  | k+1, c :: cs => c :: modifyAt f k cs

/-- `x.mprod(F, mode)` (single mode; the list form is the fold of this) -/
def mprod (cs : List (Core α)) (mode rows : Nat) (F : Nat → Nat → α) : List (Core α) :=
  modifyAt (fun c => mprodCore c rows F) mode cs

end TT

namespace TT
variable {α : Type} [Zero α] [One α] [Add α] [Mul α] [Neg α]

/-- `pad(tensor, padding, value)` for TT-tensors after the repair: zero padding, and for a non-zero
    fill `padded + value * (ones(padded.N) - pad0(ones(N)))` -/
def padTensor [DecidableEq α] (cs : List (Core α)) (padding : List (Nat × Nat)) (value : α) : List (Core α) :=
  let padded := padT cs padding 0
  if value = 0 then padded
  else
    let inside := padT (cs.map (fun c => constCore 1 c.m 1)) padding 0
    let outside := sub (padded.map (fun c => constCore 1 c.m 1)) inside
    add padded (smul outside value)

end TT
