/-!
# M-sweep: index bookkeeping of the cross approximation (`torchtt/interpolate.py`, C14)

`Idx[k]` for the left part is a list of multi-indices of length `k` (rows of an `r × k` matrix),
for the right part a list of multi-indices of length `d-k` (columns of a `(d-k) × r` matrix).
The updates decode the pivot rows returned by `_maxvol` with `np.unravel_index`.
-/
namespace TT.Cross

/-- `np.hstack((Idx[k][tmp[0], :], tmp[1]))` with `tmp = unravel_index(piv, (rank[k], N[k]))`:
    pivot `p` selects left multi-index `p / n` and appends the mode index `p % n` -/
def leftUpdate (L : List (List Nat)) (n : Nat) (piv : List Nat) : List (List Nat) :=
  piv.map (fun p => L.getD (p / n) [] ++ [p % n])

/-- `np.vstack((tmp[0], Idx[k+2][:, tmp[1]]))` with `tmp = unravel_index(piv, (N[k+1], rank[k+2]))`:
    pivot `p` prepends the mode index `p / r` to the right multi-index number `p % r` -/
def rightUpdate (R : List (List Nat)) (r : Nat) (piv : List Nat) : List (List Nat) :=
  piv.map (fun p => (p / r) :: R.getD (p % r) [])

/-- initialisation loop (`for k in range(d-1,0,-1)`): `unravel_index(Jk[:rnew], (rank[k+1], N[k]))`,
    `vstack((tmp[1], Idx[k+1][:, tmp[0]]))`: mode index `p % n`, right multi-index number `p / n` -/
def rightInit (R : List (List Nat)) (n : Nat) (piv : List Nat) : List (List Nat) :=
  piv.map (fun p => (p % n) :: R.getD (p / n) [])

/-- the rows of `eval_index = concat(I3, I1, I2, I4)`: for `(a, i, j, b)` in row-major order
    `Idx[k][a] ++ [i, j] ++ Idx[k+2][b]` -/
def evalIndex (L : List (List Nat)) (n1 n2 : Nat) (R : List (List Nat)) : List (List Nat) :=
  L.flatMap (fun l => (List.range n1).flatMap (fun i => (List.range n2).flatMap (fun j =>
    R.map (fun r => l ++ [i, j] ++ r))))

/-- every multi-index of the set has the right length and lies inside the mode sizes `ns` -/
def InRange (S : List (List Nat)) (ns : List Nat) : Prop :=
  ∀ s ∈ S, s.length = ns.length ∧ ∀ k, (h : k < s.length) → s[k] < ns.getD k 0

def inRangeB (S : List (List Nat)) (ns : List Nat) : Bool :=
  S.all (fun s => s.length == ns.length && (List.range s.length).all (fun k => s.getD k 0 < ns.getD k 0))

end TT.Cross
