/-!
# M-shape: structural mirror of a TT object — core shapes and the metadata the implementation stores

`Obj` keeps the torch shapes of the cores *and*, separately, the fields `N, M, R, shape, is_ttm`
that `torchtt.TT` stores (they can go stale if an in-place operation forgets one: that is what
C05 is about).  `fromCores` is the validating constructor `TT.__init__(list_of_cores)` clause by
clause; `setCore`, `reduceMeta` mirror the two in-place operations.  Core-only, executable.
-/
namespace TT.Shape

inductive Err where
  | RankMismatch | InvalidArguments | ShapeMismatch | IncompatibleTypes | NotImplemented | Other
  deriving Repr, DecidableEq

structure Obj where
  cores : List (List Nat)          -- torch shape of every core
  N : List Nat
  M : List Nat
  R : List Nat
  shape : List (List Nat)          -- `[n]` per mode for tensors, `[m, n]` for operators
  isTTM : Bool
  deriving Repr, DecidableEq

/-- the loop of `TT.__init__` over the core list: accumulates `N, M, R` -/
def ctorLoop : List (List Nat) → List Nat → List Nat → List Nat → Except Err (List Nat × List Nat × List Nat)
  | [], N, M, R => .ok (N, M, R)
  | s :: rest, N, M, R =>
    match s with
    | [] => .error .Other                                   -- s[0] on a 0-d tensor: IndexError
    | s0 :: _ =>
      if s0 ≠ R.getLastD 0 then .error .RankMismatch
      else match s with
        | [_, n, r] => ctorLoop rest (N ++ [n]) M (R ++ [r])
        | [_, m, n, r] => ctorLoop rest (N ++ [n]) (M ++ [m]) (R ++ [r])
        | _ => .error .InvalidArguments

def shapeOf (isTTM : Bool) (M N : List Nat) : List (List Nat) :=
  if isTTM then (M.zip N).map (fun p => [p.1, p.2]) else N.map (fun n => [n])

/-- `TT(list_of_cores)` -/
def fromCores (cs : List (List Nat)) : Except Err Obj :=
  match cs with
  | [] => .error .Other                                     -- source[0] on an empty list: IndexError
  | c0 :: _ =>
    match c0 with
    | [] => .error .Other
    | r0 :: _ =>
      match ctorLoop cs [] [] [r0] with
      | .error e => .error e
      | .ok (N, M, R) =>
        let d := cs.length
        if N.length ≠ d ∨ R.length ≠ d + 1 ∨ R.headD 0 ≠ 1 ∨ R.getLastD 0 ≠ 1 ∨ (M.length ≠ 0 ∧ M.length ≠ N.length)
        then .error .InvalidArguments
        else
          let ttm := M.length == N.length
          .ok { cores := cs, N := N, M := if ttm then M else [], R := R, shape := shapeOf ttm M N, isTTM := ttm }

/-- what the cores say the metadata should be -/
def modesNOf (isTTM : Bool) (cs : List (List Nat)) : List Nat :=
  cs.map (fun s => if isTTM then s.getD 2 0 else s.getD 1 0)
def modesMOf (cs : List (List Nat)) : List Nat := cs.map (fun s => s.getD 1 0)
def ranksOf (cs : List (List Nat)) : List Nat :=
  match cs with
  | [] => [1, 1]
  | c :: _ => c.headD 0 :: cs.map (fun s => s.getLastD 0)

/-- neighbouring cores agree on the shared rank -/
def chainsB : List (List Nat) → Bool
  | [] => true
  | [_] => true
  | a :: b :: rest => (a.getLastD 0 == b.headD 0) && chainsB (b :: rest)

/-- **structural well-formedness of an object** (C05) -/
def wfB (o : Obj) : Bool :=
  o.cores ≠ [] &&
  (if o.isTTM then o.cores.all (fun s => s.length == 4) else o.cores.all (fun s => s.length == 3)) &&
  chainsB o.cores &&
  (ranksOf o.cores).headD 0 == 1 && (ranksOf o.cores).getLastD 0 == 1 &&
  o.R == ranksOf o.cores &&
  o.N == modesNOf o.isTTM o.cores &&
  (if o.isTTM then o.M == modesMOf o.cores else o.M == []) &&
  o.shape == shapeOf o.isTTM o.M o.N

/-- shape of `full()`: `M ++ N` -/
def fullShape (o : Obj) : List Nat := if o.isTTM then o.M ++ o.N else o.N

/-- replace the k-th element -/
def setAt {β : Type} : List β → Nat → β → List β
  | [], _, _ => []
  | _ :: xs, 0, v => v :: xs
  | x :: xs, k+1, v => x :: setAt xs k v

/-- `x.set_core(k, core)` (after the repair that also refreshes `shape`) -/
def setCore (o : Obj) (k : Nat) (sh : List Nat) : Except Err Obj :=
  if k ≥ o.N.length then .error .InvalidArguments
  else if o.isTTM then
    if sh.length ≠ 4 ∨ sh.getD 0 0 ≠ o.R.getD k 0 ∨ sh.getD 3 0 ≠ o.R.getD (k+1) 0 then .error .InvalidArguments
    else
      let M' := setAt o.M k (sh.getD 1 0)
      let N' := setAt o.N k (sh.getD 2 0)
      .ok { o with cores := setAt o.cores k sh, M := M', N := N', shape := shapeOf true M' N' }
  else
    if sh.length ≠ 3 ∨ sh.getD 0 0 ≠ o.R.getD k 0 ∨ sh.getD 2 0 ≠ o.R.getD (k+1) 0 then .error .InvalidArguments
    else
      let N' := setAt o.N k (sh.getD 1 0)
      .ok { o with cores := setAt o.cores k sh, N := N', shape := shapeOf false [] N' }

/-- metadata recomputation at the end of `reduce_dims` from the surviving core shapes
    (`R = [1] + last dims`, `N`, `M` from the cores) -/
def reduceMeta (o : Obj) (cores' : List (List Nat)) : Obj :=
  let N' := modesNOf o.isTTM cores'
  let M' := if o.isTTM then modesMOf cores' else o.M
  { o with cores := cores', N := N', M := M', R := 1 :: cores'.map (fun s => s.getLastD 0),
           shape := shapeOf o.isTTM M' N' }

/-- is this core shape a removable size-1 mode? (`shape[1] == 1` resp. `shape[1] == 1 and shape[2] == 1`) -/
def isUnit (isTTM : Bool) (s : List Nat) : Bool :=
  if isTTM then s.getD 1 0 == 1 && s.getD 2 0 == 1 else s.getD 1 0 == 1

/-- shape of `einsum('ijk,kl->ijl', last, c[:,0,:])`: `last` with its right rank replaced -/
def absorbRightS (last c : List Nat) : List Nat := last.dropLast ++ [c.getLastD 0]
/-- shape of `einsum('ij,jkl->ikl', c[:,0,:], nxt)`: `nxt` with its left rank replaced -/
def absorbLeftS (c nxt : List Nat) : List Nat := c.headD 0 :: nxt.tail

/-- shape-level mirror of the `reduce_dims` loop (`acc` = `cores_new` reversed) -/
def reduceShapesGo (isTTM : Bool) (excl : Nat → Bool) : Nat → List (List Nat) → List (List Nat) → List (List Nat)
  | _, acc, [] => acc.reverse
  | i, acc, [c] =>
    if isUnit isTTM c && !excl i then
      match acc with
      | last :: acc' => (absorbRightS last c :: acc').reverse
      | [] => [c]
    else (c :: acc).reverse
  | i, acc, c :: nxt :: rest =>
    if isUnit isTTM c && !excl i then
      if c.headD 0 > c.getLastD 0 then
        match acc with
        | last :: acc' => reduceShapesGo isTTM excl (i+1) (absorbRightS last c :: acc') (nxt :: rest)
        | [] => reduceShapesGo isTTM excl (i+1) [] (absorbLeftS c nxt :: rest)
      else reduceShapesGo isTTM excl (i+1) acc (absorbLeftS c nxt :: rest)
    else reduceShapesGo isTTM excl (i+1) (c :: acc) (nxt :: rest)
termination_by _ _ cs => cs.length

/-- `x.reduce_dims(exclude)` on the structural level -/
def reduceDimsObj (o : Obj) (excl : List Nat) : Obj :=
  reduceMeta o (reduceShapesGo o.isTTM (fun i => excl.contains i) 0 [] o.cores)

/-! ### histories of public calls -/

/-- the calls that create or modify objects.  Every public operation other than the two in-place
    ones builds its result through the validating constructor `TT(cores_new)` (recorded by the
    harness at run time), so on the structural level it is `construct` of whatever core shapes the
    operation produced. -/
inductive Call where
  | construct (cs : List (List Nat))
  | setCore (ref k : Nat) (sh : List Nat)
  | reduceDims (ref : Nat) (excl : List Nat)
  deriving Repr

/-- one call on a store of live objects; a failing call raises and leaves the store as it was -/
def step (st : List Obj) : Call → List Obj
  | .construct cs => match fromCores cs with
    | .ok o => st ++ [o]
    | .error _ => st
  | .setCore ref k sh => match st[ref]? with
    | some o => match setCore o k sh with
      | .ok o' => setAt st ref o'
      | .error _ => st
    | none => st
  | .reduceDims ref excl => match st[ref]? with
    | some o => setAt st ref (reduceDimsObj o excl)
    | none => st

def run (st : List Obj) (calls : List Call) : List Obj := calls.foldl step st

end TT.Shape
