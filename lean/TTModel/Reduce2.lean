import TTModel.Reduce
/-!
# M-val: partial inner product `dot(a, b, axis)` (`torchtt/_extras.py:531-555`)

`b` is embedded into the shape of `a`: at the contracted positions the conjugated cores of `b`,
elsewhere `conj(einsum('ik,j->ijk', eye(rank_left, rank_right), ones(N_i)))`; then
`(a * embedded).sum(axis)`.
-/
namespace TT

variable {α : Type} [Zero α] [One α] [Add α] [Mul α] [Neg α]

/-- `einsum('ik,j->ijk', eye(rl, rr), ones(m))` -/
def eyeRect (rl rr m : Nat) : Core α :=
  { r0 := rl, m := m, n := 1, r1 := rr, get := fun a _ _ b => if a = b then 1 else 0 }

/-- embedding loop; `mask` says which modes of `a` are contracted, `rl` is `rank_left` (only
    updated at contracted positions, exactly as in the source) -/
def embedGo (cj : α → α) : List Bool → List (Core α) → List (Core α) → Nat → List (Core α)
  | true :: ms, _ :: as, b :: bs, _ => b.mapVal cj :: embedGo cj ms as bs b.r1
  | true :: _, _ :: _, [], _ => []                       -- IndexError in the source
  | false :: ms, a :: as, bs, rl =>
    let rr := match ms, bs with
      | true :: _, b :: _ => b.r0
      | _, _ => rl
    (eyeRect rl rr a.m).mapVal cj :: embedGo cj ms as bs rl
  | _, _, _, _ => []

def maskOf (axis : List Nat) (d : Nat) : List Bool := (List.range d).map (fun i => axis.contains i)

/-- `dot(a, b, axis)` -/
def dotPartial (cj : α → α) (as bs : List (Core α)) (axis : List Nat) : List (Core α) :=
  sumSel (fun i => axis.contains i) (mul as (embedGo cj (maskOf axis as.length) as bs 1))

end TT
