import TTModel.DecompM
/-!
# M-val: `to_tt` / `mat_to_tt` with the per-bond rank cap `rmax` (C01)

`to_tt(A, N, eps, rmax)` clamps the rank chosen at bond `i+1` to `rmax[i+1]` (`r1 = min(r1, rmax[i+1])`) before the factors are cut.
The model takes the caps as a list aligned with the SVD calls (bond 1, 2, …) and cuts the oracle's factors to the capped rank.
-/
namespace TT.Decomp
open TT

variable {α : Type} [Zero α] [One α] [Add α] [Mul α]

/-- keep the first `cap` columns / rows of a factorisation -/
def capFact (cap : Nat) (f : Fact α) : Fact α := { r := min f.r cap, left := f.left, right := f.right }

def toTTGoR (svd : Oracle α) : List Nat → List Nat → Nat → Nat → Mat α → List (Core α)
  | [], _, _, _, _ => []
  | [n], _, rcur, _, C => [{ r0 := rcur, m := n, n := 1, r1 := 1, get := fun a i _ _ => C a i }]
  | n :: n' :: ns, caps, rcur, cols, C =>
    let cols' := cols / n
    let Cr : Mat α := fun p j => C (p / n) ((p % n) * cols' + j)
    let f := capFact (caps.headD 0) (svd (rcur * n) cols' Cr)
    { r0 := rcur, m := n, n := 1, r1 := f.r, get := fun a i _ k => f.left (a * n + i) k }
      :: toTTGoR svd (n' :: ns) caps.tail f.r cols' f.right

/-- `to_tt(A, N, eps, rmax)`; `caps = rmax[1:-1]` -/
def toTTR (svd : Oracle α) (caps : List Nat) (N : List Nat) (A : Nat → α) : List (Core α) :=
  toTTGoR svd N caps 1 (prodNat N) (fun _ j => A j)

/-- `mat_to_tt(A, M, N, eps, rmax)` -/
def toTTMR (svd : Oracle α) (caps : List Nat) (M N : List Nat) (A : Nat → α) : List (Core α) :=
  let MN := List.zipWith (· * ·) M N
  let A' : Nat → α := fun J =>
    let ps := unflatIdx MN J
    let is := List.zipWith (fun p n => p / n) ps N
    let js := List.zipWith (fun p n => p % n) ps N
    A (flatIdx (M ++ N) (is ++ js))
  splitAll (M.zip N) (toTTR svd caps MN A')

end TT.Decomp
