import TTModel.Permute
import TTModel.DecompM
/-!
# M-val: `torchtt.permute` for TT-matrices (C10)

The operator branch of `permute` treats a core `[r, m, n, r']` exactly like the tensor branch treats `[r, m·n, r']`: `rl_orthogonal(is_ttm=True)`
unfolds `[r, m·n·r']`, the swap merges two cores with `einsum('ijkl,lmno->ijkmno')`, permutes to `[r, m₂, n₂, m₁, n₁, r'']`, splits the
`(r·m₂·n₂) × (m₁·n₁·r'')` unfolding with the SVD and reshapes back.  With the row-major merge `I = i·n + j` of the two mode indices this is the tensor
model conjugated with `mergeModes` / `splitAll`; the mode pairs of the result are the permuted pairs.
-/
namespace TT.Permute
open TT TT.Decomp

variable {α : Type} [Zero α] [One α] [Add α] [Mul α]

/-- `permute(A, dims)` for a TT-matrix -/
def permuteTTMWith (fz : Core α → Core α) (qr svd : Oracle α) (dims : List Nat) (cs : List (Core α)) : List (Core α) :=
  splitAll (dims.map (fun k => (modesMN' cs).getD k (0, 0))) (permuteTTWith fz qr svd dims (cs.map mergeModes))

def permuteTTM (qr svd : Oracle α) (dims : List Nat) (cs : List (Core α)) : List (Core α) :=
  permuteTTMWith id qr svd dims cs

end TT.Permute
