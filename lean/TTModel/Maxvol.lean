/-!
# M-sweep: the row bookkeeping of `_maxvol` (`torchtt/interpolate.py`)

```
if M.shape[1] >= M.shape[0]:  return range(M.shape[0])
L, U, P = _LU(M);  idx = P[:M.shape[1]]
for i in range(100):
    val_max, idx_max = _max_matrix(abs(Mat));  idx_max = idx_max[0]
    if val_max <= 1+5e-2:  return sort(idx)
    Mat += …;  idx[idx_max[1]] = idx_max[0]
return idx
```
The floating-point decisions are event parameters: `P` is the pivot vector of the LU factorisation, every loop pass contributes
`(done, i, j)` — whether `val_max <= 1.05`, and the position `(i, j)` of the largest entry of the `rows × cols` matrix `Mat`.
-/
namespace TT.Maxvol

def setAt : List Nat → Nat → Nat → List Nat
  | [], _, _ => []
  | _ :: xs, 0, v => v :: xs
  | x :: xs, k+1, v => x :: setAt xs k v

/-- `tn.sort(idx)[0]` (insertion sort: structural, so that the driver and `decide` can run it) -/
def insertSorted (v : Nat) : List Nat → List Nat
  | [] => [v]
  | x :: xs => if v ≤ x then v :: x :: xs else x :: insertSorted v xs

def isort : List Nat → List Nat
  | [] => []
  | x :: xs => insertSorted x (isort xs)

/-- the `for i in range(fuel)` loop; the event list is consumed one pass at a time -/
def loop : Nat → List (Bool × Nat × Nat) → List Nat → List Nat
  | 0, _, idx => idx                                  -- loop exhausted: `return idx` (unsorted)
  | _ + 1, [], idx => idx
  | f + 1, (done, i, j) :: ev, idx =>
    if done then isort idx else loop f ev (setAt idx j i)

/-- `_maxvol(M)` for a `rows × cols` matrix -/
def maxvol (rows cols : Nat) (P : List Nat) (ev : List (Bool × Nat × Nat)) : List Nat :=
  if cols ≥ rows then List.range rows else loop 100 ev (P.take cols)

end TT.Maxvol
