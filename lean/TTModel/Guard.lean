import TTModel.Shape
/-!
# M-shape: guard clauses of the binary operators as decision logic (C18)

`Sh` is what the guards look at: kind and mode sizes.  Each `guard*` function mirrors the guard
clauses of the corresponding method in source order (after the repairs of the vacuous TT-matrix
guard) and returns the exception class or `ok`.  `Broadcastable` is the dense side: torch's
broadcasting rule on the shapes.
-/
namespace TT.Guard
open TT.Shape

structure Sh where
  isTTM : Bool
  N : List Nat
  M : List Nat
  deriving Repr, DecidableEq

inductive Outcome where
  | ok
  | err (e : Err)
  deriving Repr, DecidableEq

/-- right-aligned per-mode test of the broadcast branch of `__add__/__sub__/__mul__`:
    `other.N[k] == self.N[i]` or `other.N[k] == 1`, else `ShapeMismatch` -/
def alignedOk : List Nat → List Nat → Bool
  | [], [] => true
  | x :: xs, y :: ys => (y == x || y == 1) && alignedOk xs ys
  | _, _ => false

/-- `+`, `-` (identical guard structure), TT operands -/
def guardAddSub (x y : Sh) : Outcome :=
  if x.isTTM && y.isTTM then
    if x.M ≠ y.M ∨ x.N ≠ y.N then .err .ShapeMismatch else .ok
  else if !x.isTTM && !y.isTTM then
    if x.N = y.N then .ok
    else if x.N.length < y.N.length then .err .ShapeMismatch
    else if alignedOk (x.N.drop (x.N.length - y.N.length)) y.N then .ok else .err .ShapeMismatch
  else .err .IncompatibleTypes

/-- `*` (elementwise) -/
def guardMul (x y : Sh) : Outcome :=
  if x.isTTM && y.isTTM then
    if x.N = y.N ∧ x.M = y.M then .ok else .err .ShapeMismatch
  else if !x.isTTM && !y.isTTM then
    if x.N = y.N then .ok
    else if x.N.length < y.N.length then .err .ShapeMismatch
    else if alignedOk (x.N.drop (x.N.length - y.N.length)) y.N then .ok else .err .ShapeMismatch
  else .err .IncompatibleTypes

/-- `@` between TT objects -/
def guardMatmul (x y : Sh) : Outcome :=
  if x.isTTM && !y.isTTM then (if x.N ≠ y.N then .err .ShapeMismatch else .ok)
  else if x.isTTM && y.isTTM then (if x.N ≠ y.M then .err .ShapeMismatch else .ok)
  else if !x.isTTM && y.isTTM then (if x.N ≠ y.M then .err .ShapeMismatch else .ok)
  else .err .InvalidArguments

/-- torch's broadcasting rule on two shapes, right-aligned, symmetric -/
def bcastRev : List Nat → List Nat → Bool
  | [], _ => true
  | _, [] => true
  | a :: as, b :: bs => (a == b || a == 1 || b == 1) && bcastRev as bs

def Broadcastable (a b : List Nat) : Bool := bcastRev a.reverse b.reverse

/-- the dense counterpart of `x (+|-|*) y` exists: same kind, and shapes equal (operators) or
    broadcastable (tensors) -/
def DenseCompat (x y : Sh) : Bool :=
  if x.isTTM && y.isTTM then x.N == y.N && x.M == y.M
  else if !x.isTTM && !y.isTTM then Broadcastable x.N y.N
  else false

/-- the dense counterpart of `x @ y` exists -/
def DenseCompatMatmul (x y : Sh) : Bool :=
  if x.isTTM && !y.isTTM then x.N == y.N
  else if x.isTTM && y.isTTM then x.N == y.M
  else if !x.isTTM && y.isTTM then x.N == y.M
  else false

end TT.Guard
