import TTModel.Algebra
/-!
# M-val: reductions — sums, `reduce_dims`, inner products, norm, bilinear form, pointwise
evaluation, TT-matrix × dense array (also the TT layer's `forward`).
Anchors: `_tt_base.py` (`sum`, `reduce_dims`, `norm`, `apply_mask`), `_extras.py` (`dot`,
`bilinear_form`), `_aux_ops.py`, `nn.py`.
-/
namespace TT

variable {α : Type} [Zero α] [One α] [Add α] [Mul α] [Neg α]

/-- iterated bounded sum over a multi-index `ks` with `ks[p] < ns[p]` -/
def sumIdx : List Nat → (List Nat → α) → α
  | [], f => f []
  | n :: ns, f => sumTo n (fun k => sumIdx ns (fun ks => f (k :: ks)))

/-- left-to-right row-vector sweep `v · G_1(i_1) · G_2(i_2) ⋯` — the contraction order of
    `TT.full`, `TT.sum()` and `apply_mask` -/
def vecSweep : List (Core α) → List (Nat × Nat) → (Nat → α) → (Nat → α)
  | [], _, v => v
  | _ :: _, [], _ => fun _ => 0
  | c :: cs, ij :: ijs, v => vecSweep cs ijs (fun b => sumTo c.r0 (fun a => v a * c.get a ij.1 ij.2 b))

/-- `tn.sum(core, modes, keepdim=True)` -/
def sumModeCore (c : Core α) : Core α :=
  { r0 := c.r0, m := 1, n := 1, r1 := c.r1
    get := fun a _ _ b => sumTo c.m (fun i => sumTo c.n (fun j => c.get a i j b)) }

/-- `x.sum()`: sweep over the mode-summed cores -/
def sumAll (cs : List (Core α)) : α :=
  vecSweep (cs.map sumModeCore) (cs.map (fun _ => (0, 0))) (fun _ => 1) 0

/-- apply `f` to the cores whose position is selected -/
def mapSel (f : Core α → Core α) (sel : Nat → Bool) : Nat → List (Core α) → List (Core α)
  | _, [] => []
  | i, c :: cs => (if sel i then f c else c) :: mapSel f sel (i+1) cs

/-- `cores_new[-1] = einsum('ijk,kl->ijl', cores_new[-1], c[:,0,:])` -/
def absorbRight (acc c : Core α) : Core α :=
  { r0 := acc.r0, m := acc.m, n := acc.n, r1 := c.r1
    get := fun a i j b => sumTo acc.r1 (fun k => acc.get a i j k * c.get k 0 0 b) }

/-- `cores[i+1] = einsum('ij,jkl->ikl', c[:,0,:], cores[i+1])` -/
def absorbLeft (c nxt : Core α) : Core α :=
  { r0 := c.r0, m := nxt.m, n := nxt.n, r1 := nxt.r1
    get := fun a i j b => sumTo c.r1 (fun k => c.get a 0 0 k * nxt.get k i j b) }

/-- `TT.reduce_dims(exclude)`: remove size-1 modes by absorbing their transfer matrix into a
    neighbour, branch for branch as in the source (`acc` is `cores_new` reversed). -/
def reduceGo (excl : Nat → Bool) : Nat → List (Core α) → List (Core α) → List (Core α)
  | _, acc, [] => acc.reverse
  | i, acc, [c] =>
    if c.m = 1 ∧ c.n = 1 ∧ excl i = false then
      match acc with
      | last :: acc' => (absorbRight last c :: acc').reverse
      | [] => [c]
    else (c :: acc).reverse
  | i, acc, c :: nxt :: rest =>
    if c.m = 1 ∧ c.n = 1 ∧ excl i = false then
      if c.r0 > c.r1 then
        match acc with
        | last :: acc' => reduceGo excl (i+1) (absorbRight last c :: acc') (nxt :: rest)
        | [] => reduceGo excl (i+1) [] (absorbLeft c nxt :: rest)
      else reduceGo excl (i+1) acc (absorbLeft c nxt :: rest)
    else reduceGo excl (i+1) (c :: acc) (nxt :: rest)
termination_by _ _ cs => cs.length

def reduceDims (excl : Nat → Bool) (cs : List (Core α)) : List (Core α) := reduceGo excl 0 [] cs

/-- `x.sum(index)`: selected modes summed with `keepdim`, then `reduce_dims(exclude)` where the
    modes that were not summed are excluded from the removal -/
def sumSel (sel : Nat → Bool) (cs : List (Core α)) : List (Core α) :=
  reduceDims (fun i => !sel i) (mapSel sumModeCore sel 0 cs)

/-- Gram sweep `einsum('ab,aijm,bijn->mn', G, x_k, conj(y_k))` of `dot` / autograd `norm` -/
def gramSweep (cj : α → α) : List (Core α) → List (Core α) → (Nat → Nat → α) → (Nat → Nat → α)
  | x :: xs, y :: ys, G =>
    gramSweep cj xs ys (fun m n =>
      sumTo x.r0 (fun a => sumTo y.r0 (fun b => sumTo x.m (fun i => sumTo x.n (fun j =>
        G a b * x.get a i j m * cj (y.get b i j n))))))
  | _, _, G => G

/-- `dot(a, b)` (full): `Σ a_i · conj(b_i)` -/
def dotFull (cj : α → α) (xs ys : List (Core α)) : α := gramSweep cj xs ys (fun _ _ => 1) 0 0

/-- `x.norm(squared=True)` on the autograd branch -/
def normSq (cj : α → α) (xs : List (Core α)) : α := dotFull cj xs xs

/-- `bilinear_form_aux`: three einsums per core, state `result[l,s,r]` -/
def bilSweep (cj : α → α) : List (Core α) → List (Core α) → List (Core α) →
    (Nat → Nat → Nat → α) → (Nat → Nat → Nat → α)
  | x :: xs, A :: As, y :: ys, T =>
    bilSweep cj xs As ys (fun L S R =>
      sumTo x.r0 (fun l => sumTo A.r0 (fun s => sumTo y.r0 (fun r =>
        sumTo A.m (fun m => sumTo A.n (fun n =>
          T l s r * cj (x.get l m 0 L) * A.get s m n S * y.get r n 0 R))))))
  | _, _, _, T => T

/-- the three einsums of one core step of `bilinear_form_aux`, one definition per call (regenerated from the source by
    `harness/einsum2lean.py`; `TT.C07.bilC_eq_step` proves the chain is the one-shot step of `bilSweep`) -/
def bilA (cj : α → α) (T : Nat → Nat → Nat → α) (x : Core α) : Nat → Nat → Nat → Nat → α :=
  fun s r m L => sumTo x.r0 (fun l => T l s r * cj (x.get l m 0 L))
def bilB (cj : α → α) (T : Nat → Nat → Nat → α) (x A : Core α) : Nat → Nat → Nat → Nat → α :=
  fun L S r n => sumTo A.r0 (fun s => sumTo A.m (fun m => bilA cj T x s r m L * A.get s m n S))
def bilC (cj : α → α) (T : Nat → Nat → Nat → α) (x A y : Core α) : Nat → Nat → Nat → α :=
  fun L S R => sumTo y.r0 (fun r => sumTo A.n (fun n => bilB cj T x A L S r n * y.get r n 0 R))

def bilinear (cj : α → α) (xs As ys : List (Core α)) : α :=
  bilSweep cj xs As ys (fun _ _ _ => 1) 0 0 0

/-- `apply_mask`: one row of the batched chained einsum -/
def applyMask (cs : List (Core α)) (idx : List Nat) : α := vecSweep cs (tIdx idx) (fun _ => 1) 0

/-- `TT.full()` as implemented (left-to-right contraction) -/
def fullImpl (cs : List (Core α)) (ij : List (Nat × Nat)) : α := vecSweep cs ij (fun a => if a = 0 then 1 else 0) 0

/-- `dense_matvec` / `LinearLayerTT.forward`: successive
    `tensordot(result, core, ([D-d, -1], [2, 0]))`.  State = the partially contracted array
    indexed by (remaining column indices `ns`, produced row indices *reversed* `msRev`, rank). -/
def dmvSweep : List (Core α) → (List Nat → List Nat → Nat → α) → (List Nat → List Nat → Nat → α)
  | [], st => st
  | c :: cs, st =>
    dmvSweep cs (fun ns msRev b =>
      match msRev with
      | i :: ms0 => sumTo c.n (fun k => sumTo c.r0 (fun a => st (k :: ns) ms0 a * c.get a i k b))
      | [] => 0)

/-- `(A @ x)[ms]` for one batch index (the batch prefix is carried unchanged) -/
def denseMatvec (cs : List (Core α)) (x : List Nat → α) (ms : List Nat) : α :=
  dmvSweep cs (fun ns msRev a => match msRev with | [] => (if a = 0 then x ns else 0) | _ => 0) [] ms.reverse 0

/-- `LinearLayerTT.forward` -/
def forward (cs : List (Core α)) (bias : List Nat → α) (x : List Nat → α) (ms : List Nat) : α :=
  denseMatvec cs x ms + bias ms

end TT
