/-!
# M-trunc: truncation logic (rank selection) — core-only, executable

`rankChop` mirrors `torchtt/_decomposition.py::rank_chop` branch for branch,
`rankChopCpp` mirrors `cpp/ortho.h::rank_chop` (a counting-down loop).
Everything is stated with squared quantities (`eps*eps`, tail energies) so no square root is needed.
-/
namespace TT.Trunc

variable {α : Type} [Zero α] [Add α] [Mul α] [LT α] [LE α] [DecidableEq α]
  [DecidableRel (fun (a b : α) => a < b)] [DecidableRel (fun (a b : α) => a ≤ b)]

/-- `Σ x²` -/
def sqSum : List α → α
  | [] => 0
  | x :: xs => x * x + sqSum xs

/-- energy of the tail `s[k:]`  (`sc[k]` of `np.cumsum(np.abs(s[::-1])**2)[::-1]`) -/
def tailE (s : List α) (k : Nat) : α := sqSum (s.drop k)

/-- `np.argmax(boolean array)`: index of the first `True`, `0` if there is none -/
def firstTrue (p : Nat → Bool) : Nat → Nat → Nat
  | 0, _ => 0
  | fuel+1, k => if p k then k else firstTrue p fuel (k+1)

def argmaxBool (p : Nat → Bool) (n : Nat) : Nat :=
  let k := firstTrue p n 0
  if k < n then k else 0

def clamp1 (R : Nat) : Nat := if R > 0 then R else 1

/-- `rank_chop(s, eps)` of `_decomposition.py` (after the `<=` fix) -/
def rankChop (s : List α) (eps : α) : Nat :=
  if tailE s 0 = 0 then 1
  else if eps ≤ 0 then s.length
  else if eps * eps < tailE s (s.length - 1) then s.length
  else clamp1 (argmaxBool (fun k => decide (tailE s k ≤ eps * eps)) s.length)

/-- the pre-fix variant (`sc < eps**2`), kept to state the counterexample -/
def rankChopStrict (s : List α) (eps : α) : Nat :=
  if tailE s 0 = 0 then 1
  else if eps ≤ 0 then s.length
  else if eps * eps < tailE s (s.length - 1) then s.length
  else clamp1 (argmaxBool (fun k => decide (tailE s k < eps * eps)) s.length)

/-- the `while (r > 0)` loop of `ortho.h::rank_chop`: largest `r ≤ start` with
    `tail(r) >= eps²`, or `0` -/
def cppLoop (s : List α) (e2 : α) : Nat → Nat
  | 0 => 0
  | r+1 => if e2 ≤ tailE s (r+1) then r+1 else cppLoop s e2 r

/-- `rank_chop` of `cpp/ortho.h` -/
def rankChopCpp (s : List α) (eps : α) : Nat :=
  if tailE s 0 = 0 then 1
  else if eps ≤ 0 then s.length - 1
  else clamp1 (cppLoop s (eps * eps) (s.length - 1) + 1)

/-- `min([Rmax[i], rank_chop(...)])` -/
def capped (rmax r : Nat) : Nat := min rmax r

end TT.Trunc
