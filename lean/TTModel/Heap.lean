/-!
# M-heap: effect / aliasing model of the public operations (C06)

A TT object owns a Python list (`listId`) whose entries point to tensor storages (`elems`); every
storage has a version counter that torch bumps on each in-place write.  The observables of an
object are exactly what the harness records from outside: list identity, element identities and
version counters.  Public operations fall in three effect classes:

* `alloc`  – build a result object with a *fresh list*; its entries are fresh storages or views of
             existing ones (slicing, `t`, `conj`, `to_ttm`, `detach`, the untouched cores of `sum`);
             nothing that existed before is written.  Every operator, function, solver, DMRG/AMEn/cross
             routine (also for the optional initial guess) is in this class.
* `setCore ref k` – rebinding entry `k` of `ref`'s own list to a fresh storage (documented in-place).
* `reduceDims ref` – `ref` gets a fresh list of fresh-or-old storages (documented in-place).
-/
namespace TT.Heap

structure HObj where
  listId : Nat
  elems : List Nat
  deriving Repr, DecidableEq

structure Heap where
  objs : List HObj
  ver : Nat → Nat          -- version counter of every storage
  next : Nat               -- next fresh identifier

inductive Call where
  | alloc (aliases : List (Option Nat))       -- result entries: `none` = fresh storage, `some s` = view of storage `s`
  | value                                     -- operations returning numbers / dense arrays
  | setCore (ref k : Nat)
  | reduceDims (ref : Nat) (keep : List (Option Nat))

def setAt {β : Type} : List β → Nat → β → List β
  | [], _, _ => []
  | _ :: xs, 0, v => v :: xs
  | x :: xs, k+1, v => x :: setAt xs k v

/-- fresh identifiers for the `none` entries -/
def realise : List (Option Nat) → Nat → List Nat × Nat
  | [], n => ([], n)
  | none :: r, n => let (l, n') := realise r (n+1); (n :: l, n')
  | some s :: r, n => let (l, n') := realise r n; (s :: l, n')

def step (h : Heap) : Call → Heap
  | .alloc aliases =>
    let (el, n') := realise aliases (h.next + 1)
    { h with objs := h.objs ++ [{ listId := h.next, elems := el }], next := n' }
  | .value => h
  | .setCore ref k =>
    match h.objs[ref]? with
    | some o => { h with objs := setAt h.objs ref { o with elems := setAt o.elems k h.next }, next := h.next + 1 }
    | none => h
  | .reduceDims ref keep =>
    match h.objs[ref]? with
    | some _ =>
      let (el, n') := realise keep (h.next + 1)
      { h with objs := setAt h.objs ref { listId := h.next, elems := el }, next := n' }
    | none => h

def run (h : Heap) (cs : List Call) : Heap := cs.foldl step h

/-- what the harness observes of object `ref` -/
def obs (h : Heap) (ref : Nat) : Option (Nat × List Nat × List Nat) :=
  (h.objs[ref]?).map (fun o => (o.listId, o.elems, o.elems.map h.ver))

/-- does the call target object `ref` in place? -/
def targets : Call → Nat → Bool
  | .setCore r _, ref => r == ref
  | .reduceDims r _, ref => r == ref
  | _, _ => false

/-- effect class of the public operations by name (the names used by the harness's walker) -/
def inPlaceOp (name : String) : Bool := name == "set_core" || name == "reduce_dims"

/-- may the operation `name` change the observables of an object? only if the object is the
    target of a documented in-place operation -/
def writeAllowed (name : String) (isTarget : Bool) : Bool := inPlaceOp name && isTarget

end TT.Heap
