/-!
# Exact scalars for the driver: Gaussian rationals `re + im·i` over core `Rat`

The correspondence harness feeds the real torchTT integer / dyadic (and Gaussian-integer) data on
which IEEE arithmetic is exact, so the model can be evaluated in exact arithmetic and compared for
equality.  Core-only (no Mathlib).
-/
namespace TT

structure GRat where
  re : Rat
  im : Rat
  deriving DecidableEq, Inhabited

namespace GRat

instance : Zero GRat := ⟨⟨0, 0⟩⟩
instance : One GRat := ⟨⟨1, 0⟩⟩
instance : Add GRat := ⟨fun a b => ⟨a.re + b.re, a.im + b.im⟩⟩
instance : Sub GRat := ⟨fun a b => ⟨a.re - b.re, a.im - b.im⟩⟩
instance : Neg GRat := ⟨fun a => ⟨-a.re, -a.im⟩⟩
instance : Mul GRat := ⟨fun a b => ⟨a.re * b.re - a.im * b.im, a.re * b.im + a.im * b.re⟩⟩

def conj (a : GRat) : GRat := ⟨a.re, -a.im⟩
def normSq (a : GRat) : Rat := a.re * a.re + a.im * a.im

instance : Div GRat := ⟨fun a b =>
  let d := b.normSq
  let n := a * b.conj
  ⟨n.re / d, n.im / d⟩⟩

def ofInt (k : Int) : GRat := ⟨(k : Rat), 0⟩
def ofNat (k : Nat) : GRat := ⟨(k : Rat), 0⟩

def ratToString (q : Rat) : String :=
  if q.den = 1 then toString q.num else s!"{q.num}/{q.den}"

protected def toString (a : GRat) : String :=
  if a.im = 0 then ratToString a.re else s!"{ratToString a.re},{ratToString a.im}"

instance : ToString GRat := ⟨GRat.toString⟩

def parseRat (s : String) : Option Rat :=
  match s.splitOn "/" with
  | [p] => p.toInt?.map (fun k => (k : Rat))
  | [p, q] => do
    let a ← p.toInt?
    let b ← q.toNat?
    if b = 0 then none else some ((a : Rat) / (b : Rat))
  | _ => none

def parse (s : String) : Option GRat :=
  match s.splitOn "," with
  | [r] => (parseRat r).map (fun x => ⟨x, 0⟩)
  | [r, i] => do
    let a ← parseRat r
    let b ← parseRat i
    some ⟨a, b⟩
  | _ => none

end GRat

/-- forward-mode dual numbers `a + b·ε` over `β` (for C15: every model operation, being generic in
    the scalar type, becomes exact differentiation when run on duals) -/
structure Dual (β : Type) where
  v : β
  d : β
  deriving DecidableEq, Inhabited

namespace Dual
variable {β : Type}
instance [Zero β] : Zero (Dual β) := ⟨⟨0, 0⟩⟩
instance [Zero β] [One β] : One (Dual β) := ⟨⟨1, 0⟩⟩
instance [Add β] : Add (Dual β) := ⟨fun a b => ⟨a.v + b.v, a.d + b.d⟩⟩
instance [Sub β] : Sub (Dual β) := ⟨fun a b => ⟨a.v - b.v, a.d - b.d⟩⟩
instance [Neg β] : Neg (Dual β) := ⟨fun a => ⟨-a.v, -a.d⟩⟩
instance [Add β] [Mul β] : Mul (Dual β) := ⟨fun a b => ⟨a.v * b.v, a.v * b.d + a.d * b.v⟩⟩
instance [Add β] [Sub β] [Mul β] [Div β] : Div (Dual β) :=
  ⟨fun a b => ⟨a.v / b.v, (a.d * b.v - a.v * b.d) / (b.v * b.v)⟩⟩
end Dual

end TT
