import TTModel.Decomp
import TTModel.Sweep
/-!
# M-val: `torchtt.permute` (tensor branch) at the level of values, numerical primitives as ORACLE parameters (C10)

`permute(x, dims, eps)` first brings the train into right-orthogonal gauge (`rl_orthogonal`, a right-to-left QR sweep), then
bubble-sorts the modes: every inversion of neighbouring positions merges the two cores, transposes the two mode indices,
and splits the `(r·n₂) × (n₁·r')` unfolding again by a truncated SVD (`U·diag(S)` stays left, `V` goes right).
The order of the swaps is the control flow already modelled (and tied) in `TTModel/Sweep.lean` (`permuteOrder`);
here the cores are carried along.  `fz` is a representation-normalising map applied after every step (the driver passes its
array-backed `freeze`, the theorems hold for every `fz` that keeps shapes and in-range entries; `id` is the reference).
-/
namespace TT.Permute
open TT TT.Decomp

variable {α : Type} [Zero α] [One α] [Add α] [Mul α]

/-- right-to-left QR sweep of `rl_orthogonal` on the reversed list: `cur` is the core whose transposed unfolding
    `(n·r') × r` is factorised as `Q·R`; `Qᵀ` stays, `Rᵀ` is absorbed into the core to the left -/
def rlOrthGo (qr : Oracle α) : Core α → List (Core α) → List (Core α) → List (Core α)
  | cur, [], acc => cur :: acc
  | cur, p :: prev, acc =>
    let M : Mat α := fun q a => cur.get a (q / cur.r1) 0 (q % cur.r1)
    let f := qr (cur.m * cur.r1) cur.r0 M
    let cnow : Core α := { r0 := f.r, m := cur.m, n := 1, r1 := cur.r1, get := fun k i _ b => f.left (i * cur.r1 + b) k }
    let pnew : Core α := { r0 := p.r0, m := p.m, n := 1, r1 := f.r
                           get := fun a i _ k => sumTo p.r1 (fun t => p.get a i 0 t * f.right k t) }
    rlOrthGo qr pnew prev (cnow :: acc)

/-- `rl_orthogonal(cores, R, False)` -/
def rlOrth (qr : Oracle α) (cs : List (Core α)) : List (Core α) :=
  match cs.reverse with
  | [] => []
  | last :: prev => rlOrthGo qr last prev []

/-- swap of two neighbouring modes: `einsum('ijk,klm->ijlm')`, `permute [0,2,1,3]`, SVD of the `(r·n₂) × (n₁·r')` unfolding -/
def swapStep (svd : Oracle α) (c1 c2 : Core α) : Core α × Core α :=
  let M : Mat α := fun p q => sumTo c1.r1 (fun k => c1.get (p / c2.m) (q / c2.r1) 0 k * c2.get k (p % c2.m) 0 (q % c2.r1))
  let f := svd (c1.r0 * c2.m) (c1.m * c2.r1) M
  ({ r0 := c1.r0, m := c2.m, n := 1, r1 := f.r, get := fun a j _ k => f.left (a * c2.m + j) k },
   { r0 := f.r, m := c1.m, n := 1, r1 := c2.r1, get := fun k i _ b => f.right k (i * c2.r1 + b) })

/-- swap at position `i` of the train -/
def swapAt (svd : Oracle α) (fz : Core α → Core α) : Nat → List (Core α) → List (Core α)
  | 0, c1 :: c2 :: rest => let s := swapStep svd c1 c2; fz s.1 :: fz s.2 :: rest
  | i+1, c :: rest => c :: swapAt svd fz i rest
  | _, cs => cs

/-- `permute(x, dims)` for a TT tensor: gauge sweep, then the swaps of the bubble sort in the order `Sweep.permuteOrder` lists them -/
def permuteTTWith (fz : Core α → Core α) (qr svd : Oracle α) (dims : List Nat) (cs : List (Core α)) : List (Core α) :=
  (Sweep.permuteOrder dims).2.foldl (fun acc i => swapAt svd fz i acc) ((rlOrth qr cs).map fz)

def permuteTT (qr svd : Oracle α) (dims : List Nat) (cs : List (Core α)) : List (Core α) :=
  permuteTTWith id qr svd dims cs

/-- index list of the permuted tensor: position `p` of the result carries input mode `dims[p]` -/
def permIdx (dims : List Nat) (is : List Nat) : List Nat := dims.map (fun k => is.getD k 0)

end TT.Permute
