import TTModel.DriverAD
/-! entry point of the dual-number driver (C15): `lake env lean --run MainAD.lean` -/
def main : IO Unit := do
  TT.DriverAD.loop (← IO.getStdin) (← IO.getStdout)
