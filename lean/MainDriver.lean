import TTModel.Driver
/-! entry point of the value/shape/heap/guard driver: `lake env lean --run MainDriver.lean` -/
def main : IO Unit := do
  TT.Driver.loop (← IO.getStdin) (← IO.getStdout)
