import TTProps.C03
