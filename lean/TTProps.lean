import TTProps.C01
import TTProps.C03
import TTProps.C04
import TTProps.C07
import TTProps.C17
import TTProps.C20
