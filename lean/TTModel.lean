import TTModel.Basic
import TTModel.Algebra
import TTModel.Reduce
import TTModel.Reduce2
import TTModel.Extras
import TTModel.Scalar
import TTModel.Trunc
