import TTModel.Basic
import TTModel.Algebra
import TTModel.Reduce
import TTModel.Extras
import TTModel.Scalar
import TTModel.Trunc
