import TTProps.C20
import TTProps.C15

/-!
# C20b — `LinearLayerTT.forward`: affinity in the input, batch independence, gradients

Complements `TTProps/C20.lean` (`forward_eq`: `forward(x)[m] = Σ_n W[m,n]·x[n] + bias[m]`).

1. `forward_linear_x` — the layer is affine in its input (no hypothesis at all: it is proved on the
   `tensordot` sweep itself, for ill-formed trains as well).
2. `forward_batch_congr`, `forward_congr_inrange`, `forward_batch` — every batch index is treated
   independently, and the batched layer is the dense affine map applied to every batch element.  The
   batch index type `ι` is arbitrary (e.g. `List Nat` for any number of leading batch dimensions).
3. `forward_grad_eq_dense`, `forward_grad_eq_dense'`, `forward_grad_components` — over dual numbers
   `Dual β` (`TTModel/Scalar.lean`) the value and the ε-part of the sweep equal those of the dense
   expression, for arbitrary ε-parts on every core entry, every bias entry and every input entry
   simultaneously: forward-mode derivatives of the layer w.r.t. its registered parameters (cores,
   bias) and w.r.t. its input are those of the dense map.
4. `forward_grad_bias`, `forward_grad_input` (+ the versions for lifted constants
   `forward_grad_bias_lift`, `forward_grad_input_lift`): `∂ forward[ms] / ∂ bias[m0] = δ(ms, m0)`
   and `∂ forward[ms] / ∂ x[n0] = W[ms, n0]`.
5. Non-vacuity on the concrete `exW` of `C20.lean` lifted to `Dual Int`, with numeric checks.

All helper names carry the `nn_` prefix.
-/
namespace TT.C20
open TT

/-! ### (1) affinity in the input -/
section Lin
variable {α : Type} [CommRing α]

/-- the `tensordot` sweep is linear in its state -/
theorem nn_dmvSweep_lin (cs : List (Core α)) (s1 s2 : List Nat → List Nat → Nat → α) (a c : α) :
    dmvSweep cs (fun ns mr b => a * s1 ns mr b + c * s2 ns mr b) =
      fun ns mr b => a * dmvSweep cs s1 ns mr b + c * dmvSweep cs s2 ns mr b := by
  induction cs generalizing s1 s2 with
  | nil => rfl
  | cons k cs ih =>
    simp only [dmvSweep]
    rw [← ih]
    congr 1
    funext ns mr b
    cases mr with
    | nil => simp
    | cons i ms0 =>
      simp only
      rw [← sumTo_mul_left, ← sumTo_mul_left, ← sumTo_add_fn]
      apply sumTo_congr; intro q _
      rw [← sumTo_mul_left, ← sumTo_mul_left, ← sumTo_add_fn]
      apply sumTo_congr; intro p _
      ring

/-- `A @ (a·x + c·y) = a·(A @ x) + c·(A @ y)` for the sweep `denseMatvec` -/
theorem nn_denseMatvec_lin (cs : List (Core α)) (x y : List Nat → α) (a c : α) (ms : List Nat) :
    denseMatvec cs (fun ns => a * x ns + c * y ns) ms =
      a * denseMatvec cs x ms + c * denseMatvec cs y ms := by
  unfold denseMatvec
  have h := nn_dmvSweep_lin cs
    (fun ns msRev a' => match msRev with | [] => (if a' = 0 then x ns else 0) | _ => 0)
    (fun ns msRev a' => match msRev with | [] => (if a' = 0 then y ns else 0) | _ => 0) a c
  have h0 : (fun ns msRev a' => match msRev with
        | [] => (if a' = 0 then a * x ns + c * y ns else 0) | _ => (0 : α)) =
      (fun ns (msRev : List Nat) (a' : Nat) =>
        a * (match msRev with | [] => (if a' = 0 then x ns else 0) | _ => (0 : α)) +
        c * (match msRev with | [] => (if a' = 0 then y ns else 0) | _ => (0 : α))) := by
    funext ns mr a'
    cases mr with
    | nil => by_cases ha : a' = 0 <;> simp [ha]
    | cons _ _ => simp
  exact (congrArg (fun s => dmvSweep cs s [] ms.reverse 0) h0).trans
    (congrFun (congrFun (congrFun h []) ms.reverse) 0)

/-- the layer with zero bias is the linear part -/
theorem forward_zero_bias (cs : List (Core α)) (x : List Nat → α) (ms : List Nat) :
    forward cs (fun _ => 0) x ms = denseMatvec cs x ms := by
  unfold forward; rw [add_zero]

/-- **the layer is affine in its input**: `forward(a·x + c·y) = a·L(x) + c·L(y) + bias`, `L` the
    layer with zero bias.  No well-formedness hypothesis is needed. -/
theorem forward_linear_x (cs : List (Core α)) (bias x y : List Nat → α) (a c : α) (ms : List Nat) :
    forward cs bias (fun ns => a * x ns + c * y ns) ms =
      a * forward cs (fun _ => 0) x ms + c * forward cs (fun _ => 0) y ms + bias ms := by
  rw [forward_zero_bias, forward_zero_bias]
  unfold forward
  rw [nn_denseMatvec_lin]

/-- the bias enters additively: `forward = L + bias` -/
theorem forward_eq_linear_add_bias (cs : List (Core α)) (bias x : List Nat → α) (ms : List Nat) :
    forward cs bias x ms = forward cs (fun _ => 0) x ms + bias ms := by
  rw [forward_zero_bias]; rfl

/-- the linear part as the dense matrix-vector product -/
theorem forward_zero_bias_eq (cs : List (Core α)) (x : List Nat → α) (ms : List Nat)
    (hw : WF cs 1) (hml : ms.length = cs.length) :
    forward cs (fun _ => 0) x ms = sumIdx (modesN cs) (fun ns => full cs (ms.zip ns) * x ns) := by
  rw [forward_eq cs _ x ms hw hml, add_zero]

/-! ### (2) batch dimensions -/

/-- one batch element's output depends only on that batch element's input (by definition: the
    batch prefix is carried unchanged through every `tensordot`) -/
theorem forward_batch_congr {ι ι' : Type} (cs : List (Core α)) (bias : List Nat → α)
    (xb : ι → List Nat → α) (xb' : ι' → List Nat → α) (i : ι) (i' : ι') (ms : List Nat)
    (h : ∀ ns, xb i ns = xb' i' ns) :
    forward cs bias (xb i) ms = forward cs bias (xb' i') ms := by
  have : xb i = xb' i' := funext h
  rw [this]

/-- sharper: only the in-range entries of that batch element matter -/
theorem forward_congr_inrange (cs : List (Core α)) (bias x x' : List Nat → α) (ms : List Nat)
    (hw : WF cs 1) (hml : ms.length = cs.length)
    (h : ∀ ns, List.Forall₂ (· < ·) ns (modesN cs) → x ns = x' ns) :
    forward cs bias x ms = forward cs bias x' ms := by
  rw [forward_eq cs bias x ms hw hml, forward_eq cs bias x' ms hw hml]
  congr 1
  apply sumIdx_congr; intro ns hns
  rw [h ns hns]

/-- **the batched layer** `fun i ms => forward cs bias (xb i) ms` is the dense affine map
    `W · xb i + bias` applied to every batch element `i` (any index type `ι`, e.g. `List Nat` for
    several leading batch dimensions) -/
theorem forward_batch {ι : Type} (cs : List (Core α)) (bias : List Nat → α)
    (xb : ι → List Nat → α) (hw : WF cs 1) (i : ι) (ms : List Nat) (hml : ms.length = cs.length) :
    (fun (i : ι) (ms : List Nat) => forward cs bias (xb i) ms) i ms =
      sumIdx (modesN cs) (fun ns => full cs (ms.zip ns) * xb i ns) + bias ms :=
  forward_eq cs bias (xb i) ms hw hml

/-! ### a single-term lemma for `sumIdx` -/

/-- a sum over the index box with only one (in-range) non-zero term -/
theorem nn_sumIdx_single {ns : List Nat} (n0 : List Nat) (h0 : List.Forall₂ (· < ·) n0 ns)
    (f : List Nat → α) (h : ∀ ks, List.Forall₂ (· < ·) ks ns → ks ≠ n0 → f ks = 0) :
    sumIdx ns f = f n0 := by
  induction h0 generalizing f with
  | nil => rfl
  | @cons k n ks0 ns hk _ ih =>
    rw [sumIdx_cons, sumTo_single k hk]
    · apply ih
      intro ks hks hne
      exact h (k :: ks) (List.Forall₂.cons hk hks) (by simpa using hne)
    · intro q hq hqk
      rw [← sumIdx_zero (α := α) ns]
      apply sumIdx_congr; intro ks hks
      exact h (q :: ks) (List.Forall₂.cons hq hks) (by simp [hqk])

/-- `Σ_ks f ks · δ(ks, n0) = f n0` -/
theorem nn_sumIdx_ite {ns : List Nat} (n0 : List Nat) (h0 : List.Forall₂ (· < ·) n0 ns)
    (f : List Nat → α) :
    sumIdx ns (fun ks => f ks * (if ks = n0 then 1 else 0)) = f n0 := by
  rw [nn_sumIdx_single n0 h0]
  · simp
  · intro ks _ hne; simp [hne]

end Lin

/-! ### (3) dual numbers: value and derivative agree with the dense map -/
section Grad
variable {β : Type} [CommRing β]

/-- `forward` over dual numbers **with the Scalar.lean instances spelled out** — the function an
    executable forward-mode run evaluates -/
abbrev forwardDual (cs : List (Core (Dual β))) (bias x : List Nat → Dual β) (ms : List Nat) :
    Dual β :=
  @forward (Dual β) Dual.instZero Dual.instAdd Dual.instMulOfAdd cs bias x ms

/-- the dense affine expression `Σ_ns W[ms,ns]·x[ns] + bias[ms]` over dual numbers with the
    Scalar.lean instances spelled out; `W = full cs` is itself evaluated over `Dual β` -/
abbrev denseAffineDual (cs : List (Core (Dual β))) (bias x : List Nat → Dual β) (ms : List Nat) :
    Dual β :=
  @HAdd.hAdd _ _ _ (@instHAdd _ Dual.instAdd)
    (@sumIdx (Dual β) Dual.instZero Dual.instAdd (modesN cs)
      (fun ns => @HMul.hMul _ _ _ (@instHMul _ Dual.instMulOfAdd)
        (@full (Dual β) Dual.instZero Dual.instOneOfZero Dual.instAdd Dual.instMulOfAdd cs
          (ms.zip ns)) (x ns)))
    (bias ms)

/-- `forwardDual` / `denseAffineDual` are what the generic expressions elaborate to at `Dual β` -/
example (cs : List (Core (Dual β))) (bias x : List Nat → Dual β) (ms : List Nat) :
    forwardDual cs bias x ms = forward cs bias x ms ∧
    denseAffineDual cs bias x ms =
      sumIdx (modesN cs) (fun ns => full cs (ms.zip ns) * x ns) + bias ms := ⟨rfl, rfl⟩

/-- **Gradients of the layer equal those of the dense map.**  Cores, bias and input carry arbitrary
    ε-parts (in particular: a unit perturbation of one core entry, of one bias entry or of one input
    entry, everything else a lifted constant).  The `tensordot` sweep run on dual numbers has the
    same value **and the same ε-part** as the dense affine expression `W x + b` evaluated on dual
    numbers, `W = full cs`.  Instance `α := Dual β` of `forward_eq`. -/
theorem forward_grad_eq_dense (cs : List (Core (Dual β))) (bias x : List Nat → Dual β)
    (ms : List Nat) (hw : WF cs 1) (hml : ms.length = cs.length) :
    (forwardDual cs bias x ms).v = (denseAffineDual cs bias x ms).v ∧
    (forwardDual cs bias x ms).d = (denseAffineDual cs bias x ms).d := by
  have h : forwardDual cs bias x ms = denseAffineDual cs bias x ms :=
    forward_eq (α := Dual β) cs bias x ms hw hml
  exact ⟨congrArg Dual.v h, congrArg Dual.d h⟩

/-- the form of `C15.grad_eq_dense'`: if the sweep over dual numbers returns `v`, then `v.v` / `v.d`
    are the value / ε-part of the dense expression -/
theorem forward_grad_eq_dense' (cs : List (Core (Dual β))) (bias x : List Nat → Dual β)
    (ms : List Nat) (hw : WF cs 1) (hml : ms.length = cs.length)
    (v : Dual β) (hv : forwardDual cs bias x ms = v) :
    v.v = (denseAffineDual cs bias x ms).v ∧ v.d = (denseAffineDual cs bias x ms).d := by
  subst hv; exact forward_grad_eq_dense cs bias x ms hw hml

/-! #### projections of sums to the components -/

theorem nn_sumTo_v (n : Nat) (f : Nat → Dual β) : (sumTo n f).v = sumTo n (fun k => (f k).v) := by
  induction n with
  | zero => rfl
  | succ n ih => simp only [sumTo, Dual.add_v, ih]

theorem nn_sumTo_d (n : Nat) (f : Nat → Dual β) : (sumTo n f).d = sumTo n (fun k => (f k).d) := by
  induction n with
  | zero => rfl
  | succ n ih => simp only [sumTo, Dual.add_d, ih]

theorem nn_sumIdx_v (ns : List Nat) (f : List Nat → Dual β) :
    (sumIdx ns f).v = sumIdx ns (fun ks => (f ks).v) := by
  induction ns generalizing f with
  | nil => rfl
  | cons n ns ih =>
    simp only [sumIdx_cons, nn_sumTo_v]
    apply sumTo_congr; intro k _; rw [ih]

theorem nn_sumIdx_d (ns : List Nat) (f : List Nat → Dual β) :
    (sumIdx ns f).d = sumIdx ns (fun ks => (f ks).d) := by
  induction ns generalizing f with
  | nil => rfl
  | cons n ns ih =>
    simp only [sumIdx_cons, nn_sumTo_d]
    apply sumTo_congr; intro k _; rw [ih]

/-- **product rule, explicitly**: value `Σ W.v·x.v + b.v`, derivative
    `Σ (W.v·x.d + W.d·x.v) + b.d` — the three summands are the contributions of a perturbation of
    the input, of the cores (through `W = full cs`) and of the bias -/
theorem forward_grad_components (cs : List (Core (Dual β))) (bias x : List Nat → Dual β)
    (ms : List Nat) (hw : WF cs 1) (hml : ms.length = cs.length) :
    (forwardDual cs bias x ms).v =
      sumIdx (modesN cs) (fun ns => (full cs (ms.zip ns)).v * (x ns).v) + (bias ms).v ∧
    (forwardDual cs bias x ms).d =
      sumIdx (modesN cs) (fun ns => (full cs (ms.zip ns)).v * (x ns).d +
        (full cs (ms.zip ns)).d * (x ns).v) + (bias ms).d := by
  obtain ⟨h1, h2⟩ := forward_grad_eq_dense cs bias x ms hw hml
  refine ⟨h1.trans ?_, h2.trans ?_⟩
  · show (sumIdx (modesN cs) (fun ns => full cs (ms.zip ns) * x ns) + bias ms).v = _
    rw [Dual.add_v, nn_sumIdx_v]; rfl
  · show (sumIdx (modesN cs) (fun ns => full cs (ms.zip ns) * x ns) + bias ms).d = _
    rw [Dual.add_d, nn_sumIdx_d]; rfl

/-! ### (4) concrete partial derivatives -/

/-- all entries of all cores are constants (zero ε-part) -/
def nn_ConstCores (cs : List (Core (Dual β))) : Prop :=
  ∀ c ∈ cs, ∀ a i j b, (c.get a i j b).d = 0

/-- constants stay constants through the chain of transfer matrices -/
theorem nn_chain_d (cs : List (Core (Dual β))) (hc : nn_ConstCores cs) (ij : List (Nat × Nat))
    (a b : Nat) : (chain cs ij a b).d = 0 := by
  induction cs generalizing ij a with
  | nil => simp only [chain]; split <;> rfl
  | cons c cs ih =>
    cases ij with
    | nil => rfl
    | cons p ijs =>
      simp only [chain]
      rw [nn_sumTo_d]
      apply sumTo_eq_zero; intro k _
      rw [Dual.mul_d, ih (fun c' hc' => hc c' (List.mem_cons_of_mem _ hc')),
        hc c (List.mem_cons_self ..)]
      simp

theorem nn_full_d (cs : List (Core (Dual β))) (hc : nn_ConstCores cs) (ij : List (Nat × Nat)) :
    (full cs ij).d = 0 := nn_chain_d cs hc ij 0 0

/-- **derivative w.r.t. the bias entry `m0`**: cores and input constant, `bias[m'] = b[m'] + δ(m',m0)·ε`;
    then `∂ forward[ms] / ∂ bias[m0] = δ(ms, m0)` -/
theorem forward_grad_bias (cs : List (Core (Dual β))) (b : List Nat → β) (x : List Nat → Dual β)
    (m0 ms : List Nat) (hw : WF cs 1) (hml : ms.length = cs.length)
    (hc : nn_ConstCores cs) (hx : ∀ ns, (x ns).d = 0) :
    (forwardDual cs (fun ms' => ⟨b ms', if ms' = m0 then 1 else 0⟩) x ms).d =
      if ms = m0 then 1 else 0 := by
  rw [(forward_grad_components cs _ x ms hw hml).2]
  have : sumIdx (modesN cs) (fun ns => (full cs (ms.zip ns)).v * (x ns).d +
      (full cs (ms.zip ns)).d * (x ns).v) = 0 := by
    rw [← sumIdx_zero (α := β) (modesN cs)]
    apply sumIdx_congr; intro ns _
    rw [hx ns, nn_full_d cs hc]; simp
  rw [this, zero_add]

/-- **derivative w.r.t. the input entry `n0`** (in range): cores and bias constant,
    `x[ns] = x0[ns] + δ(ns,n0)·ε`; then `∂ forward[ms] / ∂ x[n0] = W[ms, n0]` -/
theorem forward_grad_input (cs : List (Core (Dual β))) (bias : List Nat → Dual β)
    (x0 : List Nat → β) (n0 ms : List Nat) (hw : WF cs 1) (hml : ms.length = cs.length)
    (hc : nn_ConstCores cs) (hb : ∀ ms', (bias ms').d = 0)
    (hn0 : List.Forall₂ (· < ·) n0 (modesN cs)) :
    (forwardDual cs bias (fun ns => ⟨x0 ns, if ns = n0 then 1 else 0⟩) ms).d =
      (full cs (ms.zip n0)).v := by
  rw [(forward_grad_components cs bias _ ms hw hml).2, hb ms, add_zero]
  rw [← nn_sumIdx_ite n0 hn0 (fun ns => (full cs (ms.zip ns)).v)]
  apply sumIdx_congr; intro ns _
  rw [nn_full_d cs hc]; simp

/-- outside the index box the input entry is never read: the derivative vanishes -/
theorem forward_grad_input_outside (cs : List (Core (Dual β))) (bias : List Nat → Dual β)
    (x0 : List Nat → β) (n0 ms : List Nat) (hw : WF cs 1) (hml : ms.length = cs.length)
    (hc : nn_ConstCores cs) (hb : ∀ ms', (bias ms').d = 0)
    (hn0 : ¬ List.Forall₂ (· < ·) n0 (modesN cs)) :
    (forwardDual cs bias (fun ns => ⟨x0 ns, if ns = n0 then 1 else 0⟩) ms).d = 0 := by
  rw [(forward_grad_components cs bias _ ms hw hml).2, hb ms, add_zero]
  refine (sumIdx_congr ?_).trans (sumIdx_zero (modesN cs))
  intro ns hns
  have hne : ns ≠ n0 := fun h => hn0 (h ▸ hns)
  rw [nn_full_d cs hc]; simp [hne]

/-! #### lifted constants -/

/-- a constant as a dual number -/
def nn_lift (b : β) : Dual β := ⟨b, 0⟩

/-- a core of constants -/
def nn_liftCore (c : Core β) : Core (Dual β) :=
  { r0 := c.r0, m := c.m, n := c.n, r1 := c.r1, get := fun a i j b => nn_lift (c.get a i j b) }

theorem nn_constCores_lift (cs : List (Core β)) : nn_ConstCores (cs.map nn_liftCore) := by
  intro c hc a i j b
  obtain ⟨c0, _, rfl⟩ := List.mem_map.mp hc
  rfl

theorem nn_WF_lift (cs : List (Core β)) (r : Nat) : WF (cs.map nn_liftCore) r ↔ WF cs r := by
  induction cs generalizing r with
  | nil => rfl
  | cons c cs ih => simp only [List.map_cons, WF, ih]; rfl

theorem nn_modesN_lift (cs : List (Core β)) : modesN (cs.map nn_liftCore) = modesN cs := by
  simp [modesN, nn_liftCore]

theorem nn_chain_lift_v (cs : List (Core β)) (ij : List (Nat × Nat)) (a b : Nat) :
    (chain (cs.map nn_liftCore) ij a b).v = chain cs ij a b := by
  induction cs generalizing ij a with
  | nil => simp only [List.map_nil, chain]; split <;> rfl
  | cons c cs ih =>
    cases ij with
    | nil => rfl
    | cons p ijs =>
      simp only [List.map_cons, chain]
      rw [nn_sumTo_v]
      apply sumTo_congr; intro k _
      rw [Dual.mul_v, ih]; rfl

/-- the weight operator of the lifted train is the lifted weight operator -/
theorem nn_full_lift (cs : List (Core β)) (ij : List (Nat × Nat)) :
    full (cs.map nn_liftCore) ij = nn_lift (full cs ij) :=
  Dual.ext' (nn_chain_lift_v cs ij 0 0) (nn_full_d _ (nn_constCores_lift cs) ij)

/-- `∂ forward[ms] / ∂ bias[m0] = δ(ms, m0)` at real cores `cs`, input `x0`, bias `b` -/
theorem forward_grad_bias_lift (cs : List (Core β)) (b x0 : List Nat → β) (m0 ms : List Nat)
    (hw : WF cs 1) (hml : ms.length = cs.length) :
    forwardDual (cs.map nn_liftCore) (fun ms' => ⟨b ms', if ms' = m0 then 1 else 0⟩)
        (fun ns => nn_lift (x0 ns)) ms =
      ⟨forward cs b x0 ms, if ms = m0 then 1 else 0⟩ := by
  have hw' : WF (cs.map nn_liftCore) 1 := (nn_WF_lift cs 1).mpr hw
  have hml' : ms.length = (cs.map nn_liftCore).length := by rw [List.length_map]; exact hml
  apply Dual.ext'
  · rw [(forward_grad_components _ _ _ ms hw' hml').1, forward_eq cs b x0 ms hw hml, nn_modesN_lift]
    congr 1
    apply sumIdx_congr; intro ns _
    rw [nn_full_lift]; rfl
  · exact forward_grad_bias _ b _ m0 ms hw' hml' (nn_constCores_lift cs) (fun _ => rfl)

/-- `∂ forward[ms] / ∂ x[n0] = W[ms, n0]` at real cores `cs`, input `x0`, bias `b`, for an in-range
    column multi-index `n0` -/
theorem forward_grad_input_lift (cs : List (Core β)) (b x0 : List Nat → β) (n0 ms : List Nat)
    (hw : WF cs 1) (hml : ms.length = cs.length) (hn0 : List.Forall₂ (· < ·) n0 (modesN cs)) :
    forwardDual (cs.map nn_liftCore) (fun ms' => nn_lift (b ms'))
        (fun ns => ⟨x0 ns, if ns = n0 then 1 else 0⟩) ms =
      ⟨forward cs b x0 ms, full cs (ms.zip n0)⟩ := by
  have hw' : WF (cs.map nn_liftCore) 1 := (nn_WF_lift cs 1).mpr hw
  have hml' : ms.length = (cs.map nn_liftCore).length := by rw [List.length_map]; exact hml
  apply Dual.ext'
  · rw [(forward_grad_components _ _ _ ms hw' hml').1, forward_eq cs b x0 ms hw hml, nn_modesN_lift]
    congr 1
    apply sumIdx_congr; intro ns _
    rw [nn_full_lift]; rfl
  · rw [forward_grad_input _ _ x0 n0 ms hw' hml' (nn_constCores_lift cs) (fun _ => rfl)
      (by rw [nn_modesN_lift]; exact hn0), nn_full_lift]
    rfl

end Grad

/-! ### (5) non-vacuity on `exW` (`C20.lean`), lifted to `Dual Int` -/

/-- `exW` as a train of constants over `Dual Int` -/
def nn_exWd : List (Core (Dual Int)) := exW.map nn_liftCore

/-- `exW` with the entry `(a, i, j, b) = (1, 2, 0, 1)` of its middle core perturbed by `ε` -/
def nn_exWp : List (Core (Dual Int)) :=
  [⟨1, 2, 3, 2, fun _ i j b => ⟨(i + j + b : Int), 0⟩⟩,
   ⟨2, 3, 2, 3, fun a i j b => ⟨(a * i + j - b : Int), if a = 1 ∧ i = 2 ∧ j = 0 ∧ b = 1 then 1 else 0⟩⟩,
   ⟨3, 2, 4, 1, fun a i j _ => ⟨(a - i * j : Int), 0⟩⟩]

/-- input `x[n1,n2,n3] = 4·n1 + 2·n2 + n3 + 8` (as in `C20.lean`) and bias `b[m] = Σ m` -/
def nn_exX (ns : List Nat) : Int := (ns.foldl (fun s n => 2 * s + n) 1 : Nat)
def nn_exB (ms : List Nat) : Int := (ms.sum : Int)

theorem nn_exWd_wf : WF nn_exWd 1 ∧ ([1, 2, 0] : List Nat).length = nn_exWd.length := by
  simp [nn_exWd, exW, WF, nn_liftCore]

theorem nn_exWp_wf : WF nn_exWp 1 ∧ ([1, 2, 0] : List Nat).length = nn_exWp.length := by
  simp [nn_exWp, WF]

/-- (1) on the example -/
example (bias x y : List Nat → Int) : forward exW bias (fun ns => 2 * x ns + (-3) * y ns) [1, 2, 0] =
    2 * forward exW (fun _ => 0) x [1, 2, 0] + (-3) * forward exW (fun _ => 0) y [1, 2, 0] +
      bias [1, 2, 0] := forward_linear_x exW bias x y 2 (-3) [1, 2, 0]

/-- (2) on the example, batch index `i : List Nat` (any number of leading batch dimensions) -/
example (bias : List Nat → Int) (xb : List Nat → List Nat → Int) (i : List Nat) :
    (fun (i : List Nat) ms => forward exW bias (xb i) ms) i [1, 2, 0] =
      sumIdx (modesN exW) (fun ns => full exW ([1, 2, 0].zip ns) * xb i ns) + bias [1, 2, 0] :=
  forward_batch exW bias xb (by simp [exW, WF]) i [1, 2, 0] rfl

/-- (3) on the example: perturbed core entry, arbitrary dual bias and input -/
example (bias x : List Nat → Dual Int) :
    (forwardDual nn_exWp bias x [1, 2, 0]).v = (denseAffineDual nn_exWp bias x [1, 2, 0]).v ∧
    (forwardDual nn_exWp bias x [1, 2, 0]).d = (denseAffineDual nn_exWp bias x [1, 2, 0]).d :=
  forward_grad_eq_dense nn_exWp bias x [1, 2, 0] nn_exWp_wf.1 nn_exWp_wf.2

/-- numeric check, derivative w.r.t. the core entry: sweep and dense expression give the same dual
    number -/
example : forwardDual nn_exWp (fun ms => nn_lift (nn_exB ms)) (fun ns => nn_lift (nn_exX ns)) [1, 2, 0] =
      denseAffineDual nn_exWp (fun ms => nn_lift (nn_exB ms)) (fun ns => nn_lift (nn_exX ns)) [1, 2, 0] ∧
    (forwardDual nn_exWp (fun ms => nn_lift (nn_exB ms)) (fun ns => nn_lift (nn_exX ns)) [1, 2, 0]).v =
      forward exW nn_exB nn_exX [1, 2, 0] := by decide

/-- with the numbers: value `293`, partial derivative w.r.t. that core entry `518`, on both sides -/
example : forwardDual nn_exWp (fun ms => nn_lift (nn_exB ms)) (fun ns => nn_lift (nn_exX ns)) [1, 2, 0] =
      ⟨293, 518⟩ ∧
    denseAffineDual nn_exWp (fun ms => nn_lift (nn_exB ms)) (fun ns => nn_lift (nn_exX ns)) [1, 2, 0] =
      ⟨293, 518⟩ := by decide

/-- `exW` over `Int` with the same core entry increased by `1` -/
def nn_exWq : List (Core Int) :=
  [⟨1, 2, 3, 2, fun _ i j b => (i + j + b : Int)⟩,
   ⟨2, 3, 2, 3, fun a i j b => (a * i + j - b : Int) + (if a = 1 ∧ i = 2 ∧ j = 0 ∧ b = 1 then 1 else 0)⟩,
   ⟨3, 2, 4, 1, fun a i j _ => (a - i * j : Int)⟩]

/-- independent check of the core-entry derivative: `forward` is affine in each single core entry,
    so the forward difference with step 1 is exactly the partial derivative -/
example : forward nn_exWq nn_exB nn_exX [1, 2, 0] = 293 + 518 := by decide

/-- (4a) on the example: `∂ forward[1,2,0] / ∂ bias[1,2,0] = 1`, `∂ forward[1,2,0] / ∂ bias[0,2,0] = 0` -/
example : (forwardDual nn_exWd (fun ms' => ⟨nn_exB ms', if ms' = [1, 2, 0] then 1 else 0⟩)
      (fun ns => nn_lift (nn_exX ns)) [1, 2, 0]).d = 1 ∧
    (forwardDual nn_exWd (fun ms' => ⟨nn_exB ms', if ms' = [0, 2, 0] then 1 else 0⟩)
      (fun ns => nn_lift (nn_exX ns)) [1, 2, 0]).d = 0 :=
  ⟨forward_grad_bias nn_exWd nn_exB _ [1, 2, 0] [1, 2, 0] nn_exWd_wf.1 nn_exWd_wf.2
      (nn_constCores_lift exW) (fun _ => rfl),
   forward_grad_bias nn_exWd nn_exB _ [0, 2, 0] [1, 2, 0] nn_exWd_wf.1 nn_exWd_wf.2
      (nn_constCores_lift exW) (fun _ => rfl)⟩

/-- the same by evaluation -/
example : (forwardDual nn_exWd (fun ms' => ⟨nn_exB ms', if ms' = [1, 2, 0] then 1 else 0⟩)
      (fun ns => nn_lift (nn_exX ns)) [1, 2, 0]).d = 1 := by decide

/-- (4b) on the example: `∂ forward[1,2,0] / ∂ x[2,1,3] = W[(1,2,0),(2,1,3)]` -/
example : forwardDual nn_exWd (fun ms' => nn_lift (nn_exB ms'))
      (fun ns => ⟨nn_exX ns, if ns = [2, 1, 3] then 1 else 0⟩) [1, 2, 0] =
    ⟨forward exW nn_exB nn_exX [1, 2, 0], full exW ([1, 2, 0].zip [2, 1, 3])⟩ :=
  forward_grad_input_lift exW nn_exB nn_exX [2, 1, 3] [1, 2, 0] (by simp [exW, WF]) rfl
    (by simp [exW, modesN])

/-- the same by evaluation, with the numbers -/
example : full exW ([1, 2, 0].zip [2, 1, 3]) = 10 ∧
    (forwardDual nn_exWd (fun ms' => nn_lift (nn_exB ms'))
      (fun ns => ⟨nn_exX ns, if ns = [2, 1, 3] then 1 else 0⟩) [1, 2, 0]).d = 10 := by decide

/-- independent check of (4b): `forward` is affine in `x[2,1,3]`, so the forward difference with
    step 1 is the partial derivative -/
example : forward exW nn_exB (fun ns => nn_exX ns + if ns = [2, 1, 3] then 1 else 0) [1, 2, 0] =
    forward exW nn_exB nn_exX [1, 2, 0] + full exW ([1, 2, 0].zip [2, 1, 3]) := by decide

end TT.C20

#print axioms TT.C20.forward_linear_x
#print axioms TT.C20.forward_batch_congr
#print axioms TT.C20.forward_congr_inrange
#print axioms TT.C20.forward_batch
#print axioms TT.C20.forward_grad_eq_dense
#print axioms TT.C20.forward_grad_eq_dense'
#print axioms TT.C20.forward_grad_components
#print axioms TT.C20.forward_grad_bias
#print axioms TT.C20.forward_grad_input
#print axioms TT.C20.forward_grad_input_outside
#print axioms TT.C20.forward_grad_bias_lift
#print axioms TT.C20.forward_grad_input_lift
