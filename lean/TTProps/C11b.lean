import TTProps.C11
import TTProps.C12
import TTProps.C09
import TTModel.KernelsDmrg

/-!
# C11b — the two-site supercore of the DMRG matrix-vector product is the exact local projection

Model: `TTModel/KernelsDmrg.lean` (`torchtt/_dmrg.py`, `dmrg_matvec_python` / `dmrg_hadamard_python`):
`dmrgPhiFwd`, `dmrgPhiBck` (the environment updates, i.e. the solver kernels `phiFwdA` / `phiBckA` on the
result core, the conjugated operator core and the conjugated operand core) and `dmrgSuper` (the
supercore `W`).  The first index of every `Phi` belongs to the result train `y`, the second to `A`,
the third to the operand `x`.  `cj` is an arbitrary function (the conjugation) unless stated.

1. `dmrgSuper_factor` (+ `dmrgW1_steps`, `dmrgW2_steps`): the einsum chain `W1`, `W2`, `W` of the
   source computes `dmrgSuper`.
2. `dmrgSuper_test` (abstract environments), `dmrgSuper_galerkin_gen`, `dmrgSuper_galerkin`,
   `dmrgSuper_galerkin_dense(_cj)`: for trains split as `left ++ [c_k, c_{k+1}] ++ right`, the
   supercore built from `Phis[k]` / `Phis[k+2]` (folds `dmrgFoldFwd` / `dmrgFoldBck` of the
   environment updates) and tested against a pair-core `v₁ ⋈ v₂` is the trilinear form
   `⟨TT(yl, v₁, v₂, yr), conj(A) conj(x)⟩`.  `dmrgPair_repr`: every pair-core `V[y,m₁,m₂,Y]` is such a
   `v₁ ⋈ v₂`; `dmrgSuper_galerkin_pair` / `full_dmrgTestTT`: the statement for arbitrary `V`.
3. `dmrgSuper_exact_rank_one_env(_cj)`: order 2 — the supercore is (`cj` of) the product `A x`.
4. `dmrgSuper_hadamard`: with `diagCore z_k` as operator cores it is the elementwise product.
5. `decide`-checked instances.

Everything holds for every order, mode-size pattern, rank profile and all core values over an
arbitrary commutative ring; the mode-compatibility facts are not needed for the identities (index
boxes are read off the operator train, as the einsums do).  Helper names are prefixed `dg_`.
-/
namespace TT.C11
open TT TT.Kern
variable {α : Type} [CommRing α]

/-! ### (1) the three einsum steps of the source compute `dmrgSuper` -/

/-- `W1` of the source (`'ijk,klm->ijlm'` then `'ijkl,mikn->mjln'`): `W1[y, m₁, a', x']` -/
def dmrgW1 (cj : α → α) (PL : Phi3 α) (A1 x1 : Core α) : Nat → Nat → Nat → Nat → α :=
  fun y m1 a' x' => sumTo A1.r0 (fun a => sumTo x1.r0 (fun x => sumTo A1.n (fun n1 =>
    PL y a x * cj (x1.get x n1 0 x') * cj (A1.get a m1 n1 a'))))

/-- `W2` of the source (`'ijk,mnk->njmi'` then `'ijkl,klmn->ijmn'`): `W2[a', m₂, x', Y]` -/
def dmrgW2 (cj : α → α) (PR : Phi3 α) (A2 x2 : Core α) : Nat → Nat → Nat → Nat → α :=
  fun a' m2 x' Y => sumTo A2.n (fun n2 => sumTo A2.r1 (fun A' => sumTo x2.r1 (fun X =>
    cj (A2.get a' m2 n2 A') * cj (x2.get x' n2 0 X) * PR Y A' X)))

theorem dg_mul33 (a b c d e g : Nat) (f h : Nat → Nat → Nat → α) :
    sumTo a (fun i => sumTo b (fun j => sumTo c (fun k => f i j k))) *
      sumTo d (fun p => sumTo e (fun q => sumTo g (fun t => h p q t))) =
    sumTo a (fun i => sumTo b (fun j => sumTo c (fun k =>
      sumTo d (fun p => sumTo e (fun q => sumTo g (fun t => f i j k * h p q t)))))) := by
  rw [← sumTo_mul_right]
  refine sumTo_congr fun i _ => ?_
  rw [← sumTo_mul_right]
  refine sumTo_congr fun j _ => ?_
  rw [← sumTo_mul_right]
  refine sumTo_congr fun k _ => ?_
  rw [← sumTo_mul_left]
  refine sumTo_congr fun p _ => ?_
  rw [← sumTo_mul_left]
  refine sumTo_congr fun q _ => ?_
  rw [← sumTo_mul_left]

/-- `W = einsum('ijkl,kmln->ijmn', W1, W2)` is the one-shot eight-fold contraction `dmrgSuper` -/
theorem dmrgSuper_factor (cj : α → α) (PL PR : Phi3 α) (A1 x1 A2 x2 : Core α) (y m1 m2 Y : Nat) :
    dmrgSuper cj PL PR A1 x1 A2 x2 y m1 m2 Y =
    sumTo A1.r1 (fun a' => sumTo x1.r1 (fun x' =>
      dmrgW1 cj PL A1 x1 y m1 a' x' * dmrgW2 cj PR A2 x2 a' m2 x' Y)) := by
  simp only [dmrgSuper, dmrgW1, dmrgW2, dg_mul33]
  rw [kl_comm_3_2]
  refine sumTo_congr fun a' _ => sumTo_congr fun x' _ => sumTo_congr fun a _ =>
    sumTo_congr fun x _ => sumTo_congr fun n1 _ => sumTo_congr fun n2 _ =>
    sumTo_congr fun A' _ => sumTo_congr fun X _ => ?_
  ring

/-- the two einsums that build `W1` in the source: first `Phis[k]` with `conj(x_k)` over `x`
    (`'ijk,klm->ijlm'`), then with `conj(A_k)` over `(a, n₁)` (`'ijkl,mikn->mjln'`) -/
theorem dmrgW1_steps (cj : α → α) (PL : Phi3 α) (A1 x1 : Core α) (y m1 a' x' : Nat) :
    dmrgW1 cj PL A1 x1 y m1 a' x' =
    sumTo A1.r0 (fun a => sumTo A1.n (fun n1 => cj (A1.get a m1 n1 a') *
      sumTo x1.r0 (fun x => PL y a x * cj (x1.get x n1 0 x')))) := by
  simp only [dmrgW1, ← sumTo_mul_left]
  rw [kl_sw1]
  refine sumTo_congr fun a _ => sumTo_congr fun n1 _ => sumTo_congr fun x _ => ?_
  ring

/-- the two einsums that build `W2`: `Phis[k+2]` with `conj(x_{k+1})` over `X` (`'ijk,mnk->njmi'`),
    then with `conj(A_{k+1})` over `(n₂, A')` (`'ijkl,klmn->ijmn'`) -/
theorem dmrgW2_steps (cj : α → α) (PR : Phi3 α) (A2 x2 : Core α) (a' m2 x' Y : Nat) :
    dmrgW2 cj PR A2 x2 a' m2 x' Y =
    sumTo A2.n (fun n2 => sumTo A2.r1 (fun A' => cj (A2.get a' m2 n2 A') *
      sumTo x2.r1 (fun X => PR Y A' X * cj (x2.get x' n2 0 X)))) := by
  simp only [dmrgW2, ← sumTo_mul_left]
  refine sumTo_congr fun n2 _ => sumTo_congr fun A' _ => sumTo_congr fun X _ => ?_
  ring

/-! ### (2) Galerkin exactness of the supercore -/

/-- `Phis[k]` of the left-to-right sweep: the fold of `dmrgPhiFwd` over the cores to the left
    (result cores `ys`, operator cores `As`, operand cores `xs`) -/
def dmrgFoldFwd (cj : α → α) : List (Core α) → List (Core α) → List (Core α) → Phi3 α → Phi3 α
  | y :: ys, A :: As, x :: xs, P => dmrgFoldFwd cj ys As xs (dmrgPhiFwd cj P y A x)
  | _, _, _, P => P

/-- `Phis[k+2]` of the right-to-left sweep: the fold of `dmrgPhiBck` over the cores to the right -/
def dmrgFoldBck (cj : α → α) : List (Core α) → List (Core α) → List (Core α) → Phi3 α → Phi3 α
  | y :: ys, A :: As, x :: xs, P => dmrgPhiBck cj (dmrgFoldBck cj ys As xs P) y A x
  | _, _, _, P => P

theorem dmrgFoldFwd_eq (cj : α → α) (ys As xs : List (Core α)) (P : Phi3 α) :
    dmrgFoldFwd cj ys As xs P = foldFwdA ys (conjTT cj As) (conjTT cj xs) P := by
  induction ys generalizing As xs P with
  | nil => cases As <;> cases xs <;> rfl
  | cons y ys ih =>
    cases As with
    | nil => cases xs <;> rfl
    | cons A As =>
      cases xs with
      | nil => rfl
      | cons x xs =>
        simp only [dmrgFoldFwd, conjTT, List.map_cons, foldFwdA]
        exact ih As xs _

theorem dmrgFoldBck_eq (cj : α → α) (ys As xs : List (Core α)) (P : Phi3 α) :
    dmrgFoldBck cj ys As xs P = foldBckA ys (conjTT cj As) (conjTT cj xs) P := by
  induction ys generalizing As xs with
  | nil => cases As <;> cases xs <;> rfl
  | cons y ys ih =>
    cases As with
    | nil => cases xs <;> rfl
    | cons A As =>
      cases xs with
      | nil => rfl
      | cons x xs =>
        simp only [dmrgFoldBck, conjTT, List.map_cons, foldBckA]
        have := ih As xs
        simp only [conjTT] at this
        rw [this]
        rfl

omit [CommRing α] in
theorem dg_WF_conj (cj : α → α) (xs : List (Core α)) (r : Nat) (h : WF xs r) : WF (conjTT cj xs) r := by
  induction xs generalizing r with
  | nil => exact h
  | cons x xs ih => exact ⟨h.1, ih x.r1 h.2⟩

omit [CommRing α] in
theorem dg_Chained_conj (cj : α → α) (xs : List (Core α)) (r s : Nat) (h : sw_Chained xs r s) :
    sw_Chained (conjTT cj xs) r s := by
  induction xs generalizing r with
  | nil => exact h
  | cons x xs ih => exact ⟨h.1, ih x.r1 h.2⟩

omit [CommRing α] in
theorem dg_modesM_conj (cj : α → α) (xs : List (Core α)) : modesM (conjTT cj xs) = modesM xs := by
  simp [modesM, conjTT, Core.mapVal]

omit [CommRing α] in
theorem dg_modesN_conj (cj : α → α) (xs : List (Core α)) : modesN (conjTT cj xs) = modesN xs := by
  simp [modesN, conjTT, Core.mapVal]

/-- forward and backward updates are adjoint -/
theorem dg_adjoint (P PR : Phi3 α) (v A u : Core α) :
    sumTo v.r1 (fun Y => sumTo A.r1 (fun A' => sumTo u.r1 (fun X =>
      phiFwdA P v A u Y A' X * PR Y A' X))) =
    sumTo v.r0 (fun b => sumTo A.r0 (fun a' => sumTo u.r0 (fun x' =>
      P b a' x' * phiBckA PR v A u b a' x'))) := by
  simp only [phiFwdA, phiBckA]
  simp only [← sumTo_mul_right, ← sumTo_mul_left]
  rw [kl_comm_3_5]
  refine sumTo_congr fun b _ => sumTo_congr fun a' _ => sumTo_congr fun x' _ => ?_
  rw [← kl_comm_3_2]
  refine sumTo_congr fun Y _ => sumTo_congr fun A' _ => sumTo_congr fun X _ =>
    sumTo_congr fun m _ => sumTo_congr fun n _ => ?_
  ring

/-- the backward update through `(v₂, Ā₂, x̄₂)` is `v₂` contracted with `W2` -/
theorem dg_bck_W2 (cj : α → α) (PR : Phi3 α) (v2 A2 x2 : Core α) (b a' x' : Nat) :
    phiBckA PR v2 (A2.mapVal cj) (x2.mapVal cj) b a' x' =
    sumTo A2.m (fun m2 => sumTo v2.r1 (fun Y => v2.get b m2 0 Y * dmrgW2 cj PR A2 x2 a' m2 x' Y)) := by
  simp only [phiBckA, dmrgW2, Core.mapVal]
  simp only [← sumTo_mul_left]
  -- [Y A' X m2 n2] → [m2 Y n2 A' X]
  rw [kl_sw2, kl_sw1, sumTo_comm]
  refine sumTo_congr fun m2 _ => sumTo_congr fun Y _ => ?_
  rw [← sw_comm2]
  refine sumTo_congr fun n2 _ => sumTo_congr fun A' _ => sumTo_congr fun X _ => ?_
  ring

/-- the forward update through `(v₁, Ā₁, x̄₁)` is `v₁` contracted with `W1` -/
theorem dg_fwd_W1 (cj : α → α) (PL : Phi3 α) (v1 A1 x1 : Core α) (b a' x' : Nat) :
    phiFwdA PL v1 (A1.mapVal cj) (x1.mapVal cj) b a' x' =
    sumTo v1.r0 (fun y => sumTo A1.m (fun m1 => v1.get y m1 0 b * dmrgW1 cj PL A1 x1 y m1 a' x')) := by
  simp only [phiFwdA, dmrgW1, Core.mapVal]
  simp only [← sumTo_mul_left]
  -- [y a x m1 n1] → [y m1 a x n1]
  refine sumTo_congr fun y _ => ?_
  rw [kl_sw1, sumTo_comm]
  refine sumTo_congr fun m1 _ => sumTo_congr fun a _ => sumTo_congr fun x _ =>
    sumTo_congr fun n1 _ => ?_
  ring

theorem dg_mul22 (a b d e : Nat) (f h : Nat → Nat → α) :
    sumTo a (fun i => sumTo b (fun j => f i j)) * sumTo d (fun p => sumTo e (fun q => h p q)) =
    sumTo a (fun i => sumTo b (fun j => sumTo d (fun p => sumTo e (fun q => f i j * h p q)))) := by
  rw [← sumTo_mul_right]
  refine sumTo_congr fun i _ => ?_
  rw [← sumTo_mul_right]
  refine sumTo_congr fun j _ => ?_
  rw [← sumTo_mul_left]
  refine sumTo_congr fun p _ => ?_
  rw [← sumTo_mul_left]

theorem dg_mul12 (a d e : Nat) (f : Nat → α) (h : Nat → Nat → α) :
    sumTo a (fun i => f i) * sumTo d (fun p => sumTo e (fun q => h p q)) =
    sumTo a (fun i => sumTo d (fun p => sumTo e (fun q => f i * h p q))) := by
  rw [← sumTo_mul_right]
  refine sumTo_congr fun i _ => ?_
  rw [← sumTo_mul_left]
  refine sumTo_congr fun p _ => ?_
  rw [← sumTo_mul_left]

/-- **testing the supercore (abstract environments).**  Pushing a left environment `PL` through the
    pair of result cores `v₁, v₂` with the two environment updates of the sweep and closing with a
    right environment `PR` is the same as pairing the supercore built from `PL`, `PR` with the
    pair-core `V[y,m₁,m₂,Y] = Σ_b v₁[y,m₁,b] · v₂[b,m₂,Y]`.  All environments, all cores. -/
theorem dmrgSuper_test (cj : α → α) (PL PR : Phi3 α) (v1 v2 A1 A2 x1 x2 : Core α)
    (hv : v2.r0 = v1.r1) (hA : A2.r0 = A1.r1) (hx : x2.r0 = x1.r1) :
    sumTo v2.r1 (fun Y => sumTo A2.r1 (fun A' => sumTo x2.r1 (fun X =>
      dmrgPhiFwd cj (dmrgPhiFwd cj PL v1 A1 x1) v2 A2 x2 Y A' X * PR Y A' X))) =
    sumTo v1.r0 (fun y => sumTo A1.m (fun m1 => sumTo A2.m (fun m2 => sumTo v2.r1 (fun Y =>
      sumTo v1.r1 (fun b => v1.get y m1 0 b * v2.get b m2 0 Y) *
        dmrgSuper cj PL PR A1 x1 A2 x2 y m1 m2 Y)))) := by
  refine (dg_adjoint (phiFwdA PL v1 (A1.mapVal cj) (x1.mapVal cj)) PR v2 (A2.mapVal cj)
    (x2.mapVal cj)).trans ?_
  show sumTo v2.r0 (fun b => sumTo A2.r0 (fun a' => sumTo x2.r0 (fun x' => _))) = _
  rw [hv, hA, hx]
  simp only [dg_fwd_W1, dg_bck_W2, dmrgSuper_factor]
  simp only [dg_mul22]
  simp only [dg_mul12]
  -- [b a' x' y m1 m2 Y] → [y m1 m2 Y b a' x']
  rw [kl_comm_3_2]
  refine sumTo_congr fun y _ => sumTo_congr fun m1 _ => ?_
  rw [kl_comm_3_2]
  refine sumTo_congr fun m2 _ => sumTo_congr fun Y _ => sumTo_congr fun b _ =>
    sumTo_congr fun a' _ => sumTo_congr fun x' _ => ?_
  ring

omit [CommRing α] in
theorem dg_conj_split (cj : α → α) (Al Ar : List (Core α)) (A1 A2 : Core α) :
    conjTT cj (Al ++ [A1, A2] ++ Ar) =
    conjTT cj Al ++ (A1.mapVal cj :: A2.mapVal cj :: conjTT cj Ar) := by
  simp [conjTT]

omit [CommRing α] in
theorem dg_length_conj (cj : α → α) (xs : List (Core α)) : (conjTT cj xs).length = xs.length := by
  simp [conjTT]

/-- strongest form: arbitrary left parts (only their lengths agree) and arbitrary incoming `P0`;
    the right parts are well formed from the right ranks of the cores at position `k+1`; the ranks
    between positions `k` and `k+1` match.  Sweeping the environment updates of the DMRG product
    through the whole trains (result train `yl ++ [v₁, v₂] ++ yr`) equals the supercore built from
    the two environments, tested against the pair-core `v₁ ⋈ v₂`. -/
theorem dmrgSuper_galerkin_gen (cj : α → α) (P0 : Phi3 α) (yl yr Al Ar xl xr : List (Core α))
    (v1 v2 A1 A2 x1 x2 : Core α)
    (hv : v2.r0 = v1.r1) (hA : A2.r0 = A1.r1) (hx : x2.r0 = x1.r1)
    (hwy : WF yr v2.r1) (hwA : WF Ar A2.r1) (hwx : WF xr x2.r1)
    (hly : yl.length = Al.length) (hlx : xl.length = Al.length)
    (hry : yr.length = Ar.length) (hrx : xr.length = Ar.length) :
    dmrgFoldFwd cj (yl ++ [v1, v2] ++ yr) (Al ++ [A1, A2] ++ Ar) (xl ++ [x1, x2] ++ xr) P0 0 0 0 =
    sumTo v1.r0 (fun y => sumTo A1.m (fun m1 => sumTo A2.m (fun m2 => sumTo v2.r1 (fun Y =>
      sumTo v1.r1 (fun b => v1.get y m1 0 b * v2.get b m2 0 Y) *
        dmrgSuper cj (dmrgFoldFwd cj yl Al xl P0) (dmrgFoldBck cj yr Ar xr ones3)
          A1 x1 A2 x2 y m1 m2 Y)))) := by
  have hcy := sw_Chained_of_WF yr v2.r1 hwy
  have hcA := dg_Chained_conj cj Ar A2.r1 1 (sw_Chained_of_WF Ar A2.r1 hwA)
  have hcx := dg_Chained_conj cj xr x2.r1 1 (sw_Chained_of_WF xr x2.r1 hwx)
  have hry' : yr.length = (conjTT cj Ar).length := by rw [dg_length_conj]; exact hry
  have hrx' : (conjTT cj xr).length = (conjTT cj Ar).length := by
    rw [dg_length_conj, dg_length_conj]; exact hrx
  rw [← dmrgSuper_test cj _ _ v1 v2 A1 A2 x1 x2 hv hA hx]
  rw [dmrgFoldFwd_eq, dmrgFoldFwd_eq, dg_conj_split, dg_conj_split]
  simp only [List.append_assoc, List.cons_append, List.nil_append]
  rw [kl_foldFwdA_append yl (conjTT cj Al) (conjTT cj xl) _ _ _ P0
    (by rw [dg_length_conj]; exact hly) (by rw [dg_length_conj, dg_length_conj]; exact hlx)]
  simp only [foldFwdA]
  rw [kl_foldFwdA_inv yr (conjTT cj Ar) (conjTT cj xr) v2.r1 A2.r1 x2.r1 1 1 1 _ 0 0 0 hcy hcA hcx
    hry' hrx' (by omega) (by omega) (by omega)]
  refine sumTo_congr fun Y hY => sumTo_congr fun A' hA' => sumTo_congr fun X hX => ?_
  rw [dmrgFoldBck_eq, kl_foldBckA_inv yr (conjTT cj Ar) (conjTT cj xr) v2.r1 A2.r1 x2.r1 1 1 1 ones3
    Y A' X hcy hcA hcx hry' hrx' hY hA' hX]
  simp only [sumTo_one, ones3, one_mul]
  rfl

omit [CommRing α] in
theorem dg_WF_split2 (xl : List (Core α)) (v1 v2 : Core α) (xr : List (Core α)) (r : Nat)
    (h : WF (xl ++ [v1, v2] ++ xr) r) :
    sw_Chained xl r v1.r0 ∧ v2.r0 = v1.r1 ∧ WF xr v2.r1 := by
  have h' : WF (xl ++ v1 :: v2 :: xr) r := by simpa using h
  obtain ⟨h1, h2, h3⟩ := kl_WF_split xl v1 (v2 :: xr) r h'
  exact ⟨h1, h2, h3⟩

/-- **Galerkin exactness of the supercore.**  For result, operator and operand trains split as
    `left ++ [c_k, c_{k+1}] ++ right`, the supercore `W` built from `Phis[k]` (the forward fold of the
    environment update over the left cores) and `Phis[k+2]` (the backward fold over the right cores),
    tested against the pair-core `v₁ ⋈ v₂` (any two cores, any intermediate rank), equals the
    trilinear form `⟨TT(yl, v₁, v₂, yr), conj(A) · conj(x)⟩` (`bilinear id`, the model of
    `bilinear_form`; dense form below). -/
theorem dmrgSuper_galerkin (cj : α → α) (yl yr Al Ar xl xr : List (Core α))
    (v1 v2 A1 A2 x1 x2 : Core α)
    (hwy : WF (yl ++ [v1, v2] ++ yr) 1) (hwA : WF (Al ++ [A1, A2] ++ Ar) 1)
    (hwx : WF (xl ++ [x1, x2] ++ xr) 1)
    (hly : yl.length = Al.length) (hlx : xl.length = Al.length)
    (hry : yr.length = Ar.length) (hrx : xr.length = Ar.length) :
    bilinear id (yl ++ [v1, v2] ++ yr) (conjTT cj (Al ++ [A1, A2] ++ Ar))
      (conjTT cj (xl ++ [x1, x2] ++ xr)) =
    sumTo v1.r0 (fun y => sumTo A1.m (fun m1 => sumTo A2.m (fun m2 => sumTo v2.r1 (fun Y =>
      sumTo v1.r1 (fun b => v1.get y m1 0 b * v2.get b m2 0 Y) *
        dmrgSuper cj (dmrgFoldFwd cj yl Al xl ones3) (dmrgFoldBck cj yr Ar xr ones3)
          A1 x1 A2 x2 y m1 m2 Y)))) := by
  unfold bilinear
  rw [kl_bilSweep_id, ← dmrgFoldFwd_eq]
  obtain ⟨_, hv, hy⟩ := dg_WF_split2 yl v1 v2 yr 1 hwy
  obtain ⟨_, hA, hA'⟩ := dg_WF_split2 Al A1 A2 Ar 1 hwA
  obtain ⟨_, hx, hx'⟩ := dg_WF_split2 xl x1 x2 xr 1 hwx
  exact dmrgSuper_galerkin_gen cj ones3 yl yr Al Ar xl xr v1 v2 A1 A2 x1 x2 hv hA hx hy hA' hx'
    hly hlx hry hrx

/-- the same against the dense trilinear form
    `Σ_{is,js} T[is] · conj(A)[is,js] · conj(x)[js]`, `T` the tensor of `yl ++ [v₁, v₂] ++ yr` -/
theorem dmrgSuper_galerkin_dense (cj : α → α) (yl yr Al Ar xl xr : List (Core α))
    (v1 v2 A1 A2 x1 x2 : Core α)
    (hwy : WF (yl ++ [v1, v2] ++ yr) 1) (hwA : WF (Al ++ [A1, A2] ++ Ar) 1)
    (hwx : WF (xl ++ [x1, x2] ++ xr) 1)
    (hly : yl.length = Al.length) (hlx : xl.length = Al.length)
    (hry : yr.length = Ar.length) (hrx : xr.length = Ar.length) :
    sumIdx (modesM (Al ++ [A1, A2] ++ Ar)) (fun is => sumIdx (modesN (Al ++ [A1, A2] ++ Ar)) (fun js =>
      full (yl ++ [v1, v2] ++ yr) (tIdx is) * full (conjTT cj (Al ++ [A1, A2] ++ Ar)) (is.zip js) *
        full (conjTT cj (xl ++ [x1, x2] ++ xr)) (tIdx js))) =
    sumTo v1.r0 (fun y => sumTo A1.m (fun m1 => sumTo A2.m (fun m2 => sumTo v2.r1 (fun Y =>
      sumTo v1.r1 (fun b => v1.get y m1 0 b * v2.get b m2 0 Y) *
        dmrgSuper cj (dmrgFoldFwd cj yl Al xl ones3) (dmrgFoldBck cj yr Ar xr ones3)
          A1 x1 A2 x2 y m1 m2 Y)))) := by
  rw [← dmrgSuper_galerkin cj yl yr Al Ar xl xr v1 v2 A1 A2 x1 x2 hwy hwA hwx hly hlx hry hrx]
  unfold bilinear
  rw [sw_bil_inv id (fun _ _ => rfl) (fun _ _ => rfl) rfl _ _ _ 1 1 1 _ hwy
    (dg_WF_conj cj _ 1 hwA) (dg_WF_conj cj _ 1 hwx)
    (by rw [dg_length_conj]; simp [hly, hry]) (by rw [dg_length_conj, dg_length_conj]; simp [hlx, hrx])]
  simp [sumTo_one, sw_B, sw_S2, full, dg_modesM_conj, dg_modesN_conj]

/-- for a ring endomorphism `cj` (complex conjugation; the identity for real data) the dense form
    reads `Σ_{is,js} T[is] · conj(A[is,js]) · conj(x[js]) = Σ_is T[is] · conj((A x)[is])` -/
theorem dmrgSuper_galerkin_dense_cj (cj : α → α) (h0 : cj 0 = 0) (h1 : cj 1 = 1)
    (hadd : ∀ a b, cj (a + b) = cj a + cj b) (hmul : ∀ a b, cj (a * b) = cj a * cj b)
    (yl yr Al Ar xl xr : List (Core α)) (v1 v2 A1 A2 x1 x2 : Core α)
    (hwy : WF (yl ++ [v1, v2] ++ yr) 1) (hwA : WF (Al ++ [A1, A2] ++ Ar) 1)
    (hwx : WF (xl ++ [x1, x2] ++ xr) 1)
    (hly : yl.length = Al.length) (hlx : xl.length = Al.length)
    (hry : yr.length = Ar.length) (hrx : xr.length = Ar.length) :
    sumIdx (modesM (Al ++ [A1, A2] ++ Ar)) (fun is => sumIdx (modesN (Al ++ [A1, A2] ++ Ar)) (fun js =>
      full (yl ++ [v1, v2] ++ yr) (tIdx is) * cj (full (Al ++ [A1, A2] ++ Ar) (is.zip js)) *
        cj (full (xl ++ [x1, x2] ++ xr) (tIdx js)))) =
    sumTo v1.r0 (fun y => sumTo A1.m (fun m1 => sumTo A2.m (fun m2 => sumTo v2.r1 (fun Y =>
      sumTo v1.r1 (fun b => v1.get y m1 0 b * v2.get b m2 0 Y) *
        dmrgSuper cj (dmrgFoldFwd cj yl Al xl ones3) (dmrgFoldBck cj yr Ar xr ones3)
          A1 x1 A2 x2 y m1 m2 Y)))) := by
  rw [← dmrgSuper_galerkin_dense cj yl yr Al Ar xl xr v1 v2 A1 A2 x1 x2 hwy hwA hwx hly hlx hry hrx]
  simp only [C09.full_conj cj h0 h1 hadd hmul]

/-! ### every pair-core is some `v₁ ⋈ v₂` -/

/-- left factor of the pair-core `V`: `[ry0, m₁dim, m₂dim · ry2]`, `(y, m₁, m₂·ry2 + Y) ↦ V y m₁ m₂ Y` -/
def dmrgPairL (V : Nat → Nat → Nat → Nat → α) (ry0 m1dim m2dim ry2 : Nat) : Core α :=
  ⟨ry0, m1dim, 1, m2dim * ry2, fun y m1 _ b => V y m1 (b / ry2) (b % ry2)⟩

/-- right factor: the `[m₂dim · ry2, m₂dim, ry2]` reshape of the identity -/
def dmrgPairR (m2dim ry2 : Nat) : Core α :=
  ⟨m2dim * ry2, m2dim, 1, ry2, fun b m2 _ Y => if b = m2 * ry2 + Y then 1 else 0⟩

theorem dmrgPair_repr (V : Nat → Nat → Nat → Nat → α) (ry0 m1dim m2dim ry2 : Nat) (y m1 m2 Y : Nat)
    (hm2 : m2 < m2dim) (hY : Y < ry2) :
    sumTo (dmrgPairL V ry0 m1dim m2dim ry2).r1 (fun b =>
      (dmrgPairL V ry0 m1dim m2dim ry2).get y m1 0 b * (dmrgPairR (α := α) m2dim ry2).get b m2 0 Y) =
    V y m1 m2 Y := by
  have hb : m2 * ry2 + Y < m2dim * ry2 := by
    have h := Nat.mul_le_mul_right ry2 (show m2 + 1 ≤ m2dim by omega)
    rw [Nat.add_mul] at h
    omega
  show sumTo (m2dim * ry2) _ = _
  rw [sumTo_single (m2 * ry2 + Y) hb]
  · simp [dmrgPairL, dmrgPairR, merge_div hY, merge_mod hY]
  · intro k _ hne
    simp [dmrgPairR, hne]

/-- a chained prefix factors out of a chain through its last rank -/
theorem dg_chain_split (l r : List (Core α)) (ij kl : List (Nat × Nat)) (a0 s a b : Nat)
    (hc : sw_Chained l a0 s) (hil : ij.length = l.length) (ha : a < a0) :
    chain (l ++ r) (ij ++ kl) a b = sumTo s (fun k => chain l ij a k * chain r kl k b) := by
  induction l generalizing ij a0 a with
  | nil =>
    match ij, hil with
    | [], _ =>
      have e : a0 = s := hc
      subst e
      rw [sumTo_single a ha]
      · simp [chain]
      · intro k _ hne
        have : ¬ a = k := fun h => hne h.symm
        simp [chain, this]
  | cons c l ih =>
    match ij, hil with
    | i :: is, hil =>
      obtain ⟨_, hc'⟩ := hc
      have hil' : is.length = l.length := by simpa using hil
      simp only [List.cons_append, chain]
      rw [sumTo_congr (fun k hk => by rw [ih is c.r1 k hc' hil' hk])]
      simp only [← sumTo_mul_right, ← sumTo_mul_left]
      rw [sumTo_comm]
      refine sumTo_congr fun t _ => sumTo_congr fun k _ => ?_
      ring

omit [CommRing α] in
theorem dg_WF_join (xl xr : List (Core α)) (r s : Nat) (hl : sw_Chained xl r s) (hr : WF xr s) :
    WF (xl ++ xr) r := by
  induction xl generalizing r with
  | nil => have e : r = s := hl; subst e; exact hr
  | cons x xl ih => exact ⟨hl.1, ih x.r1 hl.2⟩

/-- the test tensor of a pair-core `V` between the left result cores `yl` and the right result
    cores `yr`: the train `yl ++ [dmrgPairL V, dmrgPairR] ++ yr` -/
def dmrgTestTT (yl yr : List (Core α)) (V : Nat → Nat → Nat → Nat → α) (ry0 m1dim m2dim ry2 : Nat) :
    List (Core α) :=
  yl ++ [dmrgPairL V ry0 m1dim m2dim ry2, dmrgPairR m2dim ry2] ++ yr

/-- its entries: `T[il, m₁, m₂, ir] = Σ_{y,Y} yl(il)[0,y] · V[y,m₁,m₂,Y] · yr(ir)[Y,0]` -/
theorem full_dmrgTestTT (yl yr : List (Core α)) (V : Nat → Nat → Nat → Nat → α)
    (ry0 m1dim m2dim ry2 : Nat) (il ir : List Nat) (m1 m2 : Nat)
    (hcy : sw_Chained yl 1 ry0) (hil : il.length = yl.length) (hm2 : m2 < m2dim) :
    full (dmrgTestTT yl yr V ry0 m1dim m2dim ry2) (tIdx (il ++ m1 :: m2 :: ir)) =
    sumTo ry0 (fun y => sumTo ry2 (fun Y =>
      chain yl (tIdx il) 0 y * V y m1 m2 Y * chain yr (tIdx ir) Y 0)) := by
  have e1 : tIdx (il ++ m1 :: m2 :: ir) = tIdx il ++ ((m1, 0) :: (m2, 0) :: tIdx ir) := by
    simp [tIdx]
  have e2 : dmrgTestTT yl yr V ry0 m1dim m2dim ry2 =
      yl ++ (dmrgPairL V ry0 m1dim m2dim ry2 :: dmrgPairR m2dim ry2 :: yr) := by
    simp [dmrgTestTT]
  unfold full
  rw [e1, e2, dg_chain_split yl _ _ _ 1 ry0 0 0 hcy (by simpa [tIdx] using hil) (by omega)]
  refine sumTo_congr fun y _ => ?_
  simp only [chain]
  show _ * sumTo (m2dim * ry2) (fun b => _ * sumTo ry2 (fun Y => _)) = _
  rw [← sumTo_mul_left]
  have key : ∀ Y, Y < ry2 →
      sumTo (m2dim * ry2) (fun b => (dmrgPairL V ry0 m1dim m2dim ry2).get y m1 0 b *
        (dmrgPairR (α := α) m2dim ry2).get b m2 0 Y) = V y m1 m2 Y :=
    fun Y hY => dmrgPair_repr V ry0 m1dim m2dim ry2 y m1 m2 Y hm2 hY
  conv_rhs => rw [sumTo_congr (fun Y hY => by rw [← key Y hY])]
  simp only [← sumTo_mul_right, ← sumTo_mul_left]
  rw [sumTo_comm]
  refine sumTo_congr fun Y _ => sumTo_congr fun b _ => ?_
  ring

/-- **Galerkin exactness against an arbitrary pair-core `V[y, m₁, m₂, Y]`.**  The supercore paired
    with `V` is the dense trilinear form `Σ_{is,js} T[is] · conj(A)[is,js] · conj(x)[js]` with the
    test tensor `T = dmrgTestTT yl yr V` (entries: `full_dmrgTestTT`). -/
theorem dmrgSuper_galerkin_pair (cj : α → α) (yl yr Al Ar xl xr : List (Core α))
    (V : Nat → Nat → Nat → Nat → α) (ry0 ry2 : Nat) (A1 A2 x1 x2 : Core α)
    (hcy : sw_Chained yl 1 ry0) (hwyr : WF yr ry2) (hwA : WF (Al ++ [A1, A2] ++ Ar) 1)
    (hwx : WF (xl ++ [x1, x2] ++ xr) 1)
    (hly : yl.length = Al.length) (hlx : xl.length = Al.length)
    (hry : yr.length = Ar.length) (hrx : xr.length = Ar.length) :
    sumIdx (modesM (Al ++ [A1, A2] ++ Ar)) (fun is => sumIdx (modesN (Al ++ [A1, A2] ++ Ar)) (fun js =>
      full (dmrgTestTT yl yr V ry0 A1.m A2.m ry2) (tIdx is) *
        full (conjTT cj (Al ++ [A1, A2] ++ Ar)) (is.zip js) *
        full (conjTT cj (xl ++ [x1, x2] ++ xr)) (tIdx js))) =
    sumTo ry0 (fun y => sumTo A1.m (fun m1 => sumTo A2.m (fun m2 => sumTo ry2 (fun Y =>
      V y m1 m2 Y *
        dmrgSuper cj (dmrgFoldFwd cj yl Al xl ones3) (dmrgFoldBck cj yr Ar xr ones3)
          A1 x1 A2 x2 y m1 m2 Y)))) := by
  have hwy : WF (yl ++ [dmrgPairL V ry0 A1.m A2.m ry2, dmrgPairR A2.m ry2] ++ yr) 1 := by
    have := dg_WF_join yl (dmrgPairL V ry0 A1.m A2.m ry2 :: dmrgPairR A2.m ry2 :: yr) 1 ry0 hcy
      ⟨rfl, rfl, hwyr⟩
    simpa using this
  unfold dmrgTestTT
  rw [dmrgSuper_galerkin_dense cj yl yr Al Ar xl xr _ _ A1 A2 x1 x2 hwy hwA hwx hly hlx hry hrx]
  show sumTo ry0 (fun y => sumTo A1.m (fun m1 => sumTo A2.m (fun m2 => sumTo ry2 (fun Y => _)))) = _
  refine sumTo_congr fun y _ => sumTo_congr fun m1 _ => sumTo_congr fun m2 hm2 =>
    sumTo_congr fun Y hY => ?_
  rw [dmrgPair_repr V ry0 A1.m A2.m ry2 y m1 m2 Y hm2 hY]

/-! ### (3) order 2: the supercore is the product `A · x` -/

/-- order 2, trivial environments, all boundary ranks 1: the supercore is `conj` of the matrix-vector
    product, for every additive and multiplicative `cj` -/
theorem dmrgSuper_exact_rank_one_env_cj (cj : α → α) (hadd : ∀ a b, cj (a + b) = cj a + cj b)
    (hmul : ∀ a b, cj (a * b) = cj a * cj b) (A1 x1 A2 x2 : Core α) (y m1 m2 Y : Nat)
    (hA0 : A1.r0 = 1) (hx0 : x1.r0 = 1) (hA1 : A2.r1 = 1) (hx1 : x2.r1 = 1) :
    dmrgSuper cj (fun _ _ _ => 1) (fun _ _ _ => 1) A1 x1 A2 x2 y m1 m2 Y =
    cj (sumTo A1.n (fun n1 => sumTo A2.n (fun n2 =>
      full [A1, A2] [(m1, n1), (m2, n2)] * full [x1, x2] [(n1, 0), (n2, 0)]))) := by
  have eA : ∀ n1 n2, full [A1, A2] [(m1, n1), (m2, n2)] =
      sumTo A1.r1 (fun k => A1.get 0 m1 n1 k * A2.get k m2 n2 0) := by
    intro n1 n2; simp [full, chain, hA1, sumTo_one]
  have ex : ∀ n1 n2, full [x1, x2] [(n1, 0), (n2, 0)] =
      sumTo x1.r1 (fun k => x1.get 0 n1 0 k * x2.get k n2 0 0) := by
    intro n1 n2; simp [full, chain, hx1, sumTo_one]
  simp only [eA, ex, dmrgSuper, hA0, hx0, hA1, hx1, sumTo_one, sumTo_mul_sumTo,
    sw_cj_sumTo cj hadd, hmul]
  refine sumTo_congr fun n1 _ => ?_
  rw [← sw_comm2]
  refine sumTo_congr fun n2 _ => sumTo_congr fun a' _ => sumTo_congr fun x' _ => ?_
  ring

/-- real case `cj = id`: the supercore is exactly the product `A · x` -/
theorem dmrgSuper_exact_rank_one_env (A1 x1 A2 x2 : Core α) (m1 m2 : Nat)
    (hA0 : A1.r0 = 1) (hx0 : x1.r0 = 1) (hA1 : A2.r1 = 1) (hx1 : x2.r1 = 1) :
    dmrgSuper id (fun _ _ _ => 1) (fun _ _ _ => 1) A1 x1 A2 x2 0 m1 m2 0 =
    sumTo A1.n (fun n1 => sumTo A2.n (fun n2 =>
      full [A1, A2] [(m1, n1), (m2, n2)] * full [x1, x2] [(n1, 0), (n2, 0)])) :=
  dmrgSuper_exact_rank_one_env_cj id (fun _ _ => rfl) (fun _ _ => rfl) A1 x1 A2 x2 0 m1 m2 0
    hA0 hx0 hA1 hx1

/-! ### (4) the Hadamard variant -/

/-- with the diagonal embeddings `diagCore z_k` as operator cores the supercore is the elementwise
    product (in-range mode indices; out of range the embedding yields `0`, cf.
    `C13.diag_matvec_outOfRange_counterexample`) -/
theorem dmrgSuper_hadamard (z1 x1 z2 x2 : Core α) (m1 m2 : Nat)
    (hz0 : z1.r0 = 1) (hx0 : x1.r0 = 1) (hz1 : z2.r1 = 1) (hx1 : x2.r1 = 1)
    (hm1 : m1 < z1.m) (hm2 : m2 < z2.m) :
    dmrgSuper id (fun _ _ _ => 1) (fun _ _ _ => 1) (diagCore z1) x1 (diagCore z2) x2 0 m1 m2 0 =
    full [z1, z2] [(m1, 0), (m2, 0)] * full [x1, x2] [(m1, 0), (m2, 0)] := by
  rw [dmrgSuper_exact_rank_one_env (diagCore z1) x1 (diagCore z2) x2 m1 m2 hz0 hx0 hz1 hx1]
  show sumTo z1.m (fun n1 => sumTo z2.m (fun n2 => _)) = _
  rw [sumTo_single m1 hm1, sumTo_single m2 hm2]
  · simp [full, chain, diagCore]
  · intro n2 _ hne
    have : ¬ m2 = n2 := fun h => hne h.symm
    simp [full, chain, diagCore, this, sumTo_zero']
  · intro n1 _ hne
    have : ¬ m1 = n1 := fun h => hne h.symm
    apply sumTo_eq_zero; intro n2 _
    simp [full, chain, diagCore, this, sumTo_zero']

/-! ### (5) non-vacuity: concrete instances -/

/-- operator cores: row modes 2,3, column modes 3,2, ranks 1,2,1 -/
def dg_A1 : Core Int := ⟨1, 2, 3, 2, fun _ i j b => (i + 2 * j + b : Int)⟩
def dg_A2 : Core Int := ⟨2, 3, 2, 1, fun a i j _ => (a * i - j + 1 : Int)⟩
/-- operand cores: modes 3,2, ranks 1,3,1 -/
def dg_x1 : Core Int := ⟨1, 3, 1, 3, fun _ i _ b => (i * b + 1 : Int)⟩
def dg_x2 : Core Int := ⟨3, 2, 1, 1, fun a i _ _ => (a + 3 * i - 2 : Int)⟩
/-- first Hadamard factor: modes 3,2, ranks 1,2,1 -/
def dg_z1 : Core Int := ⟨1, 3, 1, 2, fun _ i _ b => (2 * i - b + 1 : Int)⟩
def dg_z2 : Core Int := ⟨2, 2, 1, 1, fun a i _ _ => (a + i + 1 : Int)⟩

/-- (1) on the example, with non-constant environments -/
example : dmrgSuper id (fun y a x => (y + 2 * a - x : Int)) (fun Y A' X => (Y - A' + X + 1 : Int))
      dg_A1 dg_x1 dg_A2 dg_x2 1 1 2 1 =
    sumTo dg_A1.r1 (fun a' => sumTo dg_x1.r1 (fun x' =>
      dmrgW1 id (fun y a x => (y + 2 * a - x : Int)) dg_A1 dg_x1 1 1 a' x' *
        dmrgW2 id (fun Y A' X => (Y - A' + X + 1 : Int)) dg_A2 dg_x2 a' 2 x' 1)) :=
  dmrgSuper_factor _ _ _ _ _ _ _ _ _ _ _

/-- (3) applied: inner ranks 2 (operator) and 3 (operand) -/
example : dmrgSuper id (fun _ _ _ => 1) (fun _ _ _ => 1) dg_A1 dg_x1 dg_A2 dg_x2 0 1 2 0 =
    sumTo dg_A1.n (fun n1 => sumTo dg_A2.n (fun n2 =>
      full [dg_A1, dg_A2] [(1, n1), (2, n2)] * full [dg_x1, dg_x2] [(n1, 0), (n2, 0)])) :=
  dmrgSuper_exact_rank_one_env dg_A1 dg_x1 dg_A2 dg_x2 1 2 rfl rfl rfl rfl

/-- (3) checked numerically, independently of the theorem: both sides are `204` -/
example : dmrgSuper id (fun _ _ _ => 1) (fun _ _ _ => 1) dg_A1 dg_x1 dg_A2 dg_x2 0 1 2 0 = 204 ∧
    sumTo dg_A1.n (fun n1 => sumTo dg_A2.n (fun n2 =>
      full [dg_A1, dg_A2] [(1, n1), (2, n2)] * full [dg_x1, dg_x2] [(n1, 0), (n2, 0)])) = 204 := by
  decide

/-- (4) applied -/
example : dmrgSuper id (fun _ _ _ => 1) (fun _ _ _ => 1) (diagCore dg_z1) dg_x1 (diagCore dg_z2) dg_x2
      0 2 1 0 =
    full [dg_z1, dg_z2] [(2, 0), (1, 0)] * full [dg_x1, dg_x2] [(2, 0), (1, 0)] :=
  dmrgSuper_hadamard dg_z1 dg_x1 dg_z2 dg_x2 2 1 rfl rfl rfl rfl (by decide) (by decide)

/-- (4) checked numerically: `z[2,1] = 22`, `x[2,1] = 22`, supercore entry `484` -/
example : dmrgSuper id (fun _ _ _ => 1) (fun _ _ _ => 1) (diagCore dg_z1) dg_x1 (diagCore dg_z2) dg_x2
      0 2 1 0 = 484 ∧
    full [dg_z1, dg_z2] [(2, 0), (1, 0)] = 22 ∧ full [dg_x1, dg_x2] [(2, 0), (1, 0)] = 22 := by
  decide

/-- (4): the in-range hypothesis is needed — for `m₁ = 3 = z₁.m` the embedding gives `0`, the raw
    `get`s do not -/
example : dmrgSuper id (fun _ _ _ => 1) (fun _ _ _ => 1) (diagCore dg_z1) dg_x1 (diagCore dg_z2) dg_x2
      0 3 1 0 ≠
    full [dg_z1, dg_z2] [(3, 0), (1, 0)] * full [dg_x1, dg_x2] [(3, 0), (1, 0)] := by
  decide

/-- (2) order 3, pair at positions 1,2 (non-empty left part); result train `kl_x*` (row modes of
    `kl_A*`), operand train `kl_y*` (column modes) -/
example : bilinear id ([kl_x0] ++ [kl_x1, kl_x2] ++ []) (conjTT id ([kl_A0] ++ [kl_A1, kl_A2] ++ []))
      (conjTT id ([kl_y0] ++ [kl_y1, kl_y2] ++ [])) =
    sumTo kl_x1.r0 (fun y => sumTo kl_A1.m (fun m1 => sumTo kl_A2.m (fun m2 => sumTo kl_x2.r1 (fun Y =>
      sumTo kl_x1.r1 (fun b => kl_x1.get y m1 0 b * kl_x2.get b m2 0 Y) *
        dmrgSuper id (dmrgFoldFwd id [kl_x0] [kl_A0] [kl_y0] ones3) (dmrgFoldBck id [] [] [] ones3)
          kl_A1 kl_y1 kl_A2 kl_y2 y m1 m2 Y)))) :=
  dmrgSuper_galerkin id _ _ _ _ _ _ _ _ _ _ _ _ (by simp [WF, kl_x0, kl_x1, kl_x2])
    (by simp [WF, kl_A0, kl_A1, kl_A2]) (by simp [WF, kl_y0, kl_y1, kl_y2]) rfl rfl rfl rfl

/-- (2) order 3, pair at positions 0,1 (non-empty right part) -/
example : bilinear id ([] ++ [kl_x0, kl_x1] ++ [kl_x2]) (conjTT id ([] ++ [kl_A0, kl_A1] ++ [kl_A2]))
      (conjTT id ([] ++ [kl_y0, kl_y1] ++ [kl_y2])) =
    sumTo kl_x0.r0 (fun y => sumTo kl_A0.m (fun m1 => sumTo kl_A1.m (fun m2 => sumTo kl_x1.r1 (fun Y =>
      sumTo kl_x0.r1 (fun b => kl_x0.get y m1 0 b * kl_x1.get b m2 0 Y) *
        dmrgSuper id (dmrgFoldFwd id [] [] [] ones3) (dmrgFoldBck id [kl_x2] [kl_A2] [kl_y2] ones3)
          kl_A0 kl_y0 kl_A1 kl_y1 y m1 m2 Y)))) :=
  dmrgSuper_galerkin id _ _ _ _ _ _ _ _ _ _ _ _ (by simp [WF, kl_x0, kl_x1, kl_x2])
    (by simp [WF, kl_A0, kl_A1, kl_A2]) (by simp [WF, kl_y0, kl_y1, kl_y2]) rfl rfl rfl rfl

/-- the two sides are the same non-trivial number, computed independently -/
example : bilinear id [kl_x0, kl_x1, kl_x2] (conjTT id [kl_A0, kl_A1, kl_A2])
      (conjTT id [kl_y0, kl_y1, kl_y2]) ≠ 0 ∧
    bilinear id [kl_x0, kl_x1, kl_x2] (conjTT id [kl_A0, kl_A1, kl_A2])
      (conjTT id [kl_y0, kl_y1, kl_y2]) =
    sumTo kl_x0.r0 (fun y => sumTo kl_A0.m (fun m1 => sumTo kl_A1.m (fun m2 => sumTo kl_x1.r1 (fun Y =>
      sumTo kl_x0.r1 (fun b => kl_x0.get y m1 0 b * kl_x1.get b m2 0 Y) *
        dmrgSuper id (dmrgFoldFwd id [] [] [] ones3) (dmrgFoldBck id [kl_x2] [kl_A2] [kl_y2] ones3)
          kl_A0 kl_y0 kl_A1 kl_y1 y m1 m2 Y)))) := by
  decide +kernel

/-- (2), arbitrary pair-core: the hypotheses of `dmrgSuper_galerkin_pair` hold on the example -/
example : sumIdx (modesM ([kl_A0] ++ [kl_A1, kl_A2] ++ [])) (fun is =>
      sumIdx (modesN ([kl_A0] ++ [kl_A1, kl_A2] ++ [])) (fun js =>
        full (dmrgTestTT [kl_x0] [] (fun y m1 m2 Y => (y + 2 * m1 - m2 + 3 * Y : Int)) 2 kl_A1.m kl_A2.m 1)
            (tIdx is) *
          full (conjTT id ([kl_A0] ++ [kl_A1, kl_A2] ++ [])) (is.zip js) *
          full (conjTT id ([kl_y0] ++ [kl_y1, kl_y2] ++ [])) (tIdx js))) =
    sumTo 2 (fun y => sumTo kl_A1.m (fun m1 => sumTo kl_A2.m (fun m2 => sumTo 1 (fun Y =>
      (y + 2 * m1 - m2 + 3 * Y : Int) *
        dmrgSuper id (dmrgFoldFwd id [kl_x0] [kl_A0] [kl_y0] ones3) (dmrgFoldBck id [] [] [] ones3)
          kl_A1 kl_y1 kl_A2 kl_y2 y m1 m2 Y)))) :=
  dmrgSuper_galerkin_pair id _ _ _ _ _ _ _ 2 1 _ _ _ _ (by simp [sw_Chained, kl_x0]) rfl
    (by simp [WF, kl_A0, kl_A1, kl_A2]) (by simp [WF, kl_y0, kl_y1, kl_y2]) rfl rfl rfl rfl

end TT.C11

#print axioms TT.C11.dmrgSuper_factor
#print axioms TT.C11.dmrgW1_steps
#print axioms TT.C11.dmrgW2_steps
#print axioms TT.C11.dmrgSuper_test
#print axioms TT.C11.dmrgSuper_galerkin_gen
#print axioms TT.C11.dmrgSuper_galerkin
#print axioms TT.C11.dmrgSuper_galerkin_dense
#print axioms TT.C11.dmrgSuper_galerkin_dense_cj
#print axioms TT.C11.dmrgPair_repr
#print axioms TT.C11.full_dmrgTestTT
#print axioms TT.C11.dmrgSuper_galerkin_pair
#print axioms TT.C11.dmrgSuper_exact_rank_one_env_cj
#print axioms TT.C11.dmrgSuper_exact_rank_one_env
#print axioms TT.C11.dmrgSuper_hadamard
