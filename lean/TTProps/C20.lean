import TTLemmas.Matmul

/-!
# C20 — `LinearLayerTT.forward` is the dense affine map `x ↦ W x + b`

`forward cs bias x ms` is the model of `nn.LinearLayerTT.forward` for one batch index: the
left-to-right `tensordot` sweep of the TT-matrix cores `cs` over the dense input `x` (a function of
the column multi-index), plus the bias entry.  `full cs (ms.zip ns)` is the entry `W[ms, ns]` of the
weight operator represented by the train.
-/
namespace TT.C20
open TT
variable {α : Type} [CommRing α]

/-- `forward(x)[m] = Σ_n W.full()[m, n] · x[n] + bias[m]` -/
theorem forward_eq (cs : List (Core α)) (bias x : List Nat → α) (ms : List Nat)
    (hw : WF cs 1) (hml : ms.length = cs.length) :
    forward cs bias x ms =
      sumIdx (modesN cs) (fun ns => full cs (ms.zip ns) * x ns) + bias ms := by
  unfold forward
  rw [denseMatvec_eq_gen cs x ms hw hml]

/-- order-3 weight operator `(2·3·2) × (3·2·4)`, ranks `1,2,3,1` -/
def exW : List (Core Int) :=
  [⟨1, 2, 3, 2, fun _ i j b => (i + j + b : Int)⟩, ⟨2, 3, 2, 3, fun a i j b => (a * i + j - b : Int)⟩,
   ⟨3, 2, 4, 1, fun a i j _ => (a - i * j : Int)⟩]

example : WF exW 1 ∧ ([1, 2, 0] : List Nat).length = exW.length := by simp [exW, WF]

example (bias x : List Nat → Int) : forward exW bias x [1, 2, 0] =
    sumIdx (modesN exW) (fun ns => full exW ([1, 2, 0].zip ns) * x ns) + bias [1, 2, 0] :=
  forward_eq exW bias x [1, 2, 0] (by simp [exW, WF]) rfl

/-- numeric sanity check on a concrete input and bias -/
example : forward exW (fun ms => (ms.sum : Int)) (fun ns => (ns.foldl (fun s n => 2 * s + n) 1 : Nat)) [1, 2, 0] =
    sumIdx [3, 2, 4] (fun ns => full exW ([1, 2, 0].zip ns) *
      ((ns.foldl (fun s n => 2 * s + n) 1 : Nat) : Int)) + 3 := by decide

end TT.C20
