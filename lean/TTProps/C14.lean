import TTLemmas.CrossL

/-!
# C14 — index safety of `dmrg_cross` (`torchtt/interpolate.py`)

Clause: *while running, `dmrg_cross` calls the user's function only with an `M × d` integer index
matrix whose every column `k` lies in `[0, N[k])`*.

The model (`TTModel/Cross.lean`) keeps the index sets `Idx[k]` as lists of multi-indices: a *left*
set at position `k` holds multi-indices of length `k` (tensor positions `0 … k-1`), a *right* set at
position `k` multi-indices of length `d-k` (positions `k … d-1`).  This file proves, for every list
of mode sizes `ns` (`N` of the Python code, `d = ns.length`):

1. `leftUpdate_inRange`, `rightUpdate_inRange`, `rightInit_inRange`: the three `np.unravel_index`
   decodings keep every entry of every multi-index inside its mode, given only that the pivot
   numbers are smaller than the number of rows of the matrix handed to `_maxvol`;
2. `evalIndex_inRange`, `evalIndex_length`: the matrix handed to the user function has
   `rank[k]·N[k]·N[k+1]·rank[k+2]` rows of length `d`, every column `j` inside `[0, N[j])`;
3. a state machine over the whole array `Idx` (steps `init k`, `lr k`, `rl k`), the invariant `Inv`,
   `inv_step`, `calls_inRange`, `run_inRange` (every call of every admissible run is safe), and
   `schedule_admissible` / `dmrg_cross_calls_inRange`: for the *actual* loop schedule of the Python
   code (`for k in range(d-1,0,-1)`, then `nswp` times `for k in range(d-1)` and
   `for k in range(d-2,-1,-1)`) the side conditions hold automatically, so that the pivot bounds
   alone make every call safe.
-/
namespace TT.C14
open TT.Cross

/-! ### (1) `Idx[k+1]` of the left-to-right half sweep -/

/-- Extending the left multi-indices by a decoded pivot keeps them in range.
    (`0 < n` and `k < ns.length` need not be assumed: a pivot `p < L.length * n` forces both, and
    without pivots the new set is empty.) -/
theorem leftUpdate_inRange {L : List (List Nat)} {ns piv : List Nat} {k n : Nat}
    (hL : InRange L (ns.take k)) (hn : ns.getD k 0 = n)
    (hp : ∀ p ∈ piv, p < L.length * n) :
    InRange (leftUpdate L n piv) (ns.take (k + 1)) := by
  intro s hs
  obtain ⟨p, hpm, rfl⟩ := cr_mem_leftUpdate.mp hs
  have hlt := hp p hpm
  have hn0 : 0 < n := by
    rcases Nat.eq_zero_or_pos n with h | h
    · subst h; simp at hlt
    · exact h
  have hk : k < ns.length := cr_lt_length_of_getD_pos (by rw [hn]; exact hn0)
  have hdiv : p / n < L.length := (Nat.div_lt_iff_lt_mul hn0).mpr hlt
  rw [cr_take_succ hk, hn]
  exact cr_rowOk_append (cr_rowOk_getD hL hdiv) (cr_rowOk_single (Nat.mod_lt _ hn0))

/-- the form with all hypotheses of the informal statement spelled out -/
theorem leftUpdate_inRange' {L : List (List Nat)} {ns piv : List Nat} {k n : Nat}
    (hL : InRange L (ns.take k)) (_h0 : 0 < n) (hn : ns.getD k 0 = n) (_hk : k < ns.length)
    (hp : ∀ p ∈ piv, p < L.length * n) :
    InRange (leftUpdate L n piv) (ns.take (k + 1)) :=
  leftUpdate_inRange hL hn hp

theorem leftUpdate_length (L : List (List Nat)) (n : Nat) (piv : List Nat) :
    (leftUpdate L n piv).length = piv.length := by simp [leftUpdate]

/-! ### (2) `Idx[k+1]` of the right-to-left half sweep -/

/-- Prepending the decoded mode index to the selected right multi-index keeps the set in range.
    `r` is `rank[k+2]`; it must not exceed the number of multi-indices in `R` (in the code they are
    equal). -/
theorem rightUpdate_inRange {R : List (List Nat)} {ns piv : List Nat} {k n r : Nat}
    (hR : InRange R (ns.drop (k + 2))) (hr : r ≤ R.length) (hn : ns.getD (k + 1) 0 = n)
    (hp : ∀ p ∈ piv, p < n * r) :
    InRange (rightUpdate R r piv) (ns.drop (k + 1)) := by
  intro s hs
  obtain ⟨p, hpm, rfl⟩ := cr_mem_rightUpdate.mp hs
  have hlt := hp p hpm
  have hr0 : 0 < r := by
    rcases Nat.eq_zero_or_pos r with h | h
    · subst h; simp at hlt
    · exact h
  have hn0 : 0 < n := by
    rcases Nat.eq_zero_or_pos n with h | h
    · subst h; simp at hlt
    · exact h
  have hk : k + 1 < ns.length := cr_lt_length_of_getD_pos (by rw [hn]; exact hn0)
  have hdiv : p / r < n := Nat.div_lt_of_lt_mul (by rw [Nat.mul_comm]; exact hlt)
  have hmod : p % r < R.length := Nat.lt_of_lt_of_le (Nat.mod_lt _ hr0) hr
  rw [cr_drop_eq_cons hk, hn]
  exact cr_rowOk_cons.mpr ⟨hdiv, cr_rowOk_getD hR hmod⟩

theorem rightUpdate_length (R : List (List Nat)) (r : Nat) (piv : List Nat) :
    (rightUpdate R r piv).length = piv.length := by simp [rightUpdate]

/-! ### (3) the initialisation loop -/

theorem rightInit_inRange {R : List (List Nat)} {ns piv : List Nat} {k n : Nat}
    (hR : InRange R (ns.drop (k + 1))) (hn : ns.getD k 0 = n)
    (hp : ∀ p ∈ piv, p < R.length * n) :
    InRange (rightInit R n piv) (ns.drop k) := by
  intro s hs
  obtain ⟨p, hpm, rfl⟩ := cr_mem_rightInit.mp hs
  have hlt := hp p hpm
  have hn0 : 0 < n := by
    rcases Nat.eq_zero_or_pos n with h | h
    · subst h; simp at hlt
    · exact h
  have hk : k < ns.length := cr_lt_length_of_getD_pos (by rw [hn]; exact hn0)
  have hdiv : p / n < R.length := (Nat.div_lt_iff_lt_mul hn0).mpr hlt
  rw [cr_drop_eq_cons hk, hn]
  exact cr_rowOk_cons.mpr ⟨Nat.mod_lt _ hn0, cr_rowOk_getD hR hdiv⟩

/-- the form with all hypotheses of the informal statement spelled out -/
theorem rightInit_inRange' {R : List (List Nat)} {ns piv : List Nat} {k n : Nat}
    (hR : InRange R (ns.drop (k + 1))) (_h0 : 0 < n) (hn : ns.getD k 0 = n)
    (hp : ∀ p ∈ piv, p < R.length * n) :
    InRange (rightInit R n piv) (ns.drop k) :=
  rightInit_inRange hR hn hp

theorem rightInit_length (R : List (List Nat)) (n : Nat) (piv : List Nat) :
    (rightInit R n piv).length = piv.length := by simp [rightInit]

/-! ### (4), (5) the matrix handed to the user function -/

/-- every row of `eval_index` has length `d = ns.length` and column `j` lies in `[0, ns[j])` -/
theorem evalIndex_inRange {L R : List (List Nat)} {ns : List Nat} {k n1 n2 : Nat}
    (hL : InRange L (ns.take k)) (hR : InRange R (ns.drop (k + 2))) (hk : k + 2 ≤ ns.length)
    (h1 : n1 = ns.getD k 0) (h2 : n2 = ns.getD (k + 1) 0) :
    InRange (evalIndex L n1 n2 R) ns := by
  intro s hs
  obtain ⟨l, hl, i, hi, j, hj, r, hr, rfl⟩ := cr_mem_evalIndex.mp hs
  subst h1 h2
  rw [cr_split2 hk]
  exact cr_rowOk_append
    (cr_rowOk_append (hL l hl) (cr_rowOk_cons.mpr ⟨hi, cr_rowOk_single hj⟩)) (hR r hr)

/-- the `M` of the `M × d` matrix: `rank[k] · N[k] · N[k+1] · rank[k+2]` -/
theorem evalIndex_length (L R : List (List Nat)) (n1 n2 : Nat) :
    (evalIndex L n1 n2 R).length = L.length * n1 * n2 * R.length := by
  unfold evalIndex
  rw [cr_length_flatMap_const L _ (n1 * (n2 * R.length)), Nat.mul_assoc, Nat.mul_assoc]
  intro l _
  rw [cr_length_flatMap_const _ _ (n2 * R.length), List.length_range]
  intro i _
  rw [cr_length_flatMap_const _ _ R.length, List.length_range]
  intro j _
  simp

/-- each row has exactly `d` columns (part of `evalIndex_inRange`, stated separately) -/
theorem evalIndex_row_length {L R : List (List Nat)} {ns : List Nat} {k n1 n2 : Nat}
    (hL : InRange L (ns.take k)) (hR : InRange R (ns.drop (k + 2))) (hk : k + 2 ≤ ns.length)
    (h1 : n1 = ns.getD k 0) (h2 : n2 = ns.getD (k + 1) 0) :
    ∀ s ∈ evalIndex L n1 n2 R, s.length = ns.length :=
  fun s hs => (evalIndex_inRange hL hR hk h1 h2 s hs).1

/-! ### (6) the whole run: a state machine over the array `Idx` -/

/-- which kind of index set a position of `Idx` currently holds -/
inductive Side | left | right
  deriving DecidableEq, Repr

/-- the array `Idx` (length `d+1`), every position tagged with the kind of set it holds -/
abbrev IdxState := List (Side × List (List Nat))

def setsAt (Idx : IdxState) (j : Nat) : List (List Nat) := (Idx.getD j (Side.right, [])).2

def sideAt (Idx : IdxState) (j : Nat) : Option Side := Idx[j]?.map Prod.fst

/-- the three places where `Idx` is written -/
inductive Kind
  | init (k : Nat)   -- initialisation loop, writes `Idx[k]` from `Idx[k+1]`
  | lr (k : Nat)     -- left-to-right step on the supercore `(k, k+1)`, writes `Idx[k+1]` from `Idx[k]`
  | rl (k : Nat)     -- right-to-left step on the supercore `(k, k+1)`, writes `Idx[k+1]` from `Idx[k+2]`
  deriving DecidableEq, Repr

/-- a step together with the pivot vector returned by `_maxvol` (arbitrary, i.e. an oracle) -/
abbrev Step := Kind × List Nat

/-- `rank[j]` is the number of multi-indices stored at position `j` -/
def step (ns : List Nat) (Idx : IdxState) : Step → IdxState
  | (.init k, piv) => Idx.set k (Side.right, rightInit (setsAt Idx (k + 1)) (ns.getD k 0) piv)
  | (.lr k, piv) => Idx.set (k + 1) (Side.left, leftUpdate (setsAt Idx k) (ns.getD k 0) piv)
  | (.rl k, piv) =>
      Idx.set (k + 1) (Side.right, rightUpdate (setsAt Idx (k + 2)) (setsAt Idx (k + 2)).length piv)

def run (ns : List Nat) (Idx : IdxState) (steps : List Step) : IdxState := steps.foldl (step ns) Idx

/-- the index matrix handed to the user function at the beginning of a sweep step -/
def call (ns : List Nat) (Idx : IdxState) : Step → Option (List (List Nat))
  | (.init _, _) => none
  | (.lr k, _) =>
      some (evalIndex (setsAt Idx k) (ns.getD k 0) (ns.getD (k + 1) 0) (setsAt Idx (k + 2)))
  | (.rl k, _) =>
      some (evalIndex (setsAt Idx k) (ns.getD k 0) (ns.getD (k + 1) 0) (setsAt Idx (k + 2)))

/-- all index matrices handed to the user function along a run -/
def calls (ns : List Nat) : IdxState → List Step → List (List (List Nat))
  | _, [] => []
  | Idx, s :: ss => (call ns Idx s).toList ++ calls ns (step ns Idx s) ss

/-- the pivots are row numbers of the matrix handed to `_maxvol`
    (`rank[k+1]·N[k]`, `rank[k]·N[k]`, `N[k+1]·rank[k+2]` rows respectively) -/
def PivOk (ns : List Nat) (Idx : IdxState) : Step → Prop
  | (.init k, piv) => ∀ p ∈ piv, p < (setsAt Idx (k + 1)).length * ns.getD k 0
  | (.lr k, piv) => ∀ p ∈ piv, p < (setsAt Idx k).length * ns.getD k 0
  | (.rl k, piv) => ∀ p ∈ piv, p < ns.getD (k + 1) 0 * (setsAt Idx (k + 2)).length

/-- loop bounds and the kind of set the step reads -/
def SideOk (ns : List Nat) (Idx : IdxState) : Kind → Prop
  | .init k => 1 ≤ k ∧ k + 1 ≤ ns.length ∧ sideAt Idx (k + 1) = some Side.right
  | .lr k => k + 2 ≤ ns.length ∧ sideAt Idx k = some Side.left ∧ sideAt Idx (k + 2) = some Side.right
  | .rl k => k + 2 ≤ ns.length ∧ sideAt Idx k = some Side.left ∧ sideAt Idx (k + 2) = some Side.right

def Admissible (ns : List Nat) (Idx : IdxState) (s : Step) : Prop :=
  SideOk ns Idx s.1 ∧ PivOk ns Idx s

def AdmissibleRun (ns : List Nat) : IdxState → List Step → Prop
  | _, [] => True
  | Idx, s :: ss => Admissible ns Idx s ∧ AdmissibleRun ns (step ns Idx s) ss

/-- only the pivot bounds along a run -/
def PivRun (ns : List Nat) : IdxState → List Step → Prop
  | _, [] => True
  | Idx, s :: ss => PivOk ns Idx s ∧ PivRun ns (step ns Idx s) ss

/-- what a tagged set at position `j` must satisfy -/
def Good (ns : List Nat) (j : Nat) : Side × List (List Nat) → Prop
  | (.left, S) => InRange S (ns.take j)
  | (.right, S) => InRange S (ns.drop j)

/-- the invariant: `Idx` has `d+1` positions, a left set at position `j` is in range for the first
    `j` modes, a right set at position `j` for the modes `j … d-1` -/
def Inv (ns : List Nat) (Idx : IdxState) : Prop :=
  Idx.length = ns.length + 1 ∧ ∀ j, (h : j < Idx.length) → Good ns j Idx[j]

/-- the array before the initialisation loop: `Idx[0] = zeros((1,0))`, `Idx[d] = zeros((0,1))`,
    the `None` entries are modelled by empty right sets (an `init` step reading one of them admits
    no pivot at all) -/
def init0 (d : Nat) : IdxState :=
  (Side.left, [[]]) :: (List.replicate (d - 1) (Side.right, []) ++ [(Side.right, [[]])])

theorem init0_length {d : Nat} (hd : 1 ≤ d) : (init0 d).length = d + 1 := by
  simp [init0]; omega

theorem sideAt_eq_some {Idx : IdxState} {j : Nat} {sd : Side} (h : sideAt Idx j = some sd) :
    ∃ hj : j < Idx.length, Idx[j] = (sd, setsAt Idx j) := by
  unfold sideAt at h
  rcases Nat.lt_or_ge j Idx.length with hj | hj
  · refine ⟨hj, ?_⟩
    rw [List.getElem?_eq_getElem hj] at h
    simp only [Option.map_some, Option.some.injEq] at h
    unfold setsAt
    rw [cr_getD_lt _ hj, ← h]
  · rw [List.getElem?_eq_none hj] at h; simp at h

theorem inv_left {ns : List Nat} {Idx : IdxState} {j : Nat} (hI : Inv ns Idx)
    (h : sideAt Idx j = some Side.left) : InRange (setsAt Idx j) (ns.take j) := by
  obtain ⟨hj, he⟩ := sideAt_eq_some h
  have := hI.2 j hj
  rw [he] at this; exact this

theorem inv_right {ns : List Nat} {Idx : IdxState} {j : Nat} (hI : Inv ns Idx)
    (h : sideAt Idx j = some Side.right) : InRange (setsAt Idx j) (ns.drop j) := by
  obtain ⟨hj, he⟩ := sideAt_eq_some h
  have := hI.2 j hj
  rw [he] at this; exact this

theorem inv_set {ns : List Nat} {Idx : IdxState} {i : Nat} {v : Side × List (List Nat)}
    (hI : Inv ns Idx) (hv : Good ns i v) : Inv ns (Idx.set i v) := by
  refine ⟨by simpa using hI.1, fun j hj => ?_⟩
  rw [List.getElem_set]
  split
  · next h => subst h; exact hv
  · exact hI.2 j (by simpa using hj)

theorem init0_getElem {d j : Nat} (hd : 1 ≤ d) (hj : j < (init0 d).length) :
    (init0 d)[j] = if j = 0 then (Side.left, [[]]) else if j < d then (Side.right, [])
      else (Side.right, [[]]) := by
  have hl := init0_length hd
  simp only [init0, List.getElem_cons, List.getElem_append, List.length_replicate,
    List.getElem_replicate]
  split
  · rfl
  · split
    · rw [if_pos (by omega)]
    · rw [if_neg (by omega), dif_pos (by omega)]

theorem inv_init0 {ns : List Nat} (hd : 1 ≤ ns.length) : Inv ns (init0 ns.length) := by
  refine ⟨init0_length hd, fun j hj => ?_⟩
  rw [init0_getElem hd hj]
  rw [init0_length hd] at hj
  split
  · next h =>
    subst h
    intro s hs
    simp only [List.mem_singleton] at hs
    subst hs; exact cr_rowOk_nil
  · split
    · intro s hs; simp at hs
    · have hj' : j = ns.length := by omega
      subst hj'
      intro s hs
      simp only [List.mem_singleton] at hs
      subst hs
      rw [List.drop_length]; exact cr_rowOk_nil

/-- **the invariant is preserved by every admissible step** -/
theorem inv_step {ns : List Nat} {Idx : IdxState} {s : Step} (hI : Inv ns Idx)
    (ha : Admissible ns Idx s) : Inv ns (step ns Idx s) := by
  obtain ⟨kind, piv⟩ := s
  obtain ⟨hs, hp⟩ := ha
  cases kind with
  | init k =>
    obtain ⟨_, _, hside⟩ := hs
    exact inv_set hI (rightInit_inRange (inv_right hI hside) rfl hp)
  | lr k =>
    obtain ⟨_, hside, _⟩ := hs
    exact inv_set hI (leftUpdate_inRange (inv_left hI hside) rfl hp)
  | rl k =>
    obtain ⟨_, _, hside⟩ := hs
    exact inv_set hI (rightUpdate_inRange (inv_right hI hside) (Nat.le_refl _) rfl hp)

/-- **in any state satisfying the invariant, a left set at `k` and a right set at `k+2` give an
    index matrix in range** -/
theorem calls_inRange {ns : List Nat} {Idx : IdxState} {k : Nat} (hI : Inv ns Idx)
    (hk : k + 2 ≤ ns.length) (hl : sideAt Idx k = some Side.left)
    (hr : sideAt Idx (k + 2) = some Side.right) :
    InRange (evalIndex (setsAt Idx k) (ns.getD k 0) (ns.getD (k + 1) 0) (setsAt Idx (k + 2))) ns :=
  evalIndex_inRange (inv_left hI hl) (inv_right hI hr) hk rfl rfl

theorem call_inRange {ns : List Nat} {Idx : IdxState} {s : Step} (hI : Inv ns Idx)
    (ha : Admissible ns Idx s) : ∀ M ∈ (call ns Idx s).toList, InRange M ns := by
  obtain ⟨kind, piv⟩ := s
  obtain ⟨hs, _⟩ := ha
  cases kind with
  | init k => intro M hM; simp [call] at hM
  | lr k =>
    intro M hM
    simp only [call, Option.toList_some, List.mem_singleton] at hM
    subst hM; exact calls_inRange hI hs.1 hs.2.1 hs.2.2
  | rl k =>
    intro M hM
    simp only [call, Option.toList_some, List.mem_singleton] at hM
    subst hM; exact calls_inRange hI hs.1 hs.2.1 hs.2.2

/-- **every function call along every admissible run is safe, and the invariant holds at the end** -/
theorem run_inRange {ns : List Nat} {Idx : IdxState} {steps : List Step} (hI : Inv ns Idx)
    (ha : AdmissibleRun ns Idx steps) :
    (∀ M ∈ calls ns Idx steps, InRange M ns) ∧ Inv ns (run ns Idx steps) := by
  induction steps generalizing Idx with
  | nil => exact ⟨fun M hM => by simp [calls] at hM, hI⟩
  | cons s ss ih =>
    obtain ⟨h1, h2⟩ := ha
    obtain ⟨ihc, ihi⟩ := ih (inv_step hI h1) h2
    refine ⟨fun M hM => ?_, ihi⟩
    simp only [calls, List.mem_append] at hM
    rcases hM with hM | hM
    · exact call_inRange hI h1 M hM
    · exact ihc M hM

/-! ### the actual loop schedule of `dmrg_cross`

The side conditions of `Admissible` need not be assumed for the schedule the Python code runs: the
tags form a *frontier* (`left` up to position `m`, `right` beyond), the initialisation keeps the
frontier at `0`, `lr k` moves it from `k` to `k+1`, `rl k` from `k+1` back to `k`. -/

def Frontier (m : Nat) (Idx : IdxState) : Prop :=
  ∀ j, (h : j < Idx.length) → Idx[j].1 = if j ≤ m then Side.left else Side.right

theorem frontier_sideAt {m : Nat} {Idx : IdxState} (hF : Frontier m Idx) {j : Nat}
    (hj : j < Idx.length) : sideAt Idx j = some (if j ≤ m then Side.left else Side.right) := by
  unfold sideAt; rw [List.getElem?_eq_getElem hj]; simp [hF j hj]

theorem frontier_init0 {d : Nat} (hd : 1 ≤ d) : Frontier 0 (init0 d) := by
  intro j hj
  rw [init0_getElem hd hj]
  split
  · next h => subst h; rfl
  · next h =>
    have : ¬ j ≤ 0 := by omega
    rw [if_neg this]
    split <;> rfl

theorem frontier_set {m m' i : Nat} {Idx : IdxState} {v : Side × List (List Nat)}
    (hF : Frontier m Idx) (hv : v.1 = if i ≤ m' then Side.left else Side.right)
    (hm : ∀ j, j ≠ i → (j ≤ m ↔ j ≤ m')) : Frontier m' (Idx.set i v) := by
  intro j hj
  rw [List.getElem_set]
  split
  · next h => subst h; exact hv
  · next h =>
    rw [hF j (by simpa using hj)]
    have := hm j (fun e => h e.symm)
    by_cases hjm : j ≤ m
    · rw [if_pos hjm, if_pos (this.mp hjm)]
    · rw [if_neg hjm, if_neg (fun h' => hjm (this.mpr h'))]

theorem step_length (ns : List Nat) (Idx : IdxState) (s : Step) :
    (step ns Idx s).length = Idx.length := by
  obtain ⟨kind, piv⟩ := s
  cases kind <;> simp [step]

theorem run_append (ns : List Nat) (Idx : IdxState) (a b : List Step) :
    run ns Idx (a ++ b) = run ns (run ns Idx a) b := by
  simp [run, List.foldl_append]

theorem run_length (ns : List Nat) (Idx : IdxState) (steps : List Step) :
    (run ns Idx steps).length = Idx.length := by
  induction steps generalizing Idx with
  | nil => rfl
  | cons s ss ih =>
    show (run ns (step ns Idx s) ss).length = _
    rw [ih, step_length]

theorem pivRun_append {ns : List Nat} {Idx : IdxState} {a b : List Step} :
    PivRun ns Idx (a ++ b) ↔ PivRun ns Idx a ∧ PivRun ns (run ns Idx a) b := by
  induction a generalizing Idx with
  | nil => simp [PivRun, run]
  | cons s ss ih =>
    simp only [List.cons_append, PivRun, ih, and_assoc]
    rfl

theorem admissibleRun_append {ns : List Nat} {Idx : IdxState} {a b : List Step} :
    AdmissibleRun ns Idx (a ++ b) ↔ AdmissibleRun ns Idx a ∧ AdmissibleRun ns (run ns Idx a) b := by
  induction a generalizing Idx with
  | nil => simp [AdmissibleRun, run]
  | cons s ss ih =>
    simp only [List.cons_append, AdmissibleRun, ih, and_assoc]
    rfl

/-- a segment of the schedule: started with the frontier at `m` and pivots in bounds, all its steps
    are admissible and it ends with the frontier at `m'` -/
def Seg (ns : List Nat) (ks : List Kind) (m m' : Nat) : Prop :=
  ∀ (Idx : IdxState) (steps : List Step), Idx.length = ns.length + 1 → Frontier m Idx →
    steps.map Prod.fst = ks → PivRun ns Idx steps →
    AdmissibleRun ns Idx steps ∧ Frontier m' (run ns Idx steps)

theorem seg_nil (ns : List Nat) (m : Nat) : Seg ns [] m m := by
  intro Idx steps _ hF hk _
  have : steps = [] := by simpa using hk
  subst this
  exact ⟨trivial, hF⟩

theorem seg_append {ns : List Nat} {ks1 ks2 : List Kind} {m m1 m2 : Nat}
    (h1 : Seg ns ks1 m m1) (h2 : Seg ns ks2 m1 m2) : Seg ns (ks1 ++ ks2) m m2 := by
  intro Idx steps hlen hF hk hp
  obtain ⟨a, b, rfl, ha, hb⟩ := List.map_eq_append_iff.mp hk
  obtain ⟨hpa, hpb⟩ := pivRun_append.mp hp
  obtain ⟨hA, hFa⟩ := h1 Idx a hlen hF ha hpa
  obtain ⟨hB, hFb⟩ := h2 (run ns Idx a) b (by rw [run_length, hlen]) hFa hb hpb
  exact ⟨admissibleRun_append.mpr ⟨hA, hB⟩, by rw [run_append]; exact hFb⟩

theorem seg_single {ns : List Nat} {kind : Kind} {m m' : Nat}
    (hs : ∀ Idx : IdxState, Idx.length = ns.length + 1 → Frontier m Idx → SideOk ns Idx kind)
    (hf : ∀ (Idx : IdxState) (piv : List Nat), Idx.length = ns.length + 1 → Frontier m Idx →
      Frontier m' (step ns Idx (kind, piv))) : Seg ns [kind] m m' := by
  intro Idx steps hlen hF hk hp
  obtain ⟨⟨kd, piv⟩, rfl, hkd⟩ := List.map_eq_singleton_iff.mp hk
  simp only at hkd
  subst hkd
  exact ⟨⟨⟨hs Idx hlen hF, hp.1⟩, trivial⟩, hf Idx piv hlen hF⟩

theorem seg_init {ns : List Nat} {k : Nat} (h1 : 1 ≤ k) (h2 : k + 1 ≤ ns.length) :
    Seg ns [Kind.init k] 0 0 := by
  apply seg_single
  · intro Idx hlen hF
    refine ⟨h1, h2, ?_⟩
    rw [frontier_sideAt hF (by omega), if_neg (by omega)]
  · intro Idx piv _ hF
    exact frontier_set hF (by rw [if_neg (by omega)]) (fun _ _ => Iff.rfl)

theorem seg_lr {ns : List Nat} {k : Nat} (h : k + 2 ≤ ns.length) :
    Seg ns [Kind.lr k] k (k + 1) := by
  apply seg_single
  · intro Idx hlen hF
    refine ⟨h, ?_, ?_⟩
    · rw [frontier_sideAt hF (by omega), if_pos (Nat.le_refl _)]
    · rw [frontier_sideAt hF (by omega), if_neg (by omega)]
  · intro Idx piv _ hF
    exact frontier_set hF (by rw [if_pos (Nat.le_refl _)]) (fun j hj => by omega)

theorem seg_rl {ns : List Nat} {k : Nat} (h : k + 2 ≤ ns.length) :
    Seg ns [Kind.rl k] (k + 1) k := by
  apply seg_single
  · intro Idx hlen hF
    refine ⟨h, ?_, ?_⟩
    · rw [frontier_sideAt hF (by omega), if_pos (by omega)]
    · rw [frontier_sideAt hF (by omega), if_neg (by omega)]
  · intro Idx piv _ hF
    exact frontier_set hF (by rw [if_neg (by omega)]) (fun j hj => by omega)

/-- `for k in range(d-1,0,-1)` -/
def initKinds (d : Nat) : List Kind := ((List.range (d - 1)).map (fun i => Kind.init (i + 1))).reverse
/-- `for k in range(d-1)` -/
def lrKinds (d : Nat) : List Kind := (List.range (d - 1)).map Kind.lr
/-- `for k in range(d-2,-1,-1)` -/
def rlKinds (d : Nat) : List Kind := ((List.range (d - 1)).map Kind.rl).reverse
/-- one sweep -/
def sweepKinds (d : Nat) : List Kind := lrKinds d ++ rlKinds d
/-- initialisation followed by `nswp` sweeps (the loop may `break` after any sweep: take a smaller
    `nswp`) -/
def schedule (d nswp : Nat) : List Kind :=
  initKinds d ++ (List.replicate nswp (sweepKinds d)).flatten

theorem seg_initKinds {ns : List Nat} {j : Nat} (hj : j + 1 ≤ ns.length) :
    Seg ns ((List.range j).map (fun i => Kind.init (i + 1))).reverse 0 0 := by
  induction j with
  | zero => exact seg_nil ns 0
  | succ j ih =>
    rw [List.range_succ, List.map_append, List.reverse_append]
    exact seg_append (seg_init (by omega) (by omega)) (ih (by omega))

theorem seg_lrKinds {ns : List Nat} {j : Nat} (hj : j + 1 ≤ ns.length) :
    Seg ns ((List.range j).map Kind.lr) 0 j := by
  induction j with
  | zero => exact seg_nil ns 0
  | succ j ih =>
    rw [List.range_succ, List.map_append]
    exact seg_append (ih (by omega)) (seg_lr (by omega))

theorem seg_rlKinds {ns : List Nat} {j : Nat} (hj : j + 1 ≤ ns.length) :
    Seg ns ((List.range j).map Kind.rl).reverse j 0 := by
  induction j with
  | zero => exact seg_nil ns 0
  | succ j ih =>
    rw [List.range_succ, List.map_append, List.reverse_append]
    exact seg_append (seg_rl (by omega)) (ih (by omega))

theorem seg_sweeps {ns : List Nat} (hd : 1 ≤ ns.length) (nswp : Nat) :
    Seg ns (List.replicate nswp (sweepKinds ns.length)).flatten 0 0 := by
  induction nswp with
  | zero => exact seg_nil ns 0
  | succ n ih =>
    rw [List.replicate_succ, List.flatten_cons]
    exact seg_append
      (seg_append (seg_lrKinds (j := ns.length - 1) (by omega))
        (seg_rlKinds (j := ns.length - 1) (by omega))) ih

theorem seg_schedule {ns : List Nat} (hd : 1 ≤ ns.length) (nswp : Nat) :
    Seg ns (schedule ns.length nswp) 0 0 :=
  seg_append (seg_initKinds (j := ns.length - 1) (by omega)) (seg_sweeps hd nswp)

/-- **for the loop schedule of the Python code the pivot bounds alone make every step admissible** -/
theorem schedule_admissible {ns : List Nat} {nswp : Nat} {steps : List Step} (hd : 1 ≤ ns.length)
    (hk : steps.map Prod.fst = schedule ns.length nswp)
    (hp : PivRun ns (init0 ns.length) steps) : AdmissibleRun ns (init0 ns.length) steps :=
  (seg_schedule hd nswp (init0 ns.length) steps (init0_length hd) (frontier_init0 hd) hk hp).1

/-- **C14, index safety**: along the run of `dmrg_cross` (initialisation and any number of sweeps,
    arbitrary `_maxvol` outputs that are row numbers of the matrix given to `_maxvol`) every index
    matrix handed to the user function has rows of length `d` with column `j` inside `[0, N[j])`,
    and the invariant holds at the end -/
theorem dmrg_cross_calls_inRange {ns : List Nat} {nswp : Nat} {steps : List Step}
    (hd : 1 ≤ ns.length) (hk : steps.map Prod.fst = schedule ns.length nswp)
    (hp : PivRun ns (init0 ns.length) steps) :
    (∀ M ∈ calls ns (init0 ns.length) steps, InRange M ns) ∧
      Inv ns (run ns (init0 ns.length) steps) :=
  run_inRange (inv_init0 hd) (schedule_admissible hd hk hp)

/-! ### (7) concrete instances (non-vacuity) and the necessity of the pivot bounds -/

instance decPivOk (ns : List Nat) (Idx : IdxState) : (s : Step) → Decidable (PivOk ns Idx s)
  | (.init k, piv) =>
      inferInstanceAs (Decidable (∀ p ∈ piv, p < (setsAt Idx (k + 1)).length * ns.getD k 0))
  | (.lr k, piv) => inferInstanceAs (Decidable (∀ p ∈ piv, p < (setsAt Idx k).length * ns.getD k 0))
  | (.rl k, piv) =>
      inferInstanceAs (Decidable (∀ p ∈ piv, p < ns.getD (k + 1) 0 * (setsAt Idx (k + 2)).length))

instance decPivRun (ns : List Nat) : (Idx : IdxState) → (steps : List Step) →
    Decidable (PivRun ns Idx steps)
  | _, [] => inferInstanceAs (Decidable True)
  | Idx, s :: ss =>
      have := decPivRun ns (step ns Idx s) ss
      inferInstanceAs (Decidable (PivOk ns Idx s ∧ PivRun ns (step ns Idx s) ss))

-- the single updates, `ns = [3,2,4]`
example : leftUpdate [[]] 3 [2, 0] = [[2], [0]] := by decide
example : leftUpdate [[2], [0]] 2 [3, 0] = [[0, 1], [2, 0]] := by decide
example : rightInit [[]] 4 [3, 1] = [[3], [1]] := by decide
example : rightInit [[3], [1]] 2 [2, 1] = [[0, 1], [1, 3]] := by decide
example : rightUpdate [[2], [3]] 2 [3, 0] = [[1, 3], [0, 2]] := by decide
example : InRange (leftUpdate [[2], [0]] 2 [3, 0]) ([3, 2, 4].take 2) :=
  leftUpdate_inRange (ns := [3, 2, 4]) (k := 1) (by decide) rfl (by decide)
example : InRange (rightUpdate [[2], [3]] 2 [3, 0]) ([3, 2, 4].drop 1) :=
  rightUpdate_inRange (ns := [3, 2, 4]) (k := 0) (by decide) (by decide) rfl (by decide)
example : InRange (rightInit [[3], [1]] 2 [2, 1]) ([3, 2, 4].drop 1) :=
  rightInit_inRange (ns := [3, 2, 4]) (k := 1) (by decide) rfl (by decide)

-- the index matrix of the supercore `(1,2)`: 16 rows of length 3, all in range
example : (evalIndex [[2], [0]] 2 4 [[]]).length = 16 := by decide
example : inRangeB (evalIndex [[2], [0]] 2 4 [[]]) [3, 2, 4] = true := by decide
example : InRange (evalIndex [[2], [0]] 2 4 [[]]) [3, 2, 4] :=
  evalIndex_inRange (k := 1) (by decide) (by decide) (by decide) rfl rfl
example : (evalIndex [[2], [0]] 2 4 [[]]).take 5 =
    [[2, 0, 0], [2, 0, 1], [2, 0, 2], [2, 0, 3], [2, 1, 0]] := by decide

/-- a complete run (initialisation and one sweep) for `N = [3,2,4]` -/
def exSteps : List Step :=
  [(.init 2, [3, 1]), (.init 1, [2, 1]), (.lr 0, [2, 0]), (.lr 1, [3, 0]),
   (.rl 1, [2, 3]), (.rl 0, [3, 0])]

example : exSteps.map Prod.fst = schedule 3 1 := by decide
example : PivRun [3, 2, 4] (init0 3) exSteps := by decide
example : run [3, 2, 4] (init0 3) exSteps =
    [(.left, [[]]), (.right, [[1, 3], [0, 2]]), (.right, [[2], [3]]), (.right, [[]])] := by decide
example : (calls [3, 2, 4] (init0 3) exSteps).map List.length = [12, 16, 16, 12] := by decide
example : (calls [3, 2, 4] (init0 3) exSteps).all (fun M => inRangeB M [3, 2, 4]) = true := by
  decide
example : ∀ M ∈ calls [3, 2, 4] (init0 3) exSteps, InRange M [3, 2, 4] :=
  (dmrg_cross_calls_inRange (ns := [3, 2, 4]) (nswp := 1) (by decide) (by decide) (by decide)).1

/-! NEGATIVE examples: the pivot bounds cannot be dropped. -/

/-- pivot `4 ≥ L.length * n = 2 * 2`: `np.unravel_index` would raise; the model produces a row of
    the wrong length -/
example : leftUpdate [[1], [0]] 2 [4] = [[0]] ∧
    ¬ InRange (leftUpdate [[1], [0]] 2 [4]) ([3, 2, 4].take 2) := by decide

/-- pivot `4 ≥ n * r = 4 * 1`: the decoded mode index `4` is outside `[0, 4)` -/
example : rightUpdate [[]] 1 [4] = [[4]] ∧
    ¬ InRange (rightUpdate [[]] 1 [4]) ([3, 2, 4].drop 2) := by decide

/-- `r` larger than the number of stored right multi-indices: pivot `1 < n * r = 2 * 2` but the
    selected multi-index does not exist -/
example : rightUpdate [[3]] 2 [1] = [[0]] ∧
    ¬ InRange (rightUpdate [[3]] 2 [1]) ([3, 2, 4].drop 1) := by decide

/-- pivot `4 ≥ R.length * n = 2 * 2` in the initialisation -/
example : rightInit [[3], [0]] 2 [4] = [[0]] ∧
    ¬ InRange (rightInit [[3], [0]] 2 [4]) ([3, 2, 4].drop 1) := by decide

/-- an out-of-range set propagates into the call: the user function would be evaluated at column
    value `4` in a mode of size `4` -/
example : ¬ InRange (evalIndex [[]] 3 2 (rightUpdate [[]] 1 [4])) [3, 2, 4] := by decide

/-- a run whose last pivot violates the bound (`4 ≥ N[1] * rank[2] = 2 * 2`): `PivRun` fails and
    `Idx[1]` is left with the multi-index `[2, 2]`, whose first entry is outside mode 1 of size 2 -/
example : ¬ PivRun [3, 2, 4] (init0 3) (exSteps.take 5 ++ [(.rl 0, [4])]) ∧
    ¬ Inv [3, 2, 4] (run [3, 2, 4] (init0 3) (exSteps.take 5 ++ [(.rl 0, [4])])) := by
  refine ⟨by decide, fun h => ?_⟩
  have hrun : run [3, 2, 4] (init0 3) (exSteps.take 5 ++ [(.rl 0, [4])]) =
      [(.left, [[]]), (.right, [[2, 2]]), (.right, [[2], [3]]), (.right, [[]])] := by decide
  rw [hrun] at h
  have h1 : InRange [[2, 2]] ([3, 2, 4].drop 1) := h.2 1 (by decide)
  revert h1
  decide

end TT.C14
