import TTProps.C07
import TTProps.C02c
import TTModel.NormQR
import TTLemmas.ManifoldL
import Mathlib.NumberTheory.Zsqrtd.Basic

/-!
# C07d — `TT.norm()` on the QR branch equals the Frobenius norm (and the autograd / Gram branch)

Model: `TTModel/NormQR.lean` (`normSqQR cj qr cs = lastCoreSq cj (lrOrth qr cs)`, `normSqQRM` for TT-matrices), the QR
factorisation being an ORACLE parameter.  Contract of the oracle (`OrthoQR`, resp. `OrthoQRc cj` for a conjugation `cj`):
`Q·R = M` entrywise (`Exact`) and the columns of `Q` are orthonormal, `Σ_p Q[p,k]·cj(Q[p,k']) = δ_{kk'}`.

* `lrOrth_leftOrth`      : every core but the last of `lrOrth qr cs` is left-orthonormal;
* `sq_of_leftOrth_train` : a train whose cores but the last are left-orthonormal has `Σ full² = ‖last core‖²`;
* `normSqQR_eq`          : `normSqQR id qr cs = Σ_{is} full cs is · full cs is`;
* `normSqQR_eq_normSq`   : the QR branch and the Gram-sweep (autograd) branch of `norm(squared=True)` agree;
* `normSqQRM_eq`, `normSqQRM_eq_normSq` : the same for TT-matrices (row / column modes merged by the sweep);
* `normSqQRc_eq`, … : the same with a conjugation `cj` (additive, multiplicative, `cj 1 = 1`).

Everything holds for every order `d ≥ 0` (for `d = 0` both sides are `1`), all mode sizes, all ranks.
All helper names carry the prefix `nq_`.
-/
namespace TT.C07
open TT TT.Decomp TT.C02

set_option linter.unusedSectionVars false

variable {α : Type} [CommRing α]

/-! ### (1) the oracle contracts -/

/-- orthonormal QR oracle (real scalars): `Q·R = M` and `QᵀQ = I` on the `r` returned columns -/
def OrthoQR (qr : Oracle α) : Prop :=
  Exact qr ∧ ∀ rows cols (M : Mat α) k k', k < (qr rows cols M).r → k' < (qr rows cols M).r →
    sumTo rows (fun p => (qr rows cols M).left p k * (qr rows cols M).left p k') = if k = k' then 1 else 0

/-- orthonormal QR oracle with a conjugation: `Q·R = M` and `Σ_p Q[p,k]·cj(Q[p,k']) = δ_{kk'}` -/
def OrthoQRc (cj : α → α) (qr : Oracle α) : Prop :=
  Exact qr ∧ ∀ rows cols (M : Mat α) k k', k < (qr rows cols M).r → k' < (qr rows cols M).r →
    sumTo rows (fun p => (qr rows cols M).left p k * cj ((qr rows cols M).left p k')) = if k = k' then 1 else 0

theorem nq_orthoQR_iff (qr : Oracle α) : OrthoQR qr ↔ OrthoQRc id qr := Iff.rfl

/-- the contract written with the conjugate on the first factor (`QᴴQ = I`) is the same contract -/
theorem nq_orthoQRc_iff' (cj : α → α) (qr : Oracle α) :
    OrthoQRc cj qr ↔ (Exact qr ∧ ∀ rows cols (M : Mat α) k k', k < (qr rows cols M).r → k' < (qr rows cols M).r →
      sumTo rows (fun p => cj ((qr rows cols M).left p k) * (qr rows cols M).left p k') = if k = k' then 1 else 0) := by
  constructor
  · rintro ⟨he, ho⟩
    refine ⟨he, fun rows cols M k k' hk hk' => ?_⟩
    rw [sumTo_congr (g := fun p => (qr rows cols M).left p k' * cj ((qr rows cols M).left p k))
      (fun p _ => mul_comm _ _), ho rows cols M k' k hk' hk]
    simp [eq_comm]
  · rintro ⟨he, ho⟩
    refine ⟨he, fun rows cols M k k' hk hk' => ?_⟩
    rw [sumTo_congr (g := fun p => cj ((qr rows cols M).left p k') * (qr rows cols M).left p k)
      (fun p _ => mul_comm _ _), ho rows cols M k' k hk' hk]
    simp [eq_comm]

/-! ### left-orthonormal tensor cores -/

/-- `Σ_{a,i} c[a,i,0,b] · cj c[a,i,0,b'] = δ_{bb'}` (tensor slice `j = 0`) -/
def nq_LeftOrthT (cj : α → α) (c : Core α) : Prop :=
  ∀ b b', b < c.r1 → b' < c.r1 →
    sumTo c.r0 (fun a => sumTo c.m (fun i => c.get a i 0 b * cj (c.get a i 0 b'))) = if b = b' then 1 else 0

/-- every core but the last is left-orthonormal -/
def nq_LeftOrthInit (cj : α → α) : List (Core α) → Prop
  | [] => True
  | c :: cs => (cs ≠ [] → nq_LeftOrthT cj c) ∧ nq_LeftOrthInit cj cs

/-- for a tensor core (`n = 1`) and real scalars this is `LeftOrth` of `TTLemmas/ManifoldL.lean` -/
theorem nq_leftOrthT_iff (c : Core α) (hn : c.n = 1) : nq_LeftOrthT id c ↔ Manifold.LeftOrth c := by
  unfold nq_LeftOrthT Manifold.LeftOrth
  simp only [hn, sumTo_one, id]

theorem nq_leftOrthInit_iff (cs : List (Core α)) (ht : IsTensor cs) :
    nq_LeftOrthInit id cs ↔ Manifold.LeftOrthInit cs := by
  induction cs with
  | nil => exact Iff.rfl
  | cons c cs ih =>
    cases cs with
    | nil => simp [nq_LeftOrthInit, Manifold.LeftOrthInit]
    | cons c' cs' =>
      simp only [nq_LeftOrthInit, Manifold.LeftOrthInit] at ih ⊢
      rw [ih ht.2, nq_leftOrthT_iff c ht.1]
      simp

theorem nq_leftOrthInit_append (cj : α → α) (init : List (Core α)) (last : Core α)
    (h : ∀ c ∈ init, nq_LeftOrthT cj c) : nq_LeftOrthInit cj (init ++ [last]) := by
  induction init with
  | nil => simp [nq_LeftOrthInit]
  | cons c cs ih =>
    refine ⟨fun _ => h c (by simp), ih (fun x hx => h x (by simp [hx]))⟩

/-! ### (2) the cores produced by the QR sweep are left-orthonormal -/

theorem nq_lrOrthGo_ne (qr : Oracle α) (c : Core α) (rest : List (Core α)) : lrOrthGo qr c rest ≠ [] := by
  cases rest <;> simp [lrOrthGo]

theorem nq_lrOrthGo_leftOrth (cj : α → α) (qr : Oracle α) (h : OrthoQRc cj qr) :
    ∀ (rest : List (Core α)) (c : Core α), nq_LeftOrthInit cj (lrOrthGo qr c rest) := by
  intro rest
  induction rest with
  | nil => intro c; simp [lrOrthGo, nq_LeftOrthInit]
  | cons nxt rest' ih =>
    intro c
    simp only [lrOrthGo]
    refine ⟨fun _ => ?_, ih _⟩
    intro b b' hb hb'
    have e := h.2 (c.r0 * c.m) c.r1 (fun p b => c.get (p / c.m) (p % c.m) 0 b) b b' hb hb'
    rw [sumTo_mul] at e
    exact e

/-- **every core of `lrOrth qr cs` except the last is left-orthonormal** (with a conjugation) -/
theorem lrOrth_leftOrthc (cj : α → α) (qr : Oracle α) (h : OrthoQRc cj qr) (cs : List (Core α)) :
    nq_LeftOrthInit cj (lrOrth qr cs) := by
  cases cs with
  | nil => trivial
  | cons c rest => exact nq_lrOrthGo_leftOrth cj qr h rest c

/-- **every core of `lrOrth qr cs` except the last is left-orthonormal** (`LeftOrthInit` of the manifold lemmas) -/
theorem lrOrth_leftOrth (qr : Oracle α) (h : OrthoQR qr) (cs : List (Core α)) (ht : IsTensor cs) :
    Manifold.LeftOrthInit (lrOrth qr cs) :=
  (nq_leftOrthInit_iff _ (lrOrth_isTensor qr cs ht)).mp (lrOrth_leftOrthc id qr h cs)

/-! ### (3) the Frobenius norm of a left-orthonormal train is the norm of its last core -/

/-- Gram matrix of the tail started at the rank indices `(a, a')`: `Σ_is chain a · cj (chain a')` -/
def nq_G (cj : α → α) (cs : List (Core α)) (a a' : Nat) : α :=
  sumIdx (modesM cs) (fun is => chain cs (tIdx is) a 0 * cj (chain cs (tIdx is) a' 0))

theorem nq_G_cons (cj : α → α) (hadd : ∀ a b, cj (a + b) = cj a + cj b)
    (hmul : ∀ a b, cj (a * b) = cj a * cj b) (c : Core α) (cs : List (Core α)) (a a' : Nat) :
    nq_G cj (c :: cs) a a' =
    sumTo c.m (fun i => sumTo c.r1 (fun k => sumTo c.r1 (fun k' =>
      (c.get a i 0 k * cj (c.get a' i 0 k')) * nq_G cj cs k k'))) := by
  unfold nq_G
  simp only [modesM, List.map_cons, sumIdx]
  refine sumTo_congr fun i _ => ?_
  simp only [sw_tIdx_cons, chain]
  rw [sw_sumIdx_congr (g := fun is => sumTo c.r1 (fun k => sumTo c.r1 (fun k' =>
        (c.get a i 0 k * cj (c.get a' i 0 k')) *
          (chain cs (tIdx is) k 0 * cj (chain cs (tIdx is) k' 0)))))]
  · rw [sw_sumIdx_sumTo]
    refine sumTo_congr fun k _ => ?_
    rw [sw_sumIdx_sumTo]
    refine sumTo_congr fun k' _ => ?_
    rw [sw_sumIdx_mul_left]
  · intro is
    rw [sw_cj_sumTo cj hadd, sumTo_mul_sumTo]
    refine sumTo_congr fun k _ => sumTo_congr fun k' _ => ?_
    rw [hmul]; ring

/-- contracting a left-orthonormal core with its conjugate gives the identity on the bond -/
theorem nq_trace_step (cj : α → α) (hadd : ∀ a b, cj (a + b) = cj a + cj b)
    (hmul : ∀ a b, cj (a * b) = cj a * cj b) (c : Core α) (cs : List (Core α)) (ho : nq_LeftOrthT cj c) :
    sumTo c.r0 (fun a => nq_G cj (c :: cs) a a) = sumTo c.r1 (fun k => nq_G cj cs k k) := by
  simp only [nq_G_cons cj hadd hmul]
  rw [sw_comm3]
  rw [sumTo_congr (fun i _ => sumTo_congr (fun k _ => sumTo_congr (fun k' _ => sumTo_mul_right _ _ _)))]
  rw [sw_comm2]
  refine sumTo_congr fun k hk => ?_
  rw [sumTo_congr (g := fun k' => (if k = k' then 1 else 0) * nq_G cj cs k k')]
  · rw [sumTo_single k hk]
    · simp
    · intro k' _ hne
      have : ¬ (k = k') := fun e => hne e.symm
      simp [this]
  · intro k' hk'
    rw [sumTo_mul_right, sumTo_comm, ho k k' hk hk']

theorem nq_coreSq_tensor (cj : α → α) (c : Core α) (hn : c.n = 1) (h1 : c.r1 = 1) :
    coreSq cj c = sumTo c.r0 (fun a => sumTo c.m (fun i => c.get a i 0 0 * cj (c.get a i 0 0))) := by
  unfold coreSq
  simp only [hn, h1, sumTo_one]

theorem nq_G_single (cj : α → α) (c : Core α) (h1 : c.r1 = 1) (a a' : Nat) :
    nq_G cj [c] a a' = sumTo c.m (fun i => c.get a i 0 0 * cj (c.get a' i 0 0)) := by
  simp [nq_G, modesM, sumIdx, tIdx, chain, h1, sumTo_one]

/-- trace of the Gram matrix of a train whose cores but the last are left-orthonormal, any left rank `r` -/
theorem nq_trace_train (cj : α → α) (hadd : ∀ a b, cj (a + b) = cj a + cj b)
    (hmul : ∀ a b, cj (a * b) = cj a * cj b) :
    ∀ (cs : List (Core α)) (r : Nat), cs ≠ [] → WF cs r → IsTensor cs → nq_LeftOrthInit cj cs →
      sumTo r (fun a => nq_G cj cs a a) = lastCoreSq cj cs := by
  intro cs
  induction cs with
  | nil => intro r h; exact absurd rfl h
  | cons c cs ih =>
    intro r _ hwf ht ho
    obtain ⟨hr0, hwf'⟩ := hwf
    subst hr0
    cases cs with
    | nil =>
      have h1 : c.r1 = 1 := hwf'
      simp only [lastCoreSq]
      rw [nq_coreSq_tensor cj c ht.1 h1]
      exact sumTo_congr fun a _ => nq_G_single cj c h1 a a
    | cons c' cs' =>
      rw [nq_trace_step cj hadd hmul c (c' :: cs') (ho.1 (by simp))]
      rw [ih c.r1 (by simp) hwf' ht.2 ho.2]
      rfl

/-- **Frobenius norm of a left-orthonormal tensor train** (with a conjugation; `cs ≠ []`):
`Σ_is full · cj full = Σ last · cj last` -/
theorem sq_of_leftOrth_trainc (cj : α → α) (hadd : ∀ a b, cj (a + b) = cj a + cj b)
    (hmul : ∀ a b, cj (a * b) = cj a * cj b)
    (cs : List (Core α)) (hne : cs ≠ []) (hwf : WF cs 1) (ht : IsTensor cs) (ho : nq_LeftOrthInit cj cs) :
    sumIdx (modesM cs) (fun is => full cs (tIdx is) * cj (full cs (tIdx is))) = lastCoreSq cj cs := by
  have := nq_trace_train cj hadd hmul cs 1 hne hwf ht ho
  rw [sumTo_one] at this
  exact this

theorem nq_lastCoreSq_append (cj : α → α) (init : List (Core α)) (last : Core α) :
    lastCoreSq cj (init ++ [last]) = coreSq cj last := by
  induction init with
  | nil => rfl
  | cons c cs ih =>
    cases cs with
    | nil => rfl
    | cons c' cs' =>
      rw [← ih]
      rfl

/-- **the requested form**: `cs = init ++ [last]`, every core of `init` left-orthonormal (`LeftOrth` of the manifold lemmas),
real scalars -/
theorem sq_of_leftOrth_train (init : List (Core α)) (last : Core α)
    (hwf : WF (init ++ [last]) 1) (ht : IsTensor (init ++ [last])) (ho : ∀ c ∈ init, Manifold.LeftOrth c) :
    sumIdx (modesM (init ++ [last]))
      (fun is => full (init ++ [last]) (tIdx is) * full (init ++ [last]) (tIdx is)) = coreSq id last := by
  rw [← nq_lastCoreSq_append id init last]
  refine sq_of_leftOrth_trainc id (fun _ _ => rfl) (fun _ _ => rfl) _ (by simp) hwf ht ?_
  refine nq_leftOrthInit_append id init last (fun c hc => ?_)
  have htc : c.n = 1 := by
    have h := ((dc_isTensor_append init [last]).mp ht).1
    clear ht hwf ho
    induction init with
    | nil => simp at hc
    | cons x xs ih =>
      rcases List.mem_cons.mp hc with rfl | hx
      · exact h.1
      · exact ih hx h.2
  exact (nq_leftOrthT_iff c htc).mpr (ho c hc)

/-! ### (4) the QR branch of `norm(squared=True)` for TT tensors -/

/-- congruence of `sumIdx` on the in-range multi-indices only -/
theorem nq_sumIdx_congr_range (ns : List Nat) {f g : List Nat → α}
    (h : ∀ ks, List.Forall₂ (· < ·) ks ns → f ks = g ks) : sumIdx ns f = sumIdx ns g := by
  induction ns generalizing f g with
  | nil => exact h [] List.Forall₂.nil
  | cons n ns ih =>
    simp only [sumIdx]
    refine sumTo_congr fun k hk => ih (fun ks hks => h (k :: ks) (List.Forall₂.cons hk hks))

/-- **QR branch of `norm(squared=True)`, with a conjugation**: for an orthonormal QR oracle the result is
`Σ_is full cs is · cj (full cs is)`; every order `d ≥ 0` (`cs = []` gives `1` on both sides) -/
theorem normSqQRc_eq (cj : α → α) (hadd : ∀ a b, cj (a + b) = cj a + cj b)
    (hmul : ∀ a b, cj (a * b) = cj a * cj b) (h1 : cj 1 = 1)
    (qr : Oracle α) (h : OrthoQRc cj qr) (cs : List (Core α)) (hwf : WF cs 1) (ht : IsTensor cs) :
    normSqQR cj qr cs = sumIdx (modesM cs) (fun is => full cs (tIdx is) * cj (full cs (tIdx is))) := by
  cases cs with
  | nil => simp [normSqQR, lrOrth, lastCoreSq, modesM, sumIdx, full, chain, h1]
  | cons c rest =>
    unfold normSqQR
    have hne : lrOrth qr (c :: rest) ≠ [] := nq_lrOrthGo_ne qr c rest
    rw [← sq_of_leftOrth_trainc cj hadd hmul _ hne (lrOrth_WF qr _ 1 hwf) (lrOrth_isTensor qr _ ht)
      (lrOrth_leftOrthc cj qr h _), lrOrth_modes]
    refine nq_sumIdx_congr_range _ (fun is his => ?_)
    rw [lrOrth_full qr h.1 _ is hwf his]

/-- **MAIN (real scalars)**: `normSqQR id qr cs = Σ_is (full cs is)²` for an orthonormal QR oracle
(`hne : cs ≠ []` is not needed) -/
theorem normSqQR_eq (qr : Oracle α) (h : OrthoQR qr) (cs : List (Core α)) (hwf : WF cs 1) (ht : IsTensor cs) :
    normSqQR id qr cs = sumIdx (modesM cs) (fun is => full cs (tIdx is) * full cs (tIdx is)) :=
  normSqQRc_eq id (fun _ _ => rfl) (fun _ _ => rfl) rfl qr h cs hwf ht

/-- for a tensor train the column multi-index of the dense sums of C07 is `[0,…,0]` -/
theorem nq_sumIdx_modesN_tensor (cs : List (Core α)) (ht : IsTensor cs) (is : List Nat)
    (his : List.Forall₂ (· < ·) is (modesM cs)) (g : List (Nat × Nat) → α) :
    sumIdx (modesN cs) (fun js => g (is.zip js)) = g (tIdx is) := by
  induction cs generalizing is g with
  | nil =>
    cases his
    rfl
  | cons c cs ih =>
    simp only [modesM, List.map_cons] at his
    cases his with
    | @cons i _ is' _ _ hr =>
      simp only [modesN, List.map_cons, sumIdx, ht.1, sumTo_one, List.zip_cons_cons]
      exact ih ht.2 is' hr (fun l => g ((i, 0) :: l))

/-- the Frobenius sum of C07 (`normSq_eq`) for a tensor train, written with `tIdx` -/
theorem nq_frob_tensor (cj : α → α) (cs : List (Core α)) (ht : IsTensor cs) :
    sumIdx (modesM cs) (fun is => sumIdx (modesN cs) (fun js =>
      full cs (is.zip js) * cj (full cs (is.zip js)))) =
    sumIdx (modesM cs) (fun is => full cs (tIdx is) * cj (full cs (tIdx is))) :=
  nq_sumIdx_congr_range _ (fun is his =>
    nq_sumIdx_modesN_tensor cs ht is his (fun ij => full cs ij * cj (full cs ij)))

/-- **the QR branch and the Gram-sweep (autograd) branch of `norm(squared=True)` return the same number** (with a conjugation) -/
theorem normSqQRc_eq_normSq (cj : α → α) (hadd : ∀ a b, cj (a + b) = cj a + cj b)
    (hmul : ∀ a b, cj (a * b) = cj a * cj b) (h1 : cj 1 = 1)
    (qr : Oracle α) (h : OrthoQRc cj qr) (cs : List (Core α)) (hwf : WF cs 1) (ht : IsTensor cs) :
    normSqQR cj qr cs = normSq cj cs := by
  rw [normSqQRc_eq cj hadd hmul h1 qr h cs hwf ht, normSq_eq cj hadd hmul h1 cs hwf, nq_frob_tensor cj cs ht]

/-- **real scalars**: `normSqQR id qr cs = normSq id cs` -/
theorem normSqQR_eq_normSq (qr : Oracle α) (h : OrthoQR qr) (cs : List (Core α)) (hwf : WF cs 1) (ht : IsTensor cs) :
    normSqQR id qr cs = normSq id cs :=
  normSqQRc_eq_normSq id (fun _ _ => rfl) (fun _ _ => rfl) rfl qr h cs hwf ht

/-! ### (5) the QR branch for TT-matrices -/

theorem nq_modesM_merge (cs : List (Core α)) :
    modesM (cs.map mergeModes) = List.zipWith (· * ·) (modesM cs) (modesN cs) := by
  induction cs with
  | nil => rfl
  | cons c cs ih =>
    simp only [modesM, modesN, List.map_cons, List.zipWith_cons_cons] at ih ⊢
    rw [ih]
    rfl

/-- a sum over the merged modes `m_k·n_k` is the double sum over rows and columns, the merged index being
`p_k = i_k·n_k + j_k` -/
theorem nq_sumIdx_merge (ms ns : List Nat) (hlen : ms.length = ns.length) (F : List Nat → α) :
    sumIdx (List.zipWith (· * ·) ms ns) F =
    sumIdx ms (fun is => sumIdx ns (fun js => F (dm_mergeIdx ns (is.zip js)))) := by
  induction ms generalizing ns F with
  | nil =>
    cases ns with
    | nil => rfl
    | cons n ns => simp at hlen
  | cons m ms ih =>
    cases ns with
    | nil => simp at hlen
    | cons n ns =>
      have e := sw_S2_cons m n ms ns (fun is js => F (dm_mergeIdx (n :: ns) (is.zip js)))
      unfold sw_S2 at e
      rw [e]
      simp only [List.zipWith_cons_cons, sumIdx]
      rw [sumTo_mul]
      refine sumTo_congr fun i _ => sumTo_congr fun j _ => ?_
      rw [ih ns (by simpa using hlen)]
      rfl

theorem nq_inRange_zip (cs : List (Core α)) (is js : List Nat)
    (hi : List.Forall₂ (· < ·) is (modesM cs)) (hj : List.Forall₂ (· < ·) js (modesN cs)) :
    dm_InRange (is.zip js) cs := by
  induction cs generalizing is js with
  | nil =>
    cases hi
    exact List.Forall₂.nil
  | cons c cs ih =>
    simp only [modesM, modesN, List.map_cons] at hi hj
    cases hi with
    | @cons i _ is' _ hi1 hi' =>
      cases hj with
      | @cons j _ js' _ hj1 hj' =>
        exact List.Forall₂.cons ⟨hi1, hj1⟩ (ih is' js' hi' hj')

/-- **QR branch of `norm(squared=True)` for a TT-matrix, with a conjugation**: the sweep runs on the merged cores and
returns `Σ_{is, js} full cs (is, js) · cj (full cs (is, js))` -/
theorem normSqQRMc_eq (cj : α → α) (hadd : ∀ a b, cj (a + b) = cj a + cj b)
    (hmul : ∀ a b, cj (a * b) = cj a * cj b) (h1 : cj 1 = 1)
    (qr : Oracle α) (h : OrthoQRc cj qr) (cs : List (Core α)) (hwf : WF cs 1) :
    normSqQRM cj qr cs =
    sumIdx (modesM cs) (fun is => sumIdx (modesN cs) (fun js =>
      full cs (is.zip js) * cj (full cs (is.zip js)))) := by
  have e : normSqQRM cj qr cs = normSqQR cj qr (cs.map mergeModes) := rfl
  rw [e, normSqQRc_eq cj hadd hmul h1 qr h _ ((WF_mergeModes cs 1).mpr hwf) (isTensor_mergeModes cs),
    nq_modesM_merge, nq_sumIdx_merge _ _ (by simp [modesM, modesN])]
  refine nq_sumIdx_congr_range _ (fun is his => nq_sumIdx_congr_range _ (fun js hjs => ?_))
  rw [full_mergeModes cs _ (nq_inRange_zip cs is js his hjs)]

/-- **real scalars, TT-matrix**: `normSqQRM id qr cs = Σ_{is, js} (full cs (is, js))²` -/
theorem normSqQRM_eq (qr : Oracle α) (h : OrthoQR qr) (cs : List (Core α)) (hwf : WF cs 1) :
    normSqQRM id qr cs =
    sumIdx (modesM cs) (fun is => sumIdx (modesN cs) (fun js => full cs (is.zip js) * full cs (is.zip js))) :=
  normSqQRMc_eq id (fun _ _ => rfl) (fun _ _ => rfl) rfl qr h cs hwf

/-- the QR branch and the Gram-sweep branch agree on TT-matrices as well -/
theorem normSqQRMc_eq_normSq (cj : α → α) (hadd : ∀ a b, cj (a + b) = cj a + cj b)
    (hmul : ∀ a b, cj (a * b) = cj a * cj b) (h1 : cj 1 = 1)
    (qr : Oracle α) (h : OrthoQRc cj qr) (cs : List (Core α)) (hwf : WF cs 1) :
    normSqQRM cj qr cs = normSq cj cs := by
  rw [normSqQRMc_eq cj hadd hmul h1 qr h cs hwf, normSq_eq cj hadd hmul h1 cs hwf]

theorem normSqQRM_eq_normSq (qr : Oracle α) (h : OrthoQR qr) (cs : List (Core α)) (hwf : WF cs 1) :
    normSqQRM id qr cs = normSq id cs :=
  normSqQRMc_eq_normSq id (fun _ _ => rfl) (fun _ _ => rfl) rfl qr h cs hwf

/-! ### (7) non-vacuity: an orthonormal oracle at every size, concrete instances -/

/-- the full-size identity factorisation `M = I·M` (`Q` the `rows × rows` identity, `R = M`) -/
def nq_idQ : Oracle α := fun rows _ M =>
  { r := rows, left := fun i k => if i = k then 1 else 0, right := fun k j => M k j }

theorem nq_idQ_exact : Exact (nq_idQ (α := α)) := by
  intro rows cols C i j hi _
  show sumTo rows (fun k => (if i = k then 1 else 0) * C k j) = C i j
  rw [sumTo_single i hi]
  · simp
  · intro k _ hne
    have : ¬ (i = k) := fun e => hne e.symm
    simp [this]

theorem nq_idQ_orthoc (cj : α → α) (h0 : cj 0 = 0) (h1 : cj 1 = 1) : OrthoQRc cj (nq_idQ (α := α)) := by
  refine ⟨nq_idQ_exact, ?_⟩
  intro rows cols M k k' hk _
  have hk : k < rows := hk
  show sumTo rows (fun p => (if p = k then 1 else 0) * cj (if p = k' then 1 else 0)) = _
  rw [sumTo_single k hk]
  · by_cases e : k = k' <;> simp [e, h0, h1]
  · intro p _ hne
    simp [hne]

theorem nq_idQ_ortho : OrthoQR (nq_idQ (α := α)) := nq_idQ_orthoc id rfl rfl

/-- an order-3 integer tensor train with modes `[2,2,3]` and ranks `[1,2,4,1]`: both unfoldings factorised by the sweep are
wide (`2 × 2`, `4 × 4`), so the identity oracle of the correspondence run returns `Q = I` -/
def nq_exW : List (Core Int) :=
  [ { r0 := 1, m := 2, n := 1, r1 := 2, get := fun _ i _ b => (i : Int) + 2 * b - 1 },
    { r0 := 2, m := 2, n := 1, r1 := 4, get := fun a i _ b => (a : Int) * i - b + 1 },
    { r0 := 4, m := 3, n := 1, r1 := 1, get := fun a i _ _ => 3 * (a : Int) - i * i } ]

theorem nq_exW_WF : WF nq_exW 1 := ⟨rfl, rfl, rfl, rfl⟩
theorem nq_exW_tensor : IsTensor nq_exW := ⟨rfl, rfl, rfl, trivial⟩

/-- the general theorems instantiated (hypotheses satisfiable) -/
example : normSqQR id nq_idQ nq_exW =
    sumIdx (modesM nq_exW) (fun is => full nq_exW (tIdx is) * full nq_exW (tIdx is)) :=
  normSqQR_eq nq_idQ nq_idQ_ortho nq_exW nq_exW_WF nq_exW_tensor

example : normSqQR id nq_idQ dc_exT = normSq id dc_exT :=
  normSqQR_eq_normSq nq_idQ nq_idQ_ortho dc_exT dc_exT_WF ⟨rfl, rfl, rfl, trivial⟩

example : normSqQRM id nq_idQ dm_exM =
    sumIdx (modesM dm_exM) (fun is => sumIdx (modesN dm_exM) (fun js =>
      full dm_exM (is.zip js) * full dm_exM (is.zip js))) :=
  normSqQRM_eq nq_idQ nq_idQ_ortho dm_exM dm_exM_WF

example : Manifold.LeftOrthInit (lrOrth nq_idQ nq_exW) := lrOrth_leftOrth nq_idQ nq_idQ_ortho nq_exW nq_exW_tensor

/-- evaluated with the oracle of the correspondence run (`idOracle`, uncapped): all unfoldings of `nq_exW` are wide, the
returned `Q` is the identity, and the QR branch gives the Frobenius sum and the Gram-sweep value -/
example : normSqQR id (idOracle 1000) nq_exW =
    sumIdx (modesM nq_exW) (fun is => full nq_exW (tIdx is) * full nq_exW (tIdx is)) := by decide

example : normSqQR id (idOracle 1000) nq_exW = normSq id nq_exW := by decide

example : normSqQR id nq_idQ nq_exW = normSqQR id (idOracle 1000) nq_exW := by decide

/-- the orthonormality hypothesis is not vacuous: on `dc_exT` (second unfolding `6 × 2`, tall) `idOracle` returns `Q = M`,
which is exact but not orthonormal, and the QR branch does **not** give the norm -/
example : normSqQR id (idOracle 1000) dc_exT ≠
    sumIdx (modesM dc_exT) (fun is => full dc_exT (tIdx is) * full dc_exT (tIdx is)) := by decide

/-- TT-matrix, evaluated: `dm_exM` merged has the single factorised unfolding `6 × 2` (tall); with `nq_idQ` the value is right -/
example : normSqQRM id nq_idQ dm_exM = normSq id dm_exM := by decide

/-! ### (6) a genuinely complex instance: Gaussian integers, `cj = star` -/

/-- the Gaussian integers `ℤ[i]`, `star` = complex conjugation -/
abbrev nq_GI := ℤ√(-1)

/-- `Q = i·I`, `R = -i·M`: exact, `QᴴQ = I`, but `QᵀQ = -I` — the conjugation in the contract matters -/
def nq_iQ : Oracle nq_GI := fun rows _ M =>
  { r := rows, left := fun p k => if p = k then ⟨0, 1⟩ else 0, right := fun k j => ⟨0, -1⟩ * M k j }

theorem nq_iQ_ortho : OrthoQRc star nq_iQ := by
  refine ⟨?_, ?_⟩
  · intro rows cols C i j hi _
    show sumTo rows (fun k => (if i = k then (⟨0, 1⟩ : nq_GI) else 0) * (⟨0, -1⟩ * C k j)) = C i j
    rw [sumTo_single i hi]
    · have e : (⟨0, 1⟩ : nq_GI) * ⟨0, -1⟩ = 1 := by decide
      simp only [if_true, ← mul_assoc, e, one_mul]
    · intro k _ hne
      have : ¬ (i = k) := fun e => hne e.symm
      simp [this]
  · intro rows cols M k k' hk _
    have hk : k < rows := hk
    show sumTo rows (fun p => (if p = k then (⟨0, 1⟩ : nq_GI) else 0) * star (if p = k' then (⟨0, 1⟩ : nq_GI) else 0)) = _
    rw [sumTo_single k hk]
    · have e : (⟨0, 1⟩ : nq_GI) * star (⟨0, 1⟩ : nq_GI) = 1 := by decide
      by_cases h : k = k'
      · simp only [h, if_true]; exact e
      · simp [h]
    · intro p _ hne
      simp [hne]

/-- without the conjugate the same `Q` is not orthonormal -/
example : ¬ OrthoQR nq_iQ := by
  intro h
  have := h.2 1 1 (fun _ _ => 0) 0 0 Nat.one_pos Nat.one_pos
  revert this
  decide

/-- an order-3 train over `ℤ[i]`, modes `[2,3,2]`, ranks `[1,2,2,1]` -/
def nq_exC : List (Core nq_GI) :=
  [ { r0 := 1, m := 2, n := 1, r1 := 2, get := fun _ i _ b => ⟨(i : Int) - 1, 2 * b - i⟩ },
    { r0 := 2, m := 3, n := 1, r1 := 2, get := fun a i _ b => ⟨(a : Int) * i - b, 1 - a + b⟩ },
    { r0 := 2, m := 2, n := 1, r1 := 1, get := fun a i _ _ => ⟨3 * (a : Int) - i, i + a⟩ } ]

theorem nq_exC_WF : WF nq_exC 1 := ⟨rfl, rfl, rfl, rfl⟩

example : normSqQR star nq_iQ nq_exC =
    sumIdx (modesM nq_exC) (fun is => full nq_exC (tIdx is) * star (full nq_exC (tIdx is))) :=
  normSqQRc_eq star star_add star_mul' (star_one _) nq_iQ nq_iQ_ortho nq_exC nq_exC_WF ⟨rfl, rfl, rfl, trivial⟩

example : normSqQR star nq_iQ nq_exC = normSq star nq_exC := by decide

/-- the value is real and non-negative, as a squared norm must be -/
example : normSqQR star nq_iQ nq_exC = ⟨1008, 0⟩ := by decide

end TT.C07

#print axioms TT.C07.lrOrth_leftOrthc
#print axioms TT.C07.lrOrth_leftOrth
#print axioms TT.C07.sq_of_leftOrth_trainc
#print axioms TT.C07.sq_of_leftOrth_train
#print axioms TT.C07.normSqQRc_eq
#print axioms TT.C07.normSqQR_eq
#print axioms TT.C07.normSqQRc_eq_normSq
#print axioms TT.C07.normSqQR_eq_normSq
#print axioms TT.C07.normSqQRMc_eq
#print axioms TT.C07.normSqQRM_eq
#print axioms TT.C07.normSqQRMc_eq_normSq
#print axioms TT.C07.normSqQRM_eq_normSq
#print axioms TT.C07.nq_idQ_ortho
#print axioms TT.C07.nq_iQ_ortho
