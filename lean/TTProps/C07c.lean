import TTLemmas.GetitemM
import TTProps.C03
import TTProps.C07b

/-!
# C07 (part c) — the partial inner product `dot(a, b, axis)` equals the dense contraction

`dotPartial cj as bs axis = sumSel (· ∈ axis) (mul as (embedGo cj (maskOf axis d) as bs 1))`
(`torchtt/_extras.py`, `dot` with `axis`): `b` is embedded into the shape of `a` (its conjugated
cores at the contracted positions, conjugated identity cores `eye(rank_left, rank_right) ⊗ ones(N_i)`
elsewhere), multiplied elementwise with `a`, and the contracted modes are summed.

`cj` is the conjugation; the theorems need it to be a unital ring endomorphism
(`cj 0 = 0`, `cj 1 = 1`, additive, multiplicative) — true of `id` (real dtypes) and of complex
conjugation.  `keepBy mask l` is the sub-list of `l` at the `true` positions of `mask`,
`sumOver sel 0 cs ij f` the sum of `f` over the index pairs of the selected positions, the other
positions being read from `ij` (both in `TTLemmas/ReduceDims.lean`).
Everything holds for every order, mode-size pattern, rank profile and core values over an arbitrary
commutative ring.
-/
namespace TT.C07
open TT
variable {α : Type} [CommRing α]

/-! ### the embedded train -/

/-- the embedded train is well formed (the identity cores are square: `rank_right = rank_left`
    follows from the rank chain of `b`) and has one core per core of `a` -/
theorem embedGo_WF (cj : α → α) (mask : List Bool) (as bs : List (Core α))
    (hwb : WF bs 1) (hm : mask.length = as.length) (hb : bs.length = keptCount mask) :
    WF (embedGo cj mask as bs 1) 1 ∧ (embedGo cj mask as bs 1).length = as.length :=
  ⟨gm_WF_embedGo cj mask as bs 1 hm hb hwb, gm_length_embedGo cj mask as bs 1 hm hb⟩

/-- mode sizes of the embedded train: those of `b` at the contracted positions, `(a.m, 1)` at the
    others (so it has the mode sizes of `a` exactly when `b.m = a.m` at the contracted positions) -/
theorem embedGo_modes (cj : α → α) (mask : List Bool) (as bs : List (Core α))
    (hm : mask.length = as.length) (hb : bs.length = keptCount mask) :
    keepBy mask (modes (embedGo cj mask as bs 1)) = modes bs ∧
    keepBy (mask.map not) (modes (embedGo cj mask as bs 1))
      = (keepBy (mask.map not) (modesM as)).map (fun m => (m, 1)) :=
  gm_modes_embedGo cj mask as bs 1 hm hb

/-- **value of the embedded train**: `cj` of the entry of `b` at the indices of the contracted
    positions; it is constant along the other positions.  (Neither well-formedness of `a` nor
    matching mode sizes are needed for this identity.) -/
theorem full_embedGo (cj : α → α) (h0 : cj 0 = 0) (h1 : cj 1 = 1)
    (hadd : ∀ x y, cj (x + y) = cj x + cj y) (hmul : ∀ x y, cj (x * y) = cj x * cj y)
    (mask : List Bool) (as bs : List (Core α)) (ij : List (Nat × Nat))
    (hwb : WF bs 1) (hm : mask.length = as.length) (hb : bs.length = keptCount mask)
    (hij : ij.length = as.length) :
    full (embedGo cj mask as bs 1) ij = cj (full bs (keepBy mask ij)) :=
  gm_chain_embedGo cj h0 h1 hadd hmul mask as bs 1 ij 0 hm hij hb hwb (by omega)

/-- the same on tensor-style indices, in the form requested (with the unused hypotheses) -/
theorem full_embedGo_tensor (cj : α → α) (h0 : cj 0 = 0) (h1 : cj 1 = 1)
    (hadd : ∀ x y, cj (x + y) = cj x + cj y) (hmul : ∀ x y, cj (x * y) = cj x * cj y)
    (mask : List Bool) (as bs : List (Core α)) (is : List Nat)
    (_hwa : WF as 1) (hwb : WF bs 1) (hm : mask.length = as.length)
    (hb : bs.length = keptCount mask) (_hmodes : modesM bs = keepBy mask (modesM as))
    (his : is.length = as.length) :
    full (embedGo cj mask as bs 1) (tIdx is) = cj (full bs (tIdx (keepBy mask is))) := by
  rw [full_embedGo cj h0 h1 hadd hmul mask as bs (tIdx is) hwb hm hb (by simpa [tIdx] using his),
    gm_keepBy_tIdx]

/-! ### `dot(a, b, axis)` -/

/-- **value of `dot(a, b, axis)` when some mode is not contracted**: the entry at `ij` (one index
    per uncontracted mode) is the sum over the contracted modes of
    `a[…] * cj (b[contracted indices])`. -/
theorem dotPartial_full_some (cj : α → α) (h0 : cj 0 = 0) (h1 : cj 1 = 1)
    (hadd : ∀ x y, cj (x + y) = cj x + cj y) (hmul : ∀ x y, cj (x * y) = cj x * cj y)
    (as bs : List (Core α)) (axis : List Nat) (ij : List (Nat × Nat))
    (hwa : WF as 1) (hwb : WF bs 1) (hb : bs.length = keptCount (maskOf axis as.length))
    (hsome : (unselMask (fun i => axis.contains i) 0 as).any id = true)
    (hij : ij.length = keptCount (unselMask (fun i => axis.contains i) 0 as)) :
    full (dotPartial cj as bs axis) ij
      = sumOver (fun i => axis.contains i) 0 as
          (expandIdx (unselMask (fun i => axis.contains i) 0 as) ij)
          (fun r => full as r * cj (full bs (keepBy (maskOf axis as.length) r))) := by
  have hml := gm_length_maskOf axis as.length
  have hEl := gm_length_embedGo cj _ as bs 1 hml hb
  have hEw := gm_WF_embedGo cj _ as bs 1 hml hb hwb
  have hmull := gm_length_mul as _ hEl.symm
  have hun := gm_unselMask_len (fun i => axis.contains i) _ as 0 hmull
  unfold dotPartial
  rw [sumSel_full_some _ _ ij (by rw [hun]; exact hsome) (by rw [hun]; exact hij), hun,
    gm_sumOver_mul _ as _ 0 _ _ hEl.symm]
  apply gm_sumOver_congr
  · rw [length_expandIdx _ ij hij, length_unselMask]
  · intro r hr
    rw [C03.full_mul as _ r hwa hEw hEl.symm hr,
      full_embedGo cj h0 h1 hadd hmul _ as bs r hwb hml hb hr]

/-- **value of `dot(a, b, axis)` when every mode is contracted** (`axis` lists all modes): the
    single remaining entry is `Σ a[…] * cj (b[…])` over all indices -/
theorem dotPartial_full_all (cj : α → α) (h0 : cj 0 = 0) (h1 : cj 1 = 1)
    (hadd : ∀ x y, cj (x + y) = cj x + cj y) (hmul : ∀ x y, cj (x * y) = cj x * cj y)
    (as bs : List (Core α)) (axis : List Nat) (x : Nat × Nat)
    (hwa : WF as 1) (hwb : WF bs 1) (hb : bs.length = keptCount (maskOf axis as.length))
    (hne : as ≠ [])
    (hall : (unselMask (fun i => axis.contains i) 0 as).any id = false) :
    full (dotPartial cj as bs axis) [x]
      = sumOver (fun i => axis.contains i) 0 as
          (expandIdx (List.replicate (as.length - 1) false ++ [true]) [x])
          (fun r => full as r * cj (full bs (keepBy (maskOf axis as.length) r))) := by
  have hml := gm_length_maskOf axis as.length
  have hEl := gm_length_embedGo cj _ as bs 1 hml hb
  have hEw := gm_WF_embedGo cj _ as bs 1 hml hb hwb
  have hmull := gm_length_mul as _ hEl.symm
  have hun := gm_unselMask_len (fun i => axis.contains i) _ as 0 hmull
  have hpos : 0 < as.length := List.length_pos_iff.mpr hne
  have hne' : mul as (embedGo cj (maskOf axis as.length) as bs 1) ≠ [] := by
    intro h0'
    rw [h0'] at hmull
    simp at hmull
    omega
  unfold dotPartial
  rw [sumSel_full_all _ _ x hne' (by rw [hun]; exact hall), hmull,
    gm_sumOver_mul _ as _ 0 _ _ hEl.symm]
  apply gm_sumOver_congr
  · have hcount : keptCount (List.replicate (as.length - 1) false ++ [true]) = 1 := by
      simp [keptCount, List.count_replicate]
    rw [length_expandIdx _ [x] (by rw [hcount]; rfl)]
    simp
    omega
  · intro r hr
    rw [C03.full_mul as _ r hwa hEw hEl.symm hr,
      full_embedGo cj h0 h1 hadd hmul _ as bs r hwb hml hb hr]

omit [CommRing α] in
/-- the uncontracted positions are the complement of the contraction mask -/
theorem dotPartial_mask (as : List (Core α)) (axis : List Nat) :
    unselMask (fun i => axis.contains i) 0 as = (maskOf axis as.length).map not :=
  gm_unselMask_maskOf axis as

/-- the result of `dot(a, b, axis)` is a well-formed train -/
theorem dotPartial_WF (cj : α → α) (as bs : List (Core α)) (axis : List Nat)
    (hwa : WF as 1) (hwb : WF bs 1) (hb : bs.length = keptCount (maskOf axis as.length)) :
    WF (dotPartial cj as bs axis) 1 := by
  have hml := gm_length_maskOf axis as.length
  have hEl := gm_length_embedGo cj _ as bs 1 hml hb
  have hEw := gm_WF_embedGo cj _ as bs 1 hml hb hwb
  unfold dotPartial
  apply sumSel_WF
  have : ∀ (xs ys : List (Core α)) (rx ry : Nat), xs.length = ys.length → WF xs rx → WF ys ry →
      WF (mul xs ys) (rx * ry) := by
    intro xs
    induction xs with
    | nil =>
      intro ys rx ry hl hx hy
      cases ys with
      | nil =>
        have e1 : rx = 1 := hx
        have e2 : ry = 1 := hy
        subst e1 e2
        rfl
      | cons _ _ => simp at hl
    | cons x xs ih =>
      intro ys rx ry hl hx hy
      match ys, hl, hy with
      | y :: ys, hl, hy =>
        refine ⟨?_, ih ys x.r1 y.r1 (by simpa using hl) hx.2 hy.2⟩
        show x.r0 * y.r0 = rx * ry
        rw [hx.1, hy.1]
  simpa using this as _ 1 1 hEl.symm hwa hEw

/-! ### non-vacuity and a concrete instance -/

/-- the hypotheses are satisfiable: `a` of order 3 with modes `[2,3,2]`, ranks `[1,2,2,1]`,
    `b` of order 2 with modes `[2,2]`, ranks `[1,2,1]`, contraction over `axis = [0,2]`,
    `cj = id`; one index is left -/
example : ∃ (as bs : List (Core Int)) (axis : List Nat), WF as 1 ∧ WF bs 1 ∧
    bs.length = keptCount (maskOf axis as.length) ∧
    modesM bs = keepBy (maskOf axis as.length) (modesM as) ∧
    (unselMask (fun i => axis.contains i) 0 as).any id = true ∧
    keptCount (unselMask (fun i => axis.contains i) 0 as) = 1 :=
  ⟨[⟨1, 2, 1, 2, fun _ i _ b => (i + b : Int)⟩, ⟨2, 3, 1, 2, fun a i _ b => (a * i + b : Int)⟩,
    ⟨2, 2, 1, 1, fun a i _ _ => (a + i : Int)⟩],
   [⟨1, 2, 1, 2, fun _ i _ b => (2 * i + b : Int)⟩, ⟨2, 2, 1, 1, fun a i _ _ => (a - i : Int)⟩],
   [0, 2], by simp [WF], by simp [WF], by decide, by decide, by decide, by decide⟩

/-- every mode contracted (`axis = [0,1]`) -/
example : ∃ (as bs : List (Core Int)) (axis : List Nat), WF as 1 ∧ WF bs 1 ∧ as ≠ [] ∧
    bs.length = keptCount (maskOf axis as.length) ∧
    (unselMask (fun i => axis.contains i) 0 as).any id = false :=
  ⟨[⟨1, 2, 1, 2, fun _ i _ b => (i + b : Int)⟩, ⟨2, 3, 1, 1, fun a i _ _ => (a * i + 1 : Int)⟩],
   [⟨1, 2, 1, 2, fun _ i _ b => (2 * i + b : Int)⟩, ⟨2, 3, 1, 1, fun a i _ _ => (a - i : Int)⟩],
   [0, 1], by simp [WF], by simp [WF], by simp, by decide, by decide⟩

/-- concrete check of the model against the dense contraction: with the trains of the first
    example, `dot(a, b, [0,2])[j] = Σ_{i,k} a[i,j,k] * b[i,k] = -2, -7, -12` for `j = 0,1,2` -/
theorem dotPartial_example :
    (List.range 3).map (fun j => full (dotPartial id
      ([⟨1, 2, 1, 2, fun _ i _ b => (i + b : Int)⟩, ⟨2, 3, 1, 2, fun a i _ b => (a * i + b : Int)⟩,
        ⟨2, 2, 1, 1, fun a i _ _ => (a + i : Int)⟩] : List (Core Int))
      [⟨1, 2, 1, 2, fun _ i _ b => (2 * i + b : Int)⟩, ⟨2, 2, 1, 1, fun a i _ _ => (a - i : Int)⟩]
      [0, 2]) [(j, 0)]) = [-2, -7, -12] ∧
    (List.range 3).map (fun j => sumTo 2 (fun i => sumTo 2 (fun k =>
      full ([⟨1, 2, 1, 2, fun _ i _ b => (i + b : Int)⟩,
        ⟨2, 3, 1, 2, fun a i _ b => (a * i + b : Int)⟩,
        ⟨2, 2, 1, 1, fun a i _ _ => (a + i : Int)⟩] : List (Core Int)) [(i, 0), (j, 0), (k, 0)]
      * full ([⟨1, 2, 1, 2, fun _ i _ b => (2 * i + b : Int)⟩,
        ⟨2, 2, 1, 1, fun a i _ _ => (a - i : Int)⟩] : List (Core Int)) [(i, 0), (k, 0)])))
      = [-2, -7, -12] := by
  constructor
  · simp [dotPartial, sumSel, mapSel, reduceDims, reduceGo, maskOf, embedGo, mul, mulCore, eyeRect,
      Core.mapVal, sumModeCore, absorbLeft, absorbRight, full, chain, sumTo, List.range,
      List.range.loop]
  · simp [full, chain, sumTo, List.range, List.range.loop]

end TT.C07
