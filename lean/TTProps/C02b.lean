import TTLemmas.DecompL

/-!
# C02b — `lr_orthogonal` and `round_tt` preserve the tensor whenever QR / SVD reconstruct their input

Model: `TTModel/Decomp.lean` (`lrOrthGo`, `lrOrth`, `roundGo`, `roundTT`), QR and SVD being ORACLE parameters.
The only assumption on the oracles is the algebraic contract `Exact` (`Q·R = M`, resp. `U·W = M`, entrywise,
for whatever inner dimension the oracle returns).  Orthonormality of `Q`, `U` is *not* needed for value
preservation: both sweeps are gauge changes (`… Q (R · next) …`, resp. `… (prev · U) W …`).

The trains are read as tensor trains (index `tIdx is`, i.e. column index `0` in every core, which is the only
slice the sweeps read); the in-range condition on `is` is `List.Forall₂ (· < ·) is (modesM cs)`
(`is.length = cs.length` and `is[k] < cs[k].m`).  The theorems hold for every order (also `d = 0, 1`, where the
sweeps are the identity, as in the Python code), all mode sizes and all ranks.
-/
namespace TT.C02
open TT TT.Decomp

variable {α : Type} [CommRing α]

/-! ### (4) `lr_orthogonal` -/

/-- loop invariant: the sweep started at core `c` (followed by `rest`) keeps every transfer-matrix product -/
theorem lrOrthGo_chain (qr : Oracle α) (hqr : Exact qr) (c : Core α) (rest : List (Core α))
    (i : Nat) (is : List Nat) (a : Nat) (hwf : WF rest c.r1) (hi : i < c.m)
    (hr : List.Forall₂ (· < ·) is (modesM rest)) (ha : a < c.r0) :
    chain (lrOrthGo qr c rest) (tIdx (i :: is)) a 0 = chain (c :: rest) (tIdx (i :: is)) a 0 :=
  dc_lrOrthGo_chain qr hqr rest c i is a hwf hi (List.forall₂_map_right_iff.mp hr) ha

/-- row `a` of the product of transfer matrices is preserved, for any left rank `r0` -/
theorem lrOrth_chain (qr : Oracle α) (hqr : Exact qr) (cs : List (Core α)) (is : List Nat) (r0 a : Nat)
    (hwf : WF cs r0) (hr : List.Forall₂ (· < ·) is (modesM cs)) (ha : a < r0) :
    chain (lrOrth qr cs) (tIdx is) a 0 = chain cs (tIdx is) a 0 := by
  cases cs with
  | nil => rfl
  | cons c rest =>
    simp only [modesM, List.map_cons] at hr
    cases hr with
    | @cons i _ is' _ hi hr' =>
      exact lrOrthGo_chain qr hqr c rest i is' a hwf.2 hi hr' (by rw [hwf.1]; exact ha)

/-- **`lr_orthogonal` is a gauge change**: with `Q·R = M` the tensor is unchanged -/
theorem lrOrth_full (qr : Oracle α) (hqr : Exact qr) (cs : List (Core α)) (is : List Nat)
    (hwf : WF cs 1) (hr : List.Forall₂ (· < ·) is (modesM cs)) :
    full (lrOrth qr cs) (tIdx is) = full cs (tIdx is) :=
  lrOrth_chain qr hqr cs is 1 0 hwf hr Nat.one_pos

/-- ranks still chain (any oracle) -/
theorem lrOrth_WF (qr : Oracle α) (cs : List (Core α)) (r0 : Nat) (hwf : WF cs r0) :
    WF (lrOrth qr cs) r0 := by
  cases cs with
  | nil => exact hwf
  | cons c rest =>
    have := dc_lrOrthGo_WF qr rest c hwf.2
    rw [hwf.1] at this
    exact this

/-- mode sizes preserved (any oracle) -/
theorem lrOrth_modes (qr : Oracle α) (cs : List (Core α)) : modesM (lrOrth qr cs) = modesM cs := by
  cases cs with
  | nil => rfl
  | cons c rest => exact dc_lrOrthGo_modes qr rest c

/-- the result of the sweep on a tensor train is a tensor train -/
theorem lrOrth_isTensor (qr : Oracle α) (cs : List (Core α)) (h : IsTensor cs) : IsTensor (lrOrth qr cs) := by
  cases cs with
  | nil => trivial
  | cons c rest => exact dc_lrOrthGo_isTensor qr rest c h.1

/-! ### (5) `round_tt` -/

/-- loop invariant of the right-to-left sweep: `prev` (reversed) · `cur` · `acc` keeps its products -/
theorem roundGo_chain (svd : Oracle α) (hsvd : Exact svd) (prev : List (Core α)) (isP : List Nat)
    (cur : Core α) (acc : List (Core α)) (i : Nat) (jA : List (Nat × Nat)) (r0 a : Nat)
    (hP : List.Forall₂ (· < ·) isP (modesM prev)) (hwf : WF (prev.reverse ++ cur :: acc) r0)
    (hi : i < cur.m) (ha : a < r0) :
    chain (roundGo svd cur prev acc) (tIdx isP.reverse ++ (i, 0) :: jA) a 0
      = chain (prev.reverse ++ cur :: acc) (tIdx isP.reverse ++ (i, 0) :: jA) a 0 :=
  dc_roundGo_chain svd hsvd isP prev (List.forall₂_map_right_iff.mp hP) cur acc i jA r0 a hwf hi ha

/-- row `a` of the product of transfer matrices is preserved by `round_tt`, for any left rank `r0` -/
theorem roundTT_chain (qr svd : Oracle α) (hqr : Exact qr) (hsvd : Exact svd) (cs : List (Core α))
    (is : List Nat) (r0 a : Nat) (hwf : WF cs r0) (hr : List.Forall₂ (· < ·) is (modesM cs)) (ha : a < r0) :
    chain (roundTT qr svd cs) (tIdx is) a 0 = chain cs (tIdx is) a 0 := by
  rw [dc_roundTT_eq, dc_roundRev_chain svd hsvd _ is r0 a]
  · rw [List.reverse_reverse]; exact lrOrth_chain qr hqr cs is r0 a hwf hr ha
  · rw [List.reverse_reverse]; exact lrOrth_WF qr cs r0 hwf
  · rw [List.reverse_reverse, lrOrth_modes]; exact hr
  · exact ha

/-- **`round_tt` with exact factorisations (no truncation) returns the same tensor** -/
theorem roundTT_full (qr svd : Oracle α) (hqr : Exact qr) (hsvd : Exact svd) (cs : List (Core α))
    (is : List Nat) (hwf : WF cs 1) (hr : List.Forall₂ (· < ·) is (modesM cs)) :
    full (roundTT qr svd cs) (tIdx is) = full cs (tIdx is) :=
  roundTT_chain qr svd hqr hsvd cs is 1 0 hwf hr Nat.one_pos

/-- the requested signature (`2 ≤ cs.length` is not needed; in-range condition in `getElem` form) -/
theorem roundTT_full' (qr svd : Oracle α) (hqr : Exact qr) (hsvd : Exact svd) (cs : List (Core α))
    (is : List Nat) (hwf : WF cs 1) (_hd : 2 ≤ cs.length) (hlen : is.length = (modesM cs).length)
    (hlt : ∀ k (h1 : k < is.length) (h2 : k < (modesM cs).length), is[k] < (modesM cs)[k]) :
    full (roundTT qr svd cs) (tIdx is) = full cs (tIdx is) :=
  roundTT_full qr svd hqr hsvd cs is hwf (dc_inRange_of_get is (modesM cs) hlen hlt)

/-- ranks still chain (any oracles) -/
theorem roundTT_WF (qr svd : Oracle α) (cs : List (Core α)) (r0 : Nat) (hwf : WF cs r0) :
    WF (roundTT qr svd cs) r0 := by
  rw [dc_roundTT_eq]
  apply dc_roundRev_WF
  rw [List.reverse_reverse]
  exact lrOrth_WF qr cs r0 hwf

/-- mode sizes preserved (any oracles) -/
theorem roundTT_modes (qr svd : Oracle α) (cs : List (Core α)) : modesM (roundTT qr svd cs) = modesM cs := by
  rw [dc_roundTT_eq, dc_roundRev_modes, List.reverse_reverse, lrOrth_modes]

/-- the result of rounding a tensor train is a tensor train -/
theorem roundTT_isTensor (qr svd : Oracle α) (cs : List (Core α)) (h : IsTensor cs) :
    IsTensor (roundTT qr svd cs) := by
  rw [dc_roundTT_eq]
  apply dc_roundRev_isTensor
  rw [List.reverse_reverse]
  exact lrOrth_isTensor qr cs h

/-! ### concrete instances -/

/-- an order-3 integer tensor train with ranks `[1,2,2,1]` and modes `[2,3,2]` -/
def dc_exT : List (Core Int) :=
  [ { r0 := 1, m := 2, n := 1, r1 := 2, get := fun _ i _ b => (i : Int) + 2 * b - 1 },
    { r0 := 2, m := 3, n := 1, r1 := 2, get := fun a i _ b => (a : Int) * i - b + 1 },
    { r0 := 2, m := 2, n := 1, r1 := 1, get := fun a i _ _ => 3 * (a : Int) - i } ]

theorem dc_exT_WF : WF dc_exT 1 := ⟨rfl, rfl, rfl, rfl⟩
example : modesM dc_exT = [2, 3, 2] := by decide

/-- the general theorems instantiated with the uncapped identity oracle (non-vacuity of `Exact`) -/
example : full (lrOrth dc_idFull dc_exT) (tIdx [1, 2, 1]) = full dc_exT (tIdx [1, 2, 1]) :=
  lrOrth_full dc_idFull dc_idFull_exact dc_exT [1, 2, 1] dc_exT_WF (dc_inRange_of_get _ _ rfl (by decide))

example : full (roundTT dc_idFull dc_idFull dc_exT) (tIdx [1, 2, 1]) = full dc_exT (tIdx [1, 2, 1]) :=
  roundTT_full dc_idFull dc_idFull dc_idFull_exact dc_idFull_exact dc_exT [1, 2, 1] dc_exT_WF
    (dc_inRange_of_get _ _ rfl (by decide))

/-- evaluated: with a large cap the concrete oracle of the correspondence run keeps all 12 entries -/
example : ∀ i0 < 2, ∀ i1 < 3, ∀ i2 < 2,
    full (roundTT (idOracle 100) (idOracle 100) dc_exT) (tIdx [i0, i1, i2]) = full dc_exT (tIdx [i0, i1, i2]) := by
  decide

example : ∀ i0 < 2, ∀ i1 < 3, ∀ i2 < 2,
    full (lrOrth (idOracle 100) dc_exT) (tIdx [i0, i1, i2]) = full dc_exT (tIdx [i0, i1, i2]) := by
  decide

/-- truncation (`idOracle 1` as the SVD) does change the tensor: the exactness hypothesis is not vacuous -/
example : full (roundTT (idOracle 100) (idOracle 1) dc_exT) (tIdx [1, 2, 1]) ≠ full dc_exT (tIdx [1, 2, 1]) := by
  decide

/-- a truncating QR changes the tensor as well -/
example : full (lrOrth (idOracle 1) dc_exT) (tIdx [1, 2, 1]) ≠ full dc_exT (tIdx [1, 2, 1]) := by decide

example : WF (roundTT (idOracle 1) (idOracle 1) dc_exT) 1 := roundTT_WF _ _ _ _ dc_exT_WF
example : modesM (roundTT (idOracle 1) (idOracle 1) dc_exT) = [2, 3, 2] := by
  rw [roundTT_modes]; decide

end TT.C02
