import TTProps.C16

/-!
# C16c — `riemannian_projection` is idempotent (`torchtt/manifold.py`)

Model: `TTModel/Manifold.lean`.  `project ls rs zs = delta2cores ls rs (projSds ls rs zs)` where `ls`
are the left-orthogonal cores of the base point `x`, `rs` its right-orthogonal cores and `zs` the
cores of the projected tensor `z`.  Everything is over an arbitrary commutative ring, for every
order `d ≥ 2`, all ranks and all mode sizes.

Vocabulary added here:

* `RightOrth r` : `Σ_{b,i,j} r[a,i,j,b]·r[a',i,j,b] = δ_{aa'}`; `RightOrthTail rs` : all cores of `rs`
  but the first are `RightOrth`.
* `idm_Gauge l d` : `Σ_{a,i,j} l[a,i,j,b]·d[a,i,j,R] = 0` (the gauge condition `l_kᵀ δ_k = 0`);
  `idm_GaugeInit ls ds` : the gauge condition holds at every position but the last.

Results:

1. `projSds_gauge` : the variations computed by `riemannian_projection` satisfy the gauge conditions
   (only `LeftOrthInit ls` is needed).
2. `proj_tangent_fixed` : the projection fixes every tangent vector given in gauged form:
   `P(Σ_k L_{<k} δ_k R_{>k}) = Σ_k L_{<k} δ_k R_{>k}` when `l_kᵀ δ_k = 0` for `k < d-1`.
3. `proj_idempotent` : `P(P z) = P z` as tensors, for every well-formed train `z` of the order of `x`
   (any ranks, any mode sizes).

All helper names carry the prefix `idm_`.
-/
namespace TT.C16
open TT TT.Kern TT.Manifold Finset
variable {α : Type} [CommRing α]

/-! ### vocabulary -/

/-- `Σ_{b,i,j} r[a,i,j,b] · r[a',i,j,b] = δ_{aa'}` -/
def RightOrth (r : Core α) : Prop :=
  ∀ a a', a < r.r0 → a' < r.r0 →
    sumTo r.r1 (fun b => sumTo r.m (fun i => sumTo r.n (fun j =>
      r.get a i j b * r.get a' i j b))) = if a = a' then 1 else 0

/-- every core is right-orthonormal -/
def idm_RightOrthAll : List (Core α) → Prop
  | [] => True
  | r :: rs => RightOrth r ∧ idm_RightOrthAll rs

/-- all cores but the first are right-orthonormal -/
def RightOrthTail : List (Core α) → Prop
  | [] => True
  | _ :: rs => idm_RightOrthAll rs

/-- gauge condition `lᵀ d = 0`: `Σ_{a,i,j} l[a,i,j,b] · d[a,i,j,R] = 0` -/
def idm_Gauge (l d : Core α) : Prop :=
  ∀ b R, b < l.r1 → R < d.r1 →
    sumTo l.r0 (fun a => sumTo l.m (fun i => sumTo l.n (fun j =>
      l.get a i j b * d.get a i j R))) = 0

/-- the gauge condition holds at every position but the last -/
def idm_GaugeInit : List (Core α) → List (Core α) → Prop
  | l :: l' :: ls, d :: ds => idm_Gauge l d ∧ idm_GaugeInit (l' :: ls) ds
  | _, _ => True

/-! ### triple sums -/

def idm_s3 (n1 n2 n3 : Nat) (f : Nat → Nat → Nat → α) : α :=
  sumTo n1 (fun a => sumTo n2 (fun i => sumTo n3 (fun j => f a i j)))

theorem idm_s3_congr {n1 n2 n3 : Nat} {f g : Nat → Nat → Nat → α}
    (h : ∀ a i j, a < n1 → i < n2 → j < n3 → f a i j = g a i j) :
    idm_s3 n1 n2 n3 f = idm_s3 n1 n2 n3 g := by
  unfold idm_s3
  apply sumTo_congr; intro a ha
  apply sumTo_congr; intro i hi
  apply sumTo_congr; intro j hj
  exact h a i j ha hi hj

theorem idm_s3_eq_zero {n1 n2 n3 : Nat} {f : Nat → Nat → Nat → α}
    (h : ∀ a i j, a < n1 → i < n2 → j < n3 → f a i j = 0) : idm_s3 n1 n2 n3 f = 0 := by
  unfold idm_s3
  apply sumTo_eq_zero; intro a ha
  apply sumTo_eq_zero; intro i hi
  apply sumTo_eq_zero; intro j hj
  exact h a i j ha hi hj

theorem idm_s3_sumTo (n1 n2 n3 n : Nat) (f : Nat → Nat → Nat → Nat → α) :
    idm_s3 n1 n2 n3 (fun a i j => sumTo n (fun S => f a i j S)) =
      sumTo n (fun S => idm_s3 n1 n2 n3 (fun a i j => f a i j S)) := by
  unfold idm_s3
  have e1 : ∀ a i, sumTo n3 (fun j => sumTo n (fun S => f a i j S)) =
      sumTo n (fun S => sumTo n3 (fun j => f a i j S)) :=
    fun a i => sumTo_comm n3 n (fun j S => f a i j S)
  simp only [e1]
  have e2 : ∀ a, sumTo n2 (fun i => sumTo n (fun S => sumTo n3 (fun j => f a i j S))) =
      sumTo n (fun S => sumTo n2 (fun i => sumTo n3 (fun j => f a i j S))) :=
    fun a => sumTo_comm n2 n (fun i S => sumTo n3 (fun j => f a i j S))
  simp only [e2]
  exact sumTo_comm n1 n (fun a S => sumTo n2 (fun i => sumTo n3 (fun j => f a i j S)))

theorem idm_s3_mul_right (n1 n2 n3 : Nat) (f : Nat → Nat → Nat → α) (c : α) :
    idm_s3 n1 n2 n3 (fun a i j => f a i j * c) = idm_s3 n1 n2 n3 f * c := by
  unfold idm_s3
  simp only [sumTo_eq_sum, Finset.sum_mul]

theorem idm_s3_add (n1 n2 n3 : Nat) (f g : Nat → Nat → Nat → α) :
    idm_s3 n1 n2 n3 (fun a i j => f a i j + g a i j) = idm_s3 n1 n2 n3 f + idm_s3 n1 n2 n3 g := by
  unfold idm_s3
  simp only [sumTo_eq_sum, Finset.sum_add_distrib]

theorem idm_s3_neg (n1 n2 n3 : Nat) (f : Nat → Nat → Nat → α) :
    idm_s3 n1 n2 n3 (fun a i j => - f a i j) = - idm_s3 n1 n2 n3 f := by
  unfold idm_s3
  simp only [sumTo_eq_sum, Finset.sum_neg_distrib]

theorem idm_sum_ite_left (n a : Nat) (ha : a < n) (f : Nat → α) :
    sumTo n (fun k => (if a = k then (1:α) else 0) * f k) = f a := by
  rw [sumTo_single a ha]
  · simp
  · intro k _ hne
    rw [if_neg (fun h => hne h.symm)]; simp

theorem idm_sum_ite_right (n a : Nat) (ha : a < n) (f : Nat → α) :
    sumTo n (fun k => f k * (if k = a then (1:α) else 0)) = f a := by
  rw [sumTo_single a ha]
  · simp
  · intro k _ hne
    rw [if_neg hne]; simp

theorem idm_LeftOrth_s3 (l : Core α) (ho : LeftOrth l) (b b' : Nat) (hb : b < l.r1) (hb' : b' < l.r1) :
    idm_s3 l.r0 l.m l.n (fun a i j => l.get a i j b * l.get a i j b') = if b = b' then 1 else 0 :=
  ho b b' hb hb'

theorem idm_Gauge_s3 (l d : Core α) (hg : idm_Gauge l d) (b R : Nat) (hb : b < l.r1) (hR : R < d.r1) :
    idm_s3 l.r0 l.m l.n (fun a i j => l.get a i j b * d.get a i j R) = 0 :=
  hg b R hb hR

theorem idm_pleftStep_s3 (P : Phi2 α) (l z : Core α) (R S : Nat) :
    pleftStep P l z R S =
      idm_s3 l.r0 l.m l.n (fun r i j => l.get r i j R * mf_tmp1 P z r i j S) :=
  mf_pleftStep_alt P l z R S

/-! ### (1) the computed variations satisfy the gauge condition -/

/-- `lᵀ (I − l lᵀ) = 0` when `lᵀ l = I`: one gauge-projected variation -/
theorem idm_projSd_gauge (L Rp : Phi2 α) (rR : Nat) (l z : Core α) (ho : LeftOrth l) :
    idm_Gauge l (projSd L (some Rp) rR l z) := by
  intro b R hb _
  show idm_s3 l.r0 l.m l.n (fun a i j => l.get a i j b * (projSd L (some Rp) rR l z).get a i j R) = 0
  have key : ∀ S, idm_s3 l.r0 l.m l.n (fun a i j => l.get a i j b *
      (mf_tmp1 L z a i j S + - sumTo l.r1 (fun R' => l.get a i j R' * pleftStep L l z R' S))) = 0 := by
    intro S
    have e : ∀ a i j, l.get a i j b *
        (mf_tmp1 L z a i j S + - sumTo l.r1 (fun R' => l.get a i j R' * pleftStep L l z R' S)) =
        l.get a i j b * mf_tmp1 L z a i j S +
          - sumTo l.r1 (fun R' => l.get a i j b * l.get a i j R' * pleftStep L l z R' S) := by
      intro a i j
      rw [mul_add, mul_neg, ← sumTo_mul_left]
      congr 2
      apply sumTo_congr; intro R' _; ring
    simp only [e]
    rw [idm_s3_add, idm_s3_neg, ← idm_pleftStep_s3, idm_s3_sumTo]
    have e2 : sumTo l.r1 (fun R' => idm_s3 l.r0 l.m l.n
        (fun a i j => l.get a i j b * l.get a i j R' * pleftStep L l z R' S)) =
        sumTo l.r1 (fun R' => (if b = R' then (1:α) else 0) * pleftStep L l z R' S) := by
      apply sumTo_congr; intro R' hR'
      rw [idm_s3_mul_right, idm_LeftOrth_s3 l ho b R' hb hR']
    rw [e2, idm_sum_ite_left l.r1 b hb (fun R' => pleftStep L l z R' S)]
    ring
  have e : ∀ a i j, l.get a i j b * (projSd L (some Rp) rR l z).get a i j R =
      sumTo z.r1 (fun S => l.get a i j b *
        (mf_tmp1 L z a i j S + - sumTo l.r1 (fun R' => l.get a i j R' * pleftStep L l z R' S)) *
          Rp R S) := by
    intro a i j
    rw [mf_projSd_get_some', ← sumTo_mul_left]
    apply sumTo_congr; intro S _; ring
  simp only [e]
  rw [idm_s3_sumTo]
  apply sumTo_eq_zero; intro S _
  rw [idm_s3_mul_right, key S, zero_mul]

theorem idm_projSdsGo_gauge (ls zs : List (Core α)) :
    ∀ (prs : List (Phi2 α)) (L : Phi2 α), LeftOrthInit ls → zs.length = ls.length →
      prs.length = ls.length → idm_GaugeInit ls (projSdsGo ls zs prs L) := by
  induction ls generalizing zs with
  | nil => intro prs L _ _ _; simp [idm_GaugeInit]
  | cons l ls ih =>
    intro prs L ho hz hp
    cases ls with
    | nil => simp [idm_GaugeInit]
    | cons l' ls' =>
      match zs, prs, hz, hp with
      | z :: zs, p0 :: pr :: prs, hz, hp =>
        obtain ⟨ho1, ho'⟩ := ho
        rw [mf_projSdsGo_cons2']
        exact ⟨idm_projSd_gauge L pr l.r1 l z ho1,
          ih zs (pr :: prs) _ ho' (by simpa using hz) (by simpa using hp)⟩

/-- **gauge conditions of `riemannian_projection`**: the variations `δ_k`, `k < d-1`, computed for any
    train `zs` of the order of `x` satisfy `l_kᵀ δ_k = 0`. -/
theorem projSds_gauge (ls rs zs : List (Core α)) (hl : LeftOrthInit ls)
    (hlz : zs.length = ls.length) (hlr : rs.length = ls.length) :
    idm_GaugeInit ls (projSds ls rs zs) :=
  idm_projSdsGo_gauge ls zs _ _ hl hlz (by rw [mf_prightList_length rs zs (by omega), hlr])

/-! ### (2) one step of the second projection against a block core of `_delta2cores` -/

/-- the running left product against the train of `_delta2cores`: zero on the first `off` columns
    (the "`δ` already passed" block), the identity on the next `ρ` columns (the "`L`" block) -/
def idm_LInv (L : Phi2 α) (off ρ : Nat) : Prop :=
  (∀ R S, R < ρ → S < off → L R S = 0) ∧
  (∀ R S, R < ρ → S < ρ → L R (off + S) = if R = S then 1 else 0)

/-- the lower block row `[δ | l]` of a core `z` of `_delta2cores` (rows `off …`, `off = 0` for the
    first core) -/
def idm_Blk (z l d : Core α) (off ρ σ : Nat) : Prop :=
  z.r0 = off + ρ ∧ z.r1 = σ + σ ∧ l.r0 = ρ ∧ l.r1 = σ ∧ d.r1 = σ ∧
  (∀ a i j S, a < ρ → S < σ → z.get (off + a) i j S = d.get a i j S) ∧
  (∀ a i j S, a < ρ → S < σ → z.get (off + a) i j (σ + S) = l.get a i j S)

theorem idm_Blk_mid (r d l : Core α) (ρ : Nat) (hr0 : r.r0 = ρ) (hd0 : d.r0 = ρ) (hl0 : l.r0 = ρ)
    (hl1 : l.r1 = r.r1) (hd1 : d.r1 = r.r1) :
    idm_Blk (catR0 (catR1 r (zeroLike r)) (catR1 d l)) l d ρ ρ r.r1 := by
  refine ⟨?_, ?_, hl0, hl1, hd1, ?_, ?_⟩
  · simp [catR0, catR1, hr0, hd0]
  · simp [catR0, catR1, zeroLike]
  · intro a i j S _ hS
    simp [catR0, catR1, hr0, hd1, hS]
  · intro a i j S _ _
    simp [catR0, catR1, hr0, hd1]

omit [CommRing α] in
theorem idm_Blk_first (d l : Core α) (hd0 : d.r0 = 1) (hl0 : l.r0 = 1) (hd1 : d.r1 = l.r1) :
    idm_Blk (catR1 d l) l d 0 1 l.r1 := by
  refine ⟨?_, ?_, hl0, rfl, hd1, ?_, ?_⟩
  · simp [catR1, hd0]
  · simp [catR1, hd1]
  · intro a i j S _ hS
    simp [catR1, hd1, hS]
  · intro a i j S _ _
    simp [catR1, hd1]

theorem idm_tmp1_LInv (L : Phi2 α) (z : Core α) (off ρ : Nat) (hz : z.r0 = off + ρ)
    (hL : idm_LInv L off ρ) (a : Nat) (ha : a < ρ) (i j S : Nat) :
    mf_tmp1 L z a i j S = z.get (off + a) i j S := by
  obtain ⟨h0, h1⟩ := hL
  unfold mf_tmp1
  rw [hz, sumTo_add]
  have e1 : sumTo off (fun s => L a s * z.get s i j S) = 0 := by
    apply sumTo_eq_zero; intro s hs; rw [h0 a s ha hs]; simp
  have e2 : sumTo ρ (fun k => L a (off + k) * z.get (off + k) i j S) =
      sumTo ρ (fun k => (if a = k then (1:α) else 0) * z.get (off + k) i j S) := by
    apply sumTo_congr; intro k hk; rw [h1 a k ha hk]
  rw [e1, zero_add, e2, idm_sum_ite_left ρ a ha (fun k => z.get (off + k) i j S)]

/-- the next left product has the same `[0 | I]` structure (gauge condition + left-orthonormality) -/
theorem idm_pleftStep_LInv (L : Phi2 α) (z l d : Core α) (off ρ σ : Nat)
    (hB : idm_Blk z l d off ρ σ) (hL : idm_LInv L off ρ) (ho : LeftOrth l) (hg : idm_Gauge l d) :
    idm_LInv (pleftStep L l z) σ σ := by
  obtain ⟨hz0, hz1, hl0, hl1, hd1, hzd, hzl⟩ := hB
  have hP : ∀ R S, pleftStep L l z R S =
      idm_s3 l.r0 l.m l.n (fun a i j => l.get a i j R * z.get (off + a) i j S) := by
    intro R S
    rw [idm_pleftStep_s3]
    apply idm_s3_congr
    intro a i j ha _ _
    rw [idm_tmp1_LInv L z off ρ hz0 hL a (by omega)]
  constructor
  · intro R S hR hS
    rw [hP, ← idm_Gauge_s3 l d hg R S (by omega) (by omega)]
    apply idm_s3_congr
    intro a i j ha _ _
    rw [hzd a i j S (by omega) hS]
  · intro R S hR hS
    rw [hP, ← idm_LeftOrth_s3 l ho R S (by omega) (by omega)]
    apply idm_s3_congr
    intro a i j ha _ _
    rw [hzl a i j S (by omega) hS]

/-- the variation recomputed from a block core `[[R 0],[δ l]]` is `δ` itself -/
theorem idm_projSd_some_eq (L Q : Phi2 α) (rR : Nat) (z l d : Core α) (off ρ σ : Nat)
    (hB : idm_Blk z l d off ρ σ) (hL : idm_LInv L off ρ) (ho : LeftOrth l) (hg : idm_Gauge l d)
    (hQ : mf_IsId Q σ) (a : Nat) (ha : a < ρ) (i j R : Nat) (hR : R < σ) :
    (projSd L (some Q) rR l z).get a i j R = d.get a i j R := by
  obtain ⟨hP0, hP1⟩ := idm_pleftStep_LInv L z l d off ρ σ hB hL ho hg
  obtain ⟨hz0, hz1, hl0, hl1, hd1, hzd, hzl⟩ := hB
  have ht : ∀ S, mf_tmp1 L z a i j S = z.get (off + a) i j S :=
    fun S => idm_tmp1_LInv L z off ρ hz0 hL a ha i j S
  rw [mf_projSd_get_some', hz1, sumTo_add, ← add_zero (d.get a i j R)]
  congr 1
  · rw [sumTo_single R hR]
    · have h0 : sumTo l.r1 (fun R' => l.get a i j R' * pleftStep L l z R' R) = 0 := by
        apply sumTo_eq_zero; intro R' hR'
        rw [hP0 R' R (by omega) hR]; simp
      rw [h0, ht, hzd a i j R ha hR, hQ R R hR hR]; simp
    · intro S hS hne
      rw [hQ R S hR hS, if_neg (fun h => hne h.symm)]; simp
  · apply sumTo_eq_zero; intro S hS
    have h1 : sumTo l.r1 (fun R' => l.get a i j R' * pleftStep L l z R' (σ + S)) = l.get a i j S := by
      rw [hl1]
      have e : sumTo σ (fun R' => l.get a i j R' * pleftStep L l z R' (σ + S)) =
          sumTo σ (fun R' => l.get a i j R' * (if R' = S then (1:α) else 0)) := by
        apply sumTo_congr; intro R' hR'
        rw [hP1 R' S hR' hS]
      rw [e, idm_sum_ite_right σ S hS (fun R' => l.get a i j R')]
    rw [h1, ht, hzl a i j S ha hS]; simp

/-- the last variation recomputed from the last block core `[R; δ]` is `δ` itself -/
theorem idm_projSd_none_eq (L : Phi2 α) (rR : Nat) (r d l : Core α) (ρ : Nat)
    (hr0 : r.r0 = ρ) (hd0 : d.r0 = ρ) (hL : idm_LInv L ρ ρ) (a : Nat) (ha : a < ρ) (i j S : Nat) :
    (projSd L none rR l (catR0 r d)).get a i j S = d.get a i j S := by
  rw [mf_projSd_get_none', idm_tmp1_LInv L (catR0 r d) ρ ρ (by simp [catR0, hr0, hd0]) hL a ha]
  simp [catR0, hr0]

/-- right products of `rs` against the train of `_delta2cores`: identity on the upper (`R`) block -/
theorem idm_prightStep_isId (Q : Phi2 α) (r z : Core α) (σ τ : Nat) (hz1 : z.r1 = σ + τ)
    (hr1 : r.r1 = σ) (hQ : mf_IsId Q σ) (hr : RightOrth r)
    (hzr : ∀ s i j S, s < r.r0 → S < σ → z.get s i j S = r.get s i j S)
    (hz0 : ∀ s i j S, s < r.r0 → S < τ → z.get s i j (σ + S) = 0) :
    mf_IsId (prightStep Q r z) r.r0 := by
  intro a s ha hs
  rw [← hr a s ha hs]
  unfold prightStep
  rw [hr1]
  apply sumTo_congr; intro R hR
  rw [hz1, sumTo_add, ← add_zero (sumTo r.m _)]
  congr 1
  · rw [sumTo_single R hR]
    · apply sumTo_congr; intro i _
      apply sumTo_congr; intro j _
      rw [hQ R R hR hR, hzr s i j R hs hR]; simp
    · intro S hS hne
      apply sumTo_eq_zero; intro i _
      apply sumTo_eq_zero; intro j _
      rw [hQ R S hR hS, if_neg (fun h => hne h.symm)]; simp
  · apply sumTo_eq_zero; intro S hS
    apply sumTo_eq_zero; intro i _
    apply sumTo_eq_zero; intro j _
    rw [hz0 s i j S hs hS]; simp

/-! ### (3) the second projection along the train of `_delta2cores` -/

omit [CommRing α] in
theorem idm_SameRanks_self (ls rs ds : List (Core α)) :
    ∀ ρ, SameRanks ls rs ds ρ → SameRanks ls rs ls ρ := by
  induction ls generalizing rs ds with
  | nil =>
    intro ρ h
    match rs, ds, h with
    | [], [], h => exact h
  | cons l ls ih =>
    intro ρ h
    match rs, ds, h with
    | r :: rs, d :: ds, h =>
      obtain ⟨h1, h2, _, h4, _, h'⟩ := h
      exact ⟨h1, h2, h1, h4, h4, ih rs ds _ h'⟩

theorem idm_prightList_ne (ls rs ds : List (Core α)) (hne : ls ≠ []) (ρ : Nat)
    (hs : SameRanks ls rs ds ρ) :
    ∃ p ps, prightList rs (deltaTail ls rs ds) = p :: ps := by
  obtain ⟨hr, _⟩ := mf_SameRanks_length ls rs ds ρ hs
  obtain ⟨_, hlen, _⟩ := mf_deltaTail_spec ls rs ds hne ρ hs
  have hl := mf_prightList_length rs (deltaTail ls rs ds) (by omega)
  cases hP : prightList rs (deltaTail ls rs ds) with
  | nil =>
    rw [hP] at hl
    have : ls.length ≠ 0 := by
      intro h; exact hne (List.length_eq_zero_iff.mp h)
    simp at hl; omega
  | cons p ps => exact ⟨p, ps, rfl⟩

theorem idm_deltaTail_cons2 (l l' r r' d d' : Core α) (ls rs ds : List (Core α)) :
    deltaTail (l :: l' :: ls) (r :: r' :: rs) (d :: d' :: ds) =
      catR0 (catR1 r (zeroLike r)) (catR1 d l) :: deltaTail (l' :: ls) (r' :: rs) (d' :: ds) := rfl

theorem idm_mid_up (r d l : Core α) :
    (∀ s i j S, s < r.r0 → S < r.r1 →
      (catR0 (catR1 r (zeroLike r)) (catR1 d l)).get s i j S = r.get s i j S) ∧
    (∀ s i j S, s < r.r0 → S < r.r1 →
      (catR0 (catR1 r (zeroLike r)) (catR1 d l)).get s i j (r.r1 + S) = 0) := by
  constructor
  · intro s i j S hs hS
    simp [catR0, catR1, hs, hS]
  · intro s i j S hs _
    simp [catR0, catR1, zeroLike, hs]

/-- the right products of `rs` against the tail of `_delta2cores` are the identity on the `R` block -/
theorem idm_prightList_head (ls rs ds : List (Core α)) (hne : ls ≠ []) :
    ∀ ρ, SameRanks ls rs ds ρ → idm_RightOrthAll rs →
      ∀ p ps, prightList rs (deltaTail ls rs ds) = p :: ps → mf_IsId p ρ := by
  induction ls generalizing rs ds with
  | nil => exact absurd rfl hne
  | cons l ls ih =>
    intro ρ hs hr p ps hP
    match rs, ds, hs with
    | r :: rs, d :: ds, hs =>
      obtain ⟨hl0, hr0, hd0, hl1, hd1, hs'⟩ := hs
      obtain ⟨hr1, hr'⟩ := hr
      cases ls with
      | nil =>
        match rs, ds, hs' with
        | [], [], hs' =>
          have hr1' : r.r1 = 1 := hs'
          have e : deltaTail [l] [r] [d] = [catR0 r d] := rfl
          rw [e, mf_prightList_single] at hP
          obtain ⟨rfl, _⟩ := List.cons.inj hP
          rw [← hr0]
          apply idm_prightStep_isId (fun _ _ => (1:α)) r (catR0 r d) 1 0 (by simp [catR0, hr1']) hr1'
            _ hr1
          · intro s i j S hs _
            simp [catR0, hs]
          · intro s i j S _ hS
            omega
          · intro a b ha hb
            have : a = b := by omega
            simp [this]
      | cons l' ls' =>
        match rs, ds, hs' with
        | r' :: rs', d' :: ds', hs' =>
          obtain ⟨p', ps', hP'⟩ := idm_prightList_ne (l' :: ls') (r' :: rs') (d' :: ds') (by simp)
            r.r1 hs'
          have hI := ih (r' :: rs') (d' :: ds') (by simp) r.r1 hs' hr' p' ps' hP'
          rw [idm_deltaTail_cons2, mf_prightList_cons r _ _ _ p' ps' hP'] at hP
          obtain ⟨rfl, _⟩ := List.cons.inj hP
          obtain ⟨hu1, hu2⟩ := idm_mid_up r d l
          rw [← hr0]
          exact idm_prightStep_isId p' r _ r.r1 r.r1 (by simp [catR0, catR1, zeroLike]) rfl hI hr1
            hu1 hu2

/-- congruence of the recursive tangent sum in the variations (in-range entries only) -/
theorem idm_tsum_step (l r D' D : Core α) (ls rs T' T : List (Core α)) (i : Nat × Nat)
    (is : List (Nat × Nat)) (a : Nat) (hr1 : D'.r1 = D.r1)
    (hget : ∀ k, k < D.r1 → D'.get a i.1 i.2 k = D.get a i.1 i.2 k)
    (htail : ∀ k, k < l.r1 → mf_tsum ls rs T' is k = mf_tsum ls rs T is k) :
    mf_tsum (l :: ls) (r :: rs) (D' :: T') (i :: is) a =
      mf_tsum (l :: ls) (r :: rs) (D :: T) (i :: is) a := by
  rw [mf_tsum_cons, mf_tsum_cons, mf_chain_cons, mf_chain_cons D, hr1]
  congr 1
  · apply sumTo_congr; intro k hk; rw [hget k hk]
  · apply sumTo_congr; intro k hk; rw [htail k hk]

/-- positions `k ≥ 1`: re-projecting the tail of `_delta2cores` returns the variations it was built from -/
theorem idm_tsum_tail (ls rs ds : List (Core α)) (is : List (Nat × Nat)) (hne : ls ≠ []) :
    ∀ (ρ : Nat) (L : Phi2 α), SameRanks ls rs ds ρ → LeftOrthInit ls → idm_GaugeInit ls ds →
      idm_RightOrthAll rs → idm_LInv L ρ ρ → is.length = ls.length →
      ∀ a, a < ρ →
        mf_tsum ls rs (projSdsGo ls (deltaTail ls rs ds) (prightList rs (deltaTail ls rs ds)) L) is a =
          mf_tsum ls rs ds is a := by
  induction ls generalizing rs ds is with
  | nil => exact absurd rfl hne
  | cons l ls ih =>
    intro ρ L hs ho hg hr hL hil a ha
    match rs, ds, is, hs, hil with
    | r :: rs, d :: ds, i :: is, hs, hil =>
      obtain ⟨hl0, hr0, hd0, hl1, hd1, hs'⟩ := hs
      obtain ⟨hr1, hr'⟩ := hr
      cases ls with
      | nil =>
        match rs, ds, is, hs', hil with
        | [], [], [], hs', _ =>
          have hr1' : r.r1 = 1 := hs'
          have e : projSdsGo [l] (deltaTail [l] [r] [d]) (prightList [r] (deltaTail [l] [r] [d])) L =
              [projSd L none 0 l (catR0 r d)] := rfl
          rw [e, mf_tsum_single _ _ _ _ _ (by show r.r1 = 1; exact hr1'),
            mf_tsum_single _ _ _ _ _ (by omega)]
          exact idm_projSd_none_eq L 0 r d l ρ hr0 hd0 hL a ha i.1 i.2 0
      | cons l' ls' =>
        match rs, ds, is, hs', hil with
        | r' :: rs', d' :: ds', i' :: is', hs', hil =>
          obtain ⟨ho1, ho'⟩ := ho
          obtain ⟨hg1, hg'⟩ := hg
          obtain ⟨p', ps', hP'⟩ := idm_prightList_ne (l' :: ls') (r' :: rs') (d' :: ds') (by simp)
            r.r1 hs'
          have hI := idm_prightList_head (l' :: ls') (r' :: rs') (d' :: ds') (by simp) r.r1 hs' hr'
            p' ps' hP'
          have hB := idm_Blk_mid r d l ρ hr0 hd0 hl0 hl1 hd1
          rw [idm_deltaTail_cons2, mf_prightList_cons r _ _ _ p' ps' hP', mf_projSdsGo_cons2']
          apply idm_tsum_step
          · show l.r1 = d.r1
            omega
          · intro k hk
            exact idm_projSd_some_eq L p' l.r1 _ l d ρ ρ r.r1 hB hL ho1 hg1 hI a ha i.1 i.2 k
              (by omega)
          · intro k hk
            rw [← hP']
            exact ih (r' :: rs') (d' :: ds') (i' :: is') (by simp) r.r1 _ hs' ho' hg' hr'
              (idm_pleftStep_LInv L _ l d ρ ρ r.r1 hB hL ho1 hg1) (by simpa using hil) k (by omega)

/-! ### (4) the projection fixes gauged tangent vectors; idempotence -/

/-- **`riemannian_projection` fixes the tangent space**: if the variations `δ_k` satisfy the gauge
    conditions `l_kᵀ δ_k = 0` (`k < d-1`), `ls` is left-orthonormal (all cores but the last) and `rs`
    right-orthonormal (all cores but the first), then projecting the tangent vector
    `Σ_k L_0 ⋯ L_{k-1} δ_k R_{k+1} ⋯ R_{d-1}` (given as the rank-`2r` train of `_delta2cores`)
    returns the same tensor. -/
theorem proj_tangent_fixed (ls rs ds : List (Core α)) (ij : List (Nat × Nat))
    (hs : SameRanks ls rs ds 1) (hl : LeftOrthInit ls) (hg : idm_GaugeInit ls ds)
    (hr : RightOrthTail rs) (h2 : 2 ≤ ls.length) (hil : ij.length = ls.length) :
    full (project ls rs (delta2cores ls rs ds)) ij = full (delta2cores ls rs ds) ij := by
  have hne : ls ≠ [] := by intro h; simp [h] at h2
  have hsl := idm_SameRanks_self ls rs ds 1 hs
  have hS' := SameRanks_projSds ls rs (delta2cores ls rs ds) hsl (WF_delta2cores ls rs ds hs h2)
    (length_delta2cores ls rs ds hs h2) hne
  obtain ⟨hlr, hld⟩ := mf_SameRanks_length ls rs ds 1 hs
  unfold project
  rw [mf_full_delta2cores ls rs _ ij hS' h2 hil, mf_full_delta2cores ls rs ds ij hs h2 hil]
  unfold projSds
  match ls, rs, ds, ij, h2, hlr, hld, hil, hs, hl, hg, hr with
  | l :: l' :: ls', r :: r' :: rs', d :: d' :: ds', i :: i' :: is', _, _, _, hil, hs, hl, hg, hr =>
    obtain ⟨hl0, hr0, hd0, hl1, hd1, hs'⟩ := hs
    obtain ⟨ho1, ho'⟩ := hl
    obtain ⟨hg1, hg'⟩ := hg
    have hr' : idm_RightOrthAll (r' :: rs') := hr
    have e : delta2cores (l :: l' :: ls') (r :: r' :: rs') (d :: d' :: ds') =
        catR1 d l :: deltaTail (l' :: ls') (r' :: rs') (d' :: ds') := rfl
    rw [e]
    obtain ⟨p', ps', hP'⟩ := idm_prightList_ne (l' :: ls') (r' :: rs') (d' :: ds') (by simp) r.r1 hs'
    have hI : mf_IsId p' l.r1 := by
      rw [hl1]
      exact idm_prightList_head (l' :: ls') (r' :: rs') (d' :: ds') (by simp) r.r1 hs' hr' p' ps' hP'
    have hB : idm_Blk (catR1 d l) l d 0 1 l.r1 := idm_Blk_first d l hd0 hl0 (by omega)
    have hL : idm_LInv (fun _ _ => (1:α)) 0 1 :=
      ⟨fun R S _ hS => by omega, fun R S hR hS => by
        have : R = S := by omega
        simp [this]⟩
    rw [mf_prightList_cons r _ _ _ p' ps' hP', mf_projSdsGo_cons2']
    apply idm_tsum_step
    · show l.r1 = d.r1
      omega
    · intro k hk
      exact idm_projSd_some_eq _ p' l.r1 _ l d 0 1 l.r1 hB hL ho1 hg1 hI 0 (by omega) i.1 i.2 k
        (by omega)
    · intro k hk
      rw [← hP']
      have hL' : idm_LInv (pleftStep (fun _ _ => (1:α)) l (catR1 d l)) r.r1 r.r1 := by
        rw [← hl1]
        exact idm_pleftStep_LInv _ _ l d 0 1 l.r1 hB hL ho1 hg1
      exact idm_tsum_tail (l' :: ls') (r' :: rs') (d' :: ds') (i' :: is') (by simp) r.r1 _ hs' ho' hg'
        hr' hL' (by simpa using hil) k (by omega)

/-- **`riemannian_projection` is idempotent** as a map on tensors: `P(P z) = P z` for every
    well-formed train `zs` of the order of `x` (arbitrary ranks and mode sizes), given the gauges
    `ls` (left-orthonormal but for the last core) and `rs` (right-orthonormal but for the first core)
    of the base point, with a common rank profile. -/
theorem proj_idempotent (ls rs zs : List (Core α)) (ij : List (Nat × Nat))
    (hs : SameRanks ls rs ls 1) (hz : WF zs 1) (hlz : zs.length = ls.length)
    (hl : LeftOrthInit ls) (hr : RightOrthTail rs) (h2 : 2 ≤ ls.length)
    (hil : ij.length = ls.length) :
    full (project ls rs (project ls rs zs)) ij = full (project ls rs zs) ij := by
  have hne : ls ≠ [] := by intro h; simp [h] at h2
  obtain ⟨hlr, _⟩ := mf_SameRanks_length ls rs ls 1 hs
  exact proj_tangent_fixed ls rs (projSds ls rs zs) ij (SameRanks_projSds ls rs zs hs hz hlz hne) hl
    (projSds_gauge ls rs zs hl hlz hlr) hr h2 hil

/-! ### (5) concrete instances (non-vacuity) -/

section Examples

/-- right-orthonormal cores with 0/1 entries, ranks `(2,2)` and `(2,1)` -/
def idm_R1 : Core Int := ⟨2, 2, 1, 2, fun a i _ b => if i = 0 ∧ a = b then 1 else 0⟩
def idm_R2 : Core Int := ⟨2, 2, 1, 1, fun a i _ _ => if a = i then 1 else 0⟩

/-- all hypotheses of `proj_idempotent` are satisfiable: order 3, base point of ranks `(1,2,2,1)`,
    `z` of ranks `(1,3,1,1)`; `L0, L1, L2, R0, Z0, Z1, Z2` are the cores of `TTProps/C16.lean` -/
theorem idm_ex_hyps : SameRanks [L0, L1, L2] [R0, idm_R1, idm_R2] [L0, L1, L2] 1 ∧ WF [Z0, Z1, Z2] 1 ∧
    [Z0, Z1, Z2].length = [L0, L1, L2].length ∧ LeftOrthInit [L0, L1, L2] ∧
    RightOrthTail [R0, idm_R1, idm_R2] ∧ 2 ≤ [L0, L1, L2].length := by
  refine ⟨by simp [SameRanks, L0, L1, L2, R0, idm_R1, idm_R2], by simp [WF, Z0, Z1, Z2], rfl,
    ⟨?_, ?_, trivial⟩, ⟨?_, ?_, trivial⟩, by simp⟩
  · intro b b' hb hb'
    change b < 2 at hb; change b' < 2 at hb'
    interval_cases b <;> interval_cases b' <;> decide
  · intro b b' hb hb'
    change b < 2 at hb; change b' < 2 at hb'
    interval_cases b <;> interval_cases b' <;> decide
  · intro a a' ha ha'
    change a < 2 at ha; change a' < 2 at ha'
    interval_cases a <;> interval_cases a' <;> decide
  · intro a a' ha ha'
    change a < 2 at ha; change a' < 2 at ha'
    interval_cases a <;> interval_cases a' <;> decide

/-- … hence the theorem applies to these cores, at every multi-index -/
example (ij : List (Nat × Nat)) (hil : ij.length = 3) :
    full (project [L0, L1, L2] [R0, idm_R1, idm_R2] (project [L0, L1, L2] [R0, idm_R1, idm_R2]
      [Z0, Z1, Z2])) ij =
    full (project [L0, L1, L2] [R0, idm_R1, idm_R2] [Z0, Z1, Z2]) ij :=
  proj_idempotent _ _ _ ij idm_ex_hyps.1 idm_ex_hyps.2.1 idm_ex_hyps.2.2.1 idm_ex_hyps.2.2.2.1
    idm_ex_hyps.2.2.2.2.1 idm_ex_hyps.2.2.2.2.2 hil

/-- numeric check of one entry of `P(P z) = P z` on these cores (and `P z ≠ 0` there) -/
example :
    full (project [L0, L1, L2] [R0, idm_R1, idm_R2] (project [L0, L1, L2] [R0, idm_R1, idm_R2]
      [Z0, Z1, Z2])) [(1, 0), (0, 0), (1, 0)] =
    full (project [L0, L1, L2] [R0, idm_R1, idm_R2] [Z0, Z1, Z2]) [(1, 0), (0, 0), (1, 0)] ∧
    full (project [L0, L1, L2] [R0, idm_R1, idm_R2] [Z0, Z1, Z2]) [(1, 0), (0, 0), (1, 0)] ≠ 0 := by
  decide

/-- the right-orthonormality hypothesis cannot be dropped: with the non-orthonormal `R1, R2` of
    `TTProps/C16.lean` (same rank profile) the map is not idempotent -/
example :
    full (project [L0, L1, L2] [R0, R1, R2] (project [L0, L1, L2] [R0, R1, R2] [Z0, Z1, Z2]))
      [(0, 0), (1, 0), (0, 0)] ≠
    full (project [L0, L1, L2] [R0, R1, R2] [Z0, Z1, Z2]) [(0, 0), (1, 0), (0, 0)] := by decide

/-- the gauge condition really is produced by the first projection on these cores -/
example : idm_GaugeInit [L0, L1, L2] (projSds [L0, L1, L2] [R0, idm_R1, idm_R2] [Z0, Z1, Z2]) :=
  projSds_gauge _ _ _ ⟨by
    intro b b' hb hb'
    change b < 2 at hb; change b' < 2 at hb'
    interval_cases b <;> interval_cases b' <;> decide, by
    intro b b' hb hb'
    change b < 2 at hb; change b' < 2 at hb'
    interval_cases b <;> interval_cases b' <;> decide, trivial⟩ rfl rfl

end Examples

end TT.C16

#print axioms TT.C16.projSds_gauge
#print axioms TT.C16.proj_tangent_fixed
#print axioms TT.C16.proj_idempotent
