import TTProps.C02b
import TTModel.DecompM

/-!
# C02c — the TT-matrix variants `lr_orthogonal(is_ttm=True)` / `round_tt(is_ttm=True)` preserve the operator

Model: `TTModel/DecompM.lean` (`mergeModes`, `splitModes`, `splitAll`, `lrOrthM`, `roundTTM`): the tensor sweeps of
`TTModel/Decomp.lean` conjugated with the row-major merge `[r,m,n,r'] → [r,m·n,r']` and its inverse.

* `full_mergeModes` : merging the two mode indices of every core does not change any entry, the merged train being read at
  the merged multi-index `p_k = i_k·n_k + j_k` (`dm_mergeIdx`);
* `full_splitAll`   : splitting the modes back is the inverse re-indexing;
* `lrOrthM_full`, `roundTTM_full` : with exact QR / SVD oracles every in-range entry of the TT-matrix is preserved;
* `lrOrthM_WF`, `roundTTM_WF`, `lrOrthM_modes`, `roundTTM_modes` : ranks chain and mode sizes are kept (any oracles).

The in-range condition on an index list `ij : List (Nat × Nat)` for a TT-matrix `cs` is `dm_InRange ij cs`
(`ij.length = cs.length`, `ij[k].1 < cs[k].m`, `ij[k].2 < cs[k].n`).
-/
namespace TT.C02
open TT TT.Decomp

set_option linter.unusedSectionVars false

variable {α : Type} [CommRing α]

/-! ### index bookkeeping -/

/-- merged (row-major) multi-index: `p_k = i_k · n_k + j_k`, `ns` being the column mode sizes -/
def dm_mergeIdx (ns : List Nat) (ij : List (Nat × Nat)) : List Nat :=
  List.zipWith (fun p n => p.1 * n + p.2) ij ns

/-- in-range operator multi-index: `ij[k].1 < cs[k].m`, `ij[k].2 < cs[k].n`, equal lengths -/
def dm_InRange (ij : List (Nat × Nat)) (cs : List (Core α)) : Prop :=
  List.Forall₂ (fun p c => p.1 < c.m ∧ p.2 < c.n) ij cs

theorem dm_mergeIdx_cons (n : Nat) (ns : List Nat) (p : Nat × Nat) (ps : List (Nat × Nat)) :
    dm_mergeIdx (n :: ns) (p :: ps) = (p.1 * n + p.2) :: dm_mergeIdx ns ps := rfl

/-- the `length` / `getElem` form of the in-range condition -/
theorem dm_inRange_of_get (ij : List (Nat × Nat)) (cs : List (Core α)) (hlen : ij.length = cs.length)
    (h : ∀ k (h1 : k < ij.length) (h2 : k < cs.length), ij[k].1 < cs[k].m ∧ ij[k].2 < cs[k].n) :
    dm_InRange ij cs := by
  apply List.forall₂_iff_get.mpr
  refine ⟨hlen, ?_⟩
  intro k h1 h2
  simpa using h k h1 h2

theorem dm_modesMN'_length (cs : List (Core α)) : (modesMN' cs).length = cs.length := by
  simp [modesMN']

theorem dm_modesMN'_snd (cs : List (Core α)) : (modesMN' cs).map Prod.snd = modesN cs := by
  simp [modesMN', modesN]

theorem dm_modesMN'_fst (cs : List (Core α)) : (modesMN' cs).map Prod.fst = modesM cs := by
  simp [modesMN', modesM]

/-- the merged index of an in-range operator index is in range for the merged modes -/
theorem dm_mergeIdx_inRange {ij : List (Nat × Nat)} {cs : List (Core α)} (h : dm_InRange ij cs) :
    List.Forall₂ (· < ·) (dm_mergeIdx (modesN cs) ij) (modesM (cs.map mergeModes)) := by
  induction h with
  | nil => exact List.Forall₂.nil
  | @cons p c ps cs' hp _ ih =>
    simp only [modesN, modesM, List.map_cons, dm_mergeIdx_cons]
    exact List.Forall₂.cons (dc_merge_lt hp.1 hp.2) ih

/-! ### (1) `mergeModes` -/

/-- merging the modes keeps every transfer-matrix product (only `ij[k].2 < cs[k].n` is used) -/
theorem chain_mergeModes (cs : List (Core α)) (ij : List (Nat × Nat)) (a b : Nat) (h : dm_InRange ij cs) :
    chain (cs.map mergeModes) (tIdx (dm_mergeIdx (modesN cs) ij)) a b = chain cs ij a b := by
  induction h generalizing a with
  | nil => rfl
  | @cons p c ps cs' hp _ ih =>
    simp only [modesN, List.map_cons, dm_mergeIdx_cons, dc_tIdx_cons, chain]
    have hn : 0 < c.n := by omega
    have h1 : (p.1 * c.n + p.2) / c.n = p.1 := by
      rw [Nat.mul_comm, Nat.mul_add_div hn, Nat.div_eq_of_lt hp.2]; rfl
    have h2 : (p.1 * c.n + p.2) % c.n = p.2 := by
      rw [Nat.mul_comm, Nat.mul_add_mod, Nat.mod_eq_of_lt hp.2]
    apply sumTo_congr
    intro k _
    have := ih k
    simp only [modesN] at this
    rw [this]
    simp only [mergeModes, h1, h2]

/-- **`mergeModes` is a re-indexing**: entry `(i_k, j_k)_k` of the TT-matrix is entry `(i_k·n_k + j_k)_k` of the merged train -/
theorem full_mergeModes (cs : List (Core α)) (ij : List (Nat × Nat)) (h : dm_InRange ij cs) :
    full (cs.map mergeModes) (tIdx (dm_mergeIdx (modesN cs) ij)) = full cs ij :=
  chain_mergeModes cs ij 0 0 h

/-- ranks are untouched by `mergeModes` -/
theorem WF_mergeModes (cs : List (Core α)) (r : Nat) : WF (cs.map mergeModes) r ↔ WF cs r := by
  induction cs generalizing r with
  | nil => exact Iff.rfl
  | cons c cs ih =>
    simp only [List.map_cons, WF]
    exact and_congr Iff.rfl (ih c.r1)

/-- the merged modes are `m_k · n_k`, and the merged train is a tensor train -/
theorem modesM_mergeModes (cs : List (Core α)) :
    modesM (cs.map mergeModes) = (modesMN' cs).map (fun mn => mn.1 * mn.2) := by
  simp [modesM, modesMN', mergeModes]

theorem modesN_mergeModes (cs : List (Core α)) : modesN (cs.map mergeModes) = cs.map (fun _ => 1) := by
  induction cs with
  | nil => rfl
  | cons c cs ih =>
    simp only [modesN, List.map_cons] at ih ⊢
    rw [ih]; rfl

theorem isTensor_mergeModes (cs : List (Core α)) : IsTensor (cs.map mergeModes) := by
  induction cs with
  | nil => trivial
  | cons c cs ih => exact ⟨rfl, ih⟩

/-! ### (2) `splitAll` -/

/-- splitting the modes keeps every transfer-matrix product; no range hypothesis is needed, only that there is a mode
pair for every core -/
theorem chain_splitAll (mns : List (Nat × Nat)) (ts : List (Core α)) (ij : List (Nat × Nat)) (a b : Nat)
    (hlen : mns.length = ts.length) :
    chain (splitAll mns ts) ij a b = chain ts (tIdx (dm_mergeIdx (mns.map Prod.snd) ij)) a b := by
  induction ts generalizing mns ij a with
  | nil =>
    cases mns with
    | nil => rfl
    | cons mn mns => simp at hlen
  | cons c ts ih =>
    cases mns with
    | nil => simp at hlen
    | cons mn mns =>
      cases ij with
      | nil => rfl
      | cons p ps =>
        simp only [splitAll, List.map_cons, dm_mergeIdx_cons, dc_tIdx_cons, chain]
        apply sumTo_congr
        intro k _
        rw [ih mns ps k (by simpa using hlen)]
        simp only [splitModes]

/-- **`splitAll` is the inverse re-indexing**: entry `(i_k, j_k)_k` of the split train is entry `(i_k·n_k + j_k)_k` of `ts` -/
theorem full_splitAll (mns : List (Nat × Nat)) (ts : List (Core α)) (ij : List (Nat × Nat))
    (hlen : mns.length = ts.length) :
    full (splitAll mns ts) ij = full ts (tIdx (dm_mergeIdx (mns.map Prod.snd) ij)) :=
  chain_splitAll mns ts ij 0 0 hlen

theorem WF_splitAll (mns : List (Nat × Nat)) (ts : List (Core α)) (r : Nat) (hlen : mns.length = ts.length) :
    WF (splitAll mns ts) r ↔ WF ts r := by
  induction ts generalizing mns r with
  | nil =>
    cases mns with
    | nil => exact Iff.rfl
    | cons mn mns => simp at hlen
  | cons c ts ih =>
    cases mns with
    | nil => simp at hlen
    | cons mn mns =>
      simp only [splitAll, WF]
      exact and_congr Iff.rfl (ih mns c.r1 (by simpa using hlen))

/-- the mode sizes of the split train are the requested pairs -/
theorem modesMN'_splitAll (mns : List (Nat × Nat)) (ts : List (Core α)) (hlen : mns.length = ts.length) :
    modesMN' (splitAll mns ts) = mns := by
  induction ts generalizing mns with
  | nil =>
    cases mns with
    | nil => rfl
    | cons mn mns => simp at hlen
  | cons c ts ih =>
    cases mns with
    | nil => simp at hlen
    | cons mn mns =>
      simp only [splitAll, modesMN', List.map_cons]
      have := ih mns (by simpa using hlen)
      simp only [modesMN'] at this
      rw [this]
      rfl

/-- splitting after merging gives the train back entrywise (in range) -/
theorem full_splitAll_mergeModes (cs : List (Core α)) (ij : List (Nat × Nat)) (h : dm_InRange ij cs) :
    full (splitAll (modesMN' cs) (cs.map mergeModes)) ij = full cs ij := by
  rw [full_splitAll _ _ _ (by simp [modesMN']), dm_modesMN'_snd]
  exact full_mergeModes cs ij h

/-! ### (3) `lrOrthM`, `roundTTM` -/

theorem dm_length_of_modes {xs ys : List (Core α)} (h : modesM xs = modesM ys) : xs.length = ys.length := by
  have := congrArg List.length h
  simpa [modesM] using this

theorem dm_lrOrth_length (qr : Oracle α) (cs : List (Core α)) : (lrOrth qr cs).length = cs.length :=
  dm_length_of_modes (lrOrth_modes qr cs)

theorem dm_roundTT_length (qr svd : Oracle α) (cs : List (Core α)) : (roundTT qr svd cs).length = cs.length :=
  dm_length_of_modes (roundTT_modes qr svd cs)

/-- **`lr_orthogonal(is_ttm=True)` is a gauge change**: with `Q·R = M` every in-range entry of the TT-matrix is unchanged -/
theorem lrOrthM_full (qr : Oracle α) (hqr : Exact qr) (cs : List (Core α)) (ij : List (Nat × Nat))
    (hwf : WF cs 1) (hr : dm_InRange ij cs) :
    full (lrOrthM qr cs) ij = full cs ij := by
  unfold lrOrthM
  rw [full_splitAll _ _ _ (by rw [dm_lrOrth_length]; simp [modesMN']), dm_modesMN'_snd,
    lrOrth_full qr hqr _ _ ((WF_mergeModes cs 1).mpr hwf) (dm_mergeIdx_inRange hr)]
  exact full_mergeModes cs ij hr

/-- **`round_tt(is_ttm=True)` with exact factorisations (no truncation) returns the same operator** -/
theorem roundTTM_full (qr svd : Oracle α) (hqr : Exact qr) (hsvd : Exact svd) (cs : List (Core α))
    (ij : List (Nat × Nat)) (hwf : WF cs 1) (hr : dm_InRange ij cs) :
    full (roundTTM qr svd cs) ij = full cs ij := by
  unfold roundTTM
  rw [full_splitAll _ _ _ (by rw [dm_roundTT_length]; simp [modesMN']), dm_modesMN'_snd,
    roundTT_full qr svd hqr hsvd _ _ ((WF_mergeModes cs 1).mpr hwf) (dm_mergeIdx_inRange hr)]
  exact full_mergeModes cs ij hr

/-- ranks still chain (any oracle) -/
theorem lrOrthM_WF (qr : Oracle α) (cs : List (Core α)) (r0 : Nat) (hwf : WF cs r0) : WF (lrOrthM qr cs) r0 := by
  unfold lrOrthM
  rw [WF_splitAll _ _ _ (by rw [dm_lrOrth_length]; simp [modesMN'])]
  exact lrOrth_WF qr _ r0 ((WF_mergeModes cs r0).mpr hwf)

/-- ranks still chain (any oracles) -/
theorem roundTTM_WF (qr svd : Oracle α) (cs : List (Core α)) (r0 : Nat) (hwf : WF cs r0) :
    WF (roundTTM qr svd cs) r0 := by
  unfold roundTTM
  rw [WF_splitAll _ _ _ (by rw [dm_roundTT_length]; simp [modesMN'])]
  exact roundTT_WF qr svd _ r0 ((WF_mergeModes cs r0).mpr hwf)

/-- row and column mode sizes preserved (any oracle) -/
theorem lrOrthM_modes (qr : Oracle α) (cs : List (Core α)) : modesMN' (lrOrthM qr cs) = modesMN' cs := by
  unfold lrOrthM
  exact modesMN'_splitAll _ _ (by rw [dm_lrOrth_length]; simp [modesMN'])

/-- row and column mode sizes preserved (any oracles) -/
theorem roundTTM_modes (qr svd : Oracle α) (cs : List (Core α)) : modesMN' (roundTTM qr svd cs) = modesMN' cs := by
  unfold roundTTM
  exact modesMN'_splitAll _ _ (by rw [dm_roundTT_length]; simp [modesMN'])

theorem lrOrthM_modesM (qr : Oracle α) (cs : List (Core α)) : modesM (lrOrthM qr cs) = modesM cs := by
  rw [← dm_modesMN'_fst, lrOrthM_modes, dm_modesMN'_fst]

theorem lrOrthM_modesN (qr : Oracle α) (cs : List (Core α)) : modesN (lrOrthM qr cs) = modesN cs := by
  rw [← dm_modesMN'_snd, lrOrthM_modes, dm_modesMN'_snd]

theorem roundTTM_modesM (qr svd : Oracle α) (cs : List (Core α)) : modesM (roundTTM qr svd cs) = modesM cs := by
  rw [← dm_modesMN'_fst, roundTTM_modes, dm_modesMN'_fst]

theorem roundTTM_modesN (qr svd : Oracle α) (cs : List (Core α)) : modesN (roundTTM qr svd cs) = modesN cs := by
  rw [← dm_modesMN'_snd, roundTTM_modes, dm_modesMN'_snd]

/-- the sweeps keep the sizes of the train: same modes core by core -/
theorem lrOrthM_length (qr : Oracle α) (cs : List (Core α)) : (lrOrthM qr cs).length = cs.length :=
  dm_length_of_modes (lrOrthM_modesM qr cs)

theorem roundTTM_length (qr svd : Oracle α) (cs : List (Core α)) : (roundTTM qr svd cs).length = cs.length :=
  dm_length_of_modes (roundTTM_modesM qr svd cs)

/-! ### concrete instances -/

/-- an order-2 integer TT-matrix with ranks `[1,2,1]`, row modes `[2,3]`, column modes `[3,2]` -/
def dm_exM : List (Core Int) :=
  [ { r0 := 1, m := 2, n := 3, r1 := 2, get := fun _ i j b => 2 * (i : Int) - j + 3 * b - 1 },
    { r0 := 2, m := 3, n := 2, r1 := 1, get := fun a i j _ => (a : Int) * i + 2 * j - a + 1 } ]

theorem dm_exM_WF : WF dm_exM 1 := ⟨rfl, rfl, rfl⟩
example : modesMN' dm_exM = [(2, 3), (3, 2)] := by decide

theorem dm_exM_inRange : dm_InRange [(1, 2), (2, 1)] dm_exM :=
  dm_inRange_of_get _ _ rfl (by decide)

example : dm_mergeIdx (modesN dm_exM) [(1, 2), (2, 1)] = [5, 5] := by decide

/-- the merged train read at the merged index -/
example : full (dm_exM.map mergeModes) (tIdx [5, 5]) = full dm_exM [(1, 2), (2, 1)] :=
  full_mergeModes dm_exM [(1, 2), (2, 1)] dm_exM_inRange

example : full dm_exM [(1, 2), (2, 1)] = 5 := by decide

/-- the general theorems instantiated with the uncapped identity oracle (non-vacuity of the hypotheses) -/
example : full (lrOrthM dc_idFull dm_exM) [(1, 2), (2, 1)] = full dm_exM [(1, 2), (2, 1)] :=
  lrOrthM_full dc_idFull dc_idFull_exact dm_exM _ dm_exM_WF dm_exM_inRange

example : full (roundTTM dc_idFull dc_idFull dm_exM) [(1, 2), (2, 1)] = full dm_exM [(1, 2), (2, 1)] :=
  roundTTM_full dc_idFull dc_idFull dc_idFull_exact dc_idFull_exact dm_exM _ dm_exM_WF dm_exM_inRange

/-- evaluated: all 36 entries are kept by the concrete (uncapped) oracle of the correspondence run -/
example : ∀ i0 < 2, ∀ j0 < 3, ∀ i1 < 3, ∀ j1 < 2,
    full (roundTTM (idOracle 100) (idOracle 100) dm_exM) [(i0, j0), (i1, j1)] = full dm_exM [(i0, j0), (i1, j1)] := by
  decide

example : ∀ i0 < 2, ∀ j0 < 3, ∀ i1 < 3, ∀ j1 < 2,
    full (lrOrthM (idOracle 100) dm_exM) [(i0, j0), (i1, j1)] = full dm_exM [(i0, j0), (i1, j1)] := by
  decide

/-- truncation changes the operator: the exactness hypotheses are not vacuous -/
example : full (roundTTM (idOracle 100) (idOracle 1) dm_exM) [(1, 2), (2, 1)] ≠ full dm_exM [(1, 2), (2, 1)] := by
  decide

example : full (lrOrthM (idOracle 1) dm_exM) [(1, 2), (2, 1)] ≠ full dm_exM [(1, 2), (2, 1)] := by decide

example : WF (roundTTM (idOracle 1) (idOracle 1) dm_exM) 1 := roundTTM_WF _ _ _ _ dm_exM_WF
example : modesMN' (roundTTM (idOracle 1) (idOracle 1) dm_exM) = [(2, 3), (3, 2)] := by
  rw [roundTTM_modes]; decide

end TT.C02

#print axioms TT.C02.full_mergeModes
#print axioms TT.C02.full_splitAll
#print axioms TT.C02.WF_mergeModes
#print axioms TT.C02.modesM_mergeModes
#print axioms TT.C02.lrOrthM_full
#print axioms TT.C02.roundTTM_full
#print axioms TT.C02.lrOrthM_WF
#print axioms TT.C02.roundTTM_WF
#print axioms TT.C02.lrOrthM_modes
#print axioms TT.C02.roundTTM_modes
