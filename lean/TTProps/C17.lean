import TTLemmas.Trunc
import TTProps.C01

/-!
# C17 — the C++ twin `cpp/ortho.h::rank_chop` versus the Python `rank_chop`

`rankChopCpp` models the counting-down `while (r > 0)` loop of `ortho.h`.  For `0 < eps` it returns
the least rank `R ∈ [1, n]` with `‖s[R:]‖² < eps²` (strict), the Python version the least one with
`‖s[R:]‖² ≤ eps²`: they agree except at exact ties.  For `eps ≤ 0` the C++ version returns `n - 1`
(it drops the last singular value, and returns the invalid rank `0` for `n = 1`) whereas Python
returns `n`: a defect of the C++ backend, documented by `cpp_eps_nonpos` and the examples after it.

Same generality as C01: strictly ordered commutative ring, arbitrary decidability instances.
-/
namespace TT.C17
open TT.Trunc

variable {α : Type} [CommRing α] [LinearOrder α] [IsStrictOrderedRing α]
  [DecidableEq α] [DecidableRel (fun (a b : α) => a < b)] [DecidableRel (fun (a b : α) => a ≤ b)]

omit [IsStrictOrderedRing α] [DecidableRel (fun (a b : α) => a < b)] in
/-- shape of the result in the main branch -/
theorem cpp_eq_loop (s : List α) (eps : α) (h0 : tailE s 0 ≠ 0) (heps : 0 < eps) :
    rankChopCpp s eps = cppLoop s (eps * eps) (s.length - 1) + 1 := by
  unfold rankChopCpp
  rw [if_neg h0, if_neg (not_le.mpr heps), clamp1_eq]
  omega

/-! ### (8) valid rank (for `0 < eps`) -/

omit [IsStrictOrderedRing α] [DecidableRel (fun (a b : α) => a < b)] in
theorem cpp_bounds (s : List α) (eps : α) (hs : s ≠ []) (heps : 0 < eps) :
    1 ≤ rankChopCpp s eps ∧ rankChopCpp s eps ≤ s.length := by
  have hn : 0 < s.length := List.length_pos_of_ne_nil hs
  by_cases h0 : tailE s 0 = 0
  · unfold rankChopCpp; rw [if_pos h0]; omega
  · rw [cpp_eq_loop s eps h0 heps]
    have := cppLoop_le s (eps * eps) (s.length - 1)
    omega

example : 1 ≤ rankChopCpp ([3, 2, 1] : List Int) 2 ∧ rankChopCpp ([3, 2, 1] : List Int) 2 ≤ 3 :=
  cpp_bounds (α := Int) _ _ (by decide) (by decide)

/-- `0 < eps` cannot be dropped: for a single non-zero singular value and `eps = 0` the C++ code
returns rank `0`. -/
theorem cpp_bounds_eps_zero_counterexample : ¬ (1 ≤ rankChopCpp ([5] : List Int) 0) := by decide

/-! ### (9) discarded energy within the allowance (strictly) -/

omit [DecidableRel (fun (a b : α) => a < b)] in
/-- For `0 < eps` the C++ loop discards *strictly* less than `eps²` (the loop breaks on `>=`).
Holds for every list, also `[]`. -/
theorem cpp_tail_strict (s : List α) (eps : α) (heps : 0 < eps) :
    tailE s (rankChopCpp s eps) < eps * eps := by
  have he2 : 0 < eps * eps := mul_pos heps heps
  by_cases h0 : tailE s 0 = 0
  · rw [tailE_eq_zero_of_zero s h0]; exact he2
  · rw [cpp_eq_loop s eps h0 heps]
    by_cases hlt : cppLoop s (eps * eps) (s.length - 1) + 1 ≤ s.length - 1
    · exact cppLoop_above s (eps * eps) (s.length - 1) _ (by omega) hlt
    · rw [tailE_ge_len s (by omega)]; exact he2

omit [DecidableRel (fun (a b : α) => a < b)] in
theorem cpp_tail (s : List α) (eps : α) (heps : 0 < eps) :
    tailE s (rankChopCpp s eps) ≤ eps * eps := le_of_lt (cpp_tail_strict s eps heps)

example : tailE ([3, 2, 1] : List Int) (rankChopCpp [3, 2, 1] 2) < (2 : Int) * 2 :=
  cpp_tail_strict (α := Int) _ _ (by decide)

omit [DecidableRel (fun (a b : α) => a < b)] in
/-- minimality: the C++ rank is below every `k ≥ 1` whose tail is strictly inside the allowance -/
theorem cpp_least (s : List α) (eps : α) (k : Nat) (heps : 0 < eps) (hk : 1 ≤ k)
    (ht : tailE s k < eps * eps) : rankChopCpp s eps ≤ k := by
  by_cases h0 : tailE s 0 = 0
  · unfold rankChopCpp; rw [if_pos h0]; exact hk
  · rw [cpp_eq_loop s eps h0 heps]
    by_contra hlt
    have hpos : 0 < cppLoop s (eps * eps) (s.length - 1) := by omega
    have h1 := cppLoop_hit s (eps * eps) (s.length - 1) hpos
    have h2 : tailE s (cppLoop s (eps * eps) (s.length - 1)) ≤ tailE s k :=
      TT.Trunc.tailE_anti s (by omega)
    exact absurd (le_trans h1 h2) (not_le.mpr ht)

example : rankChopCpp ([3, 2, 1] : List Int) 3 ≤ 1 :=
  cpp_least (α := Int) _ _ 1 (by decide) (by decide) (by decide)

/-! ### (10) same rank as Python except at exact ties -/

/-- For `0 < eps`: if no tail energy `‖s[k:]‖²`, `1 ≤ k < n`, equals `eps²` exactly, both backends
choose the same rank.  No extra condition is needed: a tie at `k = 0` is harmless (both return `1`),
the zero-norm branch returns `1` in both, and the statement also holds for `s = []`. -/
theorem cpp_eq_py_of_no_tie (s : List α) (eps : α) (heps : 0 < eps)
    (hnt : ∀ k, 1 ≤ k → k < s.length → tailE s k ≠ eps * eps) :
    rankChopCpp s eps = rankChop s eps := by
  by_cases hs : s = []
  · subst hs; simp [rankChopCpp, rankChop, tailE, sqSum]
  apply le_antisymm
  · -- C++ ≤ Python: the Python rank has tail ≤ eps², hence < eps² (no tie) or it is `n`
    have hb := C01.rankChop_bounds s eps hs
    by_cases hfull : rankChop s eps < s.length
    · refine cpp_least s eps _ heps hb.1 (lt_of_le_of_ne (C01.rankChop_tail s eps) ?_)
      exact hnt _ hb.1 hfull
    · exact le_trans (cpp_bounds s eps hs heps).2 (by omega)
  · exact C01.rankChop_least s eps _ heps (cpp_bounds s eps hs heps).1 (cpp_tail s eps heps)

example : rankChopCpp ([3, 2, 1] : List Int) 2 = rankChop ([3, 2, 1] : List Int) 2 :=
  cpp_eq_py_of_no_tie (α := Int) _ _ (by decide) (by decide)

/-- at an exact tie the two backends differ: C++ keeps one more singular value -/
theorem cpp_ne_py_at_tie :
    rankChopCpp ([1, 1, 1, 1] : List Int) 1 = 4 ∧ rankChop ([1, 1, 1, 1] : List Int) 1 = 3 := by
  decide

/-- in general (for `0 < eps`) the C++ rank is never below the Python rank -/
theorem py_le_cpp (s : List α) (eps : α) (hs : s ≠ []) (heps : 0 < eps) :
    rankChop s eps ≤ rankChopCpp s eps :=
  C01.rankChop_least s eps _ heps (cpp_bounds s eps hs heps).1 (cpp_tail s eps heps)

/-! ### (11) the `eps ≤ 0` branch: C++ drops the last singular value -/

omit [IsStrictOrderedRing α] in
theorem cpp_eps_nonpos (s : List α) (eps : α) (h0 : tailE s 0 ≠ 0) (heps : eps ≤ 0) :
    rankChopCpp s eps = s.length - 1 ∧ rankChop s eps = s.length := by
  unfold rankChopCpp rankChop
  rw [if_neg h0, if_pos heps, if_neg h0, if_pos heps]
  exact ⟨rfl, rfl⟩

example : rankChopCpp ([3, 2, 1] : List Int) 0 = 2 ∧ rankChop ([3, 2, 1] : List Int) 0 = 3 :=
  cpp_eps_nonpos (α := Int) _ _ (by decide) (by decide)

/-- defect of the C++ backend: with `eps = 0` ("no truncation") a non-zero singular value is
discarded -/
example : tailE ([3, 2, 1] : List Int) (rankChopCpp ([3, 2, 1] : List Int) 0) ≠ 0 := by decide

theorem cpp_eps_zero_drops :
    tailE ([3, 2, 1] : List Int) (rankChopCpp ([3, 2, 1] : List Int) 0) = 1 ∧
    tailE ([3, 2, 1] : List Int) (rankChop ([3, 2, 1] : List Int) 0) = 0 := by decide

end TT.C17
