import TTProps.C15

/-!
# C15b — programs (`let`-bound scaled operands) : TT evaluation = dense evaluation, with gradients

`evalProg envT envM lets e` (`TTModel/Expr.lean`) runs a *program*: for each `(i, s)` of `lets` the
new tensor operand `T_new := T_i * s` is appended to the environment, `s` being an arbitrary scalar
expression over the operands defined so far (the `x * torchtt.dot(x, y)` pattern: the scalar factor
itself depends on the cores), then the scalar head `e` is evaluated.  `denseProg` does the same on
dense operands.

* `TypedProg` — typing of programs,
* `evalProg_eq_dense` — over an arbitrary commutative ring the core-by-core value of a typed
  program equals the dense value, the dense operands being the `full` arrays of the TT operands,
* `gradProg_eq_dense` (`'`, `_driver`) — the instance `α := Dual β`: value **and** ε-part agree, i.e.
  forward-mode differentiation through the TT program gives the derivative of the dense program,
  also through the scalar factors of the `let`s,
* weakening lemmas (`typedT_append`, `typedS_append`, `evalT_append`, `evalS_append`): expressions
  typed in an environment stay typed, with the same value, when operands are appended, so the
  scalars / head of a program may be typed in any earlier environment (`TypedProg.of_typedS`),
* congruence of the dense semantics (`denseT_congr`, `denseS_congr`, `denseProg_congr`): only the
  values of the dense operands on multi-indices of length `ns.length` matter.
-/
namespace TT.C15
open TT
variable {α : Type} [CommRing α] [DecidableEq α]

/-! ### (1) typing of programs -/

/-- typing of programs: the scaled operand exists and is a typed tensor operand, the scalar is
    typed over the operands defined so far, the rest is typed over the extended environment -/
def TypedProg (ns : List Nat) (envT envM : List (List (Core α))) :
    List (Nat × SE α) → SE α → Prop
  | [], e => TypedS ns envT envM e
  | (i, s) :: rest, e =>
    TypedV ns envT i ∧ TypedS ns envT envM s ∧
      TypedProg ns (envT ++ [smul (envT.getD i []) (evalS envT envM s)]) envM rest e

/-! ### (2) appending operands: lookups, typing and values are preserved -/

omit [CommRing α] [DecidableEq α] in
theorem c15b_getD_append_lt (envT : List (List (Core α))) (x : List (Core α)) {j : Nat}
    (h : j < envT.length) : (envT ++ [x]).getD j [] = envT.getD j [] := by
  simp [List.getD_eq_getElem?_getD, List.getElem?_append_left h]

omit [CommRing α] [DecidableEq α] in
theorem c15b_getD_append_ne (envT : List (List (Core α))) (x : List (Core α)) {j : Nat}
    (h : j ≠ envT.length) : (envT ++ [x]).getD j [] = envT.getD j [] := by
  rcases Nat.lt_or_gt_of_ne h with h | h
  · exact c15b_getD_append_lt envT x h
  · have h1 : envT.length ≤ j := by omega
    have h2 : (envT ++ [x]).length ≤ j := by simp; omega
    simp [List.getD_eq_getElem?_getD, List.getElem?_eq_none h1, List.getElem?_eq_none h2]

omit [CommRing α] [DecidableEq α] in
theorem c15b_getD_append_self (envT : List (List (Core α))) (x : List (Core α)) :
    (envT ++ [x]).getD envT.length [] = x := by
  simp [List.getD_eq_getElem?_getD]

omit [CommRing α] [DecidableEq α] in
/-- a typed operand stays typed when an operand is appended -/
theorem typedV_append (ns : List Nat) (envT : List (List (Core α))) (x : List (Core α)) (i : Nat)
    (h : TypedV ns envT i) : TypedV ns (envT ++ [x]) i := by
  obtain ⟨hi, hw, hm, ht⟩ := h
  unfold TypedV
  rw [c15b_getD_append_lt envT x hi]
  exact ⟨by simp; omega, hw, hm, ht⟩

omit [CommRing α] [DecidableEq α] in
/-- the appended operand is typed as soon as it is a well-formed tensor train with modes `ns` -/
theorem typedV_append_self (ns : List Nat) (envT : List (List (Core α))) (x : List (Core α))
    (hx : TShape ns x) : TypedV ns (envT ++ [x]) envT.length := by
  unfold TypedV
  rw [c15b_getD_append_self]
  exact ⟨by simp, hx.1, hx.2.1, hx.isTensor⟩

omit [CommRing α] [DecidableEq α] in
theorem typedT_append (ns : List Nat) (envT envM : List (List (Core α))) (x : List (Core α))
    (e : TE α) (h : TypedT ns envT envM e) : TypedT ns (envT ++ [x]) envM e := by
  induction e with
  | var i => exact ⟨h.1, typedV_append ns envT x i h.2⟩
  | add a b iha ihb => simp only [TypedT] at h ⊢; exact ⟨iha h.1, ihb h.2⟩
  | sub a b iha ihb => simp only [TypedT] at h ⊢; exact ⟨iha h.1, ihb h.2⟩
  | mul a b iha ihb => simp only [TypedT] at h ⊢; exact ⟨iha h.1, ihb h.2⟩
  | neg a iha => simp only [TypedT] at h ⊢; exact iha h
  | smul a s iha => simp only [TypedT] at h ⊢; exact iha h
  | adds a s iha => simp only [TypedT] at h ⊢; exact iha h
  | mv A a iha => simp only [TypedT] at h ⊢; exact ⟨h.1, iha h.2⟩
  | kron a b => simp only [TypedT] at h
  | cat d a b => simp only [TypedT] at h
  | pad a p v => simp only [TypedT] at h
  | mprod a m r F => simp only [TypedT] at h
  | sumsel a idx => simp only [TypedT] at h
  | getitem a sel => simp only [TypedT] at h

omit [CommRing α] [DecidableEq α] in
theorem typedS_append (ns : List Nat) (envT envM : List (List (Core α))) (x : List (Core α))
    (e : SE α) (h : TypedS ns envT envM e) : TypedS ns (envT ++ [x]) envM e := by
  induction e with
  | sumall a => simp only [TypedS] at h ⊢; exact typedT_append ns envT envM x a h
  | dot a b =>
    simp only [TypedS] at h ⊢
    exact ⟨typedT_append ns envT envM x a h.1, typedT_append ns envT envM x b h.2⟩
  | normsq a => simp only [TypedS] at h ⊢; exact typedT_append ns envT envM x a h
  | entry a idx => simp only [TypedS] at h ⊢; exact ⟨typedT_append ns envT envM x a h.1, h.2⟩
  | bil a A b =>
    simp only [TypedS] at h ⊢
    exact ⟨typedT_append ns envT envM x a h.1, h.2.1, typedT_append ns envT envM x b h.2.2⟩
  | add u w ihu ihw => simp only [TypedS] at h ⊢; exact ⟨ihu h.1, ihw h.2⟩
  | mul u w ihu ihw => simp only [TypedS] at h ⊢; exact ⟨ihu h.1, ihw h.2⟩
  | const c => trivial

/-- the TT value of an expression typed in `envT` does not see appended operands -/
theorem evalT_append (ns : List Nat)
    (envT envM : List (List (Core α))) (x : List (Core α))
    (e : TE α) (h : TypedT ns envT envM e) :
    evalT (envT ++ [x]) envM e = evalT envT envM e := by
  induction e with
  | var i => exact c15b_getD_append_lt envT x h.2.1
  | add a b iha ihb => simp only [TypedT] at h; simp only [evalT, iha h.1, ihb h.2]
  | sub a b iha ihb => simp only [TypedT] at h; simp only [evalT, iha h.1, ihb h.2]
  | mul a b iha ihb => simp only [TypedT] at h; simp only [evalT, iha h.1, ihb h.2]
  | neg a iha => simp only [TypedT] at h; simp only [evalT, iha h]
  | smul a s iha => simp only [TypedT] at h; simp only [evalT, iha h]
  | adds a s iha => simp only [TypedT] at h; simp only [evalT, iha h]
  | mv A a iha => simp only [TypedT] at h; simp only [evalT, iha h.2]
  | kron a b => simp only [TypedT] at h
  | cat d a b => simp only [TypedT] at h
  | pad a p v => simp only [TypedT] at h
  | mprod a m r F => simp only [TypedT] at h
  | sumsel a idx => simp only [TypedT] at h
  | getitem a sel => simp only [TypedT] at h

/-- the scalar value of an expression typed in `envT` does not see appended operands -/
theorem evalS_append (ns : List Nat)
    (envT envM : List (List (Core α))) (x : List (Core α))
    (e : SE α) (h : TypedS ns envT envM e) :
    evalS (envT ++ [x]) envM e = evalS envT envM e := by
  induction e with
  | sumall a => simp only [TypedS] at h; simp only [evalS, evalT_append ns envT envM x a h]
  | dot a b =>
    simp only [TypedS] at h
    simp only [evalS, evalT_append ns envT envM x a h.1, evalT_append ns envT envM x b h.2]
  | normsq a => simp only [TypedS] at h; simp only [evalS, evalT_append ns envT envM x a h]
  | entry a idx => simp only [TypedS] at h; simp only [evalS, evalT_append ns envT envM x a h.1]
  | bil a A b =>
    simp only [TypedS] at h
    simp only [evalS, evalT_append ns envT envM x a h.1, evalT_append ns envT envM x b h.2.2]
  | add u w ihu ihw => simp only [TypedS] at h; simp only [evalS, ihu h.1, ihw h.2]
  | mul u w ihu ihw => simp only [TypedS] at h; simp only [evalS, ihu h.1, ihw h.2]
  | const c => rfl

/-- the operand a `let` appends is again a typed tensor operand (shape preservation of `smul`) -/
theorem typedV_let (ns : List Nat) (envT : List (List (Core α))) (i : Nat) (c : α)
    (h : TypedV ns envT i) :
    TypedV ns (envT ++ [smul (envT.getD i []) c]) envT.length :=
  typedV_append_self ns envT _
    ((TShape.of_typedV h).congr (WF_smul_expr _ c (TShape.of_typedV h).1) (modesMN_smul _ c))

/-- a sufficient condition for `TypedProg` that only mentions the *initial* environment: every
    scaled operand and every scalar / the head is typed over the initial operands (then, by
    weakening, over every extension) -/
theorem TypedProg.of_typedS (ns : List Nat) (envT envM : List (List (Core α)))
    (lets : List (Nat × SE α)) (e : SE α)
    (hl : ∀ p ∈ lets, TypedV ns envT p.1 ∧ TypedS ns envT envM p.2) (he : TypedS ns envT envM e) :
    TypedProg ns envT envM lets e := by
  induction lets generalizing envT with
  | nil => exact he
  | cons p rest ih =>
    obtain ⟨i, s⟩ := p
    have hp := hl (i, s) (List.mem_cons_self ..)
    refine ⟨hp.1, hp.2, ih _ (fun q hq => ?_) (typedS_append ns envT envM _ e he)⟩
    have hq' := hl q (List.mem_cons_of_mem _ hq)
    exact ⟨typedV_append ns envT _ q.1 hq'.1, typedS_append ns envT envM _ q.2 hq'.2⟩

/-! ### (3) the dense semantics only looks at multi-indices of length `ns.length` -/

omit [DecidableEq α] in
theorem denseT_congr (ns : List Nat) (D1 D2 : Nat → Dense α) (dM : Nat → List Nat → List Nat → α)
    (hD : ∀ j is, is.length = ns.length → D1 j is = D2 j is) (e : TE α) (f : Dense α)
    (hf : denseT ns D1 dM e = some f) :
    ∃ g, denseT ns D2 dM e = some g ∧ ∀ is : List Nat, is.length = ns.length → f is = g is := by
  induction e generalizing f with
  | var i =>
    simp only [denseT, Option.some.injEq] at hf
    subst hf
    exact ⟨D2 i, rfl, fun is hil => hD i is hil⟩
  | add a b iha ihb =>
    simp only [denseT] at hf
    split at hf
    · rename_i f1 f2 h1 h2
      simp only [Option.some.injEq] at hf; subst hf
      obtain ⟨g1, hg1, e1⟩ := iha f1 h1
      obtain ⟨g2, hg2, e2⟩ := ihb f2 h2
      exact ⟨fun is => g1 is + g2 is, by simp only [denseT, hg1, hg2],
        fun is hil => by simp only [e1 is hil, e2 is hil]⟩
    · simp at hf
  | sub a b iha ihb =>
    simp only [denseT] at hf
    split at hf
    · rename_i f1 f2 h1 h2
      simp only [Option.some.injEq] at hf; subst hf
      obtain ⟨g1, hg1, e1⟩ := iha f1 h1
      obtain ⟨g2, hg2, e2⟩ := ihb f2 h2
      exact ⟨fun is => g1 is + - g2 is, by simp only [denseT, hg1, hg2],
        fun is hil => by simp only [e1 is hil, e2 is hil]⟩
    · simp at hf
  | mul a b iha ihb =>
    simp only [denseT] at hf
    split at hf
    · rename_i f1 f2 h1 h2
      simp only [Option.some.injEq] at hf; subst hf
      obtain ⟨g1, hg1, e1⟩ := iha f1 h1
      obtain ⟨g2, hg2, e2⟩ := ihb f2 h2
      exact ⟨fun is => g1 is * g2 is, by simp only [denseT, hg1, hg2],
        fun is hil => by simp only [e1 is hil, e2 is hil]⟩
    · simp at hf
  | neg a iha =>
    simp only [denseT, Option.map_eq_some_iff] at hf
    obtain ⟨f1, h1, rfl⟩ := hf
    obtain ⟨g1, hg1, e1⟩ := iha f1 h1
    exact ⟨fun is => - g1 is, by simp only [denseT, hg1, Option.map_some],
      fun is hil => by simp only [e1 is hil]⟩
  | smul a s iha =>
    simp only [denseT, Option.map_eq_some_iff] at hf
    obtain ⟨f1, h1, rfl⟩ := hf
    obtain ⟨g1, hg1, e1⟩ := iha f1 h1
    exact ⟨fun is => g1 is * s, by simp only [denseT, hg1, Option.map_some],
      fun is hil => by simp only [e1 is hil]⟩
  | adds a s iha =>
    simp only [denseT, Option.map_eq_some_iff] at hf
    obtain ⟨f1, h1, rfl⟩ := hf
    obtain ⟨g1, hg1, e1⟩ := iha f1 h1
    exact ⟨fun is => g1 is + s, by simp only [denseT, hg1, Option.map_some],
      fun is hil => by simp only [e1 is hil]⟩
  | mv A a iha =>
    simp only [denseT, Option.map_eq_some_iff] at hf
    obtain ⟨f1, h1, rfl⟩ := hf
    obtain ⟨g1, hg1, e1⟩ := iha f1 h1
    refine ⟨fun is => sumIdx ns (fun ks => dM A is ks * g1 ks),
      by simp only [denseT, hg1, Option.map_some], fun is _ => ?_⟩
    exact sumIdx_congr_len (fun ks hks => by rw [e1 ks hks])
  | kron a b => simp [denseT] at hf
  | cat d a b => simp [denseT] at hf
  | pad a p v => simp [denseT] at hf
  | mprod a m r F => simp [denseT] at hf
  | sumsel a idx => simp [denseT] at hf
  | getitem a sel => simp [denseT] at hf

omit [DecidableEq α] in
/-- scalar expressions: same dense value; of the typing hypothesis `ht` only the fact that every
    `entry` index has length `ns.length` is used -/
theorem denseS_congr (ns : List Nat) (D1 D2 : Nat → Dense α) (dM : Nat → List Nat → List Nat → α)
    (hD : ∀ j is, is.length = ns.length → D1 j is = D2 j is)
    (envT envM : List (List (Core α))) (e : SE α) (ht : TypedS ns envT envM e) (v : α)
    (hv : denseS ns D1 dM e = some v) : denseS ns D2 dM e = some v := by
  induction e generalizing v with
  | sumall a =>
    simp only [denseS, Option.map_eq_some_iff] at hv
    obtain ⟨f, hf, rfl⟩ := hv
    obtain ⟨g, hg, e1⟩ := denseT_congr ns D1 D2 dM hD a f hf
    simp only [denseS, hg, Option.map_some, Option.some.injEq]
    exact (sumIdx_congr_len e1).symm
  | dot a b =>
    simp only [denseS] at hv
    split at hv
    · rename_i f1 f2 h1 h2
      simp only [Option.some.injEq] at hv; subst hv
      obtain ⟨g1, hg1, e1⟩ := denseT_congr ns D1 D2 dM hD a f1 h1
      obtain ⟨g2, hg2, e2⟩ := denseT_congr ns D1 D2 dM hD b f2 h2
      simp only [denseS, hg1, hg2, Option.some.injEq]
      exact sumIdx_congr_len (fun is hil => by rw [e1 is hil, e2 is hil])
    · simp at hv
  | normsq a =>
    simp only [denseS, Option.map_eq_some_iff] at hv
    obtain ⟨f, hf, rfl⟩ := hv
    obtain ⟨g, hg, e1⟩ := denseT_congr ns D1 D2 dM hD a f hf
    simp only [denseS, hg, Option.map_some, Option.some.injEq]
    exact sumIdx_congr_len (fun is hil => by rw [e1 is hil])
  | entry a idx =>
    simp only [TypedS] at ht
    simp only [denseS, Option.map_eq_some_iff] at hv
    obtain ⟨f, hf, rfl⟩ := hv
    obtain ⟨g, hg, e1⟩ := denseT_congr ns D1 D2 dM hD a f hf
    simp only [denseS, hg, Option.map_some, Option.some.injEq]
    exact (e1 idx ht.2).symm
  | bil a A b =>
    simp only [denseS] at hv
    split at hv
    · rename_i f1 f2 h1 h2
      simp only [Option.some.injEq] at hv; subst hv
      obtain ⟨g1, hg1, e1⟩ := denseT_congr ns D1 D2 dM hD a f1 h1
      obtain ⟨g2, hg2, e2⟩ := denseT_congr ns D1 D2 dM hD b f2 h2
      simp only [denseS, hg1, hg2, Option.some.injEq]
      apply sumIdx_congr_len; intro is hil
      apply sumIdx_congr_len; intro js hjl
      rw [e1 is hil, e2 js hjl]
    · simp at hv
  | add x y ihx ihy =>
    simp only [TypedS] at ht
    simp only [denseS] at hv
    split at hv
    · rename_i u w hu hw
      simp only [Option.some.injEq] at hv; subst hv
      simp only [denseS, ihx ht.1 u hu, ihy ht.2 w hw]
    · simp at hv
  | mul x y ihx ihy =>
    simp only [TypedS] at ht
    simp only [denseS] at hv
    split at hv
    · rename_i u w hu hw
      simp only [Option.some.injEq] at hv; subst hv
      simp only [denseS, ihx ht.1 u hu, ihy ht.2 w hw]
    · simp at hv
  | const c => exact hv

/-! ### (4) programs: TT evaluation = dense evaluation -/

/-- the dense array of the operand appended by a `let` is the dense array of operand `i` times the
    scalar (on multi-indices of the right length), the other operands are unchanged -/
theorem dT_let (ns : List Nat) (envT : List (List (Core α))) (i : Nat) (c : α)
    (hne : ns ≠ []) (h : TypedV ns envT i) (j : Nat) (is : List Nat) (hil : is.length = ns.length) :
    dT (envT ++ [smul (envT.getD i []) c]) j is =
      (if j = envT.length then (fun is => dT envT i is * c) else dT envT j) is := by
  have s := TShape.of_typedV h
  by_cases hj : j = envT.length
  · subst hj
    rw [if_pos rfl]
    show full ((envT ++ [smul (envT.getD i []) c]).getD envT.length []) (tIdx is) = _
    rw [c15b_getD_append_self, C03.full_smul _ c _ (by rw [length_tIdx, s.length]; exact hil)
      (ne_nil_of_modesM s.2.1 hne)]
    rfl
  · rw [if_neg hj]
    show full ((envT ++ [smul (envT.getD i []) c]).getD j []) (tIdx is) = _
    rw [c15b_getD_append_ne envT _ hj]
    rfl

/-- generalisation carried through the induction: the dense operands `D` need only agree with the
    `full` arrays of `envT` on multi-indices of length `ns.length` -/
theorem evalProg_eq_dense_gen (ns : List Nat) (hne : ns ≠ []) (envM : List (List (Core α)))
    (lets : List (Nat × SE α)) (e : SE α) :
    ∀ (envT : List (List (Core α))) (D : Nat → Dense α),
      (∀ j is, is.length = ns.length → dT envT j is = D j is) →
      TypedProg ns envT envM lets e →
      ∃ v, denseProg ns envT.length D (dM envM) lets e = some v ∧
        evalProg envT envM lets e = v := by
  induction lets with
  | nil =>
    intro envT D hD h
    obtain ⟨v, hv, he⟩ := evalS_eq_dense ns envT envM e h
    exact ⟨v, denseS_congr ns (dT envT) D (dM envM) hD envT envM e h v hv, he⟩
  | cons p rest ih =>
    intro envT D hD h
    obtain ⟨i, s⟩ := p
    obtain ⟨hi, hs, hrest⟩ := h
    obtain ⟨c, hc, hce⟩ := evalS_eq_dense ns envT envM s hs
    have hc' := denseS_congr ns (dT envT) D (dM envM) hD envT envM s hs c hc
    rw [hce] at hrest
    obtain ⟨v, hv, he⟩ := ih (envT ++ [smul (envT.getD i []) c])
      (fun j => if j = envT.length then (fun is => D i is * c) else D j)
      (fun j is hil => by
        rw [dT_let ns envT i c hne hi j is hil]
        by_cases hj : j = envT.length
        · simp only [if_pos hj]; rw [hD i is hil]
        · simp only [if_neg hj]; exact hD j is hil)
      hrest
    refine ⟨v, ?_, ?_⟩
    · simp only [denseProg, hc']
      simpa using hv
    · simp only [evalProg, hce]
      exact he

/-! the degenerate mode list `ns = []`: no tensor expression is typed (`var` needs `ns ≠ []`), so a
typed scalar expression / program is built from constants only and both sides compute the same
constant, whatever the operands are -/

omit [CommRing α] [DecidableEq α] in
theorem c15b_typedT_nil (envT envM : List (List (Core α))) (e : TE α) :
    ¬ TypedT [] envT envM e := by
  induction e with
  | var i => intro h; exact h.1 rfl
  | add a b iha ihb => intro h; simp only [TypedT] at h; exact iha h.1
  | sub a b iha ihb => intro h; simp only [TypedT] at h; exact iha h.1
  | mul a b iha ihb => intro h; simp only [TypedT] at h; exact iha h.1
  | neg a iha => intro h; simp only [TypedT] at h; exact iha h
  | smul a s iha => intro h; simp only [TypedT] at h; exact iha h
  | adds a s iha => intro h; simp only [TypedT] at h; exact iha h
  | mv A a iha => intro h; simp only [TypedT] at h; exact iha h.2
  | kron a b => intro h; simp only [TypedT] at h
  | cat d a b => intro h; simp only [TypedT] at h
  | pad a p v => intro h; simp only [TypedT] at h
  | mprod a m r F => intro h; simp only [TypedT] at h
  | sumsel a idx => intro h; simp only [TypedT] at h
  | getitem a sel => intro h; simp only [TypedT] at h

theorem c15b_denseS_nil (envT envM : List (List (Core α))) (D : Nat → Dense α)
    (dM' : Nat → List Nat → List Nat → α) (e : SE α) (h : TypedS [] envT envM e) :
    denseS [] D dM' e = some (evalS envT envM e) := by
  induction e with
  | sumall a => simp only [TypedS] at h; exact absurd h (c15b_typedT_nil envT envM a)
  | dot a b => simp only [TypedS] at h; exact absurd h.1 (c15b_typedT_nil envT envM a)
  | normsq a => simp only [TypedS] at h; exact absurd h (c15b_typedT_nil envT envM a)
  | entry a idx => simp only [TypedS] at h; exact absurd h.1 (c15b_typedT_nil envT envM a)
  | bil a A b => simp only [TypedS] at h; exact absurd h.1 (c15b_typedT_nil envT envM a)
  | add x y ihx ihy => simp only [TypedS] at h; simp only [denseS, ihx h.1, ihy h.2, evalS]
  | mul x y ihx ihy => simp only [TypedS] at h; simp only [denseS, ihx h.1, ihy h.2, evalS]
  | const c => rfl

theorem c15b_prog_nil (envM : List (List (Core α))) (dM' : Nat → List Nat → List Nat → α)
    (lets : List (Nat × SE α)) (e : SE α) :
    ∀ (envT : List (List (Core α))) (D : Nat → Dense α) (k : Nat),
      TypedProg [] envT envM lets e →
      denseProg [] k D dM' lets e = some (evalProg envT envM lets e) := by
  induction lets with
  | nil => intro envT D k h; exact c15b_denseS_nil envT envM D dM' e h
  | cons p rest ih =>
    intro envT D k h
    obtain ⟨i, s⟩ := p
    obtain ⟨_, hs, hrest⟩ := h
    simp only [denseProg, c15b_denseS_nil envT envM D dM' s hs, evalProg]
    exact ih _ _ _ hrest

/-- **Programs: TT evaluation = dense evaluation.**  The value of a typed program computed core by
    core (every `let` scales a TT operand by the TT value of a scalar expression) equals the value
    of the dense program on the `full` arrays of the initial operands. -/
theorem evalProg_eq_dense (ns : List Nat) (envT envM : List (List (Core α)))
    (lets : List (Nat × SE α)) (e : SE α) (h : TypedProg ns envT envM lets e) :
    ∃ v, denseProg ns envT.length (dT envT) (dM envM) lets e = some v ∧
      evalProg envT envM lets e = v := by
  by_cases hne : ns = []
  · subst hne
    exact ⟨_, c15b_prog_nil envM (dM envM) lets e envT (dT envT) envT.length h, rfl⟩
  · exact evalProg_eq_dense_gen ns hne envM lets e envT (dT envT) (fun _ _ _ => rfl) h

/-- the operand list only enters the dense program through its values on well-sized multi-indices -/
theorem denseProg_congr (ns : List Nat) (envT envM : List (List (Core α)))
    (lets : List (Nat × SE α)) (e : SE α) (h : TypedProg ns envT envM lets e)
    (D : Nat → Dense α) (hD : ∀ j is, is.length = ns.length → dT envT j is = D j is) :
    denseProg ns envT.length D (dM envM) lets e =
      denseProg ns envT.length (dT envT) (dM envM) lets e := by
  by_cases hne : ns = []
  · subst hne
    rw [c15b_prog_nil envM (dM envM) lets e envT D envT.length h,
      c15b_prog_nil envM (dM envM) lets e envT (dT envT) envT.length h]
  · obtain ⟨v, hv, he⟩ := evalProg_eq_dense_gen ns hne envM lets e envT D hD h
    obtain ⟨w, hw, he'⟩ := evalProg_eq_dense ns envT envM lets e h
    rw [hv, hw, ← he, ← he']

/-! ### (5) dual numbers: value and derivative of programs agree -/

/-- `evalProg` over dual numbers with the Scalar.lean instances spelled out — literally the function
    the driver runs -/
abbrev evalProgDual {β : Type} [CommRing β] [DecidableEq β]
    (envT envM : List (List (Core (Dual β)))) (lets : List (Nat × SE (Dual β))) (e : SE (Dual β)) :
    Dual β :=
  @evalProg (Dual β) Dual.instZero Dual.instOneOfZero Dual.instAdd Dual.instMulOfAdd Dual.instNeg
    inferInstance envT envM lets e

/-- dense program over dual numbers with the Scalar.lean instances spelled out; the dense operands
    are the (dual-number valued) `full` arrays of the initial TT operands -/
abbrev denseProgDual {β : Type} [CommRing β] [DecidableEq β] (ns : List Nat)
    (envT envM : List (List (Core (Dual β)))) (lets : List (Nat × SE (Dual β))) (e : SE (Dual β)) :
    Option (Dual β) :=
  @denseProg (Dual β) Dual.instZero Dual.instAdd Dual.instMulOfAdd Dual.instNeg ns envT.length
    (fun i is => @full (Dual β) Dual.instZero Dual.instOneOfZero Dual.instAdd Dual.instMulOfAdd
      (envT.getD i []) (tIdx is))
    (fun A is js => @full (Dual β) Dual.instZero Dual.instOneOfZero Dual.instAdd Dual.instMulOfAdd
      (envM.getD A []) (is.zip js)) lets e

/-- **Gradients through TT programs match the dense derivative**: running a typed program on
    dual-number operands core by core gives the same value part and the same ε-part as the dense
    program on the dual-number arrays represented by the operands — including the dependence of the
    scalar factors of the `let`s on the cores (product rule through `T_i * s(T)`).  Instance
    `α := Dual β` of `evalProg_eq_dense`. -/
theorem gradProg_eq_dense {β : Type} [CommRing β] [DecidableEq β] (ns : List Nat)
    (envT envM : List (List (Core (Dual β)))) (lets : List (Nat × SE (Dual β))) (e : SE (Dual β))
    (h : TypedProg ns envT envM lets e) :
    ∃ w : Dual β, denseProgDual ns envT envM lets e = some w ∧
      (evalProgDual envT envM lets e).v = w.v ∧ (evalProgDual envT envM lets e).d = w.d := by
  obtain ⟨w, hw, he⟩ := evalProg_eq_dense (α := Dual β) ns envT envM lets e h
  exact ⟨w, hw, congrArg Dual.v he, congrArg Dual.d he⟩

/-- if the TT evaluation of the program over dual numbers is `v`, then `v.d` is the ε-part of the
    dense value -/
theorem gradProg_eq_dense' {β : Type} [CommRing β] [DecidableEq β] (ns : List Nat)
    (envT envM : List (List (Core (Dual β)))) (lets : List (Nat × SE (Dual β))) (e : SE (Dual β))
    (h : TypedProg ns envT envM lets e) (v : Dual β) (hv : evalProgDual envT envM lets e = v) :
    ∃ w : Dual β, denseProgDual ns envT envM lets e = some w ∧ v.v = w.v ∧ v.d = w.d := by
  subst hv; exact gradProg_eq_dense ns envT envM lets e h

/-- `evalProgDual` / `denseProgDual` are what `evalProg` / `denseProg` elaborate to at `Dual β` -/
example {β : Type} [CommRing β] [DecidableEq β] (ns : List Nat)
    (envT envM : List (List (Core (Dual β)))) (lets : List (Nat × SE (Dual β))) (e : SE (Dual β)) :
    evalProgDual envT envM lets e = evalProg envT envM lets e ∧
    denseProgDual ns envT envM lets e =
      denseProg ns envT.length (dT envT) (dM envM) lets e := ⟨rfl, rfl⟩

/-- the statement at the driver's scalar type `DriverAD.D = Dual GRat` -/
theorem gradProg_eq_dense_driver (ns : List Nat)
    (envT envM : List (List (Core (Dual GRat)))) (lets : List (Nat × SE (Dual GRat)))
    (e : SE (Dual GRat)) (h : TypedProg ns envT envM lets e) :
    ∃ w : Dual GRat, denseProgDual ns envT envM lets e = some w ∧
      (evalProgDual envT envM lets e).v = w.v ∧ (evalProgDual envT envM lets e).d = w.d :=
  gradProg_eq_dense ns envT envM lets e h

/-! ### (6) a concrete typed program (non-vacuity) and numeric sanity checks

`z := x * ⟨x, y⟩` (operand number 2), head `sum(z ∘ y)`; with a second `let`
`u := z * (‖z‖² + xᵀ A y)` (operand number 3) and head `⟨u + x, A z⟩`. -/
section Example
variable (R : Type) [CommRing R]

def exLets : List (Nat × SE R) := [(0, .dot (.var 0) (.var 1))]
def exHead : SE R := .sumall (.mul (.var 2) (.var 1))

def exLets2 : List (Nat × SE R) :=
  [(0, .dot (.var 0) (.var 1)), (2, .add (.normsq (.var 2)) (.bil (.var 0) 0 (.var 1)))]
def exHead2 : SE R := .dot (.add (.var 3) (.var 0)) (.mv 0 (.var 2))

theorem exTypedProg [DecidableEq R] :
    TypedProg [2, 3] [exX R, exY R] [exA R] (exLets R) (exHead R) := by
  refine ⟨?_, ?_, ?_⟩
  · simp [TypedV, exX, WF, modesM, IsTensor]
  · simp [TypedS, TypedT, TypedV, exX, exY, WF, modesM, IsTensor]
  · have hz := typedV_let [2, 3] [exX R, exY R] 0
      (evalS [exX R, exY R] [exA R] (.dot (.var 0) (.var 1)))
      (by simp [TypedV, exX, WF, modesM, IsTensor])
    have hy : TypedV [2, 3] [exX R, exY R] 1 := by simp [TypedV, exY, WF, modesM, IsTensor]
    exact ⟨⟨by simp, hz⟩, by simp, typedV_append _ _ _ _ hy⟩

theorem exTypedProg2 [DecidableEq R] :
    TypedProg [2, 3] [exX R, exY R] [exA R] (exLets2 R) (exHead2 R) := by
  have hx : TypedV [2, 3] [exX R, exY R] 0 := by simp [TypedV, exX, WF, modesM, IsTensor]
  have hy : TypedV [2, 3] [exX R, exY R] 1 := by simp [TypedV, exY, WF, modesM, IsTensor]
  have hA : TypedM [2, 3] [exA R] 0 := by simp [TypedM, exA, WF, modesM, modesN]
  have hne : ([2, 3] : List Nat) ≠ [] := by simp
  refine ⟨hx, ⟨⟨hne, hx⟩, ⟨hne, hy⟩⟩, ?_⟩
  have hz := typedV_let [2, 3] [exX R, exY R] 0
    (evalS [exX R, exY R] [exA R] (.dot (.var 0) (.var 1))) hx
  have hx' := typedV_append [2, 3] [exX R, exY R]
    (smul ([exX R, exY R].getD 0 []) (evalS [exX R, exY R] [exA R] (.dot (.var 0) (.var 1)))) 0 hx
  have hy' := typedV_append [2, 3] [exX R, exY R]
    (smul ([exX R, exY R].getD 0 []) (evalS [exX R, exY R] [exA R] (.dot (.var 0) (.var 1)))) 1 hy
  refine ⟨hz, ⟨⟨hne, hz⟩, ⟨hne, hx'⟩, hA, ⟨hne, hy'⟩⟩, ?_⟩
  have hu := typedV_let [2, 3] _ 2
    (evalS ([exX R, exY R] ++ [smul ([exX R, exY R].getD 0 [])
      (evalS [exX R, exY R] [exA R] (.dot (.var 0) (.var 1)))]) [exA R]
      (.add (.normsq (.var 2)) (.bil (.var 0) 0 (.var 1)))) hz
  exact ⟨⟨⟨hne, hu⟩, ⟨hne, typedV_append _ _ _ _ hx'⟩⟩, hA, ⟨hne, typedV_append _ _ _ _ hz⟩⟩

/-- the theorem applied to the concrete programs, over any commutative ring -/
example [DecidableEq R] :
    ∃ v, denseProg [2, 3] 2 (dT [exX R, exY R]) (dM [exA R]) (exLets R) (exHead R) = some v ∧
      evalProg [exX R, exY R] [exA R] (exLets R) (exHead R) = v :=
  evalProg_eq_dense [2, 3] _ _ _ _ (exTypedProg R)

example [DecidableEq R] :
    ∃ v, denseProg [2, 3] 2 (dT [exX R, exY R]) (dM [exA R]) (exLets2 R) (exHead2 R) = some v ∧
      evalProg [exX R, exY R] [exA R] (exLets2 R) (exHead2 R) = v :=
  evalProg_eq_dense [2, 3] _ _ _ _ (exTypedProg2 R)

end Example

/-- numeric check over `Int`: `sum((x·⟨x,y⟩) ∘ y) = ⟨x,y⟩² = 48²`, core by core and dense -/
example : evalProg [exX Int, exY Int] [exA Int] (exLets Int) (exHead Int) = 2304 ∧
    denseProg [2, 3] 2 (dT [exX Int, exY Int]) (dM [exA Int]) (exLets Int) (exHead Int) =
      some 2304 := by decide

example : evalProg [exX Int, exY Int] [exA Int] (exLets2 Int) (exHead2 Int) = 5000707512288 ∧
    denseProg [2, 3] 2 (dT [exX Int, exY Int]) (dM [exA Int]) (exLets2 Int) (exHead2 Int) =
      some 5000707512288 := by decide

theorem exTypedProgD : TypedProg [2, 3] [exXd, exY (Dual Int)] [exA (Dual Int)]
    (exLets (Dual Int)) (exHead (Dual Int)) := by
  have hx : TypedV [2, 3] [exXd, exY (Dual Int)] 0 := by simp [TypedV, exXd, WF, modesM, IsTensor]
  have hy : TypedV [2, 3] [exXd, exY (Dual Int)] 1 := by simp [TypedV, exY, WF, modesM, IsTensor]
  have hne : ([2, 3] : List Nat) ≠ [] := by simp
  exact ⟨hx, ⟨⟨hne, hx⟩, ⟨hne, hy⟩⟩, ⟨hne, typedV_let _ _ 0 _ hx⟩, hne, typedV_append _ _ _ _ hy⟩

/-- `gradProg_eq_dense` applied: the partial derivative of the program w.r.t. the perturbed core
    entry of `x` (which enters both through the scaled operand and through the scalar `⟨x, y⟩`) -/
example : ∃ w : Dual Int,
    denseProgDual [2, 3] [exXd, exY (Dual Int)] [exA (Dual Int)] (exLets (Dual Int))
      (exHead (Dual Int)) = some w ∧
    (evalProgDual [exXd, exY (Dual Int)] [exA (Dual Int)] (exLets (Dual Int))
      (exHead (Dual Int))).v = w.v ∧
    (evalProgDual [exXd, exY (Dual Int)] [exA (Dual Int)] (exLets (Dual Int))
      (exHead (Dual Int))).d = w.d :=
  gradProg_eq_dense [2, 3] _ _ _ _ exTypedProgD

/-- numeric check over `Dual Int`: value `48² = 2304`, derivative `2·48·18 = 1728`, on both sides -/
example : evalProgDual [exXd, exY (Dual Int)] [exA (Dual Int)] (exLets (Dual Int))
      (exHead (Dual Int)) = ⟨2304, 1728⟩ ∧
    denseProgDual [2, 3] [exXd, exY (Dual Int)] [exA (Dual Int)] (exLets (Dual Int))
      (exHead (Dual Int)) = some ⟨2304, 1728⟩ := by decide

/-- independent check of the derivative: the program is `⟨x,y⟩²`, quadratic in the perturbed entry,
    so `F(x + E_p) = F + F' + (F'/(2·48))² = 2304 + 1728 + 18²` -/
example : evalProg [exXp, exY Int] [exA Int] (exLets Int) (exHead Int) = 2304 + 1728 + 18 ^ 2 := by
  decide

end TT.C15

section Axioms
open TT.C15
#print axioms TypedProg
#print axioms typedV_append
#print axioms typedT_append
#print axioms typedS_append
#print axioms evalT_append
#print axioms evalS_append
#print axioms typedV_let
#print axioms TypedProg.of_typedS
#print axioms denseT_congr
#print axioms denseS_congr
#print axioms dT_let
#print axioms evalProg_eq_dense_gen
#print axioms evalProg_eq_dense
#print axioms denseProg_congr
#print axioms gradProg_eq_dense
#print axioms gradProg_eq_dense'
#print axioms gradProg_eq_dense_driver
#print axioms exTypedProg
#print axioms exTypedProg2
#print axioms exTypedProgD
end Axioms
