import TTModel.Basic
import TTModel.Sweep
import TTLemmas.Sum
import TTLemmas.SweepL
import Mathlib.Data.List.Perm.Basic
import Mathlib.Data.List.Perm.Subperm
import Mathlib.Tactic.Linarith

/-!
# C10: `reshape` and `permute` — control flow on mode sizes, swap bookkeeping, value-level merge

* `reshape_modes`, `reshape_splits_le`: the two-cursor merge/split loop of `torchtt.reshape`
  (tensor branch) terminates within its fuel and produces exactly the requested mode sizes whenever
  the element counts agree; it performs at most one SVD per target mode.
* `permute_order`, `permute_swaps_le`, `permute_swap_pos`: the bubble sort of `torchtt.permute` ends
  with the requested order after at most `d(d-1)/2` neighbour swaps, all at valid positions.
* `permute_allowance`: the arithmetic behind the `eps / d^{1.5}` per-swap truncation allowance.
* `chain_mergeCore`, `full_merge`: the merge step (einsum + reshape of two neighbouring cores)
  preserves the represented tensor.
-/
namespace TT.C10
open TT TT.Sweep

/-! ### (1), (2) reshape -/

/-- whenever the element counts agree, `reshape` terminates (within the model's fuel) and produces
EXACTLY the requested mode sizes — for every ordered factorisation / merge, singleton modes anywhere -/
theorem reshape_modes {src dst : List Nat} (hs : src ≠ []) (_hd : dst ≠ [])
    (hs1 : ∀ s ∈ src, 1 ≤ s) (hd1 : ∀ t ∈ dst, 1 ≤ t) (hp : prod src = prod dst) :
    ∃ sp, reshapeModes src dst = some (dst, sp) := by
  match src, hs with
  | c :: rest, _ =>
    rw [prod_cons] at hp
    obtain ⟨sp, h⟩ := reshapeGo_spec (2 * ((c :: rest).length + dst.length) + 2) c rest dst [] 0
      (by simp only [List.length_cons]; omega) (hs1 c (by simp))
      (fun s h => hs1 s (by simp [h])) hd1 hp
    exact ⟨sp, by simpa [reshapeModes] using h⟩

example : ∃ sp, reshapeModes [2, 8, 1] [1, 2, 4, 2] = some ([1, 2, 4, 2], sp) :=
  reshape_modes (by decide) (by decide) (by decide) (by decide) (by decide)

/-- the number of SVD truncations is at most the number of target modes -/
theorem reshape_splits_le {src dst out : List Nat} {sp : Nat}
    (h : reshapeModes src dst = some (out, sp)) : sp ≤ dst.length := by
  match src, h with
  | c :: rest, h =>
    have := reshapeGo_splits _ _ _ _ _ _ _ _ h
    omega

example : reshapeModes [2, 8, 1] [1, 2, 4, 2] = some ([1, 2, 4, 2], 2) := by decide
example : (2 : Nat) ≤ [1, 2, 4, 2].length :=
  reshape_splits_le (src := [2, 8, 1]) (out := [1, 2, 4, 2]) (by decide)
example : reshapeModes [2, 3] [3, 2] = some ([3, 2], 1) := by decide
example : reshapeModes [6] [1, 6, 1] = some ([1, 6, 1], 1) := by decide
example : reshapeModes [4, 3] [2, 6] = some ([2, 6], 1) := by decide
example : reshapeModes [1, 1, 4] [4] = some ([4], 0) := by decide
/-- element counts differ: the loop runs out of source cores -/
example : reshapeModes [2, 3] [4, 2] = none := by decide

/-! ### (3) permute -/

/-- the guard of `torchtt.permute` (`len(dims) == d`, no duplicates, entries in `0..d-1`) says exactly
that `dims` is a permutation of `range d` -/
theorem perm_range_of_guard {dims : List Nat} {d : Nat} (hl : dims.length = d) (hn : dims.Nodup)
    (hlt : ∀ i ∈ dims, i < d) : dims.Perm (List.range d) := by
  have hsub : dims ⊆ List.range d := fun i hi => List.mem_range.mpr (hlt i hi)
  exact (List.subperm_of_subset hn hsub).perm_of_length_le (by simp [hl])

/-- the bubble sort ends with the requested order: position `j` holds input mode `dims[j]` -/
theorem permute_order {dims : List Nat} {d : Nat} (h : dims.Perm (List.range d)) :
    (permuteOrder dims).1 = dims := by
  have hlen : dims.length = d := by simpa using h.length_eq
  have hn : dims.Nodup := h.nodup_iff.mpr List.nodup_range
  unfold permuteOrder
  have hs := bubble_sorted dims (dims.length + 1) (List.range dims.length) [] []
    (by rw [List.length_range]; omega) (by simp [SortedBy]) (by simp)
  rw [List.append_nil] at hs
  have hp := bubble_perm dims (dims.length + 1) (List.range dims.length) []
  rw [hlen] at hp hs ⊢
  exact eq_of_sortedBy hn (hp.trans h.symm) hs

/-- the same under the literal guard of `torchtt.permute` -/
theorem permute_order_of_guard {dims : List Nat} {d : Nat} (hl : dims.length = d) (hn : dims.Nodup)
    (hlt : ∀ i ∈ dims, i < d) : (permuteOrder dims).1 = dims :=
  permute_order (perm_range_of_guard hl hn hlt)

example : (permuteOrder [2, 0, 1]).1 = [2, 0, 1] := permute_order (d := 3) (by decide)
example : (permuteOrder [4, 2, 0, 3, 1]).1 = [4, 2, 0, 3, 1] :=
  permute_order_of_guard (d := 5) (by decide) (by decide) (by decide)

/-- number of neighbour swaps (= number of SVD truncations), for ANY `dims`: at most `d(d-1)/2` -/
theorem permute_swaps_le_length (dims : List Nat) :
    (permuteOrder dims).2.length ≤ dims.length * (dims.length - 1) / 2 := by
  unfold permuteOrder
  have h1 := bubble_inv dims (dims.length + 1) (List.range dims.length) []
  have h2 := inv_le dims (List.range dims.length)
  simp only [List.length_nil, List.length_range, Nat.zero_add] at h1 h2
  rw [Nat.le_div_iff_mul_le (by decide)]
  generalize (bubble dims (dims.length + 1) (List.range dims.length) []).2.length = s at h1 ⊢
  generalize dims.length = n at h1 h2 ⊢
  rw [Nat.mul_sub_one]
  omega

theorem permute_swaps_le {dims : List Nat} {d : Nat} (h : dims.Perm (List.range d)) :
    (permuteOrder dims).2.length ≤ d * (d - 1) / 2 := by
  have hlen : dims.length = d := by simpa using h.length_eq
  rw [← hlen]; exact permute_swaps_le_length dims

/-- every swap acts on two existing neighbouring cores `i`, `i+1` (for ANY `dims`) -/
theorem permute_swap_pos_length (dims : List Nat) :
    ∀ i ∈ (permuteOrder dims).2, i + 1 < dims.length := by
  intro i hi
  unfold permuteOrder at hi
  rcases bubble_swap_pos dims _ _ _ i hi with h | h
  · simp at h
  · simpa using h

theorem permute_swap_pos {dims : List Nat} {d : Nat} (h : dims.Perm (List.range d)) :
    ∀ i ∈ (permuteOrder dims).2, i + 1 < d := by
  have hlen : dims.length = d := by simpa using h.length_eq
  rw [← hlen]; exact permute_swap_pos_length dims

example : (permuteOrder [3, 2, 1, 0]).2.length ≤ 4 * (4 - 1) / 2 := permute_swaps_le (by decide)
example : ∀ i ∈ (permuteOrder [3, 2, 1, 0]).2, i + 1 < 4 := permute_swap_pos (by decide)

/-- the number of swaps is exactly the number of inversions of the requested order
(`inv dims (range d)` counts pairs of input modes `a < b` with `dims.index(a) > dims.index(b)`) -/
theorem permute_swaps_eq_inv {dims : List Nat} {d : Nat} (h : dims.Perm (List.range d)) :
    (permuteOrder dims).2.length = inv dims (List.range d) := by
  have hlen : dims.length = d := by simpa using h.length_eq
  subst hlen
  have hn : dims.Nodup := h.nodup_iff.mpr List.nodup_range
  have h1 := bubble_inv dims (dims.length + 1) (List.range dims.length) []
  have h2 := permute_order h
  unfold permuteOrder at h2 ⊢
  rw [h2] at h1
  have h3 : inv dims dims = 0 := by
    have hs := pairwise_indexOf_self hn
    generalize hK : indexOf dims = K at hs
    have : ∀ l : List Nat, l.Pairwise (fun a b => K a ≤ K b) → inv dims l = 0 := by
      intro l hl
      induction l with
      | nil => rfl
      | cons a l ih =>
        rw [List.pairwise_cons] at hl
        simp only [inv, ih hl.2, hK, Nat.add_zero, List.countP_eq_zero, decide_eq_true_eq]
        intro b hb; have := hl.1 b hb; omega
    exact this dims hs
  rw [h3] at h1
  simpa using h1

/- `bubblePass` is compiled by well-founded recursion (its recursive call is on `a :: rest`, not on a
sub-term), so neither `decide` nor `decide +kernel` can evaluate it; the concrete instances are
computed by rewriting with the equation lemmas instead. -/
local macro "eval_permute" : tactic =>
  `(tactic| simp [permuteOrder, bubble, bubblePass, indexOf, List.range, List.range.loop,
      List.findIdx?_cons])

example : permuteOrder [2, 0, 1] = ([2, 0, 1], [1, 0]) := by eval_permute
example : permuteOrder [1, 2, 0] = ([1, 2, 0], [0, 1]) := by eval_permute
example : permuteOrder [0, 1, 2] = ([0, 1, 2], []) := by eval_permute
/-- the reversal needs all `4·3/2 = 6` swaps -/
example : permuteOrder [3, 2, 1, 0] = ([3, 2, 1, 0], [0, 1, 2, 0, 1, 0]) := by eval_permute
example : ([2, 0, 1] : List Nat).Perm (List.range 3) := by decide
/-- without the guard the order is NOT reached (duplicate entry) -/
example : (permuteOrder [1, 1, 0]).1 ≠ [1, 1, 0] := by eval_permute

/-! ### (4) allowance arithmetic -/

/-- `sw ≤ d(d-1)/2` truncations of relative size `eps / d^{3/2}` add up (triangle inequality) to at
most `(√d / 2)·eps`: `(sw · eps / d^{1.5})² ≤ (d / 4)·eps²  ⇔  4·sw² ≤ d⁴` -/
theorem permute_allowance {sw d : Nat} (h : sw ≤ d * (d - 1) / 2) : 4 * sw ^ 2 ≤ d ^ 4 := by
  have h1 : 2 * sw ≤ d * (d - 1) := by
    have := (Nat.le_div_iff_mul_le (by decide : 0 < 2)).mp h
    omega
  have h2 : d * (d - 1) ≤ d * d := Nat.mul_le_mul_left d (Nat.sub_le d 1)
  have h3 : 2 * sw ≤ d * d := le_trans h1 h2
  have h4 : (2 * sw) ^ 2 ≤ (d * d) ^ 2 := Nat.pow_le_pow_left h3 2
  calc 4 * sw ^ 2 = (2 * sw) ^ 2 := by ring
    _ ≤ (d * d) ^ 2 := h4
    _ = d ^ 4 := by ring

example : 4 * 6 ^ 2 ≤ 4 ^ 4 := permute_allowance (sw := 6) (d := 4) (by decide)

/-- combined: the swap count of `permute` satisfies the allowance inequality -/
theorem permute_swaps_allowance {dims : List Nat} {d : Nat} (h : dims.Perm (List.range d)) :
    4 * (permuteOrder dims).2.length ^ 2 ≤ d ^ 4 :=
  permute_allowance (permute_swaps_le h)

/-! ### (5) value level: merging two neighbouring cores -/

section merge
variable {α : Type} [CommRing α]

/-- merging two neighbouring cores (`einsum('ijk,klm->ijlm')` + row-major reshape) preserves every
transfer-matrix product; no rank hypothesis is needed because both sides sum the shared bond over
`x.r1` -/
theorem chain_mergeCore (x y : Core α) (rest : List (Core α)) (ijs : List (Nat × Nat))
    (i j a b : Nat) (hj : j < y.m) :
    chain (mergeCore x y :: rest) ((i * y.m + j, 0) :: ijs) a b =
      chain (x :: y :: rest) ((i, 0) :: (j, 0) :: ijs) a b :=
  TT.chain_mergeCore x y rest ijs i j a b hj

/-- merging the first two cores preserves the flattened tensor -/
theorem full_merge (x y : Core α) (rest : List (Core α)) (is : List Nat) (i j : Nat) (hj : j < y.m) :
    full (mergeCore x y :: rest) (tIdx ((i * y.m + j) :: is)) =
      full (x :: y :: rest) (tIdx (i :: j :: is)) :=
  TT.full_merge x y rest is i j hj

/-- merging two neighbouring cores anywhere in the train preserves the flattened tensor -/
theorem full_merge_at (x y : Core α) (pre rest : List (Core α)) (ip is : List Nat) (i j : Nat)
    (hj : j < y.m) (hl : pre.length = ip.length) :
    full (pre ++ mergeCore x y :: rest) (tIdx (ip ++ (i * y.m + j) :: is)) =
      full (pre ++ x :: y :: rest) (tIdx (ip ++ i :: j :: is)) :=
  TT.full_merge_at x y pre rest ip is i j hj hl

/-- the merged core has the merged mode size and the outer ranks -/
theorem mergeCore_shape (x y : Core α) :
    (mergeCore x y).r0 = x.r0 ∧ (mergeCore x y).m = x.m * y.m ∧ (mergeCore x y).n = 1 ∧
      (mergeCore x y).r1 = y.r1 := ⟨rfl, rfl, rfl, rfl⟩

theorem WF_mergeCore (x y : Core α) (rest : List (Core α)) (r : Nat)
    (h : WF (x :: y :: rest) r) : WF (mergeCore x y :: rest) r :=
  TT.WF_mergeCore x y rest r h

end merge

/-- concrete instance over `Int`: two rank-2-bond cores of modes 2 and 3, entry `(1, 2)` -/
example :
    let x : Core Int := { r0 := 1, m := 2, n := 1, r1 := 2, get := fun _ i _ k => (i : Int) + 2 * k + 1 }
    let y : Core Int := { r0 := 2, m := 3, n := 1, r1 := 1, get := fun k j _ _ => (k : Int) * 5 - j }
    full [mergeCore x y] (tIdx [1 * 3 + 2]) = full [x, y] (tIdx [1, 2]) ∧
      full [x, y] (tIdx [1, 2]) = 8 := by decide

end TT.C10
