import TTLemmas.HeapL

/-!
# C06 — operations never change their operands

Model: `TTModel/Heap.lean` (M-heap).  A heap is a list of objects (each owning a Python list
`listId` whose entries point to tensor storages `elems`), a version counter per storage and a fresh
counter.  `obs h ref` is what the harness records about object `ref` from outside: list identity,
element identities, version counters of the elements.  Public operations are calls
`alloc | value | setCore | reduceDims`; `targets c ref` says that `c` is a documented in-place call
on the object `ref`.

Statements: for every heap, every call / every call history of any length, every pre-existing
object that is not the target of a documented in-place call keeps all its observables — whatever is
computed from it (the `alloc` results may alias its storages: views).
-/
namespace TT.C06
open TT.Heap

/-! ## one call -/

/-- no call ever writes into a tensor: version counters are untouched (in-place rebinding replaces
    list entries, it does not write into storages) -/
theorem ver_step (h : Heap) (c : Call) : (step h c).ver = h.ver := by
  cases c with
  | alloc al => exact step_alloc_ver h al
  | value => rfl
  | setCore r k => exact step_setCore_ver h r k
  | reduceDims r keep => exact step_reduceDims_ver h r keep

/-- frame property: a call changes the observables of a pre-existing object only if it is a
    documented in-place call targeting that very object -/
theorem frame_step (h : Heap) (c : Call) (ref : Nat) :
    ref < h.objs.length → targets c ref = false → obs (step h c) ref = obs h ref := by
  intro hlt ht
  cases c with
  | alloc al =>
    unfold obs
    rw [step_alloc_ver, step_alloc_objs, List.getElem?_append_left hlt]
  | value => rfl
  | setCore r k =>
    have hne : r ≠ ref := by simpa [targets] using ht
    unfold obs
    rw [step_setCore_ver, step_setCore_objs_ne h r k ref hne]
  | reduceDims r keep =>
    have hne : r ≠ ref := by simpa [targets] using ht
    unfold obs
    rw [step_reduceDims_ver, step_reduceDims_objs_ne h r ref keep hne]

/-- objects are never removed; references stay valid -/
theorem objs_length_mono (h : Heap) (c : Call) : h.objs.length ≤ (step h c).objs.length := by
  cases c with
  | alloc al => rw [step_alloc_objs]; simp
  | value => exact Nat.le_refl _
  | setCore r k => rw [step_setCore_length]; exact Nat.le_refl _
  | reduceDims r keep => rw [step_reduceDims_length]; exact Nat.le_refl _

/-- exactly one new object per `alloc`, none otherwise -/
theorem objs_length_step (h : Heap) (c : Call) :
    (step h c).objs.length = h.objs.length + (match c with | .alloc _ => 1 | _ => 0) := by
  cases c with
  | alloc al => rw [step_alloc_objs]; simp
  | value => rfl
  | setCore r k => rw [step_setCore_length]; rfl
  | reduceDims r keep => rw [step_reduceDims_length]; rfl

/-! ## histories of any length -/

theorem objs_length_mono_run (h : Heap) (cs : List Call) : h.objs.length ≤ (run h cs).objs.length := by
  induction cs generalizing h with
  | nil => exact Nat.le_refl _
  | cons c cs ih =>
    rw [run_cons]
    exact Nat.le_trans (objs_length_mono h c) (ih (step h c))

theorem ver_run (h : Heap) (cs : List Call) : (run h cs).ver = h.ver := by
  induction cs generalizing h with
  | nil => rfl
  | cons c cs ih => rw [run_cons, ih (step h c), ver_step]

/-- an object keeps its observables through every history that contains no documented in-place
    call targeting it — no matter what is computed from it or from its operands -/
theorem history_stable (h : Heap) (cs : List Call) (ref : Nat) :
    ref < h.objs.length → (∀ c ∈ cs, targets c ref = false) → obs (run h cs) ref = obs h ref := by
  induction cs generalizing h with
  | nil => intro _ _; rfl
  | cons c cs ih =>
    intro hlt hall
    rw [run_cons,
      ih (step h c) (Nat.lt_of_lt_of_le hlt (objs_length_mono h c))
        (fun c' hc' => hall c' (List.mem_cons_of_mem _ hc')),
      frame_step h c ref hlt (hall c List.mem_cons_self)]

/-- the object created by an `alloc` (it gets the reference `h.objs.length`) exists afterwards … -/
theorem alloc_ref (h : Heap) (al : List (Option Nat)) :
    (step h (.alloc al)).objs[h.objs.length]? =
      some { listId := h.next, elems := (realise al (h.next + 1)).1 } := by
  rw [step_alloc_objs]; simp

/-- … and keeps its observables through every later history that does not target it -/
theorem result_stable (h : Heap) (al : List (Option Nat)) (cs : List Call)
    (hall : ∀ c ∈ cs, targets c h.objs.length = false) :
    obs (run (step h (.alloc al)) cs) h.objs.length = obs (step h (.alloc al)) h.objs.length := by
  apply history_stable _ _ _ _ hall
  rw [step_alloc_objs]; simp

/-- two-phase form used by the harness walker: operands recorded before a history, compared after -/
theorem history_stable_append (h : Heap) (cs ds : List Call) (ref : Nat)
    (hlt : ref < h.objs.length) (h1 : ∀ c ∈ cs, targets c ref = false)
    (h2 : ∀ c ∈ ds, targets c ref = false) : obs (run h (cs ++ ds)) ref = obs h ref := by
  apply history_stable h (cs ++ ds) ref hlt
  intro c hc
  rcases List.mem_append.mp hc with hc | hc
  · exact h1 c hc
  · exact h2 c hc

/-! ## classification of the public operations by name -/

/-- an operation may change an object's observables only if it is `set_core` / `reduce_dims`
    *and* the object is its target -/
theorem writeAllowed_spec (name : String) (isTarget : Bool) :
    writeAllowed name isTarget = true ↔ (name = "set_core" ∨ name = "reduce_dims") ∧ isTarget = true := by
  simp [writeAllowed, inPlaceOp]

example : writeAllowed "set_core" true = true ∧ writeAllowed "reduce_dims" true = true ∧
    writeAllowed "set_core" false = false ∧ writeAllowed "__add__" true = false ∧
    writeAllowed "round" true = false := by decide

/-! ## concrete instances (non-vacuity) -/

/-- two objects: object 0 with list `0 ↦ [1,2]`, object 1 with list `3 ↦ [4,5]`; storages 2 and 5
    have already been written once -/
def h0 : Heap :=
  { objs := [{ listId := 0, elems := [1, 2] }, { listId := 3, elems := [4, 5] }]
    ver := fun s => if s = 2 ∨ s = 5 then 1 else 0
    next := 6 }

/-- a history: a result that is a *view* of storage 1 of object 0 plus one fresh storage,
    a value-returning call, then `set_core` on object 1, then another view-creating call -/
def hist : List Call := [.alloc [some 1, none], .value, .setCore 1 0, .alloc [some 4, some 2]]

/-- the hypotheses of `history_stable` hold for object 0 … -/
example : 0 < h0.objs.length ∧ ∀ c ∈ hist, targets c 0 = false := by decide

/-- … hence (and by direct evaluation) object 0 is unchanged although the first and the last result alias it -/
example : obs (run h0 hist) 0 = obs h0 0 := history_stable h0 hist 0 (by decide) (by decide)

example : obs h0 0 = some (0, [1, 2], [0, 1]) ∧ obs (run h0 hist) 0 = some (0, [1, 2], [0, 1]) := by
  decide

/-- the in-place exclusion is not vacuous: `set_core` on object 1 rebinds its list entry 0
    (same list identity, new element identity), so object 1's observables do change -/
example : obs h0 1 = some (3, [4, 5], [0, 1]) ∧ obs (run h0 hist) 1 = some (3, [8, 5], [0, 1]) ∧
    obs (run h0 hist) 1 ≠ obs h0 1 := by decide

/-- the hypothesis of `history_stable` indeed fails for object 1 -/
example : ¬ ∀ c ∈ hist, targets c 1 = false := by decide

/-- the results: object 2 is a view of storage 1 (shared with object 0) with a fresh list; it is
    itself stable under the rest of the history (`result_stable`) -/
example : obs (run h0 hist) 2 = some (6, [1, 7], [0, 0]) ∧ obs (run h0 hist) 3 = some (9, [4, 2], [0, 1]) := by
  decide

example : obs (run (step h0 (.alloc [some 1, none])) [.value, .setCore 1 0, .alloc [some 4, some 2]]) 2 =
    obs (step h0 (.alloc [some 1, none])) 2 :=
  result_stable h0 [some 1, none] [.value, .setCore 1 0, .alloc [some 4, some 2]] (by decide)

/-- `reduce_dims` on object 1: fresh list, kept storage 5, fresh storage; object 0 untouched -/
example : obs (run h0 [.reduceDims 1 [some 5, none]]) 1 = some (6, [5, 7], [1, 0]) ∧
    obs (run h0 [.reduceDims 1 [some 5, none]]) 0 = obs h0 0 := by decide

end TT.C06
