import TTLemmas.Add
import TTLemmas.Mul
import TTLemmas.Simple

/-!
# C03 — TT-tensor arithmetic equals dense arithmetic entry for entry

All statements: for every order `d ≥ 1`, every mode-size pattern, every rank profile and every core
value over an arbitrary commutative ring (the outputs are polynomials in the core entries), and
every multi-index `ij` (tensor trains are the `n = 1` case of the unified core).
`full` is the TT semantics (M-val); `add`, `mul`, … are the core-by-core models of the code.
-/
namespace TT.C03
open TT
variable {α : Type} [CommRing α]

/-- `(x + y).full() = x.full() + y.full()` -/
theorem full_add (xs ys : List (Core α)) (ij : List (Nat × Nat))
    (hwx : WF xs 1) (hwy : WF ys 1) (hlen : xs.length = ys.length)
    (hil : ij.length = xs.length) (hne : xs ≠ []) :
    full (add xs ys) ij = full xs ij + full ys ij :=
  full_add_gen xs ys ij hwx hwy hlen hil hne

/-- `(x - y).full() = x.full() - y.full()` -/
theorem full_sub (xs ys : List (Core α)) (ij : List (Nat × Nat))
    (hwx : WF xs 1) (hwy : WF ys 1) (hlen : xs.length = ys.length)
    (hil : ij.length = xs.length) (hne : xs ≠ []) :
    full (sub xs ys) ij = full xs ij - full ys ij := by
  have hne' : ys ≠ [] := by
    intro h; subst h; simp at hlen; exact hne hlen
  unfold sub
  rw [full_add_gen xs (negFirst ys) ij hwx (WF_negFirst ys 1 hwy)
      (by rw [length_negFirst]; exact hlen) hil hne, full_negFirst ys ij hne']
  ring

/-- `(x * y).full() = x.full() * y.full()` (elementwise) -/
theorem full_mul (xs ys : List (Core α)) (ij : List (Nat × Nat))
    (hwx : WF xs 1) (hwy : WF ys 1) (hlen : xs.length = ys.length) (hil : ij.length = xs.length) :
    full (mul xs ys) ij = full xs ij * full ys ij :=
  full_mul_gen xs ys ij hwx hwy hlen hil

/-- `(-x).full() = -x.full()` -/
theorem full_neg (xs : List (Core α)) (ij : List (Nat × Nat)) (hne : xs ≠ []) :
    full (neg xs) ij = - full xs ij := full_negFirst xs ij hne

/-- `(x * s).full() = x.full() * s`, including the `s == 0` branch that builds a rank-1 zero train -/
theorem full_smul [DecidableEq α] (xs : List (Core α)) (s : α) (ij : List (Nat × Nat))
    (hil : ij.length = xs.length) (hne : xs ≠ []) :
    full (smul xs s) ij = full xs ij * s := by
  unfold smul
  split
  · rename_i h; subst h; rw [full_zerosLike xs ij hil hne]; ring
  · exact full_scaleFirst s xs ij hne

/-- `(x / s).full() = x.full() / s` for a scalar `s` (over a field) -/
theorem full_sdiv {β : Type} [Field β] (xs : List (Core β)) (s : β) (ij : List (Nat × Nat))
    (hne : xs ≠ []) : full (sdiv xs s) ij = full xs ij / s := full_mapFirst_div s xs ij hne

/-- `(x + s).full() = x.full() + s` -/
theorem full_add_scalar (xs : List (Core α)) (s : α) (ij : List (Nat × Nat))
    (hwx : WF xs 1) (hil : ij.length = xs.length) (hne : xs ≠ []) :
    full (addScalar xs s) ij = full xs ij + s := by
  unfold addScalar
  rw [full_add_gen xs (scalarTT s xs) ij hwx (WF_scalarTT s xs hne) (length_scalarTT s xs).symm hil hne,
      full_scalarTT s xs ij hil hne]

/-- `(x - s).full() = x.full() - s` -/
theorem full_sub_scalar (xs : List (Core α)) (s : α) (ij : List (Nat × Nat))
    (hwx : WF xs 1) (hil : ij.length = xs.length) (hne : xs ≠ []) :
    full (subScalar xs s) ij = full xs ij - s := by
  unfold subScalar
  rw [full_add_gen xs (scalarTT (-s) xs) ij hwx (WF_scalarTT (-s) xs hne)
      (length_scalarTT (-s) xs).symm hil hne, full_scalarTT (-s) xs ij hil hne]
  ring

/-- `(s - x).full() = s - x.full()` -/
theorem full_rsub_scalar (xs : List (Core α)) (s : α) (ij : List (Nat × Nat))
    (hwx : WF xs 1) (hil : ij.length = xs.length) (hne : xs ≠ []) :
    full (rsubScalar xs s) ij = s - full xs ij := by
  unfold rsubScalar
  have hne2 : subScalar xs s ≠ [] := by
    match xs, hne with
    | [c], _ => simp [subScalar, add, addFrom, scalarTT]
    | c :: c' :: cs, _ => simp [subScalar, add, addFrom, scalarTT]
  rw [full_negFirst _ ij hne2, full_sub_scalar xs s ij hwx hil hne]
  ring

/-- documented rank structure: interior ranks add under `+`/`-` -/
theorem ranks_addCore (first last : Bool) (x y : Core α) :
    (addCore first last x y).r0 = off first x.r0 + y.r0 ∧
    (addCore first last x y).r1 = off last x.r1 + y.r1 ∧
    (addCore first last x y).m = x.m ∧ (addCore first last x y).n = x.n := ⟨rfl, rfl, rfl, rfl⟩

/-- documented rank structure: ranks multiply under `*` -/
theorem ranks_mulCore (x y : Core α) :
    (mulCore x y).r0 = x.r0 * y.r0 ∧ (mulCore x y).r1 = x.r1 * y.r1 ∧
    (mulCore x y).m = x.m ∧ (mulCore x y).n = x.n := ⟨rfl, rfl, rfl, rfl⟩

/-- non-vacuity: a concrete order-3 train with distinct modes and ranks > 1 is well formed -/
example : WF ([⟨1, 2, 1, 2, fun _ i _ b => (i + b : Int)⟩, ⟨2, 3, 1, 3, fun a i _ b => (a * i + b : Int)⟩,
    ⟨3, 4, 1, 1, fun a i _ _ => (a + i : Int)⟩] : List (Core Int)) 1 := by
  simp [WF]

end TT.C03
