import TTProps.C01

/-!
# C02 — rounding: the rank decision `min(Rmax[i], rank_chop(S, ‖S‖·eps/√(d-1)))` of `round_tt`

`s` is the list of singular values of the `R[i] × (n·R[i+1])` unfolding of the current core, so
`s.length ≤ R[i]` (thin SVD: `min(rows, cols)` values).  Squared, sqrt-free formulation.
-/
namespace TT.C02
open TT.Trunc TT.C01

variable {α : Type} [CommRing α] [LinearOrder α] [IsStrictOrderedRing α]
  [DecidableEq α] [DecidableRel (fun (a b : α) => a < b)] [DecidableRel (fun (a b : α) => a ≤ b)]

omit [IsStrictOrderedRing α] in
/-- the new rank never exceeds the old rank nor `rmax`, and is at least 1 when `rmax ≥ 1` -/
theorem round_rank_le (s : List α) (e : α) (rmax rOld : Nat) (hs : s ≠ []) (hlen : s.length ≤ rOld)
    (hm : 1 ≤ rmax) :
    capped rmax (rankChop s e) ≤ rOld ∧ capped rmax (rankChop s e) ≤ rmax ∧
      1 ≤ capped rmax (rankChop s e) := by
  have hb := rankChop_bounds s e hs
  have hc := capped_le rmax (rankChop s e)
  have hb2 := capped_bounds rmax (rankChop s e) s.length hb hm
  exact ⟨by omega, hc.1, hb2.1⟩

/-- when `rmax` is not binding the discarded energy at this bond is within the allowance -/
theorem round_tail_when_not_binding (s : List α) (e : α) (rmax : Nat) (h : rankChop s e ≤ rmax) :
    tailE s (capped rmax (rankChop s e)) ≤ e * e := by
  have : capped rmax (rankChop s e) = rankChop s e := by
    unfold capped; omega
  rw [this]; exact rankChop_tail s e

/-- an exactly low-rank unfolding (singular values beyond position `k` vanish) is compressed to rank `≤ k`
    for every positive allowance: inflated ranks are removed -/
theorem round_compresses (s : List α) (e : α) (rmax k : Nat) (he : 0 < e) (hk : 1 ≤ k)
    (hz : tailE s k = 0) : capped rmax (rankChop s e) ≤ k := by
  have h1 : tailE s k ≤ e * e := by rw [hz]; exact le_of_lt (mul_pos he he)
  have := rankChop_least s e k he hk h1
  have hc := capped_le rmax (rankChop s e)
  omega

omit [DecidableEq α] [DecidableRel (fun (a b : α) => a < b)] [DecidableRel (fun (a b : α) => a ≤ b)] in
/-- the allowance split of the right-to-left sweep: `d-1` bonds, each with allowance
    `eps²/(d-1)` relative to the same norm (the frames are orthonormal, so every `‖S‖` equals `‖x‖`) -/
theorem round_allowance (d : Nat) (l : List (α × α)) (ep2 e2 c : α) (hd : 2 ≤ d) (hlen : l.length = d - 1)
    (hep : 0 ≤ ep2) (hc : 0 ≤ c) (h : ∀ p ∈ l, p.1 ≤ ep2 * p.2 ∧ p.2 ≤ c) (hb : ((d : α) - 1) * ep2 ≤ e2) :
    (l.map Prod.fst).sum ≤ e2 * c :=
  allowance_sum_d d l ep2 e2 c hd hlen hep hc h hb

/-- non-vacuity: spectrum `[3,2,0,0]` stored with rank 4, rmax 10, eps² = 1/4·… over ℤ with e = 1 -/
example : capped 10 (rankChop ([3,2,0,0] : List Int) 1) ≤ 2 :=
  round_compresses (α := Int) [3,2,0,0] 1 10 2 (by decide) (by decide) (by decide)

end TT.C02
