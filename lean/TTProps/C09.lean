import TTLemmas.ExtrasL

/-!
# C09 — structural operations: `conj`, `diag`, `mprod`, `cat`, `pad`

All statements: every order, every mode-size pattern, every rank profile, every core value over an
arbitrary commutative ring.  `full` is the TT semantics (M-val); `conjTT`, `diagEmbed`,
`diagExtract`, `mprod`, `cat`, `padT` are the core-by-core models of the code
(`TTModel/Algebra.lean`, `TTModel/Extras.lean`).  Tensor trains are addressed with
`tIdx is = [(i_1,0), …, (i_d,0)]`.
-/
namespace TT.C09
open TT
variable {α : Type} [CommRing α]

/-! ## (e) `conj` -/

/-- `x.conj().full() = conj(x.full())` for any ring endomorphism `cj` -/
theorem full_conj (cj : α → α) (h0 : cj 0 = 0) (h1 : cj 1 = 1)
    (hadd : ∀ a b, cj (a + b) = cj a + cj b) (hmul : ∀ a b, cj (a * b) = cj a * cj b)
    (xs : List (Core α)) (ij : List (Nat × Nat)) :
    full (conjTT cj xs) ij = cj (full xs ij) :=
  chain_conj cj h0 h1 hadd hmul xs ij 0 0

/-- non-vacuity: the identity is such a `cj` (real dtype) -/
example (xs : List (Core α)) (ij : List (Nat × Nat)) : full (conjTT id xs) ij = full xs ij :=
  full_conj id rfl rfl (fun _ _ => rfl) (fun _ _ => rfl) xs ij

/-! ## (f) `diag` -/

/-- TT-tensor → diagonal TT-matrix -/
theorem full_diagEmbed (xs : List (Core α)) (ij : List (Nat × Nat)) (hil : ij.length = xs.length) :
    full (diagEmbed xs) ij =
      if ∀ p ∈ ij, p.1 = p.2 then full xs (tIdx (ij.map Prod.fst)) else 0 :=
  chain_diagEmbed xs ij hil 0 0

/-- TT-matrix → TT-tensor of its diagonal -/
theorem full_diagExtract (xs : List (Core α)) (is : List Nat) :
    full (diagExtract xs) (tIdx is) = full xs (is.map (fun i => (i, i))) :=
  chain_diagExtract xs is 0 0

/-- `diag(diag(x)) = x` on tensor trains -/
theorem full_diagExtract_diagEmbed (xs : List (Core α)) (is : List Nat) (hil : is.length = xs.length) :
    full (diagExtract (diagEmbed xs)) (tIdx is) = full xs (tIdx is) := by
  rw [full_diagExtract, full_diagEmbed _ _ (by simpa using hil), if_pos]
  · simp [List.map_map, Function.comp_def]
  · intro p hp
    obtain ⟨i, _, rfl⟩ := List.mem_map.mp hp
    rfl

example : full (diagEmbed ([⟨1, 2, 1, 1, fun _ i _ _ => (i + 3 : Int)⟩] : List (Core Int))) [(1, 1)] = 4 ∧
    full (diagEmbed ([⟨1, 2, 1, 1, fun _ i _ _ => (i + 3 : Int)⟩] : List (Core Int))) [(1, 0)] = 0 := by
  decide

/-! ## (g) `mprod` -/

/-- mode product with a `rows × m_mode` matrix `F`:
    `x.mprod(F, mode)[…, l, …] = Σ_j F[l, j] · x[…, j, …]` -/
theorem full_mprod (cs : List (Core α)) (mode rows : Nat) (F : Nat → Nat → α) (is : List Nat)
    (hm : mode < cs.length) (hil : is.length = cs.length) :
    full (mprod cs mode rows F) (tIdx is) =
      sumTo (cs[mode]).m (fun j => F (is[mode]) j * full cs (tIdx (is.set mode j))) :=
  chain_mprod rows F mode cs is hm hil 0 0

/-- shape / ranks of the result: only the mode size at `mode` changes -/
theorem WF_mprod (cs : List (Core α)) (mode rows : Nat) (F : Nat → Nat → α) :
    ∀ r, WF cs r → WF (mprod cs mode rows F) r := by
  induction mode generalizing cs with
  | zero => intro r h; cases cs with
    | nil => exact h
    | cons c cs => exact h
  | succ k ih => intro r h; cases cs with
    | nil => exact h
    | cons c cs => exact ⟨h.1, ih cs c.r1 h.2⟩

example : full (mprod ([⟨1, 2, 1, 1, fun _ i _ _ => (i + 3 : Int)⟩] : List (Core Int)) 0 3
    (fun l j => (l + j : Int))) (tIdx [2]) = 2 * 3 + 3 * 4 := by decide

/-! ## (h) `cat`

`catOffset dim ts p = Σ_{q<p} (mode size `dim` of `ts[q]`)` (`TTLemmas/ExtrasL.lean`).

Requested statement (no in-range hypothesis):
  `o_p ≤ is[dim] < o_p + ts[p][dim].m → full (cat dim ts) (tIdx is) = full ts[p] (tIdx (is.set dim (is[dim] - o_p)))`.
It is FALSE of the model for out-of-range indices on the non-concatenated modes: the block cores
written by `cat` are zero outside each operand's block, whereas `full ts[p]` evaluates the raw
`get` function there (see `full_cat_outOfRange_counterexample`).  With the hypothesis `hin` that the
other indices are in range *for the selected operand* the statement holds for any number of
operands: -/

omit [CommRing α] in
theorem catOffset_zero (dim : Nat) (ts : List (List (Core α))) : catOffset dim ts 0 = 0 := by
  simp [catOffset, sumNat]

omit [CommRing α] in
theorem catOffset_cons_succ (dim : Nat) (t : List (Core α)) (ts : List (List (Core α))) (p : Nat) :
    catOffset dim (t :: ts) (p + 1) = (modesM t).getD dim 0 + catOffset dim ts p := by
  simp [catOffset, sumNat_cons]

/-- k-ary `cat`: the entry at `is` is the entry of the operand `p` whose block contains `is[dim]` -/
theorem full_cat_partial (dim d : Nat) (ts : List (List (Core α))) (is : List Nat) (p : Nat)
    (hd : dim < d) (hlen : ∀ t ∈ ts, t.length = d) (hwf : ∀ t ∈ ts, WF t 1)
    (hil : is.length = d) (hp : p < ts.length)
    (hlo : catOffset dim ts p ≤ is[dim])
    (hhi : is[dim] < catOffset dim ts p + (ts[p][dim]'(by rw [hlen _ (List.getElem_mem hp)]; exact hd)).m)
    (hin : ∀ q (hq : q < d), q ≠ dim →
      is[q] < (ts[p][q]'(by rw [hlen _ (List.getElem_mem hp)]; exact hq)).m) :
    full (cat dim ts) (tIdx is) = full ts[p] (tIdx (is.set dim (is[dim] - catOffset dim ts p))) := by
  have hpl : ts[p].length = d := hlen _ (List.getElem_mem hp)
  have hcat : cat dim ts = catGo dim d 0 ts := by
    match ts, hp, hlen with
    | t :: ts', _, hlen => simp [cat, hlen t List.mem_cons_self]
  have hgd : is.getD dim 0 = is[dim] := by simp [List.getD_eq_getElem?_getD, hil, hd]
  have hmd : ∀ q (hq : q < d), (modesM ts[p]).getD q 0 = (ts[p][q]'(by rw [hpl]; exact hq)).m := by
    intro q hq
    simp [modesM, List.getD_eq_getElem?_getD, hpl, hq]
  rw [hcat, full_catGo dim d hd ts is p hp hlen hwf hil (by rw [hgd]; exact hlo)
    (by rw [hgd, hmd dim hd]; exact hhi)
    (by
      intro q hq hqd
      have : is.getD q 0 = is[q] := by simp [List.getD_eq_getElem?_getD, hil, hq]
      rw [this, hmd q hq]; exact hin q hq hqd), hgd]

/-- the result of `cat` is a well-formed train of the same order -/
theorem WF_cat (dim d : Nat) (ts : List (List (Core α))) (hd : 1 ≤ d) (hne : ts ≠ [])
    (hlen : ∀ t ∈ ts, t.length = d) (hwf : ∀ t ∈ ts, WF t 1) :
    WF (cat dim ts) 1 ∧ (cat dim ts).length = d := by
  have hcat : cat dim ts = catGo dim d 0 ts := by
    match ts, hne, hlen with
    | t :: ts', _, hlen => simp [cat, hlen t List.mem_cons_self]
  rw [hcat]
  exact WF_catGo dim d hd ts hlen hwf

/-- the two-operand case, spelled out: first block -/
theorem full_cat_two_left (dim d : Nat) (t1 t2 : List (Core α)) (is : List Nat)
    (hd : dim < d) (h1 : t1.length = d) (h2 : t2.length = d) (hw1 : WF t1 1) (hw2 : WF t2 1)
    (hil : is.length = d) (hlt : is[dim] < (t1[dim]).m)
    (hin : ∀ q (hq : q < d), q ≠ dim → is[q] < (t1[q]).m) :
    full (cat dim [t1, t2]) (tIdx is) = full t1 (tIdx is) := by
  have hlen : ∀ t ∈ [t1, t2], t.length = d := by
    intro t ht; simp at ht; rcases ht with rfl | rfl <;> assumption
  have hwf : ∀ t ∈ [t1, t2], WF t 1 := by
    intro t ht; simp at ht; rcases ht with rfl | rfl <;> assumption
  have := full_cat_partial dim d [t1, t2] is 0 hd hlen hwf hil (by simp)
    (by simp [catOffset_zero]) (by simpa [catOffset_zero] using hlt) (by simpa using hin)
  simpa [catOffset_zero] using this

/-- the two-operand case, spelled out: second block -/
theorem full_cat_two_right (dim d : Nat) (t1 t2 : List (Core α)) (is : List Nat)
    (hd : dim < d) (h1 : t1.length = d) (h2 : t2.length = d) (hw1 : WF t1 1) (hw2 : WF t2 1)
    (hil : is.length = d) (hge : (t1[dim]).m ≤ is[dim]) (hlt : is[dim] < (t1[dim]).m + (t2[dim]).m)
    (hin : ∀ q (hq : q < d), q ≠ dim → is[q] < (t2[q]).m) :
    full (cat dim [t1, t2]) (tIdx is) = full t2 (tIdx (is.set dim (is[dim] - (t1[dim]).m))) := by
  have hlen : ∀ t ∈ [t1, t2], t.length = d := by
    intro t ht; simp at ht; rcases ht with rfl | rfl <;> assumption
  have hwf : ∀ t ∈ [t1, t2], WF t 1 := by
    intro t ht; simp at ht; rcases ht with rfl | rfl <;> assumption
  have hoff : catOffset dim [t1, t2] 1 = (t1[dim]).m := by
    rw [catOffset_cons_succ, catOffset_zero]
    simp [modesM, List.getD_eq_getElem?_getD, h1, hd]
  have := full_cat_partial dim d [t1, t2] is 1 hd hlen hwf hil (by simp)
    (by rw [hoff]; exact hge) (by rw [hoff]; simpa using hlt) (by simpa using hin)
  simpa [hoff] using this

/-- why the in-range hypothesis `hin` is needed: one operand of shape `[1,1]` (all entries 1),
    index `[0,5]`: `cat` yields `0`, the raw operand evaluates to `1`. -/
theorem full_cat_outOfRange_counterexample :
    let c : Core Int := ⟨1, 1, 1, 1, fun _ _ _ _ => 1⟩
    full (cat 0 [[c, c]]) (tIdx [0, 5]) ≠ full ([[c, c]][0]) (tIdx ([0, 5].set 0 (0 - 0))) := by
  decide

/-- non-vacuity: concatenating `[1,2]` and `[3,4,5]` (as 1-mode trains after a 2-mode one) -/
example :
    let t1 : List (Core Int) := [⟨1, 2, 1, 1, fun _ i _ _ => (i + 1 : Int)⟩, ⟨1, 2, 1, 1, fun _ i _ _ => (i + 1 : Int)⟩]
    let t2 : List (Core Int) := [⟨1, 3, 1, 1, fun _ i _ _ => (i + 3 : Int)⟩, ⟨1, 2, 1, 1, fun _ i _ _ => (i + 7 : Int)⟩]
    full (cat 0 [t1, t2]) (tIdx [3, 1]) = full t2 (tIdx [1, 1]) ∧
    full (cat 0 [t1, t2]) (tIdx [1, 1]) = full t1 (tIdx [1, 1]) := by decide

/-! ## (i) `pad`, tensor branch

`padding` applies to the LAST `padding.length` modes.  Split `cs = cs0 ++ cs1`, `is = is0 ++ is1`
with `cs1`, `is1`, `padding` of the same length; `padInside cs1 padding is1` says every padded index
lies inside the original block (`p.1 ≤ i < p.1 + c.m` position by position), `padShift padding is1`
subtracts the leading pad widths. -/

omit [CommRing α] in
theorem padInside_nil : padInside ([] : List (Core α)) [] [] := by simp [padInside]

omit [CommRing α] in
theorem padInside_cons (c : Core α) (cs : List (Core α)) (p : Nat × Nat) (ps : List (Nat × Nat))
    (i : Nat) (is : List Nat) :
    padInside (c :: cs) (p :: ps) (i :: is) ↔ (p.1 ≤ i ∧ i < p.1 + c.m) ∧ padInside cs ps is := by
  simp [padInside]

theorem padShift_cons (p : Nat × Nat) (ps : List (Nat × Nat)) (i : Nat) (is : List Nat) :
    padShift (p :: ps) (i :: is) = (i - p.1) :: padShift ps is := rfl

/-- zero padding: the original entry inside the block, `0` in the padding -/
theorem full_padT_zero [DecidableEq α] (cs0 cs1 : List (Core α)) (padding : List (Nat × Nat))
    (is0 is1 : List Nat) (h1 : cs1.length = padding.length) (h2 : is0.length = cs0.length)
    (h3 : is1.length = cs1.length) :
    full (padT (cs0 ++ cs1) padding 0) (tIdx (is0 ++ is1)) =
      if padInside cs1 padding is1 then full (cs0 ++ cs1) (tIdx (is0 ++ padShift padding is1)) else 0 :=
  full_padT_zero_gen cs0 cs1 padding is0 is1 h1 h2 h3

/-- the same without the explicit split: `k = cs.length - padding.length` leading modes untouched -/
theorem full_padT_zero' [DecidableEq α] (cs : List (Core α)) (padding : List (Nat × Nat)) (is : List Nat)
    (hp : padding.length ≤ cs.length) (hil : is.length = cs.length) :
    full (padT cs padding 0) (tIdx is) =
      if padInside (cs.drop (cs.length - padding.length)) padding (is.drop (cs.length - padding.length))
      then full cs (tIdx (is.take (cs.length - padding.length) ++
        padShift padding (is.drop (cs.length - padding.length)))) else 0 := by
  have := full_padT_zero (cs.take (cs.length - padding.length)) (cs.drop (cs.length - padding.length))
    padding (is.take (cs.length - padding.length)) (is.drop (cs.length - padding.length))
    (by simp; omega) (by simp [hil]) (by simp [hil])
  simpa using this

example : full (padT ([⟨1, 2, 1, 1, fun _ i _ _ => (i + 3 : Int)⟩] : List (Core Int)) [(1, 1)] 0) (tIdx [2]) = 4 ∧
    full (padT ([⟨1, 2, 1, 1, fun _ i _ _ => (i + 3 : Int)⟩] : List (Core Int)) [(1, 1)] 0) (tIdx [3]) = 0 := by
  decide

/-- **defect for a non-zero fill value**: `pad` stores `value/prod(R)` in the padding of the last
    padded core and `1` in the padding of the others, so an entry with one index in the padding and
    another inside the block is a product of a padding `1` with original core entries, not `value`.
    Concrete instance: the all-ones `2 × 2` tensor (rank 1, so `value/prod(R) = value = 5`), padded by
    one at the end of both modes; the entry `[2, 0]` (first index in the padding) is `1`, not `5`. -/
theorem padT_nonzero_counterexample :
    let c : Core Int := ⟨1, 2, 1, 1, fun _ _ _ _ => 1⟩
    full (padT [c, c] [(0, 1), (0, 1)] 5) (tIdx [2, 0]) ≠ 5 ∧
    full (padT [c, c] [(0, 1), (0, 1)] 5) (tIdx [2, 0]) = 1 ∧
    full (padT [c, c] [(0, 1), (0, 1)] 5) (tIdx [0, 2]) = 5 := by
  decide

/-! ## (j) `pad`, operator branch

For a TT-matrix with one padding pair per mode (`padding.length = cs.length`) the result is the
block-diagonal operator `diag(v·I, A, v·I)` *along the three index patterns* "every mode in the
leading pad", "every mode in the trailing pad", "every mode inside the original block"; every mixed
pattern gives `0`.  The three patterns are mutually exclusive, so the entry is the sum of three
guarded terms (`padBeforeM`, `padAfterM`, `padInsideM`, `padShiftM` are defined in
`TTLemmas/ExtrasL.lean`; the first two include the Kronecker delta of the identity block). -/

theorem padBeforeM_cons' (p q : Nat × Nat) (ps ij : List (Nat × Nat)) :
    padBeforeM (p :: ps) (q :: ij) ↔ (q.1 < p.1 ∧ q.2 < p.1 ∧ q.1 = q.2) ∧ padBeforeM ps ij :=
  padBeforeM_cons p q ps ij

omit [CommRing α] in
theorem padAfterM_cons' (c : Core α) (cs : List (Core α)) (p q : Nat × Nat) (ps ij : List (Nat × Nat)) :
    padAfterM (c :: cs) (p :: ps) (q :: ij) ↔
      (p.1 + c.m ≤ q.1 ∧ p.1 + c.n ≤ q.2 ∧ q.1 - (p.1 + c.m) = q.2 - (p.1 + c.n)) ∧ padAfterM cs ps ij :=
  padAfterM_cons c cs p q ps ij

omit [CommRing α] in
theorem padInsideM_cons' (c : Core α) (cs : List (Core α)) (p q : Nat × Nat) (ps ij : List (Nat × Nat)) :
    padInsideM (c :: cs) (p :: ps) (q :: ij) ↔
      (p.1 ≤ q.1 ∧ q.1 < p.1 + c.m ∧ p.1 ≤ q.2 ∧ q.2 < p.1 + c.n) ∧ padInsideM cs ps ij :=
  padInsideM_cons c cs p q ps ij

theorem padShiftM_cons (p q : Nat × Nat) (ps ij : List (Nat × Nat)) :
    padShiftM (p :: ps) (q :: ij) = (q.1 - p.1, q.2 - p.1) :: padShiftM ps ij := rfl

/-- operator branch of `pad`, full-length padding, any fill value `v` -/
theorem full_padM (cs : List (Core α)) (padding ij : List (Nat × Nat)) (v : α) (hne : cs ≠ [])
    (hlp : cs.length = padding.length) (hli : ij.length = cs.length) (hw : WF cs 1) :
    full (padM cs padding v) ij =
      (if padBeforeM padding ij then v else 0) + (if padAfterM cs padding ij then v else 0) +
      (if padInsideM cs padding ij then full cs (padShiftM padding ij) else 0) :=
  full_padM_gen cs padding ij v hne hlp hli hw

/-- non-vacuity / sanity: a `2×2` rank-1 operator `[[3,4],[4,5]]` padded by one on both sides with
    fill 7: corner `(0,0)` is `7`, centre `(1,1)` is `3`, corner `(3,3)` is `7`, mixed `(0,1)` is `0` -/
example :
    let c : Core Int := ⟨1, 2, 2, 1, fun _ i j _ => (i + j + 3 : Int)⟩
    full (padM [c] [(1, 1)] 7) [(0, 0)] = 7 ∧ full (padM [c] [(1, 1)] 7) [(1, 1)] = 3 ∧
    full (padM [c] [(1, 1)] 7) [(3, 3)] = 7 ∧ full (padM [c] [(1, 1)] 7) [(0, 1)] = 0 := by decide

/-- **observation (model level)**: with fewer padding pairs than modes the operator branch pads the
    left rank of the first padded core (`k > 0`) but leaves the preceding, unpadded core alone, so
    the rank chain of the result is inconsistent (`wfB` is the executable twin of `WF`). -/
theorem padM_short_padding_rank_mismatch :
    let c : Core Int := ⟨1, 2, 2, 1, fun _ i j _ => (i + j + 3 : Int)⟩
    wfB (padM [c, c] [(1, 1)] 7) 1 = false := by decide

end TT.C09
