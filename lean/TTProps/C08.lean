import TTLemmas.ReduceDims

/-!
# C08 — `reduce_dims` and `__getitem__` (TT-tensor branch) agree with dense indexing

`reduceDims excl cs` is the core-by-core model of `TT.reduce_dims(exclude)`, `getitem sel cs` the
model of `x[sel]` for a tuple index (`Sel.int k`, `Sel.slice start step len`, `Sel.none`), i.e.
slicing loop + `reduce_dims(exclude)` with `exclude` = the slice and `None` positions.
All statements hold for every order, mode-size pattern, rank profile and core values over an
arbitrary commutative ring.  `keptMask`, `expandIdx`, `selIdx`, `getIdx`, `selShape`, … are defined
in `TTLemmas/ReduceDims.lean`.
-/
namespace TT.C08
open TT
variable {α : Type} [CommRing α]

/-! ### `reduce_dims` -/

/-- **`reduce_dims` preserves the represented tensor**: an entry of the reduced train is the entry
    of the original train with index `(0,0)` re-inserted at the removed positions.
    (True for every train, well formed or not, empty or not.) -/
theorem reduceDims_full (excl : Nat → Bool) (cs : List (Core α)) (ij : List (Nat × Nat))
    (hij : ij.length = keptCount (keptMask excl cs)) :
    full (reduceDims excl cs) ij = full cs (expandIdx (keptMask excl cs) ij) :=
  TT.reduceDims_full excl cs ij hij

/-- the statement in the form requested (extra hypotheses are not needed) -/
theorem reduceDims_full' (excl : Nat → Bool) (cs : List (Core α)) (ij : List (Nat × Nat))
    (_hw : WF cs 1) (_hne : cs ≠ []) (hij : ij.length = keptCount (keptMask excl cs)) :
    full (reduceDims excl cs) ij = full cs (expandIdx (keptMask excl cs) ij) :=
  TT.reduceDims_full excl cs ij hij

/-- the result is a well-formed train -/
theorem reduceDims_WF (excl : Nat → Bool) (cs : List (Core α)) (h : WF cs 1) :
    WF (reduceDims excl cs) 1 := WF_reduceDims excl cs 1 h

/-- the modes of the result are the modes of the kept cores, in order -/
theorem reduceDims_modes (excl : Nat → Bool) (cs : List (Core α)) :
    modesM (reduceDims excl cs) = keepBy (keptMask excl cs) (modesM cs) ∧
    modesN (reduceDims excl cs) = keepBy (keptMask excl cs) (modesN cs) ∧
    (reduceDims excl cs).length = keptCount (keptMask excl cs) :=
  ⟨modesM_reduceDims excl cs, modesN_reduceDims excl cs, length_reduceDims excl cs⟩

omit [CommRing α] in
/-- which positions are kept: the non-removable ones (`¬ (m = 1 ∧ n = 1 ∧ i ∉ exclude)`) … -/
theorem keptMask_of_some_kept (excl : Nat → Bool) (cs : List (Core α))
    (h : (rawMask excl 0 (modes cs)).any id = true) :
    keptMask excl cs = rawMask excl 0 (modes cs) := keptMaskM_eq_raw excl (modes cs) h

omit [CommRing α] in
/-- … except that the last core is kept when every position is removable -/
theorem keptMask_of_all_removable (excl : Nat → Bool) (cs : List (Core α)) (hne : cs ≠ [])
    (h : (rawMask excl 0 (modes cs)).any id = false) :
    keptMask excl cs = List.replicate (cs.length - 1) false ++ [true] := by
  have := keptMaskM_all_removable excl (modes cs) (by simpa [modes] using hne) h
  have hl : (modes cs).length = cs.length := by simp [modes]
  rw [hl] at this
  exact this

/-- a non-empty train stays non-empty -/
theorem reduceDims_ne_nil (excl : Nat → Bool) (cs : List (Core α)) (hne : cs ≠ []) :
    reduceDims excl cs ≠ [] := TT.reduceDims_ne_nil excl cs hne

/-! ### the slicing loop (before `reduce_dims`) -/

/-- one sliced core: `int k` reads row `k`, `slice start step len` reads row `start + step*i` -/
theorem selRow_full (c : Core α) (t : List (Core α)) (x : Nat × Nat) (xs : List (Nat × Nat))
    (a b : Nat) :
    (∀ k, chain (selRow c (.int k) :: t) (x :: xs) a b = chain (c :: t) ((k, x.2) :: xs) a b) ∧
    (∀ s st len, chain (selRow c (.slice s st len) :: t) (x :: xs) a b
        = chain (c :: t) ((s + st * x.1, x.2) :: xs) a b) ∧
    (∀ r, a < r → chain ((eyeCore r : Core α) :: t) (x :: xs) a b = chain t xs a b) :=
  ⟨fun _ => rfl, fun _ _ _ => rfl, fun r ha => chain_eyeCore r t x xs a b ha⟩

/-- **value of the sliced train**: entry `ij` (one index per selector, the index at a `None`
    position being irrelevant) is the entry `selIdx sel ij` of the original.  `None` selectors
    are allowed. -/
theorem getitemGo_full (sel : List Sel) (cs cs' : List (Core α)) (ex : List Nat)
    (ij : List (Nat × Nat)) (h : getitemGo sel cs 0 [] [] = some (cs', ex))
    (hij : ij.length = sel.length) :
    full cs' ij = full cs (selIdx sel ij) := by
  obtain ⟨ht, _⟩ := rd_getitemGo_top sel cs cs' ex h
  exact rd_chain_sliced sel cs cs' 1 ij 0 0 ht hij (by omega)

/-- the same on tensor-style indices -/
theorem getitemGo_full_tensor (sel : List Sel) (cs cs' : List (Core α)) (ex : List Nat)
    (is : List Nat) (h : getitemGo sel cs 0 [] [] = some (cs', ex))
    (hij : is.length = sel.length) :
    full cs' (tIdx is) = full cs (tIdx (selIdxT sel is)) := by
  rw [getitemGo_full sel cs cs' ex (tIdx is) h (by simpa [tIdx] using hij), rd_selIdx_tIdx]

/-- the `exclude` list is the list of slice / `None` positions; one new core per selector; the
    sliced train is well formed; its modes are `1` (int), `len` (slice), `1` (`None`) -/
theorem getitemGo_meta (sel : List Sel) (cs cs' : List (Core α)) (ex : List Nat)
    (h : getitemGo sel cs 0 [] [] = some (cs', ex)) :
    ex = exPos 0 sel ∧ cs'.length = sel.length ∧ (WF cs 1 → WF cs' 1) ∧
    (IsTensor cs → modesM cs' = selShapeFull sel ∧ modesN cs' = List.replicate sel.length 1) := by
  obtain ⟨ht, hex⟩ := rd_getitemGo_top sel cs cs' ex h
  refine ⟨hex, rd_length_sliced sel cs cs' 1 ht, rd_WF_sliced sel cs cs' 1 ht, ?_⟩
  intro hten
  have hm := rd_modes_sliced sel cs cs' 1 ht hten
  constructor
  · have := congrArg (List.map Prod.fst) hm
    simpa [modes, modesM, Function.comp_def] using this
  · have := congrArg (List.map Prod.snd) hm
    simpa [modes, modesN, Function.comp_def, rd_length_selShapeFull] using this

/-! ### `x[sel]` = slicing loop + `reduce_dims(exclude)` -/

/-- **value of `x[sel]`, general form** (any selectors incl. `None`, any cores): with `cs'` the
    sliced train and `mask` its survival mask, entry `ij` of the result is entry
    `selIdx sel (expandIdx mask ij)` of `x`. -/
theorem getitem_full (sel : List Sel) (cs res : List (Core α)) (flag : Bool)
    (h : getitem sel cs = some (res, flag)) :
    ∃ cs', getitemGo sel cs 0 [] [] = some (cs', exPos 0 sel) ∧
      ∀ ij, ij.length = keptCount (keptMask (fun i => (exPos 0 sel).contains i) cs') →
        full res ij
          = full cs (selIdx sel (expandIdx (keptMask (fun i => (exPos 0 sel).contains i) cs') ij)) := by
  obtain ⟨t, hgo, ht, hres, _⟩ := rd_getitem_some sel cs res flag h
  refine ⟨t, hgo, ?_⟩
  intro ij hij
  subst hres
  rw [TT.reduceDims_full _ t ij hij]
  apply rd_chain_sliced sel cs t 1 _ 0 0 ht _ (by omega)
  rw [length_expandIdx _ ij hij, length_keptMask, rd_length_sliced sel cs t 1 ht]

/-- for a TT-tensor the survival mask is `selMask sel`: the slice / `None` positions
    (all integer selectors: the last core) -/
theorem getitem_mask (sel : List Sel) (cs cs' : List (Core α)) (ex : List Nat) (hne : sel ≠ [])
    (hten : IsTensor cs) (h : getitemGo sel cs 0 [] [] = some (cs', ex)) :
    keptMask (fun i => ex.contains i) cs' = selMask sel := by
  obtain ⟨ht, hex⟩ := rd_getitemGo_top sel cs cs' ex h
  subst hex
  exact keptMask_sliced sel cs cs' 1 hne ht hten

/-- **value of `x[sel]` on a TT-tensor, at least one slice / `None` selector**: entry `ij` of the
    result (one index per slice / `None` selector) is the entry of `x` at: `k` for `int k`,
    `start + step*i` for a slice; the index at a `None` position is dropped. -/
theorem getitem_full_tensor (sel : List Sel) (cs res : List (Core α)) (flag : Bool)
    (ij : List (Nat × Nat)) (hten : IsTensor cs) (hsome : sel.any Sel.keeps = true)
    (h : getitem sel cs = some (res, flag))
    (hij : ij.length = keptCount (sel.map Sel.keeps)) :
    full res ij = full cs (getIdx sel ij) := by
  have hne : sel ≠ [] := by rintro rfl; simp at hsome
  obtain ⟨t, hgo, ht, hres, _⟩ := rd_getitem_some sel cs res flag h
  have hmask := keptMask_sliced sel cs t 1 hne ht hten
  have hsm : selMask sel = sel.map Sel.keeps := by simp [selMask, hsome]
  obtain ⟨t', hgo', hall⟩ := getitem_full sel cs res flag h
  have : t' = t := by rw [hgo] at hgo'; simpa using hgo'.symm
  subst this
  rw [hall ij (by rw [hmask, hsm]; exact hij), hmask, hsm, rd_selIdx_expand]

/-- the same on tensor-style indices -/
theorem getitem_full_tensor' (sel : List Sel) (cs res : List (Core α)) (flag : Bool)
    (is : List Nat) (hten : IsTensor cs) (hsome : sel.any Sel.keeps = true)
    (h : getitem sel cs = some (res, flag))
    (hij : is.length = keptCount (sel.map Sel.keeps)) :
    full res (tIdx is) = full cs (tIdx (getIdxT sel is)) := by
  rw [getitem_full_tensor sel cs res flag (tIdx is) hten hsome h (by simpa [tIdx] using hij),
    rd_getIdx_tIdx]

/-- **value of `x[k_1, …, k_d]`** (all selectors integers): the scalar flag is set and the single
    remaining entry is `x[k_1, …, k_d]`. -/
theorem getitem_full_allInt (sel : List Sel) (cs res : List (Core α)) (flag : Bool)
    (hten : IsTensor cs) (hne : sel ≠ []) (hall : sel.any Sel.keeps = false)
    (h : getitem sel cs = some (res, flag)) :
    flag = true ∧ ∀ i, full res [(i, 0)] = full cs (tIdx (getIdxT sel [])) := by
  obtain ⟨t, hgo, ht, hres, hflag⟩ := rd_getitem_some sel cs res flag h
  have hmask := keptMask_sliced sel cs t 1 hne ht hten
  have hsm : selMask sel = List.replicate (sel.length - 1) false ++ [true] := by
    simp [selMask, hall]
  constructor
  · rw [hflag, rd_exPos_isEmpty, hall]; rfl
  · intro i
    obtain ⟨t', hgo', hgen⟩ := getitem_full sel cs res flag h
    have : t' = t := by rw [hgo] at hgo'; simpa using hgo'.symm
    subst this
    have hcount : keptCount (List.replicate (sel.length - 1) false ++ [true]) = 1 := by
      simp [keptCount, List.count_replicate]
    rw [hgen [(i, 0)] (by rw [hmask, hsm, hcount]; rfl), hmask, hsm,
      rd_selIdx_allInt sel hne hall i, ← rd_getIdx_tIdx]
    rfl

/-- `x[sel]` is defined (no `InvalidArguments` / `IndexError`) iff the selectors other than `None`
    are exactly as many as the cores -/
theorem getitem_defined_iff (sel : List Sel) (cs : List (Core α)) :
    (getitem sel cs).isSome = true ↔ sel.countP (fun s => !s.isNone) = cs.length := by
  rw [← rd_sliced_isSome sel cs 1]
  unfold getitem
  rw [rd_getitemGo_eq]
  have h1 : rd_lastR1 ([] : List (Core α)) = 1 := rfl
  rw [h1]
  cases slicedCores sel cs 1 <;> simp

/-- the result of `x[sel]` is a well-formed train -/
theorem getitem_WF (sel : List Sel) (cs res : List (Core α)) (flag : Bool) (hw : WF cs 1)
    (h : getitem sel cs = some (res, flag)) : WF res 1 := by
  obtain ⟨t, _, ht, hres, _⟩ := rd_getitem_some sel cs res flag h
  subst hres
  exact WF_reduceDims _ t 1 (rd_WF_sliced sel cs t 1 ht hw)

/-- **shape of `x[sel]`** on a TT-tensor: `len` per slice selector and `1` per `None`, in order;
    integer positions vanish.  Corner case: all selectors integers — the last core survives with
    mode size 1 and the scalar flag is set. -/
theorem getitem_shape (sel : List Sel) (cs res : List (Core α)) (flag : Bool)
    (hten : IsTensor cs) (hne : sel ≠ []) (h : getitem sel cs = some (res, flag)) :
    flag = !(sel.any Sel.keeps) ∧
    modesN res = List.replicate res.length 1 ∧
    (sel.any Sel.keeps = true → modesM res = selShape sel) ∧
    (sel.any Sel.keeps = false → modesM res = [1]) := by
  obtain ⟨t, hgo, ht, hres, hflag⟩ := rd_getitem_some sel cs res flag h
  have hmask := keptMask_sliced sel cs t 1 hne ht hten
  obtain ⟨_, hlen, _, hmodes⟩ := getitemGo_meta sel cs t _ hgo
  obtain ⟨hM, hN⟩ := hmodes hten
  have hmlen : (selMask sel).length = sel.length := by
    rw [← hmask, length_keptMask, hlen]
  subst hres
  refine ⟨by rw [hflag, rd_exPos_isEmpty], ?_, ?_, ?_⟩
  · rw [modesN_reduceDims, hmask, hN, ← hmlen, keepBy_replicate, length_reduceDims, hmask]
  · intro hsome
    have hsm : selMask sel = sel.map Sel.keeps := by simp [selMask, hsome]
    rw [modesM_reduceDims, hmask, hM, hsm, rd_keepBy_selShape]
  · intro hall
    have hsm : selMask sel = List.replicate (sel.length - 1) false ++ [true] := by
      simp [selMask, hall]
    have hpos : sel.length = (sel.length - 1) + 1 := by
      have : 0 < sel.length := List.length_pos_iff.mpr hne
      omega
    rw [modesM_reduceDims, hmask, hM, hsm, rd_selShapeFull_allInt sel hall, hpos]
    simpa using rd_keepBy_last (sel.length - 1) 1

/-! ### non-vacuity and concrete instances -/

/-- the hypotheses of the `getitem_*` theorems are satisfiable: an order-2 `Int` train with
    `N = [2,3]`, ranks `[1,2,1]`, sliced with `x[0:1, 0:3]` -/
example : ∃ (cs res : List (Core Int)) (flag : Bool), WF cs 1 ∧ IsTensor cs ∧
    getitem [.slice 0 1 1, .slice 0 1 3] cs = some (res, flag) :=
  ⟨[⟨1, 2, 1, 2, fun _ i _ b => (i + b : Int)⟩, ⟨2, 3, 1, 1, fun a i _ _ => (a * i + 1 : Int)⟩],
    _, _, by simp [WF], by simp [IsTensor], rfl⟩

/-- all-integer index `x[1, 2]` -/
example : ∃ (cs res : List (Core Int)) (flag : Bool), WF cs 1 ∧ IsTensor cs ∧
    getitem [.int 1, .int 2] cs = some (res, flag) ∧ [Sel.int 1, Sel.int 2].any Sel.keeps = false :=
  ⟨[⟨1, 2, 1, 2, fun _ i _ b => (i + b : Int)⟩, ⟨2, 3, 1, 1, fun a i _ _ => (a * i + 1 : Int)⟩],
    _, _, by simp [WF], by simp [IsTensor], rfl, rfl⟩

/-- a `None` selector: `x[None, 1, 0:3:2]` -/
example : ∃ (cs res : List (Core Int)) (flag : Bool), WF cs 1 ∧ IsTensor cs ∧
    getitem [.none, .int 1, .slice 0 2 2] cs = some (res, flag) :=
  ⟨[⟨1, 2, 1, 2, fun _ i _ b => (i + b : Int)⟩, ⟨2, 3, 1, 1, fun a i _ _ => (a * i + 1 : Int)⟩],
    _, _, by simp [WF], by simp [IsTensor], rfl⟩

/-- concrete shape check (this was a defect of the original code, fixed in the repository):
    with `N = [2,3]`, `x[0:1, 0:3]` has shape `[1,3]` as in dense indexing — the length-1 slice is
    kept — and `x[None, 1, 0:3:2]` has shape `[1,2]`. -/
theorem getitem_shape_example :
    (getitem [.slice 0 1 1, .slice 0 1 3]
      ([⟨1, 2, 1, 2, fun _ i _ b => (i + b : Int)⟩, ⟨2, 3, 1, 1, fun a i _ _ => (a * i + 1 : Int)⟩]
        : List (Core Int))).map (fun p => (modesM p.1, p.2)) = some ([1, 3], false) ∧
    (getitem [.none, .int 1, .slice 0 2 2]
      ([⟨1, 2, 1, 2, fun _ i _ b => (i + b : Int)⟩, ⟨2, 3, 1, 1, fun a i _ _ => (a * i + 1 : Int)⟩]
        : List (Core Int))).map (fun p => (modesM p.1, p.2)) = some ([1, 2], false) := by
  constructor <;>
    simp [getitem, getitemGo, reduceDims, reduceGo, selRow, eyeCore, modesM, absorbLeft]

/-- an entry of a concrete reduced train: `reduce_dims` on modes `[1,2,1]` keeps position 1 -/
example :
    keptMask (fun _ => false)
      ([⟨1, 1, 1, 2, fun _ _ _ b => (b + 1 : Int)⟩, ⟨2, 2, 1, 2, fun a i _ b => (a + i * b : Int)⟩,
        ⟨2, 1, 1, 1, fun a _ _ _ => (a + 2 : Int)⟩] : List (Core Int)) = [false, true, false] := by
  decide

end TT.C08
