import TTProps.C11b

/-!
# C11c — the inline einsum chains of `torchtt/_dmrg.py` compute the one-shot kernels

`TTModel/KernelsDmrg.lean` holds one definition per `tn.einsum` call of `dmrg_matvec_python` (`dmrgW1a/b`, `dmrgW2a/b`, `dmrgWc`,
`dmrgBckA/B/C`, `dmrgFwdA/B/C`); `harness/einsum2lean.py` regenerates exactly these definitions from the subscript strings found in the
CURRENT source on every run and Lean checks them definitionally equal.  Here: the chains are the one-shot contractions the Galerkin
theorems of `TT.C11` (C11b) are about — `dmrgSuper` for the supercore, `dmrgPhiBck` / `dmrgPhiFwd` (= `phiBckA` / `phiFwdA` on the
conjugated cores) for the environments — for all environments, cores, conjugations and indices over a commutative ring.
-/
namespace TT.C11
open TT TT.Kern
variable {α : Type} [CommRing α]

theorem dmrgW1b_eq (cj : α → α) (PL : Phi3 α) (A1 x1 : Core α) (y m1 a' x' : Nat) :
    dmrgW1b cj PL A1 x1 y m1 a' x' = dmrgW1 cj PL A1 x1 y m1 a' x' :=
  (dmrgW1_steps cj PL A1 x1 y m1 a' x').symm

theorem dmrgW2b_eq (cj : α → α) (PR : Phi3 α) (A2 x2 : Core α) (a' m2 x' Y : Nat) :
    dmrgW2b cj PR A2 x2 a' m2 x' Y = dmrgW2 cj PR A2 x2 a' m2 x' Y :=
  (dmrgW2_steps cj PR A2 x2 a' m2 x' Y).symm

/-- the five inline einsums that build the supercore compute the one-shot eight-fold contraction `dmrgSuper` -/
theorem dmrgWc_eq_super (cj : α → α) (PL PR : Phi3 α) (A1 x1 A2 x2 : Core α) (y m1 m2 Y : Nat) :
    dmrgWc cj PL PR A1 x1 A2 x2 y m1 m2 Y = dmrgSuper cj PL PR A1 x1 A2 x2 y m1 m2 Y := by
  rw [dmrgSuper_factor]
  unfold dmrgWc
  refine sumTo_congr fun a' _ => sumTo_congr fun x' _ => ?_
  rw [dmrgW1b_eq, dmrgW2b_eq]

/-- `(a, b, c, d, e) → (b, d, e, a, c)` -/
theorem dg_reorder5 (a b c d e : Nat) (F : Nat → Nat → Nat → Nat → Nat → α) :
    sumTo a (fun i => sumTo b (fun j => sumTo c (fun k => sumTo d (fun p => sumTo e (fun q => F i j k p q))))) =
    sumTo b (fun j => sumTo d (fun p => sumTo e (fun q => sumTo a (fun i => sumTo c (fun k => F i j k p q))))) := by
  rw [sumTo_comm]
  refine sumTo_congr fun j _ => ?_
  rw [sumTo_congr (fun i _ => sw_comm2 c d e (fun k p q => F i j k p q))]
  rw [sw_comm2 a d e (fun i p q => sumTo c (fun k => F i j k p q))]

/-- `(b, a, c, e) → (a, e, b, c)` under a fixed outer index -/
theorem dg_reorder4 (a b c e : Nat) (F : Nat → Nat → Nat → Nat → α) :
    sumTo b (fun j => sumTo a (fun i => sumTo c (fun k => sumTo e (fun q => F j i k q)))) =
    sumTo a (fun i => sumTo e (fun q => sumTo b (fun j => sumTo c (fun k => F j i k q)))) := by
  rw [sumTo_comm]
  refine sumTo_congr fun i _ => ?_
  exact (sw_comm2 e b c (fun q j k => F j i k q)).symm

/-- the three inline einsums of the right-to-left environment update compute `dmrgPhiBck` -/
theorem dmrgBckC_eq (cj : α → α) (P : Phi3 α) (y A x : Core α) (l s r : Nat) :
    dmrgBckC cj P y A x l s r = dmrgPhiBck cj P y A x l s r := by
  simp only [dmrgBckC, dmrgBckB, dmrgBckA, dmrgPhiBck, phiBckA, Core.mapVal, ← sumTo_mul_left, ← sumTo_mul_right]
  rw [dg_reorder5]
  refine sumTo_congr fun L _ => sumTo_congr fun S _ => sumTo_congr fun R _ => sumTo_congr fun M _ =>
    sumTo_congr fun N _ => ?_
  ring

/-- the three inline einsums of the left-to-right environment update compute `dmrgPhiFwd` -/
theorem dmrgFwdC_eq (cj : α → α) (P : Phi3 α) (y A x : Core α) (L S R : Nat) :
    dmrgFwdC cj P y A x L S R = dmrgPhiFwd cj P y A x L S R := by
  simp only [dmrgFwdC, dmrgFwdB, dmrgFwdA, dmrgPhiFwd, phiFwdA, Core.mapVal, ← sumTo_mul_left, ← sumTo_mul_right]
  refine sumTo_congr fun l _ => ?_
  rw [dg_reorder4]
  refine sumTo_congr fun s _ => sumTo_congr fun r _ => sumTo_congr fun M _ => sumTo_congr fun N _ => ?_
  ring

/-! ### the chains of `dmrg_hadamard_python` are the matvec chains on the diagonal embedding of the first factor

`cj 0 = 0` is all that is needed of the conjugation; the mode index must be in range (outside, the embedding yields 0). -/

theorem hadW1b_eq (cj : α → α) (h0 : cj 0 = 0) (PL : Phi3 α) (z1 x1 : Core α) (y n1 a' x' : Nat) (hn : n1 < z1.m) :
    dmrgW1b cj PL (diagCore z1) x1 y n1 a' x' = hadW1b cj PL z1 x1 y n1 a' x' := by
  unfold dmrgW1b hadW1b
  refine sumTo_congr fun a _ => ?_
  show sumTo z1.m (fun k => _) = _
  rw [sumTo_single n1 hn]
  · simp [diagCore]
  · intro k _ hne
    have : ¬ n1 = k := fun h => hne h.symm
    simp [diagCore, this, h0]

theorem hadW2b_eq (cj : α → α) (h0 : cj 0 = 0) (PR : Phi3 α) (z2 x2 : Core α) (a' n2 x' Y : Nat) (hn : n2 < z2.m) :
    dmrgW2b cj PR (diagCore z2) x2 a' n2 x' Y = hadW2b cj PR z2 x2 a' n2 x' Y := by
  unfold dmrgW2b hadW2b
  show sumTo z2.m (fun k => _) = _
  rw [sumTo_single n2 hn]
  · simp [diagCore]
  · intro k _ hne
    have : ¬ n2 = k := fun h => hne h.symm
    simp [diagCore, this, h0, sumTo_zero']

/-- the five inline einsums of the Hadamard supercore compute `dmrgSuper` on the diagonal embeddings (whence
    `dmrgSuper_hadamard`: the elementwise product) -/
theorem hadWc_eq_super (cj : α → α) (h0 : cj 0 = 0) (PL PR : Phi3 α) (z1 x1 z2 x2 : Core α) (y m1 m2 Y : Nat)
    (hm1 : m1 < z1.m) (hm2 : m2 < z2.m) :
    hadWc cj PL PR z1 x1 z2 x2 y m1 m2 Y = dmrgSuper cj PL PR (diagCore z1) x1 (diagCore z2) x2 y m1 m2 Y := by
  rw [← dmrgWc_eq_super]
  unfold hadWc dmrgWc
  show _ = sumTo z1.r1 (fun a' => sumTo x1.r1 (fun x' => _))
  refine sumTo_congr fun a' _ => sumTo_congr fun x' _ => ?_
  rw [hadW1b_eq cj h0 PL z1 x1 y m1 a' x' hm1, hadW2b_eq cj h0 PR z2 x2 a' m2 x' Y hm2]

/-- right-to-left environment of the Hadamard product = `dmrgPhiBck` on the diagonal embedding -/
theorem hadBckC_eq (cj : α → α) (h0 : cj 0 = 0) (P : Phi3 α) (y z x : Core α) (l s r : Nat) :
    hadBckC cj P y z x l s r = dmrgPhiBck cj P y (diagCore z) x l s r := by
  rw [← dmrgBckC_eq]
  unfold hadBckC dmrgBckC
  show _ = sumTo z.m (fun M => sumTo y.r1 (fun L => _))
  refine sumTo_congr fun M hM => sumTo_congr fun L _ => ?_
  congr 1
  unfold dmrgBckB hadBckB
  show _ = sumTo z.m (fun N => sumTo z.r1 (fun S => _))
  rw [sumTo_single M hM]
  · simp [diagCore]
  · intro k _ hne
    have : ¬ M = k := fun h => hne h.symm
    simp [diagCore, this, h0, sumTo_zero']

/-- left-to-right environment of the Hadamard product = `dmrgPhiFwd` on the diagonal embedding -/
theorem hadFwdC_eq (cj : α → α) (h0 : cj 0 = 0) (P : Phi3 α) (y z x : Core α) (L S R : Nat) :
    hadFwdC cj P y z x L S R = dmrgPhiFwd cj P y (diagCore z) x L S R := by
  rw [← dmrgFwdC_eq]
  unfold hadFwdC dmrgFwdC
  show _ = sumTo y.r0 (fun l => sumTo z.m (fun M => _))
  refine sumTo_congr fun l _ => sumTo_congr fun M hM => ?_
  congr 1
  unfold dmrgFwdB hadFwdB
  show _ = sumTo z.r0 (fun s => sumTo z.m (fun N => _))
  refine sumTo_congr fun s _ => ?_
  rw [sumTo_single M hM]
  · simp [diagCore]
  · intro k _ hne
    have : ¬ M = k := fun h => hne h.symm
    simp [diagCore, this, h0]

end TT.C11
