import TTProps.C10
import TTProps.C02b
import TTModel.Permute

/-!
# C10b — `torchtt.permute` (tensor branch) preserves the tensor up to the requested relabelling of the modes
whenever QR / SVD reconstruct their input

Model: `TTModel/Permute.lean` (`rlOrthGo`, `rlOrth`, `swapStep`, `swapAt`, `permuteTTWith`, `permuteTT`, `permIdx`),
QR and SVD being ORACLE parameters with the algebraic contract `Exact` only; the control flow (which neighbours are
swapped, in which order) is `Sweep.permuteOrder`, analysed in `TTProps/C10.lean`.
-/
namespace TT.C10
open TT TT.Decomp TT.Sweep TT.Permute

variable {α : Type} [CommRing α]

set_option linter.unusedSectionVars false

/-! ### (1) `rl_orthogonal` -/

/-- loop invariant of the right-to-left QR sweep: `prev` (reversed) · `cur` · `acc` keeps its products -/
theorem pm_rlOrthGo_chain (qr : Oracle α) (hqr : Exact qr) :
    ∀ (isP : List Nat) (prev : List (Core α)), List.Forall₂ (fun i (x : Core α) => i < x.m) isP prev →
    ∀ (cur : Core α) (acc : List (Core α)) (i : Nat) (jA : List (Nat × Nat)) (r0 a : Nat),
      WF (prev.reverse ++ cur :: acc) r0 → i < cur.m → a < r0 →
      chain (rlOrthGo qr cur prev acc) (tIdx isP.reverse ++ (i, 0) :: jA) a 0
        = chain (prev.reverse ++ cur :: acc) (tIdx isP.reverse ++ (i, 0) :: jA) a 0 := by
  intro isP prev h
  induction h with
  | nil => intro cur acc i jA r0 a _ _ _; rfl
  | @cons ip p isP' prev' hip hrest ih =>
    intro cur acc i jA r0 a hwf hi ha
    have hrev : (p :: prev').reverse ++ cur :: acc = prev'.reverse ++ p :: cur :: acc := by simp
    rw [hrev] at hwf ⊢
    rw [dc_tIdx_reverse_cons]
    obtain ⟨hpre, hcur0, hacc⟩ := (dc_WF_append_cons _ _ _ _).mp hwf
    let F := qr (cur.m * cur.r1) cur.r0 (fun q a => cur.get a (q / cur.r1) 0 (q % cur.r1))
    let cnow : Core α := { r0 := F.r, m := cur.m, n := 1, r1 := cur.r1
                           get := fun k i _ b => F.left (i * cur.r1 + b) k }
    let pnew : Core α := { r0 := p.r0, m := p.m, n := 1, r1 := F.r
                           get := fun a i _ k => sumTo p.r1 (fun t => p.get a i 0 t * F.right k t) }
    show chain (rlOrthGo qr pnew prev' (cnow :: acc)) _ a 0 = _
    have hwf2 : WF (prev'.reverse ++ pnew :: cnow :: acc) r0 :=
      (dc_WF_append_cons _ _ _ _).mpr ⟨hpre, rfl, hacc⟩
    rw [ih pnew (cnow :: acc) ip ((i, 0) :: jA) r0 a hwf2 hip ha]
    apply dc_chain_prefix_congr _ _ _ p.r0 _ _ _ r0 a _ hpre ha
    · intro t _
      show sumTo F.r (fun k => sumTo p.r1 (fun s => p.get t ip 0 s * F.right k s) *
              sumTo cur.r1 (fun b => F.left (i * cur.r1 + b) k * chain acc jA b 0))
         = sumTo p.r1 (fun s => p.get t ip 0 s *
              sumTo cur.r1 (fun b => cur.get s i 0 b * chain acc jA b 0))
      refine (dc_sumTo_assoc' F.r p.r1 (fun s => p.get t ip 0 s) (fun s k => F.right k s)
        (fun k => sumTo cur.r1 (fun b => F.left (i * cur.r1 + b) k * chain acc jA b 0))).trans ?_
      apply sumTo_congr
      intro s hs
      congr 1
      refine (dc_sumTo_assoc F.r cur.r1 (fun k => F.right k s) (fun k b => F.left (i * cur.r1 + b) k)
        (fun b => chain acc jA b 0)).trans ?_
      apply sumTo_congr
      intro b hb
      have e := hqr (cur.m * cur.r1) cur.r0 (fun q a => cur.get a (q / cur.r1) 0 (q % cur.r1))
        (i * cur.r1 + b) s (dc_merge_lt hi hb) (by omega)
      simp only [merge_div hb, merge_mod hb] at e
      show sumTo F.r (fun k => F.right k s * F.left (i * cur.r1 + b) k) * _ = _
      rw [← e]
      congr 1
      apply sumTo_congr
      intro k _
      exact mul_comm _ _
    · have := hrest.length_eq
      simp [tIdx, this]

theorem pm_rlOrthGo_WF (qr : Oracle α) :
    ∀ (prev : List (Core α)) (cur : Core α) (acc : List (Core α)) (r0 : Nat),
      WF (prev.reverse ++ cur :: acc) r0 → WF (rlOrthGo qr cur prev acc) r0 := by
  intro prev
  induction prev with
  | nil => intro cur acc r0 h; exact h
  | cons p prev' ih =>
    intro cur acc r0 hwf
    have hrev : (p :: prev').reverse ++ cur :: acc = prev'.reverse ++ p :: cur :: acc := by simp
    rw [hrev] at hwf
    obtain ⟨hpre, _, hacc⟩ := (dc_WF_append_cons _ _ _ _).mp hwf
    apply ih
    exact (dc_WF_append_cons _ _ _ _).mpr ⟨hpre, rfl, hacc⟩

theorem pm_rlOrthGo_modes (qr : Oracle α) :
    ∀ (prev : List (Core α)) (cur : Core α) (acc : List (Core α)),
      modesM (rlOrthGo qr cur prev acc) = modesM (prev.reverse ++ cur :: acc) := by
  intro prev
  induction prev with
  | nil => intro cur acc; rfl
  | cons p prev' ih =>
    intro cur acc
    simp only [rlOrthGo]
    rw [ih]
    simp [modesM]

theorem pm_rlOrthGo_isTensor (qr : Oracle α) :
    ∀ (prev : List (Core α)) (cur : Core α) (acc : List (Core α)),
      cur.n = 1 → IsTensor acc → IsTensor (rlOrthGo qr cur prev acc) := by
  intro prev
  induction prev with
  | nil => intro cur acc h1 h2; exact ⟨h1, h2⟩
  | cons p prev' ih =>
    intro cur acc _ h2
    exact ih _ _ rfl ⟨rfl, h2⟩

/-- the right-to-left sweep applied to a reversed list `Lr` -/
def pm_rlRev (qr : Oracle α) : List (Core α) → List (Core α)
  | [] => []
  | last :: prev => rlOrthGo qr last prev []

theorem pm_rlOrth_eq (qr : Oracle α) (cs : List (Core α)) : rlOrth qr cs = pm_rlRev qr cs.reverse := by
  unfold rlOrth pm_rlRev
  rfl

theorem pm_rlRev_chain (qr : Oracle α) (hqr : Exact qr) (Lr : List (Core α)) (is : List Nat)
    (r0 a : Nat) (hwf : WF Lr.reverse r0) (hr : List.Forall₂ (· < ·) is (modesM Lr.reverse)) (ha : a < r0) :
    chain (pm_rlRev qr Lr) (tIdx is) a 0 = chain Lr.reverse (tIdx is) a 0 := by
  cases Lr with
  | nil => rfl
  | cons last prev =>
    have hr' : List.Forall₂ (fun i (x : Core α) => i < x.m) is.reverse (last :: prev) := by
      have := List.forall₂_reverse_iff.mpr hr
      simp only [modesM, ← List.map_reverse, List.reverse_reverse] at this
      exact List.forall₂_map_right_iff.mp this
    generalize hisr : is.reverse = isr at hr'
    have his : is = isr.reverse := by rw [← hisr, List.reverse_reverse]
    subst his
    cases hr' with
    | @cons i _ isP _ hi hP =>
      have e1 : tIdx (i :: isP).reverse = tIdx isP.reverse ++ (i, 0) :: [] := by simp [tIdx]
      have e2 : (last :: prev).reverse = prev.reverse ++ last :: [] := by simp
      rw [e1]
      rw [e2] at hwf ⊢
      exact pm_rlOrthGo_chain qr hqr isP prev hP last [] i [] r0 a hwf hi ha

/-- row `a` of the product of transfer matrices is preserved by `rl_orthogonal`, for any left rank `r0` -/
theorem rlOrth_chain (qr : Oracle α) (hqr : Exact qr) (cs : List (Core α)) (is : List Nat) (r0 a : Nat)
    (hwf : WF cs r0) (hr : List.Forall₂ (· < ·) is (modesM cs)) (ha : a < r0) :
    chain (rlOrth qr cs) (tIdx is) a 0 = chain cs (tIdx is) a 0 := by
  rw [pm_rlOrth_eq, pm_rlRev_chain qr hqr _ is r0 a]
  · rw [List.reverse_reverse]
  · rw [List.reverse_reverse]; exact hwf
  · rw [List.reverse_reverse]; exact hr
  · exact ha

/-- **`rl_orthogonal` is a gauge change**: with `Q·R = M` the tensor is unchanged -/
theorem rlOrth_full (qr : Oracle α) (hqr : Exact qr) (cs : List (Core α)) (is : List Nat)
    (hwf : WF cs 1) (hr : List.Forall₂ (· < ·) is (modesM cs)) :
    full (rlOrth qr cs) (tIdx is) = full cs (tIdx is) :=
  rlOrth_chain qr hqr cs is 1 0 hwf hr Nat.one_pos

/-- ranks still chain (any oracle) -/
theorem rlOrth_WF (qr : Oracle α) (cs : List (Core α)) (r0 : Nat) (hwf : WF cs r0) :
    WF (rlOrth qr cs) r0 := by
  rw [pm_rlOrth_eq]
  generalize hL : cs.reverse = Lr
  have hwf' : WF Lr.reverse r0 := by rw [← hL, List.reverse_reverse]; exact hwf
  cases Lr with
  | nil => exact hwf'
  | cons last prev =>
    have e2 : (last :: prev).reverse = prev.reverse ++ last :: [] := by simp
    rw [e2] at hwf'
    exact pm_rlOrthGo_WF qr prev last [] r0 hwf'

/-- mode sizes preserved (any oracle) -/
theorem rlOrth_modes (qr : Oracle α) (cs : List (Core α)) : modesM (rlOrth qr cs) = modesM cs := by
  rw [pm_rlOrth_eq]
  generalize hL : cs.reverse = Lr
  have hcs : cs = Lr.reverse := by rw [← hL, List.reverse_reverse]
  subst hcs
  cases Lr with
  | nil => rfl
  | cons last prev =>
    have e2 : (last :: prev).reverse = prev.reverse ++ last :: [] := by simp
    rw [e2]
    exact pm_rlOrthGo_modes qr prev last []

/-- the result of the sweep on a tensor train is a tensor train -/
theorem rlOrth_isTensor (qr : Oracle α) (cs : List (Core α)) (h : IsTensor cs) : IsTensor (rlOrth qr cs) := by
  rw [pm_rlOrth_eq]
  generalize hL : cs.reverse = Lr
  have hcs : cs = Lr.reverse := by rw [← hL, List.reverse_reverse]
  subst hcs
  cases Lr with
  | nil => trivial
  | cons last prev =>
    have e2 : (last :: prev).reverse = prev.reverse ++ last :: [] := by simp
    rw [e2, dc_isTensor_append] at h
    exact pm_rlOrthGo_isTensor qr prev last [] h.2.1 trivial

/-! ### (2) one swap of two neighbouring cores -/

/-- **the swap step**: with `U·W = M` the product of the two new cores is the product of the two old cores with
the two mode indices exchanged.  (No hypothesis on `c1.r1 = c2.r0` or on the `n`-fields is needed: both sides sum
the shared bond over `c1.r1`, and only the column-`0` slices are read.) -/
theorem swapStep_chain (svd : Oracle α) (hsvd : Exact svd) (c1 c2 : Core α) (i j a b : Nat)
    (hi : i < c1.m) (hj : j < c2.m) (ha : a < c1.r0) (hb : b < c2.r1) :
    sumTo (swapStep svd c1 c2).1.r1
        (fun k => (swapStep svd c1 c2).1.get a j 0 k * (swapStep svd c1 c2).2.get k i 0 b)
      = sumTo c1.r1 (fun k => c1.get a i 0 k * c2.get k j 0 b) := by
  have e := hsvd (c1.r0 * c2.m) (c1.m * c2.r1)
    (fun p q => sumTo c1.r1 (fun k => c1.get (p / c2.m) (q / c2.r1) 0 k * c2.get k (p % c2.m) 0 (q % c2.r1)))
    (a * c2.m + j) (i * c2.r1 + b) (dc_merge_lt ha hj) (dc_merge_lt hi hb)
  simp only [merge_div hj, merge_mod hj, merge_div hb, merge_mod hb] at e
  exact e

/-- shapes of the two cores produced by a swap -/
theorem swapStep_shape (svd : Oracle α) (c1 c2 : Core α) :
    (swapStep svd c1 c2).1.r0 = c1.r0 ∧ (swapStep svd c1 c2).1.m = c2.m ∧ (swapStep svd c1 c2).1.n = 1 ∧
    (swapStep svd c1 c2).1.r1 = (swapStep svd c1 c2).2.r0 ∧
    (swapStep svd c1 c2).2.m = c1.m ∧ (swapStep svd c1 c2).2.n = 1 ∧ (swapStep svd c1 c2).2.r1 = c2.r1 :=
  ⟨rfl, rfl, rfl, rfl, rfl, rfl, rfl⟩

/-! ### (3) a swap inside the train -/

/-- contract of the representation-normalising map: shapes and in-range entries are kept -/
def FzOk (fz : Core α → Core α) : Prop :=
  ∀ c, (fz c).r0 = c.r0 ∧ (fz c).m = c.m ∧ (fz c).n = c.n ∧ (fz c).r1 = c.r1 ∧
    ∀ a i j b, a < c.r0 → i < c.m → j < c.n → b < c.r1 → (fz c).get a i j b = c.get a i j b

theorem FzOk_id : FzOk (id : Core α → Core α) := fun _ => ⟨rfl, rfl, rfl, rfl, fun _ _ _ _ _ _ _ _ => rfl⟩

/-- exchange entries `i` and `i+1` of a list (identity when `i + 1` is not a position of the list) -/
def pm_swap {β : Type} : Nat → List β → List β
  | 0, a :: b :: rest => b :: a :: rest
  | i+1, a :: rest => a :: pm_swap i rest
  | _, l => l

theorem pm_swap_length {β : Type} : ∀ (i : Nat) (l : List β), (pm_swap i l).length = l.length := by
  intro i
  induction i with
  | zero =>
    intro l
    match l with
    | [] => rfl
    | [_] => rfl
    | _ :: _ :: _ => rfl
  | succ i ih =>
    intro l
    match l with
    | [] => rfl
    | a :: rest => simp only [pm_swap, List.length_cons, ih rest]

theorem pm_swap_forall₂ {β γ : Type} (R : β → γ → Prop) :
    ∀ (i : Nat) (l1 : List β) (l2 : List γ), List.Forall₂ R l1 l2 →
      List.Forall₂ R (pm_swap i l1) (pm_swap i l2) := by
  intro i
  induction i with
  | zero =>
    intro l1 l2 h
    cases h with
    | nil => exact List.Forall₂.nil
    | cons h1 h' =>
      cases h' with
      | nil => exact List.Forall₂.cons h1 List.Forall₂.nil
      | cons h2 h'' => exact List.Forall₂.cons h2 (List.Forall₂.cons h1 h'')
  | succ i ih =>
    intro l1 l2 h
    cases h with
    | nil => exact List.Forall₂.nil
    | cons h1 h' => exact List.Forall₂.cons h1 (ih _ _ h')

theorem pm_swap_map {β γ : Type} (g : β → γ) :
    ∀ (i : Nat) (l : List β), pm_swap i (l.map g) = (pm_swap i l).map g := by
  intro i
  induction i with
  | zero =>
    intro l
    match l with
    | [] => rfl
    | [_] => rfl
    | _ :: _ :: _ => rfl
  | succ i ih =>
    intro l
    match l with
    | [] => rfl
    | a :: rest => simp only [pm_swap, List.map_cons, ih rest]

/-- `pm_swap` at the position right after a prefix -/
theorem pm_swap_append {β : Type} (a b : β) (rest : List β) :
    ∀ (pre : List β) (i : Nat), pre.length = i → pm_swap i (pre ++ a :: b :: rest) = pre ++ b :: a :: rest := by
  intro pre
  induction pre with
  | nil => intro i h; subst h; rfl
  | cons x pre ih =>
    intro i h
    subst h
    simp only [List.length_cons, List.cons_append, pm_swap, ih _ rfl]

/-- `pm_swap` is what `getElem` says it is -/
theorem pm_swap_getElem? {β : Type} :
    ∀ (i : Nat) (l : List β), i + 1 < l.length → ∀ k,
      (pm_swap i l)[k]? = if k = i then l[i + 1]? else if k = i + 1 then l[i]? else l[k]? := by
  intro i
  induction i with
  | zero =>
    intro l h k
    match l, h with
    | a :: b :: rest, _ =>
      match k with
      | 0 => rfl
      | 1 => rfl
      | k + 2 => simp [pm_swap]
  | succ i ih =>
    intro l h k
    match l, h with
    | a :: rest, h =>
      match k with
      | 0 => simp [pm_swap]
      | k + 1 =>
        simp only [pm_swap, List.getElem?_cons_succ]
        rw [ih rest (by simpa using h) k]
        simp

/-- the chain only reads in-range entries: applying `fz` to every core of a tensor train changes nothing -/
theorem pm_map_fz_chain (fz : Core α → Core α) (hfz : FzOk fz) :
    ∀ (cs : List (Core α)) (is : List Nat) (r0 a : Nat), WF cs r0 → IsTensor cs →
      List.Forall₂ (· < ·) is (modesM cs) → a < r0 →
      chain (cs.map fz) (tIdx is) a 0 = chain cs (tIdx is) a 0 := by
  intro cs
  induction cs with
  | nil => intro is r0 a _ _ _ _; rfl
  | cons c cs ih =>
    intro is r0 a hwf ht hr ha
    simp only [modesM, List.map_cons] at hr
    cases hr with
    | @cons i _ is' _ hi hr' =>
      obtain ⟨h0, _, hn, h1, hg⟩ := hfz c
      simp only [List.map_cons, tIdx, chain]
      rw [h1]
      apply sumTo_congr
      intro k hk
      have := ih is' c.r1 k hwf.2 ht.2 hr' hk
      simp only [tIdx] at this
      rw [this, hg a i 0 k (by rw [hwf.1]; exact ha) hi (by rw [ht.1]; exact Nat.one_pos) hk]

theorem pm_map_fz_WF (fz : Core α → Core α) (hfz : FzOk fz) :
    ∀ (cs : List (Core α)) (r0 : Nat), WF cs r0 → WF (cs.map fz) r0 := by
  intro cs
  induction cs with
  | nil => intro r0 h; exact h
  | cons c cs ih =>
    intro r0 h
    obtain ⟨h0, _, _, h1, _⟩ := hfz c
    refine ⟨h0.trans h.1, ?_⟩
    rw [h1]
    exact ih _ h.2

theorem pm_map_fz_modes (fz : Core α → Core α) (hfz : FzOk fz) (cs : List (Core α)) :
    modesM (cs.map fz) = modesM cs := by
  induction cs with
  | nil => rfl
  | cons c cs ih =>
    simp only [modesM, List.map_cons] at ih ⊢
    rw [ih, (hfz c).2.1]

/-- a swap at position `i` exchanges the modes `i`, `i+1` and keeps every transfer-matrix product -/
theorem swapAt_chain (svd : Oracle α) (hsvd : Exact svd) (fz : Core α → Core α) (hfz : FzOk fz) :
    ∀ (i : Nat) (cs : List (Core α)) (is : List Nat) (r0 a : Nat), WF cs r0 →
      List.Forall₂ (· < ·) is (modesM cs) → a < r0 →
      chain (swapAt svd fz i cs) (tIdx (pm_swap i is)) a 0 = chain cs (tIdx is) a 0 := by
  intro i
  induction i with
  | zero =>
    intro cs is r0 a hwf hr ha
    match cs, is, hr, hwf with
    | [], _, .nil, _ => rfl
    | [c], _, .cons _ .nil, _ => rfl
    | c1 :: c2 :: rest, _, .cons (a := i1) hi1 (.cons (a := i2) (l₁ := is') hi2 hr'), hwf =>
      obtain ⟨hr0, hr12, hwf'⟩ := hwf
      have ha1 : a < c1.r0 := by rw [hr0]; exact ha
      obtain ⟨_, _, _, hA1, hAg⟩ := hfz (swapStep svd c1 c2).1
      obtain ⟨_, _, _, hB1, hBg⟩ := hfz (swapStep svd c1 c2).2
      show sumTo (fz (swapStep svd c1 c2).1).r1 (fun k => (fz (swapStep svd c1 c2).1).get a i2 0 k *
              sumTo (fz (swapStep svd c1 c2).2).r1 (fun l => (fz (swapStep svd c1 c2).2).get k i1 0 l *
                chain rest (tIdx is') l 0))
         = sumTo c1.r1 (fun t => c1.get a i1 0 t *
              sumTo c2.r1 (fun l => c2.get t i2 0 l * chain rest (tIdx is') l 0))
      rw [hA1, hB1]
      have hB1' : (swapStep svd c1 c2).2.r1 = c2.r1 := rfl
      rw [hB1']
      rw [sumTo_congr (g := fun k => (swapStep svd c1 c2).1.get a i2 0 k *
              sumTo c2.r1 (fun l => (swapStep svd c1 c2).2.get k i1 0 l * chain rest (tIdx is') l 0))
          (fun k hk => by
            rw [hAg a i2 0 k ha1 hi2 Nat.one_pos hk]
            congr 1
            apply sumTo_congr
            intro l hl
            rw [hBg k i1 0 l hk hi1 Nat.one_pos hl])]
      refine (dc_sumTo_assoc _ c2.r1 (fun k => (swapStep svd c1 c2).1.get a i2 0 k)
        (fun k l => (swapStep svd c1 c2).2.get k i1 0 l) (fun l => chain rest (tIdx is') l 0)).trans ?_
      refine Eq.trans ?_ (dc_sumTo_assoc c1.r1 c2.r1 (fun t => c1.get a i1 0 t)
        (fun t l => c2.get t i2 0 l) (fun l => chain rest (tIdx is') l 0)).symm
      apply sumTo_congr
      intro l hl
      show sumTo (swapStep svd c1 c2).1.r1 (fun k => (swapStep svd c1 c2).1.get a i2 0 k *
        (swapStep svd c1 c2).2.get k i1 0 l) * _ = _
      rw [swapStep_chain svd hsvd c1 c2 i1 i2 a l hi1 hi2 ha1 hl]
  | succ i ih =>
    intro cs is r0 a hwf hr ha
    match cs, is, hr, hwf with
    | [], _, .nil, _ => rfl
    | c :: rest, _, .cons (a := i0) (l₁ := is') hi0 hr', hwf =>
      show sumTo c.r1 (fun k => c.get a i0 0 k * chain (swapAt svd fz i rest) (tIdx (pm_swap i is')) k 0)
        = sumTo c.r1 (fun k => c.get a i0 0 k * chain rest (tIdx is') k 0)
      apply sumTo_congr
      intro k hk
      rw [ih rest is' c.r1 k hwf.2 hr' hk]

/-- **a swap relabels two neighbouring modes**: `full (swapAt i cs) (…, i_{i+1}, i_i, …) = full cs (…, i_i, i_{i+1}, …)`.
(`i + 1 < cs.length` is not needed: otherwise both `swapAt` and `pm_swap` are the identity.) -/
theorem swapAt_full (svd : Oracle α) (hsvd : Exact svd) (fz : Core α → Core α) (hfz : FzOk fz)
    (i : Nat) (cs : List (Core α)) (is : List Nat) (hwf : WF cs 1)
    (hr : List.Forall₂ (· < ·) is (modesM cs)) :
    full (swapAt svd fz i cs) (tIdx (pm_swap i is)) = full cs (tIdx is) :=
  swapAt_chain svd hsvd fz hfz i cs is 1 0 hwf hr Nat.one_pos

/-- ranks still chain (any oracle) -/
theorem swapAt_WF (svd : Oracle α) (fz : Core α → Core α) (hfz : FzOk fz) :
    ∀ (i : Nat) (cs : List (Core α)) (r0 : Nat), WF cs r0 → WF (swapAt svd fz i cs) r0 := by
  intro i
  induction i with
  | zero =>
    intro cs r0 hwf
    match cs, hwf with
    | [], hwf => exact hwf
    | [c], hwf => exact hwf
    | c1 :: c2 :: rest, hwf =>
      obtain ⟨hr0, _, hwf'⟩ := hwf
      obtain ⟨hA0, _, _, hA1, _⟩ := hfz (swapStep svd c1 c2).1
      obtain ⟨hB0, _, _, hB1, _⟩ := hfz (swapStep svd c1 c2).2
      show (fz (swapStep svd c1 c2).1).r0 = r0 ∧ (fz (swapStep svd c1 c2).2).r0 = (fz (swapStep svd c1 c2).1).r1 ∧
        WF rest (fz (swapStep svd c1 c2).2).r1
      refine ⟨hA0.trans hr0, by rw [hB0, hA1]; rfl, ?_⟩
      rw [hB1]
      exact hwf'
  | succ i ih =>
    intro cs r0 hwf
    match cs, hwf with
    | [], hwf => exact hwf
    | c :: rest, hwf => exact ⟨hwf.1, ih rest c.r1 hwf.2⟩

/-- the mode sizes are exchanged (any oracle) -/
theorem swapAt_modes (svd : Oracle α) (fz : Core α → Core α) (hfz : FzOk fz) :
    ∀ (i : Nat) (cs : List (Core α)), modesM (swapAt svd fz i cs) = pm_swap i (modesM cs) := by
  intro i
  induction i with
  | zero =>
    intro cs
    match cs with
    | [] => rfl
    | [c] => rfl
    | c1 :: c2 :: rest =>
      show (fz (swapStep svd c1 c2).1).m :: (fz (swapStep svd c1 c2).2).m :: rest.map (·.m)
        = c2.m :: c1.m :: rest.map (·.m)
      rw [(hfz _).2.1, (hfz _).2.1]
      rfl
  | succ i ih =>
    intro cs
    match cs with
    | [] => rfl
    | c :: rest =>
      show c.m :: modesM (swapAt svd fz i rest) = c.m :: pm_swap i (modesM rest)
      rw [ih rest]

/-- a swap of a tensor train is a tensor train -/
theorem swapAt_isTensor (svd : Oracle α) (fz : Core α → Core α) (hfz : FzOk fz) :
    ∀ (i : Nat) (cs : List (Core α)), IsTensor cs → IsTensor (swapAt svd fz i cs) := by
  intro i
  induction i with
  | zero =>
    intro cs h
    match cs, h with
    | [], h => exact h
    | [c], h => exact h
    | c1 :: c2 :: rest, h =>
      show (fz (swapStep svd c1 c2).1).n = 1 ∧ (fz (swapStep svd c1 c2).2).n = 1 ∧ IsTensor rest
      exact ⟨(hfz _).2.2.1, (hfz _).2.2.1, h.2.2⟩
  | succ i ih =>
    intro cs h
    match cs, h with
    | [], h => exact h
    | c :: rest, h => exact ⟨h.1, ih rest h.2⟩

/-! ### (4) the whole bubble sort -/

/-- the swaps `sw` applied in order as adjacent transpositions to a list -/
def pm_swapFold {β : Type} (sw : List Nat) (l : List β) : List β := sw.foldl (fun acc i => pm_swap i acc) l

/-- the swaps `sw` applied in order to a train -/
def pm_swapAtFold (svd : Oracle α) (fz : Core α → Core α) (sw : List Nat) (cs : List (Core α)) : List (Core α) :=
  sw.foldl (fun acc i => swapAt svd fz i acc) cs

theorem pm_swapFold_length {β : Type} (sw : List Nat) : ∀ l : List β, (pm_swapFold sw l).length = l.length := by
  induction sw with
  | nil => intro l; rfl
  | cons i sw ih => intro l; show (pm_swapFold sw (pm_swap i l)).length = _; rw [ih, pm_swap_length]

/-- fold invariant at the level of transfer-matrix products, for an ARBITRARY list of swap positions -/
theorem swapFold_chain (svd : Oracle α) (hsvd : Exact svd) (fz : Core α → Core α) (hfz : FzOk fz) :
    ∀ (sw : List Nat) (cs : List (Core α)) (is : List Nat) (r0 a : Nat), WF cs r0 →
      List.Forall₂ (· < ·) is (modesM cs) → a < r0 →
      chain (pm_swapAtFold svd fz sw cs) (tIdx (pm_swapFold sw is)) a 0 = chain cs (tIdx is) a 0 := by
  intro sw
  induction sw with
  | nil => intro cs is r0 a _ _ _; rfl
  | cons i sw ih =>
    intro cs is r0 a hwf hr ha
    show chain (pm_swapAtFold svd fz sw (swapAt svd fz i cs)) (tIdx (pm_swapFold sw (pm_swap i is))) a 0 = _
    rw [ih (swapAt svd fz i cs) (pm_swap i is) r0 a (swapAt_WF svd fz hfz i cs r0 hwf)
      (by rw [swapAt_modes svd fz hfz]; exact pm_swap_forall₂ _ i _ _ hr) ha]
    exact swapAt_chain svd hsvd fz hfz i cs is r0 a hwf hr ha

/-- **fold invariant**: any sequence of neighbour swaps relabels the modes by the corresponding sequence of
adjacent transpositions -/
theorem swapFold_full (svd : Oracle α) (hsvd : Exact svd) (fz : Core α → Core α) (hfz : FzOk fz)
    (sw : List Nat) (cs : List (Core α)) (is : List Nat) (hwf : WF cs 1)
    (hr : List.Forall₂ (· < ·) is (modesM cs)) :
    full (pm_swapAtFold svd fz sw cs) (tIdx (pm_swapFold sw is)) = full cs (tIdx is) :=
  swapFold_chain svd hsvd fz hfz sw cs is 1 0 hwf hr Nat.one_pos

theorem swapFold_WF (svd : Oracle α) (fz : Core α → Core α) (hfz : FzOk fz) :
    ∀ (sw : List Nat) (cs : List (Core α)) (r0 : Nat), WF cs r0 → WF (pm_swapAtFold svd fz sw cs) r0 := by
  intro sw
  induction sw with
  | nil => intro cs r0 h; exact h
  | cons i sw ih => intro cs r0 h; exact ih _ r0 (swapAt_WF svd fz hfz i cs r0 h)

theorem swapFold_modes (svd : Oracle α) (fz : Core α → Core α) (hfz : FzOk fz) :
    ∀ (sw : List Nat) (cs : List (Core α)), modesM (pm_swapAtFold svd fz sw cs) = pm_swapFold sw (modesM cs) := by
  intro sw
  induction sw with
  | nil => intro cs; rfl
  | cons i sw ih =>
    intro cs
    show modesM (pm_swapAtFold svd fz sw (swapAt svd fz i cs)) = pm_swapFold sw (pm_swap i (modesM cs))
    rw [ih, swapAt_modes svd fz hfz]

theorem swapFold_isTensor (svd : Oracle α) (fz : Core α → Core α) (hfz : FzOk fz) :
    ∀ (sw : List Nat) (cs : List (Core α)), IsTensor cs → IsTensor (pm_swapAtFold svd fz sw cs) := by
  intro sw
  induction sw with
  | nil => intro cs h; exact h
  | cons i sw ih => intro cs h; exact ih _ (swapAt_isTensor svd fz hfz i cs h)

/-- one bubble pass: the swap positions it records, applied as adjacent transpositions to ANY list carried along
(`pre ++ l.map g`, the pass starting right after the prefix `pre`), reproduce the order it returns -/
theorem pm_pass_swapFold {β : Type} (dims : List Nat) (g : Nat → β) :
    ∀ (l : List Nat) (i : Nat) (pre : List β), pre.length = i →
      pm_swapFold (bubblePass dims l i).2 (pre ++ l.map g) = pre ++ (bubblePass dims l i).1.map g := by
  intro l i
  induction l, i using pass_ind dims with
  | h0 i => intro pre _; simp [pm_swapFold]
  | h1 a i => intro pre _; simp [pm_swapFold]
  | h2 a b rest i h ih =>
    intro pre hp
    rw [bubblePass_swap dims rest i h]
    show pm_swapFold (bubblePass dims (a :: rest) (i + 1)).2 (pm_swap i (pre ++ g a :: g b :: rest.map g)) = _
    rw [pm_swap_append _ _ _ pre i hp]
    have := ih (pre ++ [g b]) (by simp [hp])
    simp only [List.map_cons, List.append_assoc, List.singleton_append] at this ⊢
    exact this
  | h3 a b rest i h ih =>
    intro pre hp
    rw [bubblePass_keep dims rest i h]
    have := ih (pre ++ [g a]) (by simp [hp])
    simp only [List.map_cons, List.append_assoc, List.singleton_append] at this ⊢
    exact this

theorem pm_swapFold_append {β : Type} (s1 s2 : List Nat) (l : List β) :
    pm_swapFold (s1 ++ s2) l = pm_swapFold s2 (pm_swapFold s1 l) := by
  simp [pm_swapFold, List.foldl_append]

/-- the `while inversions` loop: all recorded swaps together reproduce the final order -/
theorem pm_bubble_swapFold {β : Type} (dims : List Nat) (g : Nat → β) :
    ∀ (fuel : Nat) (l sw0 : List Nat) (x : List β), pm_swapFold sw0 x = l.map g →
      pm_swapFold (bubble dims fuel l sw0).2 x = (bubble dims fuel l sw0).1.map g := by
  intro fuel
  induction fuel with
  | zero => intro l sw0 x h; simpa [bubble_zero] using h
  | succ fuel ih =>
    intro l sw0 x h
    have hp := pm_pass_swapFold dims g l 0 [] rfl
    simp only [List.nil_append] at hp
    rw [bubble_succ]
    split
    · rename_i hs
      rw [hs] at hp
      show pm_swapFold sw0 x = _
      rw [h]
      exact hp
    · apply ih
      rw [pm_swapFold_append, h, hp]

/-- **the swap list of `permute` realises the final order**: applied to `[g 0, …, g (d-1)]` it yields
`[g o_0, …, g o_{d-1}]` where `o = (permuteOrder dims).1` -/
theorem permuteOrder_swapFold {β : Type} (dims : List Nat) (g : Nat → β) :
    pm_swapFold (permuteOrder dims).2 ((List.range dims.length).map g) = (permuteOrder dims).1.map g :=
  pm_bubble_swapFold dims g _ _ [] _ rfl

theorem pm_map_range_getD (is : List Nat) : (List.range is.length).map (fun k => is.getD k 0) = is := by
  apply List.ext_getElem
  · simp
  · intro k h1 h2
    simp [List.getElem?_eq_getElem h2]

/-- on index lists of the right length the swaps act as `permIdx` of the final order -/
theorem permuteOrder_swapFold_permIdx (dims is : List Nat) (hl : is.length = dims.length) :
    pm_swapFold (permuteOrder dims).2 is = permIdx (permuteOrder dims).1 is := by
  have := permuteOrder_swapFold dims (fun k => is.getD k 0)
  rw [← hl, pm_map_range_getD] at this
  exact this

/-- `permuteTTWith` as a swap fold -/
theorem pm_permuteTTWith_eq (fz : Core α → Core α) (qr svd : Oracle α) (dims : List Nat) (cs : List (Core α)) :
    permuteTTWith fz qr svd dims cs = pm_swapAtFold svd fz (permuteOrder dims).2 ((rlOrth qr cs).map fz) := rfl

theorem pm_modes_length (cs : List (Core α)) : (modesM cs).length = cs.length := by simp [modesM]

/-- row `a` of the product of transfer matrices, for any left rank `r0` -/
theorem permuteTT_chain (fz : Core α → Core α) (hfz : FzOk fz) (qr svd : Oracle α) (hqr : Exact qr)
    (hsvd : Exact svd) (dims : List Nat) (cs : List (Core α)) (is : List Nat) (r0 a : Nat)
    (hd : dims.Perm (List.range cs.length)) (hwf : WF cs r0) (ht : IsTensor cs)
    (hr : List.Forall₂ (· < ·) is (modesM cs)) (ha : a < r0) :
    chain (permuteTTWith fz qr svd dims cs) (tIdx (permIdx dims is)) a 0 = chain cs (tIdx is) a 0 := by
  have hlen : is.length = dims.length := by
    rw [hr.length_eq, pm_modes_length, hd.length_eq, List.length_range]
  have e : permIdx dims is = pm_swapFold (permuteOrder dims).2 is := by
    rw [permuteOrder_swapFold_permIdx dims is hlen, permute_order hd]
  have hwf1 : WF (rlOrth qr cs) r0 := rlOrth_WF qr cs r0 hwf
  have hr1 : List.Forall₂ (· < ·) is (modesM (rlOrth qr cs)) := by rw [rlOrth_modes]; exact hr
  rw [pm_permuteTTWith_eq, e,
    swapFold_chain svd hsvd fz hfz _ _ is r0 a (pm_map_fz_WF fz hfz _ r0 hwf1)
      (by rw [pm_map_fz_modes fz hfz]; exact hr1) ha,
    pm_map_fz_chain fz hfz _ is r0 a hwf1 (rlOrth_isTensor qr cs ht) hr1 ha,
    rlOrth_chain qr hqr cs is r0 a hwf hr ha]

/-- **`permute` relabels the modes**: entry `(i_{dims[0]}, …, i_{dims[d-1]})` of the result is entry
`(i_0, …, i_{d-1})` of the input, provided QR and SVD reconstruct their inputs exactly (no truncation) -/
theorem permuteTT_full (fz : Core α → Core α) (hfz : FzOk fz) (qr svd : Oracle α) (hqr : Exact qr)
    (hsvd : Exact svd) (dims : List Nat) (cs : List (Core α)) (is : List Nat)
    (hd : dims.Perm (List.range cs.length)) (hwf : WF cs 1) (ht : IsTensor cs)
    (hr : List.Forall₂ (· < ·) is (modesM cs)) :
    full (permuteTTWith fz qr svd dims cs) (tIdx (permIdx dims is)) = full cs (tIdx is) :=
  permuteTT_chain fz hfz qr svd hqr hsvd dims cs is 1 0 hd hwf ht hr Nat.one_pos

/-- the mode sizes are permuted accordingly (any oracles) -/
theorem permuteTT_modes (fz : Core α → Core α) (hfz : FzOk fz) (qr svd : Oracle α) (dims : List Nat)
    (cs : List (Core α)) (hd : dims.Perm (List.range cs.length)) :
    modesM (permuteTTWith fz qr svd dims cs) = permIdx dims (modesM cs) := by
  rw [pm_permuteTTWith_eq, swapFold_modes svd fz hfz, pm_map_fz_modes fz hfz, rlOrth_modes,
    permuteOrder_swapFold_permIdx dims _ (by rw [pm_modes_length, hd.length_eq, List.length_range]),
    permute_order hd]

/-- ranks still chain (any oracles, any `dims`) -/
theorem permuteTT_WF (fz : Core α → Core α) (hfz : FzOk fz) (qr svd : Oracle α) (dims : List Nat)
    (cs : List (Core α)) (r0 : Nat) (hwf : WF cs r0) : WF (permuteTTWith fz qr svd dims cs) r0 :=
  swapFold_WF svd fz hfz _ _ r0 (pm_map_fz_WF fz hfz _ r0 (rlOrth_WF qr cs r0 hwf))

/-- the result is a tensor train (any oracles, any `dims`) -/
theorem permuteTT_isTensor (fz : Core α → Core α) (hfz : FzOk fz) (qr svd : Oracle α) (dims : List Nat)
    (cs : List (Core α)) (ht : IsTensor cs) : IsTensor (permuteTTWith fz qr svd dims cs) := by
  apply swapFold_isTensor svd fz hfz
  have h := rlOrth_isTensor qr cs ht
  generalize rlOrth qr cs = L at h
  induction L with
  | nil => trivial
  | cons c L ih => exact ⟨(hfz c).2.2.1.trans h.1, ih h.2⟩

/-! corollaries for the reference `fz = id` -/

theorem permuteTT_full_id (qr svd : Oracle α) (hqr : Exact qr) (hsvd : Exact svd) (dims : List Nat)
    (cs : List (Core α)) (is : List Nat) (hd : dims.Perm (List.range cs.length)) (hwf : WF cs 1)
    (ht : IsTensor cs) (hr : List.Forall₂ (· < ·) is (modesM cs)) :
    full (permuteTT qr svd dims cs) (tIdx (permIdx dims is)) = full cs (tIdx is) :=
  permuteTT_full id FzOk_id qr svd hqr hsvd dims cs is hd hwf ht hr

theorem permuteTT_modes_id (qr svd : Oracle α) (dims : List Nat) (cs : List (Core α))
    (hd : dims.Perm (List.range cs.length)) :
    modesM (permuteTT qr svd dims cs) = permIdx dims (modesM cs) :=
  permuteTT_modes id FzOk_id qr svd dims cs hd

theorem permuteTT_WF_id (qr svd : Oracle α) (dims : List Nat) (cs : List (Core α)) (r0 : Nat)
    (hwf : WF cs r0) : WF (permuteTT qr svd dims cs) r0 :=
  permuteTT_WF id FzOk_id qr svd dims cs r0 hwf

/-- the same under the literal guard of `torchtt.permute` -/
theorem permuteTT_full_of_guard (qr svd : Oracle α) (hqr : Exact qr) (hsvd : Exact svd) (dims : List Nat)
    (cs : List (Core α)) (is : List Nat) (hl : dims.length = cs.length) (hn : dims.Nodup)
    (hlt : ∀ k ∈ dims, k < cs.length) (hwf : WF cs 1) (ht : IsTensor cs)
    (hr : List.Forall₂ (· < ·) is (modesM cs)) :
    full (permuteTT qr svd dims cs) (tIdx (permIdx dims is)) = full cs (tIdx is) :=
  permuteTT_full_id qr svd hqr hsvd dims cs is (perm_range_of_guard hl hn hlt) hwf ht hr

/-! ### (5) concrete instances (non-vacuity) -/

section examples
open TT.C02

/- the order-3 integer train `dc_exT` of C02b: ranks `[1,2,2,1]`, modes `[2,3,2]` -/
theorem pm_exT_isTensor : IsTensor dc_exT := ⟨rfl, rfl, rfl, trivial⟩

example : pm_swap 1 [10, 11, 12, 13] = [10, 12, 11, 13] := rfl
example : pm_swap 3 [10, 11, 12, 13] = [10, 11, 12, 13] := rfl
example : pm_swapFold [1, 0] [10, 11, 12] = [12, 10, 11] := rfl
example : permIdx [2, 0, 1] [10, 11, 12] = [12, 10, 11] := rfl

/-- a non-trivial normalising map satisfying the contract: out-of-range entries are replaced by `0`
(this is what an array-backed `freeze` does) -/
def pm_clip (c : Core α) : Core α :=
  { r0 := c.r0, m := c.m, n := c.n, r1 := c.r1,
    get := fun a i j b => if a < c.r0 ∧ i < c.m ∧ j < c.n ∧ b < c.r1 then c.get a i j b else 0 }

theorem pm_clip_ok : FzOk (pm_clip (α := α)) := by
  intro c
  refine ⟨rfl, rfl, rfl, rfl, ?_⟩
  intro a i j b ha hi hj hb
  simp [pm_clip, ha, hi, hj, hb]

/-- (1) instantiated with the uncapped identity oracle -/
example : full (rlOrth dc_idFull dc_exT) (tIdx [1, 2, 1]) = full dc_exT (tIdx [1, 2, 1]) :=
  rlOrth_full dc_idFull dc_idFull_exact dc_exT [1, 2, 1] dc_exT_WF (dc_inRange_of_get _ _ rfl (by decide))

example : ∀ i0 < 2, ∀ i1 < 3, ∀ i2 < 2,
    full (rlOrth (idOracle 1000) dc_exT) (tIdx [i0, i1, i2]) = full dc_exT (tIdx [i0, i1, i2]) := by
  decide

/-- a truncating QR changes the tensor: `Exact qr` is not vacuous -/
example : full (rlOrth (idOracle 1) dc_exT) (tIdx [1, 2, 1]) ≠ full dc_exT (tIdx [1, 2, 1]) := by decide

/-- the first two cores of `dc_exT` -/
def pm_exA : Core Int := { r0 := 1, m := 2, n := 1, r1 := 2, get := fun _ i _ b => (i : Int) + 2 * b - 1 }
def pm_exB : Core Int := { r0 := 2, m := 3, n := 1, r1 := 2, get := fun a i _ b => (a : Int) * i - b + 1 }

/-- (2) instantiated -/
example :
    sumTo (swapStep dc_idFull pm_exA pm_exB).1.r1
        (fun k => (swapStep dc_idFull pm_exA pm_exB).1.get 0 2 0 k * (swapStep dc_idFull pm_exA pm_exB).2.get k 1 0 1)
      = sumTo pm_exA.r1 (fun k => pm_exA.get 0 1 0 k * pm_exB.get k 2 0 1) :=
  swapStep_chain dc_idFull dc_idFull_exact pm_exA pm_exB 1 2 0 1 (by decide) (by decide) (by decide) (by decide)

/-- evaluated with the capped oracle of the correspondence run, all index combinations; the new bond has size
`min (1·3) (2·2) = 3 > 2` -/
example : (swapStep (idOracle 1000) pm_exA pm_exB).1.r1 = 3 ∧ ∀ i < 2, ∀ j < 3, ∀ b < 2,
    sumTo (swapStep (idOracle 1000) pm_exA pm_exB).1.r1
        (fun k => (swapStep (idOracle 1000) pm_exA pm_exB).1.get 0 j 0 k *
                  (swapStep (idOracle 1000) pm_exA pm_exB).2.get k i 0 b)
      = sumTo pm_exA.r1 (fun k => pm_exA.get 0 i 0 k * pm_exB.get k j 0 b) := by
  decide

/-- (3) instantiated -/
example : full (swapAt dc_idFull pm_clip 1 dc_exT) (tIdx (pm_swap 1 [1, 2, 1])) = full dc_exT (tIdx [1, 2, 1]) :=
  swapAt_full dc_idFull dc_idFull_exact pm_clip pm_clip_ok 1 dc_exT [1, 2, 1] dc_exT_WF
    (dc_inRange_of_get _ _ rfl (by decide))

example : ∀ i0 < 2, ∀ i1 < 3, ∀ i2 < 2,
    full (swapAt (idOracle 1000) id 1 dc_exT) (tIdx [i0, i2, i1]) = full dc_exT (tIdx [i0, i1, i2]) := by
  decide

example : modesM (swapAt (idOracle 1) id 0 dc_exT) = [3, 2, 2] := by
  rw [swapAt_modes _ _ FzOk_id]; decide

/-- (4) the main theorem instantiated with the uncapped identity oracle, `dims = [2,0,1]`, and the clipping `fz` -/
example : full (permuteTTWith pm_clip dc_idFull dc_idFull [2, 0, 1] dc_exT) (tIdx (permIdx [2, 0, 1] [1, 2, 0]))
    = full dc_exT (tIdx [1, 2, 0]) :=
  permuteTT_full pm_clip pm_clip_ok dc_idFull dc_idFull dc_idFull_exact dc_idFull_exact [2, 0, 1] dc_exT [1, 2, 0]
    (by decide) dc_exT_WF pm_exT_isTensor (dc_inRange_of_get _ _ rfl (by decide))

example : full (permuteTT dc_idFull dc_idFull [2, 0, 1] dc_exT) (tIdx [0, 1, 2]) = full dc_exT (tIdx [1, 2, 0]) :=
  permuteTT_full_of_guard dc_idFull dc_idFull dc_idFull_exact dc_idFull_exact [2, 0, 1] dc_exT [1, 2, 0]
    (by decide) (by decide) (by decide) dc_exT_WF pm_exT_isTensor (dc_inRange_of_get _ _ rfl (by decide))

example : modesM (permuteTT (idOracle 1) (idOracle 1) [2, 0, 1] dc_exT) = [2, 2, 3] := by
  rw [permuteTT_modes_id _ _ _ _ (by decide)]; decide

example : WF (permuteTT (idOracle 1) (idOracle 1) [2, 0, 1] dc_exT) 1 := permuteTT_WF_id _ _ _ _ _ dc_exT_WF

/- `bubblePass` is compiled by well-founded recursion, so `decide` cannot evaluate `permuteOrder`; the swap lists are
computed with the equation lemmas first (as in C10), the value-level fold is then evaluated by `decide` -/
theorem pm_order_201 : permuteOrder [2, 0, 1] = ([2, 0, 1], [1, 0]) := by
  simp [permuteOrder, bubble, bubblePass, indexOf, List.range, List.range.loop, List.findIdx?_cons]

theorem pm_order_120 : permuteOrder [1, 2, 0] = ([1, 2, 0], [0, 1]) := by
  simp [permuteOrder, bubble, bubblePass, indexOf, List.range, List.range.loop, List.findIdx?_cons]

theorem pm_order_210 : permuteOrder [2, 1, 0] = ([2, 1, 0], [0, 1, 0]) := by
  simp [permuteOrder, bubble, bubblePass, indexOf, List.range, List.range.loop, List.findIdx?_cons]

/-- evaluated: with a large cap the concrete oracle of the correspondence run permutes all 12 entries correctly -/
example : ∀ i0 < 2, ∀ i1 < 3, ∀ i2 < 2,
    full (permuteTT (idOracle 1000) (idOracle 1000) [2, 0, 1] dc_exT) (tIdx [i2, i0, i1])
      = full dc_exT (tIdx [i0, i1, i2]) := by
  unfold permuteTT permuteTTWith
  rw [pm_order_201]
  decide

example : ∀ i0 < 2, ∀ i1 < 3, ∀ i2 < 2,
    full (permuteTT (idOracle 1000) (idOracle 1000) [1, 2, 0] dc_exT) (tIdx [i1, i2, i0])
      = full dc_exT (tIdx [i0, i1, i2]) := by
  unfold permuteTT permuteTTWith
  rw [pm_order_120]
  decide

example : ∀ i0 < 2, ∀ i1 < 3, ∀ i2 < 2,
    full (permuteTT (idOracle 1000) (idOracle 1000) [2, 1, 0] dc_exT) (tIdx [i2, i1, i0])
      = full dc_exT (tIdx [i0, i1, i2]) := by
  unfold permuteTT permuteTTWith
  rw [pm_order_210]
  decide

/-- the concrete value: entry `(1,2,0)` of `dc_exT` sits at `(0,1,2)` of the permuted train -/
example : full (permuteTT (idOracle 1000) (idOracle 1000) [2, 0, 1] dc_exT) (tIdx [0, 1, 2]) = full dc_exT (tIdx [1, 2, 0])
    ∧ full dc_exT (tIdx [1, 2, 0]) = 12 := by
  unfold permuteTT permuteTTWith
  rw [pm_order_201]
  decide

/-- the relabelling is not the identity: the same position of input and output differ -/
example : full (permuteTT (idOracle 1000) (idOracle 1000) [2, 0, 1] dc_exT) (tIdx [0, 1, 1]) ≠ full dc_exT (tIdx [0, 1, 1]) := by
  unfold permuteTT permuteTTWith
  rw [pm_order_201]
  decide

/-- a truncating SVD (`idOracle 1`) changes the tensor: `Exact svd` is not vacuous -/
example : full (permuteTT (idOracle 1000) (idOracle 1) [2, 0, 1] dc_exT) (tIdx [0, 1, 2]) ≠ full dc_exT (tIdx [1, 2, 0]) := by
  unfold permuteTT permuteTTWith
  rw [pm_order_201]
  decide

end examples

end TT.C10

#print axioms TT.C10.rlOrth_full
#print axioms TT.C10.rlOrth_WF
#print axioms TT.C10.rlOrth_modes
#print axioms TT.C10.swapStep_chain
#print axioms TT.C10.swapAt_full
#print axioms TT.C10.swapAt_WF
#print axioms TT.C10.swapAt_modes
#print axioms TT.C10.swapFold_full
#print axioms TT.C10.permuteOrder_swapFold
#print axioms TT.C10.permuteTT_full
#print axioms TT.C10.permuteTT_modes
#print axioms TT.C10.permuteTT_WF
#print axioms TT.C10.permuteTT_full_id
#print axioms TT.C10.permuteTT_full_of_guard
