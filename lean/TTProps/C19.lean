import TTLemmas.ShapeL

/-!
# C19 — metadata is a function of the cores: rebuilding an object from its cores reproduces it

`torchtt.load`, `clone`, `detach`, `to`, `cpu`, … all call `TT(list_of_cores)` on (copies of) the
cores of an existing object.  For every well-formed object (C05) this yields exactly the same
kind (`is_ttm`), `N`, `M`, `R` and `shape` — for every structure, including order 1 and 4-d
cores with unit modes (an operator with all modes 1 is *not* mistaken for a tensor, because the
kind is decided from the dimensionality of the cores, not from the mode sizes).
Model: `TTModel/Shape.lean`.
-/
namespace TT.C19
open TT.Shape

/-- (7) rebuilding from the cores alone reproduces the object, field by field -/
theorem meta_fromCores {o : Obj} (h : wfB o = true) : fromCores o.cores = .ok o :=
  fromCores_of_wf h

/-- (8) the constructor is idempotent on its own output -/
theorem fromCores_idem {cs : List (List Nat)} {o : Obj} (h : fromCores cs = .ok o) :
    fromCores o.cores = .ok o := fromCores_of_wf (fromCores_wf' h)

/-- … i.e. constructing twice from the same cores is the same as constructing once -/
theorem fromCores_idem' {cs : List (List Nat)} {o : Obj} (h : fromCores cs = .ok o) :
    fromCores cs = fromCores o.cores := by
  rw [fromCores_idem h, h]

/-- two well-formed objects with the same cores have the same metadata -/
theorem meta_unique {o₁ o₂ : Obj} (h₁ : wfB o₁ = true) (h₂ : wfB o₂ = true)
    (hc : o₁.cores = o₂.cores) : o₁ = o₂ := by
  have e₁ := meta_fromCores h₁
  have e₂ := meta_fromCores h₂
  rw [hc, e₂] at e₁
  injection e₁ with e
  exact e.symm

/-- the round trip also holds after the in-place operations -/
theorem meta_after_setCore {o o' : Obj} {k : Nat} {sh : List Nat} (h : wfB o = true)
    (hs : setCore o k sh = .ok o') : fromCores o'.cores = .ok o' :=
  meta_fromCores (setCore_wf' h hs)

theorem meta_after_reduceDims {o : Obj} (excl : List Nat) (h : wfB o = true) :
    fromCores (reduceDimsObj o excl).cores = .ok (reduceDimsObj o excl) :=
  meta_fromCores (reduceDims_wf' excl h)

/-- for every object of every reachable store -/
theorem meta_reachable (calls : List Call) :
    ∀ o ∈ run [] calls, fromCores o.cores = .ok o :=
  fun o ho => meta_fromCores (run_wf' calls [] (by simp) o ho)

/-! ## concrete instances -/

/-- order 1 tensor -/
example : fromCores [[1,7,1]] =
    .ok { cores := [[1,7,1]], N := [7], M := [], R := [1,1], shape := [[7]], isTTM := false } := rfl
/-- order 1 operator -/
example : fromCores [[1,2,3,1]] =
    .ok { cores := [[1,2,3,1]], N := [3], M := [2], R := [1,1], shape := [[2,3]], isTTM := true } :=
  rfl
/-- an operator all of whose modes are 1 stays an operator with `M = N = [1,1]` -/
example : fromCores [[1,1,1,2],[2,1,1,1]] =
    .ok { cores := [[1,1,1,2],[2,1,1,1]], N := [1,1], M := [1,1], R := [1,2,1],
          shape := [[1,1],[1,1]], isTTM := true } := rfl
example : wfB { cores := [[1,1,1,2],[2,1,1,1]], N := [1,1], M := [1,1], R := [1,2,1],
                shape := [[1,1],[1,1]], isTTM := true } = true := by decide
/-- a tensor whose stored `M` is stale (non-empty) is not well formed, and the round trip
    indeed does not reproduce it: the hypothesis `wfB` of `meta_fromCores` is needed -/
example : wfB { cores := [[1,7,1]], N := [7], M := [7], R := [1,1], shape := [[7]],
                isTTM := false } = false := by decide
example : fromCores [[1,7,1]] ≠
    .ok { cores := [[1,7,1]], N := [7], M := [7], R := [1,1], shape := [[7]], isTTM := false } := by
  intro h; injection h with h; exact absurd h (by decide)

end TT.C19
