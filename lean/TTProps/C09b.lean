import TTLemmas.PadL
import TTProps.C03
import TTProps.C09

/-!
# C09 (continued) — repaired tensor padding `pad(tensor, padding, value)`

`padTensor` (`TTModel/Extras.lean`) is the repaired tensor branch of `pad`: zero padding of the cores,
and for a non-zero fill
`padded + value * (ones(padded.N) - pad0(ones(N)))`.
Statement: constant padding with ANY fill value, every order, mode sizes, rank profile and core
values over an arbitrary commutative ring: inside the original block the original entry, everywhere
else exactly `value` (compare `padT_nonzero_counterexample` in `TTProps/C09.lean` for the pre-repair
behaviour).

`padding` applies to the last `padding.length` modes: `cs = cs0 ++ cs1`, `is = is0 ++ is1` with `cs1`,
`is1`, `padding` of the same length; `padInside`, `padShift` as in `TTProps/C09.lean`.
No `IsTensor` (`n = 1`) hypothesis and no non-emptiness hypothesis is needed.
-/
namespace TT.C09
open TT
variable {α : Type} [CommRing α]

/-! ## unfolding -/

theorem padTensor_zero [DecidableEq α] (cs : List (Core α)) (padding : List (Nat × Nat)) :
    padTensor cs padding 0 = padT cs padding 0 := by
  unfold padTensor
  exact if_pos rfl

theorem padTensor_ne_zero [DecidableEq α] (cs : List (Core α)) (padding : List (Nat × Nat)) (value : α)
    (hv : value ≠ 0) :
    padTensor cs padding value =
      add (padT cs padding 0)
        (smul (sub ((padT cs padding 0).map (fun c => constCore 1 c.m 1))
          (padT (cs.map (fun c => constCore 1 c.m 1)) padding 0)) value) := by
  unfold padTensor
  exact if_neg hv

/-! ## shape of the result -/

/-- zero padding keeps the rank chain (only the mode sizes `m` change) -/
theorem WF_padT_zero [DecidableEq α] (cs0 cs1 : List (Core α)) (padding : List (Nat × Nat))
    (h1 : cs1.length = padding.length) (hw : WF (cs0 ++ cs1) 1) : WF (padT (cs0 ++ cs1) padding 0) 1 :=
  TT.WF_padT_zero cs0 cs1 padding h1 1 hw

/-- `pad0(ones(N))` is the indicator of the original block -/
theorem full_padT_ones [DecidableEq α] (cs0 cs1 : List (Core α)) (padding : List (Nat × Nat))
    (is0 is1 : List Nat) (h1 : cs1.length = padding.length) (h2 : is0.length = cs0.length)
    (h3 : is1.length = cs1.length) :
    full (padT ((cs0 ++ cs1).map (fun c => constCore (1:α) c.m 1)) padding 0) (tIdx (is0 ++ is1)) =
      if padInside cs1 padding is1 then 1 else 0 := by
  rw [List.map_append,
    full_padT_zero _ _ padding is0 is1 (by simpa using h1) (by simpa using h2) (by simpa using h3)]
  by_cases hin : padInside cs1 padding is1
  · rw [if_pos ((padInside_ones1 cs1 padding is1).mpr hin), if_pos hin, ← List.map_append]
    apply full_ones1
    simp [tIdx, length_padShift, h1, h2, h3]
  · rw [if_neg (fun h => hin ((padInside_ones1 cs1 padding is1).mp h)), if_neg hin]

/-- the padded train is well formed and has the same order -/
theorem WF_padTensor [DecidableEq α] (cs0 cs1 : List (Core α)) (padding : List (Nat × Nat)) (value : α)
    (hw : WF (cs0 ++ cs1) 1) (hne : cs0 ++ cs1 ≠ []) (h1 : cs1.length = padding.length) :
    WF (padTensor (cs0 ++ cs1) padding value) 1 ∧
      (padTensor (cs0 ++ cs1) padding value).length = (cs0 ++ cs1).length := by
  have hPw := WF_padT_zero cs0 cs1 padding h1 hw
  have hPl := length_padT_zero cs0 cs1 padding h1
  by_cases hv : value = 0
  · subst hv; rw [padTensor_zero]; exact ⟨hPw, hPl⟩
  · rw [padTensor_ne_zero _ _ _ hv]
    have hPne : padT (cs0 ++ cs1) padding 0 ≠ [] := by
      intro h; rw [h] at hPl; exact hne (List.length_eq_zero_iff.mp hPl.symm)
    have hIw : WF (padT ((cs0 ++ cs1).map (fun c => constCore (1:α) c.m 1)) padding 0) 1 := by
      rw [List.map_append]
      apply TT.WF_padT_zero _ _ _ (by simpa using h1)
      rw [← List.map_append]; exact WF_ones1 _
    have hIl : (padT ((cs0 ++ cs1).map (fun c => constCore (1:α) c.m 1)) padding 0).length =
        (cs0 ++ cs1).length := by
      rw [List.map_append, length_padT_zero _ _ _ (by simpa using h1)]; simp
    have hOl : ((padT (cs0 ++ cs1) padding 0).map (fun c => constCore (1:α) c.m 1)).length =
        (cs0 ++ cs1).length := by rw [List.length_map, hPl]
    have hOne : (padT (cs0 ++ cs1) padding 0).map (fun c => constCore (1:α) c.m 1) ≠ [] := by
      intro h; exact hPne (List.map_eq_nil_iff.mp h)
    have hSw := WF_smul _ value (WF_sub' _ _ (WF_ones1 (padT (cs0 ++ cs1) padding 0)) hIw
      (by rw [hOl, hIl]) hOne)
    have hSl : (smul (sub ((padT (cs0 ++ cs1) padding 0).map (fun c => constCore (1:α) c.m 1))
        (padT ((cs0 ++ cs1).map (fun c => constCore (1:α) c.m 1)) padding 0)) value).length =
        (cs0 ++ cs1).length := by
      rw [length_smul, length_sub _ _ (by rw [hOl, hIl]), hOl]
    have hlen : (padT (cs0 ++ cs1) padding 0).length =
        (smul (sub ((padT (cs0 ++ cs1) padding 0).map (fun c => constCore (1:α) c.m 1))
          (padT ((cs0 ++ cs1).map (fun c => constCore (1:α) c.m 1)) padding 0)) value).length := by
      rw [hPl, hSl]
    refine ⟨?_, ?_⟩
    · have := WF_addFrom _ _ hlen hPne true 1 1 hPw hSw
      simpa [add, off] using this
    · have := length_addFrom _ _ hlen true
      rw [add, this, hPl]

/-! ## values -/

/-- **repaired constant padding**: inside the original block the original entry, everywhere else
    exactly `value` — for every fill value -/
theorem full_padTensor [DecidableEq α] (cs0 cs1 : List (Core α)) (padding : List (Nat × Nat))
    (is0 is1 : List Nat) (value : α) (hw : WF (cs0 ++ cs1) 1)
    (h1 : cs1.length = padding.length) (h2 : is0.length = cs0.length) (h3 : is1.length = cs1.length) :
    full (padTensor (cs0 ++ cs1) padding value) (tIdx (is0 ++ is1)) =
      if padInside cs1 padding is1 then full (cs0 ++ cs1) (tIdx (is0 ++ padShift padding is1))
      else value := by
  have hP := full_padT_zero cs0 cs1 padding is0 is1 h1 h2 h3
  by_cases hv : value = 0
  · subst hv; rw [padTensor_zero, hP]
  by_cases hne : cs0 ++ cs1 = []
  · -- order 0: nothing to pad
    obtain ⟨e0, e1⟩ := List.append_eq_nil_iff.mp hne
    subst e0 e1
    have ep : padding = [] := List.length_eq_zero_iff.mp (by simpa using h1.symm)
    have ei0 : is0 = [] := List.length_eq_zero_iff.mp (by simpa using h2)
    have ei1 : is1 = [] := List.length_eq_zero_iff.mp (by simpa using h3)
    subst ep ei0 ei1
    rw [padTensor_ne_zero _ _ _ hv]
    simp [padT, padRevT, sub, add, addFrom, negFirst, smul, hv, scaleFirst, padInside, padShift, tIdx]
  · rw [padTensor_ne_zero _ _ _ hv]
    have hidx : (tIdx (is0 ++ is1)).length = (cs0 ++ cs1).length := by simp [tIdx, h2, h3]
    have hPw := WF_padT_zero cs0 cs1 padding h1 hw
    have hPl := length_padT_zero cs0 cs1 padding h1
    have hPne : padT (cs0 ++ cs1) padding 0 ≠ [] := by
      intro h; rw [h] at hPl; exact hne (List.length_eq_zero_iff.mp hPl.symm)
    have hIw : WF (padT ((cs0 ++ cs1).map (fun c => constCore (1:α) c.m 1)) padding 0) 1 := by
      rw [List.map_append]
      apply TT.WF_padT_zero _ _ _ (by simpa using h1)
      rw [← List.map_append]; exact WF_ones1 _
    have hIl : (padT ((cs0 ++ cs1).map (fun c => constCore (1:α) c.m 1)) padding 0).length =
        (cs0 ++ cs1).length := by
      rw [List.map_append, length_padT_zero _ _ _ (by simpa using h1)]; simp
    have hOl : ((padT (cs0 ++ cs1) padding 0).map (fun c => constCore (1:α) c.m 1)).length =
        (cs0 ++ cs1).length := by rw [List.length_map, hPl]
    have hOne : (padT (cs0 ++ cs1) padding 0).map (fun c => constCore (1:α) c.m 1) ≠ [] := by
      intro h; exact hPne (List.map_eq_nil_iff.mp h)
    have hOw := WF_ones1 (padT (cs0 ++ cs1) padding 0)
    have hSubw := WF_sub' _ _ hOw hIw (by rw [hOl, hIl]) hOne
    have hSubl := length_sub ((padT (cs0 ++ cs1) padding 0).map (fun c => constCore (1:α) c.m 1))
      (padT ((cs0 ++ cs1).map (fun c => constCore (1:α) c.m 1)) padding 0) (by rw [hOl, hIl])
    have hSubne : sub ((padT (cs0 ++ cs1) padding 0).map (fun c => constCore (1:α) c.m 1))
        (padT ((cs0 ++ cs1).map (fun c => constCore (1:α) c.m 1)) padding 0) ≠ [] := by
      intro h; rw [h, hOl] at hSubl
      exact hne (List.length_eq_zero_iff.mp hSubl.symm)
    rw [C03.full_add _ _ _ hPw (WF_smul _ value hSubw)
        (by rw [length_smul, hSubl, hOl, hPl]) (by rw [hidx, hPl]) hPne,
      C03.full_smul _ _ _ (by rw [hSubl, hOl, hidx]) hSubne,
      C03.full_sub _ _ _ hOw hIw (by rw [hOl, hIl]) (by rw [hOl, hidx]) hOne,
      full_ones1 _ _ (by rw [hPl, hidx]),
      full_padT_ones cs0 cs1 padding is0 is1 h1 h2 h3, hP]
    by_cases hin : padInside cs1 padding is1
    · simp only [if_pos hin]; ring
    · simp only [if_neg hin]; ring

/-- the same without the explicit split: the first `cs.length - padding.length` modes are untouched -/
theorem full_padTensor' [DecidableEq α] (cs : List (Core α)) (padding : List (Nat × Nat)) (is : List Nat)
    (value : α) (hw : WF cs 1) (hp : padding.length ≤ cs.length) (hil : is.length = cs.length) :
    full (padTensor cs padding value) (tIdx is) =
      if padInside (cs.drop (cs.length - padding.length)) padding (is.drop (cs.length - padding.length))
      then full cs (tIdx (is.take (cs.length - padding.length) ++
        padShift padding (is.drop (cs.length - padding.length)))) else value := by
  have := full_padTensor (cs.take (cs.length - padding.length)) (cs.drop (cs.length - padding.length))
    padding (is.take (cs.length - padding.length)) (is.drop (cs.length - padding.length)) value
    (by simpa using hw) (by simp; omega) (by simp [hil]) (by simp [hil])
  simpa using this

/-- in particular every entry outside the original block equals the fill value … -/
theorem full_padTensor_outside [DecidableEq α] (cs0 cs1 : List (Core α)) (padding : List (Nat × Nat))
    (is0 is1 : List Nat) (value : α) (hw : WF (cs0 ++ cs1) 1)
    (h1 : cs1.length = padding.length) (h2 : is0.length = cs0.length) (h3 : is1.length = cs1.length)
    (hout : ¬ padInside cs1 padding is1) :
    full (padTensor (cs0 ++ cs1) padding value) (tIdx (is0 ++ is1)) = value := by
  rw [full_padTensor cs0 cs1 padding is0 is1 value hw h1 h2 h3, if_neg hout]

/-- … and the original block is reproduced -/
theorem full_padTensor_inside [DecidableEq α] (cs0 cs1 : List (Core α)) (padding : List (Nat × Nat))
    (is0 is1 : List Nat) (value : α) (hw : WF (cs0 ++ cs1) 1)
    (h1 : cs1.length = padding.length) (h2 : is0.length = cs0.length) (h3 : is1.length = cs1.length)
    (hin : padInside cs1 padding is1) :
    full (padTensor (cs0 ++ cs1) padding value) (tIdx (is0 ++ is1)) =
      full (cs0 ++ cs1) (tIdx (is0 ++ padShift padding is1)) := by
  rw [full_padTensor cs0 cs1 padding is0 is1 value hw h1 h2 h3, if_pos hin]

/-! ## concrete instances -/

/-- order 2, ranks `(1,2,1)`, shape `2 × 2`, entries `x[i,j] = 2(i+1) + (i+2)·j`;
    padding `[(1,0),(0,2)]` (one in front of mode 0, two behind mode 1), fill 5: the result has
    shape `3 × 4` -/
def exT : List (Core Int) :=
  [⟨1, 2, 1, 2, fun _ i _ b => (i + 1 + b : Int)⟩, ⟨2, 2, 1, 1, fun a j _ _ => if a = 0 then 2 else (j : Int)⟩]

/-- the hypotheses of `full_padTensor` hold for `exT = [] ++ exT` -/
example : WF ([] ++ exT) 1 ∧ exT.length = [(1, 0), (0, 2)].length := by
  simp [exT, WF]

/-- the original tensor -/
example : full exT (tIdx [0, 0]) = 2 ∧ full exT (tIdx [0, 1]) = 4 ∧
    full exT (tIdx [1, 0]) = 4 ∧ full exT (tIdx [1, 1]) = 7 := by decide

/-- inside entries (shifted by the leading pad of mode 0) -/
example : full (padTensor exT [(1, 0), (0, 2)] 5) (tIdx [1, 0]) = 2 ∧
    full (padTensor exT [(1, 0), (0, 2)] 5) (tIdx [1, 1]) = 4 ∧
    full (padTensor exT [(1, 0), (0, 2)] 5) (tIdx [2, 0]) = 4 ∧
    full (padTensor exT [(1, 0), (0, 2)] 5) (tIdx [2, 1]) = 7 := by decide

/-- mixed positions — one index in the padding, the other inside the block (the kind of entry the
    pre-repair code got wrong, cf. `padT_nonzero_counterexample`) — now equal the fill value -/
example : full (padTensor exT [(1, 0), (0, 2)] 5) (tIdx [0, 0]) = 5 ∧
    full (padTensor exT [(1, 0), (0, 2)] 5) (tIdx [0, 1]) = 5 ∧
    full (padTensor exT [(1, 0), (0, 2)] 5) (tIdx [1, 2]) = 5 ∧
    full (padTensor exT [(1, 0), (0, 2)] 5) (tIdx [2, 3]) = 5 := by decide

/-- corner entries (both indices in the padding) -/
example : full (padTensor exT [(1, 0), (0, 2)] 5) (tIdx [0, 2]) = 5 ∧
    full (padTensor exT [(1, 0), (0, 2)] 5) (tIdx [0, 3]) = 5 := by decide

/-- the instance of `padT_nonzero_counterexample` (all-ones `2 × 2`, padded by one at the end of both
    modes, fill 5): the entry `[2,0]` that was `1` before the repair is now `5` -/
example :
    let c : Core Int := ⟨1, 2, 1, 1, fun _ _ _ _ => 1⟩
    full (padTensor [c, c] [(0, 1), (0, 1)] 5) (tIdx [2, 0]) = 5 ∧
    full (padTensor [c, c] [(0, 1), (0, 1)] 5) (tIdx [0, 2]) = 5 ∧
    full (padTensor [c, c] [(0, 1), (0, 1)] 5) (tIdx [2, 2]) = 5 ∧
    full (padTensor [c, c] [(0, 1), (0, 1)] 5) (tIdx [1, 1]) = 1 := by decide

/-- the theorem applied to the example (instead of evaluation) -/
example : full (padTensor ([] ++ exT) [(1, 0), (0, 2)] 5) (tIdx ([] ++ [0, 1])) = 5 := by
  rw [full_padTensor [] exT [(1, 0), (0, 2)] [] [0, 1] 5 (by simp [exT, WF]) rfl rfl rfl]
  decide

end TT.C09
