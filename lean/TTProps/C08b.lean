import TTLemmas.GetitemM

/-!
# C08 (part b) — `__getitem__` on TT-matrices (operators) agrees with dense indexing

`getitemM sel cs` models `A[index]` for a TT-matrix (`self.__is_ttm` branch of `TT.__getitem__`):
the index tuple is given as one *pair* (row selector, column selector) per position
(`index[i]`, `index[i + len(index)//2]`).  Admissible pairs are `(int, int)`, `(slice, slice)`,
`(None, None)` (`gm_pairOK`); any other pair raises `InvalidArguments` (the model returns `none`).
The slicing loop `getitemGoM` is followed by `reduce_dims(exclude)` with `exclude` = the slice and
`None` positions (`gm_exPosM 0 sel`).

`selIdxM`, `gm_getIdxM`, `gm_exPosM`, `gm_pairOK`, `gm_pairNone`, `gm_pairKeeps`, `gm_shapeFullM`,
`gm_shapeM`, `gm_selMaskM` are defined in `TTLemmas/GetitemM.lean`; `keptMask`, `expandIdx`,
`keptCount`, `modes` in `TTLemmas/ReduceDims.lean`.  All statements hold for every order, mode-size
pattern, rank profile and core values over an arbitrary commutative ring.
-/
namespace TT.C08
open TT
variable {α : Type} [CommRing α]

/-! ### the index map -/

/-- `selIdxM`, position by position: `(int a, int b)` reads `(a, b)`; a pair of slices reads
    `(s1 + st1*x, s2 + st2*y)`; a `(None, None)` position is dropped (it consumes no core). -/
theorem selIdxM_spec (ss : List (Sel × Sel)) (x : Nat × Nat) (xs : List (Nat × Nat)) :
    (∀ a b, selIdxM ((.int a, .int b) :: ss) (x :: xs) = (a, b) :: selIdxM ss xs) ∧
    (∀ s1 st1 l1 s2 st2 l2, selIdxM ((.slice s1 st1 l1, .slice s2 st2 l2) :: ss) (x :: xs)
        = (s1 + st1 * x.1, s2 + st2 * x.2) :: selIdxM ss xs) ∧
    selIdxM ((.none, .none) :: ss) (x :: xs) = selIdxM ss xs ∧
    selIdxM [] [] = [] :=
  ⟨fun _ _ => rfl, fun _ _ _ _ _ _ => rfl, rfl, rfl⟩

/-- one sliced operator core -/
theorem selRowCol_full (c : Core α) (t : List (Core α)) (x : Nat × Nat) (xs : List (Nat × Nat))
    (a b : Nat) :
    (∀ k1 k2, chain (selCol (selRow c (.int k1)) (.int k2) :: t) (x :: xs) a b
        = chain (c :: t) ((k1, k2) :: xs) a b) ∧
    (∀ s1 st1 l1 s2 st2 l2,
      chain (selCol (selRow c (.slice s1 st1 l1)) (.slice s2 st2 l2) :: t) (x :: xs) a b
        = chain (c :: t) ((s1 + st1 * x.1, s2 + st2 * x.2) :: xs) a b) :=
  ⟨fun _ _ => rfl, fun _ _ _ _ _ _ => rfl⟩

/-! ### the slicing loop (before `reduce_dims`) -/

/-- **value of the sliced operator**: one new core per selector pair, and entry `ij` (one index
    pair per selector pair, the index at a `(None, None)` position being irrelevant) is the entry
    `selIdxM sel ij` of the original. -/
theorem getitemGoM_full (sel : List (Sel × Sel)) (cs cs' : List (Core α)) (ex : List Nat)
    (h : getitemGoM sel cs 0 [] [] = some (cs', ex)) :
    cs'.length = sel.length ∧
    ∀ ij : List (Nat × Nat), ij.length = sel.length → full cs' ij = full cs (selIdxM sel ij) := by
  obtain ⟨ht, _⟩ := gm_getitemGoM_top sel cs cs' ex h
  exact ⟨gm_length_slicedM sel cs cs' 1 ht,
    fun ij hij => gm_chain_slicedM sel cs cs' 1 ij 0 0 ht hij (by omega)⟩

/-- the `exclude` list is the list of slice / `None` positions; the sliced train is well formed;
    its mode sizes are `(1,1)` (int pair), `(len1, len2)` (slice pair), `(1,1)` (`None` pair);
    every selector pair is admissible -/
theorem getitemGoM_meta (sel : List (Sel × Sel)) (cs cs' : List (Core α)) (ex : List Nat)
    (h : getitemGoM sel cs 0 [] [] = some (cs', ex)) :
    ex = gm_exPosM 0 sel ∧ cs'.length = sel.length ∧ (WF cs 1 → WF cs' 1) ∧
    modes cs' = gm_shapeFullM sel ∧ (∀ p ∈ sel, gm_pairOK p = true) := by
  obtain ⟨ht, hex⟩ := gm_getitemGoM_top sel cs cs' ex h
  exact ⟨hex, gm_length_slicedM sel cs cs' 1 ht, gm_WF_slicedM sel cs cs' 1 ht,
    gm_modes_slicedM sel cs cs' 1 ht, gm_all_ok_slicedM sel cs cs' 1 ht⟩

/-! ### `A[sel]` = slicing loop + `reduce_dims(exclude)` -/

/-- **value of `A[sel]`, general form**: with `cs'` the sliced train and `mask` its survival mask
    under `reduce_dims(exclude)`, entry `ij` of the result is entry
    `selIdxM sel (expandIdx mask ij)` of `A`. -/
theorem getitemM_full (sel : List (Sel × Sel)) (cs res : List (Core α)) (flag : Bool)
    (h : getitemM sel cs = some (res, flag)) :
    ∃ cs', getitemGoM sel cs 0 [] [] = some (cs', gm_exPosM 0 sel) ∧
      ∀ ij, ij.length = keptCount (keptMask (fun i => (gm_exPosM 0 sel).contains i) cs') →
        full res ij
          = full cs (selIdxM sel
              (expandIdx (keptMask (fun i => (gm_exPosM 0 sel).contains i) cs') ij)) := by
  obtain ⟨t, hgo, ht, hres, _⟩ := gm_getitemM_some sel cs res flag h
  refine ⟨t, hgo, ?_⟩
  intro ij hij
  subst hres
  rw [TT.reduceDims_full _ t ij hij]
  apply gm_chain_slicedM sel cs t 1 _ 0 0 ht _ (by omega)
  rw [length_expandIdx _ ij hij, length_keptMask, gm_length_slicedM sel cs t 1 ht]

/-- the survival mask is `gm_selMaskM sel`: the slice / `None` positions (all pairs integer: the
    last core).  Unlike the tensor case no hypothesis on the cores is needed: both mode sizes of
    every new core are set by the selectors. -/
theorem getitemM_mask (sel : List (Sel × Sel)) (cs cs' : List (Core α)) (ex : List Nat)
    (hne : sel ≠ []) (h : getitemGoM sel cs 0 [] [] = some (cs', ex)) :
    keptMask (fun i => ex.contains i) cs' = gm_selMaskM sel := by
  obtain ⟨ht, hex⟩ := gm_getitemGoM_top sel cs cs' ex h
  subst hex
  exact gm_keptMask_slicedM sel cs cs' 1 hne ht

/-- **value of `A[sel]`, at least one slice / `None` pair**: entry `ij` of the result (one index
    pair per slice / `None` pair) is the entry of `A` at `(a, b)` for `(int a, int b)`,
    `(s1 + st1*i, s2 + st2*j)` for a pair of slices; the index at a `None` position is dropped. -/
theorem getitemM_full_some (sel : List (Sel × Sel)) (cs res : List (Core α)) (flag : Bool)
    (ij : List (Nat × Nat)) (hsome : sel.any gm_pairKeeps = true)
    (h : getitemM sel cs = some (res, flag))
    (hij : ij.length = keptCount (sel.map gm_pairKeeps)) :
    full res ij = full cs (gm_getIdxM sel ij) := by
  have hne : sel ≠ [] := by rintro rfl; simp at hsome
  obtain ⟨t, hgo, hall⟩ := getitemM_full sel cs res flag h
  have hmask := getitemM_mask sel cs t _ hne hgo
  have hok := (getitemGoM_meta sel cs t _ hgo).2.2.2.2
  have hsm : gm_selMaskM sel = sel.map gm_pairKeeps := by simp only [gm_selMaskM, hsome, if_true]
  rw [hall ij (by rw [hmask, hsm]; exact hij), hmask, hsm, gm_selIdxM_expand sel hok]

/-- **value of `A[i_1, …, i_d, j_1, …, j_d]`** (all pairs integers): the scalar flag is set and
    the single remaining entry is `A[(i_1,j_1), …, (i_d,j_d)]`. -/
theorem getitemM_full_allInt (sel : List (Sel × Sel)) (cs res : List (Core α)) (flag : Bool)
    (hne : sel ≠ []) (hall : sel.any gm_pairKeeps = false)
    (h : getitemM sel cs = some (res, flag)) :
    flag = true ∧ ∀ x, full res [x] = full cs (gm_getIdxM sel []) := by
  obtain ⟨t, hgo, ht, hres, hflag⟩ := gm_getitemM_some sel cs res flag h
  have hmask := gm_keptMask_slicedM sel cs t 1 hne ht
  have hsm : gm_selMaskM sel = List.replicate (sel.length - 1) false ++ [true] := by
    simp [gm_selMaskM, hall]
  constructor
  · rw [hflag, gm_exPosM_isEmpty, hall]; rfl
  · intro x
    obtain ⟨t', hgo', hgen⟩ := getitemM_full sel cs res flag h
    have : t' = t := by rw [hgo] at hgo'; simpa using hgo'.symm
    subst this
    have hcount : keptCount (List.replicate (sel.length - 1) false ++ [true]) = 1 := by
      simp [keptCount, List.count_replicate]
    rw [hgen [x] (by rw [hmask, hsm, hcount]; rfl), hmask, hsm, gm_selIdxM_allInt sel hne hall x]

/-- **which index tuples are accepted**: `A[sel]` is defined (no `InvalidArguments` /
    `IndexError`) iff every pair is `(int,int)`, `(slice,slice)` or `(None,None)` and the pairs
    other than `(None,None)` are exactly as many as the cores -/
theorem getitemM_defined_iff (sel : List (Sel × Sel)) (cs : List (Core α)) :
    (getitemM sel cs).isSome = true ↔
      ((∀ p ∈ sel, gm_pairOK p = true) ∧ sel.countP (fun p => !gm_pairNone p) = cs.length) := by
  have hiff := gm_slicedM_isSome sel cs 1
  rw [List.all_eq_true] at hiff
  rw [← hiff]
  unfold getitemM
  rw [gm_getitemGoM_eq]
  have h1 : rd_lastR1 ([] : List (Core α)) = 1 := rfl
  rw [h1]
  cases gm_slicedM sel cs 1 <;> simp

/-- a mixed pair is rejected wherever it occurs -/
theorem getitemM_mixed_none (sel : List (Sel × Sel)) (cs : List (Core α)) (p : Sel × Sel)
    (hp : p ∈ sel) (hbad : gm_pairOK p = false) : getitemM sel cs = none := by
  cases hg : getitemM sel cs with
  | none => rfl
  | some r =>
    have := (getitemM_defined_iff sel cs).mp (by rw [hg]; rfl)
    rw [this.1 p hp] at hbad
    exact absurd hbad (by simp)

/-- the result of `A[sel]` is a well-formed train -/
theorem getitemM_WF (sel : List (Sel × Sel)) (cs res : List (Core α)) (flag : Bool) (hw : WF cs 1)
    (h : getitemM sel cs = some (res, flag)) : WF res 1 := by
  obtain ⟨t, _, ht, hres, _⟩ := gm_getitemM_some sel cs res flag h
  subst hres
  exact WF_reduceDims _ t 1 (gm_WF_slicedM sel cs t 1 ht hw)

/-- **shape of `A[sel]`**: `(len1, len2)` per slice pair and `(1,1)` per `None` pair, in order;
    integer pairs vanish.  Corner case: all pairs integers — a single `(1,1)` core survives and the
    scalar flag is set. -/
theorem getitemM_shape (sel : List (Sel × Sel)) (cs res : List (Core α)) (flag : Bool)
    (hne : sel ≠ []) (h : getitemM sel cs = some (res, flag)) :
    flag = !(sel.any gm_pairKeeps) ∧
    (sel.any gm_pairKeeps = true →
      modes res = gm_shapeM sel ∧
      modesM res = (gm_shapeM sel).map Prod.fst ∧ modesN res = (gm_shapeM sel).map Prod.snd) ∧
    (sel.any gm_pairKeeps = false → modes res = [(1, 1)] ∧ modesM res = [1] ∧ modesN res = [1]) := by
  obtain ⟨t, hgo, ht, hres, hflag⟩ := gm_getitemM_some sel cs res flag h
  have hmask := gm_keptMask_slicedM sel cs t 1 hne ht
  have hmodes := gm_modes_slicedM sel cs t 1 ht
  have hMN : ∀ (l : List (Core α)), modesM l = (modes l).map Prod.fst ∧
      modesN l = (modes l).map Prod.snd := by
    intro l; simp [modes, modesM, modesN, Function.comp_def]
  subst hres
  refine ⟨by rw [hflag, gm_exPosM_isEmpty], ?_, ?_⟩
  · intro hsome
    have hsm : gm_selMaskM sel = sel.map gm_pairKeeps := by
      simp only [gm_selMaskM, hsome, if_true]
    have hm : modes (reduceDims (fun i => (gm_exPosM 0 sel).contains i) t) = gm_shapeM sel := by
      rw [modes_reduceDims, hmask, hmodes, hsm, gm_keepBy_shapeM]
    exact ⟨hm, by rw [(hMN _).1, hm], by rw [(hMN _).2, hm]⟩
  · intro hall
    have hsm : gm_selMaskM sel = List.replicate (sel.length - 1) false ++ [true] := by
      simp [gm_selMaskM, hall]
    have hpos : sel.length = (sel.length - 1) + 1 := by
      have : 0 < sel.length := List.length_pos_iff.mpr hne
      omega
    have hm : modes (reduceDims (fun i => (gm_exPosM 0 sel).contains i) t) = [(1, 1)] := by
      rw [modes_reduceDims, hmask, hmodes, hsm, gm_shapeFullM_allInt sel hall, hpos]
      simpa using rd_keepBy_last (sel.length - 1) ((1, 1) : Nat × Nat)
    exact ⟨hm, by rw [(hMN _).1, hm]; rfl, by rw [(hMN _).2, hm]; rfl⟩

/-! ### non-vacuity and concrete instances -/

/-- the hypotheses are satisfiable: an order-2 `Int` TT-matrix with `M = [2,3]`, `N = [2,2]`,
    ranks `[1,2,1]`, indexed with `A[0:2, 1, 0:2:1, 0]` (a slice pair and an integer pair) -/
example : ∃ (cs res : List (Core Int)) (flag : Bool), WF cs 1 ∧
    getitemM [(.slice 0 1 2, .slice 0 1 2), (.int 1, .int 0)] cs = some (res, flag) ∧
    [(Sel.slice 0 1 2, Sel.slice 0 1 2), (Sel.int 1, Sel.int 0)].any gm_pairKeeps = true :=
  ⟨[⟨1, 2, 2, 2, fun _ i j b => (i + 2 * j + b : Int)⟩,
    ⟨2, 3, 2, 1, fun a i j _ => (a * i + j + 1 : Int)⟩],
    _, _, by simp [WF], rfl, rfl⟩

/-- all-integer index `A[1, 2, 0, 1]` -/
example : ∃ (cs res : List (Core Int)) (flag : Bool), WF cs 1 ∧
    getitemM [(.int 1, .int 0), (.int 2, .int 1)] cs = some (res, flag) ∧
    [(Sel.int 1, Sel.int 0), (Sel.int 2, Sel.int 1)].any gm_pairKeeps = false :=
  ⟨[⟨1, 2, 2, 2, fun _ i j b => (i + 2 * j + b : Int)⟩,
    ⟨2, 3, 2, 1, fun a i j _ => (a * i + j + 1 : Int)⟩],
    _, _, by simp [WF], rfl, rfl⟩

/-- a `(None, None)` pair: `A[None, 1, 0:3:2, None, 0, 0:2]` -/
example : ∃ (cs res : List (Core Int)) (flag : Bool), WF cs 1 ∧
    getitemM [(.none, .none), (.int 1, .int 0), (.slice 0 2 2, .slice 0 1 2)] cs
      = some (res, flag) :=
  ⟨[⟨1, 2, 2, 2, fun _ i j b => (i + 2 * j + b : Int)⟩,
    ⟨2, 3, 2, 1, fun a i j _ => (a * i + j + 1 : Int)⟩],
    _, _, by simp [WF], rfl⟩

/-- a mixed pair `(int, slice)` is rejected -/
example : getitemM [(.int 1, .slice 0 1 2), (.int 0, .int 0)]
    ([⟨1, 2, 2, 2, fun _ i j b => (i + 2 * j + b : Int)⟩,
      ⟨2, 3, 2, 1, fun a i j _ => (a * i + j + 1 : Int)⟩] : List (Core Int)) = none := rfl

/-- concrete shapes: `A[0:2, 1, 0:2, 0]` has `M = [2]`, `N = [2]`;
    `A[None, 1, 0:3:2, None, 0, 0:2]` has `M = [1,2]`, `N = [1,2]` -/
theorem getitemM_shape_example :
    (getitemM [(.slice 0 1 2, .slice 0 1 2), (.int 1, .int 0)]
      ([⟨1, 2, 2, 2, fun _ i j b => (i + 2 * j + b : Int)⟩,
        ⟨2, 3, 2, 1, fun a i j _ => (a * i + j + 1 : Int)⟩] : List (Core Int))).map
          (fun p => (modes p.1, p.2)) = some ([(2, 2)], false) ∧
    (getitemM [(.none, .none), (.int 1, .int 0), (.slice 0 2 2, .slice 0 1 2)]
      ([⟨1, 2, 2, 2, fun _ i j b => (i + 2 * j + b : Int)⟩,
        ⟨2, 3, 2, 1, fun a i j _ => (a * i + j + 1 : Int)⟩] : List (Core Int))).map
          (fun p => (modes p.1, p.2)) = some ([(1, 1), (2, 2)], false) := by
  constructor <;>
    simp [getitemM, getitemGoM, reduceDims, reduceGo, selRow, selCol, eyeCore, modes, absorbLeft,
      absorbRight]

end TT.C08
