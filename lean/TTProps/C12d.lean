import TTLemmas.KernelsL
import TTLemmas.AmenStepL
import TTModel.AmenStep

/-!
# C12d / C11 / C13 — the core update of the AMEn routines never changes the represented tensor beyond its SVD truncation

Model: `TTModel/AmenStep.lean` (`_amen_solve_python`, `_amen_mm_python`, `amen_divide`: the block between the local solve
and the update of the environments).  `c` is the freshly solved core at position `k` (`solution_now` reshaped), `nxt`
the old core `k+1`; `f` the (possibly truncated) SVD factorisation of `reshape(c, [r0·m·n, r1])`; `uk` the enrichment
block (local residual projected on the `z` frame — ANY matrix here), `qr` the QR primitive.

* `enrich_matrix_identity`, `updateEnrich_chain` — **rank enrichment is invisible**: for every `uk`, provided only that the
  QR primitive reconstructs its input (`Q·R = [u | uk]`), the two new cores multiply to the same two-site block as the
  truncated solution times the old next core.  (The zero block appended to `v` is what makes this work; a non-zero
  block, or `R` applied on the wrong side, would change the iterate.)
* `updatePlain_chain` — the same for the last sweep (no hypothesis at all).
* `truncCore_exact` — when nothing is truncated (`U·W = solution`) the truncated core is the solved core, hence
  `update_chain_exact`: the block leaves the two-site product `c ⋈ nxt` unchanged.
* `update_full` — the train as a whole: replacing cores `k, k+1` by the updated pair represents the same tensor as the
  train with the solved core in place, at every in-range multi-index, for every order / rank profile / position `k`.
* `rankByResidual_bounds`, `scanDown_spec` — the rank rule of `_amen_solve_python`: the chosen rank lies in
  `[1, min(n, rmax)]`; unless the cap `rmax` binds it is `n` or a rank whose truncation passed the residual test, every
  larger truncation passed as well, and (Python loop-variable semantics) it is never below 2 when `n ≥ 2`.
-/
namespace TT.C12d
open TT TT.Decomp TT.Amen
variable {α : Type} [CommRing α]

/-- matrix level: `Q · ([v | 0]·Rᵀ)ᵀ = u · vᵀ` whenever `Q·R = [u | uk]` on the `rows × (r + radd)` block -/
theorem enrich_matrix_identity (rows r radd : Nat) (u uk W : Mat α) (g : Fact α)
    (hqr : ∀ p c, p < rows → c < r + radd →
      sumTo g.r (fun t => g.left p t * g.right t c) = hcat u r uk p c)
    (p q : Nat) (hp : p < rows) :
    sumTo g.r (fun t => g.left p t * enrichRight r W g.right t q) =
      sumTo r (fun c => u p c * W c q) :=
  as_enrich_matrix rows r radd u uk W g hqr p q hp

/-- the last-sweep update multiplies back to the truncated solution times the old next core
    (pure reassociation: no in-range hypothesis on `a`, `ij1` is needed, so none is stated) -/
theorem updatePlain_chain (c nxt : Core α) (f : Fact α) (ij1 ij2 : Nat × Nat) (a b : Nat)
    (hr : nxt.r0 = c.r1) :
    chain [(updatePlain c nxt f).1, (updatePlain c nxt f).2] [ij1, ij2] a b =
      chain [truncCore c f, nxt] [ij1, ij2] a b := by
  rw [as_chain_two, as_chain_two]
  exact as_plain_block c nxt f _ _ _ _ a _ hr

/-- **rank enrichment is invisible** (any `uk`, any `radd`), given a reconstructing QR primitive -/
theorem updateEnrich_chain (qr : Oracle α) (hqr : Exact qr) (c nxt : Core α) (f : Fact α) (uk : Mat α) (radd : Nat)
    (ij1 ij2 : Nat × Nat) (a b : Nat)
    (ha : a < c.r0) (hi : ij1.1 < c.m) (hj : ij1.2 < c.n) (hr : nxt.r0 = c.r1) :
    chain [(updateEnrich qr c nxt f uk radd).1, (updateEnrich qr c nxt f uk radd).2] [ij1, ij2] a b =
      chain [truncCore c f, nxt] [ij1, ij2] a b := by
  rw [as_chain_two, as_chain_two]
  exact as_enrich_block qr hqr c nxt f uk radd _ _ _ _ a _ ha hi hj hr

/-- no truncation: the factorisation reconstructs the unfolding, so the truncated core is the solved core -/
theorem truncCore_exact (c : Core α) (f : Fact α)
    (hf : ∀ p b, p < c.r0 * c.m * c.n → b < c.r1 →
      sumTo f.r (fun t => f.left p t * f.right t b) = unfoldL c p b)
    (a i j b : Nat) (ha : a < c.r0) (hi : i < c.m) (hj : j < c.n) (hb : b < c.r1) :
    (truncCore c f).get a i j b = c.get a i j b :=
  as_truncCore_exact c f hf a i j b ha hi hj hb

/-- the whole block with reconstructing primitives leaves the two-site product unchanged -/
theorem update_chain_exact (svd qr : Oracle α) (hsvd : Exact svd) (hqr : Exact qr) (c nxt : Core α)
    (enrich : Option (Mat α × Nat)) (ij1 ij2 : Nat × Nat) (a b : Nat)
    (ha : a < c.r0) (hi : ij1.1 < c.m) (hj : ij1.2 < c.n) (hr : nxt.r0 = c.r1) :
    chain [(update svd qr c nxt enrich).1, (update svd qr c nxt enrich).2] [ij1, ij2] a b =
      chain [c, nxt] [ij1, ij2] a b := by
  rw [as_chain_two, as_chain_two]
  exact as_update_block svd qr hsvd hqr c nxt enrich _ _ _ _ a _ ha hi hj hr

/-- **the train as a whole**: for every position (`pre` arbitrary, chaining from 1 to `c.r0`), every enrichment block and
    reconstructing primitives, the updated train represents the tensor of the train with the solved core in place -/
theorem update_full (svd qr : Oracle α) (hsvd : Exact svd) (hqr : Exact qr) (pre post : List (Core α)) (c nxt : Core α)
    (enrich : Option (Mat α × Nat)) (hw : WF (pre ++ c :: nxt :: post) 1)
    (ij : List (Nat × Nat)) (hij : List.Forall₂ (fun (p : Nat × Nat) (k : Core α) => p.1 < k.m ∧ p.2 < k.n) ij
      (pre ++ c :: nxt :: post)) :
    full (splice pre (update svd qr c nxt enrich) post) ij = full (pre ++ c :: nxt :: post) ij := by
  unfold full splice
  exact as_chain_splice pre post c nxt _ _ 0
    (fun i1 j1 i2 j2 a D ha hi hj hr => as_update_block svd qr hsvd hqr c nxt enrich i1 j1 i2 j2 a D ha hi hj hr)
    1 hw ij hij 0 (by omega)

/-- the updated train is well formed and keeps the mode sizes -/
theorem update_WF (svd qr : Oracle α) (pre post : List (Core α)) (c nxt : Core α)
    (enrich : Option (Mat α × Nat)) (hw : WF (pre ++ c :: nxt :: post) 1) :
    WF (splice pre (update svd qr c nxt enrich) post) 1 ∧
    modesM (splice pre (update svd qr c nxt enrich) post) = modesM (pre ++ c :: nxt :: post) ∧
    modesN (splice pre (update svd qr c nxt enrich) post) = modesN (pre ++ c :: nxt :: post) := by
  obtain ⟨h0, h1, h2, hm1, hn1, hm2, hn2⟩ := as_update_ranks svd qr c nxt enrich
  refine ⟨as_WF_splice pre post c nxt _ _ h0 h1 h2 1 hw, ?_, ?_⟩
  · simp [splice, modesM, hm1, hm2]
  · simp [splice, modesN, hn1, hn2]

/-! ### concrete instances (the hypotheses are satisfiable, the statements are not vacuous) -/

/-- solved core `2 × 2 × 1 × 2` -/
def exC : Core Int := { r0 := 2, m := 2, n := 1, r1 := 2, get := fun a i _ b => (a : Int) * 3 - i + 2 * b * a + 1 }
/-- old next core `2 × 2 × 1 × 2` -/
def exN : Core Int := { r0 := 2, m := 2, n := 1, r1 := 2, get := fun q i _ b => (q : Int) + 2 * i - b * q + 1 }
def exPre : Core Int := { r0 := 1, m := 3, n := 1, r1 := 2, get := fun _ i _ b => (i : Int) - b + 1 }
def exPost : Core Int := { r0 := 2, m := 2, n := 1, r1 := 1, get := fun q i _ _ => 2 * (q : Int) - i + 1 }
/-- a rank-1 (truncating) factorisation of the `4 × 2` unfolding -/
def exF : Fact Int := { r := 1, left := fun p _ => (p : Int) + 1, right := fun _ b => 2 - (b : Int) }
/-- an enrichment block (`4 × 2`) -/
def exUk : Mat Int := fun p c => (p : Int) * p - c + 1

example (p q : Nat) (hp : p < 4) :
    sumTo (dc_idFull 4 (1 + 2) (hcat exF.left 1 exUk)).r (fun t =>
      (dc_idFull 4 (1 + 2) (hcat exF.left 1 exUk)).left p t *
        enrichRight 1 exF.right (dc_idFull 4 (1 + 2) (hcat exF.left 1 exUk)).right t q) =
    sumTo 1 (fun c => exF.left p c * exF.right c q) :=
  enrich_matrix_identity 4 1 2 exF.left exUk exF.right _
    (fun p c hp hc => dc_idFull_exact 4 (1 + 2) _ p c hp hc) p q hp

example : chain [(updatePlain exC exN exF).1, (updatePlain exC exN exF).2] [(1, 0), (1, 0)] 1 1 =
    chain [truncCore exC exF, exN] [(1, 0), (1, 0)] 1 1 :=
  updatePlain_chain exC exN exF (1, 0) (1, 0) 1 1 rfl

example : chain [(updatePlain exC exN exF).1, (updatePlain exC exN exF).2] [(1, 0), (1, 0)] 1 1 = 36 := by decide

/-- enrichment by a non-zero block with a reconstructing QR primitive: same two-site block -/
example : chain [(updateEnrich dc_idFull exC exN exF exUk 2).1, (updateEnrich dc_idFull exC exN exF exUk 2).2]
      [(1, 0), (1, 0)] 1 1 = chain [truncCore exC exF, exN] [(1, 0), (1, 0)] 1 1 :=
  updateEnrich_chain dc_idFull dc_idFull_exact exC exN exF exUk 2 (1, 0) (1, 0) 1 1
    (by decide) (by decide) (by decide) rfl

example : chain [(updateEnrich dc_idFull exC exN exF exUk 2).1, (updateEnrich dc_idFull exC exN exF exUk 2).2]
      [(1, 0), (1, 0)] 1 1 = 36 := by decide

/-- the enriched bond really is larger: rank 3 instead of 1 -/
example : (updateEnrich dc_idFull exC exN exF exUk 2).1.r1 = 3 ∧ (updatePlain exC exN exF).1.r1 = 1 := by decide

/-- a rank-2 factorisation -/
def exF2 : Fact Int := { r := 2, left := fun p t => (p : Int) + t + 1, right := fun t b => 2 - (b : Int) + t }

example : chain [(updateEnrich dc_idFull exC exN exF2 exUk 2).1, (updateEnrich dc_idFull exC exN exF2 exUk 2).2]
      [(1, 0), (1, 0)] 1 1 = 111 ∧ chain [truncCore exC exF2, exN] [(1, 0), (1, 0)] 1 1 = 111 := by decide

/-- the QR contract is needed: a QR primitive that drops columns (`idOracle 1`) changes the block -/
example : chain [(updateEnrich (idOracle 1) exC exN exF2 exUk 2).1, (updateEnrich (idOracle 1) exC exN exF2 exUk 2).2]
      [(1, 0), (1, 0)] 1 1 ≠ chain [truncCore exC exF2, exN] [(1, 0), (1, 0)] 1 1 := by decide

example : (truncCore exC (dc_idFull 4 2 (unfoldL exC))).get 1 1 0 1 = exC.get 1 1 0 1 :=
  truncCore_exact exC _ (fun p b hp hb => dc_idFull_exact 4 2 _ p b hp hb) 1 1 0 1
    (by decide) (by decide) (by decide) (by decide)

/-- a truncating factorisation does change the core: the hypothesis of `truncCore_exact` is not vacuous -/
example : (truncCore exC exF).get 1 1 0 1 ≠ exC.get 1 1 0 1 := by decide

example : chain [(update dc_idFull dc_idFull exC exN (some (exUk, 2))).1,
      (update dc_idFull dc_idFull exC exN (some (exUk, 2))).2] [(1, 0), (1, 0)] 1 1 =
    chain [exC, exN] [(1, 0), (1, 0)] 1 1 :=
  update_chain_exact dc_idFull dc_idFull dc_idFull_exact dc_idFull_exact exC exN _ (1, 0) (1, 0) 1 1
    (by decide) (by decide) (by decide) rfl

example : chain [exC, exN] [(1, 0), (1, 0)] 1 1 = 24 := by decide

/-- a truncating SVD primitive (`idOracle 1`) does change the two-site block -/
example : chain [(update (idOracle 1) dc_idFull exC exN none).1, (update (idOracle 1) dc_idFull exC exN none).2]
    [(1, 0), (1, 0)] 1 1 ≠ chain [exC, exN] [(1, 0), (1, 0)] 1 1 := by decide

theorem ex_WF : WF ([exPre] ++ exC :: exN :: [exPost]) 1 := ⟨rfl, rfl, rfl, rfl, rfl⟩

theorem ex_idx : List.Forall₂ (fun (p : Nat × Nat) (k : Core Int) => p.1 < k.m ∧ p.2 < k.n)
    [(2, 0), (1, 0), (1, 0), (1, 0)] ([exPre] ++ exC :: exN :: [exPost]) :=
  .cons (by decide) (.cons (by decide) (.cons (by decide) (.cons (by decide) .nil)))

example : full (splice [exPre] (update dc_idFull dc_idFull exC exN (some (exUk, 2))) [exPost])
      [(2, 0), (1, 0), (1, 0), (1, 0)] =
    full ([exPre] ++ exC :: exN :: [exPost]) [(2, 0), (1, 0), (1, 0), (1, 0)] :=
  update_full dc_idFull dc_idFull dc_idFull_exact dc_idFull_exact [exPre] [exPost] exC exN _ ex_WF _ ex_idx

example : full ([exPre] ++ exC :: exN :: [exPost]) [(2, 0), (1, 0), (1, 0), (1, 0)] = 96 := by decide
example : full (splice [exPre] (update dc_idFull dc_idFull exC exN (some (exUk, 2))) [exPost])
      [(2, 0), (1, 0), (1, 0), (1, 0)] = 96 := by decide

example : WF (splice [exPre] (update (idOracle 1) dc_idFull exC exN (some (exUk, 2))) [exPost]) 1 :=
  (update_WF (idOracle 1) dc_idFull [exPre] [exPost] exC exN _ ex_WF).1

/-! ### the rank rule by local residual -/

theorem scanDown_le (bad : Nat → Bool) (hi : Nat) : scanDown bad hi ≤ hi :=
  (as_scanDown_inv bad hi).1

/-- `r' = scanDown bad (n-1) + 1` is `n`, or a rank whose truncation passed the test; every larger truncation passed;
    it is at least 2 as soon as `n ≥ 2`; and below it the test failed unless the loop ran out (`r' = 2`) -/
theorem scanDown_spec (bad : Nat → Bool) (n : Nat) (hn : 1 ≤ n) :
    let r' := scanDown bad (n - 1) + 1
    r' ≤ n ∧ (r' = n ∨ bad r' = false) ∧ (∀ ρ, r' ≤ ρ → ρ < n → bad ρ = false) ∧
    (2 ≤ n → 2 ≤ r') ∧ (3 ≤ r' → bad (r' - 1) = true) := by
  obtain ⟨h1, h2, h3, h4⟩ := as_scanDown_inv bad (n - 1)
  intro r'
  have hr' : r' = scanDown bad (n - 1) + 1 := rfl
  refine ⟨by omega, ?_, ?_, ?_, ?_⟩
  · by_cases e : r' = n
    · exact Or.inl e
    · exact Or.inr (h2 r' (by omega) (by omega))
  · intro ρ hρ hn'; exact h2 ρ (by omega) (by omega)
  · intro hn2
    have := h3 (by omega)
    omega
  · intro h3'
    have := h4 (by omega)
    simpa [hr'] using this

theorem rankByResidual_bounds (bad : Nat → Bool) (n rmax : Nat) (hn : 1 ≤ n) (hr : 1 ≤ rmax) :
    1 ≤ rankByResidual bad n rmax ∧ rankByResidual bad n rmax ≤ n ∧ rankByResidual bad n rmax ≤ rmax := by
  unfold rankByResidual
  omega

/-- when the cap does not bind, the chosen truncation is the full rank or passed the residual test -/
theorem rankByResidual_accepts (bad : Nat → Bool) (n rmax : Nat) (hn : 1 ≤ n) (hcap : n ≤ rmax) :
    rankByResidual bad n rmax = n ∨ bad (rankByResidual bad n rmax) = false := by
  obtain ⟨h1, h2, _, _, _⟩ := scanDown_spec bad n hn
  have e : rankByResidual bad n rmax = scanDown bad (n - 1) + 1 := by
    unfold rankByResidual
    omega
  rw [e]
  exact h2

/-- the Python loop-variable quirk, stated outright: if every truncation passes, the rule still keeps rank 2 -/
theorem rankByResidual_all_pass (n rmax : Nat) (hn : 2 ≤ n) (hcap : 2 ≤ rmax) :
    rankByResidual (fun _ => false) n rmax = 2 := by
  unfold rankByResidual
  rw [as_scanDown_all_pass (n - 1) (by omega)]
  omega

/-- truncations to 5, 4 pass, the truncation to 3 is rejected: rank 4 is kept -/
example : scanDown (fun r => r == 3) 5 = 3 ∧ rankByResidual (fun r => r == 3) 6 10 = 4 := by decide
example : let r' := scanDown (fun r => r == 3) (6 - 1) + 1
    r' ≤ 6 ∧ (r' = 6 ∨ (fun r => r == 3) r' = false) ∧ (∀ ρ, r' ≤ ρ → ρ < 6 → (fun r => r == 3) ρ = false) ∧
    (2 ≤ 6 → 2 ≤ r') ∧ (3 ≤ r' → (fun r => r == 3) (r' - 1) = true) :=
  scanDown_spec (fun r => r == 3) 6 (by decide)
/-- the cap binds -/
example : rankByResidual (fun r => r == 3) 6 2 = 2 := by decide
/-- `n = 1`: the empty scan, rank 1 -/
example : rankByResidual (fun _ => true) 1 5 = 1 := by decide
/-- all truncations pass and still rank 2 is kept, not 1 -/
example : rankByResidual (fun _ => false) 6 10 = 2 := rankByResidual_all_pass 6 10 (by decide) (by decide)
/-- the first truncation is rejected: full rank -/
example : rankByResidual (fun r => r == 5) 6 10 = 6 := by decide

end TT.C12d
