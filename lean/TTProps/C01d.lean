import TTProps.C01c
import TTProps.C02c

/-!
# C01d — `mat_to_tt` (TT-matrix decomposition of a dense operator) is exact whenever the SVD oracle reconstructs its input

Model: `TTModel/DecompM.lean` (`toTTM`, `unflatIdx`, `splitAll`).  `mat_to_tt(A, M, N)` interleaves the row and column modes
of the dense array (`reshape M+N`, `permute (0,d,1,d+1,…)`, `reshape [M₁N₁,…]`), runs `to_tt` on the modes `M_k·N_k` and
reshapes every core `[r, M_k·N_k, r'] → [r, M_k, N_k, r']`.  With the algebraic contract `Exact svd` (`U·W = C`, no
truncation) every in-range entry `(i_1 j_1, …, i_d j_d)` of the resulting TT-matrix equals the entry of the dense array at
the flat row-major index of `(i_1,…,i_d,j_1,…,j_d)` in the shape `M ++ N`.

The in-range conditions `List.Forall₂ (· < ·) is M`, `List.Forall₂ (· < ·) js N` imply that all mode sizes are positive;
no extra positivity hypothesis is needed.
-/
namespace TT.C01
open TT TT.Decomp TT.C02

set_option linter.unusedSectionVars false

variable {α : Type} [CommRing α]

/-! ### index arithmetic: `unflatIdx` inverts `flatIdx`, `/` and `%` invert the row-major merge -/

/-- the digits of the flat index of an in-range digit list are the digit list -/
theorem dm_unflat_flat {ps ns : List Nat} (h : List.Forall₂ (· < ·) ps ns) :
    unflatIdx ns (flatIdx ns ps) = ps := by
  induction h with
  | nil => rfl
  | @cons i n is' ns' hin hrest ih =>
    have hf : flatIdx ns' is' < prodNat ns' := dc_flatIdx_lt hrest
    have hP : 0 < prodNat ns' := by omega
    have h1 : (i * prodNat ns' + flatIdx ns' is') / prodNat ns' = i := by
      rw [Nat.mul_comm, Nat.mul_add_div hP, Nat.div_eq_of_lt hf]; rfl
    have h2 : (i * prodNat ns' + flatIdx ns' is') % prodNat ns' = flatIdx ns' is' := by
      rw [Nat.mul_comm, Nat.mul_add_mod, Nat.mod_eq_of_lt hf]
    rw [dc_flatIdx_cons]
    simp only [unflatIdx, h1, h2, ih]

/-- the merged digits `p_k = i_k·N_k + j_k` are in range for `M_k·N_k`, and `/ N_k`, `% N_k` give `i_k`, `j_k` back -/
theorem dm_digits {is js M N : List Nat} (hi : List.Forall₂ (· < ·) is M) (hj : List.Forall₂ (· < ·) js N)
    (hlen : M.length = N.length) :
    List.Forall₂ (· < ·) (dm_mergeIdx N (is.zip js)) (List.zipWith (· * ·) M N)
      ∧ List.zipWith (fun p n => p / n) (dm_mergeIdx N (is.zip js)) N = is
      ∧ List.zipWith (fun p n => p % n) (dm_mergeIdx N (is.zip js)) N = js := by
  induction hi generalizing js N with
  | nil =>
    cases hj with
    | nil => exact ⟨List.Forall₂.nil, rfl, rfl⟩
    | cons _ _ => simp at hlen
  | @cons i m is' M' him _ ih =>
    cases hj with
    | nil => simp at hlen
    | @cons j n js' N' hjn hj' =>
      obtain ⟨ih1, ih2, ih3⟩ := ih hj' (by simpa using hlen)
      have hn : 0 < n := by omega
      have h1 : (i * n + j) / n = i := by
        rw [Nat.mul_comm, Nat.mul_add_div hn, Nat.div_eq_of_lt hjn]; rfl
      have h2 : (i * n + j) % n = j := by
        rw [Nat.mul_comm, Nat.mul_add_mod, Nat.mod_eq_of_lt hjn]
      refine ⟨List.Forall₂.cons (dc_merge_lt him hjn) ih1, ?_, ?_⟩
      · simp only [List.zip_cons_cons, dm_mergeIdx_cons, List.zipWith_cons_cons, h1, ih2]
      · simp only [List.zip_cons_cons, dm_mergeIdx_cons, List.zipWith_cons_cons, h2, ih3]

theorem dm_zip_snd (M N : List Nat) (hlen : M.length = N.length) : (M.zip N).map Prod.snd = N := by
  induction M generalizing N with
  | nil =>
    cases N with
    | nil => rfl
    | cons n N => simp at hlen
  | cons m M ih =>
    cases N with
    | nil => simp at hlen
    | cons n N =>
      simp only [List.zip_cons_cons, List.map_cons]
      rw [ih N (by simpa using hlen)]

theorem dm_zipWith_ne {M N : List Nat} (hne : M ≠ []) (hlen : M.length = N.length) :
    List.zipWith (· * ·) M N ≠ [] := by
  cases M with
  | nil => exact absurd rfl hne
  | cons m M' =>
    cases N with
    | nil => simp at hlen
    | cons n N' => simp

theorem dm_toTT_length (svd : Oracle α) (N : List Nat) (A : Nat → α) : (toTT svd N A).length = N.length := by
  have := congrArg List.length (toTT_modes svd N A)
  simpa [modesM] using this

/-- the dense array seen by the inner `to_tt` call: interleaved modes, flat index `J` over the modes `M_k·N_k` -/
def dm_interleave (M N : List Nat) (A : Nat → α) : Nat → α := fun J =>
  A (flatIdx (M ++ N)
      (List.zipWith (fun p n => p / n) (unflatIdx (List.zipWith (· * ·) M N) J) N
        ++ List.zipWith (fun p n => p % n) (unflatIdx (List.zipWith (· * ·) M N) J) N))

theorem dm_toTTM_eq (svd : Oracle α) (M N : List Nat) (A : Nat → α) :
    toTTM svd M N A = splitAll (M.zip N) (toTT svd (List.zipWith (· * ·) M N) (dm_interleave M N A)) := rfl

theorem dm_zip_length_eq (svd : Oracle α) (M N : List Nat) (A : Nat → α) :
    (M.zip N).length = (toTT svd (List.zipWith (· * ·) M N) (dm_interleave M N A)).length := by
  rw [dm_toTT_length]; simp

/-- the interleaved array at the flat index of the merged digits is `A` at the flat index of `is ++ js` -/
theorem dm_interleave_flat {is js M N : List Nat} (A : Nat → α) (hi : List.Forall₂ (· < ·) is M)
    (hj : List.Forall₂ (· < ·) js N) (hlen : M.length = N.length) :
    dm_interleave M N A (flatIdx (List.zipWith (· * ·) M N) (dm_mergeIdx N (is.zip js)))
      = A (flatIdx (M ++ N) (is ++ js)) := by
  obtain ⟨h1, h2, h3⟩ := dm_digits hi hj hlen
  simp only [dm_interleave, dm_unflat_flat h1, h2, h3]

/-! ### (4) `mat_to_tt` is exact -/

/-- **`mat_to_tt` is exact given an exact SVD**: every in-range entry of the TT-matrix equals the entry of the dense array -/
theorem toTTM_exact (svd : Oracle α) (hsvd : Exact svd) (M N : List Nat) (A : Nat → α) (is js : List Nat)
    (hne : M ≠ []) (hlen : M.length = N.length)
    (hi : List.Forall₂ (· < ·) is M) (hj : List.Forall₂ (· < ·) js N) :
    full (toTTM svd M N A) (is.zip js) = A (flatIdx (M ++ N) (is ++ js)) := by
  have hne' := dm_zipWith_ne hne hlen
  rw [dm_toTTM_eq, full_splitAll _ _ _ (dm_zip_length_eq svd M N A), dm_zip_snd M N hlen,
    toTT_exact svd hsvd _ _ _ hne' (dm_digits hi hj hlen).1]
  exact dm_interleave_flat A hi hj hlen

/-- bounded contract: exactness of the oracle up to size `∏ M_k·N_k` suffices (e.g. `idOracle cap`) -/
theorem toTTM_exact_upto (svd : Oracle α) (B : Nat) (hsvd : dc_ExactUpTo svd B) (M N : List Nat) (A : Nat → α)
    (is js : List Nat) (hne : M ≠ []) (hlen : M.length = N.length)
    (hi : List.Forall₂ (· < ·) is M) (hj : List.Forall₂ (· < ·) js N)
    (hB : prodNat (List.zipWith (· * ·) M N) ≤ B) :
    full (toTTM svd M N A) (is.zip js) = A (flatIdx (M ++ N) (is ++ js)) := by
  have hne' := dm_zipWith_ne hne hlen
  rw [dm_toTTM_eq, full_splitAll _ _ _ (dm_zip_length_eq svd M N A), dm_zip_snd M N hlen,
    toTT_exact_upto svd B hsvd _ _ _ hne' (dm_digits hi hj hlen).1 hB]
  exact dm_interleave_flat A hi hj hlen

/-- the in-range operator multi-index `is.zip js` is in range for the result (consistency of the index convention) -/
theorem toTTM_inRange (svd : Oracle α) (M N : List Nat) (A : Nat → α) (is js : List Nat)
    (hlen : M.length = N.length) (hi : List.Forall₂ (· < ·) is M) (hj : List.Forall₂ (· < ·) js N) :
    dm_InRange (is.zip js) (toTTM svd M N A) := by
  have hmn : modesMN' (toTTM svd M N A) = M.zip N := by
    rw [dm_toTTM_eq]; exact modesMN'_splitAll _ _ (dm_zip_length_eq svd M N A)
  have key : ∀ (cs : List (Core α)) (is js M N : List Nat), modesMN' cs = M.zip N → M.length = N.length →
      List.Forall₂ (· < ·) is M → List.Forall₂ (· < ·) js N → dm_InRange (is.zip js) cs := by
    intro cs is js M N hm hl hi hj
    induction hi generalizing js N cs with
    | nil =>
      cases hj with
      | nil =>
        cases cs with
        | nil => exact List.Forall₂.nil
        | cons c cs => simp [modesMN'] at hm
      | cons _ _ => simp at hl
    | @cons i m is' M' him _ ih =>
      cases hj with
      | nil => simp at hl
      | @cons j n js' N' hjn hj' =>
        cases cs with
        | nil => simp [modesMN'] at hm
        | cons c cs =>
          simp only [modesMN', List.map_cons, List.zip_cons_cons, List.cons.injEq, Prod.mk.injEq] at hm
          obtain ⟨⟨hm1, hm2⟩, hm3⟩ := hm
          exact List.Forall₂.cons ⟨by simpa [hm1] using him, by simpa [hm2] using hjn⟩
            (ih (cs := cs) (js := js') (N := N') hm3 (by simpa using hl) hj')
  exact key _ is js M N hmn hlen hi hj

/-! ### (5) shape of the result (any oracle) -/

/-- ranks chain by construction, first left rank `1`, last right rank `1` (any oracle, any `M`, `N`) -/
theorem toTTM_WF (svd : Oracle α) (M N : List Nat) (A : Nat → α) : WF (toTTM svd M N A) 1 := by
  rw [dm_toTTM_eq, WF_splitAll _ _ _ (dm_zip_length_eq svd M N A)]
  exact toTT_WF svd _ _

/-- the mode sizes of the result are the pairs `(M_k, N_k)` (any oracle) -/
theorem toTTM_modes (svd : Oracle α) (M N : List Nat) (A : Nat → α) : modesMN' (toTTM svd M N A) = M.zip N := by
  rw [dm_toTTM_eq]
  exact modesMN'_splitAll _ _ (dm_zip_length_eq svd M N A)

theorem toTTM_modesM (svd : Oracle α) (M N : List Nat) (A : Nat → α) (hlen : M.length = N.length) :
    modesM (toTTM svd M N A) = M := by
  rw [← dm_modesMN'_fst, toTTM_modes]
  exact List.map_fst_zip (by omega)

theorem toTTM_modesN (svd : Oracle α) (M N : List Nat) (A : Nat → α) (hlen : M.length = N.length) :
    modesN (toTTM svd M N A) = N := by
  rw [← dm_modesMN'_snd, toTTM_modes]
  exact dm_zip_snd M N hlen

theorem toTTM_length (svd : Oracle α) (M N : List Nat) (A : Nat → α) (hlen : M.length = N.length) :
    (toTTM svd M N A).length = M.length := by
  have := congrArg List.length (toTTM_modesM svd M N A hlen)
  simpa [modesM] using this

/-- `mat_to_tt` followed by exact rounding is still the dense operator (C01d ∘ C02c) -/
theorem roundTTM_toTTM_exact (qr svd svd' : Oracle α) (hqr : Exact qr) (hsvd : Exact svd) (hsvd' : Exact svd')
    (M N : List Nat) (A : Nat → α) (is js : List Nat) (hne : M ≠ []) (hlen : M.length = N.length)
    (hi : List.Forall₂ (· < ·) is M) (hj : List.Forall₂ (· < ·) js N) :
    full (roundTTM qr svd' (toTTM svd M N A)) (is.zip js) = A (flatIdx (M ++ N) (is ++ js)) := by
  rw [roundTTM_full qr svd' hqr hsvd' _ _ (toTTM_WF svd M N A) (toTTM_inRange svd M N A is js hlen hi hj)]
  exact toTTM_exact svd hsvd M N A is js hne hlen hi hj

/-! ### (6) concrete instances -/

/-- a concrete dense `(2·3) × (3·2)` integer operator on `M = [2,3]`, `N = [3,2]`, given through its flat index
over the shape `[2,3,3,2]` -/
def dm_exA : Nat → Int := fun j => (j : Int) * j - 5 * j + 2

example : unflatIdx [6, 6] (flatIdx [6, 6] [5, 4]) = [5, 4] := by decide
example : flatIdx ([2, 3] ++ [3, 2]) ([1, 2] ++ [2, 1]) = 35 := by decide

/-- single entries, evaluated with the concrete oracle of the correspondence run -/
example : full (toTTM (idOracle 100) [2, 3] [3, 2] dm_exA) [(1, 2), (2, 1)] = dm_exA 35 := by decide
example : full (toTTM (idOracle 100) [2, 3] [3, 2] dm_exA) [(0, 1), (1, 0)] = dm_exA 8 := by decide
example : full (toTTM (idOracle 100) [2, 3] [3, 2] dm_exA) [(0, 1), (1, 0)] = 26 := by decide

/-- all 36 entries at once -/
example : ∀ i0 < 2, ∀ j0 < 3, ∀ i1 < 3, ∀ j1 < 2,
    full (toTTM (idOracle 100) [2, 3] [3, 2] dm_exA) [(i0, j0), (i1, j1)]
      = dm_exA (flatIdx [2, 3, 3, 2] [i0, i1, j0, j1]) := by
  decide

/-- the general theorem instantiated with the everywhere-exact oracle (non-vacuity of the hypotheses) -/
example : full (toTTM dc_idFull [2, 3] [3, 2] dm_exA) ([1, 2].zip [2, 1])
    = dm_exA (flatIdx ([2, 3] ++ [3, 2]) ([1, 2] ++ [2, 1])) :=
  toTTM_exact dc_idFull idFull_exact [2, 3] [3, 2] dm_exA [1, 2] [2, 1] (by decide) rfl
    (inRange_of_get _ _ rfl (by decide)) (inRange_of_get _ _ rfl (by decide))

example : full (toTTM (idOracle 100) [2, 3] [3, 2] dm_exA) ([1, 2].zip [2, 1])
    = dm_exA (flatIdx ([2, 3] ++ [3, 2]) ([1, 2] ++ [2, 1])) :=
  toTTM_exact_upto (idOracle 100) 100 (dc_idOracle_upto 100) [2, 3] [3, 2] dm_exA [1, 2] [2, 1] (by decide) rfl
    (inRange_of_get _ _ rfl (by decide)) (inRange_of_get _ _ rfl (by decide)) (by decide)

example : full (roundTTM dc_idFull dc_idFull (toTTM dc_idFull [2, 3] [3, 2] dm_exA)) ([1, 2].zip [2, 1])
    = dm_exA (flatIdx ([2, 3] ++ [3, 2]) ([1, 2] ++ [2, 1])) :=
  roundTTM_toTTM_exact dc_idFull dc_idFull dc_idFull idFull_exact idFull_exact idFull_exact [2, 3] [3, 2] dm_exA
    [1, 2] [2, 1] (by decide) rfl (inRange_of_get _ _ rfl (by decide)) (inRange_of_get _ _ rfl (by decide))

/-- truncation (`idOracle 1`) does change the operator: the exactness hypothesis is not vacuous -/
example : full (toTTM (idOracle 1) [2, 3] [3, 2] dm_exA) [(1, 2), (2, 1)] ≠ dm_exA 35 := by decide

example : WF (toTTM (idOracle 1) [2, 3] [3, 2] dm_exA) 1 := toTTM_WF _ _ _ _
example : modesMN' (toTTM (idOracle 1) [2, 3] [3, 2] dm_exA) = [(2, 3), (3, 2)] := toTTM_modes _ _ _ _

end TT.C01

#print axioms TT.C01.dm_unflat_flat
#print axioms TT.C01.toTTM_exact
#print axioms TT.C01.toTTM_exact_upto
#print axioms TT.C01.toTTM_inRange
#print axioms TT.C01.toTTM_WF
#print axioms TT.C01.toTTM_modes
#print axioms TT.C01.roundTTM_toTTM_exact
