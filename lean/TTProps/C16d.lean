import TTProps.C16b
import TTProps.C16c
import TTProps.C03
import Mathlib.Algebra.Order.Ring.Defs
import Mathlib.Algebra.Order.BigOperators.Group.Finset

/-!
# C16d — `riemannian_projection(x, ·)` is an ORTHOGONAL projector (`torchtt/manifold.py`)

Model: `TTModel/Manifold.lean` (`project ls rs zs = delta2cores ls rs (projSds ls rs zs)`), `ls` the
left-orthonormal gauge of the base point `x`, `rs` its right-orthonormal gauge.  Everything is over an
arbitrary commutative ring, for every order `d ≥ 2`, all mode sizes, all rank profiles of `x` and
arbitrary ranks of the projected trains `z`, `w`.  `inner ms ns xs ys` is the Frobenius inner product
of `TTProps/C16b.lean`; below `M = modesM ls`, `N = modesN ls` (the index box of `x`).

This file only *assembles* the three pillars already proved:
`project_add` / `project_smul` (linearity, `TTProps/C16.lean`), `proj_selfadjoint` (`TTProps/C16b.lean`,
no orthogonality needed) and `proj_idempotent` (`TTProps/C16c.lean`, needs the two gauges orthonormal).

Results:

1. `inner_congr_left`, `inner_congr_right`, `inner_comm`, `inner_sub_left`, `inner_sub_right`,
   `inner_add_left`: the pairing only sees the dense tensors, and is bilinear / symmetric with respect
   to the TT-level `add` / `sub` of `TTModel/Algebra.lean`.
2. `proj_inner_idem` : `⟨P(P z), w⟩ = ⟨P z, w⟩`.
3. `proj_residual_orthogonal` : `⟨z, P w⟩ − ⟨P z, P w⟩ = 0`, and `proj_residual_orthogonal_sub`, the
   same with the TT-level residual train: `⟨z − P z, P w⟩ = 0` (`sub zs (project ls rs zs)`).
4. `proj_inner_self` : `⟨P z, P z⟩ = ⟨z, P z⟩`; `proj_pythagoras` : `⟨z − P z, z − P z⟩ = ⟨z,z⟩ − ⟨P z,P z⟩`;
   `proj_norm_le` (ordered ring): `⟨P z, P z⟩ ≤ ⟨z, z⟩` — the projection is a contraction.
5. `proj_orthogonal_projector` : the bundle (additive, homogeneous, idempotent, self-adjoint,
   residual orthogonal to the range, fixes the base point) under ONE hypothesis set.

All helper names carry the prefix `ro_`.
-/

namespace TT.C16
open TT TT.Kern TT.Manifold Finset
variable {α : Type} [CommRing α]

/-! ### (1) the pairing `inner` only sees the dense tensors; bilinearity -/

omit [CommRing α] in
theorem ro_length_modesM (ls : List (Core α)) : (modesM ls).length = ls.length := by
  simp [modesM]

omit [CommRing α] in
theorem ro_length_modesN (ls : List (Core α)) : (modesN ls).length = ls.length := by
  simp [modesN]

theorem ro_zip_length (is js : List Nat) (d : Nat) (hi : is.length = d) (hj : js.length = d) :
    (is.zip js).length = d := by
  rw [List.length_zip, hi, hj, Nat.min_self]

/-- pointwise congruence of `inner` over the visited multi-indices (all of length `d`) -/
theorem ro_inner_congr (ms ns : List Nat) (d : Nat) (hm : ms.length = d) (hn : ns.length = d)
    (xs ys xs' ys' : List (Core α))
    (h : ∀ ij : List (Nat × Nat), ij.length = d →
      full xs ij * full ys ij = full xs' ij * full ys' ij) :
    inner ms ns xs ys = inner ms ns xs' ys' := by
  unfold inner
  apply sumIdx_congr_len; intro is his
  apply sumIdx_congr_len; intro js hjs
  exact h _ (ro_zip_length is js d (by omega) (by omega))

/-- **congruence on the left**: `inner` depends on its first argument only through the dense tensor
    `full xs` at multi-indices of the order `d` of the index box -/
theorem inner_congr_left (ms ns : List Nat) (d : Nat) (hm : ms.length = d) (hn : ns.length = d)
    (xs xs' ys : List (Core α))
    (h : ∀ ij : List (Nat × Nat), ij.length = d → full xs ij = full xs' ij) :
    inner ms ns xs ys = inner ms ns xs' ys :=
  ro_inner_congr ms ns d hm hn xs ys xs' ys (fun ij hij => by rw [h ij hij])

/-- **congruence on the right** -/
theorem inner_congr_right (ms ns : List Nat) (d : Nat) (hm : ms.length = d) (hn : ns.length = d)
    (xs ys ys' : List (Core α))
    (h : ∀ ij : List (Nat × Nat), ij.length = d → full ys ij = full ys' ij) :
    inner ms ns xs ys = inner ms ns xs ys' :=
  ro_inner_congr ms ns d hm hn xs ys xs ys' (fun ij hij => by rw [h ij hij])

/-- `inner` is symmetric -/
theorem inner_comm (ms ns : List Nat) (xs ys : List (Core α)) :
    inner ms ns xs ys = inner ms ns ys xs := by
  unfold inner
  apply sw_sumIdx_congr; intro is
  apply sw_sumIdx_congr; intro js
  ring

theorem ro_sumIdx_sub_fn (ns : List Nat) (f g : List Nat → α) :
    sumIdx ns (fun ks => f ks - g ks) = sumIdx ns f - sumIdx ns g := by
  have e : sumIdx ns (fun ks => f ks - g ks) = sumIdx ns (fun ks => f ks + (-1) * g ks) := by
    apply sw_sumIdx_congr; intro ks; ring
  rw [e, sumIdx_add_fn, sumIdx_mul_left]
  ring

/-- `inner` is additive on the left when the pointwise values add -/
theorem ro_inner_add_of (ms ns : List Nat) (d : Nat) (hm : ms.length = d) (hn : ns.length = d)
    (us xs ys ws : List (Core α))
    (h : ∀ ij : List (Nat × Nat), ij.length = d → full us ij = full xs ij + full ys ij) :
    inner ms ns us ws = inner ms ns xs ws + inner ms ns ys ws := by
  unfold inner
  rw [← sumIdx_add_fn]
  apply sumIdx_congr_len; intro is his
  rw [← sumIdx_add_fn]
  apply sumIdx_congr_len; intro js hjs
  rw [h _ (ro_zip_length is js d (by omega) (by omega))]
  ring

/-- `inner` is subtractive on the left when the pointwise values subtract -/
theorem ro_inner_sub_of (ms ns : List Nat) (d : Nat) (hm : ms.length = d) (hn : ns.length = d)
    (us xs ys ws : List (Core α))
    (h : ∀ ij : List (Nat × Nat), ij.length = d → full us ij = full xs ij - full ys ij) :
    inner ms ns us ws = inner ms ns xs ws - inner ms ns ys ws := by
  unfold inner
  rw [← ro_sumIdx_sub_fn]
  apply sumIdx_congr_len; intro is his
  rw [← ro_sumIdx_sub_fn]
  apply sumIdx_congr_len; intro js hjs
  rw [h _ (ro_zip_length is js d (by omega) (by omega))]
  ring

/-- `inner` is homogeneous on the left when the pointwise values scale -/
theorem ro_inner_smul_of (c : α) (ms ns : List Nat) (d : Nat) (hm : ms.length = d)
    (hn : ns.length = d) (us xs ws : List (Core α))
    (h : ∀ ij : List (Nat × Nat), ij.length = d → full us ij = c * full xs ij) :
    inner ms ns us ws = c * inner ms ns xs ws := by
  unfold inner
  rw [← sumIdx_mul_left]
  apply sumIdx_congr_len; intro is his
  rw [← sumIdx_mul_left]
  apply sumIdx_congr_len; intro js hjs
  rw [h _ (ro_zip_length is js d (by omega) (by omega))]
  ring

/-- **additivity in the first argument** for the TT-level sum `add` (`TT.__add__`) -/
theorem inner_add_left (ms ns : List Nat) (xs ys ws : List (Core α))
    (hx : WF xs 1) (hy : WF ys 1) (hlen : xs.length = ys.length) (hne : xs ≠ [])
    (hm : ms.length = xs.length) (hn : ns.length = xs.length) :
    inner ms ns (add xs ys) ws = inner ms ns xs ws + inner ms ns ys ws :=
  ro_inner_add_of ms ns xs.length hm hn _ xs ys ws
    (fun ij hij => C03.full_add xs ys ij hx hy hlen hij hne)

/-- **subtractivity in the first argument** for the TT-level difference `sub` (`TT.__sub__`) -/
theorem inner_sub_left (ms ns : List Nat) (xs ys ws : List (Core α))
    (hx : WF xs 1) (hy : WF ys 1) (hlen : xs.length = ys.length) (hne : xs ≠ [])
    (hm : ms.length = xs.length) (hn : ns.length = xs.length) :
    inner ms ns (sub xs ys) ws = inner ms ns xs ws - inner ms ns ys ws :=
  ro_inner_sub_of ms ns xs.length hm hn _ xs ys ws
    (fun ij hij => C03.full_sub xs ys ij hx hy hlen hij hne)

/-- … and in the second argument -/
theorem inner_sub_right (ms ns : List Nat) (ws xs ys : List (Core α))
    (hx : WF xs 1) (hy : WF ys 1) (hlen : xs.length = ys.length) (hne : xs ≠ [])
    (hm : ms.length = xs.length) (hn : ns.length = xs.length) :
    inner ms ns ws (sub xs ys) = inner ms ns ws xs - inner ms ns ws ys := by
  rw [inner_comm ms ns ws (sub xs ys), inner_comm ms ns ws xs, inner_comm ms ns ws ys]
  exact inner_sub_left ms ns xs ys ws hx hy hlen hne hm hn

/-! ### length / well-formedness of the projection -/

theorem length_project (ls rs zs : List (Core α)) (hs : SameRanks ls rs ls 1) (hz : WF zs 1)
    (hlz : zs.length = ls.length) (h2 : 2 ≤ ls.length) :
    (project ls rs zs).length = ls.length :=
  length_delta2cores ls rs _ (SameRanks_projSds ls rs zs hs hz hlz (by intro h; simp [h] at h2)) h2

/-! ### (2) idempotence under the pairing -/

/-- **`⟨P(P z), w⟩ = ⟨P z, w⟩`** for every train `w` (no hypothesis on `w`) -/
theorem proj_inner_idem (ls rs zs ws : List (Core α))
    (hs : SameRanks ls rs ls 1) (hz : WF zs 1) (hlz : zs.length = ls.length)
    (hl : LeftOrthInit ls) (hr : RightOrthTail rs) (h2 : 2 ≤ ls.length) :
    inner (modesM ls) (modesN ls) (project ls rs (project ls rs zs)) ws =
      inner (modesM ls) (modesN ls) (project ls rs zs) ws :=
  inner_congr_left _ _ ls.length (ro_length_modesM ls) (ro_length_modesN ls) _ _ ws
    (fun ij hij => proj_idempotent ls rs zs ij hs hz hlz hl hr h2 hij)

/-- the same in the second slot: `⟨w, P(P z)⟩ = ⟨w, P z⟩` -/
theorem proj_inner_idem_right (ls rs zs ws : List (Core α))
    (hs : SameRanks ls rs ls 1) (hz : WF zs 1) (hlz : zs.length = ls.length)
    (hl : LeftOrthInit ls) (hr : RightOrthTail rs) (h2 : 2 ≤ ls.length) :
    inner (modesM ls) (modesN ls) ws (project ls rs (project ls rs zs)) =
      inner (modesM ls) (modesN ls) ws (project ls rs zs) :=
  inner_congr_right _ _ ls.length (ro_length_modesM ls) (ro_length_modesN ls) ws _ _
    (fun ij hij => proj_idempotent ls rs zs ij hs hz hlz hl hr h2 hij)

/-! ### (3) the residual is orthogonal to the range -/

/-- `⟨P z, P w⟩ = ⟨z, P w⟩` (self-adjointness applied to `z` and `P w`, then idempotence) -/
theorem ro_inner_PP (ls rs zs ws : List (Core α))
    (hs : SameRanks ls rs ls 1) (hm : SameModes ls rs) (hz : WF zs 1) (hw : WF ws 1)
    (hlz : zs.length = ls.length) (hlw : ws.length = ls.length)
    (hl : LeftOrthInit ls) (hr : RightOrthTail rs) (h2 : 2 ≤ ls.length) :
    inner (modesM ls) (modesN ls) (project ls rs zs) (project ls rs ws) =
      inner (modesM ls) (modesN ls) zs (project ls rs ws) := by
  rw [proj_selfadjoint ls rs zs (project ls rs ws) hs hm hz (WF_project ls rs ws hs hw hlw h2) hlz
    (length_project ls rs ws hs hw hlw h2) h2]
  exact proj_inner_idem_right ls rs ws zs hs hw hlw hl hr h2

/-- **the residual of the Riemannian projection is orthogonal to its range**:
    `⟨z, P w⟩ − ⟨P z, P w⟩ = 0`, i.e. `⟨z − P z, P w⟩ = 0`, for all well-formed trains `z`, `w` of the
    order of `x` (any ranks). -/
theorem proj_residual_orthogonal (ls rs zs ws : List (Core α))
    (hs : SameRanks ls rs ls 1) (hm : SameModes ls rs) (hz : WF zs 1) (hw : WF ws 1)
    (hlz : zs.length = ls.length) (hlw : ws.length = ls.length)
    (hl : LeftOrthInit ls) (hr : RightOrthTail rs) (h2 : 2 ≤ ls.length) :
    inner (modesM ls) (modesN ls) zs (project ls rs ws) -
      inner (modesM ls) (modesN ls) (project ls rs zs) (project ls rs ws) = 0 := by
  rw [ro_inner_PP ls rs zs ws hs hm hz hw hlz hlw hl hr h2, sub_self]

/-- the same statement for the actual residual train `z − P z` built with the TT-level subtraction
    (`TT.__sub__`, model `sub`): `⟨z − P z, P w⟩ = 0` -/
theorem proj_residual_orthogonal_sub (ls rs zs ws : List (Core α))
    (hs : SameRanks ls rs ls 1) (hm : SameModes ls rs) (hz : WF zs 1) (hw : WF ws 1)
    (hlz : zs.length = ls.length) (hlw : ws.length = ls.length)
    (hl : LeftOrthInit ls) (hr : RightOrthTail rs) (h2 : 2 ≤ ls.length) :
    inner (modesM ls) (modesN ls) (sub zs (project ls rs zs)) (project ls rs ws) = 0 := by
  have hne : zs ≠ [] := by intro h; rw [h] at hlz; simp at hlz; omega
  rw [inner_sub_left _ _ zs (project ls rs zs) _ hz (WF_project ls rs zs hs hz hlz h2)
    (by rw [length_project ls rs zs hs hz hlz h2, hlz]) hne
    (by rw [ro_length_modesM, hlz]) (by rw [ro_length_modesN, hlz])]
  exact proj_residual_orthogonal ls rs zs ws hs hm hz hw hlz hlw hl hr h2

/-! ### (4) Pythagoras -/

/-- `⟨P z, P z⟩ = ⟨z, P z⟩` -/
theorem proj_inner_self (ls rs zs : List (Core α))
    (hs : SameRanks ls rs ls 1) (hm : SameModes ls rs) (hz : WF zs 1)
    (hlz : zs.length = ls.length)
    (hl : LeftOrthInit ls) (hr : RightOrthTail rs) (h2 : 2 ≤ ls.length) :
    inner (modesM ls) (modesN ls) (project ls rs zs) (project ls rs zs) =
      inner (modesM ls) (modesN ls) zs (project ls rs zs) :=
  ro_inner_PP ls rs zs zs hs hm hz hz hlz hlz hl hr h2

/-- **Pythagoras**: `‖z − P z‖² = ‖z‖² − ‖P z‖²` -/
theorem proj_pythagoras (ls rs zs : List (Core α))
    (hs : SameRanks ls rs ls 1) (hm : SameModes ls rs) (hz : WF zs 1)
    (hlz : zs.length = ls.length)
    (hl : LeftOrthInit ls) (hr : RightOrthTail rs) (h2 : 2 ≤ ls.length) :
    inner (modesM ls) (modesN ls) (sub zs (project ls rs zs)) (sub zs (project ls rs zs)) =
      inner (modesM ls) (modesN ls) zs zs -
        inner (modesM ls) (modesN ls) (project ls rs zs) (project ls rs zs) := by
  have hne : zs ≠ [] := by intro h; rw [h] at hlz; simp at hlz; omega
  have hP := WF_project ls rs zs hs hz hlz h2
  have hlen : zs.length = (project ls rs zs).length := by
    rw [length_project ls rs zs hs hz hlz h2, hlz]
  have hM : (modesM ls).length = zs.length := by rw [ro_length_modesM, hlz]
  have hN : (modesN ls).length = zs.length := by rw [ro_length_modesN, hlz]
  rw [inner_sub_right _ _ _ zs (project ls rs zs) hz hP hlen hne hM hN,
    proj_residual_orthogonal_sub ls rs zs zs hs hm hz hz hlz hlz hl hr h2,
    inner_sub_left _ _ zs (project ls rs zs) zs hz hP hlen hne hM hN,
    inner_comm _ _ (project ls rs zs) zs,
    proj_inner_self ls rs zs hs hm hz hlz hl hr h2]
  ring

section Ordered
variable {β : Type} [CommRing β] [LinearOrder β] [IsStrictOrderedRing β]

theorem ro_sumTo_nonneg (n : Nat) (f : Nat → β) (h : ∀ k, 0 ≤ f k) : 0 ≤ sumTo n f := by
  rw [sumTo_eq_sum]
  exact Finset.sum_nonneg (fun k _ => h k)

theorem ro_sumIdx_nonneg (ns : List Nat) : ∀ (f : List Nat → β), (∀ ks, 0 ≤ f ks) →
    0 ≤ sumIdx ns f := by
  induction ns with
  | nil => intro f h; exact h []
  | cons n ns ih =>
    intro f h
    rw [sumIdx_cons]
    exact ro_sumTo_nonneg n _ (fun k => ih _ (fun ks => h (k :: ks)))

/-- `⟨x, x⟩ ≥ 0` over an ordered ring -/
theorem inner_self_nonneg (ms ns : List Nat) (xs : List (Core β)) : 0 ≤ inner ms ns xs xs := by
  unfold inner
  exact ro_sumIdx_nonneg ms _ (fun is => ro_sumIdx_nonneg ns _ (fun js => mul_self_nonneg _))

/-- **the Riemannian projection is a contraction**: `‖P z‖² ≤ ‖z‖²` (ordered ring) -/
theorem proj_norm_le (ls rs zs : List (Core β))
    (hs : SameRanks ls rs ls 1) (hm : SameModes ls rs) (hz : WF zs 1)
    (hlz : zs.length = ls.length)
    (hl : LeftOrthInit ls) (hr : RightOrthTail rs) (h2 : 2 ≤ ls.length) :
    inner (modesM ls) (modesN ls) (project ls rs zs) (project ls rs zs) ≤
      inner (modesM ls) (modesN ls) zs zs := by
  have h := inner_self_nonneg (modesM ls) (modesN ls) (sub zs (project ls rs zs))
  rw [proj_pythagoras ls rs zs hs hm hz hlz hl hr h2] at h
  exact sub_nonneg.mp h

end Ordered

/-! ### (5) the bundle -/

/-- **`riemannian_projection(x, ·)` is an orthogonal projector.**  Under ONE hypothesis set on the
    gauges of the base point — common rank profile (`SameRanks ls rs ls 1`), common mode sizes
    (`SameModes ls rs`), `ls` left-orthonormal but for the last core, `rs` right-orthonormal but for the
    first core, order `d ≥ 2` — and for all well-formed trains `z`, `w` of the order of `x` (arbitrary
    ranks), with `P = project ls rs`, `⟨·,·⟩ = inner (modesM ls) (modesN ls)`:

    1. additive: `P (z + w) = P z + P w` entrywise (`project_add`);
    2. homogeneous: `P (c · z) = c · P z` entrywise (`project_smul`);
    3. idempotent: `P (P z) = P z` entrywise (`proj_idempotent`);
    4. self-adjoint: `⟨P z, w⟩ = ⟨z, P w⟩` (`proj_selfadjoint`);
    5. the residual is orthogonal to the range: `⟨z − P z, P w⟩ = 0` (`proj_residual_orthogonal_sub`);
    6. `⟨P z, P z⟩ = ⟨z, P z⟩` and Pythagoras `‖z − P z‖² = ‖z‖² − ‖P z‖²`;
    7. the base point is fixed: `P x = x` entrywise (`proj_fixed`). -/
theorem proj_orthogonal_projector (ls rs zs ws : List (Core α))
    (hs : SameRanks ls rs ls 1) (hm : SameModes ls rs) (hz : WF zs 1) (hw : WF ws 1)
    (hlz : zs.length = ls.length) (hlw : ws.length = ls.length)
    (hl : LeftOrthInit ls) (hr : RightOrthTail rs) (h2 : 2 ≤ ls.length) :
    (∀ ij : List (Nat × Nat), ij.length = ls.length →
      full (project ls rs (add zs ws)) ij = full (project ls rs zs) ij + full (project ls rs ws) ij) ∧
    (∀ (c : α) (ij : List (Nat × Nat)), ij.length = ls.length →
      full (project ls rs (scaleFirst c zs)) ij = c * full (project ls rs zs) ij) ∧
    (∀ ij : List (Nat × Nat), ij.length = ls.length →
      full (project ls rs (project ls rs zs)) ij = full (project ls rs zs) ij) ∧
    inner (modesM ls) (modesN ls) (project ls rs zs) ws =
      inner (modesM ls) (modesN ls) zs (project ls rs ws) ∧
    inner (modesM ls) (modesN ls) (sub zs (project ls rs zs)) (project ls rs ws) = 0 ∧
    inner (modesM ls) (modesN ls) zs (project ls rs ws) -
      inner (modesM ls) (modesN ls) (project ls rs zs) (project ls rs ws) = 0 ∧
    inner (modesM ls) (modesN ls) (project ls rs zs) (project ls rs zs) =
      inner (modesM ls) (modesN ls) zs (project ls rs zs) ∧
    inner (modesM ls) (modesN ls) (sub zs (project ls rs zs)) (sub zs (project ls rs zs)) =
      inner (modesM ls) (modesN ls) zs zs -
        inner (modesM ls) (modesN ls) (project ls rs zs) (project ls rs zs) ∧
    (∀ ij : List (Nat × Nat), ij.length = ls.length → full (project ls rs ls) ij = full ls ij) :=
  ⟨fun ij hij => project_add ls rs zs ws ij hs hz hw hlz hlw h2 hij,
   fun c ij hij => project_smul c ls rs zs ij hs hz hlz h2 hij,
   fun ij hij => proj_idempotent ls rs zs ij hs hz hlz hl hr h2 hij,
   proj_selfadjoint ls rs zs ws hs hm hz hw hlz hlw h2,
   proj_residual_orthogonal_sub ls rs zs ws hs hm hz hw hlz hlw hl hr h2,
   proj_residual_orthogonal ls rs zs ws hs hm hz hw hlz hlw hl hr h2,
   proj_inner_self ls rs zs hs hm hz hlz hl hr h2,
   proj_pythagoras ls rs zs hs hm hz hlz hl hr h2,
   fun ij hij => proj_fixed ls rs ij hs hl h2 hij⟩

/-! ### (6) concrete instances (non-vacuity) -/

section Examples

/-- all hypotheses of `proj_orthogonal_projector` are satisfiable: order 3, base point of ranks
    `(1,2,2,1)` with gauges `[L0, L1, L2]` (left-orthonormal) and `[R0, idm_R1, idm_R2]`
    (right-orthonormal tail) of mode sizes `2 × 1`, `z` of ranks `(1,3,1,1)`, `w` of ranks `(1,1,2,1)` -/
theorem ro_ex_hyps : SameRanks [L0, L1, L2] [R0, idm_R1, idm_R2] [L0, L1, L2] 1 ∧
    SameModes [L0, L1, L2] [R0, idm_R1, idm_R2] ∧ WF [Z0, Z1, Z2] 1 ∧ WF [W0, W1, W2] 1 ∧
    [Z0, Z1, Z2].length = [L0, L1, L2].length ∧ [W0, W1, W2].length = [L0, L1, L2].length ∧
    LeftOrthInit [L0, L1, L2] ∧ RightOrthTail [R0, idm_R1, idm_R2] ∧ 2 ≤ [L0, L1, L2].length :=
  ⟨idm_ex_hyps.1, by simp [SameModes, L0, L1, L2, R0, idm_R1, idm_R2], idm_ex_hyps.2.1,
    by simp [WF, W0, W1, W2], rfl, rfl, idm_ex_hyps.2.2.2.1, idm_ex_hyps.2.2.2.2.1,
    idm_ex_hyps.2.2.2.2.2⟩

/-- … hence the residual orthogonality applies to these cores -/
example : inner (modesM [L0, L1, L2]) (modesN [L0, L1, L2])
      (sub [Z0, Z1, Z2] (project [L0, L1, L2] [R0, idm_R1, idm_R2] [Z0, Z1, Z2]))
      (project [L0, L1, L2] [R0, idm_R1, idm_R2] [W0, W1, W2]) = 0 :=
  proj_residual_orthogonal_sub _ _ _ _ ro_ex_hyps.1 ro_ex_hyps.2.1 ro_ex_hyps.2.2.1 ro_ex_hyps.2.2.2.1
    ro_ex_hyps.2.2.2.2.1 ro_ex_hyps.2.2.2.2.2.1 ro_ex_hyps.2.2.2.2.2.2.1 ro_ex_hyps.2.2.2.2.2.2.2.1
    ro_ex_hyps.2.2.2.2.2.2.2.2

/-- … and the contraction property (over the ordered ring `Int`) -/
example : inner (modesM [L0, L1, L2]) (modesN [L0, L1, L2])
      (project [L0, L1, L2] [R0, idm_R1, idm_R2] [Z0, Z1, Z2])
      (project [L0, L1, L2] [R0, idm_R1, idm_R2] [Z0, Z1, Z2]) ≤
    inner (modesM [L0, L1, L2]) (modesN [L0, L1, L2]) [Z0, Z1, Z2] [Z0, Z1, Z2] :=
  proj_norm_le _ _ _ ro_ex_hyps.1 ro_ex_hyps.2.1 ro_ex_hyps.2.2.1 ro_ex_hyps.2.2.2.2.1
    ro_ex_hyps.2.2.2.2.2.2.1 ro_ex_hyps.2.2.2.2.2.2.2.1 ro_ex_hyps.2.2.2.2.2.2.2.2

/-! On the cores above the tangent space is everything (a `2×2×2` tensor of TT ranks `(2,2)` is generic),
    so `P = id` there.  A base point with a proper tangent space: `x = e₀ ⊗ e₁ ⊗ 3e₀` (ranks `(1,1,1,1)`,
    tangent space of dimension 4 in the 8-dimensional ambient space), with its two genuine gauges
    `ls = [e₀, e₁, 3e₀]` (left-orthonormal) and `rs = [3e₀, e₁, e₀]` (right-orthonormal). -/

def ro_A0 : Core Int := ⟨1, 2, 1, 1, fun _ i _ _ => if i = 0 then 1 else 0⟩
def ro_A1 : Core Int := ⟨1, 2, 1, 1, fun _ i _ _ => if i = 1 then 1 else 0⟩
def ro_A2 : Core Int := ⟨1, 2, 1, 1, fun _ i _ _ => if i = 0 then 3 else 0⟩

/-- the two gauges represent the same tensor `x` -/
example : ∀ i < 2, ∀ j < 2, ∀ k < 2,
    full [ro_A0, ro_A1, ro_A2] [(i, 0), (j, 0), (k, 0)] =
      full [ro_A2, ro_A1, ro_A0] [(i, 0), (j, 0), (k, 0)] := by decide

/-- all hypotheses of `proj_orthogonal_projector` hold for this base point and the trains `z`, `w` of
    `TTProps/C16.lean` (ranks `(1,3,1,1)` and `(1,1,2,1)`, different from those of `x`) -/
theorem ro_ex_hyps2 : SameRanks [ro_A0, ro_A1, ro_A2] [ro_A2, ro_A1, ro_A0] [ro_A0, ro_A1, ro_A2] 1 ∧
    SameModes [ro_A0, ro_A1, ro_A2] [ro_A2, ro_A1, ro_A0] ∧ WF [Z0, Z1, Z2] 1 ∧ WF [W0, W1, W2] 1 ∧
    [Z0, Z1, Z2].length = [ro_A0, ro_A1, ro_A2].length ∧
    [W0, W1, W2].length = [ro_A0, ro_A1, ro_A2].length ∧
    LeftOrthInit [ro_A0, ro_A1, ro_A2] ∧ RightOrthTail [ro_A2, ro_A1, ro_A0] ∧
    2 ≤ [ro_A0, ro_A1, ro_A2].length := by
  refine ⟨by simp [SameRanks, ro_A0, ro_A1, ro_A2], by simp [SameModes, ro_A0, ro_A1, ro_A2],
    by simp [WF, Z0, Z1, Z2], by simp [WF, W0, W1, W2], rfl, rfl, ⟨?_, ?_, trivial⟩,
    ⟨?_, ?_, trivial⟩, by simp⟩
  · intro b b' hb hb'
    change b < 1 at hb; change b' < 1 at hb'
    interval_cases b; interval_cases b'; decide
  · intro b b' hb hb'
    change b < 1 at hb; change b' < 1 at hb'
    interval_cases b; interval_cases b'; decide
  · intro a a' ha ha'
    change a < 1 at ha; change a' < 1 at ha'
    interval_cases a; interval_cases a'; decide
  · intro a a' ha ha'
    change a < 1 at ha; change a' < 1 at ha'
    interval_cases a; interval_cases a'; decide

/-- numeric check of the residual orthogonality: `⟨z, P w⟩ = ⟨P z, P w⟩ = ⟨P z, w⟩ = 241` whereas
    `⟨z, w⟩ = 750` (so `P ≠ id` here), and `⟨z − P z, P w⟩ = 0` for the residual train -/
example :
    inner [2, 2, 2] [1, 1, 1] [Z0, Z1, Z2] (project [ro_A0, ro_A1, ro_A2] [ro_A2, ro_A1, ro_A0] [W0, W1, W2]) -
      inner [2, 2, 2] [1, 1, 1] (project [ro_A0, ro_A1, ro_A2] [ro_A2, ro_A1, ro_A0] [Z0, Z1, Z2])
        (project [ro_A0, ro_A1, ro_A2] [ro_A2, ro_A1, ro_A0] [W0, W1, W2]) = 0 ∧
    inner [2, 2, 2] [1, 1, 1] [Z0, Z1, Z2]
      (project [ro_A0, ro_A1, ro_A2] [ro_A2, ro_A1, ro_A0] [W0, W1, W2]) = 241 ∧
    inner [2, 2, 2] [1, 1, 1] (project [ro_A0, ro_A1, ro_A2] [ro_A2, ro_A1, ro_A0] [Z0, Z1, Z2])
      [W0, W1, W2] = 241 ∧
    inner [2, 2, 2] [1, 1, 1] [Z0, Z1, Z2] [W0, W1, W2] = 750 ∧
    inner [2, 2, 2] [1, 1, 1]
      (sub [Z0, Z1, Z2] (project [ro_A0, ro_A1, ro_A2] [ro_A2, ro_A1, ro_A0] [Z0, Z1, Z2]))
      (project [ro_A0, ro_A1, ro_A2] [ro_A2, ro_A1, ro_A0] [W0, W1, W2]) = 0 := by decide

/-- numeric Pythagoras: `‖P z‖² = ⟨z, P z⟩ = 225`, `‖z − P z‖² = 1585`, `‖z‖² = 1810 = 225 + 1585` -/
example :
    inner [2, 2, 2] [1, 1, 1] (project [ro_A0, ro_A1, ro_A2] [ro_A2, ro_A1, ro_A0] [Z0, Z1, Z2])
      (project [ro_A0, ro_A1, ro_A2] [ro_A2, ro_A1, ro_A0] [Z0, Z1, Z2]) = 225 ∧
    inner [2, 2, 2] [1, 1, 1] [Z0, Z1, Z2]
      (project [ro_A0, ro_A1, ro_A2] [ro_A2, ro_A1, ro_A0] [Z0, Z1, Z2]) = 225 ∧
    inner [2, 2, 2] [1, 1, 1]
      (sub [Z0, Z1, Z2] (project [ro_A0, ro_A1, ro_A2] [ro_A2, ro_A1, ro_A0] [Z0, Z1, Z2]))
      (sub [Z0, Z1, Z2] (project [ro_A0, ro_A1, ro_A2] [ro_A2, ro_A1, ro_A0] [Z0, Z1, Z2])) = 1585 ∧
    inner [2, 2, 2] [1, 1, 1] [Z0, Z1, Z2] [Z0, Z1, Z2] = 1810 := by decide

/-- the bundle applies to this base point -/
example := proj_orthogonal_projector _ _ [Z0, Z1, Z2] [W0, W1, W2] ro_ex_hyps2.1 ro_ex_hyps2.2.1
  ro_ex_hyps2.2.2.1 ro_ex_hyps2.2.2.2.1 ro_ex_hyps2.2.2.2.2.1 ro_ex_hyps2.2.2.2.2.2.1
  ro_ex_hyps2.2.2.2.2.2.2.1 ro_ex_hyps2.2.2.2.2.2.2.2.1 ro_ex_hyps2.2.2.2.2.2.2.2.2

/-- the right-orthonormality hypothesis cannot be dropped: with the non-orthonormal `R1, R2` of
    `TTProps/C16.lean` (same rank profile, same modes) the residual is NOT orthogonal to the range -/
example :
    inner [2, 2, 2] [1, 1, 1] [Z0, Z1, Z2] (project [L0, L1, L2] [R0, R1, R2] [W0, W1, W2]) -
      inner [2, 2, 2] [1, 1, 1] (project [L0, L1, L2] [R0, R1, R2] [Z0, Z1, Z2])
        (project [L0, L1, L2] [R0, R1, R2] [W0, W1, W2]) ≠ 0 := by decide

end Examples

end TT.C16

#print axioms TT.C16.inner_congr_left
#print axioms TT.C16.proj_inner_idem
#print axioms TT.C16.proj_residual_orthogonal
#print axioms TT.C16.proj_residual_orthogonal_sub
#print axioms TT.C16.proj_inner_self
#print axioms TT.C16.proj_pythagoras
#print axioms TT.C16.proj_norm_le
#print axioms TT.C16.proj_orthogonal_projector
