import TTProps.C02b
import TTProps.C07d
import TTProps.C01e

/-!
# C02d — the error identity of the truncating sweep of `round_tt`

Model: `TTModel/Decomp.lean` (`lrOrth`, `roundGo`, `roundTT`), QR and SVD being ORACLE parameters.  C02b proves that the
tensor is unchanged when both oracles reconstruct their input; here the SVD oracle may TRUNCATE.  Its contract
(`RowTruncSVD`) is the pair of algebraic facts that hold for every truncated SVD `M = U S Vᵀ`, `left = U_r S_r`,
`right = V_rᵀ`: (a) the kept rows of `right` are orthonormal, (b) the residual `E = M − left·right` is orthogonal to
them.  It is the transpose of `te_StepOK` of C01e (`re_rowStepOK_iff`).  The QR oracle is orthonormal (`OrthoQR`, C07d).
No order on `α`, no statement about singular values is needed for the identity; real case (`cj = id`).

* `re_pythagoras`  — one step, row form: `‖M − X·right‖² = ‖E‖² + ‖left − X‖²` for every `X`;
* `re_leftOrth_chain` — the open chain of left-orthonormal cores has orthonormal columns;
* `re_go_errSq`    — the loop invariant of `roundGo` (left-orthonormal prefix, current core of any right rank);
* `roundGo_errSq`  — MAIN LEMMA: on a train whose cores but the last are left-orthonormal, `‖ys − sweep ys‖²_F = Σ`
  (energies discarded by the SVD calls), an equality;
* `roundTT_errSq'`, `roundTT_errSq`, `roundTT_errSq_calls` — THEOREM: the same for `round_tt` (QR sweep, then SVD sweep);
* `roundTT_errSq_le`, `roundTT_errSq_le_allowance`, `roundTT_errSq_ge`, `roundTT_errSq_rankChop` — bounds over an
  ordered ring (the last one links to `rankChop_tail` of C01);
* `re_colOracle_trunc` — a genuinely truncating oracle satisfying the contract at every size, `decide`-checked numeric
  instances with non-zero error, and oracles violating the hypotheses for which the identity fails.
All helper names carry the `re_` prefix.
-/

namespace TT.C02
open TT TT.Decomp TT.C01 TT.C07

set_option linter.unusedSectionVars false

/-! ### definitions (executable, generic over the arithmetic) -/
section Defs
variable {α : Type} [Zero α] [One α] [Add α] [Mul α] [Sub α]

/-- contract of ONE truncated-SVD call of the right-to-left sweep on the `rows × cols` matrix `M`:
(a) the kept rows of `right` are orthonormal, (b) the residual `E = M − left·right` is orthogonal to them -/
def re_RowStepOK (rows cols : Nat) (M : Mat α) (f : Fact α) : Prop :=
  (∀ k k', k < f.r → k' < f.r →
      sumTo cols (fun j => f.right k j * f.right k' j) = if k = k' then 1 else 0) ∧
  (∀ k i, k < f.r → i < rows → sumTo cols (fun j => te_resid M f i j * f.right k j) = 0)

/-- contract of a truncating SVD oracle whose `right` factor has orthonormal rows -/
def RowTruncSVD (svd : Oracle α) : Prop :=
  ∀ (rows cols : Nat) (M : Mat α), re_RowStepOK rows cols M (svd rows cols M)

/-- the `r0 × (m·r1)` unfolding read by `roundGo` -/
def re_unf (cur : Core α) : Mat α := fun a q => cur.get a (q / cur.r1) 0 (q % cur.r1)

/-- the core left of `cur` after absorbing `left` (the `pnew` of `roundGo`) -/
def re_pnew (p : Core α) (f : Fact α) : Core α :=
  { r0 := p.r0, m := p.m, n := 1, r1 := f.r
    get := fun a i _ k => sumTo p.r1 (fun t => p.get a i 0 t * f.left t k) }

/-- the new current core (the `cnow` of `roundGo`) -/
def re_cnow (cur : Core α) (f : Fact α) : Core α :=
  { r0 := f.r, m := cur.m, n := 1, r1 := cur.r1, get := fun k i _ b => f.right k (i * cur.r1 + b) }

/-- residual energies `‖E‖²` of the SVD calls of `roundGo svd cur prev acc`, in call order -/
def roundTailEnergies (svd : Oracle α) : Core α → List (Core α) → List α
  | _, [] => []
  | cur, p :: prev =>
    let f := svd cur.r0 (cur.m * cur.r1) (re_unf cur)
    matSq cur.r0 (cur.m * cur.r1) (te_resid (re_unf cur) f) :: roundTailEnergies svd (re_pnew p f) prev

/-- the residual energies of the SVD sweep of `round_tt` applied to the (already orthogonalised) train `ys` -/
def roundEnergies (svd : Oracle α) (ys : List (Core α)) : List α :=
  match ys.reverse with
  | [] => []
  | last :: prev => roundTailEnergies svd last prev

/-- the contract restricted to the SVD calls made by `roundGo svd cur prev acc` -/
def re_CallsOK (svd : Oracle α) : Core α → List (Core α) → Prop
  | _, [] => True
  | cur, p :: prev =>
    let f := svd cur.r0 (cur.m * cur.r1) (re_unf cur)
    re_RowStepOK cur.r0 (cur.m * cur.r1) (re_unf cur) f ∧ re_CallsOK svd (re_pnew p f) prev

/-- the contract restricted to the SVD calls made by the sweep of `round_tt` on the (orthogonalised) train `ys` -/
def re_CallsOKRev (svd : Oracle α) (ys : List (Core α)) : Prop :=
  match ys.reverse with
  | [] => True
  | last :: prev => re_CallsOK svd last prev

/-- transposed factorisation `Mᵀ ≈ rightᵀ · leftᵀ` -/
def re_transpose (f : Fact α) : Fact α :=
  { r := f.r, left := fun j k => f.right k j, right := fun k i => f.left i k }

/-- squared Frobenius distance of two tensor trains on the index box `ns` -/
def errSqTT (ns : List Nat) (xs ys : List (Core α)) : α :=
  sumIdx ns (fun is => (full xs (tIdx is) - full ys (tIdx is)) * (full xs (tIdx is) - full ys (tIdx is)))

/-- a concrete truncating oracle with orthonormal rows of `right`: keep the first `min cols cap` columns,
`M ≈ M[:, :ρ] · I[:ρ, :]` (exact when `cap ≥ cols`) -/
def re_colOracle (cap : Nat) : Oracle α := fun _ cols M =>
  { r := min cols cap, left := fun i k => M i k, right := fun k j => if k = j then 1 else 0 }

end Defs

variable {α : Type} [CommRing α]

/-- one step of the model, written with `re_unf`, `re_pnew`, `re_cnow` (definitional) -/
theorem re_roundGo_step (svd : Oracle α) (cur p : Core α) (prev acc : List (Core α)) :
    roundGo svd cur (p :: prev) acc =
      roundGo svd (re_pnew p (svd cur.r0 (cur.m * cur.r1) (re_unf cur))) prev
        (re_cnow cur (svd cur.r0 (cur.m * cur.r1) (re_unf cur)) :: acc) := rfl

theorem re_roundGo_nil (svd : Oracle α) (cur : Core α) (acc : List (Core α)) :
    roundGo svd cur [] acc = cur :: acc := rfl

/-! ### the contract is the transpose of C01e's -/

theorem re_resid_transpose (M : Mat α) (f : Fact α) (i j : Nat) :
    te_resid (fun j i => M i j) (re_transpose f) j i = te_resid M f i j := by
  unfold te_resid re_transpose
  simp only
  rw [sumTo_congr (fun k _ => mul_comm _ _)]

/-- the row contract is the column contract `te_StepOK` of C01e for the transposed factorisation -/
theorem re_rowStepOK_iff (rows cols : Nat) (M : Mat α) (f : Fact α) :
    re_RowStepOK rows cols M f ↔ te_StepOK cols rows (fun j i => M i j) (re_transpose f) := by
  constructor
  · rintro ⟨h1, h2⟩
    refine ⟨h1, fun k i hk hi => ?_⟩
    rw [← h2 k i hk hi]
    apply sumTo_congr; intro j _
    rw [re_resid_transpose, mul_comm]
    rfl
  · rintro ⟨h1, h2⟩
    refine ⟨h1, fun k i hk hi => ?_⟩
    rw [← h2 k i hk hi]
    apply sumTo_congr; intro j _
    rw [re_resid_transpose, mul_comm]
    rfl

theorem re_callsOK_of_trunc (svd : Oracle α) (h : RowTruncSVD svd) :
    ∀ (prev : List (Core α)) (cur : Core α), re_CallsOK svd cur prev := by
  intro prev
  induction prev with
  | nil => intro _; trivial
  | cons p prev ih => intro cur; exact ⟨h _ _ _, ih _⟩

theorem re_callsOKRev_of_trunc (svd : Oracle α) (h : RowTruncSVD svd) (ys : List (Core α)) :
    re_CallsOKRev svd ys := by
  unfold re_CallsOKRev
  cases ys.reverse with
  | nil => trivial
  | cons last prev => exact re_callsOK_of_trunc svd h prev last

/-! ### one step: Pythagoras, row form -/

/-- row form of `te_col` -/
theorem re_row (cols r : Nat) (R : Mat α) (e y : Nat → α)
    (horth : ∀ k k', k < r → k' < r →
      sumTo cols (fun j => R k j * R k' j) = if k = k' then 1 else 0)
    (hres : ∀ k, k < r → sumTo cols (fun j => e j * R k j) = 0) :
    sumTo cols (fun j => (e j + sumTo r (fun k => R k j * y k)) * (e j + sumTo r (fun k => R k j * y k)))
      = sumTo cols (fun j => e j * e j) + sumTo r (fun k => y k * y k) :=
  te_col cols r (fun j k => R k j) e y horth
    (fun k hk => by rw [← hres k hk]; exact sumTo_congr (fun j _ => mul_comm _ _))

/-- one row of the step: `g` are the coefficients of the row in the basis of the rows of `M`, `x` the
coefficients of the approximation in the basis of the kept rows -/
theorem re_row_resid (rows cols : Nat) (M : Mat α) (f : Fact α) (h : re_RowStepOK rows cols M f)
    (g x : Nat → α) :
    sumTo cols (fun q =>
        (sumTo rows (fun s => g s * M s q) - sumTo f.r (fun k => x k * f.right k q)) *
        (sumTo rows (fun s => g s * M s q) - sumTo f.r (fun k => x k * f.right k q)))
      = sumTo cols (fun q => sumTo rows (fun s => g s * te_resid M f s q) *
            sumTo rows (fun s => g s * te_resid M f s q))
        + sumTo f.r (fun k => (sumTo rows (fun s => g s * f.left s k) - x k) *
            (sumTo rows (fun s => g s * f.left s k) - x k)) := by
  rw [← re_row cols f.r f.right (fun q => sumTo rows (fun s => g s * te_resid M f s q))
    (fun k => sumTo rows (fun s => g s * f.left s k) - x k) h.1 ?_]
  · apply sumTo_congr; intro q _
    have e : sumTo rows (fun s => g s * M s q) - sumTo f.r (fun k => x k * f.right k q)
        = sumTo rows (fun s => g s * te_resid M f s q)
          + sumTo f.r (fun k => f.right k q * (sumTo rows (fun s => g s * f.left s k) - x k)) := by
      unfold te_resid
      simp only [mul_sub, te_sumTo_sub]
      have sw : sumTo rows (fun s => g s * sumTo f.r (fun k => f.left s k * f.right k q))
          = sumTo f.r (fun k => f.right k q * sumTo rows (fun s => g s * f.left s k)) := by
        simp only [sumTo_eq_sum, Finset.mul_sum]
        rw [Finset.sum_comm]
        apply Finset.sum_congr rfl; intro k _
        apply Finset.sum_congr rfl; intro s _
        ring
      rw [sw, sumTo_congr (f := fun k => f.right k q * x k) (g := fun k => x k * f.right k q)
        (fun k _ => mul_comm _ _)]
      ring
    rw [e]
  · intro k hk
    have : sumTo cols (fun j => sumTo rows (fun s => g s * te_resid M f s j) * f.right k j)
        = sumTo rows (fun s => g s * sumTo cols (fun j => te_resid M f s j * f.right k j)) := by
      simp only [sumTo_eq_sum, Finset.mul_sum, Finset.sum_mul]
      rw [Finset.sum_comm]
      apply Finset.sum_congr rfl; intro s _
      apply Finset.sum_congr rfl; intro j _
      ring
    rw [this]
    apply sumTo_eq_zero; intro s hs
    rw [h.2 k s hk hs, mul_zero]

/-- **Pythagoras for one truncated-SVD step, row form**: for every `rows × f.r` matrix `X`,
`‖M − X·right‖² = ‖E‖² + ‖left − X‖²` with `E = M − left·right`. -/
theorem re_pythagoras (rows cols : Nat) (M : Mat α) (f : Fact α) (h : re_RowStepOK rows cols M f)
    (X : Mat α) :
    matSq rows cols (fun i j => M i j - sumTo f.r (fun k => X i k * f.right k j))
      = matSq rows cols (te_resid M f) + matSq rows f.r (fun i k => f.left i k - X i k) := by
  unfold matSq
  rw [← sumTo_add_fn]
  apply sumTo_congr; intro i hi
  have := re_row_resid rows cols M f h (fun s => if s = i then 1 else 0) (fun k => X i k)
  have pick : ∀ (F : Nat → α), sumTo rows (fun s => (if s = i then 1 else 0) * F s) = F i := by
    intro F
    rw [sumTo_single i hi]
    · simp
    · intro s _ hne; simp [hne]
  simp only [pick] at this
  exact this

/-! ### lists: `snoc` forms of `sumIdx`, `chain`, rank chaining -/

theorem re_sumIdx_snoc (ns : List Nat) (n : Nat) (F : List Nat → α) :
    sumIdx (ns ++ [n]) F = sumIdx ns (fun is => sumTo n (fun i => F (is ++ [i]))) := by
  induction ns generalizing F with
  | nil => rfl
  | cons m ms ih =>
    simp only [List.cons_append, sumIdx_cons]
    apply sumTo_congr; intro k _
    exact ih (fun ks => F (k :: ks))

theorem re_tIdx_snoc (is : List Nat) (i : Nat) : tIdx (is ++ [i]) = tIdx is ++ [(i, 0)] := by
  simp [tIdx]

theorem re_modesM_snoc (xs : List (Core α)) (c : Core α) : modesM (xs ++ [c]) = modesM xs ++ [c.m] := by
  simp [modesM]

theorem re_WFto_snoc (xs : List (Core α)) (c : Core α) (r0 r : Nat) :
    dc_WFto (xs ++ [c]) r0 r ↔ dc_WFto xs r0 c.r0 ∧ c.r1 = r := by
  induction xs generalizing r0 with
  | nil =>
    simp only [List.nil_append, dc_WFto]
    constructor
    · rintro ⟨h1, h2⟩; exact ⟨h1.symm, h2⟩
    · rintro ⟨h1, h2⟩; exact ⟨h1.symm, h2⟩
  | cons x xs ih => simp only [List.cons_append, dc_WFto, ih, and_assoc]

theorem re_chain_nil (ij : List (Nat × Nat)) (a b : Nat) :
    chain ([] : List (Core α)) ij a b = if a = b then 1 else 0 := by
  cases ij <;> rfl

/-- the last core of a chain with an open right index -/
theorem re_chain_snoc (c : Core α) (i b : Nat) (hb : b < c.r1) :
    ∀ (xs : List (Core α)) (is : List Nat), is.length = xs.length → ∀ r0 a, dc_WFto xs r0 c.r0 → a < r0 →
      chain (xs ++ [c]) (tIdx (is ++ [i])) a b
        = sumTo c.r0 (fun s => chain xs (tIdx is) a s * c.get s i 0 b) := by
  intro xs
  induction xs with
  | nil =>
    intro is hlen r0 a hwf ha
    have : is = [] := by cases is with
      | nil => rfl
      | cons _ _ => simp at hlen
    subst this
    have hr : r0 = c.r0 := hwf
    subst hr
    simp only [List.nil_append, tIdx, List.map_cons, List.map_nil, chain]
    rw [sumTo_single b hb, sumTo_single a ha]
    · simp
    · intro s _ hne
      have : ¬ (a = s) := fun e => hne e.symm
      simp [this]
    · intro k _ hne; simp [hne]
  | cons x xs ih =>
    intro is hlen r0 a hwf ha
    cases is with
    | nil => simp at hlen
    | cons j is' =>
      simp only [List.cons_append, dc_tIdx_cons, chain]
      rw [sumTo_congr (g := fun k => x.get a j 0 k *
            sumTo c.r0 (fun s => chain xs (tIdx is') k s * c.get s i 0 b))
          (fun k hk => by rw [ih is' (by simpa using hlen) x.r1 k hwf.2 hk])]
      exact dc_sumTo_assoc x.r1 c.r0 (fun k => x.get a j 0 k) (fun k s => chain xs (tIdx is') k s)
        (fun s => c.get s i 0 b)

/-! ### structure of `roundGo` -/

theorem re_roundGo_acc (svd : Oracle α) :
    ∀ (prev : List (Core α)) (cur : Core α) (acc : List (Core α)),
      roundGo svd cur prev acc = roundGo svd cur prev [] ++ acc := by
  intro prev
  induction prev with
  | nil => intro cur acc; rfl
  | cons p prev ih =>
    intro cur acc
    rw [re_roundGo_step, re_roundGo_step, ih _ (_ :: acc), ih _ [_]]
    simp

theorem re_roundGo_cons (svd : Oracle α) (cur p : Core α) (prev : List (Core α)) :
    roundGo svd cur (p :: prev) [] =
      roundGo svd (re_pnew p (svd cur.r0 (cur.m * cur.r1) (re_unf cur))) prev []
        ++ [re_cnow cur (svd cur.r0 (cur.m * cur.r1) (re_unf cur))] := by
  rw [re_roundGo_step, re_roundGo_acc]

theorem re_roundGo_length (svd : Oracle α) :
    ∀ (prev : List (Core α)) (cur : Core α), (roundGo svd cur prev []).length = prev.length + 1 := by
  intro prev
  induction prev with
  | nil => intro cur; rfl
  | cons p prev ih => intro cur; rw [re_roundGo_cons, List.length_append, ih]; rfl

theorem re_roundGo_WFto (svd : Oracle α) :
    ∀ (prev : List (Core α)) (cur : Core α) (r0 : Nat), dc_WFto prev.reverse r0 cur.r0 →
      dc_WFto (roundGo svd cur prev []) r0 cur.r1 := by
  intro prev
  induction prev with
  | nil =>
    intro cur r0 h
    have h' : r0 = cur.r0 := h
    exact ⟨h'.symm, rfl⟩
  | cons p prev ih =>
    intro cur r0 h
    rw [List.reverse_cons, re_WFto_snoc] at h
    rw [re_roundGo_cons, re_WFto_snoc]
    exact ⟨ih _ r0 h.1, rfl⟩

/-! ### isometries -/

/-- a family of vectors `A · s` (indexed by a multi-index) with orthonormal "columns" is an isometry -/
theorem re_iso (ns : List Nat) (A : List Nat → Nat → α) (n : Nat)
    (horth : ∀ s s', s < n → s' < n →
      sumIdx ns (fun is => A is s * A is s') = if s = s' then 1 else 0) (v : Nat → α) :
    sumIdx ns (fun is => sumTo n (fun s => A is s * v s) * sumTo n (fun s => A is s * v s))
      = sumTo n (fun s => v s * v s) := by
  have e : ∀ is, sumTo n (fun s => A is s * v s) * sumTo n (fun s => A is s * v s)
      = sumTo n (fun s => sumTo n (fun s' => (v s * v s') * (A is s * A is s'))) := by
    intro is
    rw [sumTo_mul_sumTo]
    exact sumTo_congr (fun s _ => sumTo_congr (fun s' _ => by ring))
  rw [sw_sumIdx_congr ns e, sw_sumIdx_sumTo]
  apply sumTo_congr; intro s hs
  rw [sw_sumIdx_sumTo, sumTo_single s hs]
  · rw [sw_sumIdx_mul_left, horth s s hs hs]; simp
  · intro s' hs' hne
    rw [sw_sumIdx_mul_left, horth s s' hs hs']
    simp [Ne.symm hne]

/-- **the open chain of left-orthonormal cores has orthonormal columns**: for a train `xs` whose ranks chain from
`r0` to `r`, `Σ_{a<r0} Σ_is chain xs is a s · chain xs is a s' = δ_{ss'}` -/
theorem re_leftOrth_chain :
    ∀ (xs : List (Core α)), (∀ c ∈ xs, nq_LeftOrthT id c) → ∀ (r0 r : Nat), dc_WFto xs r0 r →
    ∀ s s', s < r → s' < r →
      sumTo r0 (fun a => sumIdx (modesM xs) (fun is => chain xs (tIdx is) a s * chain xs (tIdx is) a s'))
        = if s = s' then 1 else 0 := by
  intro xs
  induction xs with
  | nil =>
    intro _ r0 r hwf s s' hs hs'
    have hr : r0 = r := hwf
    subst hr
    simp only [modesM, List.map_nil, sumIdx_nil, re_chain_nil]
    rw [sumTo_single s hs]
    · simp
    · intro a _ hne; simp [hne]
  | cons c xs ih =>
    intro ho r0 r hwf s s' hs hs'
    obtain ⟨hr0, hwf'⟩ := hwf
    subst hr0
    have hc : nq_LeftOrthT id c := ho c (by simp)
    have ih' := ih (fun x hx => ho x (by simp [hx])) c.r1 r hwf' s s' hs hs'
    simp only [modesM, List.map_cons, sumIdx_cons, dc_tIdx_cons, chain]
    have e : ∀ a i is,
        sumTo c.r1 (fun k => c.get a i 0 k * chain xs (tIdx is) k s) *
        sumTo c.r1 (fun k => c.get a i 0 k * chain xs (tIdx is) k s')
        = sumTo c.r1 (fun k => sumTo c.r1 (fun k' => (c.get a i 0 k * c.get a i 0 k') *
            (chain xs (tIdx is) k s * chain xs (tIdx is) k' s'))) := by
      intro a i is
      rw [sumTo_mul_sumTo]
      exact sumTo_congr (fun k _ => sumTo_congr (fun k' _ => by ring))
    simp only [e]
    have e2 : ∀ a i, sumIdx (List.map (·.m) xs) (fun is => sumTo c.r1 (fun k => sumTo c.r1 (fun k' =>
          (c.get a i 0 k * c.get a i 0 k') * (chain xs (tIdx is) k s * chain xs (tIdx is) k' s'))))
        = sumTo c.r1 (fun k => sumTo c.r1 (fun k' => (c.get a i 0 k * c.get a i 0 k') *
            sumIdx (List.map (·.m) xs) (fun is => chain xs (tIdx is) k s * chain xs (tIdx is) k' s'))) := by
      intro a i
      rw [sw_sumIdx_sumTo]
      apply sumTo_congr; intro k _
      rw [sw_sumIdx_sumTo]
      apply sumTo_congr; intro k' _
      rw [sw_sumIdx_mul_left]
    simp only [e2]
    rw [sumTo_congr (fun a _ => sw_comm2 _ _ _ _), sw_comm2]
    rw [← ih']
    apply sumTo_congr; intro k hk
    rw [sumTo_single k hk]
    · rw [sumTo_congr (fun a _ => sumTo_mul_right _ _ _), sumTo_mul_right]
      have := hc k k hk hk
      simp only [id] at this
      rw [this]; simp [modesM]
    · intro k' hk' hne
      rw [sumTo_congr (fun a _ => sumTo_mul_right _ _ _), sumTo_mul_right]
      have := hc k k' hk hk'
      simp only [id] at this
      rw [this]
      simp [Ne.symm hne]

/-! ### the loop invariant of the truncation sweep -/

/-- replacing the last core `p` by `p · left` multiplies the open chain by `left` -/
theorem re_chain_absorb (p : Core α) (f : Fact α) (k : Nat) (hk : k < f.r) :
    ∀ (xs : List (Core α)) (is : List Nat) (a : Nat), is.length = xs.length + 1 →
      chain (xs ++ [re_pnew p f]) (tIdx is) a k
        = sumTo p.r1 (fun s => chain (xs ++ [p]) (tIdx is) a s * f.left s k) := by
  intro xs
  induction xs with
  | nil =>
    intro is a hlen
    match is, hlen with
    | [ip], _ =>
      simp only [List.nil_append, tIdx, List.map_cons, List.map_nil, chain]
      have e1 : (re_pnew p f).r1 = f.r := rfl
      rw [e1, sumTo_single k hk]
      · simp only [if_true, mul_one]
        show sumTo p.r1 (fun t => p.get a ip 0 t * f.left t k) = _
        apply sumTo_congr; intro s hs
        rw [sumTo_single s hs]
        · simp
        · intro t _ hne; simp [hne]
      · intro k' _ hne; simp [hne]
  | cons x xs ih =>
    intro is a hlen
    match is, hlen with
    | j :: is', hlen =>
      simp only [List.cons_append, dc_tIdx_cons, chain]
      rw [sumTo_congr (g := fun u => x.get a j 0 u *
            sumTo p.r1 (fun s => chain (xs ++ [p]) (tIdx is') u s * f.left s k))
          (fun u _ => by rw [ih is' u (by simpa using hlen)])]
      exact dc_sumTo_assoc x.r1 p.r1 (fun u => x.get a j 0 u) (fun u s => chain (xs ++ [p]) (tIdx is') u s)
        (fun s => f.left s k)

theorem re_modesM_length (xs : List (Core α)) : (modesM xs).length = xs.length := by simp [modesM]

/-- **loop invariant**: `prev` (reversed) are left-orthonormal cores, `cur` the core being split (any right rank);
the squared distance between the open chains of the input `prev.reverse ++ [cur]` and of the output of the sweep is
the sum of the discarded energies -/
theorem re_go_errSq (svd : Oracle α) :
    ∀ (prev : List (Core α)) (cur : Core α), (∀ c ∈ prev, nq_LeftOrthT id c) →
      dc_WFto prev.reverse 1 cur.r0 → re_CallsOK svd cur prev →
      sumIdx (modesM (prev.reverse ++ [cur])) (fun js => sumTo cur.r1 (fun b =>
        (chain (prev.reverse ++ [cur]) (tIdx js) 0 b - chain (roundGo svd cur prev []) (tIdx js) 0 b) *
        (chain (prev.reverse ++ [cur]) (tIdx js) 0 b - chain (roundGo svd cur prev []) (tIdx js) 0 b)))
      = (roundTailEnergies svd cur prev).sum := by
  intro prev
  induction prev with
  | nil =>
    intro cur _ _ _
    simp only [roundGo, roundTailEnergies, List.reverse_nil, List.nil_append, List.sum_nil, sub_self, mul_zero]
    rw [sumTo_zero', sumIdx_zero]
  | cons p prev ih =>
    intro cur ho hwf hok
    obtain ⟨hstep, hrest⟩ := hok
    rw [List.reverse_cons, re_WFto_snoc] at hwf
    obtain ⟨hwf0, hp1⟩ := hwf
    have hoP : ∀ c ∈ prev, nq_LeftOrthT id c := fun c hc => ho c (by simp [hc])
    have hoX : ∀ c ∈ prev.reverse ++ [p], nq_LeftOrthT id c := by
      intro c hc
      apply ho c
      simp only [List.mem_append, List.mem_reverse, List.mem_singleton] at hc
      rcases hc with h | h
      · simp [h]
      · simp [h]
    have hwfX : dc_WFto (prev.reverse ++ [p]) 1 cur.r0 := (re_WFto_snoc _ _ _ _).mpr ⟨hwf0, hp1⟩
    rw [re_roundGo_cons]
    simp only [roundTailEnergies, List.sum_cons, List.reverse_cons]
    generalize svd cur.r0 (cur.m * cur.r1) (re_unf cur) = f at hstep hrest ⊢
    have ih' := ih (re_pnew p f) hoP hwf0 hrest
    have hwfR : dc_WFto (roundGo svd (re_pnew p f) prev []) 1 f.r :=
      re_roundGo_WFto svd prev (re_pnew p f) 1 hwf0
    rw [← ih']
    -- orthonormal columns of the prefix
    have horth : ∀ s s', s < cur.r0 → s' < cur.r0 →
        sumIdx (modesM (prev.reverse ++ [p])) (fun is =>
          chain (prev.reverse ++ [p]) (tIdx is) 0 s * chain (prev.reverse ++ [p]) (tIdx is) 0 s')
          = if s = s' then 1 else 0 := by
      intro s s' hs' hs''
      have := re_leftOrth_chain (prev.reverse ++ [p]) hoX 1 cur.r0 hwfX s s' hs' hs''
      rw [sumTo_one] at this
      exact this
    -- the first term
    have hE : matSq cur.r0 (cur.m * cur.r1) (te_resid (re_unf cur) f)
        = sumIdx (modesM (prev.reverse ++ [p])) (fun is => sumTo (cur.m * cur.r1) (fun q =>
            sumTo cur.r0 (fun s => chain (prev.reverse ++ [p]) (tIdx is) 0 s * te_resid (re_unf cur) f s q) *
            sumTo cur.r0 (fun s => chain (prev.reverse ++ [p]) (tIdx is) 0 s * te_resid (re_unf cur) f s q))) := by
      rw [te_matSq_comm, sw_sumIdx_sumTo]
      apply sumTo_congr; intro q _
      exact (re_iso _ (fun is s => chain (prev.reverse ++ [p]) (tIdx is) 0 s) cur.r0 horth
        (fun s => te_resid (re_unf cur) f s q)).symm
    have hm : modesM (prev.reverse ++ [re_pnew p f]) = modesM (prev.reverse ++ [p]) := by
      simp [modesM, re_pnew]
    rw [hE, hm, ← sumIdx_add_fn, re_modesM_snoc (prev.reverse ++ [p]) cur, re_sumIdx_snoc]
    apply sumIdx_congr; intro is his
    have hlen : is.length = (prev.reverse ++ [p]).length := by
      rw [forall₂_length his, re_modesM_length]
    have hlenR : is.length = (roundGo svd (re_pnew p f) prev []).length := by
      rw [hlen, re_roundGo_length]; simp
    have hR : sumTo (re_pnew p f).r1 (fun b =>
          (chain (prev.reverse ++ [re_pnew p f]) (tIdx is) 0 b -
            chain (roundGo svd (re_pnew p f) prev []) (tIdx is) 0 b) *
          (chain (prev.reverse ++ [re_pnew p f]) (tIdx is) 0 b -
            chain (roundGo svd (re_pnew p f) prev []) (tIdx is) 0 b))
        = sumTo f.r (fun k =>
          (sumTo cur.r0 (fun s => chain (prev.reverse ++ [p]) (tIdx is) 0 s * f.left s k) -
            chain (roundGo svd (re_pnew p f) prev []) (tIdx is) 0 k) *
          (sumTo cur.r0 (fun s => chain (prev.reverse ++ [p]) (tIdx is) 0 s * f.left s k) -
            chain (roundGo svd (re_pnew p f) prev []) (tIdx is) 0 k)) := by
      show sumTo f.r _ = _
      apply sumTo_congr; intro k hk
      rw [re_chain_absorb p f k hk prev.reverse is 0 (by simpa using hlen), hp1]
    rw [hR, ← re_row_resid cur.r0 (cur.m * cur.r1) (re_unf cur) f hstep
      (fun s => chain (prev.reverse ++ [p]) (tIdx is) 0 s)
      (fun k => chain (roundGo svd (re_pnew p f) prev []) (tIdx is) 0 k)]
    rw [sumTo_mul]
    apply sumTo_congr; intro i hi
    apply sumTo_congr; intro b hb
    rw [re_chain_snoc cur i b hb (prev.reverse ++ [p]) is hlen 1 0 hwfX Nat.one_pos,
      re_chain_snoc (re_cnow cur f) i b hb (roundGo svd (re_pnew p f) prev []) is hlenR 1 0 hwfR Nat.one_pos]
    simp only [re_unf, re_cnow, merge_div hb, merge_mod hb]

/-! ### MAIN LEMMA: the truncation sweep on a left-orthonormal train -/

theorem re_leftOrthInit_snoc (xs : List (Core α)) (last : Core α)
    (h : nq_LeftOrthInit id (xs ++ [last])) : ∀ c ∈ xs, nq_LeftOrthT id c := by
  induction xs with
  | nil => intro c hc; simp at hc
  | cons x xs ih =>
    intro c hc
    obtain ⟨h1, h2⟩ := h
    rcases List.mem_cons.mp hc with rfl | hc'
    · exact h1 (by simp)
    · exact ih h2 c hc'

/-- **MAIN LEMMA.**  `ys` a train with `WF ys 1` whose cores but the last are left-orthonormal, `ys.reverse = last :: prev`:
the squared Frobenius distance between `ys` and the output of the right-to-left truncation sweep is EXACTLY the sum
of the energies discarded by the SVD calls. -/
theorem roundGo_errSq_calls (svd : Oracle α) (ys : List (Core α)) (hwf : WF ys 1)
    (ho : nq_LeftOrthInit id ys) (last : Core α) (prev : List (Core α)) (hrev : ys.reverse = last :: prev)
    (hs : re_CallsOK svd last prev) :
    errSqTT (modesM ys) ys (roundGo svd last prev []) = (roundTailEnergies svd last prev).sum := by
  have hys : ys = prev.reverse ++ [last] := by
    have := congrArg List.reverse hrev
    simpa using this
  subst hys
  obtain ⟨hw0, hw1⟩ := (dc_WF_append_cons _ _ _ _).mp hwf
  have h1 : last.r1 = 1 := hw1
  have hoP : ∀ c ∈ prev, nq_LeftOrthT id c := fun c hc =>
    re_leftOrthInit_snoc prev.reverse last ho c (by simpa using hc)
  have key := re_go_errSq svd prev last hoP hw0 hs
  simp only [h1, sumTo_one] at key
  exact key

theorem roundGo_errSq (svd : Oracle α) (hs : RowTruncSVD svd) (ys : List (Core α)) (hwf : WF ys 1)
    (ho : nq_LeftOrthInit id ys) (last : Core α) (prev : List (Core α)) (hrev : ys.reverse = last :: prev) :
    errSqTT (modesM ys) ys (roundGo svd last prev []) = (roundTailEnergies svd last prev).sum :=
  roundGo_errSq_calls svd ys hwf ho last prev hrev (re_callsOK_of_trunc svd hs prev last)

/-- the sweep in the `dc_roundRev` form used by `roundTT` (every order, also `ys = []`) -/
theorem roundRev_errSq (svd : Oracle α) (ys : List (Core α)) (hwf : WF ys 1)
    (ho : nq_LeftOrthInit id ys) (hs : re_CallsOKRev svd ys) :
    errSqTT (modesM ys) ys (dc_roundRev svd ys.reverse) = (roundEnergies svd ys).sum := by
  unfold roundEnergies
  unfold re_CallsOKRev at hs
  cases hrev : ys.reverse with
  | nil =>
    have : ys = [] := by simpa using hrev
    subst this
    simp [dc_roundRev, errSqTT, modesM, sumIdx]
  | cons last prev =>
    rw [hrev] at hs
    exact roundGo_errSq_calls svd ys hwf ho last prev hrev hs

/-! ### THEOREM: the error identity of `round_tt` -/

/-- **THEOREM — the squared Frobenius error of `round_tt` is EXACTLY the sum of the energies discarded by its `d − 1`
truncated SVDs** (orthonormal QR oracle, truncating SVD oracle with orthonormal `right` rows and orthogonal residual;
every order `d ≥ 0`, all mode sizes and ranks) -/
theorem roundTT_errSq_calls (qr : Oracle α) (hq : OrthoQR qr) (svd : Oracle α)
    (cs : List (Core α)) (hwf : WF cs 1) (hs : re_CallsOKRev svd (lrOrth qr cs)) :
    errSqTT (modesM cs) cs (roundTT qr svd cs) = (roundEnergies svd (lrOrth qr cs)).sum := by
  rw [← roundRev_errSq svd (lrOrth qr cs) (lrOrth_WF qr cs 1 hwf) (lrOrth_leftOrthc id qr hq cs) hs,
    dc_roundTT_eq, lrOrth_modes]
  unfold errSqTT
  apply sumIdx_congr; intro is his
  rw [lrOrth_full qr hq.1 cs is hwf his]

theorem roundTT_errSq' (qr : Oracle α) (hq : OrthoQR qr) (svd : Oracle α) (hs : RowTruncSVD svd)
    (cs : List (Core α)) (hwf : WF cs 1) :
    errSqTT (modesM cs) cs (roundTT qr svd cs) = (roundEnergies svd (lrOrth qr cs)).sum :=
  roundTT_errSq_calls qr hq svd cs hwf (re_callsOKRev_of_trunc svd hs _)

/-- the requested signature (`ht`, `hne` are not needed) -/
theorem roundTT_errSq (qr : Oracle α) (hq : OrthoQR qr) (svd : Oracle α) (hs : RowTruncSVD svd)
    (cs : List (Core α)) (hwf : WF cs 1) (_ht : IsTensor cs) (_hne : cs ≠ []) :
    sumIdx (modesM cs) (fun is =>
        (full cs (tIdx is) - full (roundTT qr svd cs) (tIdx is)) *
        (full cs (tIdx is) - full (roundTT qr svd cs) (tIdx is)))
      = (roundEnergies svd (lrOrth qr cs)).sum :=
  roundTT_errSq' qr hq svd hs cs hwf

/-- no truncation error at any step ⇒ the squared error is `0` -/
theorem roundTT_errSq_zero (qr : Oracle α) (hq : OrthoQR qr) (svd : Oracle α) (hs : RowTruncSVD svd)
    (cs : List (Core α)) (hwf : WF cs 1) (h0 : ∀ e ∈ roundEnergies svd (lrOrth qr cs), e = 0) :
    errSqTT (modesM cs) cs (roundTT qr svd cs) = 0 := by
  rw [roundTT_errSq' qr hq svd hs cs hwf]
  exact List.sum_eq_zero h0

/-- one residual energy per SVD call -/
theorem roundTailEnergies_length (svd : Oracle α) :
    ∀ (prev : List (Core α)) (cur : Core α), (roundTailEnergies svd cur prev).length = prev.length := by
  intro prev
  induction prev with
  | nil => intro _; rfl
  | cons p prev ih => intro cur; simp only [roundTailEnergies, List.length_cons, ih]

theorem roundEnergies_length (svd : Oracle α) (ys : List (Core α)) :
    (roundEnergies svd ys).length = ys.length - 1 := by
  unfold roundEnergies
  cases hrev : ys.reverse with
  | nil =>
    have : ys = [] := by simpa using hrev
    subst this; rfl
  | cons last prev =>
    have := congrArg List.length hrev
    simp only [List.length_reverse, List.length_cons] at this
    simp only [roundTailEnergies_length, this]
    omega

theorem re_lrOrth_length (qr : Oracle α) (cs : List (Core α)) : (lrOrth qr cs).length = cs.length := by
  have := congrArg List.length (lrOrth_modes qr cs)
  simpa [modesM] using this

/-- `d − 1` energies -/
theorem roundTT_energies_length (qr svd : Oracle α) (cs : List (Core α)) :
    (roundEnergies svd (lrOrth qr cs)).length = cs.length - 1 := by
  rw [roundEnergies_length, re_lrOrth_length]

/-! ### COROLLARY: error bounds over an ordered ring -/
section Ordered
variable {β : Type} [CommRing β] [LinearOrder β] [IsStrictOrderedRing β]

/-- every discarded energy is non-negative -/
theorem roundTailEnergies_nonneg (svd : Oracle β) :
    ∀ (prev : List (Core β)) (cur : Core β), ∀ e ∈ roundTailEnergies svd cur prev, 0 ≤ e := by
  intro prev
  induction prev with
  | nil => intro _ e he; simp [roundTailEnergies] at he
  | cons p prev ih =>
    intro cur e he
    simp only [roundTailEnergies, List.mem_cons] at he
    rcases he with rfl | he
    · exact matSq_nonneg _ _ _
    · exact ih _ e he

theorem roundEnergies_nonneg (svd : Oracle β) (ys : List (Core β)) : ∀ e ∈ roundEnergies svd ys, 0 ≤ e := by
  unfold roundEnergies
  cases ys.reverse with
  | nil => intro e he; simp at he
  | cons last prev => exact roundTailEnergies_nonneg svd prev last

/-- every per-step discarded energy `≤ b` ⇒ `‖cs − round_tt cs‖² ≤ (d − 1)·b` -/
theorem roundTT_errSq_le (qr : Oracle β) (hq : OrthoQR qr) (svd : Oracle β) (hs : RowTruncSVD svd)
    (cs : List (Core β)) (hwf : WF cs 1) (b : β)
    (hb : ∀ e ∈ roundEnergies svd (lrOrth qr cs), e ≤ b) :
    errSqTT (modesM cs) cs (roundTT qr svd cs) ≤ ((cs.length - 1 : Nat) : β) * b := by
  rw [roundTT_errSq' qr hq svd hs cs hwf, ← roundTT_energies_length qr svd cs]
  exact te_sum_le _ b hb

/-- division-free allowance form (`b = (eps·‖cs‖)²/(d−1)` in `round_tt`): `(d − 1)·b ≤ B ⇒ ‖cs − round_tt cs‖² ≤ B` -/
theorem roundTT_errSq_le_allowance (qr : Oracle β) (hq : OrthoQR qr) (svd : Oracle β) (hs : RowTruncSVD svd)
    (cs : List (Core β)) (hwf : WF cs 1) (hne : cs ≠ []) (b B : β)
    (hb : ∀ e ∈ roundEnergies svd (lrOrth qr cs), e ≤ b)
    (hB : ((cs.length : β) - 1) * b ≤ B) :
    errSqTT (modesM cs) cs (roundTT qr svd cs) ≤ B := by
  refine le_trans (roundTT_errSq_le qr hq svd hs cs hwf b hb) ?_
  have hlen : 1 ≤ cs.length := List.length_pos_iff.mpr hne
  rw [Nat.cast_sub hlen, Nat.cast_one]
  exact hB

/-- the error is at least every single discarded energy (the identity is two-sided) -/
theorem roundTT_errSq_ge (qr : Oracle β) (hq : OrthoQR qr) (svd : Oracle β) (hs : RowTruncSVD svd)
    (cs : List (Core β)) (hwf : WF cs 1) :
    ∀ e ∈ roundEnergies svd (lrOrth qr cs), e ≤ errSqTT (modesM cs) cs (roundTT qr svd cs) := by
  rw [roundTT_errSq' qr hq svd hs cs hwf]
  intro e he
  exact (te_single_le_sum _ (roundEnergies_nonneg svd _)).2 e he

/-- link to the rank rule of C01: if at every step the discarded energy is the tail energy `tailE s R` of some list `s`
(the singular values) at the rank `R = rank_chop(s, eps)` chosen by the Python rule, then
`‖cs − round_tt cs‖² ≤ (d − 1)·eps²` -/
theorem roundTT_errSq_rankChop [DecidableEq β] [DecidableRel (fun (a b : β) => a < b)]
    [DecidableRel (fun (a b : β) => a ≤ b)]
    (qr : Oracle β) (hq : OrthoQR qr) (svd : Oracle β) (hs : RowTruncSVD svd)
    (cs : List (Core β)) (hwf : WF cs 1) (eps : β)
    (hch : ∀ e ∈ roundEnergies svd (lrOrth qr cs),
      ∃ s : List β, e = TT.Trunc.tailE s (TT.Trunc.rankChop s eps)) :
    errSqTT (modesM cs) cs (roundTT qr svd cs) ≤ ((cs.length - 1 : Nat) : β) * (eps * eps) := by
  apply roundTT_errSq_le qr hq svd hs cs hwf
  intro e he
  obtain ⟨s, rfl⟩ := hch e he
  exact rankChop_tail s eps

end Ordered

/-! ### non-vacuity: the contract is satisfiable, also by a genuinely truncating oracle -/

/-- `re_colOracle cap` satisfies the row form of the truncated-SVD contract at every size, for every `cap` -/
theorem re_colOracle_trunc (cap : Nat) : RowTruncSVD (re_colOracle (α := α) cap) := by
  intro rows cols M
  refine ⟨?_, ?_⟩
  · intro k k' hk hk'
    simp only [re_colOracle] at hk hk' ⊢
    have hkc : k < cols := by omega
    rw [sumTo_single k hkc]
    · simp [eq_comm]
    · intro j _ hne
      have : ¬ (k = j) := fun e => hne e.symm
      simp [this]
  · intro k i hk _
    simp only [re_colOracle] at hk ⊢
    have hkc : k < cols := by omega
    rw [sumTo_single k hkc]
    · simp only [te_resid, if_true, mul_one]
      rw [sumTo_single k hk]
      · simp
      · intro k' _ hne
        simp [hne]
    · intro j _ hne
      have : ¬ (k = j) := fun e => hne e.symm
      simp [this]

/-- one-step example (order 2): `[[1,2],[3,4]]` as `I · A`, second column dropped, `E = [[0,2],[0,4]]` -/
def re_ex2 : List (Core Int) :=
  [ { r0 := 1, m := 2, n := 1, r1 := 2, get := fun _ i _ b => if i = b then 1 else 0 },
    { r0 := 2, m := 2, n := 1, r1 := 1, get := fun a i _ _ => 2 * (a : Int) + i + 1 } ]

example : roundEnergies (re_colOracle 1) (lrOrth nq_idQ re_ex2) = [20] := by decide
example : errSqTT (modesM re_ex2) re_ex2 (roundTT nq_idQ (re_colOracle 1) re_ex2) = 20 := by decide

/-- the THEOREM checked numerically on the order-3 integer train `dc_exT` of C02b (modes `[2,3,2]`, ranks `[1,2,2,1]`),
every rank cut to 1: both sides are `238 = 13 + 225 ≠ 0` -/
example : roundEnergies (re_colOracle 1) (lrOrth nq_idQ dc_exT) = [13, 225] := by decide
example : errSqTT (modesM dc_exT) dc_exT (roundTT nq_idQ (re_colOracle 1) dc_exT)
    = (roundEnergies (re_colOracle 1) (lrOrth nq_idQ dc_exT)).sum := by decide
example : errSqTT (modesM dc_exT) dc_exT (roundTT nq_idQ (re_colOracle 1) dc_exT) ≠ 0 := by decide
example : ranks (roundTT nq_idQ (re_colOracle 1) dc_exT) = [1, 1, 1, 1] := by decide

/-- the same on `nq_exW` of C07d (modes `[2,2,3]`, ranks `[1,2,4,1]`) with ranks cut to 2: `2732 = 1812 + 920` -/
example : errSqTT (modesM nq_exW) nq_exW (roundTT nq_idQ (re_colOracle 2) nq_exW)
    = (roundEnergies (re_colOracle 2) (lrOrth nq_idQ nq_exW)).sum := by decide
example : roundEnergies (re_colOracle 2) (lrOrth nq_idQ nq_exW) = [1812, 920] := by decide

/-- the general theorems instantiated (non-vacuity of their hypotheses) -/
example : errSqTT (modesM dc_exT) dc_exT (roundTT nq_idQ (re_colOracle 1) dc_exT)
    = (roundEnergies (re_colOracle 1) (lrOrth nq_idQ dc_exT)).sum :=
  roundTT_errSq' nq_idQ nq_idQ_ortho (re_colOracle 1) (re_colOracle_trunc 1) dc_exT dc_exT_WF

example : sumIdx (modesM dc_exT) (fun is =>
      (full dc_exT (tIdx is) - full (roundTT nq_idQ (re_colOracle 1) dc_exT) (tIdx is)) *
      (full dc_exT (tIdx is) - full (roundTT nq_idQ (re_colOracle 1) dc_exT) (tIdx is)))
    = (roundEnergies (re_colOracle 1) (lrOrth nq_idQ dc_exT)).sum :=
  roundTT_errSq nq_idQ nq_idQ_ortho (re_colOracle 1) (re_colOracle_trunc 1) dc_exT dc_exT_WF
    ⟨rfl, rfl, rfl, trivial⟩ (by decide)

example : re_RowStepOK 2 2 (fun i j => (2 * (i : Int) + j + 1))
    (re_colOracle 1 2 2 (fun i j => (2 * (i : Int) + j + 1))) := re_colOracle_trunc 1 2 2 _

example : errSqTT (modesM dc_exT) dc_exT (roundTT nq_idQ (re_colOracle 1) dc_exT) ≤ ((3 - 1 : Nat) : Int) * 225 :=
  roundTT_errSq_le nq_idQ nq_idQ_ortho (re_colOracle 1) (re_colOracle_trunc 1) dc_exT dc_exT_WF 225 (by decide)

/-! ### the hypotheses are needed -/

/-- like `re_colOracle 1` but with the kept row scaled by `2` (not a unit vector) -/
def re_badOracle : Oracle Int := fun _ _ M =>
  { r := 1, left := fun i k => M i k, right := fun k j => if k = j then 2 else 0 }

/-- with a non-orthonormal `right` the identity fails: error `238`, "discarded energies" `238 + 225` -/
example : errSqTT (modesM dc_exT) dc_exT (roundTT nq_idQ re_badOracle dc_exT) = 238 := by decide
example : roundEnergies re_badOracle (lrOrth nq_idQ dc_exT) = [238, 225] := by decide

theorem re_badOracle_not_trunc : ¬ RowTruncSVD re_badOracle := by
  intro h
  have := roundTT_errSq' nq_idQ nq_idQ_ortho re_badOracle h dc_exT dc_exT_WF
  revert this
  decide

/-- with an exact but non-orthonormal QR (`idOracle` on the tall second unfolding of `dc_exT` returns `Q = M`) the
identity fails as well: error `238`, discarded energies `5 + 225` -/
example : errSqTT (modesM dc_exT) dc_exT (roundTT (idOracle 1000) (re_colOracle 1) dc_exT) = 238 := by decide
example : roundEnergies (re_colOracle 1) (lrOrth (idOracle 1000) dc_exT) = [5, 225] := by decide

theorem re_idOracle_not_ortho : ¬ OrthoQR (idOracle (α := Int) 1000) := by
  intro h
  have := roundTT_errSq' (idOracle 1000) h (re_colOracle 1) (re_colOracle_trunc 1) dc_exT dc_exT_WF
  revert this
  decide

end TT.C02

#print axioms TT.C02.re_rowStepOK_iff
#print axioms TT.C02.re_pythagoras
#print axioms TT.C02.re_leftOrth_chain
#print axioms TT.C02.re_go_errSq
#print axioms TT.C02.roundGo_errSq_calls
#print axioms TT.C02.roundGo_errSq
#print axioms TT.C02.roundRev_errSq
#print axioms TT.C02.roundTT_errSq_calls
#print axioms TT.C02.roundTT_errSq'
#print axioms TT.C02.roundTT_errSq
#print axioms TT.C02.roundTT_errSq_zero
#print axioms TT.C02.roundTT_energies_length
#print axioms TT.C02.roundEnergies_nonneg
#print axioms TT.C02.roundTT_errSq_le
#print axioms TT.C02.roundTT_errSq_le_allowance
#print axioms TT.C02.roundTT_errSq_ge
#print axioms TT.C02.roundTT_errSq_rankChop
#print axioms TT.C02.re_colOracle_trunc
#print axioms TT.C02.re_badOracle_not_trunc
#print axioms TT.C02.re_idOracle_not_ortho
