import TTLemmas.KernelsL

/-!
# C12 — the local problems of the AMEn solver are the exact Galerkin projections

Model: `TTModel/Kernels.lean` (`torchtt/solvers.py`: `_compute_phi_fwd_A`, `_compute_phi_bck_A`,
`_compute_phi_fwd_rhs`, `_compute_phi_bck_rhs`, `_local_product`, `_LinearOp.matvec`, and the folds
`foldFwdA`, `foldBckA`, `foldFwdRhs`, `foldBckRhs` that the sweeps accumulate in `Phis` / `Phis_b`).

Notation.  `chain cs ij a b` is the `(a, b)` entry of the product of the transfer matrices of the
sub-train `cs` at the multi-index `ij`; `full cs ij = chain cs ij 0 0`.  A tensor train entry is
`full x (tIdx is)`, an operator entry `full A (is.zip js)`.  `sumIdx [n_1,…,n_d] f` sums `f` over the
index box.  `sw_Chained cs r s`: the ranks of `cs` chain from left rank `r` to last rank `s`
(`WF cs r` is `sw_Chained cs r 1`).  Everything holds for every order, every mode-size pattern,
every rank profile and all core values over an arbitrary commutative ring.

As in `TT.C07.bilinear_eq`, the index boxes are read off the operator train (`modesM As`,
`modesN As`), resp. off the right-hand-side train (`modesM bs`), exactly as the einsums do; the
mode-compatibility facts (`x.m = A.m`, `y.m = A.n`, …) are the preconditions under which the code
does not raise and are not needed for the identities.
-/
namespace TT.C12
open TT TT.Kern
variable {α : Type} [CommRing α]

/-! ### (1) `_LinearOp.matvec` is `_local_product` -/

/-- the three successive `tensordot`s of `_LinearOp.matvec` (no preconditioner) compute the one-shot
    contraction `'lsr,smnS,LSR,rnR->lmL'`, for all `Phi`s, cores and output indices -/
theorem linop_eq_localProduct (PL PR : Phi3 α) (A u : Core α) (l m L : Nat) :
    linopMatvec PL PR A u l m L = localProduct PL PR A u l m L :=
  kl_linop PL PR A u l m L

/-! ### (2) the left interface `Phis[k]` -/

/-- forward fold over sub-trains whose ranks chain from `(rx, rA, ry)` to `(Lx, LA, Ly)`, any
    incoming `Phi`, any in-range output index.  (The bounds `L < Lx` … are necessary: for empty
    lists the fold returns `P L S R` while every chain with `l ≠ L` in range vanishes.) -/
theorem foldFwdA_eq (xs As ys : List (Core α)) (rx rA ry Lx LA Ly : Nat) (P : Phi3 α) (L S R : Nat)
    (hx : sw_Chained xs rx Lx) (hA : sw_Chained As rA LA) (hy : sw_Chained ys ry Ly)
    (hlx : xs.length = As.length) (hly : ys.length = As.length)
    (hL : L < Lx) (hS : S < LA) (hR : R < Ly) :
    foldFwdA xs As ys P L S R =
    sumTo rx (fun l => sumTo rA (fun s => sumTo ry (fun r => P l s r *
      sumIdx (modesM As) (fun is => sumIdx (modesN As) (fun js =>
        chain xs (tIdx is) l L * chain As (is.zip js) s S * chain ys (tIdx js) r R))))) :=
  kl_foldFwdA_inv xs As ys rx rA ry Lx LA Ly P L S R hx hA hy hlx hly hL hS hR

/-- the sweeps' case: left ranks 1 and `Phis[0] = ones` -/
theorem foldFwdA_ones (xs As ys : List (Core α)) (Lx LA Ly : Nat) (L S R : Nat)
    (hx : sw_Chained xs 1 Lx) (hA : sw_Chained As 1 LA) (hy : sw_Chained ys 1 Ly)
    (hlx : xs.length = As.length) (hly : ys.length = As.length)
    (hL : L < Lx) (hS : S < LA) (hR : R < Ly) :
    foldFwdA xs As ys ones3 L S R =
    sumIdx (modesM As) (fun is => sumIdx (modesN As) (fun js =>
      chain xs (tIdx is) 0 L * chain As (is.zip js) 0 S * chain ys (tIdx js) 0 R)) := by
  rw [foldFwdA_eq xs As ys 1 1 1 Lx LA Ly ones3 L S R hx hA hy hlx hly hL hS hR]
  simp [sumTo_one, ones3]

example : foldFwdA [kl_x0, kl_x1] [kl_A0, kl_A1] [kl_y0, kl_y1] ones3 1 2 1 =
    sumIdx (modesM [kl_A0, kl_A1]) (fun is => sumIdx (modesN [kl_A0, kl_A1]) (fun js =>
      chain [kl_x0, kl_x1] (tIdx is) 0 1 * chain [kl_A0, kl_A1] (is.zip js) 0 2 *
        chain [kl_y0, kl_y1] (tIdx js) 0 1)) :=
  foldFwdA_ones _ _ _ 2 3 2 1 2 1 (by simp [sw_Chained, kl_x0, kl_x1])
    (by simp [sw_Chained, kl_A0, kl_A1]) (by simp [sw_Chained, kl_y0, kl_y1]) rfl rfl
    (by omega) (by omega) (by omega)

/-- the bound `L < Lx` cannot be dropped: for empty sub-trains with ranks `1 → 1` the fold returns
    `P 5 0 0 = 1`, while the chain from `0` to the out-of-range index `5` is `0` -/
example : sw_Chained ([] : List (Core Int)) 1 1 ∧
    foldFwdA ([] : List (Core Int)) [] [] ones3 5 0 0 ≠
    sumTo 1 (fun l => sumTo 1 (fun s => sumTo 1 (fun r => (ones3 : Phi3 Int) l s r *
      sumIdx (modesM ([] : List (Core Int))) (fun is => sumIdx (modesN ([] : List (Core Int))) (fun js =>
        chain ([] : List (Core Int)) (tIdx is) l 5 * chain ([] : List (Core Int)) (is.zip js) s 0 *
          chain ([] : List (Core Int)) (tIdx js) r 0))))) := by
  refine ⟨rfl, ?_⟩
  decide

/-! ### (3) the right interface `Phis[k+1]` -/

theorem foldBckA_eq (xs As ys : List (Core α)) (rx rA ry Lx LA Ly : Nat) (P : Phi3 α) (l s r : Nat)
    (hx : sw_Chained xs rx Lx) (hA : sw_Chained As rA LA) (hy : sw_Chained ys ry Ly)
    (hlx : xs.length = As.length) (hly : ys.length = As.length)
    (hl : l < rx) (hs : s < rA) (hr : r < ry) :
    foldBckA xs As ys P l s r =
    sumTo Lx (fun L => sumTo LA (fun S => sumTo Ly (fun R => P L S R *
      sumIdx (modesM As) (fun is => sumIdx (modesN As) (fun js =>
        chain xs (tIdx is) l L * chain As (is.zip js) s S * chain ys (tIdx js) r R))))) :=
  kl_foldBckA_inv xs As ys rx rA ry Lx LA Ly P l s r hx hA hy hlx hly hl hs hr

/-- the sweeps' case: the lists end the trains (`WF`: last rank 1) and `Phis[d] = ones` -/
theorem foldBckA_ones (xs As ys : List (Core α)) (rx rA ry : Nat) (l s r : Nat)
    (hx : WF xs rx) (hA : WF As rA) (hy : WF ys ry)
    (hlx : xs.length = As.length) (hly : ys.length = As.length)
    (hl : l < rx) (hs : s < rA) (hr : r < ry) :
    foldBckA xs As ys ones3 l s r =
    sumIdx (modesM As) (fun is => sumIdx (modesN As) (fun js =>
      chain xs (tIdx is) l 0 * chain As (is.zip js) s 0 * chain ys (tIdx js) r 0)) := by
  rw [foldBckA_eq xs As ys rx rA ry 1 1 1 ones3 l s r (sw_Chained_of_WF xs rx hx)
    (sw_Chained_of_WF As rA hA) (sw_Chained_of_WF ys ry hy) hlx hly hl hs hr]
  simp [sumTo_one, ones3]

example : foldBckA [kl_x1, kl_x2] [kl_A1, kl_A2] [kl_y1, kl_y2] ones3 1 1 2 =
    sumIdx (modesM [kl_A1, kl_A2]) (fun is => sumIdx (modesN [kl_A1, kl_A2]) (fun js =>
      chain [kl_x1, kl_x2] (tIdx is) 1 0 * chain [kl_A1, kl_A2] (is.zip js) 1 0 *
        chain [kl_y1, kl_y2] (tIdx js) 2 0)) :=
  foldBckA_ones _ _ _ 2 2 3 1 1 2 (by simp [WF, kl_x1, kl_x2]) (by simp [WF, kl_A1, kl_A2])
    (by simp [WF, kl_y1, kl_y2]) rfl rfl (by omega) (by omega) (by omega)

/-! ### (4) Galerkin exactness of the local system matrix -/

/-- strongest form: the left parts are arbitrary (only their lengths agree; any incoming `P0`), the
    right parts are well formed from the right ranks of the cores at position `k`.
    Sweeping through everything equals testing `_local_product` against `v`. -/
theorem local_galerkin_gen (P0 : Phi3 α) (xl xr Al Ar yl yr : List (Core α)) (v A u : Core α)
    (hwx : WF xr v.r1) (hwA : WF Ar A.r1) (hwy : WF yr u.r1)
    (hlx : xl.length = Al.length) (hly : yl.length = Al.length)
    (hrx : xr.length = Ar.length) (hry : yr.length = Ar.length) :
    foldFwdA (xl ++ [v] ++ xr) (Al ++ [A] ++ Ar) (yl ++ [u] ++ yr) P0 0 0 0 =
    sumTo v.r0 (fun l => sumTo A.m (fun m => sumTo v.r1 (fun L =>
      v.get l m 0 L *
        localProduct (foldFwdA xl Al yl P0) (foldBckA xr Ar yr ones3) A u l m L))) := by
  simp only [List.append_assoc, List.singleton_append]
  rw [kl_foldFwdA_append xl Al yl _ _ _ P0 hlx hly]
  exact kl_galerkin_A _ v A u xr Ar yr hwx hwA hwy hrx hry

/-- **Galerkin exactness.**  `⟨x, A y⟩` (the model `bilinear id` of `bilinear_form`, equal to the
    dense form by `TT.C07.bilinear_eq`) with the `k`-th cores `v`, `A`, `u`, equals the local
    operator `_local_product(Phis[k], Phis[k+1], A)` applied to the local unknown `u` and tested
    against `v`. -/
theorem local_galerkin (xl xr Al Ar yl yr : List (Core α)) (v A u : Core α)
    (hwx : WF (xl ++ [v] ++ xr) 1) (hwA : WF (Al ++ [A] ++ Ar) 1) (hwy : WF (yl ++ [u] ++ yr) 1)
    (hlx : xl.length = Al.length) (hly : yl.length = Al.length)
    (hrx : xr.length = Ar.length) (hry : yr.length = Ar.length) :
    bilinear id (xl ++ [v] ++ xr) (Al ++ [A] ++ Ar) (yl ++ [u] ++ yr) =
    sumTo v.r0 (fun l => sumTo A.m (fun m => sumTo v.r1 (fun L =>
      v.get l m 0 L *
        localProduct (foldFwdA xl Al yl ones3) (foldBckA xr Ar yr ones3) A u l m L))) := by
  unfold bilinear
  rw [kl_bilSweep_id]
  exact local_galerkin_gen ones3 xl xr Al Ar yl yr v A u
    (kl_WF_split xl v xr 1 (by simpa using hwx)).2
    (kl_WF_split Al A Ar 1 (by simpa using hwA)).2
    (kl_WF_split yl u yr 1 (by simpa using hwy)).2 hlx hly hrx hry

/-- the same against the dense bilinear form `Σ_{is,js} x[is] · A[is,js] · y[js]` of the three
    trains with the `k`-th cores `v`, `A`, `u` -/
theorem local_galerkin_dense (xl xr Al Ar yl yr : List (Core α)) (v A u : Core α)
    (hwx : WF (xl ++ [v] ++ xr) 1) (hwA : WF (Al ++ [A] ++ Ar) 1) (hwy : WF (yl ++ [u] ++ yr) 1)
    (hlx : xl.length = Al.length) (hly : yl.length = Al.length)
    (hrx : xr.length = Ar.length) (hry : yr.length = Ar.length) :
    sumIdx (modesM (Al ++ [A] ++ Ar)) (fun is => sumIdx (modesN (Al ++ [A] ++ Ar)) (fun js =>
      full (xl ++ [v] ++ xr) (tIdx is) * full (Al ++ [A] ++ Ar) (is.zip js) *
        full (yl ++ [u] ++ yr) (tIdx js))) =
    sumTo v.r0 (fun l => sumTo A.m (fun m => sumTo v.r1 (fun L =>
      v.get l m 0 L *
        localProduct (foldFwdA xl Al yl ones3) (foldBckA xr Ar yr ones3) A u l m L))) := by
  rw [← local_galerkin xl xr Al Ar yl yr v A u hwx hwA hwy hlx hly hrx hry]
  unfold bilinear
  rw [sw_bil_inv id (fun _ _ => rfl) (fun _ _ => rfl) rfl _ _ _ 1 1 1 _ hwx hwA hwy
    (by simp [hlx, hrx]) (by simp [hly, hry])]
  simp [sumTo_one, sw_B, sw_S2, full]

/-- order-3 instance, split at the middle core: all hypotheses hold and the modes are compatible -/
example : bilinear id ([kl_x0] ++ [kl_x1] ++ [kl_x2]) ([kl_A0] ++ [kl_A1] ++ [kl_A2])
      ([kl_y0] ++ [kl_y1] ++ [kl_y2]) =
    sumTo kl_x1.r0 (fun l => sumTo kl_A1.m (fun m => sumTo kl_x1.r1 (fun L =>
      kl_x1.get l m 0 L *
        localProduct (foldFwdA [kl_x0] [kl_A0] [kl_y0] ones3) (foldBckA [kl_x2] [kl_A2] [kl_y2] ones3)
          kl_A1 kl_y1 l m L))) :=
  local_galerkin _ _ _ _ _ _ _ _ _ (by simp [WF, kl_x0, kl_x1, kl_x2])
    (by simp [WF, kl_A0, kl_A1, kl_A2]) (by simp [WF, kl_y0, kl_y1, kl_y2]) rfl rfl rfl rfl

example : modesM [kl_x0, kl_x1, kl_x2] = modesM [kl_A0, kl_A1, kl_A2] ∧
    modesM [kl_y0, kl_y1, kl_y2] = modesN [kl_A0, kl_A1, kl_A2] ∧
    IsTensor [kl_x0, kl_x1, kl_x2] ∧ IsTensor [kl_y0, kl_y1, kl_y2] := by
  simp [modesM, modesN, IsTensor, kl_x0, kl_x1, kl_x2, kl_A0, kl_A1, kl_A2, kl_y0, kl_y1, kl_y2]

/-- the two sides are the same non-trivial number on the example -/
example : bilinear id [kl_x0, kl_x1, kl_x2] [kl_A0, kl_A1, kl_A2] [kl_y0, kl_y1, kl_y2] ≠ 0 := by
  decide +kernel

/-! ### (5) Galerkin exactness of the local right-hand side -/

theorem foldFwdRhs_eq (bs xs : List (Core α)) (rb rx Lb Lx : Nat) (P : Phi2 α) (B R : Nat)
    (hb : sw_Chained bs rb Lb) (hx : sw_Chained xs rx Lx) (hlen : xs.length = bs.length)
    (hB : B < Lb) (hR : R < Lx) :
    foldFwdRhs bs xs P B R =
    sumTo rb (fun b0 => sumTo rx (fun r => P b0 r *
      sumIdx (modesM bs) (fun is => chain bs (tIdx is) b0 B * chain xs (tIdx is) r R))) :=
  kl_foldFwdRhs_inv bs xs rb rx Lb Lx P B R hb hx hlen hB hR

theorem foldBckRhs_eq (bs xs : List (Core α)) (rb rx Lb Lx : Nat) (P : Phi2 α) (b0 r : Nat)
    (hb : sw_Chained bs rb Lb) (hx : sw_Chained xs rx Lx) (hlen : xs.length = bs.length)
    (hb0 : b0 < rb) (hr : r < rx) :
    foldBckRhs bs xs P b0 r =
    sumTo Lb (fun B => sumTo Lx (fun R => P B R *
      sumIdx (modesM bs) (fun is => chain bs (tIdx is) b0 B * chain xs (tIdx is) r R))) :=
  kl_foldBckRhs_inv bs xs rb rx Lb Lx P b0 r hb hx hlen hb0 hr

/-- strongest form: arbitrary left parts and incoming `P0`; the first index of every `Phi` belongs
    to the right-hand-side train `b`, the second to `x` (as in `'br,bnB,rnR->BR'`) -/
theorem rhs_galerkin_gen (P0 : Phi2 α) (bl br xl xr : List (Core α)) (b v : Core α)
    (hwb : WF br b.r1) (hwx : WF xr v.r1)
    (hl : xl.length = bl.length) (hr : xr.length = br.length) :
    foldFwdRhs (bl ++ [b] ++ br) (xl ++ [v] ++ xr) P0 0 0 =
    sumTo v.r0 (fun r => sumTo b.m (fun m => sumTo v.r1 (fun R =>
      v.get r m 0 R * localRhs (foldFwdRhs bl xl P0) (foldBckRhs br xr ones2) b r m R))) := by
  simp only [List.append_assoc, List.singleton_append]
  rw [kl_foldFwdRhs_append bl xl _ _ P0 hl]
  exact kl_galerkin_rhs _ b v br xr hwb hwx hr

/-- **Galerkin exactness of the right-hand side.**  The dense inner product `Σ_is b[is] · x[is]` of
    the right-hand-side train with the train whose `k`-th core is `v` equals the local right-hand
    side `einsum('br,bmB,BR->rmR', Phis_b[k], b_k, Phis_b[k+1])` tested against `v`. -/
theorem rhs_galerkin (bl br xl xr : List (Core α)) (b v : Core α)
    (hwb : WF (bl ++ [b] ++ br) 1) (hwx : WF (xl ++ [v] ++ xr) 1)
    (hl : xl.length = bl.length) (hr : xr.length = br.length) :
    sumIdx (modesM (bl ++ [b] ++ br)) (fun is =>
      full (bl ++ [b] ++ br) (tIdx is) * full (xl ++ [v] ++ xr) (tIdx is)) =
    sumTo v.r0 (fun r => sumTo b.m (fun m => sumTo v.r1 (fun R =>
      v.get r m 0 R * localRhs (foldFwdRhs bl xl ones2) (foldBckRhs br xr ones2) b r m R))) := by
  rw [← rhs_galerkin_gen ones2 bl br xl xr b v
    (kl_WF_split bl b br 1 (by simpa using hwb)).2
    (kl_WF_split xl v xr 1 (by simpa using hwx)).2 hl hr]
  rw [kl_foldFwdRhs_inv _ _ 1 1 1 1 ones2 0 0 (sw_Chained_of_WF _ 1 hwb) (sw_Chained_of_WF _ 1 hwx)
    (by simp [hl, hr]) (by omega) (by omega)]
  simp [sumTo_one, ones2, kl_D, full]

/-- the same with the left side written as the model of `tn.dot` (tensor trains: `n = 1`) -/
theorem rhs_galerkin_dot (bl br xl xr : List (Core α)) (b v : Core α)
    (ht : IsTensor (bl ++ [b] ++ br))
    (hwb : WF (bl ++ [b] ++ br) 1) (hwx : WF (xl ++ [v] ++ xr) 1)
    (hl : xl.length = bl.length) (hr : xr.length = br.length) :
    dotFull id (bl ++ [b] ++ br) (xl ++ [v] ++ xr) =
    sumTo v.r0 (fun r => sumTo b.m (fun m => sumTo v.r1 (fun R =>
      v.get r m 0 R * localRhs (foldFwdRhs bl xl ones2) (foldBckRhs br xr ones2) b r m R))) := by
  unfold dotFull
  rw [kl_gramSweep_id _ _ _ ht]
  exact rhs_galerkin_gen ones2 bl br xl xr b v
    (kl_WF_split bl b br 1 (by simpa using hwb)).2
    (kl_WF_split xl v xr 1 (by simpa using hwx)).2 hl hr

example : sumIdx (modesM ([kl_b0] ++ [kl_b1] ++ [kl_b2])) (fun is =>
      full ([kl_b0] ++ [kl_b1] ++ [kl_b2]) (tIdx is) * full ([kl_x0] ++ [kl_x1] ++ [kl_x2]) (tIdx is)) =
    sumTo kl_x1.r0 (fun r => sumTo kl_b1.m (fun m => sumTo kl_x1.r1 (fun R =>
      kl_x1.get r m 0 R *
        localRhs (foldFwdRhs [kl_b0] [kl_x0] ones2) (foldBckRhs [kl_b2] [kl_x2] ones2) kl_b1 r m R))) :=
  rhs_galerkin _ _ _ _ _ _ (by simp [WF, kl_b0, kl_b1, kl_b2]) (by simp [WF, kl_x0, kl_x1, kl_x2])
    rfl rfl

example : dotFull id ([kl_b0] ++ [kl_b1] ++ [kl_b2]) ([kl_x0] ++ [kl_x1] ++ [kl_x2]) =
    sumTo kl_x1.r0 (fun r => sumTo kl_b1.m (fun m => sumTo kl_x1.r1 (fun R =>
      kl_x1.get r m 0 R *
        localRhs (foldFwdRhs [kl_b0] [kl_x0] ones2) (foldBckRhs [kl_b2] [kl_x2] ones2) kl_b1 r m R))) :=
  rhs_galerkin_dot _ _ _ _ _ _ (by simp [IsTensor, kl_b0, kl_b1, kl_b2])
    (by simp [WF, kl_b0, kl_b1, kl_b2]) (by simp [WF, kl_x0, kl_x1, kl_x2]) rfl rfl

example : dotFull id [kl_b0, kl_b1, kl_b2] [kl_x0, kl_x1, kl_x2] ≠ 0 := by decide +kernel

end TT.C12
