import Mathlib.Analysis.InnerProductSpace.Basic
import Mathlib.Tactic.Linarith
import Mathlib.Tactic.Ring
import TTProps.C01

/-!
# C01b — why the squared truncation errors of the TT-SVD / TT-rounding sweeps add up

`to_tt` and `round_tt` build the approximation by `d-1` successive truncated SVDs.  With orthonormal
left factors every truncation is the *orthogonal projection* of the current partial approximation
onto a subspace of the previous one.  Abstractly: a decreasing chain of subspaces `V k` of one real or
complex inner product space `E`, and `x (k+1)` the orthogonal projection of `x k` onto `V (k+1)`.

* `nested_projection_error` : `‖x 0 - x m‖² = Σ_{k<m} ‖x k - x (k+1)‖²` (Oseledets 2011, Thm 2.2);
* `projection_norm_le`, `projection_norm_le_zero` : the remainders never grow;
* `ttsvd_error_bound`, `ttsvd_error_bound_rel` : per-bond allowance ⇒ global relative error `≤ eps`;
* `step_within_allowance` (+ `_rel`) : the bridge to `TT.C01.rankChop_tail` (model `M-trunc`);
* `ttsvd_sweep_bound` : everything chained.

All statements are over `𝕜 = ℝ` or `ℂ` (`[RCLike 𝕜]`).
-/
namespace TT.C01
open TT.Trunc

section abstract
variable {𝕜 : Type*} [RCLike 𝕜] {E : Type*} [NormedAddCommGroup E] [InnerProductSpace 𝕜 E]

/-- Pythagoras in the form needed here (real or complex). -/
theorem norm_add_sq_of_inner_eq_zero (a b : E) (h : inner 𝕜 a b = 0) :
    ‖a + b‖ ^ 2 = ‖a‖ ^ 2 + ‖b‖ ^ 2 := by
  rw [norm_add_sq (𝕜 := 𝕜), h]; simp

/-- a decreasing chain is antitone -/
theorem chain_le (V : ℕ → Submodule 𝕜 E) (hV : ∀ k, V (k + 1) ≤ V k) (j m : ℕ) :
    V (j + m) ≤ V j := by
  induction m with
  | zero => exact le_rfl
  | succ m ih => exact le_trans (hV (j + m)) ih

/-- generalised form of `nested_projection_error` with an arbitrary starting index -/
theorem nested_projection_error_from (V : ℕ → Submodule 𝕜 E) (x : ℕ → E)
    (hV : ∀ k, V (k + 1) ≤ V k) (hx : ∀ k, x (k + 1) ∈ V (k + 1))
    (horth : ∀ k, ∀ v ∈ V (k + 1), inner 𝕜 (x k - x (k + 1)) v = 0) (j m : ℕ) :
    ‖x j - x (j + m)‖ ^ 2 = ∑ k ∈ Finset.range m, ‖x (j + k) - x (j + k + 1)‖ ^ 2 := by
  induction m generalizing j with
  | zero => simp
  | succ m ih =>
    rw [Finset.sum_range_succ']
    have hsplit : x j - x (j + (m + 1)) = (x j - x (j + 1)) + (x (j + 1) - x (j + 1 + m)) := by
      have : j + (m + 1) = j + 1 + m := by omega
      rw [this]; abel
    have hmem : x (j + 1) - x (j + 1 + m) ∈ V (j + 1) := by
      apply Submodule.sub_mem _ (hx j)
      cases m with
      | zero => exact hx j
      | succ n =>
        have h1 : x (j + 1 + n + 1) ∈ V (j + 1 + n + 1) := hx (j + 1 + n)
        have h2 : V (j + 1 + (n + 1)) ≤ V (j + 1) := chain_le V hV (j + 1) (n + 1)
        exact h2 h1
    rw [hsplit, norm_add_sq_of_inner_eq_zero (𝕜 := 𝕜) _ _ (horth j _ hmem), ih (j + 1)]
    have hcongr : ∀ k ∈ Finset.range m,
        ‖x (j + 1 + k) - x (j + 1 + k + 1)‖ ^ 2 = ‖x (j + (k + 1)) - x (j + (k + 1) + 1)‖ ^ 2 := by
      intro k _
      have : j + 1 + k = j + (k + 1) := by omega
      rw [this]
    rw [Finset.sum_congr rfl hcongr]
    simp only [Nat.add_zero]
    ring

/-- **(1)**  The squared errors of nested orthogonal projections add up. -/
theorem nested_projection_error (V : ℕ → Submodule 𝕜 E) (x : ℕ → E)
    (hV : ∀ k, V (k + 1) ≤ V k) (hx : ∀ k, x (k + 1) ∈ V (k + 1))
    (horth : ∀ k, ∀ v ∈ V (k + 1), inner 𝕜 (x k - x (k + 1)) v = 0) (m : ℕ) :
    ‖x 0 - x m‖ ^ 2 = ∑ k ∈ Finset.range m, ‖x k - x (k + 1)‖ ^ 2 := by
  have h := nested_projection_error_from V x hV hx horth 0 m
  simpa using h

/-- one projection step: `‖x k‖² = ‖x k - x (k+1)‖² + ‖x (k+1)‖²` -/
theorem projection_norm_sq (V : ℕ → Submodule 𝕜 E) (x : ℕ → E)
    (hx : ∀ k, x (k + 1) ∈ V (k + 1))
    (horth : ∀ k, ∀ v ∈ V (k + 1), inner 𝕜 (x k - x (k + 1)) v = 0) (k : ℕ) :
    ‖x k‖ ^ 2 = ‖x k - x (k + 1)‖ ^ 2 + ‖x (k + 1)‖ ^ 2 := by
  have h := norm_add_sq_of_inner_eq_zero (𝕜 := 𝕜) (x k - x (k + 1)) (x (k + 1))
    (horth k _ (hx k))
  rwa [sub_add_cancel] at h

/-- **(2a)**  A projection step never increases the norm. -/
theorem projection_norm_le (V : ℕ → Submodule 𝕜 E) (x : ℕ → E)
    (hx : ∀ k, x (k + 1) ∈ V (k + 1))
    (horth : ∀ k, ∀ v ∈ V (k + 1), inner 𝕜 (x k - x (k + 1)) v = 0) (k : ℕ) :
    ‖x (k + 1)‖ ≤ ‖x k‖ := by
  have h := projection_norm_sq V x hx horth k
  have h1 : 0 ≤ ‖x k - x (k + 1)‖ ^ 2 := sq_nonneg _
  have h2 : ‖x (k + 1)‖ ^ 2 ≤ ‖x k‖ ^ 2 := by linarith
  exact le_of_sq_le_sq h2 (norm_nonneg _)

/-- **(2b)**  Hence every remainder is bounded by the initial one. -/
theorem projection_norm_le_zero (V : ℕ → Submodule 𝕜 E) (x : ℕ → E)
    (hx : ∀ k, x (k + 1) ∈ V (k + 1))
    (horth : ∀ k, ∀ v ∈ V (k + 1), inner 𝕜 (x k - x (k + 1)) v = 0) (k : ℕ) :
    ‖x k‖ ≤ ‖x 0‖ := by
  induction k with
  | zero => exact le_rfl
  | succ k ih => exact le_trans (projection_norm_le V x hx horth k) ih

/-- **(3)**  Per-bond allowance `‖x k - x (k+1)‖² ≤ δ2 · ‖x k‖²` on `m` bonds with `m · δ2 ≤ e2`
gives the global bound `‖x 0 - x m‖² ≤ e2 · ‖x 0‖²`. -/
theorem ttsvd_error_bound (V : ℕ → Submodule 𝕜 E) (x : ℕ → E)
    (hV : ∀ k, V (k + 1) ≤ V k) (hx : ∀ k, x (k + 1) ∈ V (k + 1))
    (horth : ∀ k, ∀ v ∈ V (k + 1), inner 𝕜 (x k - x (k + 1)) v = 0)
    (m : ℕ) (δ2 e2 : ℝ) (hδ : 0 ≤ δ2)
    (hstep : ∀ k, k < m → ‖x k - x (k + 1)‖ ^ 2 ≤ δ2 * ‖x k‖ ^ 2)
    (hb : (m : ℝ) * δ2 ≤ e2) :
    ‖x 0 - x m‖ ^ 2 ≤ e2 * ‖x 0‖ ^ 2 := by
  rw [nested_projection_error V x hV hx horth m]
  have h1 : ∑ k ∈ Finset.range m, ‖x k - x (k + 1)‖ ^ 2
      ≤ ∑ _k ∈ Finset.range m, δ2 * ‖x 0‖ ^ 2 := by
    apply Finset.sum_le_sum
    intro k hk
    have hk' : k < m := Finset.mem_range.mp hk
    have hn : ‖x k‖ ^ 2 ≤ ‖x 0‖ ^ 2 :=
      pow_le_pow_left₀ (norm_nonneg _) (projection_norm_le_zero V x hx horth k) 2
    exact le_trans (hstep k hk') (mul_le_mul_of_nonneg_left hn hδ)
  rw [Finset.sum_const, Finset.card_range, nsmul_eq_mul] at h1
  have h2 : (m : ℝ) * (δ2 * ‖x 0‖ ^ 2) ≤ e2 * ‖x 0‖ ^ 2 := by
    rw [← mul_assoc]
    exact mul_le_mul_of_nonneg_right hb (sq_nonneg _)
  exact le_trans h1 h2

/-- **(4)**  The form with `eps`: per-bond allowance `δ2 = eps² / m` (torchTT: `m = d - 1`) gives the
relative Frobenius error `‖x 0 - x m‖ ≤ eps · ‖x 0‖`. -/
theorem ttsvd_error_bound_rel (V : ℕ → Submodule 𝕜 E) (x : ℕ → E)
    (hV : ∀ k, V (k + 1) ≤ V k) (hx : ∀ k, x (k + 1) ∈ V (k + 1))
    (horth : ∀ k, ∀ v ∈ V (k + 1), inner 𝕜 (x k - x (k + 1)) v = 0)
    (m : ℕ) (hm : 1 ≤ m) (eps : ℝ) (heps : 0 ≤ eps)
    (hstep : ∀ k, k < m → ‖x k - x (k + 1)‖ ^ 2 ≤ eps ^ 2 / (m : ℝ) * ‖x k‖ ^ 2) :
    ‖x 0 - x m‖ ≤ eps * ‖x 0‖ := by
  have hmpos : (0 : ℝ) < (m : ℝ) := by exact_mod_cast hm
  have hδ : 0 ≤ eps ^ 2 / (m : ℝ) := div_nonneg (sq_nonneg _) hmpos.le
  have hb : (m : ℝ) * (eps ^ 2 / (m : ℝ)) ≤ eps ^ 2 := by
    rw [mul_div_cancel₀ _ hmpos.ne']
  have h := ttsvd_error_bound V x hV hx horth m _ _ hδ hstep hb
  have h' : ‖x 0 - x m‖ ^ 2 ≤ (eps * ‖x 0‖) ^ 2 := by rwa [mul_pow]
  exact le_of_sq_le_sq h' (mul_nonneg heps (norm_nonneg _))

end abstract

/-! ### (5) bridge to `M-trunc`: what `rank_chop` discards fits in the allowance -/

section bridge
variable {E : Type*} [NormedAddCommGroup E]
variable [DecidableEq ℝ] [DecidableRel (fun (a b : ℝ) => a < b)]
  [DecidableRel (fun (a b : ℝ) => a ≤ b)]

/-- **(5)**  `s` = singular values of the current step, `‖a‖² = Σ s²` (`a = x k`), and the discarded
part `a - b` (`b = x (k+1)`) has energy `tailE s r`, `r = rank_chop(s, e)`: then `‖a - b‖² ≤ e²`.
Stated for arbitrary decidability instances on `ℝ` (in particular the classical ones). -/
theorem step_within_allowance (s : List ℝ) (e : ℝ) (a b : E)
    (_hnorm : ‖a‖ ^ 2 = tailE s 0)
    (hdisc : ‖a - b‖ ^ 2 = tailE s (rankChop s e)) :
    ‖a - b‖ ^ 2 ≤ e * e := by
  rw [hdisc]; exact rankChop_tail s e

/-- the call made by the sweeps, `rank_chop(s, ep · ‖s‖)` with `‖s‖ = ‖a‖`: the result is exactly the
per-bond hypothesis `hstep` of `ttsvd_error_bound` with `δ2 = ep²`. -/
theorem step_within_allowance_rel (s : List ℝ) (ep : ℝ) (a b : E)
    (hdisc : ‖a - b‖ ^ 2 = tailE s (rankChop s (ep * ‖a‖))) :
    ‖a - b‖ ^ 2 ≤ ep ^ 2 * ‖a‖ ^ 2 := by
  rw [hdisc]
  have h := rankChop_tail s (ep * ‖a‖)
  have : ep * ‖a‖ * (ep * ‖a‖) = ep ^ 2 * ‖a‖ ^ 2 := by ring
  rwa [this] at h

end bridge

/-! ### everything chained: the sweep with `rank_chop` has relative error `≤ eps` -/

section sweep
variable {𝕜 : Type*} [RCLike 𝕜] {E : Type*} [NormedAddCommGroup E] [InnerProductSpace 𝕜 E]
variable [DecidableEq ℝ] [DecidableRel (fun (a b : ℝ) => a < b)]
  [DecidableRel (fun (a b : ℝ) => a ≤ b)]

/-- `m = d - 1` bonds; at bond `k` the singular values are `s k`, the kept rank is
`rank_chop(s k, ep · ‖x k‖)` and the discarded energy is the corresponding tail.  If
`m · ep² ≤ eps²` (the code takes `ep = eps / √(d-1)`), then `‖x 0 - x m‖ ≤ eps · ‖x 0‖`. -/
theorem ttsvd_sweep_bound (V : ℕ → Submodule 𝕜 E) (x : ℕ → E)
    (hV : ∀ k, V (k + 1) ≤ V k) (hx : ∀ k, x (k + 1) ∈ V (k + 1))
    (horth : ∀ k, ∀ v ∈ V (k + 1), inner 𝕜 (x k - x (k + 1)) v = 0)
    (m : ℕ) (s : ℕ → List ℝ) (ep eps : ℝ) (heps : 0 ≤ eps)
    (hdisc : ∀ k, k < m →
      ‖x k - x (k + 1)‖ ^ 2 = tailE (s k) (rankChop (s k) (ep * ‖x k‖)))
    (hb : (m : ℝ) * ep ^ 2 ≤ eps ^ 2) :
    ‖x 0 - x m‖ ≤ eps * ‖x 0‖ := by
  have h := ttsvd_error_bound V x hV hx horth m (ep ^ 2) (eps ^ 2) (sq_nonneg _)
    (fun k hk => step_within_allowance_rel (s k) ep (x k) (x (k + 1)) (hdisc k hk)) hb
  have h' : ‖x 0 - x m‖ ^ 2 ≤ (eps * ‖x 0‖) ^ 2 := by rwa [mul_pow]
  exact le_of_sq_le_sq h' (mul_nonneg heps (norm_nonneg _))

end sweep

/-! ### (6) non-vacuity -/

section examples

/-- trivial instance: `V k = ⊤`, constant `x` — all hypotheses hold, in any space. -/
example {𝕜 : Type*} [RCLike 𝕜] {E : Type*} [NormedAddCommGroup E] [InnerProductSpace 𝕜 E]
    (a : E) (m : ℕ) :
    ‖a - a‖ ^ 2 = ∑ _k ∈ Finset.range m, ‖a - a‖ ^ 2 :=
  nested_projection_error (𝕜 := 𝕜) (fun _ => ⊤) (fun _ => a) (fun _ => le_rfl)
    (fun _ => Submodule.mem_top) (fun _ v _ => by simp) m

/-- a genuine projection: `E = ℂ` as a real plane, `V 0 = ⊤`, `V (k+1) = ℝ·1` (the real axis),
`x 0 = 1 + i`, `x (k+1) = 1`.  One step discards `i`, the following ones nothing. -/
noncomputable def exV : ℕ → Submodule ℝ ℂ
  | 0 => ⊤
  | _ + 1 => Submodule.span ℝ {(1 : ℂ)}

noncomputable def exX : ℕ → ℂ
  | 0 => 1 + Complex.I
  | _ + 1 => 1

theorem exV_chain : ∀ k, exV (k + 1) ≤ exV k
  | 0 => le_top
  | _ + 1 => le_rfl

theorem exX_mem : ∀ k, exX (k + 1) ∈ exV (k + 1) :=
  fun _ => Submodule.subset_span rfl

theorem exX_orth : ∀ k, ∀ v ∈ exV (k + 1), inner ℝ (exX k - exX (k + 1)) v = 0 := by
  intro k v hv
  obtain ⟨c, rfl⟩ := Submodule.mem_span_singleton.mp hv
  cases k with
  | zero => simp [exX, Complex.inner]
  | succ n => simp [exX]

example : ‖exX 0 - exX 3‖ ^ 2 = ∑ k ∈ Finset.range 3, ‖exX k - exX (k + 1)‖ ^ 2 :=
  nested_projection_error exV exX exV_chain exX_mem exX_orth 3

/-- the hypotheses of `ttsvd_error_bound_rel` are satisfiable with a non-zero error:
`m = 1`, `eps = 1`: `‖i‖² = 1 ≤ 1²/1 · ‖1+i‖² = 2`. -/
example : ‖exX 0 - exX 1‖ ≤ 1 * ‖exX 0‖ := by
  refine ttsvd_error_bound_rel exV exX exV_chain exX_mem exX_orth 1 le_rfl 1 zero_le_one ?_
  intro k hk
  have hk0 : k = 0 := by omega
  subst hk0
  have h1 : exX 0 - exX 1 = Complex.I := by simp [exX]
  have h2 : ‖exX 0‖ ^ 2 = 2 := by
    have : ‖exX 0‖ ^ 2 = Complex.normSq (exX 0) := (Complex.normSq_eq_norm_sq _).symm
    rw [this]; simp [exX, Complex.normSq_apply]; norm_num
  rw [h1, h2]; simp

/-- the bridge lemma on a concrete step: `s = [2, 1]`, `e = 1` keeps rank `1` and discards `1 ≤ 1`. -/
example : tailE ([2, 1] : List ℝ) (rankChop ([2, 1] : List ℝ) (1 : ℝ)) ≤ (1 : ℝ) * 1 :=
  rankChop_tail (α := ℝ) _ _

/-- `step_within_allowance` applied in `E = ℝ`: `a = 3`, `b = 3`, `s = [3]`, `e = 1`
(`tailE [3] 0 = 9 = ‖a‖²`, nothing can be discarded from a single singular value). -/
example : ‖(3 : ℝ) - 3‖ ^ 2 ≤ (1 : ℝ) * 1 := by
  have hr : rankChop ([3] : List ℝ) (1 : ℝ) = 1 :=
    le_antisymm (rankChop_bounds _ _ (by simp)).2 (rankChop_bounds _ _ (by simp)).1
  refine step_within_allowance ([3] : List ℝ) 1 (3 : ℝ) 3 ?_ ?_
  · simp [tailE, sqSum]; norm_num
  · rw [hr]; simp [tailE, sqSum]

end examples

end TT.C01
