import TTProps.C16
import TTLemmas.Sweep
import TTLemmas.Matmul
import TTProps.C07

/-!
# C16b — `riemannian_projection(x, ·)` is self-adjoint (`torchtt/manifold.py`)

Model: `TTModel/Manifold.lean` (`project ls rs zs = delta2cores ls rs (projSds ls rs zs)`).  Everything
is over an arbitrary commutative ring, for every order `d ≥ 2`, all mode sizes, all rank profiles of
`x`, and arbitrary ranks of `z`, `w`.

* `inner ms ns xs ys` — Frobenius inner product `Σ_{is,js} x[is,js]·y[is,js]` over the index box
  `ms × ns`, in the formulation of `C07.dotFull_eq` (`sumIdx` rows outer / columns inner, `is.zip js`).
* `proj_selfadjoint`: `⟨P_x z, w⟩ = ⟨z, P_x w⟩`; `proj_selfadjoint_tail` is the same with the weakest
  mode hypothesis (gauges agree in mode sizes from the second core on).
* `proj_selfadjoint_dot`: the same for the implemented Gram sweep `dotFull id` (`torchtt.dot`).

No orthogonality of `ls` / `rs` is used: `δ_k(z) = (I - l_k l_kᵀ) E_k(z)` with `E_k` the two-sided
environment (`sa_F`), and `I - l lᵀ` is symmetric for every `l` (`sa_sym_abs`, `sa_loc_symm`).
Proof: `sa_A_cons` peels one core off the pairing of the recursive tangent sum `mf_tsum` with a chain
(local pairing `sa_loc` + the pairing of the tails with the updated left interface `pleftStep`),
`sa_right` identifies the right interface matrices `prightList` with dense pairings of the suffixes,
`sa_main` is the induction over the cores.  All helper names carry the prefix `sa_`.
-/

namespace TT.C16
open TT TT.Kern TT.Manifold Finset
variable {α : Type} [CommRing α]

/-! ### sums over all multi-indices -/

theorem sa_S2_add_fn (ms ns : List Nat) (f g : List Nat → List Nat → α) :
    sw_S2 ms ns (fun is js => f is js + g is js) = sw_S2 ms ns f + sw_S2 ms ns g := by
  simp only [sw_S2]
  rw [← sumIdx_add_fn]
  apply sw_sumIdx_congr; intro is
  exact sumIdx_add_fn ns _ _

theorem sa_S2_congr_len (ms ns : List Nat) {f g : List Nat → List Nat → α}
    (h : ∀ is js, is.length = ms.length → js.length = ns.length → f is js = g is js) :
    sw_S2 ms ns f = sw_S2 ms ns g := by
  simp only [sw_S2]
  apply sumIdx_congr_len; intro is his
  apply sumIdx_congr_len; intro js hjs
  exact h is js his hjs

/-- dense pairing of two chains started at rank indices `(a, b)`, over the index box `ms × ns` -/
def sa_D (ms ns : List Nat) (xs ys : List (Core α)) (a b : Nat) : α :=
  sw_S2 ms ns (fun is js => chain xs (is.zip js) a 0 * chain ys (is.zip js) b 0)

/-- dense pairing of the recursive tangent sum with a chain -/
def sa_T (ms ns : List Nat) (ls rs ds ws : List (Core α)) (a b : Nat) : α :=
  sw_S2 ms ns (fun is js => mf_tsum ls rs ds (is.zip js) a * chain ws (is.zip js) b 0)

theorem sa_T_cons (m n : Nat) (ms ns : List Nat) (l r d w : Core α) (ls rs ds ws : List (Core α))
    (a b : Nat) :
    sa_T (m :: ms) (n :: ns) (l :: ls) (r :: rs) (d :: ds) (w :: ws) a b =
    sumTo m (fun i => sumTo n (fun j =>
      sumTo d.r1 (fun R => sumTo w.r1 (fun S =>
        (d.get a i j R * w.get b i j S) * sa_D ms ns rs ws R S)) +
      sumTo l.r1 (fun k => sumTo w.r1 (fun S =>
        (l.get a i j k * w.get b i j S) * sa_T ms ns ls rs ds ws k S)))) := by
  unfold sa_T sa_D
  rw [sw_S2_cons]
  refine sumTo_congr fun i _ => sumTo_congr fun j _ => ?_
  simp only [List.zip_cons_cons, mf_tsum_cons, chain]
  rw [sw_S2_congr (g := fun is js =>
      sumTo d.r1 (fun R => sumTo w.r1 (fun S => (d.get a i j R * w.get b i j S) *
        (chain rs (is.zip js) R 0 * chain ws (is.zip js) S 0))) +
      sumTo l.r1 (fun k => sumTo w.r1 (fun S => (l.get a i j k * w.get b i j S) *
        (mf_tsum ls rs ds (is.zip js) k * chain ws (is.zip js) S 0))))]
  · rw [sa_S2_add_fn]
    congr 1
    · rw [sw_S2_sumTo]
      refine sumTo_congr fun R _ => ?_
      rw [sw_S2_sumTo]
      refine sumTo_congr fun S _ => ?_
      rw [sw_S2_mul_left]
    · rw [sw_S2_sumTo]
      refine sumTo_congr fun k _ => ?_
      rw [sw_S2_sumTo]
      refine sumTo_congr fun S _ => ?_
      rw [sw_S2_mul_left]
  · intro is js
    rw [add_mul, sumTo_mul_sumTo, sumTo_mul_sumTo]
    congr 1
    · refine sumTo_congr fun R _ => sumTo_congr fun S _ => ?_
      ring
    · refine sumTo_congr fun k _ => sumTo_congr fun S _ => ?_
      ring

/-- weighted pairing `Σ_{a,b} Q[a,b] · ⟨tangent sum from a, chain of ws from b⟩` -/
def sa_A (ms ns : List Nat) (ls rs ds ws : List (Core α)) (Q : Phi2 α) (ρ σ : Nat) : α :=
  sumTo ρ (fun a => sumTo σ (fun b => Q a b * sa_T ms ns ls rs ds ws a b))

/-- local pairing of a variation `d` with the two-sided environment of `w` -/
def sa_loc (Q P : Phi2 α) (d w : Core α) (ρ m n : Nat) : α :=
  sumTo ρ (fun a => sumTo w.r0 (fun b => Q a b * sumTo m (fun i => sumTo n (fun j =>
    sumTo d.r1 (fun R => sumTo w.r1 (fun S => (d.get a i j R * w.get b i j S) * P R S))))))

theorem sa_A_cons (ms ns : List Nat) (l r d w : Core α) (ls rs ds ws : List (Core α)) (Q : Phi2 α) :
    sa_A (l.m :: ms) (l.n :: ns) (l :: ls) (r :: rs) (d :: ds) (w :: ws) Q l.r0 w.r0 =
      sa_loc Q (sa_D ms ns rs ws) d w l.r0 l.m l.n +
        sa_A ms ns ls rs ds ws (pleftStep Q l w) l.r1 w.r1 := by
  unfold sa_A sa_loc
  simp only [sa_T_cons, sumTo_add_fn, mul_add]
  congr 1
  unfold pleftStep
  simp only [← sumTo_mul_right, ← sumTo_mul_left]
  symm
  rw [sw_comm5, sw_comm5]
  refine sumTo_congr fun a _ => sumTo_congr fun b _ => sumTo_congr fun i _ =>
    sumTo_congr fun j _ => sumTo_congr fun k _ => sumTo_congr fun S _ => ?_
  ring

/-! ### the local pairing and the symmetry of the gauge projector `I - l lᵀ` -/

/-- two-sided environment of the core `w`: `Σ_{b,S} Q[a,b] · w[b,i,j,S] · P[R,S]` -/
def sa_F (Q P : Phi2 α) (w : Core α) (a i j R : Nat) : α :=
  sumTo w.r1 (fun S => mf_tmp1 Q w a i j S * P R S)

theorem sa_loc_eq (Q P : Phi2 α) (d w : Core α) (ρ m n : Nat) :
    sa_loc Q P d w ρ m n =
      sumTo ρ (fun a => sumTo m (fun i => sumTo n (fun j => sumTo d.r1 (fun R =>
        d.get a i j R * sa_F Q P w a i j R)))) := by
  unfold sa_loc sa_F mf_tmp1
  simp only [← sumTo_mul_right, ← sumTo_mul_left]
  refine sumTo_congr fun a _ => ?_
  rw [sw_comm4]
  refine sumTo_congr fun i _ => sumTo_congr fun j _ => sumTo_congr fun R _ =>
    sumTo_congr fun S _ => sumTo_congr fun b _ => ?_
  ring

theorem sa_swap (n m p q : Nat) (l F : Nat → Nat → Nat → Nat → α) (G : Nat → Nat → α) :
    sumTo n (fun a => sumTo m (fun i => sumTo p (fun j => sumTo q (fun R =>
      sumTo q (fun R' => l a i j R' * G R' R) * F a i j R)))) =
    sumTo q (fun R => sumTo q (fun R' => G R' R *
      sumTo n (fun a => sumTo m (fun i => sumTo p (fun j => l a i j R' * F a i j R))))) := by
  simp only [← sumTo_mul_right, ← sumTo_mul_left]
  symm
  rw [sw_comm4, sw_comm4]
  refine sumTo_congr fun a _ => sumTo_congr fun i _ => sumTo_congr fun j _ =>
    sumTo_congr fun R _ => sumTo_congr fun R' _ => ?_
  ring

/-- `⟨(I - l lᵀ) F, F'⟩ = ⟨F, F'⟩ - ⟨lᵀF, lᵀF'⟩` -/
theorem sa_sym_half (n m p q : Nat) (l F F' : Nat → Nat → Nat → Nat → α) :
    sumTo n (fun a => sumTo m (fun i => sumTo p (fun j => sumTo q (fun R =>
      (F a i j R + - sumTo q (fun R' => l a i j R' *
        sumTo n (fun a' => sumTo m (fun i' => sumTo p (fun j' => l a' i' j' R' * F a' i' j' R))))) *
      F' a i j R)))) =
    sumTo n (fun a => sumTo m (fun i => sumTo p (fun j => sumTo q (fun R =>
      F a i j R * F' a i j R)))) +
    - sumTo q (fun R => sumTo q (fun R' =>
      sumTo n (fun a => sumTo m (fun i => sumTo p (fun j => l a i j R' * F a i j R))) *
      sumTo n (fun a => sumTo m (fun i => sumTo p (fun j => l a i j R' * F' a i j R))))) := by
  simp only [add_mul, sumTo_add_fn, neg_mul, sumTo_neg]
  congr 2
  exact sa_swap n m p q l F' (fun R' R =>
    sumTo n (fun a' => sumTo m (fun i' => sumTo p (fun j' => l a' i' j' R' * F a' i' j' R))))

theorem sa_sym_abs (n m p q : Nat) (l F F' : Nat → Nat → Nat → Nat → α) :
    sumTo n (fun a => sumTo m (fun i => sumTo p (fun j => sumTo q (fun R =>
      (F a i j R + - sumTo q (fun R' => l a i j R' *
        sumTo n (fun a' => sumTo m (fun i' => sumTo p (fun j' => l a' i' j' R' * F a' i' j' R))))) *
      F' a i j R)))) =
    sumTo n (fun a => sumTo m (fun i => sumTo p (fun j => sumTo q (fun R =>
      (F' a i j R + - sumTo q (fun R' => l a i j R' *
        sumTo n (fun a' => sumTo m (fun i' => sumTo p (fun j' => l a' i' j' R' * F' a' i' j' R))))) *
      F a i j R)))) := by
  rw [sa_sym_half, sa_sym_half]
  congr 1
  · refine sumTo_congr fun a _ => sumTo_congr fun i _ => sumTo_congr fun j _ =>
      sumTo_congr fun R _ => ?_
    ring
  · congr 1
    refine sumTo_congr fun R _ => sumTo_congr fun R' _ => ?_
    ring

/-- the gauge-projected variation is `(I - l lᵀ)` applied to the two-sided environment -/
theorem sa_projSd_eq (L Rp : Phi2 α) (rR : Nat) (l z : Core α) (a i j R : Nat) :
    (projSd L (some Rp) rR l z).get a i j R =
      sa_F L Rp z a i j R + - sumTo l.r1 (fun R' => l.get a i j R' *
        sumTo l.r0 (fun a' => sumTo l.m (fun i' => sumTo l.n (fun j' =>
          l.get a' i' j' R' * sa_F L Rp z a' i' j' R)))) := by
  rw [mf_projSd_get_some']
  unfold sa_F
  simp only [add_mul, sumTo_add_fn, neg_mul, sumTo_neg, mf_pleftStep_alt]
  congr 2
  simp only [← sumTo_mul_right, ← sumTo_mul_left]
  rw [sumTo_comm]
  refine sumTo_congr fun R' _ => ?_
  rw [sw_comm3]
  refine sumTo_congr fun a' _ => sumTo_congr fun i' _ => sumTo_congr fun j' _ =>
    sumTo_congr fun S _ => ?_
  ring

/-- **local self-adjointness**: pairing the variation of `z` with the environment of `w` is symmetric -/
theorem sa_loc_symm (Lz Lw prz prw : Phi2 α) (l z w : Core α) :
    sa_loc Lw prw (projSd Lz (some prz) l.r1 l z) w l.r0 l.m l.n =
      sa_loc Lz prz (projSd Lw (some prw) l.r1 l w) z l.r0 l.m l.n := by
  rw [sa_loc_eq, sa_loc_eq]
  show sumTo l.r0 (fun a => sumTo l.m (fun i => sumTo l.n (fun j => sumTo l.r1 (fun R => _)))) =
    sumTo l.r0 (fun a => sumTo l.m (fun i => sumTo l.n (fun j => sumTo l.r1 (fun R => _))))
  simp only [sa_projSd_eq]
  exact sa_sym_abs l.r0 l.m l.n l.r1 l.get (sa_F Lz prz z) (sa_F Lw prw w)

/-! ### the right interface matrices `Pright` are dense pairings of the suffixes -/

theorem sa_D_cons (m n : Nat) (ms ns : List Nat) (x y : Core α) (xs ys : List (Core α)) (a b : Nat) :
    sa_D (m :: ms) (n :: ns) (x :: xs) (y :: ys) a b =
    sumTo m (fun i => sumTo n (fun j => sumTo x.r1 (fun p => sumTo y.r1 (fun q =>
      (x.get a i j p * y.get b i j q) * sa_D ms ns xs ys p q)))) := by
  unfold sa_D
  rw [sw_S2_cons]
  refine sumTo_congr fun i _ => sumTo_congr fun j _ => ?_
  simp only [List.zip_cons_cons, chain]
  rw [sw_S2_congr (g := fun is js => sumTo x.r1 (fun p => sumTo y.r1 (fun q =>
        (x.get a i j p * y.get b i j q) *
          (chain xs (is.zip js) p 0 * chain ys (is.zip js) q 0))))]
  · rw [sw_S2_sumTo]
    refine sumTo_congr fun p _ => ?_
    rw [sw_S2_sumTo]
    refine sumTo_congr fun q _ => ?_
    rw [sw_S2_mul_left]
  · intro is js
    rw [sumTo_mul_sumTo]
    refine sumTo_congr fun p _ => sumTo_congr fun q _ => ?_
    ring

theorem sa_D_nil (a b : Nat) (ha : a < 1) (hb : b < 1) :
    sa_D [] [] ([] : List (Core α)) [] a b = 1 := by
  have h1 : a = 0 := by omega
  have h2 : b = 0 := by omega
  subst h1 h2
  simp [sa_D, sw_S2, sumIdx, chain]

theorem sa_prightStep_D (P : Phi2 α) (ms ns : List Nat) (r w : Core α) (rs ws : List (Core α))
    (h : ∀ p q, p < r.r1 → q < w.r1 → P p q = sa_D ms ns rs ws p q) (R S : Nat) :
    prightStep P r w R S = sa_D (r.m :: ms) (r.n :: ns) (r :: rs) (w :: ws) R S := by
  rw [sa_D_cons]
  unfold prightStep
  rw [sw_comm3, sw_comm3]
  refine sumTo_congr fun i _ => sumTo_congr fun j _ => sumTo_congr fun p hp =>
    sumTo_congr fun q hq => ?_
  rw [h p q hp hq]
  ring

/-- the head of `prightList rs ws` is the dense pairing of the two suffixes -/
theorem sa_right (rs : List (Core α)) : ∀ (ws : List (Core α)) (ρ σ : Nat) (p : Phi2 α)
    (ps : List (Phi2 α)), ws.length = rs.length → WF rs ρ → WF ws σ → prightList rs ws = p :: ps →
    ∀ R S, p R S = sa_D (modesM rs) (modesN rs) rs ws R S := by
  induction rs with
  | nil => intro ws ρ σ p ps _ _ _ h; simp [prightList] at h
  | cons r rs ih =>
    intro ws ρ σ p ps hlen hwr hww h R S
    match ws, hlen, hww with
    | w :: ws, hlen, hww =>
      obtain ⟨_, hwr'⟩ := hwr
      obtain ⟨_, hww'⟩ := hww
      have hlen' : ws.length = rs.length := by simpa using hlen
      cases rs with
      | nil =>
        match ws, hlen', hww' with
        | [], _, hww' =>
          have hr1 : r.r1 = 1 := hwr'
          have hw1 : w.r1 = 1 := hww'
          rw [mf_prightList_single] at h
          obtain ⟨rfl, _⟩ := List.cons.inj h
          exact sa_prightStep_D _ [] [] r w [] []
            (fun p q hp hq => (sa_D_nil p q (by omega) (by omega)).symm) R S
      | cons r' rs' =>
        match ws, hlen', hww' with
        | w' :: ws', hlen', hww' =>
          have lP := mf_prightList_length (r' :: rs') (w' :: ws') hlen'
          generalize hP : prightList (r' :: rs') (w' :: ws') = PW at lP
          match PW, lP with
          | p' :: ps', _ =>
            rw [mf_prightList_cons r _ _ _ p' ps' hP] at h
            obtain ⟨rfl, _⟩ := List.cons.inj h
            exact sa_prightStep_D _ _ _ r w _ _
              (fun p q _ _ => ih (w' :: ws') r.r1 w.r1 p' ps' hlen' hwr' hww' hP p q) R S

omit [CommRing α] in
theorem sa_modes_of_SameModes (xs ys : List (Core α)) (h : SameModes xs ys) :
    modesM xs = modesM ys ∧ modesN xs = modesN ys := by
  induction xs generalizing ys with
  | nil =>
    match ys, h with
    | [], _ => exact ⟨rfl, rfl⟩
  | cons x xs ih =>
    match ys, h with
    | y :: ys, h =>
      obtain ⟨h1, h2, h3⟩ := h
      obtain ⟨i1, i2⟩ := ih ys h3
      simp only [modesM, modesN, List.map_cons] at i1 i2 ⊢
      rw [h1, h2, i1, i2]
      exact ⟨rfl, rfl⟩

theorem sa_loc_congr (Q P P' : Phi2 α) (d w : Core α) (ρ m n : Nat)
    (h : ∀ R S, R < d.r1 → S < w.r1 → P R S = P' R S) :
    sa_loc Q P d w ρ m n = sa_loc Q P' d w ρ m n := by
  unfold sa_loc
  refine sumTo_congr fun a _ => sumTo_congr fun b _ => ?_
  congr 1
  refine sumTo_congr fun i _ => sumTo_congr fun j _ => sumTo_congr fun R hR =>
    sumTo_congr fun S hS => ?_
  rw [h R S hR hS]

/-- the last core: no gauge projection, the pairing is the plain pairing of the two left
    environments -/
theorem sa_loc_last (Lz Lw : Phi2 α) (l z w : Core α) (ρ m n : Nat) (hz : z.r1 = 1) (hw : w.r1 = 1) :
    sa_loc Lw (sa_D [] [] [] []) (projSd Lz none 0 l z) w ρ m n =
      sumTo ρ (fun a => sumTo m (fun i => sumTo n (fun j =>
        mf_tmp1 Lz z a i j 0 * mf_tmp1 Lw w a i j 0))) := by
  rw [sa_loc_eq]
  show sumTo ρ (fun a => sumTo m (fun i => sumTo n (fun j => sumTo z.r1 (fun R => _)))) = _
  rw [hz]
  refine sumTo_congr fun a _ => sumTo_congr fun i _ => sumTo_congr fun j _ => ?_
  rw [sumTo_one, mf_projSd_get_none']
  unfold sa_F
  rw [hw, sumTo_one, sa_D_nil 0 0 (by omega) (by omega), mul_one]

/-! ### the induction over the cores -/

theorem sa_A_nil (Q : Phi2 α) (ρ σ : Nat) :
    sa_A [] [] ([] : List (Core α)) [] [] [] Q ρ σ = 0 := by
  unfold sa_A
  apply sumTo_eq_zero; intro a _
  apply sumTo_eq_zero; intro b _
  simp [sa_T, sw_S2, sumIdx, mf_tsum]

theorem sa_main (ls : List (Core α)) : ∀ (rs zs ws : List (Core α)) (ρ σz σw : Nat) (Lz Lw : Phi2 α),
    ls ≠ [] → SameRanks ls rs ls ρ → WF zs σz → WF ws σw → zs.length = ls.length →
    ws.length = ls.length → SameModes ls.tail rs.tail →
    sa_A (modesM ls) (modesN ls) ls rs (projSdsGo ls zs (prightList rs zs) Lz) ws Lw ρ σw =
      sa_A (modesM ls) (modesN ls) ls rs (projSdsGo ls ws (prightList rs ws) Lw) zs Lz ρ σz := by
  induction ls with
  | nil => intro _ _ _ _ _ _ _ _ hne; exact absurd rfl hne
  | cons l ls ih =>
    intro rs zs ws ρ σz σw Lz Lw _ hs hwz hww hlz hlw hm
    match rs, zs, ws, hs, hwz, hww, hlz, hlw, hm with
    | r :: rs, z :: zs, w :: ws, hs, hwz, hww, hlz, hlw, hm =>
      obtain ⟨hl0, hr0, _, hl1, _, hs'⟩ := hs
      obtain ⟨hz0, hwz'⟩ := hwz
      obtain ⟨hw0, hww'⟩ := hww
      subst hl0 hz0 hw0
      cases ls with
      | nil =>
        match rs, zs, ws, hs', hlz, hlw with
        | [], [], [], hs', _, _ =>
          have hz1 : z.r1 = 1 := hwz'
          have hw1 : w.r1 = 1 := hww'
          have eZ : projSdsGo [l] [z] (prightList [r] [z]) Lz = [projSd Lz none 0 l z] := rfl
          have eW : projSdsGo [l] [w] (prightList [r] [w]) Lw = [projSd Lw none 0 l w] := rfl
          rw [eZ, eW]
          show sa_A (l.m :: []) (l.n :: []) _ _ _ _ _ _ _ = sa_A (l.m :: []) (l.n :: []) _ _ _ _ _ _ _
          rw [sa_A_cons, sa_A_cons, sa_A_nil, sa_A_nil, add_zero, add_zero,
            sa_loc_last Lz Lw l z w _ _ _ hz1 hw1, sa_loc_last Lw Lz l w z _ _ _ hw1 hz1]
          refine sumTo_congr fun a _ => sumTo_congr fun i _ => sumTo_congr fun j _ => ?_
          ring
      | cons l' ls' =>
        match rs, zs, ws, hs', hwz', hww', hlz, hlw, hm with
        | r' :: rs', z' :: zs', w' :: ws', hs', hwz', hww', hlz, hlw, hm =>
          have hlz' : (z' :: zs').length = (l' :: ls').length := by simpa using hlz
          have hlw' : (w' :: ws').length = (l' :: ls').length := by simpa using hlw
          obtain ⟨hlr', _⟩ := mf_SameRanks_length _ _ _ _ hs'
          have hwr' : WF (r' :: rs') r.r1 := (mf_SameRanks_WF _ _ _ _ hs').2.1
          obtain ⟨hmM, hmN⟩ := sa_modes_of_SameModes (l' :: ls') (r' :: rs') hm
          rw [← hl1] at hs'
          have IH := ih (r' :: rs') (z' :: zs') (w' :: ws') l.r1 z.r1 w.r1 (pleftStep Lz l z)
            (pleftStep Lw l w) (by simp) hs' hwz' hww' hlz' hlw' hm.2.2
          have lZ := mf_prightList_length (r' :: rs') (z' :: zs') (by omega)
          have lW := mf_prightList_length (r' :: rs') (w' :: ws') (by omega)
          have hRz := sa_right (r' :: rs') (z' :: zs') r.r1 z.r1
          have hRw := sa_right (r' :: rs') (w' :: ws') r.r1 w.r1
          generalize hPZ : prightList (r' :: rs') (z' :: zs') = PZ at IH lZ hRz
          generalize hPW : prightList (r' :: rs') (w' :: ws') = PW at IH lW hRw
          match PZ, PW, lZ, lW with
          | pz :: pzs, pw :: pws, _, _ =>
            rw [mf_prightList_cons r _ _ _ pz pzs hPZ, mf_prightList_cons r _ _ _ pw pws hPW,
              mf_projSdsGo_cons2', mf_projSdsGo_cons2']
            show sa_A (l.m :: modesM (l' :: ls')) (l.n :: modesN (l' :: ls')) _ _ _ _ _ _ _ =
              sa_A (l.m :: modesM (l' :: ls')) (l.n :: modesN (l' :: ls')) _ _ _ _ _ _ _
            rw [sa_A_cons, sa_A_cons, IH]
            congr 1
            rw [sa_loc_congr Lw _ pw _ _ _ _ _ (fun R S _ _ => by
                rw [hmM, hmN]; exact (hRw pw pws (by omega) hwr' hww' rfl R S).symm),
              sa_loc_congr Lz _ pz _ _ _ _ _ (fun R S _ _ => by
                rw [hmM, hmN]; exact (hRz pz pzs (by omega) hwr' hwz' rfl R S).symm)]
            exact sa_loc_symm Lz Lw pz pw l z w

/-! ### the theorem -/

/-- Frobenius inner product `Σ_{is, js} x[is, js] · y[is, js]` over the index box `ms × ns`
    (rows outer, columns inner: the shape of the right-hand side of `C07.dotFull_eq`) -/
def inner (ms ns : List Nat) (xs ys : List (Core α)) : α :=
  sumIdx ms (fun is => sumIdx ns (fun js => full xs (is.zip js) * full ys (is.zip js)))

theorem sa_inner_project (ls rs zs ws : List (Core α))
    (hs : SameRanks ls rs ls 1) (hz : WF zs 1) (hlz : zs.length = ls.length) (h2 : 2 ≤ ls.length) :
    inner (modesM ls) (modesN ls) (project ls rs zs) ws =
      sa_A (modesM ls) (modesN ls) ls rs (projSds ls rs zs) ws (fun _ _ => 1) 1 1 := by
  have hne : ls ≠ [] := by intro h; simp [h] at h2
  unfold sa_A
  rw [sumTo_one, sumTo_one, one_mul]
  show sw_S2 _ _ _ = sw_S2 _ _ _
  apply sa_S2_congr_len; intro is js his hjs
  unfold project
  rw [mf_full_delta2cores ls rs _ _ (SameRanks_projSds ls rs zs hs hz hlz hne) h2
    (by simp [modesM, modesN] at his hjs; simp [his, hjs])]
  rfl

/-- **`riemannian_projection(x, ·)` is self-adjoint for the Frobenius inner product**, for every order
    `d ≥ 2`, all mode sizes and all rank profiles, over any commutative ring; `z`, `w` are arbitrary
    trains of the order of `x` (any ranks).  No orthogonality of the gauges `ls`, `rs` is needed —
    only their shapes: `SameRanks ls rs ls 1` (rank profile of `x`) and equal mode sizes of `ls` and
    `rs` from the second core on.  The inner product runs over the index box of `x` (`modesM ls`,
    `modesN ls`). -/
theorem proj_selfadjoint_tail (ls rs zs ws : List (Core α))
    (hs : SameRanks ls rs ls 1) (hm : SameModes ls.tail rs.tail) (hz : WF zs 1) (hw : WF ws 1)
    (hlz : zs.length = ls.length) (hlw : ws.length = ls.length) (h2 : 2 ≤ ls.length) :
    inner (modesM ls) (modesN ls) (project ls rs zs) ws =
      inner (modesM ls) (modesN ls) zs (project ls rs ws) := by
  have hne : ls ≠ [] := by intro h; simp [h] at h2
  have hcomm : inner (modesM ls) (modesN ls) zs (project ls rs ws) =
      inner (modesM ls) (modesN ls) (project ls rs ws) zs := by
    unfold inner
    apply sw_sumIdx_congr; intro is
    apply sw_sumIdx_congr; intro js
    ring
  rw [hcomm, sa_inner_project ls rs zs ws hs hz hlz h2, sa_inner_project ls rs ws zs hs hw hlw h2]
  exact sa_main ls rs zs ws 1 1 1 _ _ hne hs hz hw hlz hlw hm

omit [CommRing α] in
theorem sa_SameModes_tail (xs ys : List (Core α)) (h : SameModes xs ys) : SameModes xs.tail ys.tail := by
  match xs, ys, h with
  | [], [], _ => trivial
  | x :: xs, y :: ys, h => exact h.2.2

/-- the same with the natural hypothesis "the two gauges of `x` have the same mode sizes" -/
theorem proj_selfadjoint (ls rs zs ws : List (Core α))
    (hs : SameRanks ls rs ls 1) (hm : SameModes ls rs) (hz : WF zs 1) (hw : WF ws 1)
    (hlz : zs.length = ls.length) (hlw : ws.length = ls.length) (h2 : 2 ≤ ls.length) :
    inner (modesM ls) (modesN ls) (project ls rs zs) ws =
      inner (modesM ls) (modesN ls) zs (project ls rs ws) :=
  proj_selfadjoint_tail ls rs zs ws hs (sa_SameModes_tail ls rs hm) hz hw hlz hlw h2

/-! ### the same statement for the model-level inner product `dotFull` (`torchtt.dot`) -/

omit [CommRing α] in
theorem sa_modes_deltaTail [Zero α] (ls : List (Core α)) : ∀ (rs ds : List (Core α)), ls ≠ [] →
    rs.length = ls.length → ds.length = ls.length →
    modesM (deltaTail ls rs ds) = modesM rs ∧ modesN (deltaTail ls rs ds) = modesN rs := by
  induction ls with
  | nil => intro _ _ hne; exact absurd rfl hne
  | cons l ls ih =>
    intro rs ds _ hr hd
    match rs, ds, hr, hd with
    | r :: rs, d :: ds, hr, hd =>
      cases ls with
      | nil =>
        match rs, ds, hr, hd with
        | [], [], _, _ => exact ⟨rfl, rfl⟩
      | cons l' ls' =>
        match rs, ds, hr, hd with
        | r' :: rs', d' :: ds', hr, hd =>
          obtain ⟨i1, i2⟩ := ih (r' :: rs') (d' :: ds') (by simp) (by simpa using hr) (by simpa using hd)
          have e : deltaTail (l :: l' :: ls') (r :: r' :: rs') (d :: d' :: ds') =
              catR0 (catR1 r (zeroLike r)) (catR1 d l) ::
                deltaTail (l' :: ls') (r' :: rs') (d' :: ds') := rfl
          rw [e, modesM_cons, modesN_cons, i1, i2]
          exact ⟨rfl, rfl⟩

/-- the projection has the mode sizes of `x` when `z` and the gauges do -/
theorem sa_modes_project (ls rs zs : List (Core α)) (hs : SameRanks ls rs ls 1)
    (hmr : SameModes ls rs) (hmz : SameModes ls zs) (hz : WF zs 1) (h2 : 2 ≤ ls.length) :
    modesM (project ls rs zs) = modesM ls ∧ modesN (project ls rs zs) = modesN ls := by
  have hne : ls ≠ [] := by intro h; simp [h] at h2
  have hlz : zs.length = ls.length := (sw_SameModes_length ls zs hmz).symm
  obtain ⟨hlr, hld⟩ := mf_SameRanks_length _ _ _ _ (SameRanks_projSds ls rs zs hs hz hlz hne)
  match ls, rs, zs, h2, hmr, hmz, hlr, hld with
  | l :: l' :: ls', r :: r' :: rs', z :: z' :: zs', _, hmr, hmz, hlr, hld =>
    obtain ⟨d, ds, hd, hdm, hdn⟩ : ∃ d ds, projSds (l :: l' :: ls') (r :: r' :: rs') (z :: z' :: zs') =
        d :: ds ∧ d.m = z.m ∧ d.n = z.n := ⟨_, _, rfl, rfl, rfl⟩
    unfold project
    rw [hd] at hld ⊢
    obtain ⟨i1, i2⟩ := sa_modes_deltaTail (l' :: ls') (r' :: rs') ds (by simp)
      (by simpa using hlr) (by simpa using hld)
    obtain ⟨j1, j2⟩ := sa_modes_of_SameModes _ _ hmr.2.2
    have e : delta2cores (l :: l' :: ls') (r :: r' :: rs') (d :: ds) =
        catR1 d l :: deltaTail (l' :: ls') (r' :: rs') ds := rfl
    rw [e, modesM_cons, modesN_cons, i1, i2, ← j1, ← j2]
    constructor
    · show d.m :: _ = l.m :: _
      rw [hdm, hmz.1]; rfl
    · show d.n :: _ = l.n :: _
      rw [hdn, hmz.2.1]; rfl

omit [CommRing α] in
theorem sa_sameModes_of_modes (xs ys : List (Core α)) (hM : modesM xs = modesM ys)
    (hN : modesN xs = modesN ys) : SameModes xs ys := by
  induction xs generalizing ys with
  | nil =>
    cases ys with
    | nil => trivial
    | cons y ys => simp [modesM] at hM
  | cons x xs ih =>
    cases ys with
    | nil => simp [modesM] at hM
    | cons y ys =>
      rw [modesM_cons, modesM_cons, List.cons.injEq] at hM
      rw [modesN_cons, modesN_cons, List.cons.injEq] at hN
      exact ⟨hM.1, hN.1, ih ys hM.2 hN.2⟩

/-- **self-adjointness for the implemented inner product**: `dot(P_x z, w) = dot(z, P_x w)` where `dot`
    is the Gram sweep `dotFull` of `torchtt.dot` (real case `cj = id`) and `x`, `z`, `w` and the two
    gauges of `x` all have the same mode sizes. -/
theorem proj_selfadjoint_dot (ls rs zs ws : List (Core α))
    (hs : SameRanks ls rs ls 1) (hmr : SameModes ls rs) (hmz : SameModes ls zs)
    (hmw : SameModes ls ws) (hz : WF zs 1) (hw : WF ws 1) (h2 : 2 ≤ ls.length) :
    dotFull id (project ls rs zs) ws = dotFull id zs (project ls rs ws) := by
  have hlz : zs.length = ls.length := (sw_SameModes_length ls zs hmz).symm
  have hlw : ws.length = ls.length := (sw_SameModes_length ls ws hmw).symm
  obtain ⟨pz1, pz2⟩ := sa_modes_project ls rs zs hs hmr hmz hz h2
  obtain ⟨pw1, pw2⟩ := sa_modes_project ls rs ws hs hmr hmw hw h2
  obtain ⟨z1, z2⟩ := sa_modes_of_SameModes _ _ hmz
  obtain ⟨w1, w2⟩ := sa_modes_of_SameModes _ _ hmw
  rw [C07.dotFull_eq id (fun _ _ => rfl) (fun _ _ => rfl) rfl _ _ (WF_project ls rs zs hs hz hlz h2) hw
      (sa_sameModes_of_modes _ _ (by rw [pz1, w1]) (by rw [pz2, w2])),
    C07.dotFull_eq id (fun _ _ => rfl) (fun _ _ => rfl) rfl _ _ hz (WF_project ls rs ws hs hw hlw h2)
      (sa_sameModes_of_modes _ _ (by rw [pw1, z1]) (by rw [pw2, z2])),
    pz1, pz2, ← z1, ← z2]
  exact proj_selfadjoint ls rs zs ws hs hmr hz hw hlz hlw h2

/-! ### concrete instances (the `Int` cores of `TTProps/C16.lean`: order 3, ranks `(1,2,2,1)`,
    `z`, `w` of ranks `(1,3,1,1)`, `(1,1,2,1)`) -/

/-- the hypotheses of `proj_selfadjoint` / `proj_selfadjoint_dot` are satisfiable -/
example : SameRanks [L0, L1, L2] [R0, R1, R2] [L0, L1, L2] 1 ∧ SameModes [L0, L1, L2] [R0, R1, R2] ∧
    SameModes [L0, L1, L2] [Z0, Z1, Z2] ∧ SameModes [L0, L1, L2] [W0, W1, W2] ∧
    WF [Z0, Z1, Z2] 1 ∧ WF [W0, W1, W2] 1 := by
  simp [SameRanks, SameModes, WF, L0, L1, L2, R0, R1, R2, Z0, Z1, Z2, W0, W1, W2]

example : inner (modesM [L0, L1, L2]) (modesN [L0, L1, L2])
      (project [L0, L1, L2] [R0, R1, R2] [Z0, Z1, Z2]) [W0, W1, W2] =
    inner (modesM [L0, L1, L2]) (modesN [L0, L1, L2])
      [Z0, Z1, Z2] (project [L0, L1, L2] [R0, R1, R2] [W0, W1, W2]) :=
  proj_selfadjoint _ _ _ _ (by simp [SameRanks, L0, L1, L2, R0, R1, R2])
    (by simp [SameModes, L0, L1, L2, R0, R1, R2]) (by simp [WF, Z0, Z1, Z2])
    (by simp [WF, W0, W1, W2]) rfl rfl (by simp)

example : dotFull id (project [L0, L1, L2] [R0, R1, R2] [Z0, Z1, Z2]) [W0, W1, W2] =
    dotFull id [Z0, Z1, Z2] (project [L0, L1, L2] [R0, R1, R2] [W0, W1, W2]) :=
  proj_selfadjoint_dot _ _ _ _ (by simp [SameRanks, L0, L1, L2, R0, R1, R2])
    (by simp [SameModes, L0, L1, L2, R0, R1, R2]) (by simp [SameModes, L0, L1, L2, Z0, Z1, Z2])
    (by simp [SameModes, L0, L1, L2, W0, W1, W2]) (by simp [WF, Z0, Z1, Z2])
    (by simp [WF, W0, W1, W2]) (by simp)

/-- numeric check: both sides equal `3330` (whereas `⟨z, w⟩ = 750`: the projection is not trivial here) -/
example : inner [2, 2, 2] [1, 1, 1] (project [L0, L1, L2] [R0, R1, R2] [Z0, Z1, Z2]) [W0, W1, W2] = 3330 ∧
    inner [2, 2, 2] [1, 1, 1] [Z0, Z1, Z2] (project [L0, L1, L2] [R0, R1, R2] [W0, W1, W2]) = 3330 ∧
    inner [2, 2, 2] [1, 1, 1] [Z0, Z1, Z2] [W0, W1, W2] = 750 ∧
    dotFull id (project [L0, L1, L2] [R0, R1, R2] [Z0, Z1, Z2]) [W0, W1, W2] = 3330 := by decide

/-- no orthogonality is involved: with the roles of the (non-orthogonal) `R_k` and the `L_k` exchanged
    the identity still holds -/
example : inner [2, 2, 2] [1, 1, 1] (project [R0, R1, R2] [L0, L1, L2] [Z0, Z1, Z2]) [W0, W1, W2] =
    inner [2, 2, 2] [1, 1, 1] [Z0, Z1, Z2] (project [R0, R1, R2] [L0, L1, L2] [W0, W1, W2]) := by decide

end TT.C16

#print axioms TT.C16.proj_selfadjoint
#print axioms TT.C16.proj_selfadjoint_tail
#print axioms TT.C16.proj_selfadjoint_dot
