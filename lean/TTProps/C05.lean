import TTLemmas.ShapeL

/-!
# C05 — structural well-formedness of every reachable `torchtt.TT` object

Model: `TTModel/Shape.lean` (`Obj` = core shapes + the stored metadata `N, M, R, shape, is_ttm`).
`wfB o`: the cores are all 3-d (tensor) or all 4-d (operator), neighbouring ranks agree, the
boundary ranks are 1, and `N, M, R, shape, is_ttm` describe exactly those cores.
The validating constructor establishes `wfB`; the two in-place operations `set_core` and
`reduce_dims` preserve it; hence every object in every reachable store is well formed.
-/
namespace TT.C05
open TT.Shape

/-! ## (1) the constructor -/

/-- whatever `TT(list_of_cores)` accepts is well formed -/
theorem fromCores_wf {cs : List (List Nat)} {o : Obj} (h : fromCores cs = .ok o) :
    wfB o = true := fromCores_wf' h

/-- the constructor stores the cores it was given -/
theorem fromCores_cores {cs : List (List Nat)} {o : Obj} (h : fromCores cs = .ok o) :
    o.cores = cs := TT.Shape.fromCores_cores h

/-- what `wfB` says, core by core, in the `R[k]`, `R[k+1]` reading of the Python code -/
theorem wf_indexwise {o : Obj} (h : wfB o = true) :
    o.cores ≠ [] ∧ o.N.length = o.cores.length ∧ o.R.length = o.cores.length + 1 ∧
    (o.isTTM = true → o.M.length = o.cores.length) ∧ (o.isTTM = false → o.M = []) ∧
    o.R.headD 0 = 1 ∧ o.R.getLastD 0 = 1 ∧ o.shape = shapeOf o.isTTM o.M o.N ∧
    ∀ k, k < o.cores.length →
      (o.cores.getD k []).length = (if o.isTTM then 4 else 3) ∧
      (o.cores.getD k []).headD 0 = o.R.getD k 0 ∧
      (o.cores.getD k []).getLastD 0 = o.R.getD (k+1) 0 ∧
      o.N.getD k 0 = (o.cores.getD k []).getD (if o.isTTM then 2 else 1) 0 ∧
      (o.isTTM = true → o.M.getD k 0 = (o.cores.getD k []).getD 1 0) := by
  have hw := h
  rw [wfB_iff] at h
  obtain ⟨⟨hne, hch⟩, hR, hN, hM, hS⟩ := h
  have hRc := ranksOf_eq_of_chain hch hne
  have hlast := chainP_last hch
  refine ⟨hne, by rw [hN]; simp [modesNOf], by rw [hR, hRc]; simp, ?_, ?_, ?_, ?_, hS, ?_⟩
  · intro ht; rw [hM, ht]; simp [modesMOf]
  · intro ht; rw [hM, ht]; simp
  · rw [hR, hRc]; rfl
  · rw [hR, hRc, List.getLastD_cons]; exact hlast
  · intro k hk
    obtain ⟨h1, h2, h3⟩ := chainP_getD _ _ _ k hch hk
    rw [hR, hRc]
    refine ⟨?_, h2, h3, ?_, ?_⟩
    · rw [h1]; rfl
    · rw [hN]; unfold modesNOf
      rw [List.getD_eq_getElem?_getD, List.getElem?_map, List.getD_eq_getElem?_getD (l := o.cores)]
      rw [List.getElem?_eq_getElem hk]
      cases o.isTTM <;> simp
    · intro ht
      rw [hM, ht, if_pos rfl]; unfold modesMOf
      rw [List.getD_eq_getElem?_getD, List.getElem?_map, List.getD_eq_getElem?_getD (l := o.cores)]
      rw [List.getElem?_eq_getElem hk]
      simp

/-! ## (2) the shape of `full()` -/

/-- `full()` has shape `M ++ N` exactly as the cores say -/
theorem fullShape_eq {o : Obj} (h : wfB o = true) :
    fullShape o = (if o.isTTM then modesMOf o.cores else []) ++ modesNOf o.isTTM o.cores := by
  rw [wfB_iff] at h
  obtain ⟨_, _, hN, hM, _⟩ := h
  unfold fullShape
  cases ht : o.isTTM
  · rw [hN, ht]; simp
  · rw [hM, hN, ht]; simp

theorem fullShape_len {o : Obj} (h : wfB o = true) :
    (fullShape o).length = (if o.isTTM then 2 else 1) * o.cores.length := by
  rw [fullShape_eq h]
  cases o.isTTM
  · simp [modesNOf]
  · simp [modesNOf, modesMOf]; omega

/-! ## (3) `set_core` -/

theorem setCore_wf {o o' : Obj} {k : Nat} {sh : List Nat} (h : wfB o = true)
    (hs : setCore o k sh = .ok o') : wfB o' = true := setCore_wf' h hs

/-! ## (4) `reduce_dims` -/

theorem reduceDims_wf {o : Obj} (excl : List Nat) (h : wfB o = true) :
    wfB (reduceDimsObj o excl) = true := reduceDims_wf' excl h

/-! ## (5) histories of public calls -/

theorem step_wf (st : List Obj) (c : Call) (h : ∀ o ∈ st, wfB o = true) :
    ∀ o ∈ step st c, wfB o = true := step_wf' st c h

theorem reachable_wf (st : List Obj) (calls : List Call) (h : ∀ o ∈ st, wfB o = true) :
    ∀ o ∈ run st calls, wfB o = true := run_wf' calls st h

/-- every object in every store reachable from the empty store, for histories of any length -/
theorem reachable_from_empty_wf (calls : List Call) : ∀ o ∈ run [] calls, wfB o = true :=
  reachable_wf [] calls (by simp)

/-! ## (6) concrete instances (non-vacuity) and rejections -/

/-- an order-3 tensor with modes 2,4,5 and ranks 1,3,2,1 -/
def exT : Obj :=
  { cores := [[1,2,3],[3,4,2],[2,5,1]], N := [2,4,5], M := [], R := [1,3,2,1],
    shape := [[2],[4],[5]], isTTM := false }
/-- an order-2 operator with modes (2,3),(4,5) and ranks 1,2,1 -/
def exM : Obj :=
  { cores := [[1,2,3,2],[2,4,5,1]], N := [3,5], M := [2,4], R := [1,2,1],
    shape := [[2,3],[4,5]], isTTM := true }

example : fromCores [[1,2,3],[3,4,2],[2,5,1]] = .ok exT := rfl
example : fromCores [[1,2,3,2],[2,4,5,1]] = .ok exM := rfl
example : wfB exT = true := by decide
example : wfB exM = true := by decide
example : fullShape exT = [2,4,5] := by decide
example : fullShape exM = [2,4,3,5] := by decide

/-- `set_core` changing a mode size (4 → 7); `N` and `shape` follow -/
example : setCore exT 1 [3,7,2] =
    .ok { cores := [[1,2,3],[3,7,2],[2,5,1]], N := [2,7,5], M := [], R := [1,3,2,1],
          shape := [[2],[7],[5]], isTTM := false } := rfl
example : setCore exM 0 [1,6,9,2] =
    .ok { cores := [[1,6,9,2],[2,4,5,1]], N := [9,5], M := [6,4], R := [1,2,1],
          shape := [[6,9],[4,5]], isTTM := true } := rfl
/-- a core with the wrong rank is refused -/
example : setCore exT 1 [3,7,3] = .error .InvalidArguments := rfl
example : setCore exT 3 [3,7,2] = .error .InvalidArguments := rfl

/-- `reduce_dims` removing a singleton mode (absorbed into the left neighbour: 3 > 2) -/
example :
    reduceDimsObj { cores := [[1,2,3],[3,1,2],[2,5,1]], N := [2,1,5], M := [], R := [1,3,2,1],
                    shape := [[2],[1],[5]], isTTM := false } [] =
      { cores := [[1,2,2],[2,5,1]], N := [2,5], M := [], R := [1,2,1], shape := [[2],[5]],
        isTTM := false } := by
  simp [reduceDimsObj, reduceMeta, reduceShapesGo, isUnit, absorbRightS, modesNOf, shapeOf]
/-- … and into the right neighbour (2 ≤ 3), operator case -/
example :
    reduceDimsObj { cores := [[1,2,3,2],[2,1,1,3],[3,4,5,1]], N := [3,1,5], M := [2,1,4],
                    R := [1,2,3,1], shape := [[2,3],[1,1],[4,5]], isTTM := true } [] =
      { cores := [[1,2,3,2],[2,4,5,1]], N := [3,5], M := [2,4], R := [1,2,1],
        shape := [[2,3],[4,5]], isTTM := true } := by
  simp [reduceDimsObj, reduceMeta, reduceShapesGo, isUnit, absorbLeftS, modesNOf, modesMOf, shapeOf]
/-- an excluded singleton mode stays -/
example :
    reduceDimsObj { cores := [[1,2,3],[3,1,2],[2,5,1]], N := [2,1,5], M := [], R := [1,3,2,1],
                    shape := [[2],[1],[5]], isTTM := false } [1] =
      { cores := [[1,2,3],[3,1,2],[2,5,1]], N := [2,1,5], M := [], R := [1,3,2,1],
        shape := [[2],[1],[5]], isTTM := false } := by
  simp [reduceDimsObj, reduceMeta, reduceShapesGo, isUnit, modesNOf, shapeOf]

/-- rejections of the constructor -/
example : fromCores [[1,2,3],[2,4,1]] = .error .RankMismatch := rfl
example : fromCores [[1,2]] = .error .InvalidArguments := rfl
example : fromCores [[1,2,3],[3,4,5,1]] = .error .InvalidArguments := rfl
example : fromCores [[2,3,1]] = .error .InvalidArguments := rfl
example : fromCores [[1,3,2]] = .error .InvalidArguments := rfl
example : fromCores [] = .error .Other := rfl

/-- a history: construct two objects, modify both in place, a failing call in between -/
example :
    run [] [.construct [[1,2,3],[3,1,2],[2,5,1]], .construct [[1,2,3,2],[2,4,5,1]],
            .construct [[1,2,3],[2,4,1]], .setCore 1 0 [1,6,9,2], .setCore 0 0 [1,8,3]] =
      [{ cores := [[1,8,3],[3,1,2],[2,5,1]], N := [8,1,5], M := [], R := [1,3,2,1],
         shape := [[8],[1],[5]], isTTM := false },
       { cores := [[1,6,9,2],[2,4,5,1]], N := [9,5], M := [6,4], R := [1,2,1],
         shape := [[6,9],[4,5]], isTTM := true }] := by decide

end TT.C05
