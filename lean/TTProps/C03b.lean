import TTLemmas.ExtrasL
import TTProps.C03

/-!
# C03 (continued) — Kronecker product, broadcasting `+ - *`, factories, well-formedness of results

Same conventions as `TTProps/C03.lean`: arbitrary order, mode sizes, rank profiles and core values
over an arbitrary commutative ring; `full` is the TT semantics.
-/
namespace TT.C03
open TT
variable {α : Type} [CommRing α]

/-! ## (a) Kronecker product `x ** y` -/

/-- `(x ** y).full()[i ++ k] = x.full()[i] * y.full()[k]` -/
theorem full_kron (xs ys : List (Core α)) (ij kl : List (Nat × Nat))
    (hwx : WF xs 1) (_hwy : WF ys 1) (hil : ij.length = xs.length) (_hkl : kl.length = ys.length) :
    full (kron xs ys) (ij ++ kl) = full xs ij * full ys kl :=
  full_kron_gen xs ys ij kl hwx hil

omit [CommRing α] in
/-- the Kronecker product of well-formed trains is well formed -/
theorem WF_kron (xs ys : List (Core α)) (hwx : WF xs 1) (hwy : WF ys 1) : WF (kron xs ys) 1 :=
  WF_append xs ys hwy 1 hwx

example : full (kron ([⟨1, 2, 1, 1, fun _ i _ _ => (i + 1 : Int)⟩] : List (Core Int))
    [⟨1, 3, 1, 1, fun _ i _ _ => (i + 5 : Int)⟩]) ([(1, 0)] ++ [(2, 0)]) = 2 * 7 := by decide

/-! ## (d) well-formedness of `add`, `sub`, `mul` results (needed to compose operations) -/

theorem WF_add (xs ys : List (Core α)) (hwx : WF xs 1) (hwy : WF ys 1)
    (hlen : xs.length = ys.length) (hne : xs ≠ []) : WF (add xs ys) 1 := by
  have := WF_addFrom xs ys hlen hne true 1 1 hwx hwy
  simpa [add, off] using this

theorem WF_sub (xs ys : List (Core α)) (hwx : WF xs 1) (hwy : WF ys 1)
    (hlen : xs.length = ys.length) (hne : xs ≠ []) : WF (sub xs ys) 1 :=
  WF_add xs (negFirst ys) hwx (WF_negFirst ys 1 hwy) (by rw [length_negFirst]; exact hlen) hne

theorem WF_mul (xs ys : List (Core α)) (hwx : WF xs 1) (hwy : WF ys 1)
    (hlen : xs.length = ys.length) : WF (mul xs ys) 1 := by
  have := WF_mul_gen xs ys hlen 1 1 hwx hwy
  simpa using this

theorem length_add (xs ys : List (Core α)) (hlen : xs.length = ys.length) :
    (add xs ys).length = xs.length := length_addFrom xs ys hlen true

theorem length_mul (xs ys : List (Core α)) (hlen : xs.length = ys.length) :
    (mul xs ys).length = xs.length := TT.length_mul xs ys hlen

/-- composition example enabled by `WF_add`/`WF_mul`: `((x + y) * z).full() = (x.full() + y.full()) * z.full()` -/
theorem full_add_mul (xs ys zs : List (Core α)) (ij : List (Nat × Nat))
    (hwx : WF xs 1) (hwy : WF ys 1) (hwz : WF zs 1) (hlen : xs.length = ys.length)
    (hlen2 : xs.length = zs.length) (hil : ij.length = xs.length) (hne : xs ≠ []) :
    full (mul (add xs ys) zs) ij = (full xs ij + full ys ij) * full zs ij := by
  rw [full_mul (add xs ys) zs ij (WF_add xs ys hwx hwy hlen hne) hwz
    (by rw [length_add xs ys hlen]; exact hlen2) (by rw [length_add xs ys hlen]; exact hil),
    full_add xs ys ij hwx hwy hlen hil hne]

example : WF (add ([⟨1, 2, 1, 2, fun _ i _ b => (i + b : Int)⟩, ⟨2, 3, 1, 1, fun a i _ _ => (a * i : Int)⟩])
    [⟨1, 2, 1, 3, fun _ i _ b => (i * b : Int)⟩, ⟨3, 3, 1, 1, fun a i _ _ => (a + i : Int)⟩]) 1 :=
  WF_add _ _ (by simp [WF]) (by simp [WF]) rfl (by simp)

/-! ## (b) broadcasting branch of `+`, `-`, `*`

`bcast xs ys = some ys'` models the branch of `TT.__add__` (and `__sub__`, `__mul__`) taken when the
shapes differ: `ys` is right-aligned against `xs`, missing leading modes become all-ones rank-1 cores,
size-1 modes are tiled.  `bcastIdx xs ys ij` (defined in `TTLemmas/ExtrasL.lean`) is the torch
broadcasting index map: drop the first `xs.length - ys.length` entries of `ij`; where the `ys` core
was tiled (its modes differ from the `xs` core, hence are `1 × 1`) the index pair becomes `(0,0)`. -/

theorem full_bcast (xs ys ys' : List (Core α)) (h : bcast xs ys = some ys') :
    ys'.length = xs.length ∧ SameModes xs ys' ∧ (WF ys 1 → WF ys' 1) ∧
    ∀ ij : List (Nat × Nat), ij.length = xs.length → full ys' ij = full ys (bcastIdx xs ys ij) :=
  bcast_spec xs ys ys' h

omit [CommRing α] in
/-- the positions whose index is replaced by `(0,0)` are exactly size-`1 × 1` modes of `ys` -/
theorem bcast_tiled_is_one (xs ys r : List (Core α)) (h : bcastAligned xs ys = some r) :
    ∀ k (hx : k < xs.length) (hy : k < ys.length),
      ((ys[k]).m = (xs[k]).m ∧ (ys[k]).n = (xs[k]).n) ∨ ((ys[k]).m = 1 ∧ (ys[k]).n = 1) := by
  induction xs generalizing ys r with
  | nil => intro k hx; simp at hx
  | cons x xs ih =>
    match ys, h with
    | y :: ys, h =>
      unfold bcastAligned at h
      split at h
      · exact absurd h (by simp)
      · rename_i r' hr'
        intro k hx hy
        cases k with
        | zero =>
          split_ifs at h with hc1 hc2
          · exact Or.inl hc1
          · exact Or.inr hc2
        | succ k =>
          simpa using ih ys r' hr' k (by simpa using hx) (by simpa using hy)

theorem full_add_bcast (xs ys ys' : List (Core α)) (ij : List (Nat × Nat)) (h : bcast xs ys = some ys')
    (hwx : WF xs 1) (hwy : WF ys 1) (hil : ij.length = xs.length) (hne : xs ≠ []) :
    full (add xs ys') ij = full xs ij + full ys (bcastIdx xs ys ij) := by
  obtain ⟨hl, _, hw, hf⟩ := full_bcast xs ys ys' h
  rw [full_add xs ys' ij hwx (hw hwy) hl.symm hil hne, hf ij hil]

theorem full_sub_bcast (xs ys ys' : List (Core α)) (ij : List (Nat × Nat)) (h : bcast xs ys = some ys')
    (hwx : WF xs 1) (hwy : WF ys 1) (hil : ij.length = xs.length) (hne : xs ≠ []) :
    full (sub xs ys') ij = full xs ij - full ys (bcastIdx xs ys ij) := by
  obtain ⟨hl, _, hw, hf⟩ := full_bcast xs ys ys' h
  rw [full_sub xs ys' ij hwx (hw hwy) hl.symm hil hne, hf ij hil]

theorem full_mul_bcast (xs ys ys' : List (Core α)) (ij : List (Nat × Nat)) (h : bcast xs ys = some ys')
    (hwx : WF xs 1) (hwy : WF ys 1) (hil : ij.length = xs.length) :
    full (mul xs ys') ij = full xs ij * full ys (bcastIdx xs ys ij) := by
  obtain ⟨hl, _, hw, hf⟩ := full_bcast xs ys ys' h
  rw [full_mul xs ys' ij hwx (hw hwy) hl.symm hil, hf ij hil]

/-- non-vacuity: a `[2,3]` operand plus a `[1]`-shaped operand (missing leading mode, tiled last mode) -/
example : ∃ ys', bcast ([⟨1, 2, 1, 1, fun _ i _ _ => (i : Int)⟩, ⟨1, 3, 1, 1, fun _ i _ _ => (i : Int)⟩])
    [⟨1, 1, 1, 1, fun _ _ _ _ => (7 : Int)⟩] = some ys' := ⟨_, rfl⟩

example : bcastIdx ([⟨1, 2, 1, 1, fun _ i _ _ => (i : Int)⟩, ⟨1, 3, 1, 1, fun _ i _ _ => (i : Int)⟩])
    [⟨1, 1, 1, 1, fun _ _ _ _ => (7 : Int)⟩] [(1, 0), (2, 0)] = [(0, 0)] := by decide

/-! ## (c) factories -/

/-- `ones(shape).full() ≡ 1` (also true for the empty shape) -/
theorem full_ones (shape ij : List (Nat × Nat)) (hil : ij.length = shape.length) (_hne : shape ≠ []) :
    full (onesTT shape : List (Core α)) ij = 1 := full_onesTT shape ij hil

/-- `zeros(shape).full() ≡ 0` -/
theorem full_zeros (shape ij : List (Nat × Nat)) (hil : ij.length = shape.length) (hne : shape ≠ []) :
    full (zerosTT shape : List (Core α)) ij = 0 := full_zerosTT shape ij hil hne

/-- `eye(shape).full()` is the identity matrix: product of Kronecker deltas -/
theorem full_eye (shape : List Nat) (ij : List (Nat × Nat)) (hil : ij.length = shape.length) :
    full (eyeTT shape : List (Core α)) ij = if ∀ p ∈ ij, p.1 = p.2 then 1 else 0 :=
  full_eyeTT shape ij hil

/-- `rank1TT(vs).full()[i_1..i_d] = Π_k vs[k][i_k]`  (`prodAt` is that product, defined recursively) -/
theorem full_rank1 (vs : List (Nat × (Nat → α))) (is : List Nat) (_hil : is.length = vs.length) :
    full (rank1TT vs) (tIdx is) = prodAt vs is := full_rank1TT vs is

theorem prodAt_cons (v : Nat × (Nat → α)) (vs : List (Nat × (Nat → α))) (i : Nat) (is : List Nat) :
    prodAt (v :: vs) (i :: is) = v.2 i * prodAt vs is := rfl

theorem prodAt_nil (is : List Nat) : prodAt ([] : List (Nat × (Nat → α))) is = 1 := by
  cases is <;> rfl

/-- `meshgrid(vs)[k].full()[i_1..i_d] = vs[k][i_k]` -/
theorem full_meshgrid (vs : List (Nat × (Nat → α))) (k : Nat) (is : List Nat)
    (hk : k < vs.length) (hil : is.length = vs.length) :
    full (meshgridK vs k) (tIdx is) = (vs[k]).2 (is[k]) := full_meshgridK vs k is hk hil

theorem WF_ones (shape : List (Nat × Nat)) : WF (onesTT shape : List (Core α)) 1 := by
  induction shape with
  | nil => rfl
  | cons s shape ih => exact ⟨rfl, ih⟩

theorem WF_zeros (shape : List (Nat × Nat)) : WF (zerosTT shape : List (Core α)) 1 := by
  induction shape with
  | nil => rfl
  | cons s shape ih => exact ⟨rfl, ih⟩

theorem WF_eye (shape : List Nat) : WF (eyeTT shape : List (Core α)) 1 := by
  induction shape with
  | nil => rfl
  | cons s shape ih => exact ⟨rfl, ih⟩

omit [CommRing α] in
theorem WF_rank1 (vs : List (Nat × (Nat → α))) : WF (rank1TT vs) 1 := by
  induction vs with
  | nil => rfl
  | cons v vs ih => exact ⟨rfl, ih⟩

example : full (meshgridK [(2, fun i => (i + 10 : Int)), (3, fun i => (i + 20 : Int))] 1) (tIdx [1, 2]) = 22 := by
  decide

example : full (rank1TT [(2, fun i => (i + 10 : Int)), (3, fun i => (i + 20 : Int))]) (tIdx [1, 2]) = 11 * 22 := by
  decide

end TT.C03
