import TTLemmas.DecompL

/-!
# C01c — `to_tt` (sequential TT-SVD sweep) is exact whenever the SVD oracle reconstructs its input

Model: `TTModel/Decomp.lean` (`toTTGo`, `toTT`), the SVD being an ORACLE parameter.  The only assumption on
the oracle is the algebraic contract `Exact svd` (`U·W = C` entrywise, for whatever rank the oracle returns);
no orthogonality, no ordering of singular values, no statement about truncation.  Under that contract the
cores produced by the sweep reproduce the tensor *exactly*, for every order `d ≥ 1`, all mode sizes and all
ranks.  The in-range condition on a multi-index `is` for the mode sizes `ns` is `List.Forall₂ (· < ·) is ns`
(`is.length = ns.length` and `is[k] < ns[k]`, see `inRange_of_get`); it implies that all mode sizes are
positive, so no separate positivity hypothesis is needed.
-/
namespace TT.C01
open TT TT.Decomp

variable {α : Type} [CommRing α]

/-! ### index arithmetic -/

theorem prodNat_cons (n : Nat) (ns : List Nat) : prodNat (n :: ns) = n * prodNat ns :=
  dc_prodNat_cons n ns

theorem prodNat_div (n : Nat) (ns : List Nat) (hn : 0 < n) : prodNat (n :: ns) / n = prodNat ns :=
  dc_prodNat_div n ns hn

theorem flatIdx_cons (n : Nat) (ns : List Nat) (i : Nat) (is : List Nat) :
    flatIdx (n :: ns) (i :: is) = i * prodNat ns + flatIdx ns is := rfl

/-- the flat row-major index of an in-range multi-index is in range -/
theorem flatIdx_lt {is ns : List Nat} (h : List.Forall₂ (· < ·) is ns) : flatIdx ns is < prodNat ns :=
  dc_flatIdx_lt h

/-- the `length` / `getElem` form of the in-range condition implies the `Forall₂` form used below -/
theorem inRange_of_get (is ns : List Nat) (hlen : is.length = ns.length)
    (h : ∀ k (h1 : k < is.length) (h2 : k < ns.length), is[k] < ns[k]) :
    List.Forall₂ (· < ·) is ns :=
  dc_inRange_of_get is ns hlen h

/-- in-range multi-indices exist only for positive mode sizes -/
theorem inRange_pos {is ns : List Nat} (h : List.Forall₂ (· < ·) is ns) : ∀ n ∈ ns, 0 < n :=
  dc_pos_of_inRange h

/-! ### (1) the loop invariant of `to_tt` -/

/-- The cores produced from the current `rcur × cols` remainder `C` reproduce it exactly:
row `a` of `C` at the flat column index of `is`. -/
theorem toTTGo_chain (svd : Oracle α) (hsvd : Exact svd) (ns is : List Nat) (hne : ns ≠ [])
    (hr : List.Forall₂ (· < ·) is ns) (rcur cols : Nat) (C : Mat α) (a : Nat)
    (hcols : cols = prodNat ns) (ha : a < rcur) :
    chain (toTTGo svd ns rcur cols C) (tIdx is) a 0 = C a (flatIdx ns is) :=
  dc_toTTGo_chain svd (prodNat ns) (dc_exactUpTo_of_exact hsvd _) is ns hr hne rcur cols C a hcols
    (Nat.le_refl _) ha

/-- the same with the contract required only for matrices whose smaller side is at most `B ≥ ∏ ns` -/
theorem toTTGo_chain_upto (svd : Oracle α) (B : Nat) (hsvd : dc_ExactUpTo svd B) (ns is : List Nat)
    (hne : ns ≠ []) (hr : List.Forall₂ (· < ·) is ns) (rcur cols : Nat) (C : Mat α) (a : Nat)
    (hcols : cols = prodNat ns) (hB : prodNat ns ≤ B) (ha : a < rcur) :
    chain (toTTGo svd ns rcur cols C) (tIdx is) a 0 = C a (flatIdx ns is) :=
  dc_toTTGo_chain svd B hsvd is ns hr hne rcur cols C a hcols hB ha

/-! ### (2) `to_tt` -/

/-- **`to_tt` is exact given an exact SVD**: every in-range entry of the TT equals the entry of `A`. -/
theorem toTT_exact (svd : Oracle α) (hsvd : Exact svd) (N : List Nat) (A : Nat → α) (is : List Nat)
    (hne : N ≠ []) (hr : List.Forall₂ (· < ·) is N) :
    full (toTT svd N A) (tIdx is) = A (flatIdx N is) :=
  toTTGo_chain svd hsvd N is hne hr 1 (prodNat N) (fun _ j => A j) 0 rfl Nat.one_pos

/-- the requested signature (the positivity hypothesis is implied by the in-range condition) -/
theorem toTT_exact' (svd : Oracle α) (hsvd : Exact svd) (N : List Nat) (A : Nat → α) (is : List Nat)
    (_hpos : ∀ n ∈ N, 0 < n) (hne : N ≠ []) (hlen : is.length = N.length)
    (hlt : ∀ k (h1 : k < is.length) (h2 : k < N.length), is[k] < N[k]) :
    full (toTT svd N A) (tIdx is) = A (flatIdx N is) :=
  toTT_exact svd hsvd N A is hne (inRange_of_get is N hlen hlt)

/-- bounded contract: exactness of the oracle up to size `∏ N` suffices -/
theorem toTT_exact_upto (svd : Oracle α) (B : Nat) (hsvd : dc_ExactUpTo svd B) (N : List Nat) (A : Nat → α)
    (is : List Nat) (hne : N ≠ []) (hr : List.Forall₂ (· < ·) is N) (hB : prodNat N ≤ B) :
    full (toTT svd N A) (tIdx is) = A (flatIdx N is) :=
  toTTGo_chain_upto svd B hsvd N is hne hr 1 (prodNat N) (fun _ j => A j) 0 rfl hB Nat.one_pos

/-- ranks chain by construction, first left rank `1`, last right rank `1` (any oracle, any `N`) -/
theorem toTT_WF (svd : Oracle α) (N : List Nat) (A : Nat → α) : WF (toTT svd N A) 1 := by
  cases N with
  | nil => simp [toTT, toTTGo, WF]
  | cons n ns => exact dc_toTTGo_WF svd (n :: ns) (by simp) 1 _ _

/-- the mode sizes of the result are `N` (any oracle) -/
theorem toTT_modes (svd : Oracle α) (N : List Nat) (A : Nat → α) : modesM (toTT svd N A) = N :=
  dc_toTTGo_modes svd N 1 _ _

/-- all cores of the result are tensor cores -/
theorem toTT_isTensor (svd : Oracle α) (N : List Nat) (A : Nat → α) : IsTensor (toTT svd N A) :=
  dc_toTTGo_isTensor svd N 1 (prodNat N) _

/-! ### (3) the concrete oracle of the correspondence run -/

/-- `idOracle cap` satisfies the contract on every matrix whose smaller side is at most `cap` -/
theorem idOracle_exact_upto (cap : Nat) :
    ∀ rows cols (C : Mat α) i j, i < rows → j < cols → min rows cols ≤ cap →
      sumTo (idOracle cap rows cols C).r
        (fun k => (idOracle cap rows cols C).left i k * (idOracle cap rows cols C).right k j) = C i j :=
  dc_idOracle_upto cap

/-- hence `to_tt` driven by `idOracle cap` is exact as soon as `cap ≥ ∏ N` -/
theorem toTT_idOracle_exact (cap : Nat) (N : List Nat) (A : Nat → α) (is : List Nat) (hne : N ≠ [])
    (hr : List.Forall₂ (· < ·) is N) (hcap : prodNat N ≤ cap) :
    full (toTT (idOracle cap) N A) (tIdx is) = A (flatIdx N is) :=
  toTT_exact_upto (idOracle cap) cap (dc_idOracle_upto cap) N A is hne hr hcap

/-- the uncapped identity oracle satisfies `Exact` at every size: the contract is satisfiable -/
theorem idFull_exact : Exact (dc_idFull (α := α)) := dc_idFull_exact

/-- a capped oracle is *not* exact: `idOracle 1` on the `2 × 2` identity loses the entry `(1,1)` -/
theorem idOracle_one_not_exact : ¬ Exact (idOracle (α := Int) 1) := by
  intro h
  have := h 2 2 (fun i j => if i = j then 1 else 0) 1 1 (by decide) (by decide)
  revert this
  decide

/-! ### (6) concrete instances -/

/-- a concrete order-3 integer tensor on `N = [2,3,2]`, given through its flat index -/
def dc_exA : Nat → Int := fun j => (j : Int) * j - 3 * j + 1

example : full (toTT (idOracle 100) [2, 3, 2] dc_exA) (tIdx [1, 2, 1]) = dc_exA 11 := by decide
example : full (toTT (idOracle 100) [2, 3, 2] dc_exA) (tIdx [0, 1, 1]) = 1 := by decide
example : full (toTT (idOracle 100) [2, 3, 2] dc_exA) (tIdx [1, 0, 0]) = 19 := by decide

/-- all 12 entries at once -/
example : ∀ i0 < 2, ∀ i1 < 3, ∀ i2 < 2,
    full (toTT (idOracle 100) [2, 3, 2] dc_exA) (tIdx [i0, i1, i2]) = dc_exA (flatIdx [2, 3, 2] [i0, i1, i2]) := by
  decide

/-- the general theorem instantiated (non-vacuity of the hypotheses) -/
example : full (toTT (dc_idFull) [2, 3, 2] dc_exA) (tIdx [1, 2, 1]) = dc_exA (flatIdx [2, 3, 2] [1, 2, 1]) :=
  toTT_exact dc_idFull idFull_exact [2, 3, 2] dc_exA [1, 2, 1] (by decide)
    (inRange_of_get _ _ rfl (by decide))

example : full (toTT (idOracle 100) [2, 3, 2] dc_exA) (tIdx [1, 2, 1]) = dc_exA (flatIdx [2, 3, 2] [1, 2, 1]) :=
  toTT_idOracle_exact 100 [2, 3, 2] dc_exA [1, 2, 1] (by decide) (inRange_of_get _ _ rfl (by decide)) (by decide)

/-- truncation (`idOracle 1`, i.e. every rank cut to 1) does change the tensor: the exactness hypothesis
is not vacuous -/
example : full (toTT (idOracle 1) [2, 3, 2] dc_exA) (tIdx [1, 2, 1]) ≠ dc_exA 11 := by decide

example : WF (toTT (idOracle 1) [2, 3, 2] dc_exA) 1 := toTT_WF _ _ _
example : modesM (toTT (idOracle 1) [2, 3, 2] dc_exA) = [2, 3, 2] := toTT_modes _ _ _

end TT.C01
