import TTModel.Guard
import TTLemmas.GuardL
/-!
# C18: incompatible operands raise — the guards of `+`/`-`, `*`, `@` versus the dense side

"Calling an operation with incompatible operands (no valid dense counterpart under the documented
broadcasting rules, kind mismatch) raises an exception — for the documented cases one of the
library's classes — and never returns an object."
-/
namespace TT.C18
open TT.Guard TT.Shape

/-! ## (0) the core lemma, restated -/

/-- right-aligned one-sided test implies torch's symmetric right-aligned rule -/
theorem aligned_imp_broadcastable (xN yN : List Nat)
    (h : alignedOk (xN.drop (xN.length - yN.length)) yN = true) (hlen : yN.length ≤ xN.length) :
    Broadcastable xN yN = true :=
  alignedOk_drop_Broadcastable xN yN h hlen

theorem eq_imp_broadcastable (xN yN : List Nat) (h : xN = yN) : Broadcastable xN yN = true :=
  Broadcastable_of_eq h

example : alignedOk (([2,3,4] : List Nat).drop (3 - 2)) [1,4] = true ∧ [1,4].length ≤ [2,3,4].length := by
  decide

/-! ## (5, stretch) exact characterisation of acceptance on tensors -/

/-- the tensor branch of the guard, unfolded -/
theorem guardAddSub_tensor (x y : Sh) (hx : x.isTTM = false) (hy : y.isTTM = false) :
    guardAddSub x y =
      if x.N = y.N then .ok
      else if x.N.length < y.N.length then .err .ShapeMismatch
      else if alignedOk (x.N.drop (x.N.length - y.N.length)) y.N then .ok
      else .err .ShapeMismatch := by
  simp [guardAddSub, hx, hy]

/-- for tensors: accepted iff equal shapes or the one-sided right-aligned test passes -/
theorem reject_iff_one_sided (x y : Sh) (hx : x.isTTM = false) (hy : y.isTTM = false) :
    guardAddSub x y = .ok ↔
      x.N = y.N ∨ (y.N.length ≤ x.N.length ∧
        alignedOk (x.N.drop (x.N.length - y.N.length)) y.N = true) := by
  rw [guardAddSub_tensor x y hx hy]
  by_cases hN : x.N = y.N
  · simp [hN]
  · by_cases hl : x.N.length < y.N.length
    · have : ¬ (y.N.length ≤ x.N.length) := by omega
      simp [hN, hl, this]
    · have : y.N.length ≤ x.N.length := by omega
      by_cases ha : alignedOk (x.N.drop (x.N.length - y.N.length)) y.N = true
      · simp [hN, hl, ha, this]
      · simp [hN, hl, ha]

example : guardAddSub ⟨false,[2,3,4],[]⟩ ⟨false,[1,4],[]⟩ = .ok := by decide

/-! ## (7) the three operators have the same guard -/

/-- `+`/`-` and `*` accept/reject exactly the same operand pairs with the same exception, for all
    kinds and shapes (the statement holds for operators too; no counterexample exists) -/
theorem guardAddSub_eq_guardMul (x y : Sh) : guardAddSub x y = guardMul x y := by
  unfold guardAddSub guardMul
  by_cases hN : x.N = y.N <;> by_cases hM : x.M = y.M <;> simp [hN, hM]

theorem guard_addsub_eq_mul_on_tensors (x y : Sh) (_hx : x.isTTM = false) (_hy : y.isTTM = false) :
    guardAddSub x y = guardMul x y :=
  guardAddSub_eq_guardMul x y

theorem guard_addsub_eq_mul_on_operators (x y : Sh) (_hx : x.isTTM = true) (_hy : y.isTTM = true) :
    guardAddSub x y = guardMul x y :=
  guardAddSub_eq_guardMul x y

example : guardAddSub ⟨true,[2,3],[4,5]⟩ ⟨true,[2,3],[4,6]⟩ = guardMul ⟨true,[2,3],[4,5]⟩ ⟨true,[2,3],[4,6]⟩ := by
  decide

/-! ## (1) reject-completeness / accept-soundness -/

/-- whenever the guard of `+`/`-` lets a pair through, the dense counterpart exists -/
theorem accept_sound_addsub (x y : Sh) (h : guardAddSub x y = .ok) : DenseCompat x y = true := by
  obtain ⟨a, xN, xM⟩ := x
  obtain ⟨b, yN, yM⟩ := y
  cases a <;> cases b
  · -- tensors
    have h' := (reject_iff_one_sided ⟨false, xN, xM⟩ ⟨false, yN, yM⟩ rfl rfl).mp h
    simp only [DenseCompat, Bool.not_false, Bool.and_self, if_true]
    rcases h' with h' | ⟨hl, ha⟩
    · exact Broadcastable_of_eq h'
    · exact alignedOk_drop_Broadcastable xN yN ha hl
  · simp [guardAddSub] at h
  · simp [guardAddSub] at h
  · -- operators
    simp only [guardAddSub, Bool.and_self, if_true] at h
    simp only [DenseCompat, Bool.and_self, if_true, Bool.and_eq_true, beq_iff_eq]
    by_cases hN : xN = yN <;> by_cases hM : xM = yM <;> simp [hN, hM] at h ⊢

theorem accept_sound_mul (x y : Sh) (h : guardMul x y = .ok) : DenseCompat x y = true :=
  accept_sound_addsub x y (by rw [guardAddSub_eq_guardMul]; exact h)

/-- whenever no dense counterpart exists the guard of `+`/`-` raises -/
theorem reject_complete_addsub (x y : Sh) (h : DenseCompat x y = false) : guardAddSub x y ≠ .ok := by
  intro hok
  rw [accept_sound_addsub x y hok] at h
  exact Bool.noConfusion h

/-- whenever no dense counterpart exists the guard of `*` raises -/
theorem reject_complete_mul (x y : Sh) (h : DenseCompat x y = false) : guardMul x y ≠ .ok := by
  intro hok
  rw [accept_sound_mul x y hok] at h
  exact Bool.noConfusion h

/-- "never returns an object": with no dense counterpart the outcome is an exception -/
theorem reject_complete_raises (x y : Sh) (h : DenseCompat x y = false) :
    (∃ e, guardAddSub x y = .err e) ∧ (∃ e, guardMul x y = .err e) := by
  have h1 := reject_complete_addsub x y h
  have h2 := reject_complete_mul x y h
  constructor
  · cases hg : guardAddSub x y with
    | ok => exact absurd hg h1
    | err e => exact ⟨e, rfl⟩
  · cases hg : guardMul x y with
    | ok => exact absurd hg h2
    | err e => exact ⟨e, rfl⟩

example : DenseCompat ⟨false,[2,3,4],[]⟩ ⟨false,[2,4],[]⟩ = false ∧
    guardAddSub ⟨false,[2,3,4],[]⟩ ⟨false,[2,4],[]⟩ = .err .ShapeMismatch := by decide
example : guardAddSub ⟨false,[2,3,4],[]⟩ ⟨false,[3,4],[]⟩ = .ok ∧
    DenseCompat ⟨false,[2,3,4],[]⟩ ⟨false,[3,4],[]⟩ = true := by decide

/-! ## (2) documented case: kind mismatch -/

theorem reject_documented_kind (x y : Sh) (h : x.isTTM ≠ y.isTTM) :
    guardAddSub x y = .err .IncompatibleTypes ∧ guardMul x y = .err .IncompatibleTypes := by
  obtain ⟨a, xN, xM⟩ := x
  obtain ⟨b, yN, yM⟩ := y
  cases a <;> cases b <;> simp [guardAddSub, guardMul] at h ⊢

example : guardAddSub ⟨true,[2,3],[2,3]⟩ ⟨false,[2,3],[]⟩ = .err .IncompatibleTypes ∧
    guardMul ⟨false,[2,3],[]⟩ ⟨true,[2,3],[2,3]⟩ = .err .IncompatibleTypes := by decide

/-! ## (3) documented case: operators of different shape -/

theorem reject_documented_shape_ttm (x y : Sh) (hx : x.isTTM = true) (hy : y.isTTM = true)
    (h : x.N ≠ y.N ∨ x.M ≠ y.M) :
    guardAddSub x y = .err .ShapeMismatch ∧ guardMul x y = .err .ShapeMismatch := by
  rw [← guardAddSub_eq_guardMul]
  refine ⟨?_, ?_⟩ <;>
  · unfold guardAddSub
    simp only [hx, hy, Bool.and_self, if_true]
    rw [if_pos (Or.comm.mp h)]

example : guardAddSub ⟨true,[2,3],[4,5]⟩ ⟨true,[2,3],[4,6]⟩ = .err .ShapeMismatch ∧
    guardMul ⟨true,[2,3],[4,5]⟩ ⟨true,[2,2],[4,5]⟩ = .err .ShapeMismatch := by decide

/-! ## (4) documented case: non-broadcastable tensors get exactly `ShapeMismatch` -/

/-- on tensors the only possible outcomes are `ok` and `ShapeMismatch` -/
theorem tensors_ok_or_shapeMismatch (x y : Sh) (hx : x.isTTM = false) (hy : y.isTTM = false) :
    guardAddSub x y = .ok ∨ guardAddSub x y = .err .ShapeMismatch := by
  rw [guardAddSub_tensor x y hx hy]
  split
  · exact Or.inl rfl
  · split
    · exact Or.inr rfl
    · split
      · exact Or.inl rfl
      · exact Or.inr rfl

theorem reject_documented_shape_tt (x y : Sh) (hx : x.isTTM = false) (hy : y.isTTM = false)
    (h : Broadcastable x.N y.N = false) :
    guardAddSub x y = .err .ShapeMismatch ∧ guardMul x y = .err .ShapeMismatch := by
  rw [← guardAddSub_eq_guardMul]
  have hd : DenseCompat x y = false := by
    simp [DenseCompat, hx, hy, h]
  have hne := reject_complete_addsub x y hd
  rcases tensors_ok_or_shapeMismatch x y hx hy with h1 | h1
  · exact absurd h1 hne
  · exact ⟨h1, h1⟩

example : Broadcastable [2,3,4] [2,4] = false := by decide
example : Broadcastable [2,3,4] [5,2,3,4] = true := by decide

/-! ## (5) the guard is not complete in the other direction: one-sided broadcasting -/

/-- known finding: a dense-compatible pair (`[3] + [2,3]`) is rejected by the guard -/
theorem accept_incomplete_example :
    DenseCompat ⟨false,[3],[]⟩ ⟨false,[2,3],[]⟩ = true ∧
    guardAddSub ⟨false,[3],[]⟩ ⟨false,[2,3],[]⟩ = .err .ShapeMismatch := by decide

/-- same length, the size-1 mode on the *left* operand: also rejected (one-sidedness is per mode) -/
theorem accept_incomplete_example' :
    DenseCompat ⟨false,[1,3],[]⟩ ⟨false,[2,3],[]⟩ = true ∧
    guardAddSub ⟨false,[1,3],[]⟩ ⟨false,[2,3],[]⟩ = .err .ShapeMismatch ∧
    guardAddSub ⟨false,[2,3],[]⟩ ⟨false,[1,3],[]⟩ = .ok := by decide

/-- exactly when a dense-compatible tensor pair is rejected -/
theorem broadcastable_rejected_iff (x y : Sh) (hx : x.isTTM = false) (hy : y.isTTM = false) :
    (DenseCompat x y = true ∧ guardAddSub x y = .err .ShapeMismatch) ↔
      (Broadcastable x.N y.N = true ∧ x.N ≠ y.N ∧
        ¬ (y.N.length ≤ x.N.length ∧
            alignedOk (x.N.drop (x.N.length - y.N.length)) y.N = true)) := by
  have hd : DenseCompat x y = Broadcastable x.N y.N := by simp [DenseCompat, hx, hy]
  have hiff := reject_iff_one_sided x y hx hy
  rw [hd]
  constructor
  · rintro ⟨hb, hr⟩
    have hnok : ¬ guardAddSub x y = .ok := by rw [hr]; decide
    rw [hiff, not_or] at hnok
    exact ⟨hb, hnok.1, hnok.2⟩
  · rintro ⟨hb, h1, h2⟩
    refine ⟨hb, ?_⟩
    rcases tensors_ok_or_shapeMismatch x y hx hy with h | h
    · exact absurd (hiff.mp h) (not_or.mpr ⟨h1, h2⟩)
    · exact h

/-! ## (6) matmul -/

theorem matmul_guard_exact (x y : Sh) : guardMatmul x y = .ok ↔ DenseCompatMatmul x y = true := by
  obtain ⟨a, xN, xM⟩ := x
  obtain ⟨b, yN, yM⟩ := y
  cases a <;> cases b <;> simp [guardMatmul, DenseCompatMatmul]

theorem matmul_reject_tt_tt (x y : Sh) (hx : x.isTTM = false) (hy : y.isTTM = false) :
    guardMatmul x y = .err .InvalidArguments := by
  simp [guardMatmul, hx, hy]

/-- in the three supported kind combinations a shape mismatch gives `ShapeMismatch` -/
theorem matmul_reject_shape (x y : Sh) :
    (x.isTTM = true → y.isTTM = false → x.N ≠ y.N → guardMatmul x y = .err .ShapeMismatch) ∧
    (x.isTTM = true → y.isTTM = true → x.N ≠ y.M → guardMatmul x y = .err .ShapeMismatch) ∧
    (x.isTTM = false → y.isTTM = true → x.N ≠ y.M → guardMatmul x y = .err .ShapeMismatch) := by
  refine ⟨?_, ?_, ?_⟩ <;> intro hx hy h <;> simp [guardMatmul, hx, hy, h]

/-- `@` never returns an object when the dense counterpart does not exist -/
theorem matmul_reject_complete (x y : Sh) (h : DenseCompatMatmul x y = false) :
    ∃ e, guardMatmul x y = .err e := by
  cases hg : guardMatmul x y with
  | ok => rw [(matmul_guard_exact x y).mp hg] at h; exact Bool.noConfusion h
  | err e => exact ⟨e, rfl⟩

example : guardMatmul ⟨true,[2,3],[4,5]⟩ ⟨false,[2,3],[]⟩ = .ok := by decide
example : guardMatmul ⟨true,[2,3],[4,5]⟩ ⟨false,[4,5],[]⟩ = .err .ShapeMismatch := by decide
example : guardMatmul ⟨true,[2,3],[4,5]⟩ ⟨true,[7,8],[2,3]⟩ = .ok := by decide
example : guardMatmul ⟨true,[2,3],[4,5]⟩ ⟨true,[2,3],[4,5]⟩ = .err .ShapeMismatch := by decide
example : guardMatmul ⟨false,[2,3],[]⟩ ⟨true,[7,8],[2,3]⟩ = .ok := by decide
example : guardMatmul ⟨false,[2,3],[]⟩ ⟨true,[2,3],[7,8]⟩ = .err .ShapeMismatch := by decide
example : guardMatmul ⟨false,[2,3],[]⟩ ⟨false,[2,3],[]⟩ = .err .InvalidArguments := by decide

/-! ## concrete shapes -/

-- accepted broadcasts of `[2,3,4]`
example : guardAddSub ⟨false,[2,3,4],[]⟩ ⟨false,[3,4],[]⟩ = .ok := by decide
example : guardAddSub ⟨false,[2,3,4],[]⟩ ⟨false,[1,4],[]⟩ = .ok := by decide
example : guardAddSub ⟨false,[2,3,4],[]⟩ ⟨false,[4],[]⟩ = .ok := by decide
example : guardMul ⟨false,[2,3,4],[]⟩ ⟨false,[3,1],[]⟩ = .ok := by decide
example : guardMul ⟨false,[2,3,4],[]⟩ ⟨false,[2,3,4],[]⟩ = .ok := by decide
example : DenseCompat ⟨false,[2,3,4],[]⟩ ⟨false,[1,4],[]⟩ = true := by decide
-- rejected
example : guardAddSub ⟨false,[2,3,4],[]⟩ ⟨false,[2,4],[]⟩ = .err .ShapeMismatch := by decide
example : guardMul ⟨false,[2,3,4],[]⟩ ⟨false,[2,4],[]⟩ = .err .ShapeMismatch := by decide
example : guardAddSub ⟨false,[2,3,4],[]⟩ ⟨false,[1,2,3,4],[]⟩ = .err .ShapeMismatch := by decide
example : DenseCompat ⟨false,[2,3,4],[]⟩ ⟨false,[2,4],[]⟩ = false := by decide
-- operator pairs
example : guardAddSub ⟨true,[2,3],[4,5]⟩ ⟨true,[2,3],[4,5]⟩ = .ok := by decide
example : guardMul ⟨true,[2,3],[4,5]⟩ ⟨true,[2,3],[4,5]⟩ = .ok := by decide
example : guardAddSub ⟨true,[2,3],[4,5]⟩ ⟨true,[2,1],[4,5]⟩ = .err .ShapeMismatch := by decide
example : guardMul ⟨true,[2,3],[4,5]⟩ ⟨true,[2,3],[4,1]⟩ = .err .ShapeMismatch := by decide
example : DenseCompat ⟨true,[2,3],[4,5]⟩ ⟨true,[2,1],[4,5]⟩ = false := by decide
-- kind mismatch
example : guardAddSub ⟨true,[2,3],[4,5]⟩ ⟨false,[2,3],[]⟩ = .err .IncompatibleTypes := by decide
example : guardMul ⟨false,[2,3],[]⟩ ⟨true,[2,3],[4,5]⟩ = .err .IncompatibleTypes := by decide

end TT.C18
