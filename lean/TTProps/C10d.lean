import TTProps.C10c
import TTProps.C02c
import TTModel.PermuteM
import TTModel.ReshapeM

/-!
# C10d — `torchtt.permute` and `torchtt.reshape` for TT-matrices

Models: `TTModel/PermuteM.lean` (`permuteTTMWith`: the tensor model conjugated with the row-major merge of the row and the
column mode) and `TTModel/ReshapeM.lean` (`mergeCM`, `absorb1M`, `absorbAllM`, `splitStepM`, `oneCoreM`, `reshapeGoM`, `rlOrthM`,
`reshapeCoresMWith`, `reshapeTTMWith`: row and column modes handled separately), QR and SVD being ORACLE parameters with the
algebraic contract `Exact` only.  All helper names carry the `pmm_` prefix.
-/
namespace TT.C10
open TT TT.Decomp TT.Permute TT.Reshape TT.C02

variable {α : Type} [CommRing α]

set_option linter.unusedSectionVars false
set_option linter.unusedVariables false

/-! ## A. `permute` for TT-matrices -/

/-- index-pair list of the permuted TT-matrix: position `p` of the result carries the index pair of input mode `dims[p]` -/
def permIdx' (dims : List Nat) (ij : List (Nat × Nat)) : List (Nat × Nat) := dims.map (fun k => ij.getD k (0, 0))

theorem pmm_zipWith_getD : ∀ (ij : List (Nat × Nat)) (ns : List Nat) (k : Nat), ij.length = ns.length →
    (List.zipWith (fun (p : Nat × Nat) n => p.1 * n + p.2) ij ns).getD k 0
      = (ij.getD k (0, 0)).1 * ns.getD k 0 + (ij.getD k (0, 0)).2 := by
  intro ij
  induction ij with
  | nil => intro ns k h; simp
  | cons p ps ih =>
    intro ns k h
    match ns, h with
    | n :: ns, h =>
      match k with
      | 0 => simp
      | k + 1 =>
        have := ih ns k (by simpa using h)
        simpa using this

theorem pmm_getD_snd (cs : List (Core α)) (k : Nat) : ((modesMN' cs).getD k (0, 0)).2 = (modesN cs).getD k 0 := by
  induction cs generalizing k with
  | nil => simp [modesMN', modesN]
  | cons c cs ih =>
    match k with
    | 0 => simp [modesMN', modesN]
    | k + 1 =>
      have := ih k
      simpa [modesMN', modesN] using this

/-- **the row-major merge of the index pairs commutes with the permutation** -/
theorem pmm_mergeIdx_perm (dims : List Nat) (cs : List (Core α)) (ij : List (Nat × Nat)) (hl : ij.length = cs.length) :
    dm_mergeIdx ((dims.map (fun k => (modesMN' cs).getD k (0, 0))).map Prod.snd) (permIdx' dims ij)
      = permIdx dims (dm_mergeIdx (modesN cs) ij) := by
  unfold dm_mergeIdx permIdx' permIdx
  rw [List.map_map, List.zipWith_map, List.zipWith_self]
  apply List.map_congr_left
  intro k _
  rw [pmm_zipWith_getD ij (modesN cs) k (by rw [hl]; simp [modesN])]
  simp only [Function.comp]
  rw [pmm_getD_snd]

theorem pmm_permuteTT_length (fz : Core α → Core α) (hfz : FzOk fz) (qr svd : Oracle α) (dims : List Nat)
    (cs : List (Core α)) (hd : dims.Perm (List.range cs.length)) :
    (permuteTTWith fz qr svd dims cs).length = dims.length := by
  rw [← pm_modes_length, permuteTT_modes fz hfz qr svd dims cs hd]
  simp [permIdx]

/-- **`permute` of a TT-matrix relabels the mode pairs**: entry `((i,j)_{dims[0]}, …, (i,j)_{dims[d-1]})` of the result is
entry `((i,j)_0, …, (i,j)_{d-1})` of the input, provided QR and SVD reconstruct their inputs exactly -/
theorem permuteTTM_full (fz : Core α → Core α) (hfz : FzOk fz) (qr svd : Oracle α) (hqr : Exact qr)
    (hsvd : Exact svd) (dims : List Nat) (cs : List (Core α)) (ij : List (Nat × Nat))
    (hd : dims.Perm (List.range cs.length)) (hwf : WF cs 1) (hr : dm_InRange ij cs) :
    full (permuteTTMWith fz qr svd dims cs) (permIdx' dims ij) = full cs ij := by
  have hd' : dims.Perm (List.range (cs.map mergeModes).length) := by rw [List.length_map]; exact hd
  unfold permuteTTMWith
  rw [full_splitAll _ _ _ (by rw [pmm_permuteTT_length fz hfz qr svd dims _ hd']; simp),
    pmm_mergeIdx_perm dims cs ij hr.length_eq,
    permuteTT_full fz hfz qr svd hqr hsvd dims _ _ hd' ((WF_mergeModes cs 1).mpr hwf) (isTensor_mergeModes cs)
      (dm_mergeIdx_inRange hr)]
  exact full_mergeModes cs ij hr

/-- ranks still chain (any oracles) -/
theorem permuteTTM_WF (fz : Core α → Core α) (hfz : FzOk fz) (qr svd : Oracle α) (dims : List Nat)
    (cs : List (Core α)) (r0 : Nat) (hd : dims.Perm (List.range cs.length)) (hwf : WF cs r0) :
    WF (permuteTTMWith fz qr svd dims cs) r0 := by
  have hd' : dims.Perm (List.range (cs.map mergeModes).length) := by rw [List.length_map]; exact hd
  unfold permuteTTMWith
  rw [WF_splitAll _ _ _ (by rw [pmm_permuteTT_length fz hfz qr svd dims _ hd']; simp)]
  exact permuteTT_WF fz hfz qr svd dims _ r0 ((WF_mergeModes cs r0).mpr hwf)

/-- the mode pairs are permuted accordingly (any oracles) -/
theorem permuteTTM_modes (fz : Core α → Core α) (hfz : FzOk fz) (qr svd : Oracle α) (dims : List Nat)
    (cs : List (Core α)) (hd : dims.Perm (List.range cs.length)) :
    modesMN' (permuteTTMWith fz qr svd dims cs) = dims.map (fun k => (modesMN' cs).getD k (0, 0)) := by
  have hd' : dims.Perm (List.range (cs.map mergeModes).length) := by rw [List.length_map]; exact hd
  unfold permuteTTMWith
  exact modesMN'_splitAll _ _ (by rw [pmm_permuteTT_length fz hfz qr svd dims _ hd']; simp)

/-! ## B. `reshape` for TT-matrices -/

/-! ### (B1) the single steps of the loop -/

/-- **merge**: `mergeCM` preserves every transfer-matrix product; the pair index of the merged core is
`(i₁·m₂ + i₂, j₁·n₂ + j₂)` (rows together, columns together) -/
theorem mergeCM_chain (x y : Core α) (rest : List (Core α)) (ijs : List (Nat × Nat)) (i1 j1 i2 j2 a b : Nat)
    (hi2 : i2 < y.m) (hj2 : j2 < y.n) :
    chain (mergeCM x y :: rest) ((i1 * y.m + i2, j1 * y.n + j2) :: ijs) a b
      = chain (x :: y :: rest) ((i1, j1) :: (i2, j2) :: ijs) a b := by
  simp only [chain, mergeCM, merge_div hi2, merge_mod hi2, merge_div hj2, merge_mod hj2]
  exact (dc_sumTo_assoc x.r1 y.r1 (fun k => x.get a i1 j1 k) (fun k l => y.get k i2 j2 l)
    (fun l => chain rest ijs l b)).symm

theorem mergeCM_full (x y : Core α) (rest : List (Core α)) (ijs : List (Nat × Nat)) (i1 j1 i2 j2 : Nat)
    (hi2 : i2 < y.m) (hj2 : j2 < y.n) :
    full (mergeCM x y :: rest) ((i1 * y.m + i2, j1 * y.n + j2) :: ijs) = full (x :: y :: rest) ((i1, j1) :: (i2, j2) :: ijs) :=
  mergeCM_chain x y rest ijs i1 j1 i2 j2 0 0 hi2 hj2

/-- `fz` applied to the head core changes no in-range transfer-matrix product -/
theorem pmm_fz_head_chain (fz : Core α → Core α) (hfz : FzOk fz) (c : Core α) (rest : List (Core α))
    (ijs : List (Nat × Nat)) (i j a b : Nat) (ha : a < c.r0) (hi : i < c.m) (hj : j < c.n) :
    chain (fz c :: rest) ((i, j) :: ijs) a b = chain (c :: rest) ((i, j) :: ijs) a b := by
  obtain ⟨_, _, _, h1, hg⟩ := hfz c
  simp only [chain]
  rw [h1]
  apply sumTo_congr
  intro k hk
  rw [hg a i j k ha hi hj hk]

/-- **split**: with `U·W = M` the two cores produced by `splitStepM` multiply to the working core, the pair index of the
working core being `(i₁·m₂ + i₂, j₁·n₂ + j₂)` (`m₂ = cur.m / m1`, `n₂ = cur.n / n1`) -/
theorem splitStepM_chain (svd : Oracle α) (hsvd : Exact svd) (cur : Core α) (m1 n1 i1 j1 i2 j2 a b : Nat)
    (hi1 : i1 < m1) (hj1 : j1 < n1) (hi2 : i2 < cur.m / m1) (hj2 : j2 < cur.n / n1) (ha : a < cur.r0) (hb : b < cur.r1) :
    sumTo (splitStepM svd cur m1 n1).1.r1
        (fun k => (splitStepM svd cur m1 n1).1.get a i1 j1 k * (splitStepM svd cur m1 n1).2.get k i2 j2 b)
      = cur.get a (i1 * (cur.m / m1) + i2) (j1 * (cur.n / n1) + j2) b := by
  have hq : j2 * cur.r1 + b < cur.n / n1 * cur.r1 := dc_merge_lt hj2 hb
  have e := hsvd (cur.r0 * m1 * n1) (cur.m / m1 * (cur.n / n1 * cur.r1))
    (fun p q => cur.get (p / n1 / m1) ((p / n1 % m1) * (cur.m / m1) + q / (cur.n / n1 * cur.r1))
      ((p % n1) * (cur.n / n1) + q % (cur.n / n1 * cur.r1) / cur.r1) (q % cur.r1))
    ((a * m1 + i1) * n1 + j1) (i2 * (cur.n / n1 * cur.r1) + (j2 * cur.r1 + b))
    (dc_merge_lt (dc_merge_lt ha hi1) hj1) (dc_merge_lt hi2 hq)
  simp only [merge_div hj1, merge_mod hj1, merge_div hi1, merge_mod hi1, merge_div hq, merge_mod hq,
    merge_div hb] at e
  have hmod : (i2 * (cur.n / n1 * cur.r1) + (j2 * cur.r1 + b)) % cur.r1 = b := by
    have : i2 * (cur.n / n1 * cur.r1) + (j2 * cur.r1 + b) = (i2 * (cur.n / n1) + j2) * cur.r1 + b := by ring
    rw [this, merge_mod hb]
  rw [hmod, ← Nat.add_assoc] at e
  exact e

theorem splitStepM_shape (svd : Oracle α) (cur : Core α) (m1 n1 : Nat) :
    (splitStepM svd cur m1 n1).1.r0 = cur.r0 ∧ (splitStepM svd cur m1 n1).1.m = m1 ∧ (splitStepM svd cur m1 n1).1.n = n1 ∧
    (splitStepM svd cur m1 n1).1.r1 = (splitStepM svd cur m1 n1).2.r0 ∧
    (splitStepM svd cur m1 n1).2.m = cur.m / m1 ∧ (splitStepM svd cur m1 n1).2.n = cur.n / n1 ∧
    (splitStepM svd cur m1 n1).2.r1 = cur.r1 :=
  ⟨rfl, rfl, rfl, rfl, rfl, rfl, rfl⟩

/-- **absorb**: `absorb1M` is the merge with a core whose two modes have size 1 (index pair `(0,0)`) -/
theorem absorb1M_chain (c y : Core α) (rest : List (Core α)) (ijs : List (Nat × Nat)) (i j a b : Nat) :
    chain (absorb1M c y :: rest) ((i, j) :: ijs) a b = chain (c :: y :: rest) ((i, j) :: (0, 0) :: ijs) a b := by
  simp only [chain, absorb1M]
  exact (dc_sumTo_assoc c.r1 y.r1 (fun k => c.get a i j k) (fun k l => y.get k 0 0 l)
    (fun l => chain rest ijs l b)).symm

theorem absorb1M_full (c y : Core α) (rest : List (Core α)) (ijs : List (Nat × Nat)) (i j : Nat) :
    full (absorb1M c y :: rest) ((i, j) :: ijs) = full (c :: y :: rest) ((i, j) :: (0, 0) :: ijs) :=
  absorb1M_chain c y rest ijs i j 0 0

/-- the trailing loop: all remaining cores carry mode pairs `(1,1)` and are absorbed -/
theorem absorbAllM_chain : ∀ (rest : List (Core α)) (cur : Core α) (zs : List (Nat × Nat)) (i j a b : Nat),
    (∀ y ∈ rest, y.m = 1 ∧ y.n = 1) → dm_InRange zs rest →
    chain [absorbAllM cur rest] [(i, j)] a b = chain (cur :: rest) ((i, j) :: zs) a b := by
  intro rest
  induction rest with
  | nil =>
    intro cur zs i j a b _ hz
    cases hz
    rfl
  | cons y ys ih =>
    intro cur zs i j a b h1 hz
    cases hz with
    | @cons z _ zs' _ hz1 hz' =>
      have hy : y.m = 1 ∧ y.n = 1 := h1 y (by simp)
      have hz0 : z = (0, 0) := by
        obtain ⟨z1, z2⟩ := z
        simp only at hz1
        have e1 : z1 = 0 := by omega
        have e2 : z2 = 0 := by omega
        rw [e1, e2]
      subst hz0
      rw [absorbAllM, if_pos hy, ih (absorb1M cur y) zs' i j a b (fun x hx => h1 x (by simp [hx])) hz']
      exact absorb1M_chain cur y ys zs' i j a b

theorem absorbAllM_full (rest : List (Core α)) (cur : Core α) (zs : List (Nat × Nat)) (i j : Nat)
    (h1 : ∀ y ∈ rest, y.m = 1 ∧ y.n = 1) (hz : dm_InRange zs rest) :
    full [absorbAllM cur rest] [(i, j)] = full (cur :: rest) ((i, j) :: zs) :=
  absorbAllM_chain rest cur zs i j 0 0 h1 hz

theorem pmm_absorbAllM_shape : ∀ (rest : List (Core α)) (cur : Core α) (r : Nat),
    (∀ y ∈ rest, y.m = 1 ∧ y.n = 1) → WF (cur :: rest) r →
    WF [absorbAllM cur rest] r ∧ (absorbAllM cur rest).m = cur.m ∧ (absorbAllM cur rest).n = cur.n := by
  intro rest
  induction rest with
  | nil => intro cur r _ hwf; exact ⟨hwf, rfl, rfl⟩
  | cons y ys ih =>
    intro cur r h1 hwf
    have hy : y.m = 1 ∧ y.n = 1 := h1 y (by simp)
    rw [absorbAllM, if_pos hy]
    obtain ⟨h0, _, hw⟩ := hwf
    exact ih (absorb1M cur y) r (fun x hx => h1 x (by simp [hx])) ⟨h0, hw⟩

/-- **trailing ones**: cores `ones((1,1,1,1))` contribute the factor `1` -/
theorem oneCoreM_chain {β : Type} : ∀ (l : List β) (ijs : List (Nat × Nat)), ijs.length = l.length →
    chain (l.map (fun _ => (oneCoreM : Core α))) ijs 0 0 = 1 := by
  intro l
  induction l with
  | nil => intro ijs _; rfl
  | cons x l ih =>
    intro ijs hl
    match ijs, hl with
    | ij :: ijs, hl =>
      simp only [List.map_cons, chain]
      show sumTo 1 (fun k => (1 : α) * chain (l.map (fun _ => (oneCoreM : Core α))) ijs k 0) = 1
      rw [sumTo_one, ih ijs (by simpa using hl), one_mul]

theorem pmm_ones_WF {β : Type} (l : List β) : WF (l.map (fun _ => (oneCoreM : Core α))) 1 := by
  induction l with
  | nil => rfl
  | cons x l ih => exact ⟨rfl, ih⟩

theorem pmm_ones_modes (l : List (Nat × Nat)) (h1 : ∀ s ∈ l, s = (1, 1)) :
    modesMN' (l.map (fun _ => (oneCoreM : Core α))) = l := by
  induction l with
  | nil => rfl
  | cons x l ih =>
    simp only [modesMN', List.map_cons] at ih ⊢
    rw [ih (fun s hs => h1 s (by simp [hs])), h1 x (by simp)]
    rfl

/-! `rl_orthogonal(is_ttm=True)` -/

theorem pmm_rlOrth_length (qr : Oracle α) (cs : List (Core α)) : (rlOrth qr cs).length = cs.length :=
  dm_length_of_modes (rlOrth_modes qr cs)

/-- **`rl_orthogonal(is_ttm=True)` is a gauge change**: with `Q·R = M` every in-range entry of the TT-matrix is unchanged -/
theorem rlOrthM_full (qr : Oracle α) (hqr : Exact qr) (cs : List (Core α)) (ij : List (Nat × Nat))
    (hwf : WF cs 1) (hr : dm_InRange ij cs) :
    full (rlOrthM qr cs) ij = full cs ij := by
  unfold rlOrthM
  rw [full_splitAll _ _ _ (by rw [pmm_rlOrth_length]; simp [modesMN']), dm_modesMN'_snd,
    rlOrth_full qr hqr _ _ ((WF_mergeModes cs 1).mpr hwf) (dm_mergeIdx_inRange hr)]
  exact full_mergeModes cs ij hr

theorem rlOrthM_WF (qr : Oracle α) (cs : List (Core α)) (r0 : Nat) (hwf : WF cs r0) : WF (rlOrthM qr cs) r0 := by
  unfold rlOrthM
  rw [WF_splitAll _ _ _ (by rw [pmm_rlOrth_length]; simp [modesMN'])]
  exact rlOrth_WF qr _ r0 ((WF_mergeModes cs r0).mpr hwf)

theorem rlOrthM_modes (qr : Oracle α) (cs : List (Core α)) : modesMN' (rlOrthM qr cs) = modesMN' cs := by
  unfold rlOrthM
  exact modesMN'_splitAll _ _ (by rw [pmm_rlOrth_length]; simp [modesMN'])

/-- the chain only reads in-range entries: applying `fz` to every core changes nothing -/
theorem pmm_map_fz_chain (fz : Core α → Core α) (hfz : FzOk fz) :
    ∀ (cs : List (Core α)) (ij : List (Nat × Nat)) (r0 a b : Nat), WF cs r0 → dm_InRange ij cs → a < r0 →
      chain (cs.map fz) ij a b = chain cs ij a b := by
  intro cs
  induction cs with
  | nil => intro ij r0 a b _ _ _; rfl
  | cons c cs ih =>
    intro ij r0 a b hwf hr ha
    cases hr with
    | @cons p _ ps _ hp hr' =>
      obtain ⟨h0, _, hn, h1, hg⟩ := hfz c
      simp only [List.map_cons, chain]
      rw [h1]
      apply sumTo_congr
      intro k hk
      rw [ih ps c.r1 k b hwf.2 hr' hk, hg a p.1 p.2 k (by rw [hwf.1]; exact ha) hp.1 hp.2 hk]

theorem pmm_map_fz_modes (fz : Core α → Core α) (hfz : FzOk fz) (cs : List (Core α)) :
    modesMN' (cs.map fz) = modesMN' cs := by
  induction cs with
  | nil => rfl
  | cons c cs ih =>
    simp only [modesMN', List.map_cons] at ih ⊢
    rw [ih, (hfz c).2.1, (hfz c).2.2.1]

/-! ### (B2) what the loop owes, and how each branch pays it -/

/-- in-range index pairs for a list of mode-size pairs -/
def pmm_InR (qs dst : List (Nat × Nat)) : Prop := List.Forall₂ (fun p d => p.1 < d.1 ∧ p.2 < d.2) qs dst

theorem pmm_InR_fst {qs dst : List (Nat × Nat)} (h : pmm_InR qs dst) :
    List.Forall₂ (· < ·) (qs.map Prod.fst) (dst.map Prod.fst) := by
  induction h with
  | nil => exact List.Forall₂.nil
  | cons h1 _ ih => exact List.Forall₂.cons h1.1 ih

theorem pmm_InR_snd {qs dst : List (Nat × Nat)} (h : pmm_InR qs dst) :
    List.Forall₂ (· < ·) (qs.map Prod.snd) (dst.map Prod.snd) := by
  induction h with
  | nil => exact List.Forall₂.nil
  | cons h1 _ ih => exact List.Forall₂.cons h1.2 ih

theorem pmm_InR_modes (qs : List (Nat × Nat)) (cs : List (Core α)) : pmm_InR qs (modesMN' cs) ↔ dm_InRange qs cs := by
  unfold pmm_InR dm_InRange modesMN'
  exact List.forall₂_map_right_iff

theorem pmm_InR_zip : ∀ (is js ms ns : List Nat), List.Forall₂ (· < ·) is ms → List.Forall₂ (· < ·) js ns →
    ms.length = ns.length → pmm_InR (is.zip js) (ms.zip ns) := by
  intro is js ms ns h1
  induction h1 generalizing js ns with
  | nil => intro _ _; exact List.Forall₂.nil
  | @cons i m is' ms' hi _ ih =>
    intro h2 hl
    cases h2 with
    | nil => simp at hl
    | @cons j n js' ns' hj h2' => exact List.Forall₂.cons ⟨hi, hj⟩ (ih js' ns' h2' (by simpa using hl))

/-- specification of the remaining output `out'` of the loop in state (`cur`, `rest`, `dst`): ranks chain from `cur.r0`, the
mode pairs are the target pairs still to be produced, and every row of the product of transfer matrices agrees with the one
of `cur :: rest` at index-pair lists whose row indices have the same row-major flat position and whose column indices have
the same row-major flat position -/
def pmm_Spec (cur : Core α) (rest : List (Core α)) (dst : List (Nat × Nat)) (out' : List (Core α)) : Prop :=
  WF out' cur.r0 ∧ modesMN' out' = dst ∧
  ∀ (a : Nat) (ps qs : List (Nat × Nat)), a < cur.r0 → pmm_InR ps ((cur.m, cur.n) :: modesMN' rest) → pmm_InR qs dst →
    flatIdx (dst.map Prod.fst) (qs.map Prod.fst) = flatIdx (cur.m :: modesM rest) (ps.map Prod.fst) →
    flatIdx (dst.map Prod.snd) (qs.map Prod.snd) = flatIdx (cur.n :: modesN rest) (ps.map Prod.snd) →
    chain out' qs a 0 = chain (cur :: rest) ps a 0

theorem pmm_div_pos {m t : Nat} (hm : 0 < m) (hdiv : m % t = 0) : 0 < m / t := by
  have h := rs_split_eq hdiv
  rcases Nat.eq_zero_or_pos (m / t) with h0 | h0
  · rw [h0] at h; simp at h; omega
  · exact h0

/-- one-dimensional arithmetic of the split branch -/
theorem pmm_split_arith {s2 P D' j q f' fr : Nat} (hD : D' = s2 * P) (hs2 : 0 < s2) (hf' : f' < D') (hfr : fr < P)
    (h : j * D' + f' = q * P + fr) : ∃ i2, i2 < s2 ∧ q = j * s2 + i2 ∧ f' = i2 * P + fr := by
  subst hD
  have hq : q = q / s2 * s2 + q % s2 := by
    have := Nat.div_add_mod q s2
    rw [Nat.mul_comm] at this
    exact this.symm
  have hi2 : q % s2 < s2 := Nat.mod_lt _ hs2
  have h' : j * (s2 * P) + f' = q / s2 * (s2 * P) + (q % s2 * P + fr) := by
    rw [h]
    conv_lhs => rw [hq]
    ring
  obtain ⟨e1, e2⟩ := rs_divmod_unique hf' (dc_merge_lt hi2 hfr) h'
  exact ⟨q % s2, hi2, by rw [e1]; exact hq, e2⟩

/-- merge branch -/
theorem pmm_spec_merge (fz : Core α → Core α) (hfz : FzOk fz) (cur c : Core α) (rest' : List (Core α))
    (dst : List (Nat × Nat)) (out' : List (Core α))
    (h : pmm_Spec (fz (mergeCM cur c)) rest' dst out') : pmm_Spec cur (c :: rest') dst out' := by
  obtain ⟨hF0, hFm, hFn, _, _⟩ := hfz (mergeCM cur c)
  have e0 : (fz (mergeCM cur c)).r0 = cur.r0 := hF0
  have em : (fz (mergeCM cur c)).m = cur.m * c.m := hFm
  have en : (fz (mergeCM cur c)).n = cur.n * c.n := hFn
  obtain ⟨hw, hm, hc⟩ := h
  rw [e0] at hw
  rw [e0, em, en] at hc
  refine ⟨hw, hm, ?_⟩
  intro a ps qs ha hps hqs hflm hfln
  cases hps with
  | @cons p _ ps1 _ hp hps1 =>
    simp only [modesMN', List.map_cons] at hps1
    cases hps1 with
    | @cons p' _ ts _ hp' hts =>
      obtain ⟨p1, p2⟩ := p
      obtain ⟨p1', p2'⟩ := p'
      simp only at hp hp'
      have hmq : p1 * c.m + p1' < cur.m * c.m := dc_merge_lt hp.1 hp'.1
      have hnq : p2 * c.n + p2' < cur.n * c.n := dc_merge_lt hp.2 hp'.2
      simp only [modesM, modesN, List.map_cons] at hflm hfln
      rw [hc a ((p1 * c.m + p1', p2 * c.n + p2') :: ts) qs ha (List.Forall₂.cons ⟨hmq, hnq⟩ hts) hqs
        (hflm.trans (rs_flatIdx_merge cur.m c.m _ p1 p1' _).symm)
        (hfln.trans (rs_flatIdx_merge cur.n c.n _ p2 p2' _).symm)]
      rw [pmm_fz_head_chain fz hfz (mergeCM cur c) rest' ts _ _ a 0 ha hmq hnq]
      exact mergeCM_chain cur c rest' ts p1 p2 p1' p2' a 0 hp'.1 hp'.2

/-- emit branch (more cores and more target pairs to go) -/
theorem pmm_spec_emit (cur c : Core α) (rest' : List (Core α)) (dst' : List (Nat × Nat)) (out'' : List (Core α))
    (mt nt : Nat) (hcm : cur.m = mt) (hcn : cur.n = nt) (hr : c.r0 = cur.r1)
    (hpm : prodNat (dst'.map Prod.fst) = prodNat (c.m :: modesM rest'))
    (hpn : prodNat (dst'.map Prod.snd) = prodNat (c.n :: modesN rest'))
    (h : pmm_Spec c rest' dst' out'') : pmm_Spec cur (c :: rest') ((mt, nt) :: dst') (cur :: out'') := by
  obtain ⟨hw, hm, hc⟩ := h
  refine ⟨⟨rfl, hr ▸ hw⟩, ?_, ?_⟩
  · show (cur.m, cur.n) :: modesMN' out'' = (mt, nt) :: dst'
    rw [hcm, hcn, hm]
  · intro a ps qs ha hps hqs hflm hfln
    cases hps with
    | @cons p _ ps1 _ hp hps1 =>
      cases hqs with
      | @cons j _ js' _ hj hjs' =>
        obtain ⟨p1, p2⟩ := p
        obtain ⟨j1, j2⟩ := j
        have hps1' : pmm_InR ps1 ((c.m, c.n) :: modesMN' rest') := hps1
        simp only [List.map_cons, dc_flatIdx_cons] at hflm hfln
        have hflm' : j1 * prodNat (dst'.map Prod.fst) + flatIdx (dst'.map Prod.fst) (js'.map Prod.fst)
            = p1 * prodNat (dst'.map Prod.fst) + flatIdx (c.m :: modesM rest') (ps1.map Prod.fst) := by
          rw [hflm, hpm]; rfl
        have hfln' : j2 * prodNat (dst'.map Prod.snd) + flatIdx (dst'.map Prod.snd) (js'.map Prod.snd)
            = p2 * prodNat (dst'.map Prod.snd) + flatIdx (c.n :: modesN rest') (ps1.map Prod.snd) := by
          rw [hfln, hpn]; rfl
        have hltm := dc_flatIdx_lt (pmm_InR_fst hps1')
        have hltn := dc_flatIdx_lt (pmm_InR_snd hps1')
        simp only [modesMN', List.map_cons, List.map_map] at hltm hltn
        have hltm' : flatIdx (c.m :: modesM rest') (ps1.map Prod.fst) < prodNat (dst'.map Prod.fst) := by
          rw [hpm]; exact hltm
        have hltn' : flatIdx (c.n :: modesN rest') (ps1.map Prod.snd) < prodNat (dst'.map Prod.snd) := by
          rw [hpn]; exact hltn
        obtain ⟨e1, e2⟩ := rs_divmod_unique (dc_flatIdx_lt (pmm_InR_fst hjs')) hltm' hflm'
        obtain ⟨e3, e4⟩ := rs_divmod_unique (dc_flatIdx_lt (pmm_InR_snd hjs')) hltn' hfln'
        subst e1 e3
        show sumTo cur.r1 (fun k => cur.get a j1 j2 k * chain out'' js' k 0)
          = sumTo cur.r1 (fun k => cur.get a j1 j2 k * chain (c :: rest') ps1 k 0)
        apply sumTo_congr
        intro k hk
        rw [hc k ps1 js' (by rw [hr]; exact hk) hps1' hjs' e2 e4]

theorem pmm_ones_fst {l : List (Nat × Nat)} (h1 : ∀ s ∈ l, s = (1, 1)) : ∀ s ∈ l.map Prod.fst, s = 1 := by
  intro s hs
  obtain ⟨x, hx, rfl⟩ := List.mem_map.mp hs
  rw [h1 x hx]

theorem pmm_ones_snd {l : List (Nat × Nat)} (h1 : ∀ s ∈ l, s = (1, 1)) : ∀ s ∈ l.map Prod.snd, s = 1 := by
  intro s hs
  obtain ⟨x, hx, rfl⟩ := List.mem_map.mp hs
  rw [h1 x hx]

/-- emit branch, all source cores consumed: trailing `ones((1,1,1,1))` -/
theorem pmm_spec_last (cur : Core α) (dst' : List (Nat × Nat)) (mt nt : Nat)
    (hcm : cur.m = mt) (hcn : cur.n = nt) (hr1 : cur.r1 = 1) (h1 : ∀ s ∈ dst', s = (1, 1)) :
    pmm_Spec cur [] ((mt, nt) :: dst') (cur :: dst'.map (fun _ => oneCoreM)) := by
  refine ⟨⟨rfl, ?_⟩, ?_, ?_⟩
  · rw [hr1]; exact pmm_ones_WF dst'
  · show (cur.m, cur.n) :: modesMN' (dst'.map (fun _ => (oneCoreM : Core α))) = (mt, nt) :: dst'
    rw [hcm, hcn, pmm_ones_modes dst' h1]
  · intro a ps qs ha hps hqs hflm hfln
    cases hps with
    | @cons p _ ps1 _ hp hps1 =>
      cases hps1
      cases hqs with
      | @cons j _ js' _ hj hjs' =>
        obtain ⟨p1, p2⟩ := p
        obtain ⟨j1, j2⟩ := j
        simp only [List.map_cons, dc_flatIdx_cons] at hflm hfln
        rw [rs_prod_ones (pmm_ones_fst h1), rs_flatIdx_ones (pmm_ones_fst h1) (pmm_InR_fst hjs')] at hflm
        rw [rs_prod_ones (pmm_ones_snd h1), rs_flatIdx_ones (pmm_ones_snd h1) (pmm_InR_snd hjs')] at hfln
        have e1 : j1 = p1 := by
          simp only [modesM, List.map_nil, dc_prodNat_nil, flatIdx] at hflm
          omega
        have e2 : j2 = p2 := by
          simp only [modesN, List.map_nil, dc_prodNat_nil, flatIdx] at hfln
          omega
        subst e1 e2
        have hlen : js'.length = dst'.length := hjs'.length_eq
        show sumTo cur.r1 (fun k => cur.get a j1 j2 k * chain (dst'.map (fun _ => (oneCoreM : Core α))) js' k 0)
          = sumTo cur.r1 (fun k => cur.get a j1 j2 k * (if k = 0 then 1 else 0))
        rw [hr1, sumTo_one, sumTo_one, oneCoreM_chain dst' js' hlen]
        simp

/-- emit branch, target exhausted: the remaining cores with mode pairs `(1,1)` are absorbed -/
theorem pmm_spec_absorb (fz : Core α → Core α) (hfz : FzOk fz) (cur : Core α) (rest : List (Core α)) (mt nt : Nat)
    (hcm : cur.m = mt) (hcn : cur.n = nt) (hwf : WF rest cur.r1) (h1 : ∀ y ∈ rest, y.m = 1 ∧ y.n = 1) :
    pmm_Spec cur rest [(mt, nt)] [fz (absorbAllM cur rest)] := by
  obtain ⟨⟨hX0, hX1⟩, hXm, hXn⟩ := pmm_absorbAllM_shape rest cur cur.r0 h1 ⟨rfl, hwf⟩
  obtain ⟨hF0, hFm, hFn, hF1, _⟩ := hfz (absorbAllM cur rest)
  have h1m : ∀ s ∈ modesM rest, s = 1 := by
    intro s hs
    obtain ⟨y, hy, rfl⟩ := List.mem_map.mp hs
    exact (h1 y hy).1
  have h1n : ∀ s ∈ modesN rest, s = 1 := by
    intro s hs
    obtain ⟨y, hy, rfl⟩ := List.mem_map.mp hs
    exact (h1 y hy).2
  refine ⟨⟨hF0.trans hX0, ?_⟩, ?_, ?_⟩
  · rw [hF1]; exact hX1
  · show [((fz (absorbAllM cur rest)).m, (fz (absorbAllM cur rest)).n)] = [(mt, nt)]
    rw [hFm, hFn, hXm, hXn, hcm, hcn]
  · intro a ps qs ha hps hqs hflm hfln
    cases hps with
    | @cons p _ zs _ hp hzs =>
      cases hqs with
      | @cons j _ js' _ hj hjs' =>
        cases hjs'
        obtain ⟨p1, p2⟩ := p
        obtain ⟨j1, j2⟩ := j
        have hzm := pmm_InR_fst hzs
        have hzn := pmm_InR_snd hzs
        rw [dm_modesMN'_fst] at hzm
        rw [dm_modesMN'_snd] at hzn
        simp only [List.map_cons, List.map_nil, dc_flatIdx_cons] at hflm hfln
        rw [rs_prod_ones h1m, rs_flatIdx_ones h1m hzm] at hflm
        rw [rs_prod_ones h1n, rs_flatIdx_ones h1n hzn] at hfln
        have e1 : j1 = p1 := by
          simp only [dc_prodNat_nil, flatIdx] at hflm
          omega
        have e2 : j2 = p2 := by
          simp only [dc_prodNat_nil, flatIdx] at hfln
          omega
        subst e1 e2
        simp only at hp
        rw [pmm_fz_head_chain fz hfz (absorbAllM cur rest) [] [] j1 j2 a 0 (by rw [hX0]; exact ha)
          (by rw [hXm]; exact hp.1) (by rw [hXn]; exact hp.2)]
        exact absorbAllM_chain rest cur zs j1 j2 a 0 h1 ((pmm_InR_modes zs rest).mp hzs)

/-- split branch -/
theorem pmm_spec_split (svd : Oracle α) (hsvd : Exact svd) (fz : Core α → Core α) (hfz : FzOk fz) (cur : Core α)
    (rest : List (Core α)) (dst' : List (Nat × Nat)) (out'' : List (Core α)) (mt nt : Nat)
    (hdm : cur.m % mt = 0) (hdn : cur.n % nt = 0)
    (hpm : prodNat (dst'.map Prod.fst) = cur.m / mt * prodNat (modesM rest))
    (hpn : prodNat (dst'.map Prod.snd) = cur.n / nt * prodNat (modesN rest))
    (h : pmm_Spec (fz (splitStepM svd cur mt nt).2) rest dst' out'') :
    pmm_Spec cur rest ((mt, nt) :: dst') (fz (splitStepM svd cur mt nt).1 :: out'') := by
  obtain ⟨hA0, hAm, hAn, hA1, hAg⟩ := hfz (splitStepM svd cur mt nt).1
  obtain ⟨hB0, hBm, hBn, hB1, hBg⟩ := hfz (splitStepM svd cur mt nt).2
  have eB0 : (fz (splitStepM svd cur mt nt).2).r0 = (splitStepM svd cur mt nt).1.r1 := hB0
  have eBm : (fz (splitStepM svd cur mt nt).2).m = cur.m / mt := hBm
  have eBn : (fz (splitStepM svd cur mt nt).2).n = cur.n / nt := hBn
  obtain ⟨hw, hm, hc⟩ := h
  rw [eB0] at hw
  rw [eB0, eBm, eBn] at hc
  refine ⟨⟨hA0, ?_⟩, ?_, ?_⟩
  · rw [hA1]; exact hw
  · show ((fz (splitStepM svd cur mt nt).1).m, (fz (splitStepM svd cur mt nt).1).n) :: modesMN' out'' = (mt, nt) :: dst'
    rw [hAm, hAn, hm]; rfl
  · intro a ps qs ha hps hqs hflm hfln
    cases hps with
    | @cons p _ ts _ hp hts =>
      cases hqs with
      | @cons j _ js' _ hj hjs' =>
        obtain ⟨p1, p2⟩ := p
        obtain ⟨j1, j2⟩ := j
        simp only at hp hj
        have htm := pmm_InR_fst hts
        have htn := pmm_InR_snd hts
        rw [dm_modesMN'_fst] at htm
        rw [dm_modesMN'_snd] at htn
        simp only [List.map_cons, dc_flatIdx_cons] at hflm hfln
        obtain ⟨i2m, hi2m, hp1, e2m⟩ := pmm_split_arith hpm (pmm_div_pos (by omega) hdm)
          (dc_flatIdx_lt (pmm_InR_fst hjs')) (dc_flatIdx_lt htm) hflm
        obtain ⟨i2n, hi2n, hp2, e2n⟩ := pmm_split_arith hpn (pmm_div_pos (by omega) hdn)
          (dc_flatIdx_lt (pmm_InR_snd hjs')) (dc_flatIdx_lt htn) hfln
        subst hp1 hp2
        have hin : pmm_InR ((i2m, i2n) :: ts) ((cur.m / mt, cur.n / nt) :: modesMN' rest) :=
          List.Forall₂.cons ⟨hi2m, hi2n⟩ hts
        have hrec := fun k hk => hc k ((i2m, i2n) :: ts) js' hk hin hjs'
          (by simp only [List.map_cons, dc_flatIdx_cons]; exact e2m)
          (by simp only [List.map_cons, dc_flatIdx_cons]; exact e2n)
        show sumTo (fz (splitStepM svd cur mt nt).1).r1
            (fun k => (fz (splitStepM svd cur mt nt).1).get a j1 j2 k * chain out'' js' k 0)
          = sumTo cur.r1 (fun b => cur.get a (j1 * (cur.m / mt) + i2m) (j2 * (cur.n / nt) + i2n) b * chain rest ts b 0)
        rw [hA1]
        rw [sumTo_congr (g := fun k => (splitStepM svd cur mt nt).1.get a j1 j2 k *
              sumTo cur.r1 (fun b => (splitStepM svd cur mt nt).2.get k i2m i2n b * chain rest ts b 0))
          (fun k hk => by
            rw [hAg a j1 j2 k ha hj.1 hj.2 hk, hrec k hk]
            congr 1
            rw [pmm_fz_head_chain fz hfz (splitStepM svd cur mt nt).2 rest ts i2m i2n k 0 hk hi2m hi2n]
            rfl)]
        refine (dc_sumTo_assoc _ cur.r1 (fun k => (splitStepM svd cur mt nt).1.get a j1 j2 k)
          (fun k b => (splitStepM svd cur mt nt).2.get k i2m i2n b) (fun b => chain rest ts b 0)).trans ?_
        apply sumTo_congr
        intro b hb
        show sumTo (splitStepM svd cur mt nt).1.r1 (fun k => (splitStepM svd cur mt nt).1.get a j1 j2 k *
          (splitStepM svd cur mt nt).2.get k i2m i2n b) * _ = _
        rw [splitStepM_chain svd hsvd cur mt nt j1 j2 i2m i2n a b hj.1 hj.2 hi2m hi2n ha hb]

/-! ### (B2) the loop -/

theorem pmm_all_one_pairs {l : List (Nat × Nat)} (hpos : ∀ t ∈ l, 0 < t.1 ∧ 0 < t.2)
    (hm : prodNat (l.map Prod.fst) = 1) (hn : prodNat (l.map Prod.snd) = 1) : ∀ s ∈ l, s = (1, 1) := by
  intro s hs
  have h1 := rs_all_one_of_prod (l := l.map Prod.fst)
    (fun x hx => by obtain ⟨y, hy, rfl⟩ := List.mem_map.mp hx; exact (hpos y hy).1) hm s.1 (List.mem_map_of_mem hs)
  have h2 := rs_all_one_of_prod (l := l.map Prod.snd)
    (fun x hx => by obtain ⟨y, hy, rfl⟩ := List.mem_map.mp hx; exact (hpos y hy).2) hn s.2 (List.mem_map_of_mem hs)
  exact Prod.ext h1 h2

/-- **loop invariant of `reshape` (TT-matrix branch)**: whatever the fuel, if the loop returns it returns the cores already
produced followed by cores that represent `cur :: rest` in the target mode pairs, the row-major order of the row indices and
of the column indices kept separately -/
theorem pmm_reshapeGoM_spec (svd : Oracle α) (hsvd : Exact svd) (fz : Core α → Core α) (hfz : FzOk fz) :
    ∀ (fuel : Nat) (cur : Core α) (rest : List (Core α)) (dst : List (Nat × Nat)) (acc out : List (Core α)),
      dst ≠ [] → WF rest cur.r1 → 0 < cur.m → 0 < cur.n → (∀ s ∈ modesM rest, 0 < s) → (∀ s ∈ modesN rest, 0 < s) →
      (∀ t ∈ dst, 0 < t.1 ∧ 0 < t.2) → prodNat (dst.map Prod.fst) = cur.m * prodNat (modesM rest) →
      prodNat (dst.map Prod.snd) = cur.n * prodNat (modesN rest) →
      reshapeGoM svd fz fuel cur rest dst acc = some out →
      ∃ out', out = acc.reverse ++ out' ∧ pmm_Spec cur rest dst out' := by
  intro fuel
  induction fuel with
  | zero => intro cur rest dst acc out _ _ _ _ _ _ _ _ _ h; simp [reshapeGoM] at h
  | succ fuel ih =>
    intro cur rest dst acc out hne hwf hm hn hrm hrn hdpos hpm hpn h
    cases dst with
    | nil => exact absurd rfl hne
    | cons t dst' =>
      obtain ⟨mt, nt⟩ := t
      have ht0 : 0 < mt ∧ 0 < nt := hdpos (mt, nt) (by simp)
      have hdpos' : ∀ s ∈ dst', 0 < s.1 ∧ 0 < s.2 := fun s hs => hdpos s (by simp [hs])
      simp only [List.map_cons, dc_prodNat_cons] at hpm hpn
      simp only [reshapeGoM] at h
      split at h
      · rename_i hcond
        have hdm : cur.m % mt = 0 := hcond.2.2.1
        have hdn : cur.n % nt = 0 := hcond.2.2.2
        split at h
        · -- split
          rename_i hgt
          have hcm := rs_split_eq hdm
          have hcn := rs_split_eq hdn
          have hpm' : prodNat (dst'.map Prod.fst) = cur.m / mt * prodNat (modesM rest) := by
            apply Nat.eq_of_mul_eq_mul_left ht0.1
            rw [hpm, ← Nat.mul_assoc, ← hcm]
          have hpn' : prodNat (dst'.map Prod.snd) = cur.n / nt * prodNat (modesN rest) := by
            apply Nat.eq_of_mul_eq_mul_left ht0.2
            rw [hpn, ← Nat.mul_assoc, ← hcn]
          cases dst' with
          | nil => simp at h
          | cons t2 dst2 =>
            simp only at h
            obtain ⟨out'', ho, hs⟩ := ih (fz (splitStepM svd cur mt nt).2) rest (t2 :: dst2)
              (fz (splitStepM svd cur mt nt).1 :: acc) out (by simp)
              (by rw [(hfz _).2.2.2.1]; exact hwf)
              (by rw [(hfz _).2.1]; exact pmm_div_pos hm hdm)
              (by rw [(hfz _).2.2.1]; exact pmm_div_pos hn hdn) hrm hrn hdpos'
              (by rw [(hfz _).2.1]; exact hpm') (by rw [(hfz _).2.2.1]; exact hpn') h
            refine ⟨fz (splitStepM svd cur mt nt).1 :: out'', ?_, ?_⟩
            · rw [ho]; simp
            · exact pmm_spec_split svd hsvd fz hfz cur rest (t2 :: dst2) out'' mt nt hdm hdn hpm' hpn' hs
        · -- emit
          rename_i hng
          have hcm : cur.m = mt := rs_emit_eq hm hdm (fun hh => hng (Or.inl hh))
          have hcn : cur.n = nt := rs_emit_eq hn hdn (fun hh => hng (Or.inr hh))
          have hpm' : prodNat (dst'.map Prod.fst) = prodNat (modesM rest) := by
            apply Nat.eq_of_mul_eq_mul_left ht0.1
            rw [hpm, hcm]
          have hpn' : prodNat (dst'.map Prod.snd) = prodNat (modesN rest) := by
            apply Nat.eq_of_mul_eq_mul_left ht0.2
            rw [hpn, hcn]
          cases rest with
          | nil =>
            simp only [Option.some.injEq] at h
            have h1 : ∀ s ∈ dst', s = (1, 1) :=
              pmm_all_one_pairs hdpos' (by rw [hpm']; rfl) (by rw [hpn']; rfl)
            refine ⟨cur :: dst'.map (fun _ => oneCoreM), ?_, pmm_spec_last cur dst' mt nt hcm hcn hwf h1⟩
            rw [← h]; simp
          | cons c rest' =>
            cases dst' with
            | nil =>
              simp only [Option.some.injEq] at h
              have h1m : ∀ s ∈ modesM (c :: rest'), s = 1 := rs_all_one_of_prod hrm (by rw [← hpm']; rfl)
              have h1n : ∀ s ∈ modesN (c :: rest'), s = 1 := rs_all_one_of_prod hrn (by rw [← hpn']; rfl)
              have h1 : ∀ y ∈ c :: rest', y.m = 1 ∧ y.n = 1 := fun y hy =>
                ⟨h1m y.m (List.mem_map_of_mem hy), h1n y.n (List.mem_map_of_mem hy)⟩
              refine ⟨[fz (absorbAllM cur (c :: rest'))], ?_,
                pmm_spec_absorb fz hfz cur (c :: rest') mt nt hcm hcn hwf h1⟩
              rw [← h]; simp
            | cons t2 dst2 =>
              simp only at h
              have hpm'' : prodNat ((t2 :: dst2).map Prod.fst) = c.m * prodNat (modesM rest') := by
                rw [hpm']; exact dc_prodNat_cons _ _
              have hpn'' : prodNat ((t2 :: dst2).map Prod.snd) = c.n * prodNat (modesN rest') := by
                rw [hpn']; exact dc_prodNat_cons _ _
              obtain ⟨out'', ho, hs⟩ := ih c rest' (t2 :: dst2) (cur :: acc) out (by simp) hwf.2
                (hrm c.m (by simp [modesM])) (hrn c.n (by simp [modesN]))
                (fun s hs => hrm s (by simp [modesM] at hs ⊢; exact Or.inr hs))
                (fun s hs => hrn s (by simp [modesN] at hs ⊢; exact Or.inr hs))
                hdpos' hpm'' hpn'' h
              refine ⟨cur :: out'', ?_, ?_⟩
              · rw [ho]; simp
              · exact pmm_spec_emit cur c rest' (t2 :: dst2) out'' mt nt hcm hcn hwf.1 hpm' hpn' hs
      · -- merge
        cases rest with
        | nil => simp at h
        | cons c rest' =>
          simp only at h
          have hcmpos : 0 < c.m := hrm c.m (by simp [modesM])
          have hcnpos : 0 < c.n := hrn c.n (by simp [modesN])
          obtain ⟨out', ho, hs⟩ := ih (fz (mergeCM cur c)) rest' ((mt, nt) :: dst') acc out (by simp)
            (by rw [(hfz _).2.2.2.1]; exact hwf.2)
            (by rw [(hfz _).2.1]; exact Nat.mul_pos hm hcmpos)
            (by rw [(hfz _).2.2.1]; exact Nat.mul_pos hn hcnpos)
            (fun s hs => hrm s (by simp [modesM] at hs ⊢; exact Or.inr hs))
            (fun s hs => hrn s (by simp [modesN] at hs ⊢; exact Or.inr hs)) hdpos
            (by
              rw [(hfz _).2.1]
              simp only [List.map_cons, dc_prodNat_cons]
              rw [hpm]
              show cur.m * prodNat (c.m :: modesM rest') = cur.m * c.m * prodNat (modesM rest')
              rw [dc_prodNat_cons, Nat.mul_assoc])
            (by
              rw [(hfz _).2.2.1]
              simp only [List.map_cons, dc_prodNat_cons]
              rw [hpn]
              show cur.n * prodNat (c.n :: modesN rest') = cur.n * c.n * prodNat (modesN rest')
              rw [dc_prodNat_cons, Nat.mul_assoc]) h
          exact ⟨out', ho, pmm_spec_merge fz hfz cur c rest' ((mt, nt) :: dst') out' hs⟩

/-! ### (B2) `reshape` -/

/-- the loop preceded by the gauge sweep (before the final rounding), index-pair form -/
theorem reshapeCoresM_full (fz : Core α → Core α) (hfz : FzOk fz) (qr svd : Oracle α) (hqr : Exact qr)
    (hsvd : Exact svd) (dst : List (Nat × Nat)) (cs r : List (Core α)) (hne : dst ≠ []) (hwf : WF cs 1)
    (hmpos : ∀ s ∈ modesM cs, 0 < s) (hnpos : ∀ s ∈ modesN cs, 0 < s) (hdpos : ∀ t ∈ dst, 0 < t.1 ∧ 0 < t.2)
    (hpm : prodNat (dst.map Prod.fst) = prodNat (modesM cs)) (hpn : prodNat (dst.map Prod.snd) = prodNat (modesN cs))
    (h : reshapeCoresMWith fz qr svd dst cs = some r) :
    WF r 1 ∧ modesMN' r = dst ∧
    ∀ ps qs, dm_InRange ps cs → pmm_InR qs dst →
      flatIdx (dst.map Prod.fst) (qs.map Prod.fst) = flatIdx (modesM cs) (ps.map Prod.fst) →
      flatIdx (dst.map Prod.snd) (qs.map Prod.snd) = flatIdx (modesN cs) (ps.map Prod.snd) →
      full r qs = full cs ps := by
  have hwf1 : WF (rlOrthM qr cs) 1 := rlOrthM_WF qr cs 1 hwf
  have hL1 : WF ((rlOrthM qr cs).map fz) 1 := pm_map_fz_WF fz hfz _ 1 hwf1
  have hL3 : modesMN' ((rlOrthM qr cs).map fz) = modesMN' cs := by rw [pmm_map_fz_modes fz hfz, rlOrthM_modes]
  have hL4 : ∀ ps, dm_InRange ps cs → chain ((rlOrthM qr cs).map fz) ps 0 0 = full cs ps := by
    intro ps hps
    have hps' : dm_InRange ps (rlOrthM qr cs) := by
      rw [← pmm_InR_modes, rlOrthM_modes, pmm_InR_modes]; exact hps
    rw [pmm_map_fz_chain fz hfz _ ps 1 0 0 hwf1 hps' Nat.one_pos]
    exact rlOrthM_full qr hqr cs ps hwf hps
  unfold reshapeCoresMWith at h
  generalize (rlOrthM qr cs).map fz = L at h hL1 hL3 hL4
  cases L with
  | nil => simp at h
  | cons c rest =>
    simp only at h
    have hmn : modesMN' cs = (c.m, c.n) :: modesMN' rest := hL3.symm
    have hmm : modesM cs = c.m :: modesM rest := by
      rw [← dm_modesMN'_fst, hmn, List.map_cons, dm_modesMN'_fst]
    have hnn : modesN cs = c.n :: modesN rest := by
      rw [← dm_modesMN'_snd, hmn, List.map_cons, dm_modesMN'_snd]
    rw [hmm] at hmpos hpm
    rw [hnn] at hnpos hpn
    obtain ⟨out', ho, hw, hmod, hc⟩ := pmm_reshapeGoM_spec svd hsvd fz hfz _ c rest dst [] r hne hL1.2
      (hmpos c.m (by simp)) (hnpos c.n (by simp)) (fun s hs => hmpos s (by simp [hs])) (fun s hs => hnpos s (by simp [hs]))
      hdpos (by rw [hpm, dc_prodNat_cons]) (by rw [hpn, dc_prodNat_cons]) h
    simp only [List.reverse_nil, List.nil_append] at ho
    subst ho
    rw [hL1.1] at hw hc
    refine ⟨hw, hmod, ?_⟩
    intro ps qs hps hqs hflm hfln
    rw [← hL4 ps hps]
    rw [hmm] at hflm
    rw [hnn] at hfln
    have hps' : pmm_InR ps ((c.m, c.n) :: modesMN' rest) := by
      rw [← hmn, pmm_InR_modes]; exact hps
    exact hc 0 ps qs Nat.one_pos hps' hqs hflm hfln

/-- `reshape` of a TT-matrix keeps the row-major order of the row indices and of the column indices (index-pair form) -/
theorem reshapeTTM_full_pairs (fz : Core α → Core α) (hfz : FzOk fz) (qr svd : Oracle α) (hqr : Exact qr)
    (hsvd : Exact svd) (dst : List (Nat × Nat)) (cs out : List (Core α)) (hne : dst ≠ []) (hwf : WF cs 1)
    (hmpos : ∀ s ∈ modesM cs, 0 < s) (hnpos : ∀ s ∈ modesN cs, 0 < s) (hdpos : ∀ t ∈ dst, 0 < t.1 ∧ 0 < t.2)
    (hpm : prodNat (dst.map Prod.fst) = prodNat (modesM cs)) (hpn : prodNat (dst.map Prod.snd) = prodNat (modesN cs))
    (h : reshapeTTMWith fz qr svd dst cs = some out) :
    WF out 1 ∧ modesMN' out = dst ∧
    ∀ ps qs, dm_InRange ps cs → pmm_InR qs dst →
      flatIdx (dst.map Prod.fst) (qs.map Prod.fst) = flatIdx (modesM cs) (ps.map Prod.fst) →
      flatIdx (dst.map Prod.snd) (qs.map Prod.snd) = flatIdx (modesN cs) (ps.map Prod.snd) →
      full out qs = full cs ps := by
  unfold reshapeTTMWith at h
  obtain ⟨r, hr, ho⟩ := Option.map_eq_some_iff.mp h
  subst ho
  obtain ⟨hw, hmod, hc⟩ := reshapeCoresM_full fz hfz qr svd hqr hsvd dst cs r hne hwf hmpos hnpos hdpos hpm hpn hr
  refine ⟨roundTTM_WF qr svd r 1 hw, by rw [roundTTM_modes, hmod], ?_⟩
  intro ps qs hps hqs hflm hfln
  rw [roundTTM_full qr svd hqr hsvd r qs hw (by rw [← pmm_InR_modes, hmod]; exact hqs)]
  exact hc ps qs hps hqs hflm hfln

theorem pmm_zip_unzip (dst : List (Nat × Nat)) : (dst.map Prod.fst).zip (dst.map Prod.snd) = dst := by
  induction dst with
  | nil => rfl
  | cons d dst ih => simp only [List.map_cons, List.zip_cons_cons, ih]

theorem pmm_zip_modes (cs : List (Core α)) : (modesM cs).zip (modesN cs) = modesMN' cs := by
  induction cs with
  | nil => rfl
  | cons c cs ih =>
    simp only [modesM, modesN, modesMN', List.map_cons, List.zip_cons_cons] at ih ⊢
    rw [ih]

theorem pmm_zip_fst : ∀ (is js : List Nat), is.length = js.length → (is.zip js).map Prod.fst = is := by
  intro is
  induction is with
  | nil => intro js _; rfl
  | cons i is ih =>
    intro js hl
    match js, hl with
    | j :: js, hl => simp only [List.zip_cons_cons, List.map_cons, ih js (by simpa using hl)]

theorem pmm_zip_snd : ∀ (is js : List Nat), is.length = js.length → (is.zip js).map Prod.snd = js := by
  intro is
  induction is with
  | nil => intro js hl; cases js with
    | nil => rfl
    | cons j js => simp at hl
  | cons i is ih =>
    intro js hl
    match js, hl with
    | j :: js, hl => simp only [List.zip_cons_cons, List.map_cons, ih js (by simpa using hl)]

/-- **MAIN THEOREM — `reshape` of a TT-matrix keeps the row-major entry order of rows and columns separately.**  With exact
QR / SVD oracles and a representation-normalising `fz`, for a well-formed TT-matrix `cs` with positive mode sizes and a
non-empty target shape `dst` of positive mode pairs with the same row and column element counts: whenever `reshape` returns,
the result is a well-formed train with mode pairs `dst` whose entry at rows `is'`, columns `js'` is the entry of `cs` at the
row multi-index `is` and column multi-index `js` with the same flat row position and the same flat column position. -/
theorem reshapeTTM_full (fz : Core α → Core α) (hfz : FzOk fz) (qr svd : Oracle α) (hqr : Exact qr)
    (hsvd : Exact svd) (dst : List (Nat × Nat)) (cs out : List (Core α)) (hne : dst ≠ []) (hwf : WF cs 1)
    (hmpos : ∀ s ∈ modesM cs, 0 < s) (hnpos : ∀ s ∈ modesN cs, 0 < s) (hdpos : ∀ t ∈ dst, 0 < t.1 ∧ 0 < t.2)
    (hpm : prodNat (dst.map Prod.fst) = prodNat (modesM cs)) (hpn : prodNat (dst.map Prod.snd) = prodNat (modesN cs))
    (h : reshapeTTMWith fz qr svd dst cs = some out) :
    (WF out 1 ∧ modesMN' out = dst) ∧
    ∀ is js is' js', List.Forall₂ (· < ·) is (modesM cs) → List.Forall₂ (· < ·) js (modesN cs) →
      List.Forall₂ (· < ·) is' (dst.map Prod.fst) → List.Forall₂ (· < ·) js' (dst.map Prod.snd) →
      flatIdx (dst.map Prod.fst) is' = flatIdx (modesM cs) is → flatIdx (dst.map Prod.snd) js' = flatIdx (modesN cs) js →
      full out (is'.zip js') = full cs (is.zip js) := by
  obtain ⟨hw, hmod, hc⟩ := reshapeTTM_full_pairs fz hfz qr svd hqr hsvd dst cs out hne hwf hmpos hnpos hdpos hpm hpn h
  refine ⟨⟨hw, hmod⟩, ?_⟩
  intro is js is' js' his hjs his' hjs' hflm hfln
  have hl : is.length = js.length := by
    rw [his.length_eq, hjs.length_eq]; simp [modesM, modesN]
  have hl' : is'.length = js'.length := by
    rw [his'.length_eq, hjs'.length_eq]; simp
  have h1 : dm_InRange (is.zip js) cs := by
    rw [← pmm_InR_modes, ← pmm_zip_modes]
    exact pmm_InR_zip is js _ _ his hjs (by simp [modesM, modesN])
  have h2 : pmm_InR (is'.zip js') dst := by
    have := pmm_InR_zip is' js' _ _ his' hjs' (by simp)
    rw [pmm_zip_unzip] at this
    exact this
  apply hc (is.zip js) (is'.zip js') h1 h2
  · rw [pmm_zip_fst is' js' hl', pmm_zip_fst is js hl]; exact hflm
  · rw [pmm_zip_snd is' js' hl', pmm_zip_snd is js hl]; exact hfln

/-- the reference `fz = id` -/
theorem reshapeTTM_full_id (qr svd : Oracle α) (hqr : Exact qr) (hsvd : Exact svd) (dst : List (Nat × Nat))
    (cs out : List (Core α)) (hne : dst ≠ []) (hwf : WF cs 1)
    (hmpos : ∀ s ∈ modesM cs, 0 < s) (hnpos : ∀ s ∈ modesN cs, 0 < s) (hdpos : ∀ t ∈ dst, 0 < t.1 ∧ 0 < t.2)
    (hpm : prodNat (dst.map Prod.fst) = prodNat (modesM cs)) (hpn : prodNat (dst.map Prod.snd) = prodNat (modesN cs))
    (h : reshapeTTMWith id qr svd dst cs = some out) :
    (WF out 1 ∧ modesMN' out = dst) ∧
    ∀ is js is' js', List.Forall₂ (· < ·) is (modesM cs) → List.Forall₂ (· < ·) js (modesN cs) →
      List.Forall₂ (· < ·) is' (dst.map Prod.fst) → List.Forall₂ (· < ·) js' (dst.map Prod.snd) →
      flatIdx (dst.map Prod.fst) is' = flatIdx (modesM cs) is → flatIdx (dst.map Prod.snd) js' = flatIdx (modesN cs) js →
      full out (is'.zip js') = full cs (is.zip js) :=
  reshapeTTM_full id FzOk_id qr svd hqr hsvd dst cs out hne hwf hmpos hnpos hdpos hpm hpn h

/-! ### (B3) totality -/

/-- totality of the loop: the `none` branches are excluded by the two element counts and the fuel suffices.  (When the target
pair divides only one of the two working modes the model merges the next source core; with all source cores merged both
working modes are multiples of the target pair because the row and the column element counts agree.) -/
theorem pmm_reshapeGoM_total (svd : Oracle α) (fz : Core α → Core α) (hfz : FzOk fz) :
    ∀ (fuel : Nat) (cur : Core α) (rest : List (Core α)) (dst : List (Nat × Nat)) (acc : List (Core α)),
      rest.length + dst.length < fuel → 0 < cur.m → 0 < cur.n → (∀ s ∈ modesM rest, 0 < s) → (∀ s ∈ modesN rest, 0 < s) →
      (∀ t ∈ dst, 0 < t.1 ∧ 0 < t.2) → prodNat (dst.map Prod.fst) = cur.m * prodNat (modesM rest) →
      prodNat (dst.map Prod.snd) = cur.n * prodNat (modesN rest) →
      ∃ out, reshapeGoM svd fz fuel cur rest dst acc = some out := by
  intro fuel
  induction fuel with
  | zero => intro cur rest dst acc hf; omega
  | succ fuel ih =>
    intro cur rest dst acc hf hm hn hrm hrn hdpos hpm hpn
    cases dst with
    | nil => exact ⟨acc.reverse, by simp [reshapeGoM]⟩
    | cons t dst' =>
      obtain ⟨mt, nt⟩ := t
      have ht0 : 0 < mt ∧ 0 < nt := hdpos (mt, nt) (by simp)
      have hdpos' : ∀ s ∈ dst', 0 < s.1 ∧ 0 < s.2 := fun s hs => hdpos s (by simp [hs])
      simp only [List.map_cons, dc_prodNat_cons] at hpm hpn
      simp only [reshapeGoM]
      split
      · rename_i hcond
        have hdm : cur.m % mt = 0 := hcond.2.2.1
        have hdn : cur.n % nt = 0 := hcond.2.2.2
        split
        · rename_i hgt
          have hcm := rs_split_eq hdm
          have hcn := rs_split_eq hdn
          have hpm' : prodNat (dst'.map Prod.fst) = cur.m / mt * prodNat (modesM rest) := by
            apply Nat.eq_of_mul_eq_mul_left ht0.1
            rw [hpm, ← Nat.mul_assoc, ← hcm]
          have hpn' : prodNat (dst'.map Prod.snd) = cur.n / nt * prodNat (modesN rest) := by
            apply Nat.eq_of_mul_eq_mul_left ht0.2
            rw [hpn, ← Nat.mul_assoc, ← hcn]
          cases dst' with
          | nil =>
            exfalso
            simp only [List.map_nil, dc_prodNat_nil] at hpm' hpn'
            have e1 := Nat.eq_one_of_mul_eq_one_right hpm'.symm
            have e2 := Nat.eq_one_of_mul_eq_one_right hpn'.symm
            omega
          | cons t2 dst2 =>
            simp only
            apply ih
            · simp only [List.length_cons] at hf ⊢; omega
            · rw [(hfz _).2.1]; exact pmm_div_pos hm hdm
            · rw [(hfz _).2.2.1]; exact pmm_div_pos hn hdn
            · exact hrm
            · exact hrn
            · exact hdpos'
            · rw [(hfz _).2.1]; exact hpm'
            · rw [(hfz _).2.2.1]; exact hpn'
        · rename_i hng
          have hcm : cur.m = mt := rs_emit_eq hm hdm (fun hh => hng (Or.inl hh))
          have hcn : cur.n = nt := rs_emit_eq hn hdn (fun hh => hng (Or.inr hh))
          have hpm' : prodNat (dst'.map Prod.fst) = prodNat (modesM rest) := by
            apply Nat.eq_of_mul_eq_mul_left ht0.1
            rw [hpm, hcm]
          have hpn' : prodNat (dst'.map Prod.snd) = prodNat (modesN rest) := by
            apply Nat.eq_of_mul_eq_mul_left ht0.2
            rw [hpn, hcn]
          cases rest with
          | nil => exact ⟨_, rfl⟩
          | cons c rest' =>
            cases dst' with
            | nil => exact ⟨_, rfl⟩
            | cons t2 dst2 =>
              simp only
              apply ih
              · simp only [List.length_cons] at hf ⊢; omega
              · exact hrm c.m (by simp [modesM])
              · exact hrn c.n (by simp [modesN])
              · exact fun s hs => hrm s (by simp [modesM] at hs ⊢; exact Or.inr hs)
              · exact fun s hs => hrn s (by simp [modesN] at hs ⊢; exact Or.inr hs)
              · exact hdpos'
              · rw [hpm']; exact dc_prodNat_cons _ _
              · rw [hpn']; exact dc_prodNat_cons _ _
      · rename_i hcond
        cases rest with
        | nil =>
          exfalso
          apply hcond
          refine ⟨by omega, by omega, ?_, ?_⟩
          · have : cur.m = mt * prodNat (dst'.map Prod.fst) := by
              rw [hpm]; simp [modesM, dc_prodNat_nil]
            rw [this]; exact Nat.mul_mod_right mt _
          · have : cur.n = nt * prodNat (dst'.map Prod.snd) := by
              rw [hpn]; simp [modesN, dc_prodNat_nil]
            rw [this]; exact Nat.mul_mod_right nt _
        | cons c rest' =>
          simp only
          have hcmpos : 0 < c.m := hrm c.m (by simp [modesM])
          have hcnpos : 0 < c.n := hrn c.n (by simp [modesN])
          apply ih
          · simp only [List.length_cons] at hf ⊢; omega
          · rw [(hfz _).2.1]; exact Nat.mul_pos hm hcmpos
          · rw [(hfz _).2.2.1]; exact Nat.mul_pos hn hcnpos
          · exact fun s hs => hrm s (by simp [modesM] at hs ⊢; exact Or.inr hs)
          · exact fun s hs => hrn s (by simp [modesN] at hs ⊢; exact Or.inr hs)
          · exact hdpos
          · rw [(hfz _).2.1]
            simp only [List.map_cons, dc_prodNat_cons]
            rw [hpm]
            show cur.m * prodNat (c.m :: modesM rest') = cur.m * c.m * prodNat (modesM rest')
            rw [dc_prodNat_cons, Nat.mul_assoc]
          · rw [(hfz _).2.2.1]
            simp only [List.map_cons, dc_prodNat_cons]
            rw [hpn]
            show cur.n * prodNat (c.n :: modesN rest') = cur.n * c.n * prodNat (modesN rest')
            rw [dc_prodNat_cons, Nat.mul_assoc]

/-- **totality of the model**: for a non-empty train with positive mode sizes the guards `prod(rows) == prod(M)`,
`prod(cols) == prod(N)` exclude every `none` branch and the fuel of the model suffices (any oracles, `dst = []` allowed) -/
theorem reshapeTTM_total (fz : Core α → Core α) (hfz : FzOk fz) (qr svd : Oracle α) (dst : List (Nat × Nat))
    (cs : List (Core α)) (hcs : cs ≠ []) (hmpos : ∀ s ∈ modesM cs, 0 < s) (hnpos : ∀ s ∈ modesN cs, 0 < s)
    (hdpos : ∀ t ∈ dst, 0 < t.1 ∧ 0 < t.2)
    (hpm : prodNat (dst.map Prod.fst) = prodNat (modesM cs)) (hpn : prodNat (dst.map Prod.snd) = prodNat (modesN cs)) :
    ∃ out, reshapeTTMWith fz qr svd dst cs = some out := by
  have hL3 : modesMN' ((rlOrthM qr cs).map fz) = modesMN' cs := by rw [pmm_map_fz_modes fz hfz, rlOrthM_modes]
  have hlen : ((rlOrthM qr cs).map fz).length = cs.length := by
    rw [← dm_modesMN'_length, hL3, dm_modesMN'_length]
  unfold reshapeTTMWith reshapeCoresMWith
  generalize (rlOrthM qr cs).map fz = L at hL3 hlen
  cases L with
  | nil =>
    exfalso
    exact hcs (List.length_eq_zero_iff.mp hlen.symm)
  | cons c rest =>
    have hmn : modesMN' cs = (c.m, c.n) :: modesMN' rest := hL3.symm
    have hmm : modesM cs = c.m :: modesM rest := by
      rw [← dm_modesMN'_fst, hmn, List.map_cons, dm_modesMN'_fst]
    have hnn : modesN cs = c.n :: modesN rest := by
      rw [← dm_modesMN'_snd, hmn, List.map_cons, dm_modesMN'_snd]
    rw [hmm] at hmpos hpm
    rw [hnn] at hnpos hpn
    obtain ⟨r, hr⟩ := pmm_reshapeGoM_total svd fz hfz (2 * (cs.length + dst.length) + 2) c rest dst []
      (by simp only [List.length_cons] at hlen; omega) (hmpos c.m (by simp)) (hnpos c.n (by simp))
      (fun s hs => hmpos s (by simp [hs])) (fun s hs => hnpos s (by simp [hs])) hdpos
      (by rw [hpm, dc_prodNat_cons]) (by rw [hpn, dc_prodNat_cons])
    exact ⟨roundTTM qr svd r, by simp only [hr, Option.map_some]⟩

/-- (B2) and (B3) together -/
theorem reshapeTTM_spec (fz : Core α → Core α) (hfz : FzOk fz) (qr svd : Oracle α) (hqr : Exact qr)
    (hsvd : Exact svd) (dst : List (Nat × Nat)) (cs : List (Core α)) (hcs : cs ≠ []) (hne : dst ≠ []) (hwf : WF cs 1)
    (hmpos : ∀ s ∈ modesM cs, 0 < s) (hnpos : ∀ s ∈ modesN cs, 0 < s) (hdpos : ∀ t ∈ dst, 0 < t.1 ∧ 0 < t.2)
    (hpm : prodNat (dst.map Prod.fst) = prodNat (modesM cs)) (hpn : prodNat (dst.map Prod.snd) = prodNat (modesN cs)) :
    ∃ out, reshapeTTMWith fz qr svd dst cs = some out ∧ WF out 1 ∧ modesMN' out = dst ∧
      ∀ is js is' js', List.Forall₂ (· < ·) is (modesM cs) → List.Forall₂ (· < ·) js (modesN cs) →
        List.Forall₂ (· < ·) is' (dst.map Prod.fst) → List.Forall₂ (· < ·) js' (dst.map Prod.snd) →
        flatIdx (dst.map Prod.fst) is' = flatIdx (modesM cs) is → flatIdx (dst.map Prod.snd) js' = flatIdx (modesN cs) js →
        full out (is'.zip js') = full cs (is.zip js) := by
  obtain ⟨out, ho⟩ := reshapeTTM_total fz hfz qr svd dst cs hcs hmpos hnpos hdpos hpm hpn
  obtain ⟨⟨h1, h2⟩, h3⟩ := reshapeTTM_full fz hfz qr svd hqr hsvd dst cs out hne hwf hmpos hnpos hdpos hpm hpn ho
  exact ⟨out, ho, h1, h2, h3⟩

/-! ## C. concrete instances (non-vacuity) -/

section examples
open TT.Sweep

/- the order-2 integer TT-matrix `dm_exM` of C02c: ranks `[1,2,1]`, mode pairs `[(2,3),(3,2)]`, 36 entries -/

example : permIdx' [1, 0] [(1, 2), (2, 1)] = [(2, 1), (1, 2)] := rfl
example : permIdx' [2, 0, 1] [(10, 20), (11, 21), (12, 22)] = [(12, 22), (10, 20), (11, 21)] := rfl

/-- the merge of the index pairs commutes with the permutation, instantiated -/
example : dm_mergeIdx (([1, 0].map (fun k => (modesMN' dm_exM).getD k (0, 0))).map Prod.snd) (permIdx' [1, 0] [(1, 2), (2, 1)])
    = permIdx [1, 0] (dm_mergeIdx (modesN dm_exM) [(1, 2), (2, 1)]) :=
  pmm_mergeIdx_perm [1, 0] dm_exM [(1, 2), (2, 1)] rfl

/-- A instantiated with the uncapped identity oracle and the clipping `fz` -/
example : full (permuteTTMWith pm_clip dc_idFull dc_idFull [1, 0] dm_exM) [(2, 1), (1, 2)] = full dm_exM [(1, 2), (2, 1)] :=
  permuteTTM_full pm_clip pm_clip_ok dc_idFull dc_idFull dc_idFull_exact dc_idFull_exact [1, 0] dm_exM [(1, 2), (2, 1)]
    (by decide) dm_exM_WF dm_exM_inRange

example : WF (permuteTTMWith pm_clip (idOracle 1) (idOracle 1) [1, 0] dm_exM) 1 :=
  permuteTTM_WF pm_clip pm_clip_ok _ _ [1, 0] dm_exM 1 (by decide) dm_exM_WF

example : modesMN' (permuteTTMWith pm_clip (idOracle 1) (idOracle 1) [1, 0] dm_exM) = [(3, 2), (2, 3)] := by
  rw [permuteTTM_modes pm_clip pm_clip_ok _ _ [1, 0] dm_exM (by decide)]; decide

theorem pmm_order_10 : permuteOrder [1, 0] = ([1, 0], [0]) := by
  simp [permuteOrder, bubble, bubblePass, indexOf, List.range, List.range.loop, List.findIdx?_cons]

/-- evaluated: with a large cap the concrete oracle of the correspondence run permutes all 36 entries correctly -/
example : ∀ i0 < 2, ∀ j0 < 3, ∀ i1 < 3, ∀ j1 < 2,
    full (permuteTTM (idOracle 1000) (idOracle 1000) [1, 0] dm_exM) [(i1, j1), (i0, j0)]
      = full dm_exM [(i0, j0), (i1, j1)] := by
  unfold permuteTTM permuteTTMWith permuteTTWith
  rw [pmm_order_10]
  decide

/-- the relabelling is not the identity, and a truncating SVD changes the operator (`Exact svd` is not vacuous) -/
example : full (permuteTTM (idOracle 1000) (idOracle 1000) [1, 0] dm_exM) [(1, 0), (1, 1)] ≠ full dm_exM [(1, 0), (1, 1)] := by
  unfold permuteTTM permuteTTMWith permuteTTWith
  rw [pmm_order_10]
  decide

example : full (permuteTTM (idOracle 1000) (idOracle 1) [1, 0] dm_exM) [(2, 1), (1, 2)] ≠ full dm_exM [(1, 2), (2, 1)] := by
  unfold permuteTTM permuteTTMWith permuteTTWith
  rw [pmm_order_10]
  decide

/- B1 instantiated -/

/-- the two cores of `dm_exM` -/
def pmm_exA : Core Int := { r0 := 1, m := 2, n := 3, r1 := 2, get := fun _ i j b => 2 * (i : Int) - j + 3 * b - 1 }
def pmm_exB : Core Int := { r0 := 2, m := 3, n := 2, r1 := 1, get := fun a i j _ => (a : Int) * i + 2 * j - a + 1 }

example : dm_exM = [pmm_exA, pmm_exB] := rfl

example : full [mergeCM pmm_exA pmm_exB] [(1 * pmm_exB.m + 2, 2 * pmm_exB.n + 1)] = full [pmm_exA, pmm_exB] [(1, 2), (2, 1)] :=
  mergeCM_full pmm_exA pmm_exB [] [] 1 2 2 1 (by decide) (by decide)

/-- the merge is NOT the interleaved one of the tensor branch: entry `(i₀,j₀),(i₁,j₁)` sits at `(i₀·3+i₁, j₀·2+j₁)` -/
example : ∀ i0 < 2, ∀ j0 < 3, ∀ i1 < 3, ∀ j1 < 2,
    full [mergeCM pmm_exA pmm_exB] [(i0 * 3 + i1, j0 * 2 + j1)] = full dm_exM [(i0, j0), (i1, j1)] := by decide

/-- the split step instantiated: the merged core (mode pair `(6,6)`) split into `(3,2)` and `(2,3)` -/
example :
    sumTo (splitStepM dc_idFull (mergeCM pmm_exA pmm_exB) 3 2).1.r1
        (fun k => (splitStepM dc_idFull (mergeCM pmm_exA pmm_exB) 3 2).1.get 0 2 1 k *
                  (splitStepM dc_idFull (mergeCM pmm_exA pmm_exB) 3 2).2.get k 1 2 0)
      = (mergeCM pmm_exA pmm_exB).get 0 (2 * ((mergeCM pmm_exA pmm_exB).m / 3) + 1)
          (1 * ((mergeCM pmm_exA pmm_exB).n / 2) + 2) 0 :=
  splitStepM_chain dc_idFull dc_idFull_exact (mergeCM pmm_exA pmm_exB) 3 2 2 1 1 2 0 0 (by decide) (by decide) (by decide)
    (by decide) (by decide) (by decide)

example : ∀ i1 < 3, ∀ j1 < 2, ∀ i2 < 2, ∀ j2 < 3,
    sumTo (splitStepM (idOracle 1000) (mergeCM pmm_exA pmm_exB) 3 2).1.r1
        (fun k => (splitStepM (idOracle 1000) (mergeCM pmm_exA pmm_exB) 3 2).1.get 0 i1 j1 k *
                  (splitStepM (idOracle 1000) (mergeCM pmm_exA pmm_exB) 3 2).2.get k i2 j2 0)
      = (mergeCM pmm_exA pmm_exB).get 0 (i1 * 2 + i2) (j1 * 3 + j2) 0 := by decide

/-- an order-4 integer TT-matrix with two mode pairs `(1,1)`: ranks `[1,2,2,2,1]`, mode pairs `[(2,3),(1,1),(3,2),(1,1)]` -/
def pmm_exU : List (Core Int) :=
  [ pmm_exA,
    { r0 := 2, m := 1, n := 1, r1 := 2, get := fun a _ _ b => 2 * (a : Int) + b - 1 },
    { r0 := 2, m := 3, n := 2, r1 := 2, get := fun a i j b => (a : Int) * i + 2 * j - b + 1 },
    { r0 := 2, m := 1, n := 1, r1 := 1, get := fun a _ _ _ => 3 * (a : Int) - 2 } ]

theorem pmm_exU_WF : WF pmm_exU 1 := ⟨rfl, rfl, rfl, rfl, rfl⟩
example : modesMN' pmm_exU = [(2, 3), (1, 1), (3, 2), (1, 1)] := by decide

/-- the absorb steps instantiated on the tail of `pmm_exU` -/
example : full [absorbAllM pmm_exA [{ r0 := 2, m := 1, n := 1, r1 := 1, get := fun a _ _ _ => 3 * (a : Int) - 2 }]] [(1, 2)] =
    full [pmm_exA, { r0 := 2, m := 1, n := 1, r1 := 1, get := fun a _ _ _ => 3 * (a : Int) - 2 }] [(1, 2), (0, 0)] :=
  absorbAllM_full _ pmm_exA [(0, 0)] 1 2 (by simp) (dm_inRange_of_get _ _ rfl (by decide))

example : full (rlOrthM dc_idFull dm_exM) [(1, 2), (2, 1)] = full dm_exM [(1, 2), (2, 1)] :=
  rlOrthM_full dc_idFull dc_idFull_exact dm_exM _ dm_exM_WF dm_exM_inRange

example : ∀ i0 < 2, ∀ j0 < 3, ∀ i1 < 3, ∀ j1 < 2,
    full (rlOrthM (idOracle 100) dm_exM) [(i0, j0), (i1, j1)] = full dm_exM [(i0, j0), (i1, j1)] := by decide

/-- a truncating QR changes the operator: `Exact qr` is not vacuous -/
example : full (rlOrthM (idOracle 1) dm_exM) [(1, 2), (2, 1)] ≠ full dm_exM [(1, 2), (2, 1)] := by decide

/- B2 / B3 instantiated -/

theorem pmm_exM_mpos : ∀ s ∈ modesM dm_exM, 0 < s := by decide
theorem pmm_exM_npos : ∀ s ∈ modesN dm_exM, 0 < s := by decide

/-- **the main theorem instantiated** (uncapped identity oracles, clipping `fz`): all hypotheses are satisfiable, the result
exists, and entry (rows `[5]`, columns `[5]`) of the `[(6,6)]` view is entry (rows `[1,2]`, columns `[2,1]`) of `dm_exM` -/
example : ∃ out, reshapeTTMWith pm_clip dc_idFull dc_idFull [(6, 6)] dm_exM = some out ∧ WF out 1 ∧
    modesMN' out = [(6, 6)] ∧ full out ([5].zip [5]) = full dm_exM ([1, 2].zip [2, 1]) := by
  obtain ⟨out, h0, h1, h2, h3⟩ := reshapeTTM_spec pm_clip pm_clip_ok dc_idFull dc_idFull dc_idFull_exact
    dc_idFull_exact [(6, 6)] dm_exM (by decide) (List.cons_ne_nil _ _) dm_exM_WF pmm_exM_mpos pmm_exM_npos (by decide)
    (by decide) (by decide)
  exact ⟨out, h0, h1, h2, h3 [1, 2] [2, 1] [5] [5] (dc_inRange_of_get _ _ rfl (by decide))
    (dc_inRange_of_get _ _ rfl (by decide)) (dc_inRange_of_get _ _ rfl (by decide))
    (dc_inRange_of_get _ _ rfl (by decide)) (by decide) (by decide)⟩

/-- rows regrouped `[2,3] → [3,2]`, columns regrouped `[3,2] → [2,3]` -/
example : ∃ out, reshapeTTMWith id dc_idFull dc_idFull [(3, 2), (2, 3)] dm_exM = some out ∧ WF out 1 ∧
    modesMN' out = [(3, 2), (2, 3)] ∧ full out ([2, 1].zip [1, 2]) = full dm_exM ([1, 2].zip [2, 1]) := by
  obtain ⟨out, h0, h1, h2, h3⟩ := reshapeTTM_spec id FzOk_id dc_idFull dc_idFull dc_idFull_exact
    dc_idFull_exact [(3, 2), (2, 3)] dm_exM (by decide) (List.cons_ne_nil _ _) dm_exM_WF pmm_exM_mpos pmm_exM_npos
    (by decide) (by decide) (by decide)
  exact ⟨out, h0, h1, h2, h3 [1, 2] [2, 1] [2, 1] [1, 2] (dc_inRange_of_get _ _ rfl (by decide))
    (dc_inRange_of_get _ _ rfl (by decide)) (dc_inRange_of_get _ _ rfl (by decide))
    (dc_inRange_of_get _ _ rfl (by decide)) (by decide) (by decide)⟩

/- evaluated (all 36 entries, the capped oracle of the correspondence run with a large cap): every branch of the loop is
exercised — full merge `[(6,6)]`, emit + emit `[(2,3),(3,2)]`, merge + split `[(3,2),(2,3)]`, `[(6,1),(1,6)]`, split in one
mode only `[(2,1),(3,6)]`, split off a singleton `[(1,1),(6,6)]`, trailing `ones` `[(6,6),(1,1)]` -/
example : (reshapeTTMWith id (idOracle 1000) (idOracle 1000) [(6, 6)] dm_exM).isSome = true := by decide
example : modesMN' ((reshapeTTMWith id (idOracle 1000) (idOracle 1000) [(6, 6)] dm_exM).getD []) = [(6, 6)] := by decide
example : ∀ i0 < 2, ∀ j0 < 3, ∀ i1 < 3, ∀ j1 < 2,
    full ((reshapeTTMWith id (idOracle 1000) (idOracle 1000) [(6, 6)] dm_exM).getD []) [(i0 * 3 + i1, j0 * 2 + j1)]
      = full dm_exM [(i0, j0), (i1, j1)] := by decide
example : ∀ i0 < 2, ∀ j0 < 3, ∀ i1 < 3, ∀ j1 < 2,
    full ((reshapeTTMWith id (idOracle 1000) (idOracle 1000) [(2, 3), (3, 2)] dm_exM).getD []) [(i0, j0), (i1, j1)]
      = full dm_exM [(i0, j0), (i1, j1)] := by decide
example : ∀ i0 < 2, ∀ j0 < 3, ∀ i1 < 3, ∀ j1 < 2,
    full ((reshapeTTMWith id (idOracle 1000) (idOracle 1000) [(2, 1), (3, 6)] dm_exM).getD []) [(i0, 0), (i1, j0 * 2 + j1)]
      = full dm_exM [(i0, j0), (i1, j1)] := by decide
example : ∀ i0 < 2, ∀ j0 < 3, ∀ i1 < 3, ∀ j1 < 2,
    full ((reshapeTTMWith id (idOracle 1000) (idOracle 1000) [(3, 2), (2, 3)] dm_exM).getD [])
        [((i0 * 3 + i1) / 2, (j0 * 2 + j1) / 3), ((i0 * 3 + i1) % 2, (j0 * 2 + j1) % 3)]
      = full dm_exM [(i0, j0), (i1, j1)] := by decide
example : ∀ i0 < 2, ∀ j0 < 3, ∀ i1 < 3, ∀ j1 < 2,
    full ((reshapeTTMWith id (idOracle 1000) (idOracle 1000) [(6, 1), (1, 6)] dm_exM).getD [])
        [(i0 * 3 + i1, 0), (0, j0 * 2 + j1)]
      = full dm_exM [(i0, j0), (i1, j1)] := by decide
example : ∀ i0 < 2, ∀ j0 < 3, ∀ i1 < 3, ∀ j1 < 2,
    full ((reshapeTTMWith id (idOracle 1000) (idOracle 1000) [(1, 1), (6, 6)] dm_exM).getD [])
        [(0, 0), (i0 * 3 + i1, j0 * 2 + j1)]
      = full dm_exM [(i0, j0), (i1, j1)] := by decide
example : modesMN' ((reshapeTTMWith id (idOracle 1000) (idOracle 1000) [(6, 6), (1, 1)] dm_exM).getD [])
    = [(6, 6), (1, 1)] := by decide
example : ∀ i0 < 2, ∀ j0 < 3, ∀ i1 < 3, ∀ j1 < 2,
    full ((reshapeTTMWith id (idOracle 1000) (idOracle 1000) [(6, 6), (1, 1)] dm_exM).getD [])
        [(i0 * 3 + i1, j0 * 2 + j1), (0, 0)]
      = full dm_exM [(i0, j0), (i1, j1)] := by decide
/-- the concrete value -/
example : full ((reshapeTTMWith id (idOracle 1000) (idOracle 1000) [(3, 2), (2, 3)] dm_exM).getD []) [(2, 1), (1, 2)]
      = full dm_exM [(1, 2), (2, 1)] ∧ full dm_exM [(1, 2), (2, 1)] = 5 := by decide

/- mode pairs `(1,1)` in the source: absorbed at the end (`[(6,6)]`, `[(3,2),(2,3)]`), or regrouped -/
example : (reshapeTTMWith id (idOracle 1000) (idOracle 1000) [(6, 6)] pmm_exU).map List.length = some 1 := by decide
example : ∀ i0 < 2, ∀ j0 < 3, ∀ i1 < 3, ∀ j1 < 2,
    full ((reshapeTTMWith id (idOracle 1000) (idOracle 1000) [(6, 6)] pmm_exU).getD []) [(i0 * 3 + i1, j0 * 2 + j1)]
      = full pmm_exU [(i0, j0), (0, 0), (i1, j1), (0, 0)] := by decide
example : ∀ i0 < 2, ∀ j0 < 3, ∀ i1 < 3, ∀ j1 < 2,
    full ((reshapeTTMWith id (idOracle 1000) (idOracle 1000) [(3, 2), (2, 3)] pmm_exU).getD [])
        [((i0 * 3 + i1) / 2, (j0 * 2 + j1) / 3), ((i0 * 3 + i1) % 2, (j0 * 2 + j1) % 3)]
      = full pmm_exU [(i0, j0), (0, 0), (i1, j1), (0, 0)] := by decide

/-- the regrouping is not the identity on positions: `[(3,2),(2,3)]` and `[(2,3),(3,2)]` differ at the same index pairs
(position `(1,1),(1,1)` of the view is rows `(1,0)`, columns `(2,0)` of `dm_exM`) -/
example : full ((reshapeTTMWith id dc_idFull dc_idFull [(3, 2), (2, 3)] dm_exM).getD []) [(1, 1), (1, 1)]
      ≠ full dm_exM [(1, 1), (1, 1)] ∧
    full ((reshapeTTMWith id dc_idFull dc_idFull [(3, 2), (2, 3)] dm_exM).getD []) [(1, 1), (1, 1)]
      = full dm_exM [(1, 2), (0, 0)] := by decide

/-- rows and columns are regrouped separately, NOT through the interleaved (merged-mode) order of the tensor branch: the
tensor reshape of the merged train `[6,6] → [36]` puts entry `(1,2),(0,1)` at `(1·3+2)·6 + (0·2+1) = 31`, the TT-matrix
reshape to `[(6,6)]` puts it at row `1·3+0 = 3`, column `2·2+1 = 5`, i.e. at merged position `3·6+5 = 23` -/
example : full ((reshapeTT (idOracle 1000) (idOracle 1000) [36] (dm_exM.map mergeModes)).getD []) (tIdx [31])
      = full dm_exM [(1, 2), (0, 1)] ∧
    full ((reshapeTTMWith id (idOracle 1000) (idOracle 1000) [(6, 6)] dm_exM).getD []) [(3, 5)] = full dm_exM [(1, 2), (0, 1)] ∧
    dm_mergeIdx [6] [(3, 5)] = [23] ∧
    full ((reshapeTT (idOracle 1000) (idOracle 1000) [36] (dm_exM.map mergeModes)).getD []) (tIdx [23])
      ≠ full dm_exM [(1, 2), (0, 1)] := by decide

/-- element counts differ (rows, or columns only): `none` — both product hypotheses of (B3) are needed -/
example : (reshapeTTMWith id (idOracle 1000) (idOracle 1000) [(5, 6)] dm_exM).isSome = false := by decide
example : (reshapeTTMWith id (idOracle 1000) (idOracle 1000) [(6, 3), (1, 3)] dm_exM).isSome = false := by decide
/-- rows and columns exchanged between the pairs (total element count `36` kept, row count `6 ≠ 4`): `none` -/
example : (reshapeTTMWith id (idOracle 1000) (idOracle 1000) [(2, 3), (2, 3)] dm_exM).isSome = false := by decide

/-- a target pair that divides the row mode but not the column mode of the working core (`(2,3)` against `(2,2)`): the
model merges the next core and then splits; the result is correct -/
example : ∀ i0 < 2, ∀ j0 < 3, ∀ i1 < 3, ∀ j1 < 2,
    full ((reshapeTTMWith id (idOracle 1000) (idOracle 1000) [(2, 2), (3, 3)] dm_exM).getD [])
        [(i0, (j0 * 2 + j1) / 3), (i1, (j0 * 2 + j1) % 3)]
      = full dm_exM [(i0, j0), (i1, j1)] := by decide

/-- a truncating SVD (`idOracle 1`) changes the operator: `Exact svd` is not vacuous -/
example : full ((reshapeTTMWith id (idOracle 1000) (idOracle 1) [(3, 2), (2, 3)] dm_exM).getD []) [(2, 1), (1, 2)]
    ≠ full dm_exM [(1, 2), (2, 1)] := by decide

/-- (B3) needs `cs ≠ []`: the empty train is rejected -/
example : (reshapeTTMWith id dc_idFull dc_idFull [(1, 1)] ([] : List (Core Int))).isSome = false := by decide

end examples

end TT.C10

#print axioms TT.C10.pmm_mergeIdx_perm
#print axioms TT.C10.permuteTTM_full
#print axioms TT.C10.permuteTTM_WF
#print axioms TT.C10.permuteTTM_modes
#print axioms TT.C10.mergeCM_chain
#print axioms TT.C10.splitStepM_chain
#print axioms TT.C10.absorb1M_chain
#print axioms TT.C10.absorbAllM_chain
#print axioms TT.C10.oneCoreM_chain
#print axioms TT.C10.rlOrthM_full
#print axioms TT.C10.rlOrthM_WF
#print axioms TT.C10.rlOrthM_modes
#print axioms TT.C10.pmm_reshapeGoM_spec
#print axioms TT.C10.pmm_reshapeGoM_total
#print axioms TT.C10.reshapeCoresM_full
#print axioms TT.C10.reshapeTTM_full_pairs
#print axioms TT.C10.reshapeTTM_full
#print axioms TT.C10.reshapeTTM_total
#print axioms TT.C10.reshapeTTM_spec
#print axioms TT.C10.reshapeTTM_full_id
