import TTProps.C12

/-!
# C12c — the local residual of AMEn is the Galerkin projection of the global residual;
#        an exact solution is a fixed point of every local solve

`_amen_solve_python` solves, at core `k`, the local system `B u = rhs` with
`B = _local_product(Phis[k], Phis[k+1], A_k, ·)` and `rhs = einsum('br,bmB,BR->rmR', Phis_b[k], b_k, Phis_b[k+1])`,
where the `Phi`s are the folds of the CURRENT iterate `x` (tied to the running loop by observation, see DESIGN §8.1).
`TT.C12.local_galerkin_dense` and `TT.C12.rhs_galerkin` identify both sides with dense sums.  Here they are
combined:

* `local_residual_galerkin` — for every test core `v` the local residual `B u − rhs` tested against `v` equals the
  global residual `A y − b` (dense) tested against the train `xl ++ [v] ++ xr`;
* `exact_solution_local_fixed_point` — if the train `yl ++ [u] ++ yr` solves `A y = b` entry for entry, then its
  `k`-th core `u` satisfies the local system exactly, at every position `(l, m, L)` of the local unknown: the local
  residual `res_old` of the code is `0`, the local solve has nothing to change and the sweep leaves an exact solution
  where it is (this is the consistency half of the K-kind clause of C12: the stopping rule `max_res < eps` fires
  at an exact solution).  No orthogonality of the frames is needed.

Everything holds for every order, every mode-size pattern, every rank profile and all core values over a
commutative ring.
-/
namespace TT.C12c
open TT TT.Kern
variable {α : Type} [CommRing α]

/-! ### local helpers -/

private theorem sumTo_sub_fn (n : Nat) (f g : Nat → α) :
    sumTo n (fun k => f k - g k) = sumTo n f - sumTo n g := by
  simp only [sub_eq_add_neg]
  rw [sumTo_add_fn, sumTo_neg]

private theorem sumIdx_sub_fn (ns : List Nat) (f g : List Nat → α) :
    sumIdx ns (fun ks => f ks - g ks) = sumIdx ns f - sumIdx ns g := by
  induction ns generalizing f g with
  | nil => rfl
  | cons n ns ih =>
    simp only [sumIdx_cons]
    rw [← sumTo_sub_fn]
    apply sumTo_congr; intro k _
    rw [ih]

omit [CommRing α] in
/-- the mode of the `k`-th core is determined by the mode list (`k = bl.length = Al.length`) -/
private theorem mode_at (bl br Al Ar : List (Core α)) (b A : Core α) (hl : bl.length = Al.length)
    (h : modesM (bl ++ [b] ++ br) = modesM (Al ++ [A] ++ Ar)) : b.m = A.m := by
  simp only [modesM, List.map_append, List.append_assoc, List.map_cons, List.singleton_append] at h
  have h' := (List.append_inj h (by simp [hl])).2
  simpa using (List.cons.inj h').1

omit [CommRing α] in
/-- joining a left chain, a core and a well-formed right part -/
private theorem WF_join (xl : List (Core α)) (v : Core α) (xr : List (Core α)) (r : Nat)
    (hl : sw_Chained xl r v.r0) (hr : WF xr v.r1) : WF (xl ++ [v] ++ xr) r := by
  induction xl generalizing r with
  | nil => exact ⟨hl.symm, hr⟩
  | cons x xl ih => exact ⟨hl.1, ih x.r1 hl.2⟩

/-- the unit test core `e_(l0,m0,L0)` with dimensions `r0 × m × 1 × r1` -/
def unitCore (r0 m r1 l0 m0 L0 : Nat) : Core α :=
  { r0 := r0, m := m, n := 1, r1 := r1,
    get := fun l i _ L => if l = l0 ∧ i = m0 ∧ L = L0 then 1 else 0 }

/-- **the local residual is the Galerkin projection of the global residual.**
    `b.m = A.m` is the (code-enforced) agreement of the right-hand side's mode with the operator's row mode at
    position `k`; `modesM (bl ++ [b] ++ br) = modesM (Al ++ [A] ++ Ar)` is the same for all positions. -/
theorem local_residual_galerkin (xl xr Al Ar yl yr bl br : List (Core α)) (v A u b : Core α)
    (hwx : WF (xl ++ [v] ++ xr) 1) (hwA : WF (Al ++ [A] ++ Ar) 1) (hwy : WF (yl ++ [u] ++ yr) 1)
    (hwb : WF (bl ++ [b] ++ br) 1)
    (hlx : xl.length = Al.length) (hly : yl.length = Al.length) (hlb : bl.length = Al.length)
    (hrx : xr.length = Ar.length) (hry : yr.length = Ar.length) (hrb : br.length = Ar.length)
    (hmb : modesM (bl ++ [b] ++ br) = modesM (Al ++ [A] ++ Ar)) :
    sumTo v.r0 (fun l => sumTo A.m (fun m => sumTo v.r1 (fun L =>
      v.get l m 0 L *
        (localProduct (foldFwdA xl Al yl ones3) (foldBckA xr Ar yr ones3) A u l m L
          - localRhs (foldFwdRhs bl xl ones2) (foldBckRhs br xr ones2) b l m L)))) =
    sumIdx (modesM (Al ++ [A] ++ Ar)) (fun is =>
      full (xl ++ [v] ++ xr) (tIdx is) *
        (sumIdx (modesN (Al ++ [A] ++ Ar)) (fun js =>
            full (Al ++ [A] ++ Ar) (is.zip js) * full (yl ++ [u] ++ yr) (tIdx js))
          - full (bl ++ [b] ++ br) (tIdx is))) := by
  have hbm : b.m = A.m := mode_at bl br Al Ar b A hlb hmb
  have h1 := TT.C12.local_galerkin_dense xl xr Al Ar yl yr v A u hwx hwA hwy hlx hly hrx hry
  have h2 := TT.C12.rhs_galerkin bl br xl xr b v hwb hwx (hlx.trans hlb.symm) (hrx.trans hrb.symm)
  rw [hmb, hbm] at h2
  have hL : sumTo v.r0 (fun l => sumTo A.m (fun m => sumTo v.r1 (fun L =>
      v.get l m 0 L *
        (localProduct (foldFwdA xl Al yl ones3) (foldBckA xr Ar yr ones3) A u l m L
          - localRhs (foldFwdRhs bl xl ones2) (foldBckRhs br xr ones2) b l m L)))) =
      sumTo v.r0 (fun l => sumTo A.m (fun m => sumTo v.r1 (fun L =>
        v.get l m 0 L *
          localProduct (foldFwdA xl Al yl ones3) (foldBckA xr Ar yr ones3) A u l m L))) -
      sumTo v.r0 (fun r => sumTo A.m (fun m => sumTo v.r1 (fun R =>
        v.get r m 0 R * localRhs (foldFwdRhs bl xl ones2) (foldBckRhs br xr ones2) b r m R))) := by
    simp only [mul_sub, sumTo_sub_fn]
  rw [hL, ← h1, ← h2, ← sumIdx_sub_fn]
  apply sumIdx_congr; intro is _
  rw [mul_sub, ← sumIdx_mul_left]
  congr 1
  · apply sumIdx_congr; intro js _; ring
  · ring

/-- order-3 instance, split at the middle core (the modes of `kl_b*` and `kl_A*` agree: `[2, 3, 2]`) -/
example :
    sumTo kl_x1.r0 (fun l => sumTo kl_A1.m (fun m => sumTo kl_x1.r1 (fun L =>
      kl_x1.get l m 0 L *
        (localProduct (foldFwdA [kl_x0] [kl_A0] [kl_y0] ones3) (foldBckA [kl_x2] [kl_A2] [kl_y2] ones3)
            kl_A1 kl_y1 l m L
          - localRhs (foldFwdRhs [kl_b0] [kl_x0] ones2) (foldBckRhs [kl_b2] [kl_x2] ones2) kl_b1 l m L)))) =
    sumIdx (modesM ([kl_A0] ++ [kl_A1] ++ [kl_A2])) (fun is =>
      full ([kl_x0] ++ [kl_x1] ++ [kl_x2]) (tIdx is) *
        (sumIdx (modesN ([kl_A0] ++ [kl_A1] ++ [kl_A2])) (fun js =>
            full ([kl_A0] ++ [kl_A1] ++ [kl_A2]) (is.zip js) * full ([kl_y0] ++ [kl_y1] ++ [kl_y2]) (tIdx js))
          - full ([kl_b0] ++ [kl_b1] ++ [kl_b2]) (tIdx is))) :=
  local_residual_galerkin _ _ _ _ _ _ _ _ _ _ _ _ (by simp [WF, kl_x0, kl_x1, kl_x2])
    (by simp [WF, kl_A0, kl_A1, kl_A2]) (by simp [WF, kl_y0, kl_y1, kl_y2])
    (by simp [WF, kl_b0, kl_b1, kl_b2]) rfl rfl rfl rfl rfl rfl
    (by simp [modesM, kl_b0, kl_b1, kl_b2, kl_A0, kl_A1, kl_A2])

/-- both sides are the same non-zero number on the example (`kl_y*` does not solve the system) -/
example :
    sumIdx (modesM [kl_A0, kl_A1, kl_A2]) (fun is =>
      full [kl_x0, kl_x1, kl_x2] (tIdx is) *
        (sumIdx (modesN [kl_A0, kl_A1, kl_A2]) (fun js =>
            full [kl_A0, kl_A1, kl_A2] (is.zip js) * full [kl_y0, kl_y1, kl_y2] (tIdx js))
          - full [kl_b0, kl_b1, kl_b2] (tIdx is))) ≠ 0 := by
  decide +kernel

/-- **an exact solution is a fixed point of every local solve.**  `r0`, `r1` are the ranks of the test frame
    on both sides of position `k` (`xl` chains from 1 to `r0`, `xr` is well formed from `r1`). -/
theorem exact_solution_local_fixed_point (xl xr Al Ar yl yr bl br : List (Core α)) (A u b : Core α)
    (r0 r1 : Nat)
    (hxl : sw_Chained xl 1 r0) (hxr : WF xr r1)
    (hwA : WF (Al ++ [A] ++ Ar) 1) (hwy : WF (yl ++ [u] ++ yr) 1) (hwb : WF (bl ++ [b] ++ br) 1)
    (hlx : xl.length = Al.length) (hly : yl.length = Al.length) (hlb : bl.length = Al.length)
    (hrx : xr.length = Ar.length) (hry : yr.length = Ar.length) (hrb : br.length = Ar.length)
    (hmb : modesM (bl ++ [b] ++ br) = modesM (Al ++ [A] ++ Ar))
    (hsol : ∀ is, List.Forall₂ (· < ·) is (modesM (Al ++ [A] ++ Ar)) →
      sumIdx (modesN (Al ++ [A] ++ Ar)) (fun js =>
        full (Al ++ [A] ++ Ar) (is.zip js) * full (yl ++ [u] ++ yr) (tIdx js)) =
      full (bl ++ [b] ++ br) (tIdx is))
    (l m L : Nat) (hl : l < r0) (hm : m < A.m) (hL : L < r1) :
    localProduct (foldFwdA xl Al yl ones3) (foldBckA xr Ar yr ones3) A u l m L =
      localRhs (foldFwdRhs bl xl ones2) (foldBckRhs br xr ones2) b l m L := by
  have hwx : WF (xl ++ [(unitCore r0 A.m r1 l m L : Core α)] ++ xr) 1 :=
    WF_join xl _ xr 1 hxl hxr
  have h := local_residual_galerkin xl xr Al Ar yl yr bl br (unitCore r0 A.m r1 l m L) A u b
    hwx hwA hwy hwb hlx hly hlb hrx hry hrb hmb
  have hR : sumIdx (modesM (Al ++ [A] ++ Ar)) (fun is =>
      full (xl ++ [(unitCore r0 A.m r1 l m L : Core α)] ++ xr) (tIdx is) *
        (sumIdx (modesN (Al ++ [A] ++ Ar)) (fun js =>
            full (Al ++ [A] ++ Ar) (is.zip js) * full (yl ++ [u] ++ yr) (tIdx js))
          - full (bl ++ [b] ++ br) (tIdx is))) = 0 := by
    rw [← sumIdx_zero (α := α) (modesM (Al ++ [A] ++ Ar))]
    apply sumIdx_congr; intro is his
    rw [hsol is his, sub_self, mul_zero]
  rw [hR] at h
  simp only [unitCore] at h
  rw [sumTo_single l hl, sumTo_single m hm, sumTo_single L hL] at h
  · simpa [sub_eq_zero] using h
  · intro k _ hne; simp [hne]
  · intro k _ hne
    apply sumTo_eq_zero; intro k' _; simp [hne]
  · intro k _ hne
    apply sumTo_eq_zero; intro k' _
    apply sumTo_eq_zero; intro k'' _; simp [hne]

/-! A concrete exact solution: the operator is the rank-`(1,2,3,1)` train `kl_A0, kl_A1, kl_A2`, the solution `y`
    has ranks 1, and the right-hand side is `A y` as a train with the ranks of `A`
    (core `k`: `b_k[s, i, S] = Σ_j A_k[s, i, j, S] · y_k[j]`).  The test frames `kl_x0`, `kl_x2` have rank 2. -/

/-- `A_k y_k` for a rank-1 core `y_k` -/
def exApply (A y : Core Int) : Core Int :=
  { r0 := A.r0, m := A.m, n := 1, r1 := A.r1,
    get := fun s i _ S => sumTo A.n (fun j => A.get s i j S * y.get 0 j 0 0) }
def ex_y0 : Core Int := ⟨1, 3, 1, 1, fun _ j _ _ => (j + 1 : Int)⟩
def ex_y1 : Core Int := ⟨1, 2, 1, 1, fun _ j _ _ => (2 - 3 * j : Int)⟩
def ex_y2 : Core Int := ⟨1, 2, 1, 1, fun _ j _ _ => (j + 2 : Int)⟩
def ex_b0 : Core Int := exApply kl_A0 ex_y0
def ex_b1 : Core Int := exApply kl_A1 ex_y1
def ex_b2 : Core Int := exApply kl_A2 ex_y2

/-- `A y = b` entry for entry on the example (12 entries, each a sum over 12 column indices) -/
theorem ex_sol : ∀ is, List.Forall₂ (· < ·) is (modesM ([kl_A0] ++ [kl_A1] ++ [kl_A2])) →
    sumIdx (modesN ([kl_A0] ++ [kl_A1] ++ [kl_A2])) (fun js =>
      full ([kl_A0] ++ [kl_A1] ++ [kl_A2]) (is.zip js) * full ([ex_y0] ++ [ex_y1] ++ [ex_y2]) (tIdx js)) =
    full ([ex_b0] ++ [ex_b1] ++ [ex_b2]) (tIdx is) := by
  have key : ∀ i0, i0 < 2 → ∀ i1, i1 < 3 → ∀ i2, i2 < 2 →
      sumIdx (modesN ([kl_A0] ++ [kl_A1] ++ [kl_A2])) (fun js =>
        full ([kl_A0] ++ [kl_A1] ++ [kl_A2]) ([i0, i1, i2].zip js) *
          full ([ex_y0] ++ [ex_y1] ++ [ex_y2]) (tIdx js)) =
      full ([ex_b0] ++ [ex_b1] ++ [ex_b2]) (tIdx [i0, i1, i2]) := by
    decide +kernel
  intro is his
  have hm : modesM ([kl_A0] ++ [kl_A1] ++ [kl_A2]) = [2, 3, 2] := rfl
  rw [hm] at his
  cases his with
  | cons h0 his =>
    cases his with
    | cons h1 his =>
      cases his with
      | cons h2 his =>
        cases his
        exact key _ h0 _ h1 _ h2

/-- the right-hand side and the solution are not trivial -/
example : full [ex_b0, ex_b1, ex_b2] (tIdx [1, 2, 1]) ≠ 0 ∧ full [ex_y0, ex_y1, ex_y2] (tIdx [2, 1, 1]) ≠ 0 := by
  decide +kernel

/-- all hypotheses of `exact_solution_local_fixed_point` hold on the example (middle core, frame ranks 2) -/
example (l m L : Nat) (hl : l < 2) (hm : m < kl_A1.m) (hL : L < 2) :
    localProduct (foldFwdA [kl_x0] [kl_A0] [ex_y0] ones3) (foldBckA [kl_x2] [kl_A2] [ex_y2] ones3)
      kl_A1 ex_y1 l m L =
    localRhs (foldFwdRhs [ex_b0] [kl_x0] ones2) (foldBckRhs [ex_b2] [kl_x2] ones2) ex_b1 l m L :=
  exact_solution_local_fixed_point [kl_x0] [kl_x2] [kl_A0] [kl_A2] [ex_y0] [ex_y2] [ex_b0] [ex_b2]
    kl_A1 ex_y1 ex_b1 2 2 (by simp [sw_Chained, kl_x0]) (by simp [WF, kl_x2])
    (by simp [WF, kl_A0, kl_A1, kl_A2]) (by simp [WF, ex_y0, ex_y1, ex_y2])
    (by simp [WF, ex_b0, ex_b1, ex_b2, exApply, kl_A0, kl_A1, kl_A2]) rfl rfl rfl rfl rfl rfl
    (by simp [modesM, ex_b0, ex_b1, ex_b2, exApply]) ex_sol l m L hl hm hL

/-- converse direction at the level of one test core: if the local system holds at every position, the global
    residual is orthogonal to every train `xl ++ [v] ++ xr` obtained by varying the `k`-th core — the Galerkin
    condition that AMEn enforces. -/
theorem local_solution_galerkin_orthogonal (xl xr Al Ar yl yr bl br : List (Core α)) (v A u b : Core α)
    (hwx : WF (xl ++ [v] ++ xr) 1) (hwA : WF (Al ++ [A] ++ Ar) 1) (hwy : WF (yl ++ [u] ++ yr) 1)
    (hwb : WF (bl ++ [b] ++ br) 1)
    (hlx : xl.length = Al.length) (hly : yl.length = Al.length) (hlb : bl.length = Al.length)
    (hrx : xr.length = Ar.length) (hry : yr.length = Ar.length) (hrb : br.length = Ar.length)
    (hmb : modesM (bl ++ [b] ++ br) = modesM (Al ++ [A] ++ Ar))
    (hloc : ∀ l m L, l < v.r0 → m < A.m → L < v.r1 →
      localProduct (foldFwdA xl Al yl ones3) (foldBckA xr Ar yr ones3) A u l m L =
        localRhs (foldFwdRhs bl xl ones2) (foldBckRhs br xr ones2) b l m L) :
    sumIdx (modesM (Al ++ [A] ++ Ar)) (fun is =>
      full (xl ++ [v] ++ xr) (tIdx is) *
        (sumIdx (modesN (Al ++ [A] ++ Ar)) (fun js =>
            full (Al ++ [A] ++ Ar) (is.zip js) * full (yl ++ [u] ++ yr) (tIdx js))
          - full (bl ++ [b] ++ br) (tIdx is))) = 0 := by
  rw [← local_residual_galerkin xl xr Al Ar yl yr bl br v A u b hwx hwA hwy hwb hlx hly hlb hrx hry hrb
    hmb]
  refine sumTo_eq_zero fun l hl => sumTo_eq_zero fun m hm => sumTo_eq_zero fun L hL => ?_
  rw [hloc l m L hl hm hL, sub_self, mul_zero]

/-- instance: at the exact solution of the example above the local system holds at every position (by
    `exact_solution_local_fixed_point`), hence the global residual is orthogonal to the train with `k`-th core
    `kl_x1` (ranks `2 × 2`, mode 3) -/
example :
    sumIdx (modesM ([kl_A0] ++ [kl_A1] ++ [kl_A2])) (fun is =>
      full ([kl_x0] ++ [kl_x1] ++ [kl_x2]) (tIdx is) *
        (sumIdx (modesN ([kl_A0] ++ [kl_A1] ++ [kl_A2])) (fun js =>
            full ([kl_A0] ++ [kl_A1] ++ [kl_A2]) (is.zip js) * full ([ex_y0] ++ [ex_y1] ++ [ex_y2]) (tIdx js))
          - full ([ex_b0] ++ [ex_b1] ++ [ex_b2]) (tIdx is))) = 0 :=
  local_solution_galerkin_orthogonal [kl_x0] [kl_x2] [kl_A0] [kl_A2] [ex_y0] [ex_y2] [ex_b0] [ex_b2]
    kl_x1 kl_A1 ex_y1 ex_b1 (by simp [WF, kl_x0, kl_x1, kl_x2])
    (by simp [WF, kl_A0, kl_A1, kl_A2]) (by simp [WF, ex_y0, ex_y1, ex_y2])
    (by simp [WF, ex_b0, ex_b1, ex_b2, exApply, kl_A0, kl_A1, kl_A2]) rfl rfl rfl rfl rfl rfl
    (by simp [modesM, ex_b0, ex_b1, ex_b2, exApply])
    (fun l m L hl hm hL =>
      exact_solution_local_fixed_point [kl_x0] [kl_x2] [kl_A0] [kl_A2] [ex_y0] [ex_y2] [ex_b0] [ex_b2]
        kl_A1 ex_y1 ex_b1 2 2 (by simp [sw_Chained, kl_x0]) (by simp [WF, kl_x2])
        (by simp [WF, kl_A0, kl_A1, kl_A2]) (by simp [WF, ex_y0, ex_y1, ex_y2])
        (by simp [WF, ex_b0, ex_b1, ex_b2, exApply, kl_A0, kl_A1, kl_A2]) rfl rfl rfl rfl rfl rfl
        (by simp [modesM, ex_b0, ex_b1, ex_b2, exApply]) ex_sol l m L hl hm hL)

/-- the hypothesis `hloc` is not vacuous either way: with the non-solution `kl_y*` / `kl_b*` the local system
    fails at position `(0, 0, 0)` -/
example :
    localProduct (foldFwdA [kl_x0] [kl_A0] [kl_y0] ones3) (foldBckA [kl_x2] [kl_A2] [kl_y2] ones3)
      kl_A1 kl_y1 0 0 0 ≠
    localRhs (foldFwdRhs [kl_b0] [kl_x0] ones2) (foldBckRhs [kl_b2] [kl_x2] ones2) kl_b1 0 0 0 := by
  decide +kernel

end TT.C12c
