import TTProps.C11c

/-!
# C07e — the three inline einsums of one step of `bilinear_form_aux` compute the one-shot step of the model sweep

`bilA`, `bilB`, `bilC` (`TTModel/Reduce.lean`) are regenerated from the subscript strings of the current source by the translator tie and checked
definitionally equal; here: the chain is the five-fold contraction that `bilSweep` (and with it `TT.C07.bilinear_eq`) is about.
-/
namespace TT.C07
open TT TT.C11
variable {α : Type} [CommRing α]

theorem bilC_eq_step (cj : α → α) (T : Nat → Nat → Nat → α) (x A y : Core α) (L S R : Nat) :
    bilC cj T x A y L S R =
    sumTo x.r0 (fun l => sumTo A.r0 (fun s => sumTo y.r0 (fun r => sumTo A.m (fun m => sumTo A.n (fun n =>
      T l s r * cj (x.get l m 0 L) * A.get s m n S * y.get r n 0 R))))) := by
  simp only [bilC, bilB, bilA, ← sumTo_mul_right]
  -- nesting (r, n, s, m, l) → (l, s, r, m, n)
  rw [kl_comm_3_2, sumTo_comm]
  refine sumTo_congr fun l _ => ?_
  rw [dg_reorder4, sumTo_comm]

/-- one step of the model sweep is the chain of the three einsums of the source -/
theorem bilSweep_cons_chain (cj : α → α) (x A y : Core α) (xs As ys : List (Core α)) (T : Nat → Nat → Nat → α) :
    bilSweep cj (x :: xs) (A :: As) (y :: ys) T = bilSweep cj xs As ys (bilC cj T x A y) := by
  show bilSweep cj xs As ys _ = _
  congr 1
  funext L S R
  exact (bilC_eq_step cj T x A y L S R).symm

end TT.C07
