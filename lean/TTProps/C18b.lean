import TTModel.Guard2
import TTLemmas.Guard2L
/-!
# C18 (second batch): guards of further public entry points versus the dense side

"Incompatible operands raise — for the documented cases the library's exception class — and never
return an object."  For every entry point: the guard accepts EXACTLY the dense-admissible argument
tuples (`guardX … = .ok ↔ CompatX … = true`), and which class is raised in the documented cases.
-/
namespace TT.C18
open TT.Guard TT.Shape

/-- "never returns an object": an outcome that is not `ok` is an exception -/
theorem g2_not_ok_raises (o : Outcome) (h : o ≠ .ok) : ∃ e, o = .err e := by
  cases o with
  | ok => exact absurd rfl h
  | err e => exact ⟨e, rfl⟩

/-! ## (1) `dot` -/

theorem dot_guard_exact (a b : Sh) : guardDot a b = .ok ↔ CompatDot a b = true := by
  obtain ⟨ta, aN, aM⟩ := a
  obtain ⟨tb, bN, bM⟩ := b
  cases ta <;> cases tb <;> simp [guardDot, CompatDot]

theorem dot_ttm_notImplemented (a b : Sh) (h : a.isTTM = true ∨ b.isTTM = true) :
    guardDot a b = .err .NotImplemented := by
  rcases h with h | h <;> simp [guardDot, h]

theorem dot_shape (a b : Sh) (ha : a.isTTM = false) (hb : b.isTTM = false) (h : a.N ≠ b.N) :
    guardDot a b = .err .ShapeMismatch := by
  simp [guardDot, ha, hb, h]

theorem dot_reject_complete (a b : Sh) (h : CompatDot a b = false) : ∃ e, guardDot a b = .err e :=
  g2_not_ok_raises _ (fun hok => by rw [(dot_guard_exact a b).mp hok] at h; exact Bool.noConfusion h)

example : guardDot ⟨false,[2,3],[]⟩ ⟨false,[2,3],[]⟩ = .ok ∧ CompatDot ⟨false,[2,3],[]⟩ ⟨false,[2,3],[]⟩ = true := by
  decide
example : guardDot ⟨false,[2,3],[]⟩ ⟨false,[2,4],[]⟩ = .err .ShapeMismatch := by decide
example : guardDot ⟨true,[2,3],[2,3]⟩ ⟨false,[2,3],[]⟩ = .err .NotImplemented := by decide
example : guardDot ⟨false,[2,3],[]⟩ ⟨true,[2,3],[2,3]⟩ = .err .NotImplemented := by decide

/-! ## (2) `bilinear_form` -/

theorem bilinear_guard_exact (x A y : Sh) : guardBilinear x A y = .ok ↔ CompatBilinear x A y = true := by
  obtain ⟨tx, xN, xM⟩ := x
  obtain ⟨tA, AN, AM⟩ := A
  obtain ⟨ty, yN, yM⟩ := y
  cases tx <;> cases tA <;> cases ty <;> simp [guardBilinear, CompatBilinear]

theorem bilinear_kinds (x A y : Sh) (h : x.isTTM = true ∨ y.isTTM = true ∨ A.isTTM = false) :
    guardBilinear x A y = .err .IncompatibleTypes := by
  rcases h with h | h | h <;> simp [guardBilinear, h]

theorem bilinear_shape (x A y : Sh) (hx : x.isTTM = false) (hy : y.isTTM = false) (hA : A.isTTM = true)
    (h : x.N ≠ A.M ∨ y.N ≠ A.N) : guardBilinear x A y = .err .ShapeMismatch := by
  unfold guardBilinear
  simp only [hx, hy, hA, Bool.or_self, Bool.not_true, Bool.false_eq_true, if_false]
  rw [if_pos h]

theorem bilinear_reject_complete (x A y : Sh) (h : CompatBilinear x A y = false) :
    ∃ e, guardBilinear x A y = .err e :=
  g2_not_ok_raises _ (fun hok => by rw [(bilinear_guard_exact x A y).mp hok] at h; exact Bool.noConfusion h)

example : guardBilinear ⟨false,[4,5],[]⟩ ⟨true,[2,3],[4,5]⟩ ⟨false,[2,3],[]⟩ = .ok := by decide
example : guardBilinear ⟨false,[2,3],[]⟩ ⟨true,[2,3],[4,5]⟩ ⟨false,[2,3],[]⟩ = .err .ShapeMismatch := by decide
example : guardBilinear ⟨false,[4,5],[]⟩ ⟨true,[2,3],[4,5]⟩ ⟨false,[2,2],[]⟩ = .err .ShapeMismatch := by decide
example : guardBilinear ⟨false,[4,5],[]⟩ ⟨false,[2,3],[]⟩ ⟨false,[2,3],[]⟩ = .err .IncompatibleTypes := by decide
example : guardBilinear ⟨true,[4,5],[4,5]⟩ ⟨true,[2,3],[4,5]⟩ ⟨false,[2,3],[]⟩ = .err .IncompatibleTypes := by decide

/-! ## (3) `kron` -/

theorem kron_guard_exact (a b : Sh) : guardKron a b = .ok ↔ a.isTTM = b.isTTM := by
  simp [guardKron]

theorem kron_kinds (a b : Sh) (h : a.isTTM ≠ b.isTTM) : guardKron a b = .err .IncompatibleTypes := by
  simp [guardKron, h]

example : guardKron ⟨false,[2,3],[]⟩ ⟨false,[7],[]⟩ = .ok := by decide
example : guardKron ⟨true,[2],[3]⟩ ⟨true,[7,8],[9,9]⟩ = .ok := by decide
example : guardKron ⟨true,[2],[3]⟩ ⟨false,[7],[]⟩ = .err .IncompatibleTypes := by decide

/-! ## (4) `/` between TT objects -/

theorem truediv_guard_exact (x y : Sh) : guardTruediv x y = .ok ↔ CompatSame x y = true := by
  obtain ⟨tx, xN, xM⟩ := x
  obtain ⟨ty, yN, yM⟩ := y
  cases tx <;> cases ty <;> simp [guardTruediv, CompatSame]

theorem truediv_kinds (x y : Sh) (h : x.isTTM ≠ y.isTTM) : guardTruediv x y = .err .IncompatibleTypes := by
  simp [guardTruediv, h]

theorem truediv_shape (x y : Sh) (hk : x.isTTM = y.isTTM)
    (h : x.N ≠ y.N ∨ (x.isTTM = true ∧ x.M ≠ y.M)) : guardTruediv x y = .err .ShapeMismatch := by
  unfold guardTruediv
  rw [if_neg (by simpa using hk), if_pos h]

theorem truediv_reject_complete (x y : Sh) (h : CompatSame x y = false) : ∃ e, guardTruediv x y = .err e :=
  g2_not_ok_raises _ (fun hok => by rw [(truediv_guard_exact x y).mp hok] at h; exact Bool.noConfusion h)

example : guardTruediv ⟨false,[2,3],[]⟩ ⟨false,[2,3],[]⟩ = .ok := by decide
example : guardTruediv ⟨true,[2,3],[4,5]⟩ ⟨true,[2,3],[4,5]⟩ = .ok := by decide
example : guardTruediv ⟨false,[2,3],[]⟩ ⟨false,[2,3],[9]⟩ = .ok := by decide
example : guardTruediv ⟨false,[2,3],[]⟩ ⟨false,[2,4],[]⟩ = .err .ShapeMismatch := by decide
example : guardTruediv ⟨true,[2,3],[4,5]⟩ ⟨true,[2,3],[4,6]⟩ = .err .ShapeMismatch := by decide
example : guardTruediv ⟨true,[2,3],[4,5]⟩ ⟨false,[2,3],[]⟩ = .err .IncompatibleTypes := by decide

/-! ## (5) `fast_matvec` -/

theorem fast_matvec_guard_exact (A x : Sh) :
    guardFastMatvec A x = .ok ↔ (A.isTTM = true ∧ x.isTTM = false) := by
  obtain ⟨tA, AN, AM⟩ := A
  obtain ⟨tx, xN, xM⟩ := x
  cases tA <;> cases tx <;> simp [guardFastMatvec]

theorem fast_matvec_kinds (A x : Sh) (h : A.isTTM = false ∨ x.isTTM = true) :
    guardFastMatvec A x = .err .IncompatibleTypes := by
  rcases h with h | h <;> simp [guardFastMatvec, h]

example : guardFastMatvec ⟨true,[2,3],[4,5]⟩ ⟨false,[2,3],[]⟩ = .ok := by decide
example : guardFastMatvec ⟨false,[2,3],[]⟩ ⟨false,[2,3],[]⟩ = .err .IncompatibleTypes := by decide
example : guardFastMatvec ⟨true,[2,3],[4,5]⟩ ⟨true,[2,3],[4,5]⟩ = .err .IncompatibleTypes := by decide

/-! ## (6) `amen_solve` -/

theorem amen_solve_guard_exact (A b : Sh) (p : Bool) :
    guardAmenSolve A b p = .ok ↔ CompatSolve A b p = true := by
  obtain ⟨tA, AN, AM⟩ := A
  obtain ⟨tb, bN, bM⟩ := b
  by_cases h1 : AM = AN <;> by_cases h2 : AN = bN <;>
    cases tA <;> cases tb <;> cases p <;> simp_all [guardAmenSolve, CompatSolve]

/-- first clause: kinds -/
theorem amen_solve_kinds (A b : Sh) (p : Bool) (h : A.isTTM = false ∨ b.isTTM = true) :
    guardAmenSolve A b p = .err .IncompatibleTypes := by
  rcases h with h | h <;> simp [guardAmenSolve, h]

/-- second clause: the operator is not square -/
theorem amen_solve_nonsquare (A b : Sh) (p : Bool) (hA : A.isTTM = true) (hb : b.isTTM = false)
    (h : A.M ≠ A.N) : guardAmenSolve A b p = .err .ShapeMismatch := by
  simp [guardAmenSolve, hA, hb, h]

/-- third clause: the right-hand side does not fit -/
theorem amen_solve_rhs_shape (A b : Sh) (p : Bool) (hA : A.isTTM = true) (hb : b.isTTM = false)
    (hsq : A.M = A.N) (h : A.N ≠ b.N) : guardAmenSolve A b p = .err .ShapeMismatch := by
  simp [guardAmenSolve, hA, hb, hsq, h]

/-- fourth clause: unknown preconditioner name, everything else fine -/
theorem amen_solve_preconditioner (A b : Sh) (hA : A.isTTM = true) (hb : b.isTTM = false)
    (hsq : A.M = A.N) (hN : A.N = b.N) : guardAmenSolve A b false = .err .InvalidArguments := by
  simp [guardAmenSolve, hA, hb, hsq, hN]

theorem amen_solve_reject_complete (A b : Sh) (p : Bool) (h : CompatSolve A b p = false) :
    ∃ e, guardAmenSolve A b p = .err e :=
  g2_not_ok_raises _ (fun hok => by rw [(amen_solve_guard_exact A b p).mp hok] at h; exact Bool.noConfusion h)

example : guardAmenSolve ⟨true,[2,3],[2,3]⟩ ⟨false,[2,3],[]⟩ true = .ok := by decide
example : guardAmenSolve ⟨false,[2,3],[]⟩ ⟨false,[2,3],[]⟩ true = .err .IncompatibleTypes := by decide
example : guardAmenSolve ⟨true,[2,3],[2,3]⟩ ⟨true,[2,3],[2,3]⟩ true = .err .IncompatibleTypes := by decide
example : guardAmenSolve ⟨true,[2,3],[2,4]⟩ ⟨false,[2,3],[]⟩ true = .err .ShapeMismatch := by decide
example : guardAmenSolve ⟨true,[2,3],[2,3]⟩ ⟨false,[2,4],[]⟩ true = .err .ShapeMismatch := by decide
example : guardAmenSolve ⟨true,[2,3],[2,3]⟩ ⟨false,[2,3],[]⟩ false = .err .InvalidArguments := by decide
-- source order: a non-square operator with an unknown preconditioner raises ShapeMismatch
example : guardAmenSolve ⟨true,[2,3],[2,4]⟩ ⟨false,[2,3],[]⟩ false = .err .ShapeMismatch := by decide

/-! ## (7) `permute`: the three source-level tests accept exactly the permutations of `0..d-1` -/

/-- the guard, unfolded into its four conjuncts -/
theorem permute_guard_unfold (d : Nat) (dims : List Nat) :
    guardPermute d dims = .ok ↔
      dims.length = d ∧ dims.eraseDups.length = dims.length ∧
        dims.foldl min (dims.headD 0) = 0 ∧ dims.foldl max 0 = d - 1 := by
  unfold guardPermute
  by_cases h1 : dims.length = d
  · rw [if_neg (not_not.mpr h1)]
    by_cases h2 : dims.eraseDups.length = dims.length
    · rw [if_neg (not_not.mpr h2)]
      by_cases h34 : dims.foldl min (dims.headD 0) = 0 ∧ dims.foldl max 0 = d - 1
      · rw [if_neg (fun h => h.elim (fun h => h h34.1) (fun h => h h34.2))]
        exact ⟨fun _ => ⟨h1, h2, h34.1, h34.2⟩, fun _ => rfl⟩
      · rw [if_pos (Decidable.not_and_iff_or_not.mp h34)]
        exact ⟨fun h => (by cases h), fun h => absurd ⟨h.2.2.1, h.2.2.2⟩ h34⟩
    · rw [if_pos h2]
      exact ⟨fun h => (by cases h), fun h => absurd h.2.1 h2⟩
  · rw [if_pos h1]
    exact ⟨fun h => (by cases h), fun h => absurd h.1 h1⟩

/-- the dense-side predicate as a proposition -/
theorem isPermutation_iff (d : Nat) (dims : List Nat) :
    IsPermutation d dims = true ↔ dims.length = d ∧ ∀ i, i < d → i ∈ dims := by
  simp [IsPermutation, List.all_eq_true]

/-- (⇒) what the three tests enforce: right length, no duplicates, all entries in range -/
theorem permute_accept_props (d : Nat) (dims : List Nat) (h : guardPermute d dims = .ok) :
    dims.length = d ∧ dims.Nodup ∧ ∀ i ∈ dims, i < d := by
  obtain ⟨hlen, hdup, _, hmax⟩ := (permute_guard_unfold d dims).mp h
  refine ⟨hlen, (g2_eraseDups_length_iff dims).mp hdup, ?_⟩
  intro i hi
  have hle : i ≤ dims.foldl max 0 := g2_le_foldl_max_mem dims 0 i hi
  have hd : 0 < d := by
    rw [← hlen]; exact List.length_pos_of_mem hi
  omega

/-- (⇒) accepted index lists are rearrangements of `0..d-1` -/
theorem permute_accept_perm (d : Nat) (dims : List Nat) (h : guardPermute d dims = .ok) :
    dims.Perm (List.range d) := by
  obtain ⟨hlen, hnd, hlt⟩ := permute_accept_props d dims h
  exact g2_perm_range_of_nodup d dims hlen hnd hlt

/-- (⇐) rearrangements of `0..d-1` pass the three tests -/
theorem permute_perm_accept (d : Nat) (dims : List Nat) (h : dims.Perm (List.range d)) :
    guardPermute d dims = .ok := by
  have hlen : dims.length = d := by simpa using h.length_eq
  have hnd : dims.Nodup := h.nodup_iff.mpr List.nodup_range
  have hmem : ∀ i, i ∈ dims ↔ i < d := fun i => by rw [h.mem_iff, List.mem_range]
  rw [permute_guard_unfold]
  refine ⟨hlen, (g2_eraseDups_length_iff dims).mpr hnd, ?_, ?_⟩
  · cases d with
    | zero =>
      have : dims = [] := List.length_eq_zero_iff.mp hlen
      subst this; rfl
    | succ d =>
      have h0 : 0 ∈ dims := (hmem 0).mpr (by omega)
      have := g2_foldl_min_le_mem dims (dims.headD 0) 0 h0
      omega
  · apply Nat.le_antisymm
    · apply g2_foldl_max_le dims 0 (d - 1) (Nat.zero_le _)
      intro x hx
      have := (hmem x).mp hx
      omega
    · cases d with
      | zero => exact Nat.zero_le _
      | succ d =>
        exact g2_le_foldl_max_mem dims 0 d ((hmem d).mpr (by omega))

/-- the guard of `permute` accepts exactly the permutations of `0..d-1`; holds for every `d`
    (for `d = 0` both sides say `dims = []`) -/
theorem permute_guard_exact' (d : Nat) (dims : List Nat) :
    guardPermute d dims = .ok ↔ IsPermutation d dims = true := by
  rw [isPermutation_iff]
  constructor
  · intro h
    have hp := permute_accept_perm d dims h
    refine ⟨by simpa using hp.length_eq, ?_⟩
    intro i hi
    exact hp.mem_iff.mpr (List.mem_range.mpr hi)
  · rintro ⟨hlen, hall⟩
    exact permute_perm_accept d dims (g2_perm_range_of_contains d dims hlen hall).symm

/-- the statement as requested (`d ≥ 1`); the hypothesis is not needed, see `permute_guard_exact'` -/
theorem permute_guard_exact (d : Nat) (dims : List Nat) (_hd : 1 ≤ d) :
    guardPermute d dims = .ok ↔ IsPermutation d dims = true :=
  permute_guard_exact' d dims

/-- accepted ⇔ rearrangement of `List.range d` -/
theorem permute_guard_iff_perm (d : Nat) (dims : List Nat) :
    guardPermute d dims = .ok ↔ dims.Perm (List.range d) :=
  ⟨permute_accept_perm d dims, permute_perm_accept d dims⟩

/-- which class: wrong number of indices → `ShapeMismatch` -/
theorem permute_length (d : Nat) (dims : List Nat) (h : dims.length ≠ d) :
    guardPermute d dims = .err .ShapeMismatch := by
  simp [guardPermute, h]

/-- which class: right number of indices but not a permutation → `InvalidArguments` -/
theorem permute_invalid (d : Nat) (dims : List Nat) (hlen : dims.length = d)
    (h : IsPermutation d dims = false) : guardPermute d dims = .err .InvalidArguments := by
  have hne : guardPermute d dims ≠ .ok := fun hok => by
    rw [(permute_guard_exact' d dims).mp hok] at h; exact Bool.noConfusion h
  unfold guardPermute at hne ⊢
  rw [if_neg (not_not.mpr hlen)] at hne ⊢
  split
  · rfl
  · rw [if_neg ‹_›] at hne
    split
    · rfl
    · rw [if_neg ‹_›] at hne
      exact absurd rfl hne

/-- duplicates are always reported as `InvalidArguments` (second test) -/
theorem permute_duplicates (d : Nat) (dims : List Nat) (hlen : dims.length = d) (h : ¬ dims.Nodup) :
    guardPermute d dims = .err .InvalidArguments := by
  have : dims.eraseDups.length ≠ dims.length := fun he => h ((g2_eraseDups_length_iff dims).mp he)
  unfold guardPermute
  rw [if_neg (not_not.mpr hlen), if_pos this]

example : guardPermute 3 [2,0,1] = .ok := by decide
example : IsPermutation 3 [2,0,1] = true := by decide
example : guardPermute 3 [0,0,1] = .err .InvalidArguments := by decide
example : guardPermute 3 [1,2,3] = .err .InvalidArguments := by decide
example : guardPermute 3 [0,1] = .err .ShapeMismatch := by decide
example : guardPermute 3 [0,2,2] = .err .InvalidArguments := by decide
example : guardPermute 3 [0,1,3] = .err .InvalidArguments := by decide
example : guardPermute 1 [0] = .ok := by decide
example : guardPermute 0 [] = .ok ∧ IsPermutation 0 [] = true := by decide
example : guardPermute 0 [0] = .err .ShapeMismatch ∧ IsPermutation 0 [0] = false := by decide
example : IsPermutation 3 [0,0,1] = false ∧ IsPermutation 3 [1,2,3] = false ∧ IsPermutation 3 [0,1] = false := by
  decide
example : ([2,0,1] : List Nat).Perm (List.range 3) := by decide

/-! ## (8) `reshape` -/

theorem reshape_guard_exact (N shape : List Nat) :
    guardReshape N shape = .ok ↔ N.foldl (· * ·) 1 = shape.foldl (· * ·) 1 := by
  simp [guardReshape]

theorem reshape_shape (N shape : List Nat) (h : N.foldl (· * ·) 1 ≠ shape.foldl (· * ·) 1) :
    guardReshape N shape = .err .ShapeMismatch := by
  simp [guardReshape, h]

example : guardReshape [2,3,4] [6,4] = .ok := by decide
example : guardReshape [2,3,4] [4,3,2,1] = .ok := by decide
example : guardReshape [2,3,4] [5,5] = .err .ShapeMismatch := by decide

/-! ## (9) `cat` -/

/-- the guard, unfolded into its conjuncts -/
theorem cat_guard_unfold (a b : Sh) (dim : Nat) :
    guardCat a b dim = .ok ↔
      a.isTTM = false ∧ dim < a.N.length ∧ b.isTTM = false ∧
        (b.N.take dim = a.N.take dim ∧ b.N.drop (dim+1) = a.N.drop (dim+1)) ∧
        b.N.length = a.N.length := by
  obtain ⟨ta, aN, aM⟩ := a
  obtain ⟨tb, bN, bM⟩ := b
  unfold guardCat
  cases ta
  · cases tb
    · by_cases h1 : dim < aN.length
      · have h1' : ¬ (dim ≥ aN.length) := by omega
        by_cases h2 : bN.take dim = aN.take dim ∧ bN.drop (dim+1) = aN.drop (dim+1)
        · by_cases h3 : bN.length = aN.length
          · simp [h1, h2, h3]
          · simp [h1, h2, h3]
        · have h2' : bN.take dim ≠ aN.take dim ∨ bN.drop (dim+1) ≠ aN.drop (dim+1) := by
            by_cases ht : bN.take dim = aN.take dim
            · exact Or.inr (fun hd => h2 ⟨ht, hd⟩)
            · exact Or.inl ht
          simp only [Bool.false_eq_true, if_false, h1', h2', if_true, h1, true_and]
          constructor
          · intro h; cases h
          · intro h; exact absurd h.1 h2
      · have h1' : dim ≥ aN.length := by omega
        simp [h1, h1']
    · by_cases h1 : dim ≥ aN.length <;> simp [h1]
  · simp

theorem cat_guard_exact (a b : Sh) (dim : Nat) : guardCat a b dim = .ok ↔ CompatCat a b dim = true := by
  rw [cat_guard_unfold]
  simp only [CompatCat, Bool.and_eq_true, Bool.not_eq_true', decide_eq_true_eq, beq_iff_eq,
    List.all_eq_true, List.mem_range, Bool.or_eq_true]
  constructor
  · rintro ⟨ha, hd, hb, htd, hlen⟩
    refine ⟨⟨⟨⟨ha, hb⟩, hd⟩, hlen.symm⟩, ?_⟩
    intro k hk
    by_cases hkd : k = dim
    · exact Or.inl hkd
    · exact Or.inr ((g2_take_drop_iff a.N b.N dim hlen).mp htd k hk hkd)
  · rintro ⟨⟨⟨⟨ha, hb⟩, hd⟩, hlen⟩, hall⟩
    refine ⟨ha, hd, hb, ?_, hlen.symm⟩
    apply (g2_take_drop_iff a.N b.N dim hlen.symm).mpr
    intro k hk hkd
    rcases hall k hk with h | h
    · exact absurd h hkd
    · exact h

/-- every rejection of `cat` is `InvalidArguments` -/
theorem cat_rejects_invalidArguments (a b : Sh) (dim : Nat) (h : guardCat a b dim ≠ .ok) :
    guardCat a b dim = .err .InvalidArguments := by
  unfold guardCat at h ⊢
  repeat' split
  all_goals first | rfl | exact absurd rfl h | skip
  all_goals simp_all

theorem cat_reject_complete (a b : Sh) (dim : Nat) (h : CompatCat a b dim = false) :
    guardCat a b dim = .err .InvalidArguments :=
  cat_rejects_invalidArguments a b dim
    (fun hok => by rw [(cat_guard_exact a b dim).mp hok] at h; exact Bool.noConfusion h)

example : guardCat ⟨false,[2,3,4],[]⟩ ⟨false,[2,7,4],[]⟩ 1 = .ok ∧
    CompatCat ⟨false,[2,3,4],[]⟩ ⟨false,[2,7,4],[]⟩ 1 = true := by decide
example : guardCat ⟨false,[2,3,4],[]⟩ ⟨false,[5,3,4],[]⟩ 0 = .ok := by decide
example : guardCat ⟨false,[2,3,4],[]⟩ ⟨false,[2,3,9],[]⟩ 2 = .ok := by decide
example : guardCat ⟨false,[2,3,4],[]⟩ ⟨false,[2,7,5],[]⟩ 1 = .err .InvalidArguments ∧
    CompatCat ⟨false,[2,3,4],[]⟩ ⟨false,[2,7,5],[]⟩ 1 = false := by decide
example : guardCat ⟨false,[2,3,4],[]⟩ ⟨false,[2,7],[]⟩ 2 = .err .InvalidArguments := by decide
example : guardCat ⟨false,[2,3,4],[]⟩ ⟨false,[2,3,4,5],[]⟩ 2 = .err .InvalidArguments := by decide
example : guardCat ⟨false,[2,3,4],[]⟩ ⟨false,[2,3,4],[]⟩ 3 = .err .InvalidArguments := by decide
example : guardCat ⟨true,[2,3],[2,3]⟩ ⟨false,[2,3],[]⟩ 0 = .err .InvalidArguments := by decide
example : guardCat ⟨false,[2,3],[]⟩ ⟨true,[2,3],[2,3]⟩ 0 = .err .InvalidArguments := by decide

/-! ## (10) `mprod`, `pad` -/

theorem mprod_guard (x : Sh) (mode cols : Nat) :
    guardMprod x mode cols = .ok ↔ (x.isTTM = false ∧ x.N.getD mode 0 = cols) := by
  obtain ⟨tx, xN, xM⟩ := x
  cases tx <;> simp [guardMprod]

theorem mprod_kinds (x : Sh) (mode cols : Nat) (h : x.isTTM = true) :
    guardMprod x mode cols = .err .IncompatibleTypes := by
  simp [guardMprod, h]

theorem mprod_shape (x : Sh) (mode cols : Nat) (hx : x.isTTM = false) (h : x.N.getD mode 0 ≠ cols) :
    guardMprod x mode cols = .err .ShapeMismatch := by
  simpa [guardMprod, hx] using h

/-- what the dense side requires of the list form: every listed mode exists and carries, at the time it is reached, the column
    count of its factor matrix -/
def MprodCompat : List Nat → List (Nat × Nat × Nat) → Prop
  | _, [] => True
  | N, (mode, rows, cols) :: rest => mode < N.length ∧ N.getD mode 0 = cols ∧ MprodCompat (setNat N mode rows) rest

theorem mprodLoop_ok_iff (N : List Nat) (fm : List (Nat × Nat × Nat)) :
    mprodLoop N fm = .ok ↔ MprodCompat N fm := by
  induction fm generalizing N with
  | nil => simp [mprodLoop, MprodCompat]
  | cons p rest ih =>
    obtain ⟨mode, rows, cols⟩ := p
    unfold mprodLoop MprodCompat
    by_cases h1 : mode ≥ N.length
    · rw [if_pos h1]
      constructor
      · intro h; cases h
      · intro h; omega
    · rw [if_neg h1]
      by_cases h2 : N.getD mode 0 ≠ cols
      · rw [if_pos h2]
        constructor
        · intro h; cases h
        · intro h; exact absurd h.2.1 h2
      · rw [if_neg h2]
        have h2' : N.getD mode 0 = cols := by
          by_contra h; exact h2 h
        rw [ih]
        constructor
        · intro h; exact ⟨by omega, h2', h⟩
        · intro h; exact h.2.2

/-- the list form of `mprod` returns an object only if the operand is a TT tensor, the two lists have the same length and every
    pair is compatible — in particular a surplus matrix or a surplus mode is rejected, never silently ignored -/
theorem mprodList_guard (x : Sh) (nModes : Nat) (fm : List (Nat × Nat × Nat)) :
    guardMprodList x nModes fm = .ok ↔ (x.isTTM = false ∧ fm.length = nModes ∧ MprodCompat x.N fm) := by
  obtain ⟨tx, xN, xM⟩ := x
  cases tx
  · by_cases h : fm.length = nModes
    · simp [guardMprodList, h, mprodLoop_ok_iff]
    · simp [guardMprodList, h]
  · simp [guardMprodList]

theorem mprodList_length_mismatch (x : Sh) (nModes : Nat) (fm : List (Nat × Nat × Nat)) (hx : x.isTTM = false)
    (h : fm.length ≠ nModes) : guardMprodList x nModes fm = .err .InvalidArguments := by
  simp [guardMprodList, hx, h]

theorem mprodList_kinds (x : Sh) (nModes : Nat) (fm : List (Nat × Nat × Nat)) (h : x.isTTM = true) :
    guardMprodList x nModes fm = .err .IncompatibleTypes := by
  simp [guardMprodList, h]

example : guardMprodList ⟨false,[2,3,4],[]⟩ 2 [(0,5,2),(0,6,5)] = .ok := by decide
example : guardMprodList ⟨false,[2,3,4],[]⟩ 1 [(0,5,2),(1,6,3)] = .err .InvalidArguments := by decide
example : guardMprodList ⟨false,[2,3,4],[]⟩ 2 [(0,5,2)] = .err .InvalidArguments := by decide
example : guardMprodList ⟨false,[2,3,4],[]⟩ 2 [(0,5,2),(0,6,2)] = .err .ShapeMismatch := by decide
example : guardMprodList ⟨false,[2,3,4],[]⟩ 1 [(3,5,2)] = .err .Other := by decide

/-! ## (11) `qtt_to_tens` -/

/-- whenever the grouping loop accepts, the groups it formed use up ALL the cores: the element counts agree
    (`acc` = running size of the open group) — a target shape that folds only a proper prefix of the modes is never accepted -/
theorem qttGo_ok_prod (N shape : List Nat) (acc : Option Nat) (h : qttGo N shape acc = .ok) :
    acc.getD 1 * prodL N = prodL shape := by
  induction N generalizing shape acc with
  | nil =>
    cases shape with
    | nil =>
      cases acc with
      | none => simp [prodL]
      | some a => simp [qttGo] at h
    | cons s ss => simp [qttGo] at h
  | cons n ns ih =>
    cases shape with
    | nil => simp [qttGo] at h
    | cons s ss =>
      cases acc with
      | none =>
        simp only [qttGo] at h
        by_cases hs : n = s
        · rw [if_pos hs] at h
          have h1 := ih ss none h
          simp only [Option.getD_none, Nat.one_mul, prodL] at h1 ⊢
          rw [h1, hs]
        · rw [if_neg hs] at h
          have h1 := ih (s :: ss) (some n) h
          simp only [Option.getD_some, Option.getD_none, Nat.one_mul, prodL] at h1 ⊢
          exact h1
      | some a =>
        simp only [qttGo] at h
        by_cases hs : a * n = s
        · rw [if_pos hs] at h
          have h1 := ih ss none h
          simp only [Option.getD_none, Nat.one_mul, Option.getD_some, prodL] at h1 ⊢
          rw [← h1, ← hs, Nat.mul_assoc]
        · rw [if_neg hs] at h
          have h1 := ih (s :: ss) (some (a * n)) h
          simp only [Option.getD_some, prodL] at h1 ⊢
          rw [← h1, Nat.mul_assoc]

/-- `qtt_to_tens` returns an object only if the operand is a TT tensor and the target shape has exactly as many elements as the operand -/
theorem qttToTens_guard (x : Sh) (shape : List Nat) (h : guardQttToTens x shape = .ok) :
    x.isTTM = false ∧ prodL x.N = prodL shape := by
  obtain ⟨tx, xN, xM⟩ := x
  cases tx
  · simp only [guardQttToTens] at h
    have h1 := qttGo_ok_prod xN shape none (by simpa using h)
    exact ⟨rfl, by simpa using h1⟩
  · simp [guardQttToTens] at h

example : guardQttToTens ⟨false,[2,2,2,2],[]⟩ [4,4] = .ok := by decide
example : guardQttToTens ⟨false,[2,2,2,2],[]⟩ [4,2] = .err .Other := by decide
example : guardQttToTens ⟨false,[2,2,2,2],[]⟩ [4,4,2] = .err .ShapeMismatch := by decide
example : guardQttToTens ⟨false,[2,2,2,2],[]⟩ [8,3] = .err .ShapeMismatch := by decide
example : guardQttToTens ⟨true,[2,2],[2,2]⟩ [4] = .err .Other := by decide

theorem pad_guard (d npad : Nat) : guardPad d npad = .ok ↔ npad ≤ d := by
  simp [guardPad]

theorem pad_invalid (d npad : Nat) (h : d < npad) : guardPad d npad = .err .InvalidArguments := by
  simp [guardPad, h]

example : guardMprod ⟨false,[2,3,4],[]⟩ 1 3 = .ok := by decide
example : guardMprod ⟨false,[2,3,4],[]⟩ 1 4 = .err .ShapeMismatch := by decide
example : guardMprod ⟨true,[2,3],[2,3]⟩ 1 3 = .err .IncompatibleTypes := by decide
example : guardPad 3 3 = .ok := by decide
example : guardPad 3 4 = .err .InvalidArguments := by decide

end TT.C18
