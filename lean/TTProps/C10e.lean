import TTProps.C10c
import TTProps.C01c
import TTModel.QTT

/-!
# C10e — `TT.to_qtt` / `TT.qtt_to_tens` (tensor branch) keep every entry whenever the SVD reconstructs its input

Model: `TTModel/QTT.lean` (`logFloor`, `unfoldFirst`, `unfoldLast`, `fixEnds`, `qttCore`, `toQTT`, `qttToTensGo`,
`qttToTens`), the SVD being an ORACLE parameter with the algebraic contract `Exact` only.

* `logFloor_spec`: `logFloor` is the integer logarithm and is exact on powers.
* `qttCore_chain`: one core of mode `ms^k` is replaced by `k` cores of mode `ms` whose transfer-matrix products are the
  slices of the core at the row-major digit expansion (`toTT_exact` on the reshaped array `[r·ms, ms, …, ms, ms·r']`).
* `toQTT_full`: the whole train (chains compose, flat indices compose).
* `qttToTens_full`: the greedy merge (`mergeC_chain` only); `qtt_roundtrip`, `qtt_roundtrip_total`: the round trip
  `x.to_qtt(…).qtt_to_tens(x.N)` always returns and returns the entries of `x`.
All helper names carry the `qt_` prefix.
-/
namespace TT.C10
open TT TT.Decomp TT.Reshape TT.QTT

variable {α : Type} [CommRing α]

set_option linter.unusedSectionVars false
set_option linter.unusedVariables false

/-! ### (1) `logFloor` -/

theorem qt_logFloor_bounds (ms : Nat) (hms : 2 ≤ ms) :
    ∀ (fuel m : Nat), 0 < m → m < fuel →
      ms ^ logFloor ms fuel m ≤ m ∧ m < ms ^ (logFloor ms fuel m + 1) := by
  intro fuel
  induction fuel with
  | zero => intro m _ h; omega
  | succ fuel ih =>
    intro m hm hf
    unfold logFloor
    split
    · rename_i hc
      have : m < ms := by omega
      simp only [pow_zero, zero_add, pow_one]
      omega
    · rename_i hc
      have hge : ms ≤ m := by omega
      have hpos : 0 < ms := by omega
      have hq : 0 < m / ms := Nat.div_pos hge hpos
      have hlt : m / ms < fuel := by
        have : m / ms < m := Nat.div_lt_self hm (by omega)
        omega
      obtain ⟨h1, h2⟩ := ih (m / ms) hq hlt
      generalize logFloor ms fuel (m / ms) = k at h1 h2
      constructor
      · have : ms ^ (1 + k) = ms ^ k * ms := by rw [Nat.add_comm, pow_succ]
        rw [this]
        calc ms ^ k * ms ≤ m / ms * ms := Nat.mul_le_mul_right _ h1
          _ ≤ m := Nat.div_mul_le_self m ms
      · have : ms ^ (1 + k + 1) = ms ^ (k + 1) * ms := by rw [Nat.add_comm 1 k, pow_succ]
        rw [this]
        exact (Nat.div_lt_iff_lt_mul hpos).mp h2

theorem qt_pow_unique {ms k k' : Nat} (hms : 2 ≤ ms) (h1 : ms ^ k' ≤ ms ^ k) (h2 : ms ^ k < ms ^ (k' + 1)) :
    k' = k := by
  have a1 : k' ≤ k := (Nat.pow_le_pow_iff_right (by omega)).mp h1
  have a2 : k < k' + 1 := (Nat.pow_lt_pow_iff_right (by omega)).mp h2
  omega

/-- **`logFloor` is the integer logarithm**, and it is exact on powers -/
theorem logFloor_spec (ms fuel m : Nat) (hms : 2 ≤ ms) (hm : 0 < m) (hf : m < fuel) :
    (ms ^ logFloor ms fuel m ≤ m ∧ m < ms ^ (logFloor ms fuel m + 1)) ∧
    ∀ k, m = ms ^ k → logFloor ms (m + 1) m = k := by
  refine ⟨qt_logFloor_bounds ms hms fuel m hm hf, ?_⟩
  intro k hk
  obtain ⟨h1, h2⟩ := qt_logFloor_bounds ms hms (m + 1) m hm (Nat.lt_succ_self m)
  rw [hk] at h1 h2 ⊢
  exact qt_pow_unique hms h1 h2

theorem qt_logFloor_pow (ms k : Nat) (hms : 2 ≤ ms) : logFloor ms (ms ^ k + 1) (ms ^ k) = k :=
  (logFloor_spec ms (ms ^ k + 1) (ms ^ k) hms (Nat.pow_pos (by omega)) (Nat.lt_succ_self _)).2 k rfl

/-! ### (2a) chains with an open right rank -/

theorem qt_chain_nil (ij : List (Nat × Nat)) (a b : Nat) :
    chain ([] : List (Core α)) ij a b = if a = b then 1 else 0 := by
  cases ij <;> rfl

/-- chains compose over `++` (open ranks) -/
theorem qt_chain_append (ys : List (Core α)) (kl : List (Nat × Nat)) (b r : Nat) :
    ∀ (xs : List (Core α)) (ij : List (Nat × Nat)) (r0 a : Nat), ij.length = xs.length → dc_WFto xs r0 r → a < r0 →
      chain (xs ++ ys) (ij ++ kl) a b = sumTo r (fun c => chain xs ij a c * chain ys kl c b) := by
  intro xs
  induction xs with
  | nil =>
    intro ij r0 a hl hw ha
    have : ij = [] := List.length_eq_zero_iff.mp hl
    subst this
    have hr : r0 = r := hw
    subst hr
    simp only [List.nil_append, chain]
    rw [sumTo_single a ha]
    · simp
    · intro k _ hne
      have : ¬ (a = k) := fun e => hne e.symm
      simp [this]
  | cons x xs ih =>
    intro ij r0 a hl hw ha
    match ij, hl with
    | i :: is, hl =>
      simp only [List.cons_append, chain]
      rw [sumTo_congr (g := fun k => x.get a i.1 i.2 k *
            sumTo r (fun c => chain xs is k c * chain ys kl c b))
          (fun k hk => by rw [ih is x.r1 k (by simpa using hl) hw.2 hk])]
      exact dc_sumTo_assoc x.r1 r (fun k => x.get a i.1 i.2 k) (fun k c => chain xs is k c)
        (fun c => chain ys kl c b)

theorem qt_WFto_append_WF (ys : List (Core α)) (r : Nat) (hy : WF ys r) :
    ∀ (xs : List (Core α)) (r0 : Nat), dc_WFto xs r0 r → WF (xs ++ ys) r0 := by
  intro xs
  induction xs with
  | nil => intro r0 h; have : r0 = r := h; subst this; exact hy
  | cons x xs ih => intro r0 h; exact ⟨h.1, ih x.r1 h.2⟩

theorem qt_chain_single (c : Core α) (i a b : Nat) (hb : b < c.r1) :
    chain [c] (tIdx [i]) a b = c.get a i 0 b := by
  simp only [tIdx, List.map_cons, List.map_nil, chain]
  rw [sumTo_single b hb]
  · simp
  · intro k _ hne; simp [hne]

/-! ### (2b) `fixEnds` -/

/-- apply `f` to the last element -/
def qt_mapLast (f : Core α → Core α) : List (Core α) → List (Core α)
  | [] => []
  | [x] => [f x]
  | x :: y :: r => x :: qt_mapLast f (y :: r)

theorem qt_dropLast_getLast (f : Core α → Core α) : ∀ (ts : List (Core α)),
    ts.dropLast ++ (match ts.getLast? with | some l => [f l] | none => []) = qt_mapLast f ts := by
  intro ts
  induction ts with
  | nil => rfl
  | cons x ts ih =>
    cases ts with
    | nil => rfl
    | cons y r =>
      rw [List.dropLast_cons_cons, List.getLast?_cons_cons, List.cons_append, ih]
      rfl

theorem qt_fixEnds_cons (r0 ms r1 : Nat) (t : Core α) (ts : List (Core α)) (hne : ts ≠ []) :
    fixEnds r0 ms r1 (t :: ts) = unfoldFirst r0 ms t :: qt_mapLast (unfoldLast ms r1) ts := by
  cases ts with
  | nil => exact absurd rfl hne
  | cons y r =>
    rw [← qt_dropLast_getLast]
    rfl

theorem qt_mapLast_chain (ms r1 d b : Nat) (hb : b < r1) :
    ∀ (ts : List (Core α)) (is : List Nat) (r k : Nat), WF ts r → is.length + 1 = ts.length →
      chain (qt_mapLast (unfoldLast ms r1) ts) (tIdx (is ++ [d])) k b = chain ts (tIdx (is ++ [d * r1 + b])) k 0 := by
  intro ts
  induction ts with
  | nil => intro is r k _ hl; simp at hl
  | cons x ts ih =>
    intro is r k hw hl
    cases ts with
    | nil =>
      have : is = [] := List.length_eq_zero_iff.mp (by simpa using hl)
      subst this
      have hx1 : x.r1 = 1 := hw.2
      simp only [qt_mapLast, List.nil_append, tIdx, List.map_cons, List.map_nil, chain, unfoldLast]
      rw [sumTo_single b hb, hx1, sumTo_one]
      · simp
      · intro j _ hne; simp [hne]
    | cons y r' =>
      match is, hl with
      | i :: is', hl =>
        simp only [qt_mapLast, List.cons_append, dc_tIdx_cons]
        rw [chain, chain]
        apply sumTo_congr
        intro j _
        rw [ih is' x.r1 j hw.2 (by simpa using hl)]

theorem qt_mapLast_WFto (ms r1 : Nat) :
    ∀ (ts : List (Core α)) (r : Nat), ts ≠ [] → WF ts r → dc_WFto (qt_mapLast (unfoldLast ms r1) ts) r r1 := by
  intro ts
  induction ts with
  | nil => intro r h; exact absurd rfl h
  | cons x ts ih =>
    intro r _ hw
    cases ts with
    | nil => exact ⟨hw.1, rfl⟩
    | cons y r' => exact ⟨hw.1, ih x.r1 (by simp) hw.2⟩

theorem qt_mapLast_modes (ms r1 : Nat) :
    ∀ (ts : List (Core α)), ts ≠ [] →
      modesM (qt_mapLast (unfoldLast ms r1) ts) = (modesM ts).dropLast ++ [ms] := by
  intro ts
  induction ts with
  | nil => intro h; exact absurd rfl h
  | cons x ts ih =>
    intro _
    cases ts with
    | nil => rfl
    | cons y r' =>
      have := ih (by simp)
      simp only [modesM, qt_mapLast, List.map_cons, List.dropLast_cons_cons, List.cons_append] at this ⊢
      rw [this]

theorem qt_mapLast_isTensor (ms r1 : Nat) :
    ∀ (ts : List (Core α)), IsTensor ts → IsTensor (qt_mapLast (unfoldLast ms r1) ts) := by
  intro ts
  induction ts with
  | nil => intro _; trivial
  | cons x ts ih =>
    intro h
    cases ts with
    | nil => exact ⟨rfl, trivial⟩
    | cons y r' => exact ⟨h.1, ih h.2⟩

/-! ### (2c) one core -/

theorem qt_forall₂_split {R : Nat → Nat → Prop} (l l₁ l₂ : List Nat) (h : List.Forall₂ R l (l₁ ++ l₂)) :
    ∃ a b, l = a ++ b ∧ List.Forall₂ R a l₁ ∧ List.Forall₂ R b l₂ :=
  ⟨l.take l₁.length, l.drop l₁.length, (List.take_append_drop _ _).symm,
    List.forall₂_take_append l l₁ l₂ h, List.forall₂_drop_append l l₁ l₂ h⟩

theorem qt_prodNat_replicate (ms : Nat) : ∀ k, prodNat (List.replicate k ms) = ms ^ k := by
  intro k
  induction k with
  | zero => rfl
  | succ k ih => rw [List.replicate_succ, dc_prodNat_cons, ih, pow_succ, Nat.mul_comm]

theorem qt_replicate_two (ms k : Nat) :
    List.replicate (k + 2) ms = ms :: (List.replicate k ms ++ [ms]) := by
  rw [List.replicate_succ, List.replicate_succ']

theorem qt_flatIdx_single (n i : Nat) : flatIdx [n] [i] = i := by
  simp [flatIdx, dc_prodNat_nil]

theorem qt_prodNat_single (n : Nat) : prodNat [n] = n := by
  rw [dc_prodNat_cons, dc_prodNat_nil, Nat.mul_one]

/-- the reshaped shape `[r·ms, ms, …, ms, ms·r']` (`k` modes) -/
def qt_dims (c : Core α) (ms k : Nat) : List Nat :=
  (c.r0 * ms) :: (List.replicate (k - 2) ms ++ [ms * c.r1])

/-- the core as a flat row-major array -/
def qt_arr (c : Core α) : Nat → α :=
  fun J => c.get (J / (c.m * c.r1)) (J / c.r1 % c.m) 0 (J % c.r1)

theorem qt_qttCore_eq (svd : Oracle α) (ms k : Nat) (c : Core α) (hms : 2 ≤ ms) (hm : c.m = ms ^ k) :
    qttCore svd ms c =
      if k > 1 then fixEnds c.r0 ms c.r1 (toTT svd (qt_dims c ms k) (qt_arr c)) else [c] := by
  have hl : logFloor ms (c.m + 1) c.m = k := by rw [hm]; exact qt_logFloor_pow ms k hms
  simp only [qttCore, hl]
  rfl

theorem qt_qttCore_small (svd : Oracle α) (ms k : Nat) (c : Core α) (hms : 2 ≤ ms) (hm : c.m = ms ^ k)
    (hk : k ≤ 1) : qttCore svd ms c = [c] := by
  rw [qt_qttCore_eq svd ms k c hms hm, if_neg (by omega)]

/-- for `k ≥ 2` the result is the head of `to_tt` unfolded, the middle cores, and the last core unfolded -/
theorem qt_qttCore_big (svd : Oracle α) (ms k : Nat) (c : Core α) (hms : 2 ≤ ms) (hm : c.m = ms ^ (k + 2)) :
    ∃ t ts, toTT svd (qt_dims c ms (k + 2)) (qt_arr c) = t :: ts ∧ ts ≠ [] ∧
      qttCore svd ms c = unfoldFirst c.r0 ms t :: qt_mapLast (unfoldLast ms c.r1) ts := by
  have hmod := C01.toTT_modes svd (qt_dims c ms (k + 2)) (qt_arr c)
  generalize hT : toTT svd (qt_dims c ms (k + 2)) (qt_arr c) = T at hmod
  cases T with
  | nil => simp [modesM, qt_dims] at hmod
  | cons t ts =>
    have hne : ts ≠ [] := by
      intro h
      subst h
      simp [modesM, qt_dims] at hmod
    refine ⟨t, ts, rfl, hne, ?_⟩
    rw [qt_qttCore_eq svd ms (k + 2) c hms hm, if_pos (by omega), hT, qt_fixEnds_cons _ _ _ _ _ hne]

/-- the flat index of the reshaped array -/
theorem qt_flat_reshape (r0 ms r1 k a d0 dl b : Nat) (mid : List Nat)
    (hmid : mid.length = k) :
    flatIdx ((r0 * ms) :: (List.replicate k ms ++ [ms * r1])) ((a * ms + d0) :: (mid ++ [dl * r1 + b]))
      = (a * ms ^ (k + 2) + flatIdx (ms :: (List.replicate k ms ++ [ms])) (d0 :: (mid ++ [dl]))) * r1 + b := by
  have hl : mid.length = (List.replicate k ms).length := by simp [hmid]
  rw [dc_flatIdx_cons, dc_flatIdx_cons, rs_flatIdx_append _ _ _ _ hl, rs_flatIdx_append _ _ _ _ hl,
    rs_prodNat_append, rs_prodNat_append, qt_prodNat_replicate, qt_flatIdx_single, qt_flatIdx_single,
    qt_prodNat_single, qt_prodNat_single]
  ring

theorem qt_arr_at (c : Core α) (a i b : Nat) (hi : i < c.m) (hb : b < c.r1) :
    qt_arr c ((a * c.m + i) * c.r1 + b) = c.get a i 0 b := by
  unfold qt_arr
  have h1 : ((a * c.m + i) * c.r1 + b) / c.r1 = a * c.m + i := merge_div hb
  have h2 : ((a * c.m + i) * c.r1 + b) % c.r1 = b := merge_mod hb
  have h3 : ((a * c.m + i) * c.r1 + b) / (c.m * c.r1) = a := by
    rw [Nat.mul_comm c.m c.r1, ← Nat.div_div_eq_div_mul, h1, merge_div hi]
  rw [h1, h2, h3, merge_mod hi]

/-- what one core owes: its replacement `Q` has the same boundary ranks, tensor cores, the product of its modes is the
mode of `c`, and its transfer-matrix products are the slices of `c` at the row-major flat index -/
def qt_CoreSpec (c : Core α) (Q : List (Core α)) : Prop :=
  dc_WFto Q c.r0 c.r1 ∧ IsTensor Q ∧ prodNat (modesM Q) = c.m ∧
  ∀ (ds : List Nat) (a b : Nat), List.Forall₂ (· < ·) ds (modesM Q) → a < c.r0 → b < c.r1 →
    chain Q (tIdx ds) a b = c.get a (flatIdx (modesM Q) ds) 0 b

theorem qt_coreSpec_self (c : Core α) (hn : c.n = 1) : qt_CoreSpec c [c] := by
  refine ⟨⟨rfl, rfl⟩, ⟨hn, trivial⟩, qt_prodNat_single _, ?_⟩
  intro ds a b hds ha hb
  cases hds with
  | @cons d _ ds' _ hd hds' =>
    cases hds'
    show chain [c] (tIdx [d]) a b = c.get a (flatIdx [c.m] [d]) 0 b
    rw [qt_chain_single c d a b hb, qt_flatIdx_single]

theorem qt_qttCore_modes_big (svd : Oracle α) (ms k : Nat) (c : Core α) (hms : 2 ≤ ms)
    (hm : c.m = ms ^ (k + 2)) : modesM (qttCore svd ms c) = List.replicate (k + 2) ms := by
  obtain ⟨t, ts, hT, hne, hQ⟩ := qt_qttCore_big svd ms k c hms hm
  have hmod := C01.toTT_modes svd (qt_dims c ms (k + 2)) (qt_arr c)
  rw [hT] at hmod
  have hts : modesM ts = List.replicate k ms ++ [ms * c.r1] := by
    simp only [modesM, List.map_cons, qt_dims, List.cons.injEq] at hmod
    exact hmod.2
  rw [hQ, qt_replicate_two]
  show ms :: modesM (qt_mapLast (unfoldLast ms c.r1) ts) = _
  rw [qt_mapLast_modes ms c.r1 ts hne, hts, List.dropLast_concat]

theorem qt_coreSpec_big (svd : Oracle α) (hsvd : Exact svd) (ms k : Nat) (c : Core α) (hms : 2 ≤ ms)
    (hm : c.m = ms ^ (k + 2)) : qt_CoreSpec c (qttCore svd ms c) := by
  have hmodes := qt_qttCore_modes_big svd ms k c hms hm
  obtain ⟨t, ts, hT, hne, hQ⟩ := qt_qttCore_big svd ms k c hms hm
  have hmod := C01.toTT_modes svd (qt_dims c ms (k + 2)) (qt_arr c)
  have hwf := C01.toTT_WF svd (qt_dims c ms (k + 2)) (qt_arr c)
  have hten := C01.toTT_isTensor svd (qt_dims c ms (k + 2)) (qt_arr c)
  have hex := C01.toTT_exact svd hsvd (qt_dims c ms (k + 2)) (qt_arr c)
  rw [hT] at hmod hwf hten hex
  have hlen : ts.length = k + 1 := by
    have := congrArg List.length hmod
    simp [modesM, qt_dims] at this
    omega
  refine ⟨?_, ?_, ?_, ?_⟩
  · rw [hQ]; exact ⟨rfl, qt_mapLast_WFto ms c.r1 ts t.r1 hne hwf.2⟩
  · rw [hQ]; exact ⟨rfl, qt_mapLast_isTensor ms c.r1 ts hten.2⟩
  · rw [hmodes, qt_prodNat_replicate, hm]
  · intro ds a b hds ha hb
    rw [hmodes] at hds ⊢
    rw [qt_replicate_two] at hds ⊢
    cases hds with
    | @cons d0 _ ds' _ hd0 hds' =>
      obtain ⟨mid, lst, rfl, hmid, hlst⟩ := qt_forall₂_split ds' _ _ hds'
      cases hlst with
      | @cons dl _ e _ hdl he =>
        cases he
        have hmidlen : mid.length = k := by simpa using hmid.length_eq
        -- the chain of the result is the chain of the `to_tt` cores at the merged boundary digits
        have e1 : chain (qttCore svd ms c) (tIdx (d0 :: (mid ++ [dl]))) a b
            = chain (t :: ts) (tIdx ((a * ms + d0) :: (mid ++ [dl * c.r1 + b]))) 0 0 := by
          rw [hQ, dc_tIdx_cons, dc_tIdx_cons, chain, chain]
          apply sumTo_congr
          intro j _
          rw [qt_mapLast_chain ms c.r1 dl b hb ts mid t.r1 j hwf.2 (by omega)]
          rfl
        have hin : List.Forall₂ (· < ·) ((a * ms + d0) :: (mid ++ [dl * c.r1 + b])) (qt_dims c ms (k + 2)) := by
          refine List.Forall₂.cons (dc_merge_lt ha hd0) ?_
          exact List.rel_append hmid (List.Forall₂.cons (dc_merge_lt hdl hb) List.Forall₂.nil)
        rw [e1]
        have e2 := hex ((a * ms + d0) :: (mid ++ [dl * c.r1 + b])) (by simp [qt_dims]) hin
        rw [full] at e2
        rw [e2]
        have e3 : flatIdx (qt_dims c ms (k + 2)) ((a * ms + d0) :: (mid ++ [dl * c.r1 + b]))
            = (a * c.m + flatIdx (ms :: (List.replicate k ms ++ [ms])) (d0 :: (mid ++ [dl]))) * c.r1 + b := by
          rw [hm]
          exact qt_flat_reshape c.r0 ms c.r1 k a d0 dl b mid hmidlen
        rw [e3]
        apply qt_arr_at c a _ b _ hb
        have hp : prodNat (ms :: (List.replicate k ms ++ [ms])) = c.m := by
          rw [← qt_replicate_two, qt_prodNat_replicate, hm]
        have hlt : flatIdx (ms :: (List.replicate k ms ++ [ms])) (d0 :: (mid ++ [dl]))
            < prodNat (ms :: (List.replicate k ms ++ [ms])) :=
          dc_flatIdx_lt (List.Forall₂.cons hd0 (List.rel_append hmid (List.Forall₂.cons hdl List.Forall₂.nil)))
        rw [hp] at hlt
        exact hlt

/-- every core whose mode is a power of `ms` is replaced by cores that represent it -/
theorem qt_coreSpec (svd : Oracle α) (hsvd : Exact svd) (ms k : Nat) (c : Core α) (hms : 2 ≤ ms) (hn : c.n = 1)
    (hm : c.m = ms ^ k) : qt_CoreSpec c (qttCore svd ms c) := by
  rcases Nat.lt_or_ge k 2 with h | h
  · rw [qt_qttCore_small svd ms k c hms hm (by omega)]
    exact qt_coreSpec_self c hn
  · obtain ⟨k', rfl⟩ : ∃ k', k = k' + 2 := ⟨k - 2, by omega⟩
    exact qt_coreSpec_big svd hsvd ms k' c hms hm

theorem qt_qttCore_modes (svd : Oracle α) (ms k : Nat) (c : Core α) (hms : 2 ≤ ms) (hm : c.m = ms ^ k) :
    modesM (qttCore svd ms c) = if k = 0 then [1] else List.replicate k ms := by
  rcases Nat.lt_or_ge k 2 with h | h
  · rw [qt_qttCore_small svd ms k c hms hm (by omega)]
    have hk : k = 0 ∨ k = 1 := by omega
    rcases hk with rfl | rfl
    · simp [modesM, hm]
    · simp [modesM, hm]
  · obtain ⟨k', rfl⟩ : ∃ k', k = k' + 2 := ⟨k - 2, by omega⟩
    rw [qt_qttCore_modes_big svd ms k' c hms hm, if_neg (by omega)]

/-- **per-core statement.**  For an exact `svd`, `2 ≤ ms` and a core with `c.m = ms^k`: `qttCore svd ms c` chains from
`c.r0` to `c.r1`, consists of tensor cores (given `c.n = 1`), is `[c]` for `k ≤ 1`, has the `k` modes `ms, …, ms` for `k ≥ 1`,
and its transfer-matrix product at the digits `ds` is the slice of `c` at `i = flatIdx [ms, …, ms] ds`. -/
theorem qttCore_chain (svd : Oracle α) (hsvd : Exact svd) (ms k : Nat) (c : Core α) (hms : 2 ≤ ms) (hn : c.n = 1)
    (hm : c.m = ms ^ k) :
    dc_WFto (qttCore svd ms c) c.r0 c.r1 ∧ IsTensor (qttCore svd ms c) ∧
    (k ≤ 1 → qttCore svd ms c = [c]) ∧
    (1 ≤ k → modesM (qttCore svd ms c) = List.replicate k ms) ∧
    (1 ≤ k → ∀ (ds : List Nat) (a b : Nat), List.Forall₂ (· < ·) ds (List.replicate k ms) → a < c.r0 → b < c.r1 →
      chain (qttCore svd ms c) (tIdx ds) a b = c.get a (flatIdx (List.replicate k ms) ds) 0 b) := by
  obtain ⟨h1, h2, h3, h4⟩ := qt_coreSpec svd hsvd ms k c hms hn hm
  have hmodes : 1 ≤ k → modesM (qttCore svd ms c) = List.replicate k ms := by
    intro hk
    rw [qt_qttCore_modes svd ms k c hms hm, if_neg (by omega)]
  refine ⟨h1, h2, qt_qttCore_small svd ms k c hms hm, hmodes, ?_⟩
  intro hk ds a b hds ha hb
  rw [← hmodes hk] at hds ⊢
  exact h4 ds a b hds ha hb
/-! ### (3) `to_qtt` -/

theorem qt_toQTT_cons (svd : Oracle α) (ms : Nat) (c : Core α) (cs : List (Core α)) :
    toQTT svd ms (c :: cs) = qttCore svd ms c ++ toQTT svd ms cs := by
  simp [toQTT]

theorem qt_modesM_append (xs ys : List (Core α)) : modesM (xs ++ ys) = modesM xs ++ modesM ys := by
  simp [modesM]

theorem qt_tIdx_append (xs ys : List Nat) : tIdx (xs ++ ys) = tIdx xs ++ tIdx ys := by
  simp [tIdx]

/-- the modes of the result are `ms` (or `1` for a kept core of mode `1 = ms^0`) -/
theorem toQTT_modes (svd : Oracle α) (ms : Nat) (hms : 2 ≤ ms) :
    ∀ (cs : List (Core α)), (∀ c ∈ cs, ∃ k, c.m = ms ^ k) →
      ∀ s ∈ modesM (toQTT svd ms cs), s = ms ∨ s = 1 := by
  intro cs
  induction cs with
  | nil => intro _ s hs; simp [toQTT, modesM] at hs
  | cons c cs ih =>
    intro hpow s hs
    rw [qt_toQTT_cons, qt_modesM_append, List.mem_append] at hs
    rcases hs with hs | hs
    · obtain ⟨k, hk⟩ := hpow c (by simp)
      rw [qt_qttCore_modes svd ms k c hms hk] at hs
      split at hs
      · simp at hs; exact Or.inr hs
      · exact Or.inl (List.eq_of_mem_replicate hs)
    · exact ih (fun x hx => hpow x (by simp [hx])) s hs

/-- the invariant of `toQTT` for an arbitrary left rank `r` and boundary index `a` -/
theorem qt_toQTT_chain (svd : Oracle α) (hsvd : Exact svd) (ms : Nat) (hms : 2 ≤ ms) :
    ∀ (cs : List (Core α)) (r : Nat), WF cs r → IsTensor cs → (∀ c ∈ cs, ∃ k, c.m = ms ^ k) →
      WF (toQTT svd ms cs) r ∧ IsTensor (toQTT svd ms cs) ∧
      prodNat (modesM (toQTT svd ms cs)) = prodNat (modesM cs) ∧
      ∀ (a : Nat) (is ds : List Nat), a < r → List.Forall₂ (· < ·) is (modesM cs) →
        List.Forall₂ (· < ·) ds (modesM (toQTT svd ms cs)) →
        flatIdx (modesM (toQTT svd ms cs)) ds = flatIdx (modesM cs) is →
        chain (toQTT svd ms cs) (tIdx ds) a 0 = chain cs (tIdx is) a 0 := by
  intro cs
  induction cs with
  | nil =>
    intro r hwf _ _
    refine ⟨hwf, trivial, rfl, ?_⟩
    intro a is ds _ his hds _
    cases his
    cases hds
    rfl
  | cons c cs ih =>
    intro r hwf hten hpow
    obtain ⟨k, hk⟩ := hpow c (by simp)
    obtain ⟨hQw, hQt, hQp, hQc⟩ := qt_coreSpec svd hsvd ms k c hms hten.1 hk
    obtain ⟨hRw, hRt, hRp, hRc⟩ := ih c.r1 hwf.2 hten.2 (fun x hx => hpow x (by simp [hx]))
    rw [qt_toQTT_cons]
    generalize qttCore svd ms c = Q at hQw hQt hQp hQc
    generalize toQTT svd ms cs = R at hRw hRt hRp hRc
    have hr : c.r0 = r := hwf.1
    refine ⟨qt_WFto_append_WF R c.r1 hRw Q r (hr ▸ hQw), (dc_isTensor_append Q R).mpr ⟨hQt, hRt⟩, ?_, ?_⟩
    · rw [qt_modesM_append, rs_prodNat_append, hQp, hRp]
      exact (dc_prodNat_cons c.m (modesM cs)).symm
    · intro a is ds ha his hds hfl
      rw [qt_modesM_append] at hds hfl
      obtain ⟨ds1, ds2, rfl, hds1, hds2⟩ := qt_forall₂_split ds _ _ hds
      cases his with
      | @cons i _ is' _ hi his' =>
        have his'' : List.Forall₂ (· < ·) is' (modesM cs) := his'
        have hfl' : flatIdx (modesM Q) ds1 * prodNat (modesM cs) + flatIdx (modesM R) ds2
            = i * prodNat (modesM cs) + flatIdx (modesM cs) is' := by
          rw [← hRp, ← rs_flatIdx_append _ _ _ _ hds1.length_eq, hfl, hRp]
          rfl
        have hx : flatIdx (modesM R) ds2 < prodNat (modesM cs) := by
          rw [← hRp]; exact dc_flatIdx_lt hds2
        obtain ⟨e1, e2⟩ := rs_divmod_unique hx (dc_flatIdx_lt his'') hfl'
        have hlen : (tIdx ds1).length = Q.length := by
          have := hds1.length_eq
          simp only [modesM, List.length_map] at this
          simp [tIdx, this]
        rw [qt_tIdx_append, qt_chain_append R (tIdx ds2) 0 c.r1 Q (tIdx ds1) r a hlen (hr ▸ hQw) ha]
        show _ = sumTo c.r1 (fun j => c.get a i 0 j * chain cs (tIdx is') j 0)
        apply sumTo_congr
        intro j hj
        rw [hQc ds1 a j hds1 (by omega) hj, e1, hRc j is' ds2 hj his'' hds2 e2]

/-- **MAIN THEOREM — `to_qtt` keeps every entry (row-major digit expansion).**  For an exact `svd`, `2 ≤ ms`, a
well-formed tensor train `cs` all of whose modes are powers of `ms`: the result is a well-formed tensor train, its modes
are `ms` (or `1` for a kept core of mode `1`), the element count is unchanged, and its entry at the digits `ds` is the
entry of `cs` at the multi-index `is` with the same row-major flat index. -/
theorem toQTT_full (svd : Oracle α) (hsvd : Exact svd) (ms : Nat) (hms : 2 ≤ ms) (cs : List (Core α))
    (hwf : WF cs 1) (ht : IsTensor cs) (hpow : ∀ c ∈ cs, ∃ k, c.m = ms ^ k) :
    WF (toQTT svd ms cs) 1 ∧ IsTensor (toQTT svd ms cs) ∧
    (∀ s ∈ modesM (toQTT svd ms cs), s = ms ∨ s = 1) ∧
    prodNat (modesM (toQTT svd ms cs)) = prodNat (modesM cs) ∧
    ∀ (is ds : List Nat), List.Forall₂ (· < ·) is (modesM cs) →
      List.Forall₂ (· < ·) ds (modesM (toQTT svd ms cs)) →
      flatIdx (modesM (toQTT svd ms cs)) ds = flatIdx (modesM cs) is →
      full (toQTT svd ms cs) (tIdx ds) = full cs (tIdx is) := by
  obtain ⟨h1, h2, h3, h4⟩ := qt_toQTT_chain svd hsvd ms hms cs 1 hwf ht hpow
  exact ⟨h1, h2, toQTT_modes svd ms hms cs hpow, h3, fun is ds his hds hfl => h4 0 is ds Nat.one_pos his hds hfl⟩

/-- every in-range flat position has a digit expansion -/
theorem qt_flatIdx_surj : ∀ (ns : List Nat) (N : Nat), N < prodNat ns →
    ∃ ds, List.Forall₂ (· < ·) ds ns ∧ flatIdx ns ds = N := by
  intro ns
  induction ns with
  | nil =>
    intro N hN
    rw [dc_prodNat_nil] at hN
    exact ⟨[], List.Forall₂.nil, by simp [flatIdx]; omega⟩
  | cons n ns ih =>
    intro N hN
    rw [dc_prodNat_cons] at hN
    have hP : 0 < prodNat ns := by
      rcases Nat.eq_zero_or_pos (prodNat ns) with h | h
      · rw [h] at hN; omega
      · exact h
    obtain ⟨ds, hds, hfl⟩ := ih (N % prodNat ns) (Nat.mod_lt _ hP)
    refine ⟨(N / prodNat ns) :: ds, List.Forall₂.cons ?_ hds, ?_⟩
    · exact Nat.div_lt_of_lt_mul (by rw [Nat.mul_comm]; exact hN)
    · rw [dc_flatIdx_cons, hfl, Nat.mul_comm]
      exact Nat.div_add_mod N (prodNat ns)

/-- every entry of the source is an entry of the result: the digit expansion exists -/
theorem toQTT_full_digits (svd : Oracle α) (hsvd : Exact svd) (ms : Nat) (hms : 2 ≤ ms) (cs : List (Core α))
    (hwf : WF cs 1) (ht : IsTensor cs) (hpow : ∀ c ∈ cs, ∃ k, c.m = ms ^ k) (is : List Nat)
    (his : List.Forall₂ (· < ·) is (modesM cs)) :
    ∃ ds, List.Forall₂ (· < ·) ds (modesM (toQTT svd ms cs)) ∧
      flatIdx (modesM (toQTT svd ms cs)) ds = flatIdx (modesM cs) is ∧
      full (toQTT svd ms cs) (tIdx ds) = full cs (tIdx is) := by
  obtain ⟨_, _, _, hp, hc⟩ := toQTT_full svd hsvd ms hms cs hwf ht hpow
  obtain ⟨ds, hds, hfl⟩ := qt_flatIdx_surj (modesM (toQTT svd ms cs)) (flatIdx (modesM cs) is)
    (by rw [hp]; exact dc_flatIdx_lt his)
  exact ⟨ds, hds, hfl, hc is ds his hds hfl⟩
/-! ### (4) `qtt_to_tens` -/

/-- `out` represents `src` (left rank `r`) in the modes `dst`, row-major order kept -/
def qt_Rel (src : List (Core α)) (r : Nat) (dst : List Nat) (out : List (Core α)) : Prop :=
  WF out r ∧ IsTensor out ∧ modesM out = dst ∧ prodNat dst = prodNat (modesM src) ∧
  ∀ (a : Nat) (is js : List Nat), a < r → List.Forall₂ (· < ·) is (modesM src) →
    List.Forall₂ (· < ·) js dst → flatIdx dst js = flatIdx (modesM src) is →
    chain out (tIdx js) a 0 = chain src (tIdx is) a 0

theorem qt_rel_nil (r : Nat) (hr : r = 1) : qt_Rel ([] : List (Core α)) r [] [] := by
  refine ⟨hr, trivial, rfl, rfl, ?_⟩
  intro a is js _ his hjs _
  cases his
  cases hjs
  rfl

/-- emit: the working core is complete -/
theorem qt_rel_emit (c : Core α) (cs out : List (Core α)) (dst : List Nat) (hn : c.n = 1)
    (h : qt_Rel cs c.r1 dst out) : qt_Rel (c :: cs) c.r0 (c.m :: dst) (c :: out) := by
  obtain ⟨hw, ht, hm, hp, hc⟩ := h
  refine ⟨⟨rfl, hw⟩, ⟨hn, ht⟩, ?_, ?_, ?_⟩
  · show c.m :: modesM out = c.m :: dst
    rw [hm]
  · show prodNat (c.m :: dst) = prodNat (c.m :: modesM cs)
    rw [dc_prodNat_cons, dc_prodNat_cons, hp]
  · intro a is js ha his hjs hfl
    cases his with
    | @cons q _ is' _ hq his' =>
      cases hjs with
      | @cons j _ js' _ hj hjs' =>
        have his'' : List.Forall₂ (· < ·) is' (modesM cs) := his'
        have hfl' : j * prodNat dst + flatIdx dst js' = q * prodNat dst + flatIdx (modesM cs) is' := by
          have h0 : j * prodNat dst + flatIdx dst js' = q * prodNat (modesM cs) + flatIdx (modesM cs) is' := hfl
          rw [h0, hp]
        have hlt := dc_flatIdx_lt his''
        rw [← hp] at hlt
        obtain ⟨e1, e2⟩ := rs_divmod_unique (dc_flatIdx_lt hjs') hlt hfl'
        subst e1
        show sumTo c.r1 (fun k => c.get a j 0 k * chain out (tIdx js') k 0)
          = sumTo c.r1 (fun k => c.get a j 0 k * chain cs (tIdx is') k 0)
        apply sumTo_congr
        intro k hk
        rw [hc k is' js' hk his'' hjs' e2]

/-- merge: the next core is multiplied into the working core -/
theorem qt_rel_merge (w c : Core α) (cs out : List (Core α)) (r : Nat) (dst : List Nat)
    (h : qt_Rel (mergeC w c :: cs) r dst out) : qt_Rel (w :: c :: cs) r dst out := by
  obtain ⟨hw, ht, hm, hp, hc⟩ := h
  refine ⟨hw, ht, hm, ?_, ?_⟩
  · rw [hp]
    show prodNat ((w.m * c.m) :: modesM cs) = prodNat (w.m :: c.m :: modesM cs)
    rw [dc_prodNat_cons, dc_prodNat_cons, dc_prodNat_cons, Nat.mul_assoc]
  · intro a is js ha his hjs hfl
    cases his with
    | @cons q _ is1 _ hq his1 =>
      simp only [List.map_cons] at his1
      cases his1 with
      | @cons q' _ ts _ hq' hts =>
        have hmq : q * c.m + q' < w.m * c.m := dc_merge_lt hq hq'
        rw [hc a ((q * c.m + q') :: ts) js ha (List.Forall₂.cons hmq hts) hjs
          (hfl.trans (rs_flatIdx_merge w.m c.m _ q q' ts).symm)]
        exact mergeC_chain w c cs (tIdx ts) q q' a 0 hq'

/-- the cores still to be processed -/
def qt_rem (cur : Option (Core α)) (cs : List (Core α)) : List (Core α) :=
  match cur with
  | none => cs
  | some w => w :: cs

/-- the working core after loading `c` -/
def qt_load (cur : Option (Core α)) (c : Core α) : Core α :=
  match cur with
  | none => c
  | some w => mergeC w c

theorem qt_go_cons (fuel : Nat) (cur : Option (Core α)) (c : Core α) (cs acc : List (Core α)) (s : Nat)
    (sh : List Nat) :
    qttToTensGo (fuel + 1) cur (c :: cs) (s :: sh) acc =
      if (qt_load cur c).m = s then qttToTensGo fuel none cs sh (qt_load cur c :: acc)
      else qttToTensGo fuel (some (qt_load cur c)) cs (s :: sh) acc := by
  cases cur <;> rfl

theorem qt_go_cons_nil (fuel : Nat) (cur : Option (Core α)) (c : Core α) (cs acc : List (Core α)) :
    qttToTensGo (fuel + 1) cur (c :: cs) [] acc = qttToTensGo fuel (some (qt_load cur c)) cs [] acc := by
  cases cur <;> rfl

theorem qt_go_nil_shape : ∀ (fuel : Nat) (w : Core α) (cs acc : List (Core α)),
    qttToTensGo fuel (some w) cs [] acc = none := by
  intro fuel
  induction fuel with
  | zero => intro w cs acc; simp [qttToTensGo]
  | succ fuel ih =>
    intro w cs acc
    cases cs with
    | nil => simp [qttToTensGo]
    | cons c cs => rw [qt_go_cons_nil]; exact ih _ _ _

/-- **loop invariant of `qtt_to_tens`** -/
theorem qt_go_spec : ∀ (fuel : Nat) (cur : Option (Core α)) (cs : List (Core α)) (shape : List Nat)
    (acc out : List (Core α)) (r : Nat),
    WF (qt_rem cur cs) r → IsTensor (qt_rem cur cs) →
    qttToTensGo fuel cur cs shape acc = some out →
    ∃ out', out = acc.reverse ++ out' ∧ qt_Rel (qt_rem cur cs) r shape out' := by
  intro fuel
  induction fuel with
  | zero => intro cur cs shape acc out r _ _ h; simp [qttToTensGo] at h
  | succ fuel ih =>
    intro cur cs shape acc out r hwf hten h
    cases cs with
    | nil =>
      cases cur with
      | some w => simp [qttToTensGo] at h
      | none =>
        cases shape with
        | cons s sh => simp [qttToTensGo] at h
        | nil =>
          simp only [qttToTensGo, Option.some.injEq] at h
          exact ⟨[], by simp [h], qt_rel_nil r hwf⟩
    | cons c cs' =>
      -- the working core after loading `c`
      obtain ⟨core, hcore, hback, hwf', hten'⟩ : ∃ core : Core α,
          core = qt_load cur c ∧
          (∀ dst X, qt_Rel (core :: cs') r dst X → qt_Rel (qt_rem cur (c :: cs')) r dst X) ∧
          WF (core :: cs') r ∧ IsTensor (core :: cs') := by
        cases cur with
        | none => exact ⟨c, rfl, fun _ _ hX => hX, hwf, hten⟩
        | some w =>
          exact ⟨mergeC w c, rfl, fun dst X hX => qt_rel_merge w c cs' X r dst hX,
            ⟨hwf.1, hwf.2.2⟩, ⟨rfl, hten.2.2⟩⟩
      cases shape with
      | nil =>
        rw [qt_go_cons_nil, qt_go_nil_shape] at h
        simp at h
      | cons s sh =>
        rw [qt_go_cons, ← hcore] at h
        split at h
        · rename_i hs
          obtain ⟨out'', ho, hrel⟩ := ih none cs' sh (core :: acc) out core.r1 hwf'.2 hten'.2 h
          refine ⟨core :: out'', by rw [ho]; simp, hback _ _ ?_⟩
          rw [← hs, ← hwf'.1]
          exact qt_rel_emit core cs' out'' sh hten'.1 hrel
        · obtain ⟨out', ho, hrel⟩ := ih (some core) cs' (s :: sh) acc out r hwf' hten' h
          exact ⟨out', ho, hback _ _ hrel⟩

/-- **`qtt_to_tens` keeps every entry.**  Whenever it returns, the result is a well-formed tensor train with the
requested modes and the entries of `cs` in row-major order (merging only; no oracle is involved). -/
theorem qttToTens_full (shape : List Nat) (cs out : List (Core α)) (hwf : WF cs 1) (ht : IsTensor cs)
    (h : qttToTens shape cs = some out) :
    WF out 1 ∧ IsTensor out ∧ modesM out = shape ∧ prodNat shape = prodNat (modesM cs) ∧
    ∀ (is js : List Nat), List.Forall₂ (· < ·) is (modesM cs) → List.Forall₂ (· < ·) js shape →
      flatIdx shape js = flatIdx (modesM cs) is → full out (tIdx js) = full cs (tIdx is) := by
  obtain ⟨out', ho, h1, h2, h3, h4, h5⟩ := qt_go_spec (cs.length + 1) none cs shape [] out 1 hwf ht h
  simp only [List.reverse_nil, List.nil_append] at ho
  subst ho
  exact ⟨h1, h2, h3, h4, fun is js his hjs hfl => h5 0 is js Nat.one_pos his hjs hfl⟩

/-- **round trip** `x.to_qtt(...).qtt_to_tens(x.N)`: whenever it returns, it returns a train with the modes of `cs` and
exactly the entries of `cs` -/
theorem qtt_roundtrip (svd : Oracle α) (hsvd : Exact svd) (ms : Nat) (hms : 2 ≤ ms) (cs out : List (Core α))
    (hwf : WF cs 1) (ht : IsTensor cs) (hpow : ∀ c ∈ cs, ∃ k, c.m = ms ^ k)
    (h : qttToTens (modesM cs) (toQTT svd ms cs) = some out) :
    WF out 1 ∧ IsTensor out ∧ modesM out = modesM cs ∧
    ∀ (is : List Nat), List.Forall₂ (· < ·) is (modesM cs) → full out (tIdx is) = full cs (tIdx is) := by
  obtain ⟨q1, q2, _, _, q5⟩ := toQTT_full svd hsvd ms hms cs hwf ht hpow
  obtain ⟨t1, t2, t3, _, t5⟩ := qttToTens_full (modesM cs) (toQTT svd ms cs) out q1 q2 h
  refine ⟨t1, t2, t3, ?_⟩
  intro is his
  obtain ⟨ds, hds, hfl, _⟩ := toQTT_full_digits svd hsvd ms hms cs hwf ht hpow is his
  rw [t5 ds is hds his hfl.symm]
  exact q5 is ds his hds hfl
/-! ### (4b) totality of the round trip -/

/-- greedy merging of `1 + xs.length` cores of mode `t ≥ 2` reaches `t^(j+1+xs.length)` exactly at the last of them -/
theorem qt_go_run (t : Nat) (ht : 2 ≤ t) (rest : List (Core α)) (shape' : List Nat) :
    ∀ (xs : List (Core α)) (x : Core α) (cur : Option (Core α)) (j fuel : Nat) (acc : List (Core α)),
      (qt_load cur x).m = t ^ (j + 1) → (∀ y ∈ xs, y.m = t) →
      ∃ W, qttToTensGo (fuel + xs.length + 1) cur (x :: (xs ++ rest)) (t ^ (j + 1 + xs.length) :: shape') acc
        = qttToTensGo fuel none rest shape' (W :: acc) := by
  intro xs
  induction xs with
  | nil =>
    intro x cur j fuel acc hm _
    refine ⟨qt_load cur x, ?_⟩
    rw [qt_go_cons, if_pos (by simpa using hm)]
    rfl
  | cons y ys ih =>
    intro x cur j fuel acc hm hys
    have hne : ¬ (qt_load cur x).m = t ^ (j + 1 + (y :: ys).length) := by
      rw [hm]
      intro h
      have := Nat.pow_right_injective ht h
      simp only [List.length_cons] at this
      omega
    rw [qt_go_cons, if_neg hne]
    have hm' : (qt_load (some (qt_load cur x)) y).m = t ^ (j + 1 + 1) := by
      show (qt_load cur x).m * y.m = _
      rw [hm, hys y (by simp), ← pow_succ]
    obtain ⟨W, hW⟩ := ih y (some (qt_load cur x)) (j + 1) fuel acc hm' (fun z hz => hys z (by simp [hz]))
    refine ⟨W, ?_⟩
    have e : j + 1 + (y :: ys).length = j + 1 + 1 + ys.length := by simp only [List.length_cons]; omega
    rw [e]
    exact hW

/-- the shape of `qttCore` for `k ≥ 2`: a head and `k - 1` further cores, all of mode `ms` -/
theorem qt_qttCore_list (svd : Oracle α) (ms k : Nat) (c : Core α) (hms : 2 ≤ ms) (hm : c.m = ms ^ (k + 2)) :
    ∃ x xs, qttCore svd ms c = x :: xs ∧ x.m = ms ∧ (∀ y ∈ xs, y.m = ms) ∧ xs.length = k + 1 := by
  have hmod := qt_qttCore_modes_big svd ms k c hms hm
  generalize qttCore svd ms c = Q at hmod
  cases Q with
  | nil => simp [modesM, List.replicate_succ] at hmod
  | cons x xs =>
    simp only [modesM, List.map_cons, List.replicate_succ, List.cons.injEq] at hmod
    obtain ⟨hx, hxs⟩ := hmod
    refine ⟨x, xs, rfl, hx, ?_, ?_⟩
    · intro y hy
      have : y.m ∈ List.map (fun c : Core α => c.m) xs := List.mem_map_of_mem hy
      rw [hxs, ← List.replicate_succ] at this
      exact List.eq_of_mem_replicate this
    · have := congrArg List.length hxs
      simpa using this

/-- `qtt_to_tens(x.N)` never fails on `x.to_qtt(…)` (any oracle) -/
theorem qt_go_total (svd : Oracle α) (ms : Nat) (hms : 2 ≤ ms) :
    ∀ (cs : List (Core α)), (∀ c ∈ cs, ∃ k, c.m = ms ^ k) → ∀ (fuel : Nat) (acc : List (Core α)),
      ∃ out, qttToTensGo (fuel + (toQTT svd ms cs).length + 1) none (toQTT svd ms cs) (modesM cs) acc = some out := by
  intro cs
  induction cs with
  | nil => intro _ fuel acc; exact ⟨acc.reverse, by simp [toQTT, modesM, qttToTensGo]⟩
  | cons c cs ih =>
    intro hpow fuel acc
    have hpow' : ∀ x ∈ cs, ∃ k, x.m = ms ^ k := fun x hx => hpow x (by simp [hx])
    obtain ⟨k, hk⟩ := hpow c (by simp)
    rw [qt_toQTT_cons]
    show ∃ out, qttToTensGo _ none _ (c.m :: modesM cs) acc = some out
    rcases Nat.lt_or_ge k 2 with h | h
    · rw [qt_qttCore_small svd ms k c hms hk (by omega)]
      obtain ⟨out, ho⟩ := ih hpow' fuel (c :: acc)
      refine ⟨out, ?_⟩
      have e : fuel + ([c] ++ toQTT svd ms cs).length + 1 = (fuel + (toQTT svd ms cs).length + 1) + 1 := by
        simp only [List.length_append, List.length_cons, List.length_nil]; omega
      rw [e, List.singleton_append, qt_go_cons, if_pos (show (qt_load none c).m = c.m from rfl)]
      exact ho
    · obtain ⟨k', rfl⟩ : ∃ k', k = k' + 2 := ⟨k - 2, by omega⟩
      obtain ⟨x, xs, hQ, hx, hxs, hlen⟩ := qt_qttCore_list svd ms k' c hms hk
      rw [hQ]
      obtain ⟨W, hW⟩ := qt_go_run ms hms (toQTT svd ms cs) (modesM cs) xs x none 0
        (fuel + (toQTT svd ms cs).length + 1) acc (by show x.m = _; rw [hx]; simp) hxs
      obtain ⟨out, ho⟩ := ih hpow' fuel (W :: acc)
      refine ⟨out, ?_⟩
      have e : fuel + (x :: xs ++ toQTT svd ms cs).length + 1
          = (fuel + (toQTT svd ms cs).length + 1) + xs.length + 1 := by
        simp only [List.length_append, List.length_cons]; omega
      have e2 : c.m = ms ^ (0 + 1 + xs.length) := by rw [hk, hlen]; congr 1; omega
      rw [e, e2, List.cons_append, hW]
      exact ho

/-- **the round trip is total and exact**: `x.to_qtt(eps, ms).qtt_to_tens(x.N)` returns a train with the modes and
the entries of `x` -/
theorem qtt_roundtrip_total (svd : Oracle α) (hsvd : Exact svd) (ms : Nat) (hms : 2 ≤ ms) (cs : List (Core α))
    (hwf : WF cs 1) (ht : IsTensor cs) (hpow : ∀ c ∈ cs, ∃ k, c.m = ms ^ k) :
    ∃ out, qttToTens (modesM cs) (toQTT svd ms cs) = some out ∧ WF out 1 ∧ IsTensor out ∧ modesM out = modesM cs ∧
      ∀ (is : List Nat), List.Forall₂ (· < ·) is (modesM cs) → full out (tIdx is) = full cs (tIdx is) := by
  obtain ⟨out, ho⟩ := qt_go_total svd ms hms cs hpow 0 []
  have ho' : qttToTens (modesM cs) (toQTT svd ms cs) = some out := by
    unfold qttToTens
    rw [Nat.zero_add] at ho
    exact ho
  exact ⟨out, ho', qtt_roundtrip svd hsvd ms hms cs out hwf ht hpow ho'⟩
/-! ### (5) concrete instances (non-vacuity) -/

section examples

example : logFloor 2 9 8 = 3 ∧ logFloor 3 10 9 = 2 ∧ logFloor 2 11 10 = 3 ∧ logFloor 2 2 1 = 0 ∧ logFloor 3 3 2 = 0 := by
  decide
example : (2 ^ logFloor 2 11 10 ≤ 10 ∧ 10 < 2 ^ (logFloor 2 11 10 + 1)) ∧ ∀ k, 10 = 2 ^ k → logFloor 2 (10 + 1) 10 = k :=
  logFloor_spec 2 11 10 (by decide) (by decide) (by decide)
example : logFloor 2 (8 + 1) 8 = 3 := (logFloor_spec 2 9 8 (by decide) (by decide) (by decide)).2 3 rfl

/-- an order-3 integer train: ranks `[1,2,2,1]`, modes `[4,2,8]` (`ms = 2`: exponents `2, 1, 3`) -/
def qt_exA : List (Core Int) :=
  [ { r0 := 1, m := 4, n := 1, r1 := 2, get := fun _ i _ b => (i : Int) + 2 * b - 1 },
    { r0 := 2, m := 2, n := 1, r1 := 2, get := fun a i _ b => 2 * (a : Int) - i + b },
    { r0 := 2, m := 8, n := 1, r1 := 1, get := fun a i _ _ => (a : Int) * i - 3 + i } ]

/-- an order-2 integer train: ranks `[1,2,1]`, modes `[9,3]` (`ms = 3`: exponents `2, 1`) -/
def qt_exB : List (Core Int) :=
  [ { r0 := 1, m := 9, n := 1, r1 := 2, get := fun _ i _ b => (i : Int) * i - 4 * b + 1 },
    { r0 := 2, m := 3, n := 1, r1 := 1, get := fun a i _ _ => (a : Int) + 2 * i - 1 } ]

/-- a train with a mode of size `1 = 2^0`: ranks `[1,2,2,1]`, modes `[4,1,2]` -/
def qt_exC : List (Core Int) :=
  [ { r0 := 1, m := 4, n := 1, r1 := 2, get := fun _ i _ b => (i : Int) - b },
    { r0 := 2, m := 1, n := 1, r1 := 2, get := fun a _ _ b => 2 * (a : Int) + b - 1 },
    { r0 := 2, m := 2, n := 1, r1 := 1, get := fun a i _ _ => (a : Int) * 3 - i } ]

theorem qt_exA_WF : WF qt_exA 1 := ⟨rfl, rfl, rfl, rfl⟩
theorem qt_exA_isTensor : IsTensor qt_exA := ⟨rfl, rfl, rfl, trivial⟩
theorem qt_exA_pow : ∀ c ∈ qt_exA, ∃ k, c.m = 2 ^ k := by
  intro c hc
  simp only [qt_exA, List.mem_cons, List.not_mem_nil, or_false] at hc
  rcases hc with rfl | rfl | rfl
  · exact ⟨2, rfl⟩
  · exact ⟨1, rfl⟩
  · exact ⟨3, rfl⟩

theorem qt_exB_WF : WF qt_exB 1 := ⟨rfl, rfl, rfl⟩
theorem qt_exB_isTensor : IsTensor qt_exB := ⟨rfl, rfl, trivial⟩
theorem qt_exB_pow : ∀ c ∈ qt_exB, ∃ k, c.m = 3 ^ k := by
  intro c hc
  simp only [qt_exB, List.mem_cons, List.not_mem_nil, or_false] at hc
  rcases hc with rfl | rfl
  · exact ⟨2, rfl⟩
  · exact ⟨1, rfl⟩

theorem qt_exC_pow : ∀ c ∈ qt_exC, ∃ k, c.m = 2 ^ k := by
  intro c hc
  simp only [qt_exC, List.mem_cons, List.not_mem_nil, or_false] at hc
  rcases hc with rfl | rfl | rfl
  · exact ⟨2, rfl⟩
  · exact ⟨0, rfl⟩
  · exact ⟨1, rfl⟩

/- evaluated with the capped oracle of the correspondence run (large cap): modes, ranks, all entries -/
example : modesM (toQTT (idOracle 1000) 2 qt_exA) = [2, 2, 2, 2, 2, 2] := by decide
example : modesM (toQTT (idOracle 1000) 3 qt_exB) = [3, 3, 3] := by decide
example : modesM (toQTT (idOracle 1000) 2 qt_exC) = [2, 2, 1, 2] := by decide
example : wfB (toQTT (idOracle 1000) 2 qt_exA) 1 = true := by decide
example : wfB (toQTT (idOracle 1000) 3 qt_exB) 1 = true := by decide

/-- all 64 entries: the digits are the binary expansions of the three indices -/
example : ∀ d0 < 2, ∀ d1 < 2, ∀ d2 < 2, ∀ d3 < 2, ∀ d4 < 2, ∀ d5 < 2,
    full (toQTT (idOracle 1000) 2 qt_exA) (tIdx [d0, d1, d2, d3, d4, d5])
      = full qt_exA (tIdx [d0 * 2 + d1, d2, d3 * 4 + d4 * 2 + d5]) := by decide

/-- all 27 entries, base 3 -/
example : ∀ d0 < 3, ∀ d1 < 3, ∀ d2 < 3,
    full (toQTT (idOracle 1000) 3 qt_exB) (tIdx [d0, d1, d2]) = full qt_exB (tIdx [d0 * 3 + d1, d2]) := by decide

example : ∀ d0 < 2, ∀ d1 < 2, ∀ d3 < 2,
    full (toQTT (idOracle 1000) 2 qt_exC) (tIdx [d0, d1, 0, d3]) = full qt_exC (tIdx [d0 * 2 + d1, 0, d3]) := by decide

/-- the per-core statement instantiated on the last core of `qt_exA` (`8 = 2^3`, ranks `2 → 1`) -/
example : chain (qttCore dc_idFull 2 (qt_exA.getLast (by decide))) (tIdx [1, 0, 1]) 1 0
    = (qt_exA.getLast (by decide)).get 1 (flatIdx (List.replicate 3 2) [1, 0, 1]) 0 0 :=
  (qttCore_chain dc_idFull dc_idFull_exact 2 3 (qt_exA.getLast (by decide)) (by decide) rfl rfl).2.2.2.2 (by decide)
    [1, 0, 1] 1 0 (dc_inRange_of_get _ _ rfl (by decide)) (by decide) (by decide)

/-- **the main theorem instantiated**: entry `(1,1,1,1,0,1)` of the QTT is entry `(3,1,5)` of the source -/
example : WF (toQTT dc_idFull 2 qt_exA) 1 ∧
    full (toQTT dc_idFull 2 qt_exA) (tIdx [1, 1, 1, 1, 0, 1]) = full qt_exA (tIdx [3, 1, 5]) := by
  obtain ⟨h1, _, _, _, h5⟩ := toQTT_full dc_idFull dc_idFull_exact 2 (by decide) qt_exA qt_exA_WF qt_exA_isTensor
    qt_exA_pow
  have hm : modesM (toQTT dc_idFull 2 qt_exA) = [2, 2, 2, 2, 2, 2] := by decide
  refine ⟨h1, h5 [3, 1, 5] [1, 1, 1, 1, 0, 1] (dc_inRange_of_get _ _ rfl (by decide)) ?_ ?_⟩
  · rw [hm]; exact dc_inRange_of_get _ _ rfl (by decide)
  · rw [hm]; decide

example : full (toQTT dc_idFull 3 qt_exB) (tIdx [2, 1, 2]) = full qt_exB (tIdx [7, 2]) := by
  obtain ⟨_, _, _, _, h5⟩ := toQTT_full dc_idFull dc_idFull_exact 3 (by decide) qt_exB qt_exB_WF qt_exB_isTensor
    qt_exB_pow
  have hm : modesM (toQTT dc_idFull 3 qt_exB) = [3, 3, 3] := by decide
  refine h5 [7, 2] [2, 1, 2] (dc_inRange_of_get _ _ rfl (by decide)) ?_ ?_
  · rw [hm]; exact dc_inRange_of_get _ _ rfl (by decide)
  · rw [hm]; decide

/-- the concrete value -/
example : full (toQTT (idOracle 1000) 2 qt_exA) (tIdx [1, 1, 1, 1, 0, 1]) = full qt_exA (tIdx [3, 1, 5])
    ∧ full qt_exA (tIdx [3, 1, 5]) = 60 := by decide

/- round trip, evaluated: it returns, the modes are the source modes, all entries agree -/
example : (qttToTens [4, 2, 8] (toQTT (idOracle 1000) 2 qt_exA)).isSome = true := by decide
example : modesM ((qttToTens [4, 2, 8] (toQTT (idOracle 1000) 2 qt_exA)).getD []) = [4, 2, 8] := by decide
example : ∀ i0 < 4, ∀ i1 < 2, ∀ i2 < 8,
    full ((qttToTens [4, 2, 8] (toQTT (idOracle 1000) 2 qt_exA)).getD []) (tIdx [i0, i1, i2])
      = full qt_exA (tIdx [i0, i1, i2]) := by decide
example : ∀ i0 < 9, ∀ i1 < 3,
    full ((qttToTens [9, 3] (toQTT (idOracle 1000) 3 qt_exB)).getD []) (tIdx [i0, i1])
      = full qt_exB (tIdx [i0, i1]) := by decide
example : ∀ i0 < 4, ∀ i2 < 2,
    full ((qttToTens [4, 1, 2] (toQTT (idOracle 1000) 2 qt_exC)).getD []) (tIdx [i0, 0, i2])
      = full qt_exC (tIdx [i0, 0, i2]) := by decide

/-- `qtt_to_tens` with another grouping of the digits: `[4,2,8] → [8,8]` -/
example : ∀ i0 < 4, ∀ i1 < 2, ∀ i2 < 8,
    full ((qttToTens [8, 8] (toQTT (idOracle 1000) 2 qt_exA)).getD []) (tIdx [i0 * 2 + i1, i2])
      = full qt_exA (tIdx [i0, i1, i2]) := by decide

/-- shapes that the greedy merge cannot produce are rejected (`ShapeMismatch`) -/
example : (qttToTens [4, 2, 4] (toQTT (idOracle 1000) 2 qt_exA)).isSome = false := by decide
example : (qttToTens [4, 2, 8, 1] (toQTT (idOracle 1000) 2 qt_exA)).isSome = false := by decide
example : (qttToTens [3, 2, 8] (toQTT (idOracle 1000) 2 qt_exA)).isSome = false := by decide

/-- **the round-trip theorem instantiated** -/
example : ∃ out, qttToTens (modesM qt_exA) (toQTT dc_idFull 2 qt_exA) = some out ∧ WF out 1 ∧ IsTensor out ∧
    modesM out = [4, 2, 8] ∧ full out (tIdx [3, 1, 5]) = full qt_exA (tIdx [3, 1, 5]) := by
  obtain ⟨out, h0, h1, h2, h3, h4⟩ := qtt_roundtrip_total dc_idFull dc_idFull_exact 2 (by decide) qt_exA qt_exA_WF
    qt_exA_isTensor qt_exA_pow
  exact ⟨out, h0, h1, h2, h3, h4 [3, 1, 5] (dc_inRange_of_get _ _ rfl (by decide))⟩

example : ∃ out, qttToTens (modesM qt_exB) (toQTT dc_idFull 3 qt_exB) = some out ∧
    full out (tIdx [7, 2]) = full qt_exB (tIdx [7, 2]) := by
  obtain ⟨out, h0, _, _, _, h4⟩ := qtt_roundtrip_total dc_idFull dc_idFull_exact 3 (by decide) qt_exB qt_exB_WF
    qt_exB_isTensor qt_exB_pow
  exact ⟨out, h0, h4 [7, 2] (dc_inRange_of_get _ _ rfl (by decide))⟩

/-- `qttToTens_full` instantiated on a hand-written QTT (no oracle): `[2,2,2] → [4,2]` -/
def qt_exD : List (Core Int) :=
  [ { r0 := 1, m := 2, n := 1, r1 := 2, get := fun _ i _ b => (i : Int) + b },
    { r0 := 2, m := 2, n := 1, r1 := 2, get := fun a i _ b => (a : Int) - i + 2 * b },
    { r0 := 2, m := 2, n := 1, r1 := 1, get := fun a i _ _ => 2 * (a : Int) + i - 1 } ]

example : ∃ out, qttToTens [4, 2] qt_exD = some out ∧ modesM out = [4, 2] ∧
    full out (tIdx [3, 1]) = full qt_exD (tIdx [1, 1, 1]) := by
  have hs : (qttToTens [4, 2] qt_exD).isSome = true := by decide
  obtain ⟨out, ho⟩ := Option.isSome_iff_exists.mp hs
  obtain ⟨_, _, h3, _, h5⟩ := qttToTens_full [4, 2] qt_exD out ⟨rfl, rfl, rfl, rfl⟩ ⟨rfl, rfl, rfl, trivial⟩ ho
  exact ⟨out, ho, h3, h5 [1, 1, 1] [3, 1] (dc_inRange_of_get _ _ rfl (by decide))
    (dc_inRange_of_get _ _ rfl (by decide)) (by decide)⟩

/-- a truncating SVD (`idOracle 1`) changes the tensor: `Exact svd` is not vacuous -/
example : full (toQTT (idOracle 1) 2 qt_exA) (tIdx [1, 1, 1, 1, 0, 1]) ≠ full qt_exA (tIdx [3, 1, 5]) := by decide

/-- the hypothesis "every mode is a power of `ms`" is needed: for the mode `6` and `ms = 2` the model keeps
`2^⌊log₂ 6⌋ = 4` of the 6 slices (torchtt's `reshape` raises here) -/
example : modesM (toQTT (idOracle 1000) 2
    [({ r0 := 1, m := 6, n := 1, r1 := 1, get := fun _ i _ _ => (i : Int) } : Core Int)]) = [2, 2] := by decide

end examples

end TT.C10

#print axioms TT.C10.logFloor_spec
#print axioms TT.C10.qttCore_chain
#print axioms TT.C10.toQTT_modes
#print axioms TT.C10.toQTT_full
#print axioms TT.C10.toQTT_full_digits
#print axioms TT.C10.qttToTens_full
#print axioms TT.C10.qtt_roundtrip
#print axioms TT.C10.qtt_roundtrip_total
