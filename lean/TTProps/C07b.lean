import TTLemmas.ReduceDims

/-!
# C07 (part b) — `x.sum(index)` equals the dense partial sum

`sumSel sel cs` models `x.sum(index)` for an index list: the selected cores are summed over their
mode(s) with `keepdim` (`mapSel sumModeCore sel 0 cs`), then `reduce_dims(exclude)` with
`exclude` = the positions that were *not* summed removes exactly the summed modes.
`sumOver sel 0 cs ij f` (in `TTLemmas/ReduceDims.lean`) is the sum of `f` over the index pairs
`(i, j) ∈ [0,m_p) × [0,n_p)` of the selected positions `p`, the other positions being read from
`ij`.  Everything holds for TT-tensors and TT-matrices alike, for every order, mode-size pattern,
rank profile and core values over an arbitrary commutative ring.
-/
namespace TT.C07
open TT
variable {α : Type} [CommRing α]

/-- **`keepdim` sums**: summing the selected cores over their modes gives the partial sums of the
    tensor; the index at a summed position is a dummy (it may be `(0,0)`). -/
theorem full_mapSel_sumMode (sel : Nat → Bool) (cs : List (Core α)) (ij : List (Nat × Nat))
    (hij : ij.length = cs.length) :
    full (mapSel sumModeCore sel 0 cs) ij = sumOver sel 0 cs ij (fun r => full cs r) :=
  chain_mapSel_sumMode sel cs 0 ij 0 0 hij

/-- which positions survive `x.sum(index)`: the unsummed ones; when every mode is summed the last
    core survives (it is the `1 × 1 × 1` core that the caller squeezes to a scalar) -/
theorem sumSel_mask (sel : Nat → Bool) (cs : List (Core α)) (hne : cs ≠ []) :
    keptMask (fun i => !sel i) (mapSel sumModeCore sel 0 cs)
      = if (unselMask sel 0 cs).any id = true then unselMask sel 0 cs
        else List.replicate (cs.length - 1) false ++ [true] :=
  keptMask_sumSel sel cs hne

/-- **value of `x.sum(index)`, general form**: entry `ij` of the result is the sum of `x` over the
    selected modes, the unsummed indices being `ij` spread over the surviving positions. -/
theorem sumSel_full (sel : Nat → Bool) (cs : List (Core α)) (ij : List (Nat × Nat))
    (hij : ij.length
      = keptCount (keptMask (fun i => !sel i) (mapSel sumModeCore sel 0 cs))) :
    full (sumSel sel cs) ij
      = sumOver sel 0 cs
          (expandIdx (keptMask (fun i => !sel i) (mapSel sumModeCore sel 0 cs)) ij)
          (fun r => full cs r) := by
  unfold sumSel
  rw [TT.reduceDims_full _ _ ij hij]
  apply full_mapSel_sumMode
  rw [length_expandIdx _ ij hij, length_keptMask, length_mapSel]

/-- the statement in the form requested (well-formedness and non-emptiness are not needed) -/
theorem sumSel_full' (sel : Nat → Bool) (cs : List (Core α)) (ij : List (Nat × Nat))
    (_hw : WF cs 1) (_hne : cs ≠ [])
    (hij : ij.length
      = keptCount (keptMask (fun i => !sel i) (mapSel sumModeCore sel 0 cs))) :
    full (sumSel sel cs) ij
      = sumOver sel 0 cs
          (expandIdx (keptMask (fun i => !sel i) (mapSel sumModeCore sel 0 cs)) ij)
          (fun r => full cs r) := sumSel_full sel cs ij hij

/-- **value of `x.sum(index)` when some mode is not summed**: one index per unsummed mode -/
theorem sumSel_full_some (sel : Nat → Bool) (cs : List (Core α)) (ij : List (Nat × Nat))
    (hsome : (unselMask sel 0 cs).any id = true)
    (hij : ij.length = keptCount (unselMask sel 0 cs)) :
    full (sumSel sel cs) ij
      = sumOver sel 0 cs (expandIdx (unselMask sel 0 cs) ij) (fun r => full cs r) := by
  have hne : cs ≠ [] := by rintro rfl; simp [unselMask] at hsome
  have hm := sumSel_mask sel cs hne
  rw [if_pos hsome] at hm
  have := sumSel_full sel cs ij (by rw [hm]; exact hij)
  rw [hm] at this
  exact this

/-- **value of `x.sum(all modes as a list)`**: the single remaining entry is the sum of all entries
    (the index list fed to `sumOver` consists of dummies only) -/
theorem sumSel_full_all (sel : Nat → Bool) (cs : List (Core α)) (x : Nat × Nat) (hne : cs ≠ [])
    (hall : (unselMask sel 0 cs).any id = false) :
    full (sumSel sel cs) [x]
      = sumOver sel 0 cs (expandIdx (List.replicate (cs.length - 1) false ++ [true]) [x])
          (fun r => full cs r) := by
  have hm := sumSel_mask sel cs hne
  rw [if_neg (by simp [hall])] at hm
  have hcount : keptCount (List.replicate (cs.length - 1) false ++ [true]) = 1 := by
    simp [keptCount, List.count_replicate]
  have := sumSel_full sel cs [x] (by rw [hm, hcount]; rfl)
  rw [hm] at this
  exact this

/-- the result of `x.sum(index)` is a well-formed train -/
theorem sumSel_WF (sel : Nat → Bool) (cs : List (Core α)) (hw : WF cs 1) :
    WF (sumSel sel cs) 1 := by
  unfold sumSel
  apply WF_reduceDims
  have : ∀ (cs : List (Core α)) (p r : Nat), WF cs r → WF (mapSel sumModeCore sel p cs) r := by
    intro cs
    induction cs with
    | nil => intro p r h; exact h
    | cons c cs ih =>
      intro p r h
      simp only [mapSel]
      split_ifs
      · exact ⟨h.1, ih (p+1) c.r1 h.2⟩
      · exact ⟨h.1, ih (p+1) c.r1 h.2⟩
  exact this cs 0 1 hw

/-- **shape of `x.sum(index)`**: the modes of the unsummed positions, in order (all modes summed:
    one mode of size `1 × 1`) -/
theorem sumSel_modes (sel : Nat → Bool) (cs : List (Core α)) (hne : cs ≠ []) :
    ((unselMask sel 0 cs).any id = true →
      modes (sumSel sel cs) = keepBy (unselMask sel 0 cs) (modes cs)) ∧
    ((unselMask sel 0 cs).any id = false → modes (sumSel sel cs) = [(1, 1)]) := by
  have hm := sumSel_mask sel cs hne
  constructor
  · intro hsome
    rw [if_pos hsome] at hm
    unfold sumSel
    rw [modes_reduceDims, hm, rd_keepBy_unsel]
  · intro hall
    rw [if_neg (by simp [hall])] at hm
    unfold sumSel
    rw [modes_reduceDims, hm]
    have hall' : ∀ (cs : List (Core α)) (p : Nat), (unselMask sel p cs).any id = false →
        modes (mapSel sumModeCore sel p cs) = List.replicate cs.length (1, 1) := by
      intro cs
      induction cs with
      | nil => intro p _; rfl
      | cons c cs ih =>
        intro p h
        simp only [unselMask, List.any_cons, id, Bool.or_eq_false_iff, Bool.not_eq_false'] at h
        simp [mapSel, h.1, modes_cons, sumModeCore, ih (p+1) h.2, List.replicate_succ]
    rw [hall' cs 0 hall]
    have hpos : cs.length = (cs.length - 1) + 1 := by
      have : 0 < cs.length := List.length_pos_iff.mpr hne
      omega
    rw [hpos]
    simpa using rd_keepBy_last (cs.length - 1) (1, 1)

/-- `x.sum()` (all modes, scalar result) is the all-positions instance of the same partial sum -/
theorem sumAll_eq_sumOver (cs : List (Core α)) (hw : WF cs 1) :
    sumAll cs
      = sumOver (fun _ => true) 0 cs (cs.map (fun _ => (0, 0))) (fun r => full cs r) := by
  unfold sumAll
  rw [rd_vecSweep _ _ 1 _ (rd_WF_map_sumMode cs 1 hw) (by simp), sumTo_one, one_mul,
    rd_map_eq_mapSel sumModeCore cs 0]
  exact chain_mapSel_sumMode (fun _ => true) cs 0 _ 0 0 (by simp)

/-! ### non-vacuity and a concrete instance -/

/-- hypotheses are satisfiable: order-3 `Int` train, modes `[2,3,2]`, ranks `[1,2,2,1]`,
    summing modes 0 and 2 leaves one index -/
example : ∃ (cs : List (Core Int)) (sel : Nat → Bool), WF cs 1 ∧ cs ≠ [] ∧
    (unselMask sel 0 cs).any id = true ∧ keptCount (unselMask sel 0 cs) = 1 :=
  ⟨[⟨1, 2, 1, 2, fun _ i _ b => (i + b : Int)⟩, ⟨2, 3, 1, 2, fun a i _ b => (a * i + b : Int)⟩,
    ⟨2, 2, 1, 1, fun a i _ _ => (a + i : Int)⟩], fun i => i != 1, by simp [WF], by simp, by decide,
    by decide⟩

/-- all modes summed -/
example : ∃ (cs : List (Core Int)) (sel : Nat → Bool), WF cs 1 ∧ cs ≠ [] ∧
    (unselMask sel 0 cs).any id = false :=
  ⟨[⟨1, 2, 1, 2, fun _ i _ b => (i + b : Int)⟩, ⟨2, 3, 1, 1, fun a i _ _ => (a * i + 1 : Int)⟩],
    fun _ => true, by simp [WF], by simp, by decide⟩

/-- concrete check (this was a defect of the original code, fixed in the repository): summing
    mode 1 of a tensor with modes `[1,3,2]` keeps the genuine size-1 mode 0: shape `[1,2]` -/
theorem sumSel_shape_example :
    modesM (sumSel (fun i => i == 1)
      ([⟨1, 1, 1, 2, fun _ _ _ b => (b + 1 : Int)⟩, ⟨2, 3, 1, 2, fun a i _ b => (a * i + b : Int)⟩,
        ⟨2, 2, 1, 1, fun a i _ _ => (a + i : Int)⟩] : List (Core Int))) = [1, 2] := by
  simp [sumSel, mapSel, reduceDims, reduceGo, modesM, sumModeCore, absorbLeft]

end TT.C07
