import TTProps.C10b
import TTModel.Reshape

/-!
# C10c — `torchtt.reshape` (tensor branch) keeps the row-major entry order whenever QR / SVD reconstruct their input

Model: `TTModel/Reshape.lean` (`mergeC`, `absorb1`, `absorbAll`, `splitStep`, `oneCore`, `reshapeGo`, `reshapeCoresWith`,
`reshapeTTWith`, `reshapeTT`), QR and SVD being ORACLE parameters with the algebraic contract `Exact` only.
All helper names carry the `rs_` prefix.
-/
namespace TT.C10
open TT TT.Decomp TT.Permute TT.Reshape

variable {α : Type} [CommRing α]

set_option linter.unusedSectionVars false
set_option linter.unusedVariables false

/-! ### (0) row-major index arithmetic -/

/-- quotient and remainder are unique -/
theorem rs_divmod_unique {N j x i y : Nat} (hx : x < N) (hy : y < N) (h : j * N + x = i * N + y) :
    j = i ∧ x = y := by
  have h1 : (j * N + x) / N = (i * N + y) / N := by rw [h]
  have h2 : (j * N + x) % N = (i * N + y) % N := by rw [h]
  rw [merge_div hx, merge_div hy] at h1
  rw [merge_mod hx, merge_mod hy] at h2
  exact ⟨h1, h2⟩

theorem rs_prodNat_append (ms ns : List Nat) : prodNat (ms ++ ns) = prodNat ms * prodNat ns := by
  induction ms with
  | nil => simp [dc_prodNat_nil]
  | cons m ms ih => rw [List.cons_append, dc_prodNat_cons, dc_prodNat_cons, ih, Nat.mul_assoc]

/-- `flatIdx` of a concatenation -/
theorem rs_flatIdx_append (ms ns is js : List Nat) (hl : is.length = ms.length) :
    flatIdx (ms ++ ns) (is ++ js) = flatIdx ms is * prodNat ns + flatIdx ns js := by
  induction ms generalizing is with
  | nil =>
    have : is = [] := List.length_eq_zero_iff.mp hl
    subst this
    simp [flatIdx]
  | cons m ms ih =>
    match is, hl with
    | i :: is, hl =>
      simp only [List.cons_append, dc_flatIdx_cons]
      rw [ih is (by simpa using hl), rs_prodNat_append]
      ring

/-- merging two neighbouring modes does not move the flat index -/
theorem rs_flatIdx_merge (a b : Nat) (ns : List Nat) (i j : Nat) (is : List Nat) :
    flatIdx (a * b :: ns) ((i * b + j) :: is) = flatIdx (a :: b :: ns) (i :: j :: is) := by
  simp only [dc_flatIdx_cons, dc_prodNat_cons]
  ring

/-- the literal two-mode instance -/
theorem rs_flatIdx_merge2 (a b i j : Nat) : flatIdx [a * b] [i * b + j] = flatIdx [a, b] [i, j] :=
  rs_flatIdx_merge a b [] i j []

/-- `flatIdx` is injective on in-range multi-indices -/
theorem rs_flatIdx_inj {ns is js : List Nat} (hi : List.Forall₂ (· < ·) is ns) (hj : List.Forall₂ (· < ·) js ns)
    (h : flatIdx ns is = flatIdx ns js) : is = js := by
  induction hi generalizing js with
  | nil => cases hj; rfl
  | @cons i n is' ns' hin hr ih =>
    cases hj with
    | @cons j _ js' _ hjn hr' =>
      rw [dc_flatIdx_cons, dc_flatIdx_cons] at h
      obtain ⟨e1, e2⟩ := rs_divmod_unique (dc_flatIdx_lt hr) (dc_flatIdx_lt hr') h
      rw [e1, ih hr' e2]

/-- all entries positive and product one: all entries are one -/
theorem rs_all_one_of_prod {l : List Nat} (h : ∀ s ∈ l, 0 < s) (hp : prodNat l = 1) : ∀ s ∈ l, s = 1 := by
  induction l with
  | nil => intro s hs; simp at hs
  | cons a l ih =>
    rw [dc_prodNat_cons] at hp
    have h1 : a = 1 := Nat.eq_one_of_mul_eq_one_right hp
    have h2 : prodNat l = 1 := Nat.eq_one_of_mul_eq_one_left hp
    intro s hs
    rcases List.mem_cons.mp hs with rfl | hs
    · exact h1
    · exact ih (fun x hx => h x (by simp [hx])) h2 s hs

theorem rs_flatIdx_ones {l zs : List Nat} (h1 : ∀ s ∈ l, s = 1) (hz : List.Forall₂ (· < ·) zs l) :
    flatIdx l zs = 0 := by
  have := dc_flatIdx_lt hz
  have hp : prodNat l = 1 := by
    clear this hz
    induction l with
    | nil => rfl
    | cons a l ih =>
      rw [dc_prodNat_cons, h1 a (by simp), ih (fun s hs => h1 s (by simp [hs]))]
  omega

/-! ### (1) the single steps of the loop -/

/-- `Reshape.mergeC` is the merge step analysed in C10 -/
theorem rs_mergeC_eq (x y : Core α) : mergeC x y = mergeCore x y := rfl

/-- **merge**: `mergeC` preserves every transfer-matrix product (digit `i * y.m + j`) -/
theorem mergeC_chain (x y : Core α) (rest : List (Core α)) (ijs : List (Nat × Nat)) (i j a b : Nat) (hj : j < y.m) :
    chain (mergeC x y :: rest) ((i * y.m + j, 0) :: ijs) a b = chain (x :: y :: rest) ((i, 0) :: (j, 0) :: ijs) a b :=
  TT.chain_mergeCore x y rest ijs i j a b hj

theorem mergeC_full (x y : Core α) (rest : List (Core α)) (is : List Nat) (i j : Nat) (hj : j < y.m) :
    full (mergeC x y :: rest) (tIdx ((i * y.m + j) :: is)) = full (x :: y :: rest) (tIdx (i :: j :: is)) :=
  TT.full_merge x y rest is i j hj

/-- `fz` applied to the head core changes no in-range transfer-matrix product -/
theorem rs_fz_head_chain (fz : Core α → Core α) (hfz : FzOk fz) (c : Core α) (rest : List (Core α))
    (ijs : List (Nat × Nat)) (i a b : Nat) (ha : a < c.r0) (hi : i < c.m) (hn : c.n = 1) :
    chain (fz c :: rest) ((i, 0) :: ijs) a b = chain (c :: rest) ((i, 0) :: ijs) a b := by
  obtain ⟨_, _, _, h1, hg⟩ := hfz c
  simp only [chain]
  rw [h1]
  apply sumTo_congr
  intro k hk
  rw [hg a i 0 k ha hi (by rw [hn]; exact Nat.one_pos) hk]

/-- **split**: with `U·W = M` the two cores produced by `splitStep` multiply to the working core, the digit of the
working mode being `i₁ * s₂ + i₂` (`s₂ = cur.m / t`) -/
theorem splitStep_chain (svd : Oracle α) (hsvd : Exact svd) (cur : Core α) (t i1 i2 a b : Nat)
    (hi1 : i1 < t) (hi2 : i2 < cur.m / t) (ha : a < cur.r0) (hb : b < cur.r1) :
    sumTo (splitStep svd cur t).1.r1
        (fun k => (splitStep svd cur t).1.get a i1 0 k * (splitStep svd cur t).2.get k i2 0 b)
      = cur.get a (i1 * (cur.m / t) + i2) 0 b := by
  have e := hsvd (cur.r0 * t) (cur.m / t * cur.r1)
    (fun p q => cur.get (p / t) ((p % t) * (cur.m / t) + q / cur.r1) 0 (q % cur.r1))
    (a * t + i1) (i2 * cur.r1 + b) (dc_merge_lt ha hi1) (dc_merge_lt hi2 hb)
  simp only [merge_div hi1, merge_mod hi1, merge_div hb, merge_mod hb] at e
  exact e

theorem splitStep_shape (svd : Oracle α) (cur : Core α) (t : Nat) :
    (splitStep svd cur t).1.r0 = cur.r0 ∧ (splitStep svd cur t).1.m = t ∧ (splitStep svd cur t).1.n = 1 ∧
    (splitStep svd cur t).1.r1 = (splitStep svd cur t).2.r0 ∧
    (splitStep svd cur t).2.m = cur.m / t ∧ (splitStep svd cur t).2.n = 1 ∧ (splitStep svd cur t).2.r1 = cur.r1 :=
  ⟨rfl, rfl, rfl, rfl, rfl, rfl, rfl⟩

/-- **absorb**: `absorb1` is the merge with a core whose mode has size 1 (digit `0`) -/
theorem absorb1_chain (c y : Core α) (rest : List (Core α)) (ijs : List (Nat × Nat)) (i a b : Nat) :
    chain (absorb1 c y :: rest) ((i, 0) :: ijs) a b = chain (c :: y :: rest) ((i, 0) :: (0, 0) :: ijs) a b := by
  simp only [chain, absorb1]
  exact (dc_sumTo_assoc c.r1 y.r1 (fun k => c.get a i 0 k) (fun k l => y.get k 0 0 l)
    (fun l => chain rest ijs l b)).symm

theorem absorb1_full (c y : Core α) (rest : List (Core α)) (is : List Nat) (i : Nat) :
    full (absorb1 c y :: rest) (tIdx (i :: is)) = full (c :: y :: rest) (tIdx (i :: 0 :: is)) :=
  absorb1_chain c y rest (tIdx is) i 0 0

/-- the trailing loop: all remaining cores carry a mode of size 1 and are absorbed -/
theorem absorbAll_chain : ∀ (rest : List (Core α)) (cur : Core α) (zs : List Nat) (i a b : Nat),
    (∀ y ∈ rest, y.m = 1) → List.Forall₂ (· < ·) zs (modesM rest) →
    chain [absorbAll cur rest] [(i, 0)] a b = chain (cur :: rest) ((i, 0) :: tIdx zs) a b := by
  intro rest
  induction rest with
  | nil =>
    intro cur zs i a b _ hz
    cases hz
    rfl
  | cons y ys ih =>
    intro cur zs i a b h1 hz
    simp only [modesM, List.map_cons] at hz
    cases hz with
    | @cons z _ zs' _ hz1 hz' =>
      have hy : y.m = 1 := h1 y (by simp)
      have hz0 : z = 0 := by omega
      subst hz0
      rw [absorbAll, if_pos hy, ih (absorb1 cur y) zs' i a b (fun x hx => h1 x (by simp [hx])) hz']
      exact absorb1_chain cur y ys (tIdx zs') i a b

theorem absorbAll_full (rest : List (Core α)) (cur : Core α) (zs : List Nat) (i : Nat)
    (h1 : ∀ y ∈ rest, y.m = 1) (hz : List.Forall₂ (· < ·) zs (modesM rest)) :
    full [absorbAll cur rest] (tIdx [i]) = full (cur :: rest) (tIdx (i :: zs)) :=
  absorbAll_chain rest cur zs i 0 0 h1 hz

theorem rs_absorbAll_shape : ∀ (rest : List (Core α)) (cur : Core α) (r : Nat),
    (∀ y ∈ rest, y.m = 1) → WF (cur :: rest) r → cur.n = 1 →
    WF [absorbAll cur rest] r ∧ (absorbAll cur rest).m = cur.m ∧ (absorbAll cur rest).n = 1 := by
  intro rest
  induction rest with
  | nil => intro cur r _ hwf hn; exact ⟨hwf, rfl, hn⟩
  | cons y ys ih =>
    intro cur r h1 hwf hn
    have hy : y.m = 1 := h1 y (by simp)
    rw [absorbAll, if_pos hy]
    obtain ⟨h0, _, hw⟩ := hwf
    exact ih (absorb1 cur y) r (fun x hx => h1 x (by simp [hx])) ⟨h0, hw⟩ rfl

/-- **trailing ones**: cores `ones((1,1,1))` contribute the factor `1` -/
theorem oneCore_chain : ∀ (l : List Nat) (ijs : List (Nat × Nat)), ijs.length = l.length →
    chain (l.map (fun _ => (oneCore : Core α))) ijs 0 0 = 1 := by
  intro l
  induction l with
  | nil => intro ijs _; rfl
  | cons x l ih =>
    intro ijs hl
    match ijs, hl with
    | ij :: ijs, hl =>
      simp only [List.map_cons, chain]
      show sumTo 1 (fun k => (1 : α) * chain (l.map (fun _ => (oneCore : Core α))) ijs k 0) = 1
      rw [sumTo_one, ih ijs (by simpa using hl), one_mul]

theorem rs_ones_WF (l : List Nat) : WF (l.map (fun _ => (oneCore : Core α))) 1 := by
  induction l with
  | nil => rfl
  | cons x l ih => exact ⟨rfl, ih⟩

theorem rs_ones_isTensor (l : List Nat) : IsTensor (l.map (fun _ => (oneCore : Core α))) := by
  induction l with
  | nil => trivial
  | cons x l ih => exact ⟨rfl, ih⟩

theorem rs_ones_modes (l : List Nat) (h1 : ∀ s ∈ l, s = 1) : modesM (l.map (fun _ => (oneCore : Core α))) = l := by
  induction l with
  | nil => rfl
  | cons x l ih =>
    simp only [modesM, List.map_cons] at ih ⊢
    rw [ih (fun s hs => h1 s (by simp [hs])), h1 x (by simp)]
    rfl

/-! ### (2) what the loop owes, and how each branch pays it -/

/-- specification of the remaining output `out'` of the loop in state (`cur`, `rest`, `dst`): ranks chain from
`cur.r0`, tensor cores, the modes are the target modes still to be produced, and every row of the product of transfer
matrices agrees with the one of `cur :: rest` at index lists with the same row-major flat position -/
def rs_Spec (cur : Core α) (rest : List (Core α)) (dst : List Nat) (out' : List (Core α)) : Prop :=
  WF out' cur.r0 ∧ IsTensor out' ∧ modesM out' = dst ∧
  ∀ (a : Nat) (is js : List Nat), a < cur.r0 → List.Forall₂ (· < ·) is (cur.m :: modesM rest) →
    List.Forall₂ (· < ·) js dst → flatIdx dst js = flatIdx (cur.m :: modesM rest) is →
    chain out' (tIdx js) a 0 = chain (cur :: rest) (tIdx is) a 0

theorem rs_prod_ones {l : List Nat} (h1 : ∀ s ∈ l, s = 1) : prodNat l = 1 := by
  induction l with
  | nil => rfl
  | cons a l ih => rw [dc_prodNat_cons, h1 a (by simp), ih (fun s hs => h1 s (by simp [hs]))]

theorem rs_emit_eq {m t : Nat} (hm : 0 < m) (hdiv : m % t = 0) (hng : ¬ m / t > 1) : m = t := by
  have h3 := Nat.div_add_mod m t
  rw [hdiv] at h3
  generalize m / t = d at h3 hng
  have hd : d = 0 ∨ d = 1 := by omega
  rcases hd with rfl | rfl
  · simp at h3; omega
  · simp at h3; omega

theorem rs_split_eq {m t : Nat} (hdiv : m % t = 0) : m = t * (m / t) :=
  (Nat.mul_div_cancel' (Nat.dvd_of_mod_eq_zero hdiv)).symm

/-- merge branch -/
theorem rs_spec_merge (fz : Core α → Core α) (hfz : FzOk fz) (cur c : Core α) (rest' : List (Core α))
    (dst : List Nat) (out' : List (Core α))
    (h : rs_Spec (fz (mergeC cur c)) rest' dst out') : rs_Spec cur (c :: rest') dst out' := by
  obtain ⟨hF0, hFm, _, _, _⟩ := hfz (mergeC cur c)
  have e0 : (fz (mergeC cur c)).r0 = cur.r0 := hF0
  have em : (fz (mergeC cur c)).m = cur.m * c.m := hFm
  obtain ⟨hw, ht, hm, hc⟩ := h
  rw [e0] at hw
  rw [e0, em] at hc
  refine ⟨hw, ht, hm, ?_⟩
  intro a is js ha his hjs hfl
  cases his with
  | @cons q _ is1 _ hq his1 =>
    simp only [modesM, List.map_cons] at his1
    cases his1 with
    | @cons q' _ ts _ hq' hts =>
      have hmq : q * c.m + q' < cur.m * c.m := dc_merge_lt hq hq'
      rw [hc a ((q * c.m + q') :: ts) js ha (List.Forall₂.cons hmq hts) hjs
        (hfl.trans (rs_flatIdx_merge cur.m c.m _ q q' ts).symm)]
      show chain (fz (mergeC cur c) :: rest') ((q * c.m + q', 0) :: tIdx ts) a 0 = _
      rw [rs_fz_head_chain fz hfz (mergeC cur c) rest' (tIdx ts) (q * c.m + q') a 0 ha hmq rfl]
      exact mergeC_chain cur c rest' (tIdx ts) q q' a 0 hq'

/-- emit branch (more cores and more target modes to go) -/
theorem rs_spec_emit (cur c : Core α) (rest' : List (Core α)) (dst' : List Nat) (out'' : List (Core α)) (t : Nat)
    (hcm : cur.m = t) (hr : c.r0 = cur.r1) (hn : cur.n = 1)
    (hp' : prodNat dst' = prodNat (c.m :: modesM rest'))
    (h : rs_Spec c rest' dst' out'') : rs_Spec cur (c :: rest') (t :: dst') (cur :: out'') := by
  obtain ⟨hw, ht, hm, hc⟩ := h
  refine ⟨⟨rfl, hr ▸ hw⟩, ⟨hn, ht⟩, ?_, ?_⟩
  · show cur.m :: modesM out'' = t :: dst'
    rw [hcm, hm]
  · intro a is js ha his hjs hfl
    cases his with
    | @cons q _ is1 _ hq his1 =>
      cases hjs with
      | @cons j _ js' _ hj hjs' =>
        have his1' : List.Forall₂ (· < ·) is1 (c.m :: modesM rest') := his1
        rw [dc_flatIdx_cons] at hfl
        have hfl' : j * prodNat dst' + flatIdx dst' js'
            = q * prodNat dst' + flatIdx (c.m :: modesM rest') is1 := by
          rw [hfl, hp']; rfl
        have hlt := dc_flatIdx_lt his1'
        rw [← hp'] at hlt
        obtain ⟨e1, e2⟩ := rs_divmod_unique (dc_flatIdx_lt hjs') hlt hfl'
        subst e1
        show sumTo cur.r1 (fun k => cur.get a j 0 k * chain out'' (tIdx js') k 0)
          = sumTo cur.r1 (fun k => cur.get a j 0 k * chain (c :: rest') (tIdx is1) k 0)
        apply sumTo_congr
        intro k hk
        rw [hc k is1 js' (by rw [hr]; exact hk) his1' hjs' e2]

/-- emit branch, all source cores consumed: trailing `ones((1,1,1))` -/
theorem rs_spec_last (cur : Core α) (dst' : List Nat) (t : Nat)
    (hcm : cur.m = t) (hr1 : cur.r1 = 1) (hn : cur.n = 1) (h1 : ∀ s ∈ dst', s = 1) :
    rs_Spec cur [] (t :: dst') (cur :: dst'.map (fun _ => oneCore)) := by
  refine ⟨⟨rfl, ?_⟩, ⟨hn, rs_ones_isTensor dst'⟩, ?_, ?_⟩
  · rw [hr1]; exact rs_ones_WF dst'
  · show cur.m :: modesM (dst'.map (fun _ => (oneCore : Core α))) = t :: dst'
    rw [hcm, rs_ones_modes dst' h1]
  · intro a is js ha his hjs hfl
    cases his with
    | @cons q _ is1 _ hq his1 =>
      cases his1
      cases hjs with
      | @cons j _ js' _ hj hjs' =>
        rw [dc_flatIdx_cons, dc_flatIdx_cons, rs_prod_ones h1, rs_flatIdx_ones h1 hjs'] at hfl
        have e1 : j = q := by
          simp only [modesM, List.map_nil, dc_prodNat_nil, flatIdx] at hfl
          omega
        subst e1
        have hlen : (tIdx js').length = dst'.length := by simp [tIdx, hjs'.length_eq]
        show sumTo cur.r1 (fun k => cur.get a j 0 k * chain (dst'.map (fun _ => (oneCore : Core α))) (tIdx js') k 0)
          = sumTo cur.r1 (fun k => cur.get a j 0 k * (if k = 0 then 1 else 0))
        rw [hr1, sumTo_one, sumTo_one, oneCore_chain dst' (tIdx js') hlen]
        simp

/-- emit branch, target exhausted: the remaining size-1 cores are absorbed -/
theorem rs_spec_absorb (fz : Core α → Core α) (hfz : FzOk fz) (cur : Core α) (rest : List (Core α)) (t : Nat)
    (hcm : cur.m = t) (hwf : WF rest cur.r1) (hn : cur.n = 1) (h1 : ∀ y ∈ rest, y.m = 1) :
    rs_Spec cur rest [t] [fz (absorbAll cur rest)] := by
  obtain ⟨⟨hX0, hX1⟩, hXm, hXn⟩ := rs_absorbAll_shape rest cur cur.r0 h1 ⟨rfl, hwf⟩ hn
  obtain ⟨hF0, hFm, hFn, hF1, _⟩ := hfz (absorbAll cur rest)
  have h1' : ∀ s ∈ modesM rest, s = 1 := by
    intro s hs
    obtain ⟨y, hy, rfl⟩ := List.mem_map.mp hs
    exact h1 y hy
  refine ⟨⟨hF0.trans hX0, ?_⟩, ⟨hFn.trans hXn, trivial⟩, ?_, ?_⟩
  · rw [hF1]; exact hX1
  · show [(fz (absorbAll cur rest)).m] = [t]
    rw [hFm, hXm, hcm]
  · intro a is js ha his hjs hfl
    cases his with
    | @cons q _ zs _ hq hzs =>
      cases hjs with
      | @cons j _ js' _ hj hjs' =>
        cases hjs'
        rw [dc_flatIdx_cons, dc_flatIdx_cons, rs_prod_ones h1', rs_flatIdx_ones h1' hzs] at hfl
        have e1 : j = q := by
          simp only [dc_prodNat_nil, flatIdx] at hfl
          omega
        subst e1
        show chain [fz (absorbAll cur rest)] [(j, 0)] a 0 = _
        rw [rs_fz_head_chain fz hfz (absorbAll cur rest) [] [] j a 0 (by rw [hX0]; exact ha)
          (by rw [hXm]; exact hq) hXn]
        exact absorbAll_chain rest cur zs j a 0 h1 hzs

/-- split branch -/
theorem rs_spec_split (svd : Oracle α) (hsvd : Exact svd) (fz : Core α → Core α) (hfz : FzOk fz) (cur : Core α)
    (rest : List (Core α)) (dst' : List Nat) (out'' : List (Core α)) (t : Nat) (hdiv : cur.m % t = 0)
    (hp' : prodNat dst' = cur.m / t * prodNat (modesM rest))
    (h : rs_Spec (fz (splitStep svd cur t).2) rest dst' out'') :
    rs_Spec cur rest (t :: dst') (fz (splitStep svd cur t).1 :: out'') := by
  obtain ⟨hA0, hAm, hAn, hA1, hAg⟩ := hfz (splitStep svd cur t).1
  obtain ⟨hB0, hBm, hBn, hB1, hBg⟩ := hfz (splitStep svd cur t).2
  have eB0 : (fz (splitStep svd cur t).2).r0 = (splitStep svd cur t).1.r1 := hB0
  have eBm : (fz (splitStep svd cur t).2).m = cur.m / t := hBm
  obtain ⟨hw, ht, hm, hc⟩ := h
  rw [eB0] at hw
  rw [eB0, eBm] at hc
  refine ⟨⟨hA0, ?_⟩, ⟨hAn, ht⟩, ?_, ?_⟩
  · rw [hA1]; exact hw
  · show (fz (splitStep svd cur t).1).m :: modesM out'' = t :: dst'
    rw [hAm, hm]; rfl
  · intro a is js ha his hjs hfl
    cases his with
    | @cons q _ ts _ hq hts =>
      cases hjs with
      | @cons j _ js' _ hj hjs' =>
        have hcm : cur.m = t * (cur.m / t) := rs_split_eq hdiv
        generalize hs2 : cur.m / t = s2 at hp' hc hcm
        have hs2pos : 0 < s2 := by
          rcases Nat.eq_zero_or_pos s2 with h0 | h0
          · rw [h0] at hcm; omega
          · exact h0
        obtain ⟨i1, i2, hi2, hq'⟩ : ∃ i1 i2, i2 < s2 ∧ q = i1 * s2 + i2 :=
          ⟨q / s2, q % s2, Nat.mod_lt _ hs2pos, by
            have := Nat.div_add_mod q s2
            rw [Nat.mul_comm] at this
            exact this.symm⟩
        subst hq'
        have hi1 : i1 < t := by
          by_contra hge
          have : t * s2 ≤ i1 * s2 := Nat.mul_le_mul_right _ (by omega)
          omega
        rw [dc_flatIdx_cons, dc_flatIdx_cons, hp'] at hfl
        have hfl' : j * (s2 * prodNat (modesM rest)) + flatIdx dst' js'
            = i1 * (s2 * prodNat (modesM rest)) + (i2 * prodNat (modesM rest) + flatIdx (modesM rest) ts) := by
          rw [hfl]; ring
        have hlt1 : flatIdx dst' js' < s2 * prodNat (modesM rest) := by
          rw [← hp']; exact dc_flatIdx_lt hjs'
        obtain ⟨e1, e2⟩ := rs_divmod_unique hlt1 (dc_merge_lt hi2 (dc_flatIdx_lt hts)) hfl'
        subst e1
        have hin : List.Forall₂ (· < ·) (i2 :: ts) (s2 :: modesM rest) := List.Forall₂.cons hi2 hts
        show sumTo (fz (splitStep svd cur t).1).r1
            (fun k => (fz (splitStep svd cur t).1).get a j 0 k * chain out'' (tIdx js') k 0)
          = sumTo cur.r1 (fun b => cur.get a (j * s2 + i2) 0 b * chain rest (tIdx ts) b 0)
        rw [hA1]
        rw [sumTo_congr (g := fun k => (splitStep svd cur t).1.get a j 0 k *
              sumTo cur.r1 (fun b => (splitStep svd cur t).2.get k i2 0 b * chain rest (tIdx ts) b 0))
          (fun k hk => by
            rw [hAg a j 0 k ha hj Nat.one_pos hk, hc k (i2 :: ts) js' hk hin hjs' e2]
            congr 1
            show chain (fz (splitStep svd cur t).2 :: rest) ((i2, 0) :: tIdx ts) k 0 = _
            rw [rs_fz_head_chain fz hfz (splitStep svd cur t).2 rest (tIdx ts) i2 k 0 hk
              (by show i2 < cur.m / t; rw [hs2]; exact hi2) rfl]
            rfl)]
        refine (dc_sumTo_assoc _ cur.r1 (fun k => (splitStep svd cur t).1.get a j 0 k)
          (fun k b => (splitStep svd cur t).2.get k i2 0 b) (fun b => chain rest (tIdx ts) b 0)).trans ?_
        apply sumTo_congr
        intro b hb
        show sumTo (splitStep svd cur t).1.r1 (fun k => (splitStep svd cur t).1.get a j 0 k *
          (splitStep svd cur t).2.get k i2 0 b) * _ = _
        rw [splitStep_chain svd hsvd cur t j i2 a b hj (by rw [hs2]; exact hi2) ha hb, hs2]

/-! ### (3) the loop -/

theorem rs_mem_modes {rest : List (Core α)} {P : Nat → Prop} (h : ∀ s ∈ modesM rest, P s) : ∀ y ∈ rest, P y.m :=
  fun y hy => h y.m (List.mem_map_of_mem hy)

/-- **loop invariant of `reshape`**: whatever the fuel, if the loop returns it returns the cores already produced
followed by cores that represent `cur :: rest` in the target modes, row-major order kept -/
theorem rs_reshapeGo_spec (svd : Oracle α) (hsvd : Exact svd) (fz : Core α → Core α) (hfz : FzOk fz) :
    ∀ (fuel : Nat) (cur : Core α) (rest : List (Core α)) (dst : List Nat) (acc out : List (Core α)),
      dst ≠ [] → WF rest cur.r1 → cur.n = 1 → IsTensor rest → 0 < cur.m → (∀ s ∈ modesM rest, 0 < s) →
      (∀ t ∈ dst, 0 < t) → prodNat dst = cur.m * prodNat (modesM rest) →
      reshapeGo svd fz fuel cur rest dst acc = some out →
      ∃ out', out = acc.reverse ++ out' ∧ rs_Spec cur rest dst out' := by
  intro fuel
  induction fuel with
  | zero => intro cur rest dst acc out _ _ _ _ _ _ _ _ h; simp [reshapeGo] at h
  | succ fuel ih =>
    intro cur rest dst acc out hne hwf hn hten hm hrpos hdpos hp h
    cases dst with
    | nil => exact absurd rfl hne
    | cons t dst' =>
      have ht0 : 0 < t := hdpos t (by simp)
      have hdpos' : ∀ s ∈ dst', 0 < s := fun s hs => hdpos s (by simp [hs])
      rw [dc_prodNat_cons] at hp
      simp only [reshapeGo] at h
      split at h
      · rename_i hcond
        have hdiv : cur.m % t = 0 := hcond.2
        split at h
        · -- split
          rename_i hgt
          have hcm := rs_split_eq hdiv
          have hp' : prodNat dst' = cur.m / t * prodNat (modesM rest) := by
            apply Nat.eq_of_mul_eq_mul_left ht0
            rw [hp, ← Nat.mul_assoc, ← hcm]
          cases dst' with
          | nil => simp at h
          | cons t2 dst2 =>
            simp only at h
            obtain ⟨out'', ho, hs⟩ := ih (fz (splitStep svd cur t).2) rest (t2 :: dst2)
              (fz (splitStep svd cur t).1 :: acc) out (by simp)
              (by rw [(hfz _).2.2.2.1]; exact hwf) ((hfz _).2.2.1.trans rfl) hten
              (by rw [(hfz _).2.1]; show 0 < cur.m / t; omega) hrpos hdpos'
              (by rw [(hfz _).2.1]; exact hp') h
            refine ⟨fz (splitStep svd cur t).1 :: out'', ?_, ?_⟩
            · rw [ho]; simp
            · exact rs_spec_split svd hsvd fz hfz cur rest (t2 :: dst2) out'' t hdiv hp' hs
        · -- emit
          rename_i hng
          have hcm : cur.m = t := rs_emit_eq hm hdiv hng
          have hp' : prodNat dst' = prodNat (modesM rest) := by
            apply Nat.eq_of_mul_eq_mul_left ht0
            rw [hp, hcm]
          cases rest with
          | nil =>
            simp only [Option.some.injEq] at h
            have h1 : ∀ s ∈ dst', s = 1 := rs_all_one_of_prod hdpos' (by rw [hp']; rfl)
            refine ⟨cur :: dst'.map (fun _ => oneCore), ?_, rs_spec_last cur dst' t hcm hwf hn h1⟩
            rw [← h]; simp
          | cons c rest' =>
            cases dst' with
            | nil =>
              simp only [Option.some.injEq] at h
              have h1 : ∀ s ∈ modesM (c :: rest'), s = 1 := rs_all_one_of_prod hrpos (by rw [← hp']; rfl)
              refine ⟨[fz (absorbAll cur (c :: rest'))], ?_,
                rs_spec_absorb fz hfz cur (c :: rest') t hcm hwf hn (rs_mem_modes h1)⟩
              rw [← h]; simp
            | cons t2 dst2 =>
              simp only at h
              have hp'' : prodNat (t2 :: dst2) = c.m * prodNat (modesM rest') := by
                rw [hp']; exact dc_prodNat_cons _ _
              obtain ⟨out'', ho, hs⟩ := ih c rest' (t2 :: dst2) (cur :: acc) out (by simp) hwf.2 hten.1 hten.2
                (hrpos c.m (by simp [modesM])) (fun s hs => hrpos s (by simp [modesM] at hs ⊢; exact Or.inr hs))
                hdpos' hp'' h
              refine ⟨cur :: out'', ?_, ?_⟩
              · rw [ho]; simp
              · exact rs_spec_emit cur c rest' (t2 :: dst2) out'' t hcm hwf.1 hn hp' hs
      · -- merge
        cases rest with
        | nil => simp at h
        | cons c rest' =>
          simp only at h
          have hcpos : 0 < c.m := hrpos c.m (by simp [modesM])
          obtain ⟨out', ho, hs⟩ := ih (fz (mergeC cur c)) rest' (t :: dst') acc out (by simp)
            (by rw [(hfz _).2.2.2.1]; exact hwf.2) ((hfz _).2.2.1.trans rfl) hten.2
            (by rw [(hfz _).2.1]; exact Nat.mul_pos hm hcpos)
            (fun s hs => hrpos s (by simp [modesM] at hs ⊢; exact Or.inr hs)) hdpos
            (by
              rw [(hfz _).2.1, dc_prodNat_cons, hp]
              show cur.m * prodNat (c.m :: modesM rest') = cur.m * c.m * prodNat (modesM rest')
              rw [dc_prodNat_cons, Nat.mul_assoc]) h
          exact ⟨out', ho, rs_spec_merge fz hfz cur c rest' (t :: dst') out' hs⟩

/-- totality of the loop: the `none` branches are excluded by the element counts and the fuel suffices -/
theorem rs_reshapeGo_total (svd : Oracle α) (fz : Core α → Core α) (hfz : FzOk fz) :
    ∀ (fuel : Nat) (cur : Core α) (rest : List (Core α)) (dst : List Nat) (acc : List (Core α)),
      rest.length + dst.length < fuel → 0 < cur.m → (∀ s ∈ modesM rest, 0 < s) → (∀ t ∈ dst, 0 < t) →
      prodNat dst = cur.m * prodNat (modesM rest) →
      ∃ out, reshapeGo svd fz fuel cur rest dst acc = some out := by
  intro fuel
  induction fuel with
  | zero => intro cur rest dst acc hf; omega
  | succ fuel ih =>
    intro cur rest dst acc hf hm hrpos hdpos hp
    cases dst with
    | nil => exact ⟨acc.reverse, by simp [reshapeGo]⟩
    | cons t dst' =>
      have ht0 : 0 < t := hdpos t (by simp)
      have hdpos' : ∀ s ∈ dst', 0 < s := fun s hs => hdpos s (by simp [hs])
      rw [dc_prodNat_cons] at hp
      simp only [reshapeGo]
      split
      · rename_i hcond
        have hdiv : cur.m % t = 0 := hcond.2
        split
        · rename_i hgt
          have hcm := rs_split_eq hdiv
          have hp' : prodNat dst' = cur.m / t * prodNat (modesM rest) := by
            apply Nat.eq_of_mul_eq_mul_left ht0
            rw [hp, ← Nat.mul_assoc, ← hcm]
          cases dst' with
          | nil =>
            exfalso
            rw [dc_prodNat_nil] at hp'
            have := Nat.eq_one_of_mul_eq_one_right hp'.symm
            omega
          | cons t2 dst2 =>
            simp only
            apply ih
            · simp only [List.length_cons] at hf ⊢; omega
            · rw [(hfz _).2.1]; show 0 < cur.m / t; omega
            · exact hrpos
            · exact hdpos'
            · rw [(hfz _).2.1]; exact hp'
        · rename_i hng
          have hcm : cur.m = t := rs_emit_eq hm hdiv hng
          have hp' : prodNat dst' = prodNat (modesM rest) := by
            apply Nat.eq_of_mul_eq_mul_left ht0
            rw [hp, hcm]
          cases rest with
          | nil => exact ⟨_, rfl⟩
          | cons c rest' =>
            cases dst' with
            | nil => exact ⟨_, rfl⟩
            | cons t2 dst2 =>
              simp only
              apply ih
              · simp only [List.length_cons] at hf ⊢; omega
              · exact hrpos c.m (by simp [modesM])
              · exact fun s hs => hrpos s (by simp [modesM] at hs ⊢; exact Or.inr hs)
              · exact hdpos'
              · rw [hp']; exact dc_prodNat_cons _ _
      · rename_i hcond
        cases rest with
        | nil =>
          exfalso
          apply hcond
          refine ⟨by omega, ?_⟩
          have : cur.m = t * prodNat dst' := by
            rw [hp]; simp [modesM, dc_prodNat_nil]
          rw [this]; exact Nat.mul_mod_right t _
        | cons c rest' =>
          simp only
          have hcpos : 0 < c.m := hrpos c.m (by simp [modesM])
          apply ih
          · simp only [List.length_cons] at hf ⊢; omega
          · rw [(hfz _).2.1]; exact Nat.mul_pos hm hcpos
          · exact fun s hs => hrpos s (by simp [modesM] at hs ⊢; exact Or.inr hs)
          · exact hdpos
          · rw [(hfz _).2.1, dc_prodNat_cons, hp]
            show cur.m * prodNat (c.m :: modesM rest') = cur.m * c.m * prodNat (modesM rest')
            rw [dc_prodNat_cons, Nat.mul_assoc]

/-! ### (4) `reshape` -/

theorem rs_map_fz_isTensor (fz : Core α → Core α) (hfz : FzOk fz) :
    ∀ L : List (Core α), IsTensor L → IsTensor (L.map fz) := by
  intro L
  induction L with
  | nil => intro _; trivial
  | cons c L ih => intro h; exact ⟨(hfz c).2.2.1.trans h.1, ih h.2⟩

/-- the loop preceded by the gauge sweep (before the final rounding) -/
theorem reshapeCores_full (fz : Core α → Core α) (hfz : FzOk fz) (qr svd : Oracle α) (hqr : Exact qr)
    (hsvd : Exact svd) (dst : List Nat) (cs r : List (Core α)) (hne : dst ≠ []) (hwf : WF cs 1) (ht : IsTensor cs)
    (hspos : ∀ s ∈ modesM cs, 0 < s) (hdpos : ∀ t ∈ dst, 0 < t) (hp : prodNat dst = prodNat (modesM cs))
    (h : reshapeCoresWith fz qr svd dst cs = some r) :
    WF r 1 ∧ IsTensor r ∧ modesM r = dst ∧
    ∀ is js, List.Forall₂ (· < ·) is (modesM cs) → List.Forall₂ (· < ·) js dst →
      flatIdx dst js = flatIdx (modesM cs) is → full r (tIdx js) = full cs (tIdx is) := by
  have hwf1 : WF (rlOrth qr cs) 1 := rlOrth_WF qr cs 1 hwf
  have hL1 : WF ((rlOrth qr cs).map fz) 1 := pm_map_fz_WF fz hfz _ 1 hwf1
  have hL2 : IsTensor ((rlOrth qr cs).map fz) := rs_map_fz_isTensor fz hfz _ (rlOrth_isTensor qr cs ht)
  have hL3 : modesM ((rlOrth qr cs).map fz) = modesM cs := by rw [pm_map_fz_modes fz hfz, rlOrth_modes]
  have hL4 : ∀ is, List.Forall₂ (· < ·) is (modesM cs) →
      chain ((rlOrth qr cs).map fz) (tIdx is) 0 0 = full cs (tIdx is) := by
    intro is his
    rw [pm_map_fz_chain fz hfz _ is 1 0 hwf1 (rlOrth_isTensor qr cs ht) (by rw [rlOrth_modes]; exact his)
      Nat.one_pos]
    exact rlOrth_full qr hqr cs is hwf his
  unfold reshapeCoresWith at h
  generalize (rlOrth qr cs).map fz = L at h hL1 hL2 hL3 hL4
  cases L with
  | nil => simp at h
  | cons c rest =>
    simp only at h
    have hm : modesM cs = c.m :: modesM rest := hL3.symm
    rw [hm] at hspos hp
    obtain ⟨out', ho, hw, hten, hmod, hc⟩ := rs_reshapeGo_spec svd hsvd fz hfz _ c rest dst [] r hne hL1.2 hL2.1 hL2.2
      (hspos c.m (by simp)) (fun s hs => hspos s (by simp [hs])) hdpos (by rw [hp, dc_prodNat_cons]) h
    simp only [List.reverse_nil, List.nil_append] at ho
    subst ho
    rw [hL1.1] at hw hc
    refine ⟨hw, hten, hmod, ?_⟩
    intro is js his hjs hfl
    rw [← hL4 is his]
    rw [hm] at his hfl
    exact hc 0 is js Nat.one_pos his hjs hfl

/-- **MAIN THEOREM — `reshape` keeps the row-major entry order.**  With exact QR / SVD oracles and a
representation-normalising `fz`, for a well-formed tensor train `cs` with positive modes and a non-empty target shape
`dst` of positive modes with the same element count: whenever `reshape` returns, the result is a well-formed tensor train
with modes `dst` (a) whose entry at `js` is the entry of `cs` at the multi-index `is` with the same flat position (b). -/
theorem reshapeTT_full (fz : Core α → Core α) (hfz : FzOk fz) (qr svd : Oracle α) (hqr : Exact qr)
    (hsvd : Exact svd) (dst : List Nat) (cs out : List (Core α)) (hne : dst ≠ []) (hwf : WF cs 1) (ht : IsTensor cs)
    (hspos : ∀ s ∈ modesM cs, 0 < s) (hdpos : ∀ t ∈ dst, 0 < t) (hp : prodNat dst = prodNat (modesM cs))
    (h : reshapeTTWith fz qr svd dst cs = some out) :
    (WF out 1 ∧ IsTensor out ∧ modesM out = dst) ∧
    ∀ is js, List.Forall₂ (· < ·) is (modesM cs) → List.Forall₂ (· < ·) js dst →
      flatIdx dst js = flatIdx (modesM cs) is → full out (tIdx js) = full cs (tIdx is) := by
  unfold reshapeTTWith at h
  obtain ⟨r, hr, ho⟩ := Option.map_eq_some_iff.mp h
  subst ho
  obtain ⟨hw, hten, hmod, hc⟩ := reshapeCores_full fz hfz qr svd hqr hsvd dst cs r hne hwf ht hspos hdpos hp hr
  refine ⟨⟨C02.roundTT_WF qr svd r 1 hw, C02.roundTT_isTensor qr svd r hten, ?_⟩, ?_⟩
  · rw [C02.roundTT_modes, hmod]
  · intro is js his hjs hfl
    rw [C02.roundTT_full qr svd hqr hsvd r js hw (by rw [hmod]; exact hjs)]
    exact hc is js his hjs hfl

/-- **(c) totality**: for a non-empty train the guard `prod(shape) == prod(N)` excludes every `none` branch and the fuel
of the model suffices (any oracles, `dst = []` allowed) -/
theorem reshapeTT_total (fz : Core α → Core α) (hfz : FzOk fz) (qr svd : Oracle α) (dst : List Nat)
    (cs : List (Core α)) (hcs : cs ≠ []) (hspos : ∀ s ∈ modesM cs, 0 < s) (hdpos : ∀ t ∈ dst, 0 < t)
    (hp : prodNat dst = prodNat (modesM cs)) :
    ∃ out, reshapeTTWith fz qr svd dst cs = some out := by
  have hL3 : modesM ((rlOrth qr cs).map fz) = modesM cs := by rw [pm_map_fz_modes fz hfz, rlOrth_modes]
  have hlen : ((rlOrth qr cs).map fz).length = cs.length := by
    rw [← pm_modes_length, hL3, pm_modes_length]
  unfold reshapeTTWith reshapeCoresWith
  generalize (rlOrth qr cs).map fz = L at hL3 hlen
  cases L with
  | nil =>
    exfalso
    exact hcs (List.length_eq_zero_iff.mp hlen.symm)
  | cons c rest =>
    have hm : modesM cs = c.m :: modesM rest := hL3.symm
    rw [hm] at hspos hp
    obtain ⟨r, hr⟩ := rs_reshapeGo_total svd fz hfz (2 * (cs.length + dst.length) + 2) c rest dst []
      (by simp only [List.length_cons] at hlen; omega) (hspos c.m (by simp)) (fun s hs => hspos s (by simp [hs])) hdpos
      (by rw [hp, dc_prodNat_cons])
    exact ⟨roundTT qr svd r, by simp only [hr, Option.map_some]⟩

/-- (a), (b), (c) together -/
theorem reshapeTT_spec (fz : Core α → Core α) (hfz : FzOk fz) (qr svd : Oracle α) (hqr : Exact qr)
    (hsvd : Exact svd) (dst : List Nat) (cs : List (Core α)) (hcs : cs ≠ []) (hne : dst ≠ []) (hwf : WF cs 1)
    (ht : IsTensor cs) (hspos : ∀ s ∈ modesM cs, 0 < s) (hdpos : ∀ t ∈ dst, 0 < t)
    (hp : prodNat dst = prodNat (modesM cs)) :
    ∃ out, reshapeTTWith fz qr svd dst cs = some out ∧ WF out 1 ∧ IsTensor out ∧ modesM out = dst ∧
      ∀ is js, List.Forall₂ (· < ·) is (modesM cs) → List.Forall₂ (· < ·) js dst →
        flatIdx dst js = flatIdx (modesM cs) is → full out (tIdx js) = full cs (tIdx is) := by
  obtain ⟨out, ho⟩ := reshapeTT_total fz hfz qr svd dst cs hcs hspos hdpos hp
  obtain ⟨⟨h1, h2, h3⟩, h4⟩ := reshapeTT_full fz hfz qr svd hqr hsvd dst cs out hne hwf ht hspos hdpos hp ho
  exact ⟨out, ho, h1, h2, h3, h4⟩

/-- the reference `fz = id` -/
theorem reshapeTT_full_id (qr svd : Oracle α) (hqr : Exact qr) (hsvd : Exact svd) (dst : List Nat)
    (cs out : List (Core α)) (hne : dst ≠ []) (hwf : WF cs 1) (ht : IsTensor cs)
    (hspos : ∀ s ∈ modesM cs, 0 < s) (hdpos : ∀ t ∈ dst, 0 < t) (hp : prodNat dst = prodNat (modesM cs))
    (h : reshapeTT qr svd dst cs = some out) :
    (WF out 1 ∧ IsTensor out ∧ modesM out = dst) ∧
    ∀ is js, List.Forall₂ (· < ·) is (modesM cs) → List.Forall₂ (· < ·) js dst →
      flatIdx dst js = flatIdx (modesM cs) is → full out (tIdx js) = full cs (tIdx is) :=
  reshapeTT_full id FzOk_id qr svd hqr hsvd dst cs out hne hwf ht hspos hdpos hp h

/-! ### (5) concrete instances (non-vacuity) -/

section examples
open TT.C02

/- the order-3 integer train `dc_exT` of C02b: ranks `[1,2,2,1]`, modes `[2,3,2]`, 12 entries -/
theorem rs_exT_pos : ∀ s ∈ modesM dc_exT, 0 < s := by decide

/-- an order-4 integer train with two modes of size 1: ranks `[1,2,2,2,1]`, modes `[2,1,3,1]` -/
def rs_exU : List (Core Int) :=
  [ { r0 := 1, m := 2, n := 1, r1 := 2, get := fun _ i _ b => (i : Int) + 2 * b - 1 },
    { r0 := 2, m := 1, n := 1, r1 := 2, get := fun a _ _ b => 2 * (a : Int) + b - 1 },
    { r0 := 2, m := 3, n := 1, r1 := 2, get := fun a i _ b => (a : Int) * i - b + 1 },
    { r0 := 2, m := 1, n := 1, r1 := 1, get := fun a _ _ _ => 3 * (a : Int) - 2 } ]

theorem rs_exU_WF : WF rs_exU 1 := ⟨rfl, rfl, rfl, rfl, rfl⟩
theorem rs_exU_isTensor : IsTensor rs_exU := ⟨rfl, rfl, rfl, rfl, trivial⟩
example : modesM rs_exU = [2, 1, 3, 1] := by decide

example : flatIdx [2, 3] [1, 2] * prodNat [2] + flatIdx [2] [1] = flatIdx ([2, 3] ++ [2]) ([1, 2] ++ [1]) :=
  (rs_flatIdx_append [2, 3] [2] [1, 2] [1] rfl).symm
example : flatIdx [2 * 3] [1 * 3 + 2] = flatIdx [2, 3] [1, 2] := rs_flatIdx_merge2 2 3 1 2

/-- the split step instantiated: the merged first two cores of `dc_exT` (mode 6) split into modes `3` and `2` -/
example :
    sumTo (splitStep dc_idFull (mergeC pm_exA pm_exB) 3).1.r1
        (fun k => (splitStep dc_idFull (mergeC pm_exA pm_exB) 3).1.get 0 2 0 k *
                  (splitStep dc_idFull (mergeC pm_exA pm_exB) 3).2.get k 1 0 1)
      = (mergeC pm_exA pm_exB).get 0 (2 * ((mergeC pm_exA pm_exB).m / 3) + 1) 0 1 :=
  splitStep_chain dc_idFull dc_idFull_exact (mergeC pm_exA pm_exB) 3 2 1 0 1 (by decide) (by decide) (by decide)
    (by decide)

example : ∀ i1 < 3, ∀ i2 < 2, ∀ b < 2,
    sumTo (splitStep (idOracle 1000) (mergeC pm_exA pm_exB) 3).1.r1
        (fun k => (splitStep (idOracle 1000) (mergeC pm_exA pm_exB) 3).1.get 0 i1 0 k *
                  (splitStep (idOracle 1000) (mergeC pm_exA pm_exB) 3).2.get k i2 0 b)
      = (mergeC pm_exA pm_exB).get 0 (i1 * 2 + i2) 0 b := by decide

/-- the absorb steps instantiated on the tail of `rs_exU` -/
example : full [absorbAll pm_exB [{ r0 := 2, m := 1, n := 1, r1 := 1, get := fun a _ _ _ => 3 * (a : Int) - 2 }]]
      (tIdx [2]) =
    full [pm_exB, { r0 := 2, m := 1, n := 1, r1 := 1, get := fun a _ _ _ => 3 * (a : Int) - 2 }] (tIdx [2, 0]) :=
  absorbAll_full _ pm_exB [0] 2 (by simp) (by simp [modesM])

/-- **the main theorem instantiated** (uncapped identity oracles, clipping `fz`): all hypotheses are satisfiable, the
result exists, and e.g. entry `(5,1)` of the `[6,2]` view is entry `(1,2,1)` of the `[2,3,2]` tensor -/
example : ∃ out, reshapeTTWith pm_clip dc_idFull dc_idFull [6, 2] dc_exT = some out ∧ WF out 1 ∧ IsTensor out ∧
    modesM out = [6, 2] ∧ full out (tIdx [5, 1]) = full dc_exT (tIdx [1, 2, 1]) := by
  obtain ⟨out, h0, h1, h2, h3, h4⟩ := reshapeTT_spec pm_clip pm_clip_ok dc_idFull dc_idFull dc_idFull_exact
    dc_idFull_exact [6, 2] dc_exT (List.cons_ne_nil _ _) (by decide) dc_exT_WF pm_exT_isTensor rs_exT_pos (by decide)
    (by decide)
  exact ⟨out, h0, h1, h2, h3, h4 [1, 2, 1] [5, 1] (dc_inRange_of_get _ _ rfl (by decide))
    (dc_inRange_of_get _ _ rfl (by decide)) (by decide)⟩

example : ∃ out, reshapeTT dc_idFull dc_idFull [3, 2] rs_exU = some out ∧ WF out 1 ∧ IsTensor out ∧
    modesM out = [3, 2] ∧ full out (tIdx [2, 1]) = full rs_exU (tIdx [1, 0, 2, 0]) := by
  obtain ⟨out, h0, h1, h2, h3, h4⟩ := reshapeTT_spec id FzOk_id dc_idFull dc_idFull dc_idFull_exact
    dc_idFull_exact [3, 2] rs_exU (List.cons_ne_nil _ _) (by decide) rs_exU_WF rs_exU_isTensor (by decide) (by decide)
    (by decide)
  exact ⟨out, h0, h1, h2, h3, h4 [1, 0, 2, 0] [2, 1] (dc_inRange_of_get _ _ rfl (by decide))
    (dc_inRange_of_get _ _ rfl (by decide)) (by decide)⟩

/- evaluated (all 12 entries, the capped oracle of the correspondence run with a large cap): every branch of the loop is
exercised — merge+emit `[6,2]`, emit+merge `[2,6]`, merge+split `[4,3]`, `[3,2,2]`, full merge `[12]`, split off a
singleton `[2,1,6]`, trailing `ones` `[12,1,1]` -/
example : (reshapeTT (idOracle 1000) (idOracle 1000) [6, 2] dc_exT).isSome = true := by decide
example : modesM ((reshapeTT (idOracle 1000) (idOracle 1000) [6, 2] dc_exT).getD []) = [6, 2] := by decide
example : ∀ i0 < 2, ∀ i1 < 3, ∀ i2 < 2,
    full ((reshapeTT (idOracle 1000) (idOracle 1000) [6, 2] dc_exT).getD []) (tIdx [i0 * 3 + i1, i2])
      = full dc_exT (tIdx [i0, i1, i2]) := by decide
example : ∀ i0 < 2, ∀ i1 < 3, ∀ i2 < 2,
    full ((reshapeTT (idOracle 1000) (idOracle 1000) [2, 6] dc_exT).getD []) (tIdx [i0, i1 * 2 + i2])
      = full dc_exT (tIdx [i0, i1, i2]) := by decide
example : ∀ i0 < 2, ∀ i1 < 3, ∀ i2 < 2,
    full ((reshapeTT (idOracle 1000) (idOracle 1000) [4, 3] dc_exT).getD [])
        (tIdx [(i0 * 6 + i1 * 2 + i2) / 3, (i0 * 6 + i1 * 2 + i2) % 3])
      = full dc_exT (tIdx [i0, i1, i2]) := by decide
example : ∀ i0 < 2, ∀ i1 < 3, ∀ i2 < 2,
    full ((reshapeTT dc_idFull dc_idFull [3, 2, 2] dc_exT).getD []) (tIdx [(i0 * 3 + i1) / 2, (i0 * 3 + i1) % 2, i2])
      = full dc_exT (tIdx [i0, i1, i2]) := by decide
example : ∀ i0 < 2, ∀ i1 < 3, ∀ i2 < 2,
    full ((reshapeTT (idOracle 1000) (idOracle 1000) [12] dc_exT).getD []) (tIdx [i0 * 6 + i1 * 2 + i2])
      = full dc_exT (tIdx [i0, i1, i2]) := by decide
example : ∀ i0 < 2, ∀ i1 < 3, ∀ i2 < 2,
    full ((reshapeTT (idOracle 1000) (idOracle 1000) [2, 1, 6] dc_exT).getD []) (tIdx [i0, 0, i1 * 2 + i2])
      = full dc_exT (tIdx [i0, i1, i2]) := by decide
example : modesM ((reshapeTT (idOracle 1000) (idOracle 1000) [12, 1, 1] dc_exT).getD []) = [12, 1, 1] := by decide
example : ∀ i0 < 2, ∀ i1 < 3, ∀ i2 < 2,
    full ((reshapeTT (idOracle 1000) (idOracle 1000) [12, 1, 1] dc_exT).getD []) (tIdx [i0 * 6 + i1 * 2 + i2, 0, 0])
      = full dc_exT (tIdx [i0, i1, i2]) := by decide
/-- the concrete value -/
example : full ((reshapeTT (idOracle 1000) (idOracle 1000) [4, 3] dc_exT).getD []) (tIdx [3, 2]) = full dc_exT (tIdx [1, 2, 1])
    ∧ full dc_exT (tIdx [1, 2, 1]) = 2 := by decide

/- size-1 source modes: absorbed at the end (`[6]`, `[3,2]`), or regrouped (`[1,6,1]`) -/
example : (reshapeTT (idOracle 1000) (idOracle 1000) [6] rs_exU).map List.length = some 1 := by decide
example : ∀ i0 < 2, ∀ i2 < 3,
    full ((reshapeTT (idOracle 1000) (idOracle 1000) [6] rs_exU).getD []) (tIdx [i0 * 3 + i2])
      = full rs_exU (tIdx [i0, 0, i2, 0]) := by decide
example : ∀ i0 < 2, ∀ i2 < 3,
    full ((reshapeTT (idOracle 1000) (idOracle 1000) [3, 2] rs_exU).getD []) (tIdx [(i0 * 3 + i2) / 2, (i0 * 3 + i2) % 2])
      = full rs_exU (tIdx [i0, 0, i2, 0]) := by decide
example : ∀ i0 < 2, ∀ i2 < 3,
    full ((reshapeTT (idOracle 1000) (idOracle 1000) [1, 6, 1] rs_exU).getD []) (tIdx [0, i0 * 3 + i2, 0])
      = full rs_exU (tIdx [i0, 0, i2, 0]) := by decide

/-- the regrouping is not the identity on positions: `[3,2,2]` and `[2,3,2]` differ at the same multi-index -/
example : full ((reshapeTT dc_idFull dc_idFull [3, 2, 2] dc_exT).getD []) (tIdx [1, 1, 0]) ≠ full dc_exT (tIdx [1, 1, 0]) := by
  decide

/-- element counts differ: `none` (the hypothesis `prodNat dst = prodNat src` of (c) is needed) -/
example : (reshapeTT (idOracle 1000) (idOracle 1000) [5, 2] dc_exT).isSome = false := by decide
example : (reshapeTT (idOracle 1000) (idOracle 1000) [4, 2] dc_exT).isSome = false := by decide

/-- a truncating SVD (`idOracle 1`) changes the tensor: `Exact svd` is not vacuous -/
example : full ((reshapeTT (idOracle 1000) (idOracle 1) [4, 3] dc_exT).getD []) (tIdx [3, 2]) ≠ full dc_exT (tIdx [1, 2, 1]) := by
  decide

/-- **`dst ≠ []` is needed for (b)**: a one-entry tensor with value `5` reshaped to the empty shape `[]` (element counts
agree, `1 = 1`) becomes the empty train, whose only entry is the empty product `1` -/
def rs_ex5 : List (Core Int) := [{ r0 := 1, m := 1, n := 1, r1 := 1, get := fun _ _ _ _ => 5 }]

example : WF rs_ex5 1 ∧ prodNat [] = prodNat (modesM rs_ex5) ∧
    (reshapeTT dc_idFull dc_idFull [] rs_ex5).map List.length = some 0 ∧
    flatIdx [] [] = flatIdx (modesM rs_ex5) [0] ∧
    full ((reshapeTT dc_idFull dc_idFull [] rs_ex5).getD [oneCore]) (tIdx []) ≠ full rs_ex5 (tIdx [0]) := by
  refine ⟨⟨rfl, rfl⟩, by decide, by decide, by decide, by decide⟩

/-- (c) needs `cs ≠ []`: the empty train (a scalar, element count 1) is rejected -/
example : (reshapeTT dc_idFull dc_idFull [1] ([] : List (Core Int))).isSome = false := by decide

end examples

end TT.C10

#print axioms TT.C10.rs_flatIdx_append
#print axioms TT.C10.rs_flatIdx_inj
#print axioms TT.C10.mergeC_chain
#print axioms TT.C10.splitStep_chain
#print axioms TT.C10.absorb1_chain
#print axioms TT.C10.absorbAll_chain
#print axioms TT.C10.oneCore_chain
#print axioms TT.C10.rs_reshapeGo_spec
#print axioms TT.C10.rs_reshapeGo_total
#print axioms TT.C10.reshapeCores_full
#print axioms TT.C10.reshapeTT_full
#print axioms TT.C10.reshapeTT_total
#print axioms TT.C10.reshapeTT_spec
#print axioms TT.C10.reshapeTT_full_id
