import TTProps.C15b
import TTModel.ExprK

/-!
# C15d — programs with scalar-EXPRESSION operands in every scalar operator form: TT evaluation = dense evaluation, with gradients

`evalProgK` (`TTModel/ExprK.lean`): each `let` appends `T_i * s`, `T_i + s`, `T_i - s` or `s - T_i`, where `s` is any scalar expression over
the operands defined so far, then a scalar head is evaluated.  `evalProgK_eq_dense`: for typed programs over a commutative ring the
core-by-core value equals the dense value; at `α := Dual β` (`gradProgK_eq_dense`) this says that forward-mode differentiation through the
TT program — including the dependence of the ADDED / SUBTRACTED scalars on the cores — gives the derivative of the dense program.
(A scalar that is detached from the graph before being padded into the cores would make the ε-part of the `let` operand lose the
`∂s/∂core` term; the theorem says the model does not.)
-/
namespace TT.C15
open TT
variable {α : Type} [CommRing α] [DecidableEq α]

/-- typing of programs (as `TypedProg`, for every `let` form) -/
def TypedProgK (ns : List Nat) (envT envM : List (List (Core α))) :
    List (LetKind × Nat × SE α) → SE α → Prop
  | [], e => TypedS ns envT envM e
  | (k, i, s) :: rest, e =>
    TypedV ns envT i ∧ TypedS ns envT envM s ∧
      TypedProgK ns (envT ++ [applyLet k (envT.getD i []) (evalS envT envM s)]) envM rest e

/-! ### (1) shape preservation of the four `let` forms -/

/-- on the empty train every `let` form returns the empty train -/
theorem c15d_applyLet_nil (k : LetKind) (c : α) : applyLet k ([] : List (Core α)) c = [] := by
  cases k
  · show smul [] c = []
    unfold smul; split <;> rfl
  · rfl
  · rfl
  · rfl

/-- `applyLet` keeps the shape invariant (well-formed rank chain, modes `ns`, all `n = 1`) -/
theorem tshape_applyLet (ns : List Nat) (xs : List (Core α)) (k : LetKind) (c : α)
    (s : TShape ns xs) : TShape ns (applyLet k xs c) := by
  by_cases hx : xs = []
  · subst hx; rw [c15d_applyLet_nil]; exact s
  · have hadd : ∀ c' : α, TShape ns (addScalar xs c') := fun c' =>
      s.congr (C03.WF_add _ _ s.1 (WF_scalarTT c' _ hx) (length_scalarTT c' _).symm hx)
        (modesMN_addScalar _ c')
    cases k
    · exact s.congr (WF_smul_expr _ c s.1) (modesMN_smul _ c)
    · exact hadd c
    · exact hadd (-c)
    · have h1 : TShape ns (subScalar xs c) := hadd (-c)
      exact h1.congr (WF_negFirst _ 1 h1.1) (modesMN_negFirst _)

/-! ### (2) the `let` operand -/

/-- the `let` operand represents the dense array `denseLet k (full T_i) c` -/
theorem dT_letK (ns : List Nat) (envT : List (List (Core α))) (k : LetKind) (i : Nat) (c : α)
    (hne : ns ≠ []) (h : TypedV ns envT i) (j : Nat) (is : List Nat) (hil : is.length = ns.length) :
    dT (envT ++ [applyLet k (envT.getD i []) c]) j is =
      (if j = envT.length then denseLet k (dT envT i) c else dT envT j) is := by
  have s := TShape.of_typedV h
  have hlen : (tIdx is).length = (envT.getD i []).length := by
    rw [length_tIdx, s.length]; exact hil
  have hx := ne_nil_of_modesM s.2.1 hne
  by_cases hj : j = envT.length
  · subst hj
    rw [if_pos rfl]
    show full ((envT ++ [applyLet k (envT.getD i []) c]).getD envT.length []) (tIdx is) = _
    rw [c15b_getD_append_self]
    cases k
    · show full (smul _ c) _ = _
      rw [C03.full_smul _ c _ hlen hx]; rfl
    · show full (addScalar _ c) _ = _
      rw [C03.full_add_scalar _ c _ s.1 hlen hx]; rfl
    · show full (subScalar _ c) _ = _
      rw [C03.full_sub_scalar _ c _ s.1 hlen hx, sub_eq_add_neg]; rfl
    · show full (rsubScalar _ c) _ = _
      rw [C03.full_rsub_scalar _ c _ s.1 hlen hx, sub_eq_add_neg]; rfl
  · rw [if_neg hj]
    show full ((envT ++ [applyLet k (envT.getD i []) c]).getD j []) (tIdx is) = _
    rw [c15b_getD_append_ne envT _ hj]
    rfl

/-- the new operand is again a typed tensor operand of the same shape -/
theorem typedV_letK (ns : List Nat) (envT : List (List (Core α))) (k : LetKind) (i : Nat) (c : α)
    (h : TypedV ns envT i) :
    TypedV ns (envT ++ [applyLet k (envT.getD i []) c]) envT.length :=
  typedV_append_self ns envT _ (tshape_applyLet ns _ k c (TShape.of_typedV h))

/-- a sufficient condition for `TypedProgK` that only mentions the initial environment -/
theorem TypedProgK.of_typedS (ns : List Nat) (envT envM : List (List (Core α)))
    (lets : List (LetKind × Nat × SE α)) (e : SE α)
    (hl : ∀ p ∈ lets, TypedV ns envT p.2.1 ∧ TypedS ns envT envM p.2.2)
    (he : TypedS ns envT envM e) : TypedProgK ns envT envM lets e := by
  induction lets generalizing envT with
  | nil => exact he
  | cons p rest ih =>
    obtain ⟨k, i, s⟩ := p
    have hp := hl (k, i, s) (List.mem_cons_self ..)
    refine ⟨hp.1, hp.2, ih _ (fun q hq => ?_) (typedS_append ns envT envM _ e he)⟩
    have hq' := hl q (List.mem_cons_of_mem _ hq)
    exact ⟨typedV_append ns envT _ q.2.1 hq'.1, typedS_append ns envT envM _ q.2.2 hq'.2⟩

/-- introduction rule that hides the appended operand: the rest of the program is typed over ANY
    environment `E` one longer than `envT` in which the old operands keep their types and the new
    position holds a typed operand -/
theorem TypedProgK.cons_intro {ns : List Nat} {envT envM : List (List (Core α))} {k : LetKind}
    {i : Nat} {s : SE α} {rest : List (LetKind × Nat × SE α)} {e : SE α}
    (hi : TypedV ns envT i) (hs : TypedS ns envT envM s)
    (hrest : ∀ E : List (List (Core α)), E.length = envT.length + 1 →
      (∀ j, TypedV ns envT j → TypedV ns E j) → TypedV ns E envT.length →
      TypedProgK ns E envM rest e) :
    TypedProgK ns envT envM ((k, i, s) :: rest) e :=
  ⟨hi, hs, hrest _ (by simp) (fun j hj => typedV_append ns envT _ j hj) (typedV_letK ns envT k i _ hi)⟩

/-! ### (3) programs: TT evaluation = dense evaluation -/

/-- generalisation carried through the induction: the dense operands `D` need only agree with the
    `full` arrays of `envT` on multi-indices of length `ns.length` -/
theorem evalProgK_eq_dense_gen (ns : List Nat) (hne : ns ≠ []) (envM : List (List (Core α)))
    (lets : List (LetKind × Nat × SE α)) (e : SE α) :
    ∀ (envT : List (List (Core α))) (D : Nat → Dense α),
      (∀ j is, is.length = ns.length → dT envT j is = D j is) →
      TypedProgK ns envT envM lets e →
      ∃ v, denseProgK ns envT.length D (dM envM) lets e = some v ∧
        evalProgK envT envM lets e = v := by
  induction lets with
  | nil =>
    intro envT D hD h
    obtain ⟨v, hv, he⟩ := evalS_eq_dense ns envT envM e h
    exact ⟨v, denseS_congr ns (dT envT) D (dM envM) hD envT envM e h v hv, he⟩
  | cons p rest ih =>
    intro envT D hD h
    obtain ⟨k, i, s⟩ := p
    obtain ⟨hi, hs, hrest⟩ := h
    obtain ⟨c, hc, hce⟩ := evalS_eq_dense ns envT envM s hs
    have hc' := denseS_congr ns (dT envT) D (dM envM) hD envT envM s hs c hc
    rw [hce] at hrest
    obtain ⟨v, hv, he⟩ := ih (envT ++ [applyLet k (envT.getD i []) c])
      (fun j => if j = envT.length then denseLet k (D i) c else D j)
      (fun j is hil => by
        rw [dT_letK ns envT k i c hne hi j is hil]
        by_cases hj : j = envT.length
        · simp only [if_pos hj]
          cases k <;> simp only [denseLet, hD i is hil]
        · simp only [if_neg hj]; exact hD j is hil)
      hrest
    refine ⟨v, ?_, ?_⟩
    · simp only [denseProgK, hc']
      simpa using hv
    · simp only [evalProgK, hce]
      exact he

/-- **Programs: TT evaluation = dense evaluation**, for every `let` form -/
theorem evalProgK_eq_dense (ns : List Nat) (hne : ns ≠ []) (envT envM : List (List (Core α)))
    (lets : List (LetKind × Nat × SE α)) (e : SE α) (h : TypedProgK ns envT envM lets e) :
    ∃ v, denseProgK ns envT.length (dT envT) (dM envM) lets e = some v ∧
      evalProgK envT envM lets e = v :=
  evalProgK_eq_dense_gen ns hne envM lets e envT (dT envT) (fun _ _ _ => rfl) h

/-- **Gradients through TT programs match the dense derivative** (instance `α := Dual β`): value part and ε-part agree -/
theorem gradProgK_eq_dense {β : Type} [CommRing β] [DecidableEq β] (ns : List Nat) (hne : ns ≠ [])
    (envT envM : List (List (Core (Dual β)))) (lets : List (LetKind × Nat × SE (Dual β))) (e : SE (Dual β))
    (h : TypedProgK ns envT envM lets e) :
    ∃ w : Dual β, denseProgK ns envT.length (dT envT) (dM envM) lets e = some w ∧
      (evalProgK envT envM lets e).v = w.v ∧ (evalProgK envT envM lets e).d = w.d := by
  obtain ⟨w, hw, he⟩ := evalProgK_eq_dense (α := Dual β) ns hne envT envM lets e h
  exact ⟨w, hw, congrArg Dual.v he, congrArg Dual.d he⟩

/-- the old programs are the `scale`-only programs -/
theorem evalProgK_scale (envT envM : List (List (Core α))) (lets : List (Nat × SE α)) (e : SE α) :
    evalProgK envT envM (lets.map (fun p => (LetKind.scale, p.1, p.2))) e = evalProg envT envM lets e := by
  induction lets generalizing envT with
  | nil => rfl
  | cons p rest ih =>
    obtain ⟨i, s⟩ := p
    simp only [List.map_cons, evalProgK, evalProg, applyLet]
    exact ih _

/-! ### (4) a concrete typed program (non-vacuity) and numeric sanity checks

`z := x + ⟨x, y⟩` (operand 2), `u := ⟨x, y⟩ - z` (operand 3), `w := u - ‖z‖²` (operand 4),
`t := w * ⟨u, y⟩` (operand 5); head `⟨t, y⟩ + sum(z ∘ u)`. -/
section Example
variable (R : Type) [CommRing R]

def exLetsK : List (LetKind × Nat × SE R) :=
  [(.shift, 0, .dot (.var 0) (.var 1)), (.shiftRsub, 2, .dot (.var 0) (.var 1)),
   (.shiftSub, 3, .normsq (.var 2)), (.scale, 4, .dot (.var 3) (.var 1))]
def exHeadK : SE R := .add (.dot (.var 5) (.var 1)) (.sumall (.mul (.var 2) (.var 3)))

theorem exTypedProgK [DecidableEq R] :
    TypedProgK [2, 3] [exX R, exY R] [exA R] (exLetsK R) (exHeadK R) := by
  have hx : TypedV [2, 3] [exX R, exY R] 0 := by simp [TypedV, exX, WF, modesM, IsTensor]
  have hy : TypedV [2, 3] [exX R, exY R] 1 := by simp [TypedV, exY, WF, modesM, IsTensor]
  have hne : ([2, 3] : List Nat) ≠ [] := by simp
  -- `z := x + ⟨x, y⟩`
  refine TypedProgK.cons_intro hx ⟨⟨hne, hx⟩, ⟨hne, hy⟩⟩ (fun E1 l1 w1 (h2 : TypedV _ E1 2) => ?_)
  -- `u := ⟨x, y⟩ - z`
  refine TypedProgK.cons_intro h2 ⟨⟨hne, w1 _ hx⟩, ⟨hne, w1 _ hy⟩⟩ (fun E2 l2 w2 h3 => ?_)
  rw [l1] at h3 l2
  replace h3 : TypedV _ E2 3 := h3
  -- `w := u - ‖z‖²`
  refine TypedProgK.cons_intro h3 ⟨hne, w2 _ h2⟩ (fun E3 l3 w3 h4 => ?_)
  rw [l2] at h4 l3
  replace h4 : TypedV _ E3 4 := h4
  -- `t := w * ⟨u, y⟩`
  refine TypedProgK.cons_intro h4 ⟨⟨hne, w3 _ h3⟩, ⟨hne, w3 _ (w2 _ (w1 _ hy))⟩⟩
    (fun E4 l4 w4 h5 => ?_)
  rw [l3] at h5
  replace h5 : TypedV _ E4 5 := h5
  exact ⟨⟨⟨hne, h5⟩, ⟨hne, w4 _ (w3 _ (w2 _ (w1 _ hy)))⟩⟩,
    ⟨hne, w4 _ (w3 _ (w2 _ h2))⟩, ⟨hne, w4 _ (w3 _ h3)⟩⟩

/-- the theorem applied to the concrete program, over any commutative ring -/
example [DecidableEq R] :
    ∃ v, denseProgK [2, 3] 2 (dT [exX R, exY R]) (dM [exA R]) (exLetsK R) (exHeadK R) = some v ∧
      evalProgK [exX R, exY R] [exA R] (exLetsK R) (exHeadK R) = v :=
  evalProgK_eq_dense [2, 3] (by simp) _ _ _ _ (exTypedProgK R)

end Example

/-- numeric check over `Int`: core by core and dense give the same value -/
example : evalProgK [exX Int, exY Int] [exA Int] (exLetsK Int) (exHeadK Int) = 4867294 ∧
    denseProgK [2, 3] 2 (dT [exX Int, exY Int]) (dM [exA Int]) (exLetsK Int) (exHeadK Int) =
      some 4867294 := by decide

theorem exTypedProgKD : TypedProgK [2, 3] [exXd, exY (Dual Int)] [exA (Dual Int)]
    (exLetsK (Dual Int)) (exHeadK (Dual Int)) := by
  have hx : TypedV [2, 3] [exXd, exY (Dual Int)] 0 := by simp [TypedV, exXd, WF, modesM, IsTensor]
  have hy : TypedV [2, 3] [exXd, exY (Dual Int)] 1 := by simp [TypedV, exY, WF, modesM, IsTensor]
  have hne : ([2, 3] : List Nat) ≠ [] := by simp
  refine TypedProgK.cons_intro hx ⟨⟨hne, hx⟩, ⟨hne, hy⟩⟩ (fun E1 l1 w1 (h2 : TypedV _ E1 2) => ?_)
  refine TypedProgK.cons_intro h2 ⟨⟨hne, w1 _ hx⟩, ⟨hne, w1 _ hy⟩⟩ (fun E2 l2 w2 h3 => ?_)
  rw [l1] at h3 l2
  replace h3 : TypedV _ E2 3 := h3
  refine TypedProgK.cons_intro h3 ⟨hne, w2 _ h2⟩ (fun E3 l3 w3 h4 => ?_)
  rw [l2] at h4 l3
  replace h4 : TypedV _ E3 4 := h4
  refine TypedProgK.cons_intro h4 ⟨⟨hne, w3 _ h3⟩, ⟨hne, w3 _ (w2 _ (w1 _ hy))⟩⟩
    (fun E4 l4 w4 h5 => ?_)
  rw [l3] at h5
  replace h5 : TypedV _ E4 5 := h5
  exact ⟨⟨⟨hne, h5⟩, ⟨hne, w4 _ (w3 _ (w2 _ (w1 _ hy)))⟩⟩,
    ⟨hne, w4 _ (w3 _ (w2 _ h2))⟩, ⟨hne, w4 _ (w3 _ h3)⟩⟩

/-- `gradProgK_eq_dense` applied: the partial derivative of the program w.r.t. the perturbed core entry
    of `x`, which enters through the shifted operands AND through the added / subtracted scalars -/
example : ∃ w : Dual Int,
    denseProgK [2, 3] 2 (dT [exXd, exY (Dual Int)]) (dM [exA (Dual Int)]) (exLetsK (Dual Int))
      (exHeadK (Dual Int)) = some w ∧
    (evalProgK [exXd, exY (Dual Int)] [exA (Dual Int)] (exLetsK (Dual Int)) (exHeadK (Dual Int))).v = w.v ∧
    (evalProgK [exXd, exY (Dual Int)] [exA (Dual Int)] (exLetsK (Dual Int)) (exHeadK (Dual Int))).d = w.d :=
  gradProgK_eq_dense [2, 3] (by simp) _ _ _ _ exTypedProgKD

/-- numeric check over `Dual Int`: same value and same (non-zero) ε-part on both sides -/
example : evalProgK [exXd, exY (Dual Int)] [exA (Dual Int)] (exLetsK (Dual Int))
      (exHeadK (Dual Int)) = ⟨4867294, 5411202⟩ ∧
    denseProgK [2, 3] 2 (dT [exXd, exY (Dual Int)]) (dM [exA (Dual Int)]) (exLetsK (Dual Int))
      (exHeadK (Dual Int)) = some ⟨4867294, 5411202⟩ := by decide

/-- the ε-part is not zero: the gradient statement is not vacuous -/
example : (evalProgK [exXd, exY (Dual Int)] [exA (Dual Int)] (exLetsK (Dual Int))
      (exHeadK (Dual Int))).d ≠ 0 := by decide

/-- the scalar of the `.shift` / `.shiftRsub` lets carries derivative information: with the ε-part of the
    scalar dropped (the scalar "detached" before it is padded into the cores) the ε-part of the `let`
    operand `z = x + ⟨x, y⟩` at an entry NOT touched by the perturbation would be `0`; it is `18 = ∂⟨x,y⟩/∂p` -/
example : (dT ([exXd, exY (Dual Int)] ++ [applyLet .shift exXd
      (evalS [exXd, exY (Dual Int)] [exA (Dual Int)] (.dot (.var 0) (.var 1)))]) 2 [0, 0]).d = 18 ∧
    (dT [exXd, exY (Dual Int)] 0 [0, 0]).d = 0 := by decide

end TT.C15

section Axioms
open TT.C15
#print axioms TypedProgK
#print axioms tshape_applyLet
#print axioms dT_letK
#print axioms typedV_letK
#print axioms TypedProgK.of_typedS
#print axioms TypedProgK.cons_intro
#print axioms evalProgK_eq_dense_gen
#print axioms evalProgK_eq_dense
#print axioms gradProgK_eq_dense
#print axioms evalProgK_scale
#print axioms exTypedProgK
#print axioms exTypedProgKD
end Axioms
