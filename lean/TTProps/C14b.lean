import TTModel.Maxvol

/-!
# C14b — `_maxvol` returns row numbers of its matrix

Model: `TTModel/Maxvol.lean`.  For every pivot vector `P` whose entries are row numbers (`< rows`, the contract of torch's LU pivot
vector) and every sequence of loop events whose positions lie inside the `rows × cols` matrix (the contract of `topk` + `unravel_index`),
the returned index list has `min rows cols` entries (when `P` is long enough), all of them `< rows` — whatever the floating-point
decisions of the loop were, whether it ended by the tolerance test (sorted result) or ran out of its 100 passes (unsorted result).
This discharges, under the two primitive contracts, the hypothesis "pivot positions are in range" of the index-bookkeeping theorems
`TT.C14.leftUpdate_inRange`, `rightUpdate_inRange`, `rightInit_inRange`, … (the callers decode `Jk[:r]` with `np.unravel_index`
on a grid with exactly `rows` cells).
-/
namespace TT.C14b
open TT.Maxvol

private theorem insertSorted_length (v : Nat) (l : List Nat) : (insertSorted v l).length = l.length + 1 := by
  induction l with
  | nil => rfl
  | cons x xs ih =>
    simp only [insertSorted]
    split
    · simp
    · simp [ih]

private theorem isort_length (l : List Nat) : (isort l).length = l.length := by
  induction l with
  | nil => rfl
  | cons x xs ih => simp [isort, insertSorted_length, ih]

private theorem mem_insertSorted {v x : Nat} {l : List Nat} : x ∈ insertSorted v l ↔ x = v ∨ x ∈ l := by
  induction l with
  | nil => simp [insertSorted]
  | cons y ys ih =>
    simp only [insertSorted]
    split
    · simp
    · simp only [List.mem_cons, ih]
      constructor
      · rintro (h | h | h)
        · exact Or.inr (Or.inl h)
        · exact Or.inl h
        · exact Or.inr (Or.inr h)
      · rintro (h | h | h)
        · exact Or.inr (Or.inl h)
        · exact Or.inl h
        · exact Or.inr (Or.inr h)

private theorem mem_isort {x : Nat} {l : List Nat} : x ∈ isort l ↔ x ∈ l := by
  induction l with
  | nil => simp [isort]
  | cons y ys ih => simp [isort, mem_insertSorted, ih]

private theorem insertSorted_pairwise (v : Nat) (l : List Nat) (h : l.Pairwise (· ≤ ·)) :
    (insertSorted v l).Pairwise (· ≤ ·) := by
  induction l with
  | nil => simp [insertSorted]
  | cons y ys ih =>
    simp only [insertSorted]
    rw [List.pairwise_cons] at h
    split
    · rename_i hvy
      refine List.pairwise_cons.2 ⟨?_, List.pairwise_cons.2 h⟩
      intro a ha
      rcases List.mem_cons.1 ha with rfl | ha
      · exact hvy
      · exact Nat.le_trans hvy (h.1 a ha)
    · rename_i hvy
      refine List.pairwise_cons.2 ⟨?_, ih h.2⟩
      intro a ha
      rcases mem_insertSorted.1 ha with rfl | ha
      · omega
      · exact h.1 a ha

private theorem isort_pairwise (l : List Nat) : (isort l).Pairwise (· ≤ ·) := by
  induction l with
  | nil => simp [isort]
  | cons y ys ih => exact insertSorted_pairwise y _ ih

theorem setAt_length (l : List Nat) (k v : Nat) : (setAt l k v).length = l.length := by
  induction l generalizing k with
  | nil => rfl
  | cons x xs ih =>
    cases k with
    | zero => rfl
    | succ k => simp [setAt, ih]

theorem setAt_mem {l : List Nat} {k v x : Nat} (h : x ∈ setAt l k v) : x ∈ l ∨ x = v := by
  induction l generalizing k with
  | nil => simp [setAt] at h
  | cons y ys ih =>
    cases k with
    | zero =>
      simp only [setAt, List.mem_cons] at h
      rcases h with h | h
      · exact Or.inr h
      · exact Or.inl (List.mem_cons_of_mem _ h)
    | succ k =>
      simp only [setAt, List.mem_cons] at h
      rcases h with h | h
      · exact Or.inl (h ▸ List.mem_cons_self)
      · rcases ih h with h | h
        · exact Or.inl (List.mem_cons_of_mem _ h)
        · exact Or.inr h

theorem loop_length (f : Nat) (ev : List (Bool × Nat × Nat)) (idx : List Nat) :
    (loop f ev idx).length = idx.length := by
  induction f generalizing ev idx with
  | zero => rfl
  | succ f ih =>
    match ev with
    | [] => rfl
    | (done, i, j) :: ev =>
      simp only [loop]
      split
      · exact isort_length idx
      · rw [ih, setAt_length]

theorem loop_inRange (rows : Nat) (f : Nat) (ev : List (Bool × Nat × Nat)) (idx : List Nat)
    (hidx : ∀ x ∈ idx, x < rows) (hev : ∀ e ∈ ev, e.2.1 < rows) :
    ∀ x ∈ loop f ev idx, x < rows := by
  induction f generalizing ev idx with
  | zero => exact hidx
  | succ f ih =>
    match ev, hev with
    | [], _ => exact hidx
    | (done, i, j) :: ev, hev =>
      simp only [loop]
      split
      · intro x hx
        exact hidx x (mem_isort.1 hx)
      · apply ih
        · intro x hx
          rcases setAt_mem hx with h | h
          · exact hidx x h
          · subst h
            exact hev (done, x, j) List.mem_cons_self
        · intro e he
          exact hev e (List.mem_cons_of_mem _ he)

/-- **every returned position is a row number** -/
theorem maxvol_inRange (rows cols : Nat) (P : List Nat) (ev : List (Bool × Nat × Nat))
    (hP : ∀ x ∈ P, x < rows) (hev : ∀ e ∈ ev, e.2.1 < rows) :
    ∀ x ∈ maxvol rows cols P ev, x < rows := by
  unfold maxvol
  split
  · intro x hx
    exact List.mem_range.1 hx
  · exact loop_inRange rows 100 ev _ (fun x hx => hP x (List.mem_of_mem_take hx)) hev

theorem maxvol_length (rows cols : Nat) (P : List Nat) (ev : List (Bool × Nat × Nat)) (hP : rows ≤ P.length) :
    (maxvol rows cols P ev).length = min rows cols := by
  unfold maxvol
  split
  · rw [List.length_range]; omega
  · rw [loop_length, List.length_take]; omega

/-- when the loop ends by its tolerance test the result is sorted (the callers rely on nothing else) -/
theorem loop_sorted_of_done (f : Nat) (i j : Nat) (ev : List (Bool × Nat × Nat)) (idx : List Nat) :
    (loop (f + 1) ((true, i, j) :: ev) idx).Pairwise (· ≤ ·) := by
  simp only [loop, if_true]
  exact isort_pairwise idx

example : maxvol 5 2 [3, 1, 4, 0, 2] [(false, 4, 0), (false, 0, 1), (true, 0, 0)] = [0, 4] := by decide
example : maxvol 2 3 [1, 0] [] = [0, 1] := by decide
example : maxvol 4 2 [2, 0, 1, 3] [(true, 1, 1)] = [0, 2] := by decide

end TT.C14b
