import TTLemmas.Sweep

/-!
# C07 — the left-to-right sweeps equal the dense reductions

`vecSweep` (contraction order of `TT.full`, `TT.sum()`, `apply_mask`), `gramSweep` (`dot`, autograd
`norm`) and `bilSweep` (`bilinear_form_aux`) are the core-by-core models of the implementation.
Every statement holds for every order `d ≥ 0`, every mode-size pattern, every rank profile and every
core value over an arbitrary commutative ring.

"Sum over all entries" is written, as requested, rows outer / columns inner:
`sumIdx (modesM cs) (fun is => sumIdx (modesN cs) (fun js => … (is.zip js) …))`
(for tensor trains `modesN` is all ones, `js = [0,…,0]`, and `is.zip js = tIdx is`).

`cj : α → α` is the conjugation; it is only assumed additive, multiplicative and `cj 1 = 1`
(`cj 0 = 0` follows from additivity in a ring and is not assumed).
-/
namespace TT.C07
open TT
variable {α : Type} [CommRing α]

/-! ### (1) the row-vector sweep -/

/-- `v · G_1(i_1) ⋯ G_d(i_d)`, entry `0`, for a well-formed train with left rank `r`
    (`WF` forces the last rank to be 1, so `0` is the only in-range right index; for `cs = []`
    this reads `v 0 = sumTo 1 (fun a => v a * if a = 0 then 1 else 0)`). -/
theorem vecSweep_eq (cs : List (Core α)) (ij : List (Nat × Nat)) (r : Nat) (v : Nat → α)
    (hw : WF cs r) (hil : ij.length = cs.length) :
    vecSweep cs ij v 0 = sumTo r (fun a => v a * chain cs ij a 0) :=
  sw_vecSweep_WF cs ij r v hw hil

example : vecSweep sw_exX [(1, 0), (2, 0), (3, 0)] (fun _ => (1 : Int)) 0 =
    sumTo 1 (fun a => (fun _ => (1 : Int)) a * chain sw_exX [(1, 0), (2, 0), (3, 0)] a 0) :=
  vecSweep_eq sw_exX _ 1 _ (by simp [WF, sw_exX]) rfl

/-- the same with an arbitrary last rank `s` and any in-range right index `b < s`
    (`sw_Chained cs r s`: the ranks chain from `r` to `s`; `WF cs r = sw_Chained cs r 1`).
    The bound `b < s` is necessary: for `b ≥ s` the chain is 0 but the sweep reads out-of-range
    core entries. -/
theorem vecSweep_eq_rank (cs : List (Core α)) (ij : List (Nat × Nat)) (r s : Nat) (v : Nat → α) (b : Nat)
    (hc : sw_Chained cs r s) (hil : ij.length = cs.length) (hb : b < s) :
    vecSweep cs ij v b = sumTo r (fun a => v a * chain cs ij a b) :=
  sw_vecSweep_gen cs ij r s v b hc hil hb

/-- a prefix of a train: left rank 1, last rank 3, right index 2 -/
example : vecSweep (sw_exX.take 2) [(1, 0), (2, 0)] (fun _ => (1 : Int)) 2 =
    sumTo 1 (fun a => (fun _ => (1 : Int)) a * chain (sw_exX.take 2) [(1, 0), (2, 0)] a 2) :=
  vecSweep_eq_rank (sw_exX.take 2) _ 1 3 _ 2 (by simp [sw_Chained, sw_exX]) rfl (by omega)

/-! ### (2) `TT.full()` as implemented -/

/-- (holds for the empty train as well, so `cs ≠ []` is not assumed) -/
theorem fullImpl_eq (cs : List (Core α)) (ij : List (Nat × Nat))
    (hw : WF cs 1) (hil : ij.length = cs.length) :
    fullImpl cs ij = full cs ij := by
  unfold fullImpl full
  rw [sw_vecSweep_WF cs ij 1 _ hw hil, sumTo_one]
  simp

example : fullImpl sw_exX [(1, 0), (2, 0), (3, 0)] = full sw_exX [(1, 0), (2, 0), (3, 0)] :=
  fullImpl_eq sw_exX _ (by simp [WF, sw_exX]) rfl

example : fullImpl sw_exA [(1, 2), (2, 1)] = full sw_exA [(1, 2), (2, 1)] :=
  fullImpl_eq sw_exA _ (by simp [WF, sw_exA]) rfl

/-! ### (3) `apply_mask` -/

theorem applyMask_eq (cs : List (Core α)) (idx : List Nat)
    (hw : WF cs 1) (hil : idx.length = cs.length) :
    applyMask cs idx = full cs (tIdx idx) := by
  unfold applyMask full
  rw [sw_vecSweep_WF cs (tIdx idx) 1 _ hw (by simpa [tIdx] using hil), sumTo_one]
  simp

example : applyMask sw_exX [1, 2, 3] = full sw_exX (tIdx [1, 2, 3]) :=
  applyMask_eq sw_exX _ (by simp [WF, sw_exX]) rfl

/-! ### (4) `x.sum()` -/

/-- sum of all entries, rows outer / columns inner -/
theorem sumAll_eq (cs : List (Core α)) (hw : WF cs 1) :
    sumAll cs =
    sumIdx (modesM cs) (fun is => sumIdx (modesN cs) (fun js => full cs (is.zip js))) := by
  unfold sumAll full
  rw [sw_vecSweep_WF _ _ 1 _ (sw_WF_sumMode cs 1 hw) (by simp), sumTo_one, sw_chain_sumMode]
  simp [sw_S2]

example : sumAll sw_exX =
    sumIdx (modesM sw_exX) (fun is => sumIdx (modesN sw_exX) (fun js => full sw_exX (is.zip js))) :=
  sumAll_eq sw_exX (by simp [WF, sw_exX])

example : sumAll sw_exA =
    sumIdx (modesM sw_exA) (fun is => sumIdx (modesN sw_exA) (fun js => full sw_exA (is.zip js))) :=
  sumAll_eq sw_exA (by simp [WF, sw_exA])

/-! ### (5), (6) `dot`, `norm(squared=True)` -/

/-- `dot(x, y) = Σ_entries x · conj(y)`; the sum runs over the entries of `x`
    (`SameModes` makes them the entries of `y` as well) -/
theorem dotFull_eq (cj : α → α) (hadd : ∀ a b, cj (a + b) = cj a + cj b)
    (hmul : ∀ a b, cj (a * b) = cj a * cj b) (h1 : cj 1 = 1)
    (xs ys : List (Core α)) (hwx : WF xs 1) (hwy : WF ys 1) (hs : SameModes xs ys) :
    dotFull cj xs ys =
    sumIdx (modesM xs) (fun is => sumIdx (modesN xs) (fun js =>
      full xs (is.zip js) * cj (full ys (is.zip js)))) := by
  unfold dotFull
  rw [sw_gram_inv cj hadd hmul h1 xs ys 1 1 _ hwx hwy (sw_SameModes_length xs ys hs)]
  simp [sumTo_one, sw_D, sw_S2, full]

example : dotFull id sw_exX sw_exY =
    sumIdx (modesM sw_exX) (fun is => sumIdx (modesN sw_exX) (fun js =>
      full sw_exX (is.zip js) * id (full sw_exY (is.zip js)))) :=
  dotFull_eq id (fun _ _ => rfl) (fun _ _ => rfl) rfl sw_exX sw_exY
    (by simp [WF, sw_exX]) (by simp [WF, sw_exY]) (by simp [SameModes, sw_exX, sw_exY])

theorem normSq_eq (cj : α → α) (hadd : ∀ a b, cj (a + b) = cj a + cj b)
    (hmul : ∀ a b, cj (a * b) = cj a * cj b) (h1 : cj 1 = 1)
    (xs : List (Core α)) (hwx : WF xs 1) :
    normSq cj xs =
    sumIdx (modesM xs) (fun is => sumIdx (modesN xs) (fun js =>
      full xs (is.zip js) * cj (full xs (is.zip js)))) :=
  dotFull_eq cj hadd hmul h1 xs xs hwx hwx (sw_SameModes_refl xs)

example : normSq id sw_exY =
    sumIdx (modesM sw_exY) (fun is => sumIdx (modesN sw_exY) (fun js =>
      full sw_exY (is.zip js) * id (full sw_exY (is.zip js)))) :=
  normSq_eq id (fun _ _ => rfl) (fun _ _ => rfl) rfl sw_exY (by simp [WF, sw_exY])

/-! ### (7) `bilinear_form` -/

/-- `conj(x)ᵀ A y`.  Only the rank chains and the three lengths are used: the model (like the
    einsums) sums over the operator's mode sizes, so the mode-compatibility facts `x.m = A.m`,
    `y.m = A.n`, `x.n = y.n = 1` are not needed for the identity (the example below satisfies them). -/
theorem bilinear_eq (cj : α → α) (hadd : ∀ a b, cj (a + b) = cj a + cj b)
    (hmul : ∀ a b, cj (a * b) = cj a * cj b) (h1 : cj 1 = 1)
    (xs As ys : List (Core α)) (hwx : WF xs 1) (hwA : WF As 1) (hwy : WF ys 1)
    (hlx : xs.length = As.length) (hly : ys.length = As.length) :
    bilinear cj xs As ys =
    sumIdx (modesM As) (fun is => sumIdx (modesN As) (fun js =>
      cj (full xs (tIdx is)) * full As (is.zip js) * full ys (tIdx js))) := by
  unfold bilinear
  rw [sw_bil_inv cj hadd hmul h1 xs As ys 1 1 1 _ hwx hwA hwy hlx hly]
  simp [sumTo_one, sw_B, sw_S2, full]

example : bilinear id sw_exU sw_exA sw_exV =
    sumIdx (modesM sw_exA) (fun is => sumIdx (modesN sw_exA) (fun js =>
      id (full sw_exU (tIdx is)) * full sw_exA (is.zip js) * full sw_exV (tIdx js))) :=
  bilinear_eq id (fun _ _ => rfl) (fun _ _ => rfl) rfl sw_exU sw_exA sw_exV
    (by simp [WF, sw_exU]) (by simp [WF, sw_exA]) (by simp [WF, sw_exV]) rfl rfl

/-- the example trains of (7) are tensor trains whose modes match the operator's -/
example : IsTensor sw_exU ∧ IsTensor sw_exV ∧ modesM sw_exU = modesM sw_exA ∧
    modesM sw_exV = modesN sw_exA := by
  simp [IsTensor, modesM, modesN, sw_exU, sw_exV, sw_exA]

end TT.C07
