import TTLemmas.Trunc

/-!
# C01 — rank selection `rank_chop` (Python backend) and the allowance arithmetic of the sweeps

`rankChop` is the branch-for-branch model of `torchtt/_decomposition.py::rank_chop` (with the `<=`
comparison), `tailE s k = Σ_{i ≥ k} s[i]²` is the energy discarded when the rank `k` is kept.
Everything is stated with squared quantities over an arbitrary strictly ordered commutative ring
(`ℤ`, `ℚ`, `ℝ`, …), for *arbitrary* decidability instances (so the theorems apply both to the
instances derived from `LinearOrder α` and to the native ones of `Int` used by `decide`).

No assumption that `s` is sorted or non-negative is needed: only squares enter.
-/
namespace TT.C01
open TT.Trunc

variable {α : Type} [CommRing α] [LinearOrder α] [IsStrictOrderedRing α]
  [DecidableEq α] [DecidableRel (fun (a b : α) => a < b)] [DecidableRel (fun (a b : α) => a ≤ b)]

/-! ### (7) helper facts on the tail energy -/

omit [DecidableEq α] [DecidableRel (fun (a b : α) => a < b)]
  [DecidableRel (fun (a b : α) => a ≤ b)] in
theorem tailE_nonneg (s : List α) (k : Nat) : 0 ≤ tailE s k := TT.Trunc.tailE_nonneg s k

omit [LinearOrder α] [IsStrictOrderedRing α] [DecidableEq α] [DecidableRel (fun (a b : α) => a < b)]
  [DecidableRel (fun (a b : α) => a ≤ b)] in
theorem tailE_len (s : List α) : tailE s s.length = 0 := TT.Trunc.tailE_len s

omit [DecidableEq α] [DecidableRel (fun (a b : α) => a < b)]
  [DecidableRel (fun (a b : α) => a ≤ b)] in
theorem tailE_anti (s : List α) {j k : Nat} (h : j ≤ k) : tailE s k ≤ tailE s j :=
  TT.Trunc.tailE_anti s h

/-! ### (1) the returned rank is a valid rank -/

omit [IsStrictOrderedRing α] in
/-- `1 ≤ rank_chop(s, eps) ≤ s.size` for every non-empty `s` and every `eps` (also negative). -/
theorem rankChop_bounds (s : List α) (eps : α) (hs : s ≠ []) :
    1 ≤ rankChop s eps ∧ rankChop s eps ≤ s.length := by
  have hn : 0 < s.length := List.length_pos_of_ne_nil hs
  unfold rankChop
  split_ifs with h0 h1 h2
  · omega
  · omega
  · omega
  · refine ⟨clamp1_pos _, ?_⟩
    have h2' : tailE s (s.length - 1) ≤ eps * eps := not_lt.mp h2
    obtain ⟨hlt, _, _⟩ := argmaxBool_spec_some (fun k => decide (tailE s k ≤ eps * eps))
      s.length (s.length - 1) (by omega) (by simpa using h2')
    rw [clamp1_eq]; omega

example : 1 ≤ rankChop ([3, 2, 1] : List Int) 2 ∧ rankChop ([3, 2, 1] : List Int) 2 ≤ 3 :=
  rankChop_bounds (α := Int) _ _ (by decide)

/-! ### (2) the discarded energy never exceeds the allowance -/

/-- `‖s[R:]‖² ≤ eps²` for `R = rank_chop(s, eps)`, exact ties included, for every `eps`
(for `eps ≤ 0` the full rank is kept and the tail is `0`).  Holds for every list `s`, even the empty
one, so no `s ≠ []` hypothesis appears. -/
theorem rankChop_tail (s : List α) (eps : α) : tailE s (rankChop s eps) ≤ eps * eps := by
  unfold rankChop
  split_ifs with h0 h1 h2
  · rw [tailE_eq_zero_of_zero s h0]; exact mul_self_nonneg eps
  · rw [TT.Trunc.tailE_len]; exact mul_self_nonneg eps
  · rw [TT.Trunc.tailE_len]; exact mul_self_nonneg eps
  · have h2' : tailE s (s.length - 1) ≤ eps * eps := not_lt.mp h2
    have hn : 0 < s.length := by
      rcases Nat.eq_zero_or_pos s.length with h | h
      · exact absurd (TT.Trunc.tailE_ge_len s (by omega)) h0
      · exact h
    obtain ⟨_, hp, _⟩ := argmaxBool_spec_some (fun k => decide (tailE s k ≤ eps * eps))
      s.length (s.length - 1) (by omega) (by simpa using h2')
    have hp' : tailE s (argmaxBool (fun k => decide (tailE s k ≤ eps * eps)) s.length)
        ≤ eps * eps := by simpa using hp
    refine le_trans (TT.Trunc.tailE_anti s ?_) hp'
    rw [clamp1_eq]; omega

example : tailE ([1, 1, 1, 1] : List Int) (rankChop [1, 1, 1, 1] 1) ≤ (1 : Int) * 1 :=
  rankChop_tail (α := Int) _ _

/-! ### (3) the least admissible rank `≥ 1` is returned -/

/-- For `0 < eps`, `rank_chop` returns the least `k ≥ 1` whose tail fits in the allowance
(together with `rankChop_bounds` and `rankChop_tail`).  Holds for every list, also `[]`; the
zero-norm branch (`tailE s 0 = 0`, result `1`) is consistent with it. -/
theorem rankChop_least (s : List α) (eps : α) (k : Nat) (heps : 0 < eps) (hk : 1 ≤ k)
    (ht : tailE s k ≤ eps * eps) : rankChop s eps ≤ k := by
  unfold rankChop
  split_ifs with h0 h1 h2
  · exact hk
  · exact absurd heps (not_lt.mpr h1)
  · by_contra hlt
    have : tailE s (s.length - 1) ≤ tailE s k := TT.Trunc.tailE_anti s (by omega)
    exact absurd (le_trans this ht) (not_le.mpr h2)
  · rw [clamp1_eq]
    by_cases hkn : k < s.length
    · have := argmaxBool_le_first (fun k => decide (tailE s k ≤ eps * eps)) s.length k hkn
        (by simpa using ht)
      omega
    · have h2' : tailE s (s.length - 1) ≤ eps * eps := not_lt.mp h2
      have hn : 0 < s.length := by
        rcases Nat.eq_zero_or_pos s.length with h | h
        · exact absurd (TT.Trunc.tailE_ge_len s (by omega)) h0
        · exact h
      obtain ⟨hlt, _, _⟩ := argmaxBool_spec_some (fun k => decide (tailE s k ≤ eps * eps))
        s.length (s.length - 1) (by omega) (by simpa using h2')
      omega

example : rankChop ([3, 2, 1] : List Int) 3 ≤ 1 :=
  rankChop_least (α := Int) _ _ 1 (by decide) (by decide) (by decide)

omit [IsStrictOrderedRing α] in
/-- the same without `0 < eps` when the candidate is the full rank (trivial by the bounds) -/
theorem rankChop_least_full (s : List α) (eps : α) (k : Nat) (hs : s ≠ []) (hk : s.length ≤ k) :
    rankChop s eps ≤ k := le_trans (rankChop_bounds s eps hs).2 hk

/-- `0 < eps` cannot be dropped from `rankChop_least`: at `eps = 0` a trailing exact zero is *kept*
(`[1,0]`: rank `1` is admissible, `2` is returned) … -/
theorem rankChop_least_eps_zero_counterexample :
    ¬ (1 ≤ 1 → tailE ([1, 0] : List Int) 1 ≤ (0 : Int) * 0 → rankChop ([1, 0] : List Int) 0 ≤ 1) := by
  decide

/-- … and a negative `eps` keeps the full rank although `eps²` is a positive allowance. -/
theorem rankChop_least_eps_neg_counterexample :
    ¬ (1 ≤ 1 → tailE ([1, 1] : List Int) 1 ≤ (-10 : Int) * (-10) →
        rankChop ([1, 1] : List Int) (-10) ≤ 1) := by
  decide

/-- Characterisation for `0 < eps`: `R = rank_chop(s, eps)` iff `R` is the least rank in
`[1, s.size]` whose tail fits. -/
theorem rankChop_eq_iff (s : List α) (eps : α) (R : Nat) (hs : s ≠ []) (heps : 0 < eps) :
    rankChop s eps = R ↔
      (1 ≤ R ∧ R ≤ s.length ∧ tailE s R ≤ eps * eps ∧
        ∀ k, 1 ≤ k → tailE s k ≤ eps * eps → R ≤ k) := by
  constructor
  · rintro rfl
    exact ⟨(rankChop_bounds s eps hs).1, (rankChop_bounds s eps hs).2, rankChop_tail s eps,
      fun k hk ht => rankChop_least s eps k heps hk ht⟩
  · rintro ⟨h1, _, h3, h4⟩
    exact le_antisymm (rankChop_least s eps R heps h1 h3)
      (h4 _ (rankChop_bounds s eps hs).1 (rankChop_tail s eps))

/-! ### (4) the pre-fix strict comparison violates the bound at an exact tie -/

/-- With `sc < eps**2` (strict), `s = [1,1,1,1]`, `eps = 1`: `argmax` of an all-`False` array is `0`,
the rank is clamped to `1` and the discarded energy is `3 > 1 = eps²`. -/
theorem rankChopStrict_counterexample :
    ¬ (tailE ([1, 1, 1, 1] : List Int) (rankChopStrict [1, 1, 1, 1] 1) ≤ (1 : Int) * 1) := by
  decide

example : rankChopStrict ([1, 1, 1, 1] : List Int) 1 = 1 := by decide
example : rankChop ([1, 1, 1, 1] : List Int) 1 = 3 := by decide

/-! ### (5) the `rmax` cap -/

theorem capped_le (rmax r : Nat) : capped rmax r ≤ rmax ∧ capped rmax r ≤ r := by
  unfold capped; omega

/-- the capped rank is still a valid rank (capping lowers the rank, so only the range survives,
not the allowance bound) -/
theorem capped_bounds (rmax r n : Nat) (hr : 1 ≤ r ∧ r ≤ n) (hm : 1 ≤ rmax) :
    1 ≤ capped rmax r ∧ capped rmax r ≤ n := by
  unfold capped; omega

example : capped 2 3 ≤ 2 ∧ capped 2 3 ≤ 3 := capped_le 2 3

/-! ### (6) allowance arithmetic of the sweeps (square-root free) -/

omit [DecidableEq α] [DecidableRel (fun (a b : α) => a < b)]
  [DecidableRel (fun (a b : α) => a ≤ b)] in
/-- One entry `(t, c)` per bond: `t` the energy discarded at the bond, `c` the squared norm of the
remainder it is measured against.  If every bond obeys `t ≤ ep2 · c` with `c ≤ c₀` (remainder norms
never exceed the initial one), and the per-bond allowance satisfies `#bonds · ep2 ≤ e2`, then the
total discarded energy is at most `e2 · c₀`. -/
theorem allowance_sum (l : List (α × α)) (ep2 e2 c : α) (hep : 0 ≤ ep2) (hc : 0 ≤ c)
    (h : ∀ p ∈ l, p.1 ≤ ep2 * p.2 ∧ p.2 ≤ c) (hb : (l.length : α) * ep2 ≤ e2) :
    (l.map Prod.fst).sum ≤ e2 * c := by
  have key : (l.map Prod.fst).sum ≤ (l.length : α) * ep2 * c := by
    clear hb
    induction l with
    | nil => simp
    | cons p ps ih =>
      have hp := h p (List.mem_cons_self)
      have ih' := ih (fun q hq => h q (List.mem_cons_of_mem _ hq))
      have h1 : ep2 * p.2 ≤ ep2 * c := mul_le_mul_of_nonneg_left hp.2 hep
      simp only [List.map_cons, List.sum_cons, List.length_cons, Nat.cast_add, Nat.cast_one]
      nlinarith [hp.1, h1, ih']
  exact le_trans key (mul_le_mul_of_nonneg_right hb hc)

omit [DecidableEq α] [DecidableRel (fun (a b : α) => a < b)]
  [DecidableRel (fun (a b : α) => a ≤ b)] in
/-- The form used by `to_tt` / `round_tt`: `d ≥ 2` modes, bonds `k = 1 … d-1`, per-bond allowance
`ep2 = eps²/(d-1)` expressed division-free as `(d-1) · ep2 ≤ e2`. -/
theorem allowance_sum_d (d : Nat) (l : List (α × α)) (ep2 e2 c : α) (hd : 2 ≤ d)
    (hlen : l.length = d - 1) (hep : 0 ≤ ep2) (hc : 0 ≤ c)
    (h : ∀ p ∈ l, p.1 ≤ ep2 * p.2 ∧ p.2 ≤ c) (hb : ((d : α) - 1) * ep2 ≤ e2) :
    (l.map Prod.fst).sum ≤ e2 * c := by
  apply allowance_sum l ep2 e2 c hep hc h
  have : ((l.length : Nat) : α) = (d : α) - 1 := by
    rw [hlen, Nat.cast_sub (by omega)]; simp
  rw [this]; exact hb

/-- non-vacuity: `d = 3`, two bonds, `ep2 = 2`, `e2 = 4`, `c = 5` -/
example : (([(10, 5), (6, 3)] : List (Int × Int)).map Prod.fst).sum ≤ (4 : Int) * 5 :=
  allowance_sum_d (α := Int) 3 _ 2 4 5 (by decide) (by decide) (by decide) (by decide) (by decide) (by decide)

/-! ### instance bridge: with only `LinearOrder`, the model's decidability arguments are found -/

section bridge
variable {β : Type} [CommRing β] [LinearOrder β] [IsStrictOrderedRing β]

example (s : List β) (eps : β) : tailE s (rankChop s eps) ≤ eps * eps := rankChop_tail s eps
example (s : List β) (eps : β) (hs : s ≠ []) : 1 ≤ rankChop s eps ∧ rankChop s eps ≤ s.length :=
  rankChop_bounds s eps hs

end bridge

end TT.C01
