import TTLemmas.ExprL
import TTProps.C03b
import TTProps.C04
import TTProps.C07

/-!
# C15 — gradients through TT operations match the dense derivative

`TE` / `SE` (`TTModel/Expr.lean`) are expressions over the modelled TT operations; `evalT` / `evalS`
run the core-by-core models, `denseT` / `denseS` interpret the same expression on dense arrays.

The models are generic in the scalar type.  We prove, over an **arbitrary commutative ring** `α`,
that TT evaluation of every typed expression of the shape-preserving fragment
`var, add, sub, mul, neg, smul, adds, mv` (and of every scalar expression
`sumall, dot, normsq, entry, bil, add, mul, const` over it) equals its dense evaluation, the dense
operands being the `full` arrays of the TT operands.  Instantiating `α := TT.Dual β` (dual numbers
`a + b·ε`, the scalar type the driver `TTModel/DriverAD.lean` runs) says that the value **and** the
ε-part agree: forward-mode differentiation through the TT operations gives the derivative of the
dense computation, for every direction, i.e. every partial derivative with respect to every entry
of every core of every operand (`grad_eq_dense`).

Typing (`TTLemmas/ExprL.lean`): `TypedT ns envT envM e` — every referenced tensor operand exists,
is `WF … 1`, has `modesM = ns`, `IsTensor`; `ns ≠ []`; every referenced operator operand exists, is
`WF … 1` with `modesM = modesN = ns`.  No in-range hypothesis on the outer multi-index is needed:
the equalities hold for every `is` of the right length (the model's `get` is total), the contraction
of `mv` ranges over the in-range inner indices on both sides.
-/
namespace TT.C15
open TT
variable {α : Type} [CommRing α] [DecidableEq α]

/-- dense tensor operands: the arrays represented by the TT operands -/
def dT (envT : List (List (Core α))) : Nat → Dense α :=
  fun i is => full (envT.getD i []) (tIdx is)

/-- dense operator operands: the matrices represented by the TT-matrix operands -/
def dM (envM : List (List (Core α))) : Nat → List Nat → List Nat → α :=
  fun A is js => full (envM.getD A []) (is.zip js)

/-! ### (2) shape preservation -/

/-- internal form: the result is a well-formed tensor train with modes `ns` (and `ns ≠ []`) -/
theorem evalT_shape (ns : List Nat) (envT envM : List (List (Core α))) (e : TE α)
    (h : TypedT ns envT envM e) : ns ≠ [] ∧ TShape ns (evalT envT envM e) := by
  induction e with
  | var i => exact ⟨h.1, TShape.of_typedV h.2⟩
  | add a b iha ihb =>
    simp only [TypedT] at h
    obtain ⟨hne, sa⟩ := iha h.1
    obtain ⟨_, sb⟩ := ihb h.2
    have hlen : (evalT envT envM a).length = (evalT envT envM b).length := by
      rw [sa.length, sb.length]
    exact ⟨hne, sa.congr (C03.WF_add _ _ sa.1 sb.1 hlen (ne_nil_of_modesM sa.2.1 hne))
      (modesMN_add _ _ hlen)⟩
  | sub a b iha ihb =>
    simp only [TypedT] at h
    obtain ⟨hne, sa⟩ := iha h.1
    obtain ⟨_, sb⟩ := ihb h.2
    have hlen : (evalT envT envM a).length = (evalT envT envM b).length := by
      rw [sa.length, sb.length]
    exact ⟨hne, sa.congr (C03.WF_sub _ _ sa.1 sb.1 hlen (ne_nil_of_modesM sa.2.1 hne))
      (modesMN_sub _ _ hlen)⟩
  | mul a b iha ihb =>
    simp only [TypedT] at h
    obtain ⟨hne, sa⟩ := iha h.1
    obtain ⟨_, sb⟩ := ihb h.2
    have hlen : (evalT envT envM a).length = (evalT envT envM b).length := by
      rw [sa.length, sb.length]
    exact ⟨hne, sa.congr (C03.WF_mul _ _ sa.1 sb.1 hlen) (modesMN_mul _ _ hlen)⟩
  | neg a iha =>
    simp only [TypedT] at h
    obtain ⟨hne, sa⟩ := iha h
    exact ⟨hne, sa.congr (WF_negFirst _ 1 sa.1) (modesMN_negFirst _)⟩
  | smul a s iha =>
    simp only [TypedT] at h
    obtain ⟨hne, sa⟩ := iha h
    exact ⟨hne, sa.congr (WF_smul_expr _ s sa.1) (modesMN_smul _ s)⟩
  | adds a s iha =>
    simp only [TypedT] at h
    obtain ⟨hne, sa⟩ := iha h
    have hxne := ne_nil_of_modesM sa.2.1 hne
    exact ⟨hne, sa.congr
      (C03.WF_add _ _ sa.1 (WF_scalarTT s _ hxne) (length_scalarTT s _).symm hxne)
      (modesMN_addScalar _ s)⟩
  | mv A a iha =>
    simp only [TypedT] at h
    obtain ⟨⟨_, hwA, hmA, hnA⟩, ha⟩ := h
    obtain ⟨hne, sa⟩ := iha ha
    have hlen : (envM.getD A []).length = (evalT envT envM a).length := by
      rw [length_of_modesM hmA, sa.length]
    refine ⟨hne, (C04.wf_matmul _ _ hwA sa.1 hlen).1, ?_, ?_⟩
    · show modesM (matmul _ _) = ns
      rw [modesM_matmul _ _ hlen, hmA]
    · show modesN (matmul _ _) = _
      rw [modesN_matmul _ _ hlen, sa.2.2]
  | kron a b => simp only [TypedT] at h
  | cat d a b => simp only [TypedT] at h
  | pad a p v => simp only [TypedT] at h
  | mprod a m r F => simp only [TypedT] at h
  | sumsel a idx => simp only [TypedT] at h
  | getitem a sel => simp only [TypedT] at h

/-- **shape preservation**: the TT value of a typed expression is a well-formed tensor train of
    order `ns.length` with mode sizes `ns` -/
theorem evalT_wf (ns : List Nat) (envT envM : List (List (Core α))) (e : TE α)
    (h : TypedT ns envT envM e) :
    WF (evalT envT envM e) 1 ∧ (evalT envT envM e).length = ns.length ∧
    modesM (evalT envT envM e) = ns ∧ IsTensor (evalT envT envM e) := by
  obtain ⟨_, s⟩ := evalT_shape ns envT envM e h
  exact ⟨s.1, s.length, s.2.1, s.isTensor⟩

/-! ### (3) tensor-valued expressions -/

/-- **TT evaluation = dense evaluation**, entry for entry, for every multi-index of the right
    length (no in-range hypothesis needed) -/
theorem evalT_eq_dense (ns : List Nat) (envT envM : List (List (Core α))) (e : TE α)
    (h : TypedT ns envT envM e) :
    ∃ f, denseT ns (dT envT) (dM envM) e = some f ∧
      ∀ is : List Nat, is.length = ns.length → full (evalT envT envM e) (tIdx is) = f is := by
  induction e with
  | var i => exact ⟨dT envT i, rfl, fun is _ => rfl⟩
  | add a b iha ihb =>
    have hab := h
    simp only [TypedT] at hab
    obtain ⟨f, hf, hfe⟩ := iha hab.1
    obtain ⟨g, hg, hge⟩ := ihb hab.2
    obtain ⟨hne, sa⟩ := evalT_shape ns envT envM a hab.1
    obtain ⟨_, sb⟩ := evalT_shape ns envT envM b hab.2
    refine ⟨fun is => f is + g is, by simp only [denseT, hf, hg], fun is hil => ?_⟩
    show full (add _ _) _ = _
    rw [C03.full_add _ _ _ sa.1 sb.1 (by rw [sa.length, sb.length])
      (by rw [length_tIdx, sa.length]; exact hil) (ne_nil_of_modesM sa.2.1 hne), hfe is hil, hge is hil]
  | sub a b iha ihb =>
    have hab := h
    simp only [TypedT] at hab
    obtain ⟨f, hf, hfe⟩ := iha hab.1
    obtain ⟨g, hg, hge⟩ := ihb hab.2
    obtain ⟨hne, sa⟩ := evalT_shape ns envT envM a hab.1
    obtain ⟨_, sb⟩ := evalT_shape ns envT envM b hab.2
    refine ⟨fun is => f is + - g is, by simp only [denseT, hf, hg], fun is hil => ?_⟩
    show full (sub _ _) _ = _
    rw [C03.full_sub _ _ _ sa.1 sb.1 (by rw [sa.length, sb.length])
      (by rw [length_tIdx, sa.length]; exact hil) (ne_nil_of_modesM sa.2.1 hne), hfe is hil, hge is hil,
      sub_eq_add_neg]
  | mul a b iha ihb =>
    have hab := h
    simp only [TypedT] at hab
    obtain ⟨f, hf, hfe⟩ := iha hab.1
    obtain ⟨g, hg, hge⟩ := ihb hab.2
    obtain ⟨_, sa⟩ := evalT_shape ns envT envM a hab.1
    obtain ⟨_, sb⟩ := evalT_shape ns envT envM b hab.2
    refine ⟨fun is => f is * g is, by simp only [denseT, hf, hg], fun is hil => ?_⟩
    show full (mul _ _) _ = _
    rw [C03.full_mul _ _ _ sa.1 sb.1 (by rw [sa.length, sb.length])
      (by rw [length_tIdx, sa.length]; exact hil), hfe is hil, hge is hil]
  | neg a iha =>
    have ha := h
    simp only [TypedT] at ha
    obtain ⟨f, hf, hfe⟩ := iha ha
    obtain ⟨hne, sa⟩ := evalT_shape ns envT envM a ha
    refine ⟨fun is => - f is, by simp only [denseT, hf, Option.map_some], fun is hil => ?_⟩
    show full (neg _) _ = _
    rw [C03.full_neg _ _ (ne_nil_of_modesM sa.2.1 hne), hfe is hil]
  | smul a s iha =>
    have ha := h
    simp only [TypedT] at ha
    obtain ⟨f, hf, hfe⟩ := iha ha
    obtain ⟨hne, sa⟩ := evalT_shape ns envT envM a ha
    refine ⟨fun is => f is * s, by simp only [denseT, hf, Option.map_some], fun is hil => ?_⟩
    show full (smul _ s) _ = _
    rw [C03.full_smul _ s _ (by rw [length_tIdx, sa.length]; exact hil)
      (ne_nil_of_modesM sa.2.1 hne), hfe is hil]
  | adds a s iha =>
    have ha := h
    simp only [TypedT] at ha
    obtain ⟨f, hf, hfe⟩ := iha ha
    obtain ⟨hne, sa⟩ := evalT_shape ns envT envM a ha
    refine ⟨fun is => f is + s, by simp only [denseT, hf, Option.map_some], fun is hil => ?_⟩
    show full (addScalar _ s) _ = _
    rw [C03.full_add_scalar _ s _ sa.1 (by rw [length_tIdx, sa.length]; exact hil)
      (ne_nil_of_modesM sa.2.1 hne), hfe is hil]
  | mv A a iha =>
    have hAa := h
    simp only [TypedT] at hAa
    obtain ⟨⟨_, hwA, hmA, hnA⟩, ha⟩ := hAa
    obtain ⟨f, hf, hfe⟩ := iha ha
    obtain ⟨_, sa⟩ := evalT_shape ns envT envM a ha
    have hlen : (envM.getD A []).length = (evalT envT envM a).length := by
      rw [length_of_modesM hmA, sa.length]
    refine ⟨fun is => sumIdx ns (fun ks => dM envM A is ks * f ks),
      by simp only [denseT, hf, Option.map_some], fun is hil => ?_⟩
    show full (matmul _ _) _ = _
    rw [C04.full_matvec _ _ is hwA sa.1 hlen
      (innerMatch_of_modes _ _ (by rw [hnA, sa.2.1])) sa.isTensor
      (by rw [length_of_modesM hmA]; exact hil), hnA]
    apply sumIdx_congr_len; intro ks hks
    rw [hfe ks hks]
    rfl
  | kron a b => simp only [TypedT] at h
  | cat d a b => simp only [TypedT] at h
  | pad a p v => simp only [TypedT] at h
  | mprod a m r F => simp only [TypedT] at h
  | sumsel a idx => simp only [TypedT] at h
  | getitem a sel => simp only [TypedT] at h

/-! ### (4) scalar-valued expressions -/

omit [DecidableEq α] in
/-- the C07 "rows outer / columns inner" double sum of a tensor train is the single sum over `ns` -/
theorem sum_collapse (ns : List Nat) (cs : List (Core α)) (s : TShape ns cs)
    (G : List (Nat × Nat) → α) :
    sumIdx (modesM cs) (fun is => sumIdx (modesN cs) (fun js => G (is.zip js))) =
    sumIdx ns (fun is => G (tIdx is)) := by
  rw [s.2.1, s.2.2]
  exact sumIdx_tensor_collapse ns G

/-- **TT reductions = dense reductions** for `sumall, dot, normsq, entry, bil, add, mul, const` -/
theorem evalS_eq_dense (ns : List Nat) (envT envM : List (List (Core α))) (e : SE α)
    (h : TypedS ns envT envM e) :
    ∃ v, denseS ns (dT envT) (dM envM) e = some v ∧ evalS envT envM e = v := by
  induction e with
  | sumall a =>
    simp only [TypedS] at h
    obtain ⟨f, hf, hfe⟩ := evalT_eq_dense ns envT envM a h
    obtain ⟨_, sa⟩ := evalT_shape ns envT envM a h
    refine ⟨sumIdx ns f, by simp only [denseS, hf, Option.map_some], ?_⟩
    show sumAll _ = _
    rw [C07.sumAll_eq _ sa.1, sum_collapse ns _ sa (fun ij => full (evalT envT envM a) ij)]
    exact sumIdx_congr_len (fun is hil => hfe is hil)
  | dot a b =>
    simp only [TypedS] at h
    obtain ⟨f, hf, hfe⟩ := evalT_eq_dense ns envT envM a h.1
    obtain ⟨g, hg, hge⟩ := evalT_eq_dense ns envT envM b h.2
    obtain ⟨_, sa⟩ := evalT_shape ns envT envM a h.1
    obtain ⟨_, sb⟩ := evalT_shape ns envT envM b h.2
    refine ⟨sumIdx ns (fun is => f is * g is), by simp only [denseS, hf, hg], ?_⟩
    show dotFull id _ _ = _
    rw [C07.dotFull_eq id (fun _ _ => rfl) (fun _ _ => rfl) rfl _ _ sa.1 sb.1
      (sameModes_of_modes _ _ (by rw [sa.2.1, sb.2.1]) (by rw [sa.2.2, sb.2.2])),
      sum_collapse ns _ sa
        (fun ij => full (evalT envT envM a) ij * id (full (evalT envT envM b) ij))]
    exact sumIdx_congr_len (fun is hil => by rw [hfe is hil, hge is hil]; rfl)
  | normsq a =>
    simp only [TypedS] at h
    obtain ⟨f, hf, hfe⟩ := evalT_eq_dense ns envT envM a h
    obtain ⟨_, sa⟩ := evalT_shape ns envT envM a h
    refine ⟨sumIdx ns (fun is => f is * f is), by simp only [denseS, hf, Option.map_some], ?_⟩
    show normSq id _ = _
    rw [C07.normSq_eq id (fun _ _ => rfl) (fun _ _ => rfl) rfl _ sa.1,
      sum_collapse ns _ sa
        (fun ij => full (evalT envT envM a) ij * id (full (evalT envT envM a) ij))]
    exact sumIdx_congr_len (fun is hil => by rw [hfe is hil]; rfl)
  | entry a idx =>
    simp only [TypedS] at h
    obtain ⟨f, hf, hfe⟩ := evalT_eq_dense ns envT envM a h.1
    obtain ⟨_, sa⟩ := evalT_shape ns envT envM a h.1
    refine ⟨f idx, by simp only [denseS, hf, Option.map_some], ?_⟩
    show applyMask _ idx = _
    rw [C07.applyMask_eq _ idx sa.1 (by rw [sa.length]; exact h.2), hfe idx h.2]
  | bil a A b =>
    simp only [TypedS] at h
    obtain ⟨ha, ⟨_, hwA, hmA, hnA⟩, hb⟩ := h
    obtain ⟨f, hf, hfe⟩ := evalT_eq_dense ns envT envM a ha
    obtain ⟨g, hg, hge⟩ := evalT_eq_dense ns envT envM b hb
    obtain ⟨_, sa⟩ := evalT_shape ns envT envM a ha
    obtain ⟨_, sb⟩ := evalT_shape ns envT envM b hb
    refine ⟨sumIdx ns (fun is => sumIdx ns (fun js => f is * dM envM A is js * g js)),
      by simp only [denseS, hf, hg], ?_⟩
    show bilinear id _ _ _ = _
    rw [C07.bilinear_eq id (fun _ _ => rfl) (fun _ _ => rfl) rfl _ _ _ sa.1 hwA sb.1
      (by rw [sa.length, length_of_modesM hmA]) (by rw [sb.length, length_of_modesM hmA]), hmA, hnA]
    apply sumIdx_congr_len; intro is hil
    apply sumIdx_congr_len; intro js hjl
    rw [hfe is hil, hge js hjl]
    rfl
  | add x y ihx ihy =>
    simp only [TypedS] at h
    obtain ⟨u, hu, hue⟩ := ihx h.1
    obtain ⟨w, hw, hwe⟩ := ihy h.2
    refine ⟨u + w, by simp only [denseS, hu, hw], ?_⟩
    show evalS envT envM x + evalS envT envM y = _
    rw [hue, hwe]
  | mul x y ihx ihy =>
    simp only [TypedS] at h
    obtain ⟨u, hu, hue⟩ := ihx h.1
    obtain ⟨w, hw, hwe⟩ := ihy h.2
    refine ⟨u * w, by simp only [denseS, hu, hw], ?_⟩
    show evalS envT envM x * evalS envT envM y = _
    rw [hue, hwe]
  | const c => exact ⟨c, rfl, rfl⟩

/-! ### (5) dual numbers: value and derivative agree

`TT.Dual β` (`TTModel/Scalar.lean`) is the scalar type of the forward-mode driver
`TTModel/DriverAD.lean`.  `TT.Dual.instCommRing` (`TTLemmas/ExprL.lean`) is a `CommRing` structure
on it whose `0, 1, +, *, -` are *definitionally* the Scalar.lean instances: -/

/-- the five operations the models use, read off an arbitrary `CommRing` structure -/
def ringOps (R : Type) [CommRing R] : R × R × (R → R → R) × (R → R → R) × (R → R) :=
  (0, 1, (· + ·), (· * ·), Neg.neg)

/-- the ring operations of `Dual.instCommRing` are the executable ones of `TTModel/Scalar.lean` -/
theorem dual_ringOps (β : Type) [CommRing β] :
    @ringOps (Dual β) Dual.instCommRing =
      (@Zero.zero _ Dual.instZero, @One.one _ Dual.instOneOfZero, @Add.add _ Dual.instAdd,
       @Mul.mul _ Dual.instMulOfAdd, @Neg.neg _ Dual.instNeg) := rfl

/-- `evalS` over dual numbers **with the Scalar.lean instances spelled out** — literally the function
    the driver runs (`evalS` elaborated at `Dual β` picks these instances) -/
abbrev evalSDual {β : Type} [CommRing β] [DecidableEq β]
    (envT envM : List (List (Core (Dual β)))) (e : SE (Dual β)) : Dual β :=
  @evalS (Dual β) Dual.instZero Dual.instOneOfZero Dual.instAdd Dual.instMulOfAdd Dual.instNeg
    inferInstance envT envM e

/-- dense evaluation over dual numbers with the Scalar.lean instances spelled out; the dense
    operands are the (dual-number valued) `full` arrays of the TT operands -/
abbrev denseSDual {β : Type} [CommRing β] [DecidableEq β] (ns : List Nat)
    (envT envM : List (List (Core (Dual β)))) (e : SE (Dual β)) : Option (Dual β) :=
  @denseS (Dual β) Dual.instZero Dual.instAdd Dual.instMulOfAdd Dual.instNeg ns
    (fun i is => @full (Dual β) Dual.instZero Dual.instOneOfZero Dual.instAdd Dual.instMulOfAdd
      (envT.getD i []) (tIdx is))
    (fun A is js => @full (Dual β) Dual.instZero Dual.instOneOfZero Dual.instAdd Dual.instMulOfAdd
      (envM.getD A []) (is.zip js)) e

/-- **Gradients through TT operations match the dense derivative.**

Run a typed scalar expression on dual-number operands, core by core (`evalSDual`, what
`DriverAD` executes).  The result has the same value part **and the same ε-part** as the dense
evaluation of the same expression on the dual-number arrays represented by the operands.

Reading: take real operands `x` (cores over `β`) and replace one entry `p` of one core of one operand
by `x_p + 1·ε` (all other entries `y + 0·ε`; `DriverAD.perturb`/`lift`).  For a polynomial map `F`,
`F(x + ε·E_p) = F(x) + ε·∂F/∂x_p` in `Dual β`, so `.d` of the TT evaluation is the partial derivative
of the TT computation with respect to entry `p`, and `.d` of the dense evaluation is the partial
derivative of the dense computation (chain rule through `full`, which is itself evaluated over
`Dual β`).  The theorem says they coincide, for every entry `p` — and more generally for every
direction (arbitrary ε-parts on all cores of all operands simultaneously).  It is the instance
`α := Dual β` of `evalS_eq_dense`; nothing about dual numbers is used beyond their being a
commutative ring. -/
theorem grad_eq_dense {β : Type} [CommRing β] [DecidableEq β] (ns : List Nat)
    (envT envM : List (List (Core (Dual β)))) (e : SE (Dual β)) (h : TypedS ns envT envM e) :
    ∃ w : Dual β, denseSDual ns envT envM e = some w ∧
      (evalSDual envT envM e).v = w.v ∧ (evalSDual envT envM e).d = w.d := by
  obtain ⟨w, hw, he⟩ := evalS_eq_dense (α := Dual β) ns envT envM e h
  exact ⟨w, hw, congrArg Dual.v he, congrArg Dual.d he⟩

/-- the form asked for: if the TT evaluation over dual numbers is `v`, then `v.d` is the ε-part of
    the dense value -/
theorem grad_eq_dense' {β : Type} [CommRing β] [DecidableEq β] (ns : List Nat)
    (envT envM : List (List (Core (Dual β)))) (e : SE (Dual β)) (h : TypedS ns envT envM e)
    (v : Dual β) (hv : evalSDual envT envM e = v) :
    ∃ w : Dual β, denseSDual ns envT envM e = some w ∧ v.v = w.v ∧ v.d = w.d := by
  subst hv; exact grad_eq_dense ns envT envM e h

/-- tensor-valued version: every entry of the TT result and of the dense result have the same value
    and the same ε-part -/
theorem gradT_eq_dense {β : Type} [CommRing β] [DecidableEq β] (ns : List Nat)
    (envT envM : List (List (Core (Dual β)))) (e : TE (Dual β)) (h : TypedT ns envT envM e) :
    ∃ f, denseT ns (dT envT) (dM envM) e = some f ∧
      ∀ is : List Nat, is.length = ns.length →
        (full (evalT envT envM e) (tIdx is)).v = (f is).v ∧
        (full (evalT envT envM e) (tIdx is)).d = (f is).d := by
  obtain ⟨f, hf, he⟩ := evalT_eq_dense (α := Dual β) ns envT envM e h
  exact ⟨f, hf, fun is hil => ⟨congrArg Dual.v (he is hil), congrArg Dual.d (he is hil)⟩⟩

/-- `evalSDual` / `denseSDual` are what `evalS` / `denseS` elaborate to at `Dual β` -/
example {β : Type} [CommRing β] [DecidableEq β] (ns : List Nat)
    (envT envM : List (List (Core (Dual β)))) (e : SE (Dual β)) :
    evalSDual envT envM e = evalS envT envM e ∧
    denseSDual ns envT envM e = denseS ns (dT envT) (dM envM) e := ⟨rfl, rfl⟩

/-- the ring operations of `GRat.instCommRing` are the executable ones of `TTModel/Scalar.lean` -/
theorem grat_ringOps :
    @ringOps GRat GRat.instCommRing =
      (@Zero.zero _ GRat.instZero, @One.one _ GRat.instOne, @Add.add _ GRat.instAdd,
       @Mul.mul _ GRat.instMul, @Neg.neg _ GRat.instNeg) := rfl

/-- the statement at the driver's scalar type `DriverAD.D = Dual GRat` (exact Gaussian rationals) -/
theorem grad_eq_dense_driver (ns : List Nat)
    (envT envM : List (List (Core (Dual GRat)))) (e : SE (Dual GRat)) (h : TypedS ns envT envM e) :
    ∃ w : Dual GRat, denseSDual ns envT envM e = some w ∧
      (evalSDual envT envM e).v = w.v ∧ (evalSDual envT envM e).d = w.d :=
  grad_eq_dense ns envT envM e h

/-! ### (6) a concrete typed instance (non-vacuity) and numeric sanity checks

Order 2, modes `[2,3]`; tensor operands `exX` (ranks 1,2,1) and `exY` (ranks 1,3,1), square operator
`exA` (`(2·3) × (2·3)`, ranks 1,2,1); generic in the ring so that it can be run over `Int` and over
`Dual Int`. -/
section Example
variable (R : Type) [CommRing R]

def exX : List (Core R) :=
  [⟨1, 2, 1, 2, fun _ i _ b => (i + b : Nat)⟩, ⟨2, 3, 1, 1, fun a i _ _ => (2 * a + i : Nat)⟩]
def exY : List (Core R) :=
  [⟨1, 2, 1, 3, fun _ i _ b => (i * b : Nat) - 1⟩, ⟨3, 3, 1, 1, fun a i _ _ => (a : R) - (i : Nat)⟩]
def exA : List (Core R) :=
  [⟨1, 2, 2, 2, fun _ i j b => (i + 2 * j + b : Nat)⟩,
   ⟨2, 3, 3, 1, fun a i j _ => (a * i + j : Nat) - 1⟩]

/-- `A x + 3·(x ∘ y)` -/
def exT : TE R := .add (.mv 0 (.var 0)) (.smul (.mul (.var 0) (.var 1)) 3)

/-- `⟨A x + 3·(x ∘ y), y⟩` -/
def exE : SE R := .dot (exT R) (.var 1)

/-- every constructor of the typed fragment:
    `sum(-(x - y) + 5) · 2 + (‖A x + 3·(x ∘ y)‖² + ((x·0)[1,2] + xᵀ A y))` -/
def exE2 : SE R :=
  .add (.mul (.sumall (.adds (.neg (.sub (.var 0) (.var 1))) 5)) (.const 2))
    (.add (.normsq (exT R)) (.add (.entry (.smul (.var 0) 0) [1, 2]) (.bil (.var 0) 0 (.var 1))))

theorem exTypedT : TypedT [2, 3] [exX R, exY R] [exA R] (exT R) := by
  simp [exT, TypedT, TypedV, TypedM, exX, exY, exA, WF, modesM, modesN, IsTensor]

theorem exTyped : TypedS [2, 3] [exX R, exY R] [exA R] (exE R) := by
  simp [exE, exT, TypedS, TypedT, TypedV, TypedM, exX, exY, exA, WF, modesM, modesN, IsTensor]

theorem exTyped2 : TypedS [2, 3] [exX R, exY R] [exA R] (exE2 R) := by
  simp [exE2, exT, TypedS, TypedT, TypedV, TypedM, exX, exY, exA, WF, modesM, modesN, IsTensor]

/-- the theorems applied to the concrete instance, over any commutative ring -/
example [DecidableEq R] : WF (evalT [exX R, exY R] [exA R] (exT R)) 1 ∧
    (evalT [exX R, exY R] [exA R] (exT R)).length = 2 ∧
    modesM (evalT [exX R, exY R] [exA R] (exT R)) = [2, 3] ∧
    IsTensor (evalT [exX R, exY R] [exA R] (exT R)) :=
  evalT_wf [2, 3] _ _ _ (exTypedT R)

example [DecidableEq R] : ∃ f, denseT [2, 3] (dT [exX R, exY R]) (dM [exA R]) (exT R) = some f ∧
    ∀ is : List Nat, is.length = 2 → full (evalT [exX R, exY R] [exA R] (exT R)) (tIdx is) = f is :=
  evalT_eq_dense [2, 3] _ _ _ (exTypedT R)

example [DecidableEq R] : ∃ v, denseS [2, 3] (dT [exX R, exY R]) (dM [exA R]) (exE R) = some v ∧
    evalS [exX R, exY R] [exA R] (exE R) = v :=
  evalS_eq_dense [2, 3] _ _ _ (exTyped R)

example [DecidableEq R] : ∃ v, denseS [2, 3] (dT [exX R, exY R]) (dM [exA R]) (exE2 R) = some v ∧
    evalS [exX R, exY R] [exA R] (exE2 R) = v :=
  evalS_eq_dense [2, 3] _ _ _ (exTyped2 R)

end Example

/-- numeric check over `Int`: the value computed core by core and the dense value -/
example : evalS [exX Int, exY Int] [exA Int] (exE Int) = 1746 ∧
    denseS [2, 3] (dT [exX Int, exY Int]) (dM [exA Int]) (exE Int) = some 1746 := by decide

/-- `exX` with the entry `(a, i, j, b) = (0, 1, 0, 1)` of its first core perturbed by `ε` -/
def exXd : List (Core (Dual Int)) :=
  [⟨1, 2, 1, 2, fun _ i _ b => ⟨(i + b : Nat), if i = 1 ∧ b = 1 then 1 else 0⟩⟩,
   ⟨2, 3, 1, 1, fun a i _ _ => ⟨(2 * a + i : Nat), 0⟩⟩]

theorem exTypedD : TypedS [2, 3] [exXd, exY (Dual Int)] [exA (Dual Int)] (exE (Dual Int)) := by
  simp [exE, exT, TypedS, TypedT, TypedV, TypedM, exXd, exY, exA, WF, modesM, modesN, IsTensor]

/-- `grad_eq_dense` applied: the partial derivative w.r.t. that core entry, computed through the
    TT operations, is the ε-part of the dense evaluation -/
example : ∃ w : Dual Int,
    denseSDual [2, 3] [exXd, exY (Dual Int)] [exA (Dual Int)] (exE (Dual Int)) = some w ∧
    (evalSDual [exXd, exY (Dual Int)] [exA (Dual Int)] (exE (Dual Int))).v = w.v ∧
    (evalSDual [exXd, exY (Dual Int)] [exA (Dual Int)] (exE (Dual Int))).d = w.d :=
  grad_eq_dense [2, 3] _ _ _ exTypedD

/-- numeric check over `Dual Int`: value `1746`, partial derivative `570`, on both sides -/
example : evalSDual [exXd, exY (Dual Int)] [exA (Dual Int)] (exE (Dual Int)) = ⟨1746, 570⟩ ∧
    denseSDual [2, 3] [exXd, exY (Dual Int)] [exA (Dual Int)] (exE (Dual Int)) = some ⟨1746, 570⟩ := by
  decide

/-- the same for the expression using every constructor (`exE2`, quadratic in that entry) -/
example : evalS [exX Int, exY Int] [exA Int] (exE2 Int) = 196638 ∧
    denseS [2, 3] (dT [exX Int, exY Int]) (dM [exA Int]) (exE2 Int) = some 196638 ∧
    evalSDual [exXd, exY (Dual Int)] [exA (Dual Int)] (exE2 (Dual Int)) = ⟨196638, 134016⟩ ∧
    denseSDual [2, 3] [exXd, exY (Dual Int)] [exA (Dual Int)] (exE2 (Dual Int)) =
      some ⟨196638, 134016⟩ := by decide

/-- `exX` over `Int` with the same entry increased by `1` -/
def exXp : List (Core Int) :=
  [⟨1, 2, 1, 2, fun _ i _ b => (i + b : Nat) + (if i = 1 ∧ b = 1 then 1 else 0)⟩,
   ⟨2, 3, 1, 1, fun a i _ _ => (2 * a + i : Nat)⟩]

/-- independent check of the derivative: `exE` is affine in each single core entry of `exX`, so the
    forward difference with step 1 is exactly the partial derivative: `F(x + E_p) = 1746 + 570` -/
example : evalS [exXp, exY Int] [exA Int] (exE Int) = 1746 + 570 := by decide

end TT.C15
