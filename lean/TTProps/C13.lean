import TTLemmas.DivL
import TTProps.C03

/-!
# C13 — elementwise division inverts elementwise multiplication

`torchtt/_division.py` computes `x / y` as the AMEn solve of the linear system `diag(y) q = x`; its
three local kernels contract the divisor's TT-tensor core `[s, m, S]` directly instead of building
the operator core of `diag(y)`.  This file shows

1. the three kernels of `_division.py` (`divLocalProduct`, `divPhiFwdA`, `divPhiBckA`) coincide with
   the generic AMEn kernels (`localProduct`, `phiFwdA`, `phiBckA`, C12) applied to the operator core
   `diagCore y` of `diag(y)`;
2. `diagCore` is exactly one core of `diagEmbed` (the model of `torchtt.diag`);
3. the operator `diag(y)` acts as the Hadamard product: `(diag(y) @ x)[i] = y[i] · x[i]` on every
   in-range multi-index, so the system solved by the division is `y ∗ q = x` entry by entry;
4. division by a scalar is exact and inverts multiplication by that scalar.

All statements: every order, every mode-size pattern, every rank profile, every core value over an
arbitrary commutative ring (a field for the scalar division).
-/
namespace TT.C13
open TT TT.Kern
variable {α : Type} [CommRing α]

/-! ### (1) the local matvec kernel -/

/-- `local_product` of `_division.py` is `_local_product` of the solver on the operator core of
    `diag(y)`, for every in-range mode index `m < y.m` -/
theorem divLocalProduct_eq (PL PR : Phi3 α) (y u : Core α) (l m L : Nat) (hm : m < y.m) :
    divLocalProduct PL PR y u l m L = localProduct PL PR (diagCore y) u l m L := by
  simp only [divLocalProduct, localProduct, diagCore]
  apply sumTo_congr; intro s _
  apply sumTo_congr; intro r _
  rw [sumTo_single m hm]
  · simp
  · intro n _ hne
    simp [Ne.symm hne, sumTo_zero']

/-- outside the mode range the generic kernel on `diagCore y` yields `0`: the delta never fires -/
theorem localProduct_diagCore_outOfRange (PL PR : Phi3 α) (y u : Core α) (l m L : Nat)
    (hm : y.m ≤ m) : localProduct PL PR (diagCore y) u l m L = 0 := by
  simp only [localProduct, diagCore]
  apply sumTo_eq_zero; intro s _
  apply sumTo_eq_zero; intro r _
  apply sumTo_eq_zero; intro n hn
  have : ¬ (m = n) := by omega
  simp [this, sumTo_zero']

/-- the hypothesis `m < y.m` of `divLocalProduct_eq` is needed: for `m` out of range the division
    kernel reads the raw (total) `get` of the divisor core, the generic kernel gives `0`.
    Instance: all-ones rank-1 cores with one mode entry, `m = 1`. -/
theorem divLocalProduct_outOfRange_counterexample :
    let c : Core Int := ⟨1, 1, 1, 1, fun _ _ _ _ => 1⟩
    divLocalProduct ones3 ones3 c c 0 1 0 ≠ localProduct ones3 ones3 (diagCore c) c 0 1 0 := by
  decide

/-- non-vacuity of `divLocalProduct_eq` (ranks 2, mode size 3, `m = 2`) -/
example :
    let y : Core Int := ⟨2, 3, 1, 2, fun a i _ b => (a + 2 * i + b + 1 : Int)⟩
    let u : Core Int := ⟨2, 3, 1, 2, fun a i _ b => (a * i - b + 2 : Int)⟩
    let P : Phi3 Int := fun a b c => (a + 2 * b - c + 1 : Int)
    divLocalProduct P P y u 1 2 1 = localProduct P P (diagCore y) u 1 2 1 :=
  divLocalProduct_eq _ _ _ _ 1 2 1 (by decide)

example :
    let y : Core Int := ⟨2, 3, 1, 2, fun a i _ b => (a + 2 * i + b + 1 : Int)⟩
    let u : Core Int := ⟨2, 3, 1, 2, fun a i _ b => (a * i - b + 2 : Int)⟩
    let P : Phi3 Int := fun a b c => (a + 2 * b - c + 1 : Int)
    divLocalProduct P P y u 1 2 1 = localProduct P P (diagCore y) u 1 2 1 := by decide

/-! ### (2) the interface (Phi) kernels -/

/-- `compute_phi_fwd_A` of `_division.py` is `_compute_phi_fwd_A` on the operator core of `diag(y)`
    (no range hypothesis: both contractions run over `M < y.m`) -/
theorem divPhiFwdA_eq (P : Phi3 α) (x y z : Core α) :
    divPhiFwdA P x y z = phiFwdA P x (diagCore y) z := by
  funext L S R
  simp only [divPhiFwdA, phiFwdA, diagCore]
  apply sumTo_congr; intro l _
  apply sumTo_congr; intro s _
  apply sumTo_congr; intro r _
  apply sumTo_congr; intro M hM
  rw [sumTo_single M hM]
  · simp
  · intro N _ hne
    simp [Ne.symm hne]

/-- `compute_phi_bck_A` of `_division.py` is `_compute_phi_bck_A` on the operator core of `diag(y)` -/
theorem divPhiBckA_eq (P : Phi3 α) (x y z : Core α) :
    divPhiBckA P x y z = phiBckA P x (diagCore y) z := by
  funext l s r
  simp only [divPhiBckA, phiBckA, diagCore]
  apply sumTo_congr; intro L _
  apply sumTo_congr; intro S _
  apply sumTo_congr; intro R _
  apply sumTo_congr; intro M hM
  rw [sumTo_single M hM]
  · simp
  · intro N _ hne
    simp [Ne.symm hne]

example :
    let y : Core Int := ⟨2, 3, 1, 2, fun a i _ b => (a + 2 * i + b + 1 : Int)⟩
    let u : Core Int := ⟨2, 3, 1, 2, fun a i _ b => (a * i - b + 2 : Int)⟩
    let P : Phi3 Int := fun a b c => (a + 2 * b - c + 1 : Int)
    divPhiFwdA P u y u 1 0 1 = phiFwdA P u (diagCore y) u 1 0 1 ∧
    divPhiBckA P u y u 0 1 1 = phiBckA P u (diagCore y) u 0 1 1 := by decide

/-! ### (3) `diagCore` is one core of `torchtt.diag` -/

/-- the operator train of `diag(y)` is `diagCore` core by core -/
theorem diagCore_diagEmbed (ys : List (Core α)) : diagEmbed ys = ys.map diagCore := rfl

/-! ### (4) `diag(y)` acts as the Hadamard product -/

/-- order 2, modes `2·3`, ranks `1,2,1` -/
def exY : List (Core Int) :=
  [⟨1, 2, 1, 2, fun _ i _ b => (i + 2 * b + 1 : Int)⟩, ⟨2, 3, 1, 1, fun a i _ _ => (a * i + a + 2 : Int)⟩]
def exX : List (Core Int) :=
  [⟨1, 2, 1, 2, fun _ i _ b => (2 * i - b : Int)⟩, ⟨2, 3, 1, 1, fun a i _ _ => (i - a + 1 : Int)⟩]

/-- `(diag(y) @ x)[i] = y[i] · x[i]` for every in-range multi-index `i`: the linear system
    `diag(y) q = x` solved by the division is `y ∗ q = x` entrywise.
    The shape preconditions of the code (`SameModes`, `IsTensor`) are carried as hypotheses; the
    identity itself only needs well-formed rank chains, equal order and `is` in range. -/
theorem diag_matvec_hadamard (ys xs : List (Core α)) (is : List Nat)
    (hwy : WF ys 1) (hwx : WF xs 1) (hlen : ys.length = xs.length)
    (_hmodes : SameModes ys xs) (_hty : IsTensor ys) (_htx : IsTensor xs)
    (hin : List.Forall₂ (fun i (y : Core α) => i < y.m) is ys) :
    full (matmul (diagEmbed ys) xs) (tIdx is) = full ys (tIdx is) * full xs (tIdx is) := by
  rw [dv_full_diag_matmul ys xs is hin]
  exact C03.full_mul ys xs (tIdx is) hwy hwx hlen
    (by rw [dv_length_tIdx]; exact dv_forall₂_length hin)

/-- consequently `q` solves `diag(y) q = x` at an in-range entry iff `y ∗ q = x` there -/
theorem diag_system_iff_hadamard (ys qs xs : List (Core α)) (is : List Nat)
    (hwy : WF ys 1) (hwq : WF qs 1) (hlen : ys.length = qs.length)
    (hmodes : SameModes ys qs) (hty : IsTensor ys) (htq : IsTensor qs)
    (hin : List.Forall₂ (fun i (y : Core α) => i < y.m) is ys) :
    full (matmul (diagEmbed ys) qs) (tIdx is) = full xs (tIdx is) ↔
      full ys (tIdx is) * full qs (tIdx is) = full xs (tIdx is) := by
  rw [diag_matvec_hadamard ys qs is hwy hwq hlen hmodes hty htq hin]

/-- the in-range hypothesis is needed: for an out-of-range index the operator core of `diag(y)`
    yields `0` while the raw `get` of the operands is read on the right-hand side.
    Instance: all-ones `1`-entry vectors, index `[1]`. -/
theorem diag_matvec_outOfRange_counterexample :
    let c : Core Int := ⟨1, 1, 1, 1, fun _ _ _ _ => 1⟩
    full (matmul (diagEmbed [c]) [c]) (tIdx [1]) ≠ full [c] (tIdx [1]) * full [c] (tIdx [1]) := by
  decide

/-- non-vacuity: the hypotheses hold for the concrete order-2, rank-2 trains -/
example : WF exY 1 ∧ WF exX 1 ∧ exY.length = exX.length ∧ SameModes exY exX ∧ IsTensor exY ∧
    IsTensor exX ∧ List.Forall₂ (fun i (y : Core Int) => i < y.m) [1, 2] exY := by
  simp [exY, exX, WF, SameModes, IsTensor]

example : full (matmul (diagEmbed exY) exX) (tIdx [1, 2]) =
    full exY (tIdx [1, 2]) * full exX (tIdx [1, 2]) :=
  diag_matvec_hadamard exY exX [1, 2] (by simp [exY, WF]) (by simp [exX, WF]) rfl
    (by simp [exY, exX, SameModes]) (by simp [exY, IsTensor]) (by simp [exX, IsTensor])
    (by simp [exY])

/-- numeric check of one entry, computed from the product cores -/
example : full (matmul (diagEmbed exY) exX) (tIdx [1, 2]) = 192 ∧
    full exY (tIdx [1, 2]) = 24 ∧ full exX (tIdx [1, 2]) = 8 := by decide

/-! ### (5) division by a scalar -/

/-- `(x / s).full() = x.full() / s` (restatement of `C03.full_sdiv`) -/
theorem scalar_division_exact {β : Type} [Field β] (xs : List (Core β)) (s : β)
    (ij : List (Nat × Nat)) (hne : xs ≠ []) : full (sdiv xs s) ij = full xs ij / s :=
  C03.full_sdiv xs s ij hne

/-- division by a non-zero scalar inverts multiplication by it -/
theorem scalar_division_inverts {β : Type} [Field β] (xs : List (Core β)) (s : β)
    (ij : List (Nat × Nat)) (hne : xs ≠ []) (hs : s ≠ 0) : full (sdiv xs s) ij * s = full xs ij := by
  rw [scalar_division_exact xs s ij hne, div_mul_cancel₀ _ hs]

/-- non-vacuity (any field has `1 ≠ 0`) -/
example {β : Type} [Field β] (c : Core β) (ij : List (Nat × Nat)) :
    full (sdiv [c] 1) ij * 1 = full [c] ij :=
  scalar_division_inverts [c] 1 ij (by simp) one_ne_zero

end TT.C13
